// Runner for C23: beacon extension (beaconing.DefaultExtender.Extend with a fake
// SignerGen, real ifstate.Interfaces, the real hop-field MAC) and
// path.ExpTimeFromDuration / ExpTimeToDuration.
package main

import (
	"bytes"
	"context"
	"encoding/binary"
	"errors"
	"fmt"
	"hash"
	"time"

	"google.golang.org/protobuf/proto"

	"github.com/scionproto/scion/control/beaconing"
	"github.com/scionproto/scion/control/ifstate"
	"github.com/scionproto/scion/pkg/addr"
	cppb "github.com/scionproto/scion/pkg/proto/control_plane"
	cryptopb "github.com/scionproto/scion/pkg/proto/crypto"
	"github.com/scionproto/scion/pkg/scrypto"
	"github.com/scionproto/scion/pkg/scrypto/cppki"
	seg "github.com/scionproto/scion/pkg/segment"
	"github.com/scionproto/scion/pkg/segment/extensions/discovery"
	"github.com/scionproto/scion/pkg/slayers/path"
	"github.com/scionproto/scion/private/topology"
	"verifharness/internal/vgen"
)

type ia struct{ ISD, AS uint64 }

func (a ia) addr() addr.IA  { return addr.IA(a.ISD<<48 | a.AS) }
func (a ia) term() string   { return vgen.Pair(vgen.N(a.ISD), vgen.N(a.AS)) }
func (a ia) String() string { return fmt.Sprintf("%d-%x", a.ISD, a.AS) }
func fromAddr(x addr.IA) ia { return ia{uint64(x.ISD()), uint64(x.AS())} }
func zt(v int64) string     { return fmt.Sprintf("(%d)%%Z", v) }

var pool = []ia{{1, 0x110}, {1, 0x111}, {1, 0x112}, {2, 0x210}, {2, 0x211}, {3, 0x310}}

func pickIA(r *vgen.Rand) ia { return pool[r.Intn(len(pool))] }

type intf struct {
	ID       uint16
	IA       ia
	RemoteID uint16
	MTU      uint16
}

type peerT struct {
	IA            ia
	Rif, MTU      uint64
	In, Eg        uint16
	Exp           uint8
	MAC           [6]byte
}

type entryT struct {
	Local, Next ia
	MTU, InMTU  uint64
	In, Eg      uint16
	Exp         uint8
	MAC         [6]byte
	Peers       []peerT
}

func (p peerT) term() string {
	return fmt.Sprintf("(Extend.Build_peer %s %d %d %d %d %s %s)", p.IA.term(), p.Rif, p.MTU, p.In, p.Eg,
		zt(int64(p.Exp)), vgen.Bytes(p.MAC[:]))
}

func (e entryT) term() string {
	return fmt.Sprintf("(Extend.Build_entry %s %s %d %d %d %d %s %s %s)", e.Local.term(), e.Next.term(), e.MTU, e.InMTU,
		e.In, e.Eg, zt(int64(e.Exp)), vgen.Bytes(e.MAC[:]), vgen.ListOf(e.Peers, peerT.term))
}

func fromReal(a seg.ASEntry) entryT {
	e := entryT{Local: fromAddr(a.Local), Next: fromAddr(a.Next), MTU: uint64(a.MTU), InMTU: uint64(a.HopEntry.IngressMTU),
		In: a.HopEntry.HopField.ConsIngress, Eg: a.HopEntry.HopField.ConsEgress, Exp: a.HopEntry.HopField.ExpTime,
		MAC: a.HopEntry.HopField.MAC}
	for _, p := range a.PeerEntries {
		e.Peers = append(e.Peers, peerT{IA: fromAddr(p.Peer), Rif: uint64(p.PeerInterface), MTU: uint64(p.PeerMTU),
			In: p.HopField.ConsIngress, Eg: p.HopField.ConsEgress, Exp: p.HopField.ExpTime, MAC: p.HopField.MAC})
	}
	return e
}

func (e entryT) real(hbID, sigID uint64) seg.ASEntry {
	a := seg.ASEntry{Local: e.Local.addr(), Next: e.Next.addr(), MTU: int(e.MTU)}
	a.HopEntry = seg.HopEntry{IngressMTU: int(e.InMTU),
		HopField: seg.HopField{ConsIngress: e.In, ConsEgress: e.Eg, ExpTime: e.Exp, MAC: e.MAC}}
	for _, p := range e.Peers {
		a.PeerEntries = append(a.PeerEntries, seg.PeerEntry{Peer: p.IA.addr(), PeerInterface: uint16(p.Rif), PeerMTU: int(p.MTU),
			HopField: seg.HopField{ConsIngress: p.In, ConsEgress: p.Eg, ExpTime: p.Exp, MAC: p.MAC}})
	}
	a.Signed = &cryptopb.SignedMessage{HeaderAndBody: []byte(fmt.Sprintf("m-%d", hbID)), Signature: []byte(fmt.Sprintf("m-%d", sigID))}
	return a
}

// ---- recording MAC
type macRec struct{ In, Out []byte }
type recHash struct {
	hash.Hash
	buf []byte
	rec *[]macRec
}

func (h *recHash) Write(p []byte) (int, error) { h.buf = append(h.buf, p...); return h.Hash.Write(p) }
func (h *recHash) Reset()                      { h.buf = nil; h.Hash.Reset() }
func (h *recHash) Sum(b []byte) []byte {
	out := h.Hash.Sum(nil)
	*h.rec = append(*h.rec, macRec{append([]byte(nil), h.buf...), append([]byte(nil), out...)})
	return append(b, out...)
}

// ---- fake signers
type signCall struct {
	Idx   int
	Msg   []byte
	Assoc [][]byte
}
type fakeSigner struct {
	idx   int
	val   cppki.Validity
	calls *[]signCall
}

func (s fakeSigner) Sign(_ context.Context, msg []byte, assoc ...[]byte) (*cryptopb.SignedMessage, error) {
	c := signCall{Idx: s.idx, Msg: append([]byte(nil), msg...)}
	for _, a := range assoc {
		c.Assoc = append(c.Assoc, append([]byte(nil), a...))
	}
	*s.calls = append(*s.calls, c)
	return &cryptopb.SignedMessage{HeaderAndBody: []byte("new-hb"), Signature: []byte("new-sig")}, nil
}
func (s fakeSigner) Validity() cppki.Validity { return s.val }

const unitNs = int64(24*time.Hour) / 256

func main() {
	run := vgen.Flags("C23")
	run.Imports = []string{"Model.Extend"}
	run.CheckFn = "Extend.check"
	run.DiagFn = "Extend.diag"
	run.CaseType = "Extend.case"
	run.Rule = "exp: ExpTimeFromDuration on durations at and around every multiple of the unit, the bounds and random values; " +
		"extend: real DefaultExtender on segments of 0-9 existing entries (consistent chains, 1/8 with a broken chain / first " +
		"ingress / peer egress), 4-7 interfaces (wildcard remotes, unset remote ids), ingress/egress consistent with the position " +
		"(5/6) or not, 0-3 peers (also unknown, unset, 0), max expiry over 0..255, 0-3 signers whose validity starts before/after " +
		"the segment timestamp and ends far in the future, exactly at / 1 ns around timestamp+duration(e), shortly after now or " +
		"in the past; non-trivial = extension accepted, or rejected although ingress/egress fit the position"
	rng := vgen.NewRand(run.Seed)
	ctx := context.Background()

	// ---- 1. ExpTimeFromDuration
	var ds []int64
	for k := int64(0); k <= 257; k++ {
		for _, off := range []int64{-1, 0, 1} {
			ds = append(ds, k*unitNs+off)
		}
	}
	ds = append(ds, -5, int64(24*time.Hour)+unitNs, 1<<40)
	nr := run.Count(300, 20000)
	for i := 0; i < nr; i++ {
		r := rng.Fork(uint64(5000000 + i))
		ds = append(ds, int64(r.U64()%uint64(int64(25*time.Hour))))
	}
	for _, d := range ds {
		if !run.Want() {
			run.Skip()
			continue
		}
		e, err := path.ExpTimeFromDuration(time.Duration(d))
		implT, back := "None", int64(0)
		if err == nil {
			implT = vgen.Opt(zt(int64(e)), true)
			back = int64(path.ExpTimeToDuration(e))
		}
		run.Tally(fmt.Sprintf("exp:ok=%v", err == nil))
		run.Add("exp", vgen.App("Extend.CExp", zt(d), implT, zt(back)), fmt.Sprint(d), err == nil,
			map[string]any{"d": d, "exp": e, "ok": err == nil})
	}

	// ---- 2. Extend
	ne := run.Count(2500, 40000)
	for i := 0; i < ne; i++ {
		r := rng.Fork(uint64(i))
		local := pickIA(r)
		mtu := uint16(1400)
		if r.Chance(1, 50) {
			mtu = 0
		}
		maxExp := uint8(r.Intn(256))
		if r.Chance(1, 4) {
			maxExp = vgen.Pick(r, uint8(0), 1, 63, 254, 255)
		}
		// interfaces
		var ifs []intf
		ids := []uint16{1, 2, 3, 4, 5, 6, 7, 8, 9}
		vgen.Shuffle(r, ids)
		nif := r.Range(4, 7)
		for k := 0; k < nif; k++ {
			f := intf{ID: ids[k], IA: pickIA(r), RemoteID: uint16(r.Range(1, 40)), MTU: uint16(r.Range(1200, 1500))}
			if r.Chance(1, 25) {
				f.IA = vgen.Pick(r, ia{}, ia{0, 0x110}, ia{1, 0})
			}
			if r.Chance(1, 8) {
				f.RemoteID = 0
			}
			ifs = append(ifs, f)
		}
		pickIf := func() uint16 {
			if r.Chance(1, 30) {
				return ids[nif+r.Intn(len(ids)-nif)] // unknown
			}
			return ifs[r.Intn(nif)].ID
		}
		// existing segment
		n := r.Range(0, 9)
		if r.Chance(1, 5) {
			n = 0
		}
		var entries []entryT
		for k := 0; k < n; k++ {
			e := entryT{Local: pickIA(r), MTU: 1400, InMTU: 1300, In: uint16(r.Range(1, 30)), Eg: uint16(r.Range(1, 30)),
				Exp: uint8(r.Intn(256))}
			copy(e.MAC[:], r.Bytes(6))
			if k == 0 {
				e.In = 0
			}
			for q := r.Intn(3) - 1; q > 0; q-- {
				p := peerT{IA: pickIA(r), Rif: uint64(r.Range(1, 30)), MTU: 1300, In: uint16(r.Range(1, 30)), Eg: e.Eg, Exp: e.Exp}
				copy(p.MAC[:], r.Bytes(6))
				e.Peers = append(e.Peers, p)
			}
			entries = append(entries, e)
		}
		for k := range entries {
			if k+1 < n {
				entries[k].Next = entries[k+1].Local
			} else {
				entries[k].Next = local
			}
		}
		broken := ""
		if n > 0 && r.Chance(1, 8) {
			switch r.Intn(4) {
			case 0:
				entries[0].In = uint16(r.Range(1, 5))
				broken = "first-ingress"
			case 1:
				entries[r.Intn(n)].Next = ia{9, 0x999}
				broken = "chain"
			case 2:
				entries[n-1].Next = pickIA(r)
				broken = "last-next"
			case 3:
				k := r.Intn(n)
				p := peerT{IA: pickIA(r), Rif: 3, MTU: 1300, In: 4, Eg: entries[k].Eg + 1, Exp: 1}
				entries[k].Peers = append(entries[k].Peers, p)
				broken = "peer-egress"
			}
		}
		segID := uint16(r.U64())
		// identity numbers of the signed messages of the existing entries: distinct, non-zero, unrelated to the position
		msgIDs := make([]uint64, 2*n)
		for k := range msgIDs {
			msgIDs[k] = uint64(k)
		}
		vgen.Shuffle(r, msgIDs)
		idOff := uint64(r.Range(1, 1000000))
		for k := range msgIDs {
			msgIDs[k] += idOff
		}
		// ingress / egress
		var ingress, egress uint16
		if n == 0 {
			ingress, egress = 0, pickIf()
		} else {
			ingress, egress = pickIf(), pickIf()
			if r.Chance(1, 4) {
				egress = 0
			}
		}
		if r.Chance(1, 6) {
			switch r.Intn(3) {
			case 0:
				ingress = 0
			case 1:
				if n == 0 {
					ingress = pickIf()
				} else {
					ingress, egress = 0, 0
				}
			case 2:
				ingress, egress = 0, 0
			}
		}
		var peers []uint16
		for q := r.Intn(4); q > 0; q-- {
			p := pickIf()
			if r.Chance(1, 30) {
				p = 0
			}
			peers = append(peers, p)
		}
		genErr := r.Chance(1, 40)
		// time-dependent part: drawn from the seed relative to the clock
		age := int64(r.Range(0, 20000))
		if r.Chance(1, 4) {
			age = int64(r.Range(0, 400))
		}
		type sgT struct{ NBoff, NAmode, NAval int64 }
		nsg := r.Range(0, 3)
		if r.Chance(2, 3) {
			nsg = r.Range(1, 2)
		}
		sgs := make([]sgT, nsg)
		for k := range sgs {
			sgs[k].NBoff = -int64(r.Range(0, 100000)) * 1e9
			if r.Chance(1, 10) {
				sgs[k].NBoff = int64(r.Range(1, 5000)) * 1e6
			}
			sgs[k].NAmode = vgen.Pick(r, int64(0), 0, 1, 2, 2, 3, 3, 3, 4, 5)
			switch sgs[k].NAmode {
			case 0, 1: // far in the future: now + 2h .. 40h
				sgs[k].NAval = int64(r.Range(7200, 144000)) * 1e9
			case 2, 3: // ts + duration(e) + {-1,0,1} ns, e near the maximum
				e := int64(maxExp) - int64(r.Intn(4))
				if r.Bool() {
					e = int64(r.Intn(256))
				}
				if e < 0 {
					e = 0
				}
				sgs[k].NAval = (e+1)*unitNs + int64(r.Intn(3)) - 1
			case 4: // shortly after now
				sgs[k].NAval = int64(r.Range(10, 900)) * 1e9
			case 5: // expired
				sgs[k].NAval = -int64(r.Range(10, 1000)) * 1e9
			}
		}
		if !run.Want() {
			run.Skip()
			continue
		}

		// ---- build the real objects
		key := r.Bytes(16)
		factory, err := scrypto.HFMacFactory(key)
		if err != nil {
			panic(err)
		}
		var macs []macRec
		recFactory := func() hash.Hash { return &recHash{Hash: factory(), rec: &macs} }
		m := map[uint16]ifstate.InterfaceInfo{}
		for _, f := range ifs {
			m[f.ID] = ifstate.InterfaceInfo{ID: f.ID, IA: f.IA.addr(), LinkType: topology.Child, RemoteID: f.RemoteID, MTU: f.MTU}
		}
		now0 := time.Now()
		tsSec := now0.Unix() - age
		tsNs := tsSec * 1e9
		var calls []signCall
		var signers []beaconing.Signer
		type sgOut struct{ NB, NA int64 }
		var sgo []sgOut
		for k, s := range sgs {
			nb := tsNs + s.NBoff
			var na int64
			switch s.NAmode {
			case 2, 3:
				na = tsNs + s.NAval
				// keep clear of the clock: the covering test must not depend on when exactly Extend runs
				if d := na - now0.UnixNano(); d > -10e9 && d < 10e9 {
					na += 20e9
				}
			default:
				na = now0.UnixNano() + s.NAval
			}
			sgo = append(sgo, sgOut{nb, na})
			signers = append(signers, fakeSigner{idx: k, val: cppki.Validity{NotBefore: time.Unix(0, nb), NotAfter: time.Unix(0, na)},
				calls: &calls})
		}
		ext := &beaconing.DefaultExtender{
			IA: local.addr(),
			SignerGen: beaconing.SignerGenFunc(func(context.Context) ([]beaconing.Signer, error) {
				if genErr {
					return nil, errors.New("no signer")
				}
				return signers, nil
			}),
			MAC: recFactory, Intfs: ifstate.NewInterfaces(m, ifstate.Config{}), MTU: mtu,
			MaxExpTime:           func() uint8 { return maxExp },
			StaticInfo:           func() *beaconing.StaticInfoCfg { return nil },
			DiscoveryInformation: func() *discovery.Extension { return nil },
		}
		ps, err := seg.CreateSegment(time.Unix(tsSec, 0), segID)
		if err != nil {
			panic(err)
		}
		for k, e := range entries {
			ps.ASEntries = append(ps.ASEntries, e.real(msgIDs[2*k], msgIDs[2*k+1]))
		}
		// accumulated SegID, computed independently of extractBeta
		beta := segID
		for _, e := range entries {
			beta ^= binary.BigEndian.Uint16(e.MAC[:2])
		}
		var xerr error
		panicked, pmsg := vgen.Recover(func() { xerr = ext.Extend(ctx, ps, ingress, egress, peers) })
		now1 := time.Now()
		_ = now1

		obsT := "None"
		var obsD any = "rejected"
		assocIDs := []uint64{}
		accepted := !panicked && xerr == nil
		if accepted {
			ne := ps.ASEntries[len(ps.ASEntries)-1]
			et := fromReal(ne)
			// signer and what it signed
			sidx, assoc, bodyOK := uint64(999), []uint64{}, false
			if len(calls) > 0 {
				c := calls[len(calls)-1]
				sidx = uint64(c.Idx)
				for _, a := range c.Assoc {
					code := uint64(999)
					if bytes.Equal(a, ps.Info.Raw) {
						code = 0
					}
					id := uint64(999999999)
					if code == 0 {
						id = 0
					}
					for k := range entries {
						if string(a) == fmt.Sprintf("m-%d", msgIDs[2*k]) {
							code, id = uint64(2*k+1), msgIDs[2*k]
						}
						if string(a) == fmt.Sprintf("m-%d", msgIDs[2*k+1]) {
							code, id = uint64(2*k+2), msgIDs[2*k+1]
						}
					}
					assoc = append(assoc, code)
					assocIDs = append(assocIDs, id)
				}
				var body cppb.ASEntrySignedBody
				if proto.Unmarshal(c.Msg, &body) == nil && body.HopEntry != nil && body.HopEntry.HopField != nil {
					hf := body.HopEntry.HopField
					bodyOK = body.IsdAs == uint64(ne.Local) && body.NextIsdAs == uint64(ne.Next) && body.Mtu == uint32(ne.MTU) &&
						body.HopEntry.IngressMtu == uint32(ne.HopEntry.IngressMTU) &&
						hf.ExpTime == uint32(ne.HopEntry.HopField.ExpTime) && hf.Ingress == uint64(ne.HopEntry.HopField.ConsIngress) &&
						hf.Egress == uint64(ne.HopEntry.HopField.ConsEgress) && bytes.Equal(hf.Mac, ne.HopEntry.HopField.MAC[:]) &&
						len(body.PeerEntries) == len(ne.PeerEntries)
					for k := 0; bodyOK && k < len(ne.PeerEntries); k++ {
						p, q := body.PeerEntries[k], ne.PeerEntries[k]
						bodyOK = p.HopField != nil && p.PeerIsdAs == uint64(q.Peer) && p.PeerInterface == uint64(q.PeerInterface) &&
							p.PeerMtu == uint32(q.PeerMTU) && p.HopField.ExpTime == uint32(q.HopField.ExpTime) &&
							p.HopField.Ingress == uint64(q.HopField.ConsIngress) && p.HopField.Egress == uint64(q.HopField.ConsEgress) &&
							bytes.Equal(p.HopField.Mac, q.HopField.MAC[:])
					}
				}
			}
			// the router's MAC function under the accumulated SegID
			hf := ne.HopEntry.HopField
			want := path.MAC(factory(), path.InfoField{SegID: beta, Timestamp: uint32(tsSec)},
				path.HopField{ExpTime: hf.ExpTime, ConsIngress: hf.ConsIngress, ConsEgress: hf.ConsEgress}, nil)
			macsOK := want == hf.MAC
			pbeta := beta ^ binary.BigEndian.Uint16(hf.MAC[:2])
			for _, p := range ne.PeerEntries {
				w := path.MAC(factory(), path.InfoField{SegID: pbeta, Timestamp: uint32(tsSec)},
					path.HopField{ExpTime: p.HopField.ExpTime, ConsIngress: p.HopField.ConsIngress, ConsEgress: p.HopField.ConsEgress}, nil)
				macsOK = macsOK && w == p.HopField.MAC
			}
			obsT = fmt.Sprintf("(Some (Extend.Build_obs %s %d %s %s %s))", et.term(), sidx, vgen.NList(assoc),
				vgen.B(bodyOK), vgen.B(macsOK))
			obsD = map[string]any{"entry": fmt.Sprintf("%+v", et), "signer": sidx, "assoc": assoc, "body_ok": bodyOK, "macs_ok": macsOK, "assoc_ids": assocIDs}
			run.Tally(fmt.Sprintf("accepted:peers=%d", len(ne.PeerEntries)))
			if hf.ExpTime < maxExp {
				run.Tally("accepted:expiry-shortened")
			}
		} else {
			run.Tally("rejected")
		}
		first := n == 0
		posBad := (ingress == 0 && !first) || (ingress != 0 && first) || (ingress == 0 && egress == 0)
		if posBad {
			run.Tally("position-inconsistent")
		}
		if broken != "" {
			run.Tally("segment-broken:" + broken)
		}

		ifT := vgen.ListOf(ifs, func(f intf) string {
			return fmt.Sprintf("(%d, Extend.Build_intf %s %d %d)", f.ID, f.IA.term(), f.RemoteID, f.MTU)
		})
		cfgT := fmt.Sprintf("(Extend.Build_cfg %s %d %s %s)", local.term(), mtu, zt(int64(maxExp)), ifT)
		sgT2 := vgen.ListOf(sgo, func(s sgOut) string { return fmt.Sprintf("(Extend.Build_signer %s %s)", zt(s.NB), zt(s.NA)) })
		entT := make([]string, len(entries))
		for k, e := range entries {
			entT[k] = fmt.Sprintf("(%s, (%d, %d))", e.term(), msgIDs[2*k], msgIDs[2*k+1])
		}
		segT := fmt.Sprintf("(Extend.Build_segment %s %d %s)", zt(tsSec), segID, vgen.List(entT))
		macT := vgen.ListOf(macs, func(m macRec) string { return vgen.Pair(vgen.Bytes(m.In), vgen.Bytes(m.Out)) })
		pe := make([]uint64, len(peers))
		for k, p := range peers {
			pe[k] = uint64(p)
		}
		term := vgen.App("Extend.CExt2", cfgT, sgT2, vgen.B(genErr), zt(now0.UnixNano()), segT,
			vgen.N(uint64(ingress)), vgen.N(uint64(egress)), vgen.NList(pe), macT, obsT, vgen.NList(assocIDs))
		desc := map[string]any{"local": local.String(), "mtu": mtu, "max_exp": maxExp, "ifs": fmt.Sprintf("%+v", ifs), "n": n,
			"broken": broken, "ingress": ingress, "egress": egress, "peers": peers, "age_s": age, "signers": fmt.Sprintf("%+v", sgs),
			"gen_err": genErr, "impl": obsD}
		// the key of a case must not depend on the clock
		key2 := fmt.Sprint(local, mtu, maxExp, ifs, entries, segID, ingress, egress, peers, age, sgs, genErr)
		id := run.Add("extend", term, key2, accepted || !posBad, desc)
		if panicked {
			run.Violate(id, "Extend panicked: "+pmsg, desc)
		}
	}
	run.Finish()
}
