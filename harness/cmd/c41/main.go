// Runner for C41: the real gateway frame encoder (encoder.Read over its packet
// ring) and the real ingress worker (processFrame, reassembly lists, frame
// buffers) are driven through gateway/dataplane/export_verif.go (build tag verif).
//
// Case kinds (Model/GwFrame.v):
//
//	CEnc  one encoder under a write/read schedule: result of every Read, frames after Close
//	CE2E  one or more encoders, their frames delivered to one worker according to a plan
//	      (in order / deletion / duplication / reordering / cleanup ticks / corrupted frames)
//	CRx   arbitrary and mutated frames fed to a worker
package main

import (
	"encoding/binary"
	"fmt"
	"strings"
	"time"

	"github.com/scionproto/scion/gateway/dataplane"
	"verifharness/internal/vgen"
)

// ---------------------------------------------------------------- packets

// validIP mirrors the rule documented for the encoder ("a valid IPv4 or IPv6
// packet"); it is used only to keep the schedule from issuing a Read that would
// block and to compute tags and non-triviality, never as an oracle.
func validIP(p []byte) bool {
	if len(p) == 0 {
		return false
	}
	switch p[0] >> 4 {
	case 4:
		return len(p) >= 20 && int(binary.BigEndian.Uint16(p[2:4])) == len(p)
	case 6:
		return len(p) >= 40 && 40+int(binary.BigEndian.Uint16(p[4:6])) == len(p)
	}
	return false
}

func mkV4(r *vgen.Rand, n int) []byte {
	p := r.Bytes(n)
	p[0] = 0x40 | byte(r.Range(5, 15))
	binary.BigEndian.PutUint16(p[2:4], uint16(n))
	return p
}

func mkV6(r *vgen.Rand, n int) []byte {
	p := r.Bytes(n)
	p[0] = 0x60 | byte(r.Intn(16))
	binary.BigEndian.PutUint16(p[4:6], uint16(n-40))
	return p
}

// genLen draws a packet length: mostly short, boundaries around 20/40 and around
// multiples of the frame room, sometimes long.
func genLen(r *vgen.Rand, min, maxLen, room int) int {
	var n int
	switch r.Intn(10) {
	case 0:
		n = min + r.Intn(4)
	case 1:
		n = vgen.Pick(r, 39, 40, 41, 59, 60)
	case 2, 3:
		k := r.Range(1, 4)
		n = k*room + r.Range(-2, 2)
	case 4:
		n = r.Range(min, maxLen)
	default:
		n = r.Range(min, min+120)
	}
	if n < min {
		n = min
	}
	if n > maxLen {
		n = maxLen
	}
	return n
}

func genValid(r *vgen.Rand, maxLen, room int) []byte {
	if r.Bool() {
		return mkV4(r, genLen(r, 20, maxLen, room))
	}
	return mkV6(r, genLen(r, 40, maxLen, room))
}

func genInvalid(r *vgen.Rand, maxLen, room int) []byte {
	switch r.Intn(9) {
	case 0:
		return []byte{}
	case 1: // other version nibble
		p := genValid(r, maxLen, room)
		p[0] = byte(vgen.Pick(r, 0, 1, 3, 5, 7, 15))<<4 | p[0]&0xf
		return p
	case 2: // v4 length field off
		p := mkV4(r, genLen(r, 20, maxLen, room))
		binary.BigEndian.PutUint16(p[2:4], uint16(len(p)+vgen.Pick(r, -1, 1, 7, -20, 256)))
		return p
	case 3: // v6 length field off
		p := mkV6(r, genLen(r, 40, maxLen, room))
		binary.BigEndian.PutUint16(p[4:6], uint16(len(p)-40+vgen.Pick(r, -1, 1, 40, 255)))
		return p
	case 4: // v4 shorter than a header
		p := r.Bytes(r.Range(1, 19))
		p[0] = 0x45
		if len(p) >= 4 {
			binary.BigEndian.PutUint16(p[2:4], uint16(len(p)))
		}
		return p
	case 5: // v6 shorter than a header
		p := r.Bytes(r.Range(1, 39))
		p[0] = 0x60
		if len(p) >= 6 {
			binary.BigEndian.PutUint16(p[4:6], 0)
		}
		return p
	case 6: // v4 truncated
		p := mkV4(r, genLen(r, 21, maxLen, room))
		return p[:len(p)-r.Range(1, len(p)-20)]
	case 7: // v6 with trailing bytes
		p := mkV6(r, genLen(r, 40, maxLen, room))
		return append(p, r.Bytes(r.Range(1, 5))...)
	default:
		return r.Bytes(r.Range(1, 60))
	}
}

// ---------------------------------------------------------------- sender side

type eop struct {
	write bool
	pkt   []byte
}

type intent struct {
	kind int // 0 write valid, 1 write invalid, 2 read
	pkt  []byte
}

type senderRun struct {
	mtu      int
	sess     uint8
	stream   uint32
	ops      []eop
	reads    [][]byte // result of every scheduled Read (nil = nil)
	drain    [][]byte
	hung     bool
	ringFull int
}

func (s *senderRun) frames() [][]byte {
	var out [][]byte
	for _, f := range s.reads {
		if f != nil {
			out = append(out, f)
		}
	}
	return append(out, s.drain...)
}

func (s *senderRun) sent() [][]byte {
	var out [][]byte
	for _, o := range s.ops {
		if o.write && validIP(o.pkt) {
			out = append(out, o.pkt)
		}
	}
	return out
}

// readWatch runs encoder.Read under a watchdog.
func readWatch(e *dataplane.VerifEncoder) (frame []byte, hung bool) {
	ch := make(chan []byte, 1)
	go func() { ch <- e.Read() }()
	select {
	case f := <-ch:
		return f, false
	case <-time.After(10 * time.Second):
		return nil, true
	}
}

// runSender executes the intents on a real encoder. A Read is issued only when
// it cannot block: part of a packet is pending or a valid packet was written
// since the last Read. After the intents the ring is closed and drained.
func runSender(mtu int, sess uint8, stream uint32, intents []intent) *senderRun {
	s := &senderRun{mtu: mtu, sess: sess, stream: stream}
	e := dataplane.VerifNewEncoder(sess, stream, uint16(mtu))
	validSince := false
	for _, it := range intents {
		if it.kind == 2 {
			if e.Pending() > 0 || validSince {
				f, hung := readWatch(e)
				if hung {
					s.hung = true
					e.Close()
					return s
				}
				s.ops = append(s.ops, eop{})
				s.reads = append(s.reads, f)
				validSince = false
			}
			continue
		}
		if !e.Write(it.pkt) {
			s.ringFull++
			continue
		}
		s.ops = append(s.ops, eop{write: true, pkt: it.pkt})
		if validIP(it.pkt) {
			validSince = true
		}
	}
	e.Close()
	for n := 0; ; n++ {
		f, hung := readWatch(e)
		if hung || n > 200000 {
			s.hung = true
			return s
		}
		if f == nil {
			break
		}
		s.drain = append(s.drain, f)
	}
	return s
}

func genIntents(r *vgen.Rand, mtu, npk, maxLen int, pInvalid, pRead int) []intent {
	room := mtu - 16
	var its []intent
	for i := 0; i < npk; i++ {
		if r.Chance(pInvalid, 100) {
			its = append(its, intent{kind: 1, pkt: genInvalid(r, maxLen, room)})
		} else {
			its = append(its, intent{kind: 0, pkt: genValid(r, maxLen, room)})
		}
		for r.Chance(pRead, 100) {
			its = append(its, intent{kind: 2})
		}
	}
	return its
}

func genMTU(r *vgen.Rand, small bool) int {
	switch r.Intn(8) {
	case 0:
		return vgen.Pick(r, 57, 57, 58, 59, 60, 56)
	case 1:
		return vgen.Pick(r, 64, 72, 76, 96, 100, 128)
	case 2:
		if !small {
			return vgen.Pick(r, 1280, 1400, 1472, 1500)
		}
		return r.Range(57, 256)
	case 3:
		if !small {
			return r.Range(57, 1500)
		}
		return r.Range(57, 512)
	default:
		return r.Range(57, 256)
	}
}

// ---------------------------------------------------------------- printing

// pN prints an N literal (N_scope is open in the case files).
func pN(v uint64) string { return fmt.Sprintf("%d", v) }

// pBytes prints a byte string as (HX len [words]) with seven bytes per primitive
// integer (Lib/GwHex.v).
func pBytes(b []byte) string {
	var sb strings.Builder
	if len(b) == 0 {
		return "[]"
	}
	fmt.Fprintf(&sb, "(HX %d [", len(b))
	for i := 0; i < len(b); i += 7 {
		if i > 0 {
			sb.WriteByte(';')
		}
		j := i + 7
		if j > len(b) {
			j = len(b)
		}
		fmt.Fprintf(&sb, "0x%x", b[i:j])
	}
	sb.WriteString("])")
	return sb.String()
}

func printEops(ops []eop) string {
	return vgen.ListOf(ops, func(o eop) string {
		if o.write {
			return vgen.App("EWrite", pBytes(o.pkt))
		}
		return "ERead"
	})
}

func printFrames(fs [][]byte) string { return vgen.ListOf(fs, pBytes) }

func printOut(out [][][]byte) string { return vgen.ListOf(out, printFrames) }

func descPkts(ps [][]byte) string {
	var sb strings.Builder
	for i, p := range ps {
		if i > 0 {
			sb.WriteByte(' ')
		}
		v := "x"
		if len(p) > 0 {
			v = fmt.Sprintf("%d", p[0]>>4)
		}
		ok := "!"
		if validIP(p) {
			ok = ""
		}
		fmt.Fprintf(&sb, "v%s/%d%s", v, len(p), ok)
	}
	return sb.String()
}

func descOps(ops []eop) string {
	var sb strings.Builder
	for _, o := range ops {
		if o.write {
			ok := "!"
			if validIP(o.pkt) {
				ok = ""
			}
			fmt.Fprintf(&sb, "W%d%s ", len(o.pkt), ok)
		} else {
			sb.WriteString("R ")
		}
	}
	return sb.String()
}

func keyBytes(parts ...[]byte) string {
	var sb strings.Builder
	for _, p := range parts {
		fmt.Fprintf(&sb, "%x|", p)
	}
	return sb.String()
}

// ---------------------------------------------------------------- receiver side

type dop struct {
	kind int // 0 idx, 1 raw, 2 tick
	s, i int
	raw  []byte
}

func printPlan(plan []dop) string {
	return vgen.ListOf(plan, func(d dop) string {
		switch d.kind {
		case 0:
			return vgen.App("DIdx", pN(uint64(d.s)), pN(uint64(d.i)))
		case 1:
			return vgen.App("DRaw", pBytes(d.raw))
		}
		return "DTick"
	})
}

func descPlan(plan []dop) string {
	var sb strings.Builder
	for _, d := range plan {
		switch d.kind {
		case 0:
			fmt.Fprintf(&sb, "%d.%d ", d.s, d.i)
		case 1:
			fmt.Fprintf(&sb, "raw%d ", len(d.raw))
		default:
			sb.WriteString("tick ")
		}
	}
	return sb.String()
}

// runWorker feeds the operations to a real worker and returns what it wrote to
// the tunnel after every operation.
func runWorker(sess uint8, n int, op func(i int, w *dataplane.VerifWorker)) (out [][][]byte, panicMsg string) {
	w := dataplane.VerifNewWorker(sess)
	defer w.Release()
	p, msg := vgen.Recover(func() {
		for i := 0; i < n; i++ {
			op(i, w)
			out = append(out, w.Emitted())
		}
	})
	if p {
		return out, msg
	}
	return out, ""
}

// mutateFrame corrupts one genuine frame.
func mutateFrame(r *vgen.Rand, f []byte) []byte {
	g := append([]byte{}, f...)
	if len(g) < 16 {
		return g
	}
	switch r.Intn(12) {
	case 0: // index
		binary.BigEndian.PutUint16(g[2:4], uint16(vgen.Pick(r, 0, 1, 0xffff, 0xfffe, len(g)-16, len(g)-17, r.Intn(len(g)))))
	case 1: // sequence number
		seq := binary.BigEndian.Uint64(g[8:16])
		binary.BigEndian.PutUint64(g[8:16], seq+uint64(vgen.Pick(r, 1, 2, 100, -1)))
	case 2: // stream
		binary.BigEndian.PutUint32(g[4:8], binary.BigEndian.Uint32(g[4:8])^uint32(vgen.Pick(r, 1, 0x100000, 0xfff00000)))
	case 3: // truncate
		g = g[:r.Range(0, len(g)-1)]
	case 4: // version
		g[0] = byte(r.Range(1, 255))
	case 5: // payload byte (often a length field or version nibble)
		if len(g) > 16 {
			k := 16 + r.Intn(intMin(len(g)-16, 8))
			g[k] ^= byte(1 << r.Intn(8))
		}
	case 6:
		if len(g) > 16 {
			k := 16 + r.Intn(len(g)-16)
			g[k] = byte(r.U64())
		}
	case 7: // trailing garbage
		g = append(g, r.Bytes(r.Range(1, 40))...)
	case 8: // index into the packet stream at a wrong place
		binary.BigEndian.PutUint16(g[2:4], uint16(r.Intn(len(g)-15)))
	case 9: // session byte (ignored by the worker)
		g[1] ^= 0xff
	case 10: // header only
		g = g[:16]
	default: // index says "no packet start"
		binary.BigEndian.PutUint16(g[2:4], 0xffff)
	}
	return g
}

func intMin(a, b int) int {
	if a < b {
		return a
	}
	return b
}

// genPlan draws a delivery plan over the frames of the senders.
// mode 0: one sender in order; 1: deletion; 2: duplication; 3: local reordering;
// 4: shuffle; 5: mix of everything with ticks; 6: mix plus corrupted frames.
func genPlan(r *vgen.Rand, frames [][][]byte, mode int) []dop {
	var base []dop
	if len(frames) == 1 {
		for i := range frames[0] {
			base = append(base, dop{s: 0, i: i})
		}
	} else {
		// interleave the senders, each in order
		pos := make([]int, len(frames))
		for {
			var live []int
			for s := range frames {
				if pos[s] < len(frames[s]) {
					live = append(live, s)
				}
			}
			if len(live) == 0 {
				break
			}
			s := live[r.Intn(len(live))]
			k := r.Range(1, 3)
			for ; k > 0 && pos[s] < len(frames[s]); k-- {
				base = append(base, dop{s: s, i: pos[s]})
				pos[s]++
			}
		}
	}
	if mode == 0 {
		return base
	}
	del := mode == 1 || mode >= 5
	dup := mode == 2 || mode >= 5
	reo := mode == 3 || mode >= 5
	var plan []dop
	pDel := r.Range(3, 30)
	pDup := r.Range(3, 30)
	for _, d := range base {
		if del && r.Chance(pDel, 100) {
			continue
		}
		plan = append(plan, d)
		if dup && r.Chance(pDup, 100) {
			// duplicate now or a little later
			plan = append(plan, d)
		}
		if mode >= 5 && r.Chance(10, 100) {
			plan = append(plan, dop{kind: 2})
			if r.Bool() {
				plan = append(plan, dop{kind: 2})
			}
		}
		if mode == 6 && r.Chance(10, 100) {
			plan = append(plan, dop{kind: 1, raw: mutateFrame(r, frames[d.s][d.i])})
		}
	}
	if reo {
		// swaps within a small window
		w := r.Range(1, 4)
		for k := 0; k < len(plan)/3+1; k++ {
			if len(plan) < 2 {
				break
			}
			a := r.Intn(len(plan))
			b := a + r.Range(1, w)
			if b < len(plan) {
				plan[a], plan[b] = plan[b], plan[a]
			}
		}
	}
	if mode == 4 {
		vgen.Shuffle(r, plan)
	}
	if mode >= 2 && r.Chance(30, 100) && len(base) > 0 {
		// late duplicates of old frames
		for k := r.Range(1, 3); k > 0; k-- {
			plan = append(plan, base[r.Intn(len(base))])
		}
	}
	return plan
}

// ---------------------------------------------------------------- main

func main() {
	run := vgen.Flags("C41")
	run.Imports = []string{"Lib.GwHex", "Model.GwFrame"}
	run.CheckFn = "GwFrame.check"
	run.DiagFn = "GwFrame.diag"
	run.CaseType = "GwFrame.case"
	run.Prelude = "From Coq Require Import Uint63.\nImport GwFrame."
	run.ShardSize = 36
	run.Rule = "CEnc: seeded write/read schedules (valid v4/v6 packets with correct length fields, " +
		"~15% invalid ones, reads only when they cannot block), frame sizes 56..1500 biased to 57..256; " +
		"non-trivial = some packet spans two or more frames or an invalid packet was skipped. " +
		"CE2E: 1-3 real encoders with distinct streams, frames delivered to one real worker in order / " +
		"with deletion, duplication, local reordering, shuffles, cleanup ticks, corrupted copies; every sixth case " +
		"is a twin-stream case (same session, frame size and packet lengths, 20-bit stream ids that collide in " +
		"the low 16/15/12/8 bits, frames interleaved position by position with losses), every sixth one delivers " +
		"all frames in order with worker.cleanup ticks between them (never two in a row; must lose nothing); " +
		"non-trivial = the worker reassembled at least one packet from two or more frames. " +
		"CRx: mutated genuine frames and random frames; non-trivial = the worker emitted something."
	r := vgen.NewRand(run.Seed)
	thorough := run.Tier == "thorough"

	nEnc := run.Count(40, 800)
	nE2E := run.Count(160, 4000)
	nRx := run.Count(60, 1200)

	maxLenFor := func(cr *vgen.Rand) int {
		if thorough {
			switch cr.Intn(30) {
			case 0:
				return 9000
			case 1, 2, 3, 4, 5, 6:
				return 1500
			}
			return 400
		}
		if cr.Intn(12) == 0 {
			return 500
		}
		return 180
	}

	mkSender := func(cr *vgen.Rand, sess uint8, stream uint32, npkMax int) *senderRun {
		mtu := genMTU(cr, !thorough)
		maxLen := maxLenFor(cr)
		npk := cr.Range(1, npkMax)
		pInv := vgen.Pick(cr, 0, 10, 15, 30)
		pRead := vgen.Pick(cr, 0, 0, 20, 50, 70)
		its := genIntents(cr, mtu, npk, maxLen, pInv, pRead)
		return runSender(mtu, sess, stream, its)
	}

	spans := func(s *senderRun) bool {
		for _, p := range s.sent() {
			if len(p) > s.mtu-16 {
				return true
			}
		}
		// a shorter packet can still straddle two frames
		return len(s.frames()) > 1 && len(s.sent()) > 0
	}

	knownTags := func(ss []*senderRun) []string {
		for _, s := range ss {
			for _, p := range s.sent() {
				if len(p) > 40+(dataplane.VerifReassemblyListCap-1)*(s.mtu-16) {
					return []string{"rlist-capacity"}
				}
			}
		}
		return nil
	}

	// ---- CEnc
	for i := 0; i < nEnc; i++ {
		cr := r.Fork(uint64(i))
		if !run.Want() {
			run.Skip()
			continue
		}
		s := mkSender(cr, uint8(cr.Intn(256)), uint32(cr.U64()), 8)
		desc := map[string]any{"mtu": s.mtu, "sess": s.sess, "stream": s.stream, "ops": descOps(s.ops),
			"frames": len(s.frames()), "ring_full": s.ringFull}
		if s.hung {
			run.Violate(run.Add("enc", "(CEnc 0 0 0 [] [] [])", "hung", false, desc), "encoder.Read blocked or never returned nil", desc)
			continue
		}
		reads := vgen.ListOf(s.reads, func(f []byte) string { return vgen.Opt(pBytes(f), f != nil) })
		term := vgen.App("CEnc", pN(uint64(s.mtu)), pN(uint64(s.sess)), pN(uint64(s.stream)),
			printEops(s.ops), reads, printFrames(s.drain))
		skipped := false
		for _, o := range s.ops {
			if o.write && !validIP(o.pkt) {
				skipped = true
			}
		}
		run.Tally(fmt.Sprintf("enc.mtu:%s", bucket(s.mtu)))
		run.Add("enc", term, fmt.Sprintf("%d|%s", s.mtu, descOps(s.ops)), spans(s) || skipped, desc)
	}

	// ---- CE2E
	for i := 0; i < nE2E; i++ {
		cr := r.Fork(uint64(1000000 + i))
		if !run.Want() {
			run.Skip()
			continue
		}
		sess := uint8(cr.Intn(256))
		nsnd := 1
		mode := vgen.Pick(cr, 0, 0, 0, 1, 1, 2, 3, 3, 4, 5, 5, 6)
		forceKnown := !thorough && i == 0 || thorough && i%500 == 0
		// boundary of the reassembly list: one packet spanning exactly 100 frames
		forceEdge := !thorough && i == 1 || thorough && i%500 == 1
		if mode != 0 && cr.Chance(25, 100) && !forceKnown && !forceEdge {
			nsnd = cr.Range(2, 3)
		}
		// twin streams: two (or three) senders of one session with the same frame size and the
		// same packet lengths (different contents) whose 20-bit stream ids agree in the low 16
		// (or low 8, or all but the top 4 ... ) bits; frames interleaved position by position
		// with losses, so that a frame of one stream is "consecutive" to a pending frame of
		// another one if the receiver ever mixes the streams up.
		twins := !forceKnown && !forceEdge && i%6 == 2
		if twins {
			nsnd = vgen.Pick(cr, 2, 2, 2, 3)
		}
		if !forceKnown && !forceEdge && i%6 == 4 {
			nsnd = vgen.Pick(cr, 1, 1, 1, 2)
		}
		var ss []*senderRun
		hung := false
		base := uint32(cr.U64())
		// stream ids from the full 20-bit space (upper 12 bits are random and masked by the encoder)
		delta := vgen.Pick(cr, uint32(1), 7, 0x100, 0x1000, 0x10000, 0x30000, 0x50000, 0x80000, 0xf0000,
			0x100001, 0x100000)
		if twins {
			delta = vgen.Pick(cr, uint32(0x10000), 0x10000, 0x20000, 0x40000, 0x70000, 0xf0000, 0x100, 0x8000, 0x1000)
		}
		var twinIntents []intent
		twinMTU := 0
		if twins {
			twinMTU = vgen.Pick(cr, 57, 60, 64, 76, 100)
			for k := cr.Range(1, 3); k > 0; k-- {
				n := cr.Range(twinMTU-16+1, 3*(twinMTU-16))
				twinIntents = append(twinIntents, intent{kind: 0, pkt: make([]byte, n)})
			}
		}
		for k := 0; k < nsnd; k++ {
			var s *senderRun
			if twins {
				its := make([]intent, len(twinIntents))
				for j, it := range twinIntents {
					n := len(it.pkt)
					if n >= 40 && (k+j)%2 == 1 {
						its[j] = intent{kind: 0, pkt: mkV6(cr, n)}
					} else {
						its[j] = intent{kind: 0, pkt: mkV4(cr, n)}
					}
				}
				s = runSender(twinMTU, sess, base+uint32(k)*delta, its)
			} else if forceKnown {
				// witness of the known finding: one packet spanning more than 100 frames
				n := 40 + 99*41 + cr.Range(2, 60)
				s = runSender(57, sess, base, []intent{{kind: 0, pkt: mkV4(cr, 30)},
					{kind: 0, pkt: mkV4(cr, n)}, {kind: 0, pkt: mkV6(cr, 50)}})
			} else if forceEdge {
				s = runSender(57, sess, base, []intent{{kind: 0, pkt: mkV4(cr, 40+99*41)},
					{kind: 0, pkt: mkV6(cr, 60)}})
			} else {
				s = mkSender(cr, sess, base+uint32(k)*delta, 7)
			}
			hung = hung || s.hung
			ss = append(ss, s)
		}
		if forceKnown || forceEdge {
			mode = 0
		}
		var frames [][][]byte
		for _, s := range ss {
			frames = append(frames, s.frames())
		}
		plan := genPlan(cr, frames, mode)
		// in-order delivery with cleanup ticks, never two in a row: a tick before each frame with
		// probability pTick (100 = a tick between all frames), possibly one at the end
		ticked := !forceKnown && !forceEdge && !twins && i%6 == 4
		if ticked {
			mode = 8
			pTick := vgen.Pick(cr, 100, 100, 60, 30)
			plan = nil
			for _, d := range genPlan(cr, frames, 0) {
				if cr.Chance(pTick, 100) {
					plan = append(plan, dop{kind: 2})
				}
				plan = append(plan, d)
			}
			if cr.Bool() {
				plan = append(plan, dop{kind: 2})
			}
		}
		if twins {
			mode = 7
			plan = nil
			maxn := 0
			for _, fs := range frames {
				if len(fs) > maxn {
					maxn = len(fs)
				}
			}
			for j := 0; j < maxn; j++ {
				// which senders' frame j get through, and in which order
				order := cr.Intn(nsnd)
				for t := 0; t < nsnd; t++ {
					k := (order + t) % nsnd
					if j < len(frames[k]) && cr.Chance(55, 100) {
						plan = append(plan, dop{s: k, i: j})
					}
				}
			}
		}
		desc := map[string]any{"mode": mode, "plan": descPlan(plan)}
		for k, s := range ss {
			desc[fmt.Sprintf("sender%d", k)] = map[string]any{"mtu": s.mtu, "stream": s.stream,
				"ops": descOps(s.ops), "frames": len(frames[k])}
		}
		if hung {
			run.Violate(run.Add("e2e", "(CE2E [] [] [])", "hung", false, desc), "encoder.Read blocked or never returned nil", desc)
			continue
		}
		out, pmsg := runWorker(sess, len(plan), func(j int, w *dataplane.VerifWorker) {
			d := plan[j]
			switch d.kind {
			case 0:
				w.Deliver(frames[d.s][d.i])
			case 1:
				w.Deliver(d.raw)
			default:
				w.Cleanup()
			}
		})
		tags := knownTags(ss)
		if pmsg != "" {
			desc["panic"] = pmsg
			run.Violate(run.Add("e2e", "(CE2E [] [] [])", "panic", false, desc, tags...), "worker panicked", desc, tags...)
			continue
		}
		emitted := 0
		reassembled := false
		for _, o := range out {
			emitted += len(o)
			for _, p := range o {
				for _, s := range ss {
					if len(p) > s.mtu-16 {
						reassembled = true
					}
				}
			}
		}
		desc["emitted"] = emitted
		senders := vgen.ListOf(ss, func(s *senderRun) string {
			return vgen.App("SC", pN(uint64(s.mtu)), pN(uint64(s.sess)), pN(uint64(s.stream)),
				printEops(s.ops), printFrames(s.frames()))
		})
		term := vgen.App("CE2E", senders, printPlan(plan), printOut(out))
		run.Tally(fmt.Sprintf("e2e.mode:%d", mode))
		run.Tally(fmt.Sprintf("e2e.senders:%d", nsnd))
		run.Tally(fmt.Sprintf("e2e.mtu:%s", bucket(ss[0].mtu)))
		if len(tags) > 0 {
			run.Tally("e2e.known:rlist-capacity")
		}
		key := descPlan(plan)
		for _, s := range ss {
			key += fmt.Sprintf("|%d|%s", s.mtu, descOps(s.ops))
		}
		run.Add("e2e", term, key, reassembled || forceKnown || forceEdge, desc, tags...)
	}

	// ---- CRx
	for i := 0; i < nRx; i++ {
		cr := r.Fork(uint64(2000000 + i))
		if !run.Want() {
			run.Skip()
			continue
		}
		sess := uint8(cr.Intn(256))
		var ops []dop
		if cr.Chance(15, 100) {
			// random frames
			for k := cr.Range(1, 12); k > 0; k-- {
				f := cr.Bytes(cr.Range(0, 90))
				if len(f) > 0 && cr.Chance(80, 100) {
					f[0] = 0
				}
				if len(f) >= 16 && cr.Chance(70, 100) {
					binary.BigEndian.PutUint16(f[2:4], uint16(vgen.Pick(cr, 0, 0xffff, cr.Intn(len(f)))))
					binary.BigEndian.PutUint32(f[4:8], uint32(cr.Intn(2)))
					binary.BigEndian.PutUint64(f[8:16], uint64(cr.Intn(6)))
					if len(f) > 16 && cr.Bool() {
						f[16] = byte(vgen.Pick(cr, 0x45, 0x60))
					}
				}
				ops = append(ops, dop{kind: 1, raw: f})
			}
		} else {
			s := mkSender(cr, sess, uint32(cr.Intn(4)), 6)
			if s.hung {
				run.Violate(run.Add("rx", "(CRx [] [])", "hung", false, nil), "encoder.Read blocked or never returned nil", nil)
				continue
			}
			fs := s.frames()
			pMut := vgen.Pick(cr, 10, 25, 50)
			for _, f := range fs {
				if cr.Chance(pMut, 100) {
					ops = append(ops, dop{kind: 1, raw: mutateFrame(cr, f)})
					if cr.Chance(30, 100) {
						ops = append(ops, dop{kind: 1, raw: f})
					}
				} else {
					ops = append(ops, dop{kind: 1, raw: f})
				}
				if cr.Chance(3, 100) {
					ops = append(ops, dop{kind: 2})
				}
			}
		}
		out, pmsg := runWorker(sess, len(ops), func(j int, w *dataplane.VerifWorker) {
			if ops[j].kind == 1 {
				w.Deliver(ops[j].raw)
			} else {
				w.Cleanup()
			}
		})
		desc := map[string]any{"ops": descPlan(ops)}
		if pmsg != "" {
			desc["panic"] = pmsg
			run.Violate(run.Add("rx", "(CRx [] [])", "panic", false, desc), "worker panicked", desc)
			continue
		}
		emitted := 0
		var kb [][]byte
		for _, o := range out {
			emitted += len(o)
		}
		for _, o := range ops {
			kb = append(kb, o.raw)
		}
		rops := vgen.ListOf(ops, func(d dop) string {
			if d.kind == 1 {
				return vgen.App("RFrame", pBytes(d.raw))
			}
			return "RCleanup"
		})
		run.Add("rx", vgen.App("CRx", rops, printOut(out)), keyBytes(kb...), emitted > 0, desc)
	}

	run.Finish()
}

func bucket(mtu int) string {
	switch {
	case mtu < 57:
		return "56"
	case mtu <= 60:
		return "57-60"
	case mtu <= 128:
		return "61-128"
	case mtu <= 256:
		return "129-256"
	case mtu <= 600:
		return "257-600"
	}
	return "601-1500"
}
