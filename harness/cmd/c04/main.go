// Runner for C04: on every valid path of the C02 generator one MAC-protected
// value is altered (one bit flipped) before the packet is handed to the first
// router; the packet is walked through the real routers; observable = where it
// stops and whether anything is delivered.
package main

import (
	"fmt"

	"verifharness/internal/netgen"
	"verifharness/internal/rtgen"
	"verifharness/internal/vgen"
)

const rule = "valid paths of the C02 generator (real extender, real combinator, real routers, 3-10 ASes, 1-3 routers per AS); " +
	"quick: for every path and every protected field (hop ConsIngress, ConsEgress, ExpTime, MAC; info Timestamp, SegID) one random " +
	"position and one random bit; thorough: every position and every bit of every field; the altered packet is walked through the " +
	"real routers and compared with Network.forward on Prov.tamper; oracle: never delivered, and stopped by a router of an AS no " +
	"later than the AS owning the first hop field whose MAC input depends on the altered value; " +
	"non-trivial = the altered value belongs to a hop or segment that is not the first one of the path"

func main() {
	netgen.Main("C04", "Prov.check04", rule, func(x *netgen.Ctx) {
		run := x.Run
		// thorough: every bit of every protected field at every position (~500 cases per path)
		nWorlds := run.Count(9, 25)
		perWorld := 4
		x.EachPath(nWorlds, perWorld, func(i int, w *netgen.World, p *netgen.Path, r *vgen.Rand) {
			_, expired, _ := p.ExpiryMargin(x.Now)
			if expired {
				run.Tally("skipped:expired-path")
				return
			}
			base, err := w.Send(p, nil)
			if err != nil || !base.Walk.Delivered() {
				run.Violate(-1, "valid path is not delivered", map[string]any{"topology": w.Net.Describe()})
				return
			}
			type alt struct {
				field    string
				idx, bit int
			}
			var alts []alt
			for _, f := range netgen.Fields {
				n := len(base.Desc.Hops)
				if f == "FInfoTs" || f == "FInfoSegID" {
					n = len(base.Desc.Infos)
				}
				if run.Tier == "thorough" {
					for k := 0; k < n; k++ {
						for b := 0; b < netgen.FieldBits[f]; b++ {
							alts = append(alts, alt{f, k, b})
						}
					}
				} else {
					alts = append(alts, alt{f, r.Intn(n), r.Intn(netgen.FieldBits[f])})
				}
			}
			for _, a := range alts {
				var val uint64
				s, err := w.Send(p, func(d *rtgen.Desc) string {
					val = netgen.Tamper(d, a.field, a.idx, a.bit)
					return fmt.Sprintf("%s[%d] bit %d", a.field, a.idx, a.bit)
				})
				if err != nil {
					run.Violate(-1, "cannot send: "+err.Error(), map[string]any{"topology": w.Net.Describe()})
					continue
				}
				// the model needs the MACs of the untouched hop fields (validity of the path) ...
				p.HopMacs(w.Net, s.Walk)
				topo, now, _, _ := netgen.PathTerms(w, s)
				port, ok, _ := s.Desc.L4.DstPort()
				term := vgen.App("Prov.CTamper", topo, now, s.Walk.MacsTerm(), p.ProvTerm(),
					netgen.ParamsTerm(base.Rec, port, ok), "Prov."+a.field, fmt.Sprintf("%d%%nat", a.idx), vgen.N(val),
					netgen.RecTerm(s.Rec, port, ok), "true", s.Walk.TraceTerm())
				w.Tallies(run, p, s.Walk)
				run.Tally("field:" + a.field + ":" + s.Walk.Final.Kind + ":" + s.Walk.Final.StopDesc)
				desc := s.Describe(w)
				desc["altered"] = s.Perturb
				id := run.Add("tampered", term, fmt.Sprintf("%s|%x", topo, s.Raw), a.idx > 0, desc)
				if s.Walk.Delivered() {
					run.Violate(id, "a packet with an altered protected value was delivered", desc)
				}
				if s.Walk.Panic != "" {
					run.Violate(id, "router panicked: "+s.Walk.Panic, desc)
				}
			}
		})
	})
}
