// Runner for C43: traffic-class expressions (gateway/pktcls) — Eval, String()
// and BuildClassTree of the real code on generated trees, packets and texts.
package main

import (
	"encoding/binary"
	"encoding/json"
	"fmt"
	"net"
	"regexp"
	"strconv"
	"strings"

	"github.com/gopacket/gopacket"
	"github.com/gopacket/gopacket/layers"

	"github.com/scionproto/scion/gateway/pktcls"
	"verifharness/internal/vgen"
)

// ---------------------------------------------------------------- trees

type node struct {
	kind    string // all any not bool src dst tos dscp proto srcport dstport cls
	kids    []*node
	b       bool
	ip      uint32
	plen    int
	v       uint64 // tos / dscp / proto / cls
	lo, hi  uint16
	clsText string
}

var printableProtos = []uint64{2, 6, 17, 27, 47, 50, 51, 59, 89, 97, 112, 132, 136, 137}

func genTree(r *vgen.Rand, depth int) *node {
	if depth <= 1 {
		return genLeaf(r)
	}
	switch r.Intn(5) {
	case 0:
		return &node{kind: "not", kids: []*node{genTree(r, depth-1)}}
	case 1, 2:
		return &node{kind: "all", kids: genKids(r, depth)}
	default:
		return &node{kind: "any", kids: genKids(r, depth)}
	}
}

func genKids(r *vgen.Rand, depth int) []*node {
	n := r.Range(1, 4)
	if r.Chance(1, 40) {
		n = 0
	}
	ks := make([]*node, n)
	for i := range ks {
		// one child of full depth, the others of any smaller depth
		d := depth - 1
		if i > 0 {
			d = r.Range(1, depth-1)
		}
		ks[i] = genTree(r, d)
	}
	return ks
}

func genLeaf(r *vgen.Rand) *node {
	switch r.Intn(11) {
	case 0:
		return &node{kind: "bool", b: r.Bool()}
	case 1, 2, 3:
		n := &node{kind: vgen.Pick(r, "src", "dst")}
		n.plen = vgen.Pick(r, 0, 1, 7, 8, 9, 15, 16, 23, 24, 25, 30, 31, 32, r.Intn(33), r.Intn(33))
		n.ip = uint32(r.U64())
		if r.Chance(1, 4) {
			n.ip = vgen.Pick[uint32](r, 0, 0xffffffff, 0x0a000000, 0x7f000001, 0xc0a80100, 0x80000000)
		}
		if r.Chance(2, 3) && n.plen < 32 { // canonical: host bits cleared
			n.ip &= ^uint32(0) << (32 - n.plen)
		}
		if n.plen == 0 && r.Chance(2, 3) {
			n.ip = 0
		}
		return n
	case 4:
		return &node{kind: "tos", v: uint64(vgen.Pick(r, 0, 1, 3, 4, 9, 10, 15, 16, 0x7f, 0x80, 0xa0, 0xfc, 0xff, r.Intn(256), r.Intn(256)))}
	case 5:
		return &node{kind: "dscp", v: uint64(vgen.Pick(r, 0, 1, 9, 10, 16, 0x2e, 63, 64, 255, r.Intn(64), r.Intn(64), r.Intn(256)))}
	case 6:
		if r.Chance(1, 12) {
			return &node{kind: "proto", v: uint64(r.Intn(256))}
		}
		return &node{kind: "proto", v: vgen.Pick(r, printableProtos...)}
	case 7, 8, 9:
		n := &node{kind: vgen.Pick(r, "srcport", "dstport")}
		a := uint16(vgen.Pick(r, 0, 1, 53, 80, 443, 1023, 1024, 32767, 32768, 65534, 65535, r.Intn(65536), r.Intn(65536)))
		b := uint16(vgen.Pick(r, 0, 1, 80, 443, 1024, 65535, r.Intn(65536), int(a), int(a), int(a)+r.Intn(100)))
		if a > b && r.Chance(5, 6) {
			a, b = b, a
		}
		n.lo, n.hi = a, b
		return n
	default:
		v := uint64(vgen.Pick(r, 0, 1, 7, 10, 99, 1000, r.Intn(1<<20)))
		if r.Chance(1, 8) {
			v = r.U64()
		}
		return &node{kind: "cls", v: v, clsText: strconv.FormatUint(v, 10)}
	}
}

func ip4(a uint32) net.IP {
	b := make(net.IP, 4)
	binary.BigEndian.PutUint32(b, a)
	return b
}

func (n *node) cond() pktcls.Cond {
	switch n.kind {
	case "all":
		c := pktcls.CondAllOf{}
		for _, k := range n.kids {
			c = append(c, k.cond())
		}
		return c
	case "any":
		c := pktcls.CondAnyOf{}
		for _, k := range n.kids {
			c = append(c, k.cond())
		}
		return c
	case "not":
		return pktcls.NewCondNot(n.kids[0].cond())
	case "bool":
		return pktcls.CondBool(n.b)
	case "src":
		return pktcls.NewCondIPv4(&pktcls.IPv4MatchSource{Net: &net.IPNet{IP: ip4(n.ip), Mask: net.CIDRMask(n.plen, 32)}})
	case "dst":
		return pktcls.NewCondIPv4(&pktcls.IPv4MatchDestination{Net: &net.IPNet{IP: ip4(n.ip), Mask: net.CIDRMask(n.plen, 32)}})
	case "tos":
		return pktcls.NewCondIPv4(&pktcls.IPv4MatchToS{TOS: uint8(n.v)})
	case "dscp":
		return pktcls.NewCondIPv4(&pktcls.IPv4MatchDSCP{DSCP: uint8(n.v)})
	case "proto":
		return pktcls.NewCondIPv4(&pktcls.IPv4MatchProtocol{Protocol: uint8(n.v)})
	case "srcport":
		return pktcls.NewCondPorts(&pktcls.PortMatchSource{MinPort: n.lo, MaxPort: n.hi})
	case "dstport":
		return pktcls.NewCondPorts(&pktcls.PortMatchDestination{MinPort: n.lo, MaxPort: n.hi})
	case "cls":
		return pktcls.CondClass{TrafficClass: n.clsText}
	}
	panic("kind")
}

func (n *node) gallina() string {
	switch n.kind {
	case "all", "any":
		ks := make([]string, len(n.kids))
		for i, k := range n.kids {
			ks[i] = k.gallina()
		}
		c := "PktCls.CAll"
		if n.kind == "any" {
			c = "PktCls.CAny"
		}
		return vgen.App(c, vgen.List(ks))
	case "not":
		return vgen.App("PktCls.CNot", n.kids[0].gallina())
	case "bool":
		return vgen.App("PktCls.CBool", vgen.B(n.b))
	case "src":
		return vgen.App("PktCls.CSrc", vgen.N(uint64(n.ip)), vgen.N(uint64(n.plen)))
	case "dst":
		return vgen.App("PktCls.CDst", vgen.N(uint64(n.ip)), vgen.N(uint64(n.plen)))
	case "tos":
		return vgen.App("PktCls.CTos", vgen.N(n.v))
	case "dscp":
		return vgen.App("PktCls.CDscp", vgen.N(n.v))
	case "proto":
		return vgen.App("PktCls.CProto", vgen.N(n.v))
	case "srcport":
		return vgen.App("PktCls.CSrcPort", vgen.N(uint64(n.lo)), vgen.N(uint64(n.hi)))
	case "dstport":
		return vgen.App("PktCls.CDstPort", vgen.N(uint64(n.lo)), vgen.N(uint64(n.hi)))
	case "cls":
		return vgen.App("PktCls.CCls", vgen.N(n.v))
	}
	panic("kind")
}

// hasEmptyAny: the tree contains an any() without operands (known finding empty-any-true).
func (n *node) hasEmptyAny() bool {
	if n.kind == "any" && len(n.kids) == 0 {
		return true
	}
	for _, k := range n.kids {
		if k.hasEmptyAny() {
			return true
		}
	}
	return false
}

// viaJSON rebuilds the condition from its JSON form (ClassMap marshal + unmarshal),
// the way a gateway reads traffic classes from a file. ok = false if the JSON form
// cannot express the tree or changes what it prints.
func viaJSON(c pktcls.Cond) (out pktcls.Cond, ok bool) {
	defer func() {
		if recover() != nil {
			out, ok = nil, false
		}
	}()
	b, err := json.Marshal(pktcls.ClassMap{"c": pktcls.NewClass("c", c)})
	if err != nil {
		return nil, false
	}
	var cm pktcls.ClassMap
	if err := json.Unmarshal(b, &cm); err != nil || cm["c"] == nil || cm["c"].Cond == nil {
		return nil, false
	}
	if cm["c"].Cond.String() != c.String() {
		return nil, false
	}
	return cm["c"].Cond, true
}

func (n *node) depth() int {
	d := 0
	for _, k := range n.kids {
		if kd := k.depth(); kd > d {
			d = kd
		}
	}
	return d + 1
}

func (n *node) leaves(f func(*node)) {
	if len(n.kids) == 0 && n.kind != "all" && n.kind != "any" {
		f(n)
	}
	for _, k := range n.kids {
		k.leaves(f)
	}
}

// ---------------------------------------------------------------- packets

type probe struct {
	none  bool // nil layer or a layer that is not IPv4
	src   uint32
	dst   uint32
	tos   uint8
	proto uint8
	frag  bool
	l4    *[2]uint16
	layer gopacket.Layer
	how   string
}

func (p *probe) gallina() string {
	if p.none {
		return "None"
	}
	l4 := "None"
	if p.l4 != nil {
		l4 = vgen.Opt(vgen.Pair(vgen.N(uint64(p.l4[0])), vgen.N(uint64(p.l4[1]))), true)
	}
	return vgen.Opt(vgen.App("PktCls.P", vgen.N(uint64(p.src)), vgen.N(uint64(p.dst)), vgen.N(uint64(p.tos)),
		vgen.N(uint64(p.proto)), vgen.B(p.frag), l4), true)
}

// hints: values taken from the leaves of the tree under test, so that probes sit on the boundaries.
type hints struct {
	addrs  []uint32
	tos    []uint8
	protos []uint8
	ports  []uint16
}

func collect(n *node) *hints {
	h := &hints{}
	n.leaves(func(l *node) {
		switch l.kind {
		case "src", "dst":
			var m uint32
			if l.plen > 0 {
				m = ^uint32(0) << (32 - l.plen)
			}
			base := l.ip & m
			last := base | ^m
			h.addrs = append(h.addrs, base, last, base-1, last+1, l.ip, base+(last-base)/2)
		case "tos":
			h.tos = append(h.tos, uint8(l.v), uint8(l.v)^1, uint8(l.v)^4)
		case "dscp":
			h.tos = append(h.tos, uint8(l.v<<2), uint8(l.v<<2)|3, uint8(l.v<<2)+4, uint8(l.v))
		case "proto":
			h.protos = append(h.protos, uint8(l.v))
		case "srcport", "dstport":
			h.ports = append(h.ports, l.lo, l.hi, l.lo-1, l.hi+1, l.lo+1, l.hi-1)
		}
	})
	return h
}

func genProbe(r *vgen.Rand, h *hints) *probe {
	p := &probe{}
	switch r.Intn(24) {
	case 0:
		p.none, p.how = true, "nil"
		return p
	case 1:
		p.none, p.how = true, "ipv6"
		p.layer = &layers.IPv6{SrcIP: net.ParseIP("2001:db8::1"), DstIP: net.ParseIP("2001:db8::2"),
			NextHeader: layers.IPProtocolUDP, TrafficClass: uint8(r.Intn(256))}
		return p
	}
	addr := func() uint32 {
		if h != nil && len(h.addrs) > 0 && r.Chance(3, 4) {
			return h.addrs[r.Intn(len(h.addrs))]
		}
		return uint32(r.U64())
	}
	p.src, p.dst = addr(), addr()
	p.tos = uint8(r.Intn(256))
	if h != nil && len(h.tos) > 0 && r.Chance(3, 4) {
		p.tos = h.tos[r.Intn(len(h.tos))]
	}
	p.proto = vgen.Pick[uint8](r, 6, 6, 6, 17, 17, 17, 1, 136, 132, uint8(r.Intn(256)))
	if h != nil && len(h.protos) > 0 && r.Chance(1, 3) {
		p.proto = h.protos[r.Intn(len(h.protos))]
	}
	port := func() uint16 {
		if h != nil && len(h.ports) > 0 && r.Chance(3, 4) {
			return h.ports[r.Intn(len(h.ports))]
		}
		return uint16(r.U64())
	}
	sp, dp := port(), port()
	// L4 bytes
	var l4 []byte
	ok := true
	asTCP := p.proto == 6 || (p.proto != 17 && r.Bool())
	if asTCP {
		doff := 5
		if r.Chance(1, 4) {
			doff = r.Range(6, 15)
		}
		l4 = make([]byte, doff*4+r.Intn(12))
		for i := 20; i < doff*4; i++ {
			l4[i] = 1 // NOP options
		}
		copy(l4[doff*4:], r.Bytes(len(l4)-doff*4))
		binary.BigEndian.PutUint16(l4[0:], sp)
		binary.BigEndian.PutUint16(l4[2:], dp)
		binary.BigEndian.PutUint32(l4[4:], uint32(r.U64()))
		l4[12] = byte(doff << 4)
		l4[13] = byte(r.Intn(64))
		switch r.Intn(10) {
		case 0: // truncated below the fixed header
			l4 = l4[:r.Intn(20)]
			ok = false
		case 1: // data offset below 5
			l4[12] = byte(r.Intn(5) << 4)
			ok = false
		case 2: // data offset beyond the data
			if doff < 15 {
				l4 = l4[:doff*4]
				l4[12] = byte((doff + 1 + r.Intn(15-doff)) << 4)
				ok = false
			}
		}
	} else {
		n := r.Intn(16)
		l4 = make([]byte, 8+n)
		copy(l4[8:], r.Bytes(n))
		binary.BigEndian.PutUint16(l4[0:], sp)
		binary.BigEndian.PutUint16(l4[2:], dp)
		binary.BigEndian.PutUint16(l4[4:], uint16(8+n))
		switch r.Intn(10) {
		case 0:
			l4 = l4[:r.Intn(8)]
			ok = false
		case 1: // length field 1..7: gopacket rejects
			binary.BigEndian.PutUint16(l4[4:], uint16(r.Range(1, 7)))
			ok = false
		case 2: // jumbogram marker
			binary.BigEndian.PutUint16(l4[4:], 0)
		case 3: // length beyond data: truncated flag only
			binary.BigEndian.PutUint16(l4[4:], uint16(8+n+r.Range(1, 100)))
		}
	}
	if ok {
		p.l4 = &[2]uint16{sp, dp}
	}
	var flags layers.IPv4Flag
	var off uint16
	switch r.Intn(12) {
	case 0:
		flags, p.frag = layers.IPv4MoreFragments, true
	case 1:
		off, p.frag = uint16(r.Range(1, 8191)), true
	case 2:
		flags, off, p.frag = layers.IPv4MoreFragments, uint16(r.Range(1, 8191)), true
	case 3, 4:
		flags = layers.IPv4DontFragment
	}
	ip := &layers.IPv4{Version: 4, IHL: 5, TOS: p.tos, TTL: 64, Id: uint16(r.U64()), Flags: flags, FragOffset: off,
		Protocol: layers.IPProtocol(p.proto), SrcIP: ip4(p.src), DstIP: ip4(p.dst)}
	if r.Bool() {
		// as the gateway sees it: bytes off the wire, decoded
		p.how = "decoded"
		buf := gopacket.NewSerializeBuffer()
		err := gopacket.SerializeLayers(buf, gopacket.SerializeOptions{FixLengths: true, ComputeChecksums: true},
			ip, gopacket.Payload(l4))
		if err != nil {
			panic(err)
		}
		d := &layers.IPv4{}
		if err := d.DecodeFromBytes(buf.Bytes(), gopacket.NilDecodeFeedback); err != nil {
			panic(err)
		}
		p.layer = d
	} else {
		p.how = "struct"
		if r.Bool() { // 16-byte form of the addresses
			ip.SrcIP, ip.DstIP = ip.SrcIP.To16(), ip.DstIP.To16()
		}
		ip.BaseLayer = layers.BaseLayer{Payload: l4}
		p.layer = ip
	}
	return p
}

func evalAll(c pktcls.Cond, ps []*probe) []bool {
	out := make([]bool, len(ps))
	for i, p := range ps {
		if p.layer == nil {
			out[i] = c.Eval(nil)
		} else {
			out[i] = c.Eval(p.layer)
		}
	}
	return out
}

func boolList(bs []bool) string { return vgen.ListOf(bs, vgen.B) }

// ---------------------------------------------------------------- parsing

type pobs struct {
	ok    bool
	text  string
	ev    []bool
	cond  pktcls.Cond
	panic bool
}

func build(s string, ps []*probe) pobs {
	var c pktcls.Cond
	var err error
	pn, _ := vgen.Recover(func() { c, err = pktcls.BuildClassTree(s) })
	if pn {
		return pobs{panic: true}
	}
	if err != nil || c == nil {
		return pobs{}
	}
	return pobs{ok: true, text: c.String(), ev: evalAll(c, ps), cond: c}
}

func (o pobs) gallina() string { return o.gallinaWith("\x00") }

// gallinaWith prints the observation; a text equal to the one bound to the
// let-variable s of the enclosing term is printed as that variable.
func (o pobs) gallinaWith(s string) string {
	if !o.ok {
		return "None"
	}
	txt := vgen.Str(o.text)
	if o.text == s {
		txt = "s"
	}
	return vgen.Opt(vgen.Pair(txt, boolList(o.ev)), true)
}

const alphabet = "()=,-./x0123456789abcdefABCDEFlnotyrusALNOTY \t#;_%"

var fragments = []string{"all(", "any(", "not(", "ALL(", "NOT(", "Any(", "BOOL=true", "bool=false", "BOOL=TRUE", "src=", "dst=",
	"tos=0x", "dscp=0x", "TOS=0X", "protocol=", "PROTOCOL=", "srcport=", "dstport=", "cls=", "CLS=", "0", "00", "007", "255", "256",
	"65535", "65536", "99999999999999999999", "32", "33", "/", "/33", ".", "-", ",", ")", "(", "=", "=0x", "0x", "ff", "100", "1ff",
	"0a", "a0", "abc", "tcp", "TCP", "udp", "Udp", "sctp", "IPSecAH", "ipsecesp", "ICMPv4", "IPv4", "true", "false", "cls", "all",
	"any", "not", " ", "\t", "\n", "\r", "#", "10.0.0.0/8", "1.2.3.4/32", "0.0.0.0/0", "256.1.1.1/8", "1.2.3/8", "1.2.3.4.5/8",
	"01.2.3.4/8", "1.2.3.4/08", "é", "\x00"}

func mutate(r *vgen.Rand, s string) string {
	b := []byte(s)
	k := 1
	if r.Chance(1, 4) {
		k = r.Range(2, 3)
	}
	for ; k > 0; k-- {
		pos := 0
		if len(b) > 0 {
			pos = r.Intn(len(b) + 1)
		}
		switch r.Intn(8) {
		case 0: // delete a char
			if len(b) > 0 {
				if pos == len(b) {
					pos--
				}
				b = append(b[:pos:pos], b[pos+1:]...)
			}
		case 1: // insert a char
			b = append(b[:pos:pos], append([]byte{alphabet[r.Intn(len(alphabet))]}, b[pos:]...)...)
		case 2: // replace a char
			if len(b) > 0 {
				if pos == len(b) {
					pos--
				}
				b[pos] = alphabet[r.Intn(len(alphabet))]
			}
		case 3, 4: // insert a fragment
			f := fragments[r.Intn(len(fragments))]
			b = append(b[:pos:pos], append([]byte(f), b[pos:]...)...)
		case 5: // truncate
			b = b[:pos]
		case 6: // flip the case of a letter run
			i := pos
			for i < len(b) && !isLetter(b[i]) {
				i++
			}
			all := r.Bool()
			for j := i; j < len(b) && isLetter(b[j]); j++ {
				b[j] ^= 0x20
				if !all {
					break
				}
			}
		case 7: // whitespace
			b = append(b[:pos:pos], append([]byte(vgen.Pick(r, " ", "  ", "\t", "\n", "\r\n")), b[pos:]...)...)
		}
	}
	return string(b)
}

var (
	reKw   = regexp.MustCompile(`\b(all|any|not|src|dst|tos|dscp|protocol|srcport|dstport|BOOL)\b`)
	reHex  = regexp.MustCompile(`0x[0-9a-f]+`)
	reProt = regexp.MustCompile(`protocol=[A-Za-z]+`)
	rePort = regexp.MustCompile(`port=(\d+)-(\d+)`)
	reNet  = regexp.MustCompile(`(\d+)\.(\d+)\.(\d+)\.(\d+)/(\d+)`)
	reNum  = regexp.MustCompile(`\d+`)
	reSep  = regexp.MustCompile(`[(),]`)
)

// benign rewrites a printed text into another spelling of the same expression
// (mostly; a few of the rewrites are deliberately on the edge).
func benign(r *vgen.Rand, s string) string {
	for k := r.Range(1, 3); k > 0; k-- {
		switch r.Intn(6) {
		case 0: // keywords in the other case
			s = reKw.ReplaceAllStringFunc(s, func(w string) string {
				if r.Chance(1, 3) {
					return w
				}
				if w == "BOOL" {
					return "bool"
				}
				return strings.ToUpper(w)
			})
		case 1: // hex digits upper case / leading zeros
			s = reHex.ReplaceAllStringFunc(s, func(w string) string {
				d := w[2:]
				if r.Bool() {
					d = strings.ToUpper(d)
				}
				if r.Chance(1, 3) {
					d = strings.Repeat("0", r.Range(1, 3)) + d
				}
				return "0x" + d
			})
		case 2: // protocol names in any case
			s = reProt.ReplaceAllStringFunc(s, func(w string) string {
				b := []byte(w)
				for i := len("protocol="); i < len(b); i++ {
					if r.Bool() {
						b[i] ^= 0x20
					}
				}
				return string(b)
			})
		case 3: // single port form
			s = rePort.ReplaceAllStringFunc(s, func(w string) string {
				m := rePort.FindStringSubmatch(w)
				if m[1] == m[2] && r.Chance(3, 4) {
					return "port=" + m[1]
				}
				return w
			})
		case 4: // whitespace around separators
			s = reSep.ReplaceAllStringFunc(s, func(w string) string {
				if r.Chance(1, 2) {
					return w
				}
				return vgen.Pick(r, " ", "", "\t", "\n") + w + vgen.Pick(r, " ", "", "  ", "\r\n")
			})
		case 5: // host bits into a net
			s = reNet.ReplaceAllStringFunc(s, func(w string) string {
				m := reNet.FindStringSubmatch(w)
				return fmt.Sprintf("%s.%s.%s.%d/%s", m[1], m[2], m[3], r.Intn(256), m[5])
			})
		}
	}
	return s
}

// hintsFromText: numbers in the text become probe boundaries.
func hintsFromText(s string) *hints {
	h := &hints{}
	for _, m := range reNet.FindAllStringSubmatch(s, -1) {
		var a uint32
		for i := 1; i <= 4; i++ {
			v, _ := strconv.ParseUint(m[i], 10, 32)
			a = a<<8 | uint32(v&0xff)
		}
		l, _ := strconv.ParseUint(m[5], 10, 8)
		var mk uint32
		if l > 0 && l <= 32 {
			mk = ^uint32(0) << (32 - l)
		}
		h.addrs = append(h.addrs, a&mk, a&mk|^mk, (a&mk)-1, (a&mk|^mk)+1)
	}
	for _, w := range reHex.FindAllString(s, -1) {
		v, _ := strconv.ParseUint(w[2:], 16, 64)
		h.tos = append(h.tos, uint8(v), uint8(v<<2), uint8(v<<2)|1)
	}
	for _, w := range reNum.FindAllString(s, -1) {
		v, _ := strconv.ParseUint(w, 10, 64)
		h.ports = append(h.ports, uint16(v), uint16(v)+1, uint16(v)-1)
	}
	for _, w := range reProt.FindAllString(s, -1) {
		for n, m := range layers.IPProtocolMetadata {
			if strings.EqualFold(m.Name, w[len("protocol="):]) {
				h.protos = append(h.protos, uint8(n))
			}
		}
	}
	return h
}

func isLetter(c byte) bool { return c >= 'a' && c <= 'z' || c >= 'A' && c <= 'Z' }

var corpus = []string{
	"", " ", "(", ")", "all()", "any()", "not()", "all(BOOL=true,not())", "all(,)", "all(BOOL=true", "all(BOOL=true))",
	"src=1.2.3.4/24", "src=1.2.3.4/24;", "src=1.2.3.4 /24", "src=300.1.1.1/8", "src=1.1.1.1/33", "src=01.1.1.1/3",
	"src=1.1.1.1/032", "src=0.0.0.0/0", "dst=255.255.255.255/32", "src=", "srcport=80.", "srcport=1-", "srcport=65535",
	"srcport=65536", "srcport=5-3", "srcport=0-0", "dstport=1 - 2", "srcport=1-2-3", "srcport=0x5", "dstport=00",
	"tos=0x10", "tos=0x0", "tos=0x00ff", "tos=0x100", "tos=0xZ", "tos=0x 5", "tos= 0x5", "tos =0x5", "TOS=0xFF", "Tos=0x1",
	"tos=0X1", "tos=0x1g", "tos=5", "dscp=0xab", "dscp=0x", "dscp=0x3f", "dscp=0xAb", "dscp=0x0a", "dscp=0xa0", "dscp=0xabc",
	"protocol=tcp", "protocol=AH", "protocol=IPSecAH", "protocol=ICMPv4", "protocol=all", "protocol=true", "protocol=ab",
	"protocol=tcp1", "protocol=MPLS", "protocol=ipip", "protocol=nonextheader", "protocol=udp#", "protocol=", "protocol=cls",
	"protocol=Udp", "cls=5", "cls=05", "cls =5", "cls=", "cls=5x", "cls=18446744073709551616", "CLS=5", "BOOL=true",
	"bool=false", "Bool=true", "BOOL=truex", "BOOL=TRUE", "BOOL=true BOOL=true", "#", "not(BOOL=true,BOOL=false)",
	"ANY(BOOL=true)", " all ( BOOL = true , BOOL = false ) ",
	"ANY(dscp=0x2,ALL(dst=12.12.12.0/24,dscp=0x2, NOT(src=2.2.2.0/28)))",
	"any(all(any(all(any(all(BOOL=true))))))", "not(not(not(not(not(cls=1)))))",
}

func main() {
	run := vgen.Flags("C43")
	run.Imports = []string{"Model.PktCls"}
	run.CheckFn = "PktCls.check"
	run.DiagFn = "PktCls.diag"
	run.CaseType = "PktCls.case"
	run.Rule = "trees: random condition trees of depth <= 4 built from the real pktcls types (all/any with 0-4 children, not, bool, " +
		"src/dst nets with and without host bits, tos, dscp, protocol, src/dst port ranges, cls) -> String(), Eval on 8 probe layers " +
		"(nil, IPv6, IPv4 decoded from serialized bytes or built as struct; addresses/TOS/ports on the boundaries of the tree's leaves; " +
		"TCP/UDP/other, fragments, truncated or malformed L4 headers), BuildClassTree of the printed text; all 256 protocol numbers " +
		"every run; texts: fixed corpus + printed trees with 1-3 edits (delete/insert/replace char, grammar fragments, truncation, " +
		"case flips, whitespace) -> BuildClassTree accept/reject, String(), Eval, and print->parse again; " +
		"a third of the trees (and every tree with an empty any()) is rebuilt from its JSON form (ClassMap) when that form can express it; " +
		"40 trees with an any() without operands (tag empty-any-true); " +
		"non-trivial = tree with a packet-dependent leaf, or text accepted by the implementation"
	run.ShardSize = 220
	if run.Tier == "thorough" {
		run.ShardSize = 1000
	}
	rng := vgen.NewRand(run.Seed)

	doTree := func(kind string, t *node, r *vgen.Rand, nprobe int) {
		h := collect(t)
		ps := make([]*probe, nprobe)
		for i := range ps {
			ps[i] = genProbe(r.Fork(uint64(i)), h)
		}
		c := t.cond()
		var tags []string
		empty := t.hasEmptyAny()
		if empty {
			tags = append(tags, "empty-any-true")
		}
		built := "api"
		jsonSafe := true // the JSON form names protocols: only names that denote one number come back unchanged
		t.leaves(func(l *node) {
			if l.kind == "proto" {
				found := false
				for _, v := range printableProtos {
					found = found || v == l.v
				}
				jsonSafe = jsonSafe && found
			}
		})
		if (empty || r.Chance(1, 3)) && jsonSafe {
			if cj, ok := viaJSON(c); ok {
				c, built = cj, "json"
			}
		}
		run.Tally(fmt.Sprintf("tree-built:%s", built))
		run.Tally(fmt.Sprintf("tree-empty-any:%v", empty))
		s := c.String()
		ev := evalAll(c, ps)
		re := build(s, ps)
		dep := false
		t.leaves(func(l *node) {
			if l.kind != "bool" && l.kind != "cls" {
				dep = true
			}
		})
		run.Tally(fmt.Sprintf("tree-depth:%d", t.depth()))
		run.Tally(fmt.Sprintf("tree-reparse:%v", re.ok))
		for i, b := range ev {
			run.Tally(fmt.Sprintf("eval:%v", b))
			run.Tally("probe:" + ps[i].how)
		}
		if re.panic {
			run.Tally("panic-on-printed-text")
		}
		term := "(let s := " + vgen.Str(s) + " in " +
			vgen.App("PktCls.CTree", t.gallina(), vgen.ListOf(ps, (*probe).gallina), "s", boolList(ev), re.gallinaWith(s)) + ")"
		run.Add(kind, term, term, dep, map[string]any{"text": s, "evals": ev, "reparse_ok": re.ok, "reparse": re.text,
			"built": built}, tags...)
	}

	// 1. every protocol number (names table), exhaustive
	for v := 0; v < 256; v++ {
		r := rng.Fork(uint64(v))
		if !run.Want() {
			run.Skip()
			continue
		}
		doTree("proto-name", &node{kind: "proto", v: uint64(v)}, r, 1)
	}
	// 2. random trees
	nt := run.Count(400, 20000)
	var texts []string
	for i := 0; i < nt; i++ {
		r := rng.Fork(uint64(1000 + i))
		t := genTree(r, vgen.Pick(r, 1, 2, 2, 3, 3, 3, 4, 4))
		if len(texts) < 4000 {
			if s := t.cond().String(); len(s) <= 80 && (i%8 == 0 || pktcls.ValidateTrafficClass(s) == nil) {
				texts = append(texts, s)
			}
		}
		if !run.Want() {
			run.Skip()
			continue
		}
		doTree("tree", t, r, 6)
	}
	// 3. texts
	doText := func(kind, s string, r *vgen.Rand) {
		ps := make([]*probe, 3)
		h := hintsFromText(s)
		for i := range ps {
			ps[i] = genProbe(r.Fork(uint64(i)), h)
		}
		o := build(s, ps)
		var re pobs
		if o.ok {
			// probes on the boundaries of what was parsed need the tree; re-evaluate with hints from the text
			re = build(o.text, ps)
		}
		switch {
		case o.panic:
			run.Tally("text:panic")
		case o.ok:
			run.Tally("text:accepted")
		default:
			run.Tally("text:rejected")
		}
		term := vgen.App("PktCls.CText", vgen.Str(s), vgen.ListOf(ps, (*probe).gallina), o.gallina(), re.gallina())
		if o.ok {
			term = "(let s := " + vgen.Str(o.text) + " in " +
				vgen.App("PktCls.CText", vgen.Str(s), vgen.ListOf(ps, (*probe).gallina), o.gallinaWith(o.text), re.gallinaWith(o.text)) + ")"
		}
		run.Add(kind, term, s, o.ok, map[string]any{"text": s, "accepted": o.ok, "panic": o.panic, "printed": o.text,
			"reparse_ok": re.ok, "reparse": re.text})
	}
	for i, s := range corpus {
		r := rng.Fork(uint64(5000000 + i))
		if !run.Want() {
			run.Skip()
			continue
		}
		doText("corpus", s, r)
	}
	nm := run.Count(560, 30000)
	for i := 0; i < nm; i++ {
		r := rng.Fork(uint64(6000000 + i))
		base := texts[r.Intn(len(texts))]
		if r.Chance(1, 10) {
			base = corpus[r.Intn(len(corpus))]
		}
		var s string
		kind := "mutated"
		switch {
		case r.Chance(2, 5):
			s, kind = benign(r, base), "respelled"
		case r.Chance(1, 3):
			s = mutate(r, benign(r, base))
		default:
			s = mutate(r, base)
		}
		if r.Chance(1, 20) {
			s = strings.ToUpper(s)
		}
		if !run.Want() {
			run.Skip()
			continue
		}
		doText(kind, s, r)
	}
	// 4. trees with an any() without operands (the Go API and the JSON form allow it, the text grammar does not)
	ne := run.Count(40, 2000)
	for i := 0; i < ne; i++ {
		r := rng.Fork(uint64(7000000 + i))
		sub := genTree(r, vgen.Pick(r, 1, 2, 3))
		ea := &node{kind: "any"}
		var t *node
		switch r.Intn(6) {
		case 0:
			t = ea
		case 1:
			t = &node{kind: "not", kids: []*node{ea}}
		case 2:
			t = &node{kind: "all", kids: []*node{sub, ea}}
		case 3:
			t = &node{kind: "any", kids: []*node{sub, &node{kind: "all", kids: []*node{ea}}}}
		case 4:
			t = &node{kind: "all", kids: []*node{&node{kind: "not", kids: []*node{ea}}, sub}}
		default:
			t = &node{kind: "any", kids: []*node{&node{kind: "not", kids: []*node{sub}}, ea}}
		}
		if !run.Want() {
			run.Skip()
			continue
		}
		doTree("tree-empty-any", t, r, 6)
	}
	run.Finish()
}
