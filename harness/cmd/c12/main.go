// Runner for C12: one-hop paths through the real router (processOHP via
// router.VerifProcess), the completed packet reversed with the real
// onehop.Path.Reverse and pushed through both real routers again, and the
// one-hop BFD packets built by the real bfdSend.
package main

import (
	"encoding/hex"
	"fmt"
	"net/netip"
	"os"
	"strings"
	"time"

	"github.com/gopacket/gopacket"
	"github.com/gopacket/gopacket/layers"

	"github.com/scionproto/scion/pkg/addr"
	"github.com/scionproto/scion/pkg/slayers"
	"github.com/scionproto/scion/pkg/slayers/path/onehop"
	"github.com/scionproto/scion/pkg/slayers/path/scion"
	"github.com/scionproto/scion/router"

	"verifharness/internal/rtgen"
	"verifharness/internal/rtgen2"
	"verifharness/internal/vgen"
)

type rcfg struct {
	name string
	cfg  *rtgen.Config
	rt   *rtgen.Router
}

var (
	run     *vgen.Run
	prelude []string
	nowSec  int64
)

func addConfig(c *rtgen.Config) *rcfg {
	name := fmt.Sprintf("cfg_%d", len(prelude))
	prelude = append(prelude, fmt.Sprintf("Definition %s : Router.cfg := %s.", name, c.Gallina()))
	rt, err := c.Build()
	if err != nil {
		fmt.Fprintln(os.Stderr, "c12: cannot build dataplane:", err)
		os.Exit(3)
	}
	return &rcfg{name, c, rt}
}

var ias = []addr.IA{addr.MustIAFrom(1, 0xff0000000110), addr.MustIAFrom(1, 0xff0000000111),
	addr.MustIAFrom(2, 0xff0000000220), addr.MustIAFrom(7, 64512), addr.MustIAFrom(2, 1),
	addr.MustIAFrom(1, 0x2_0000_0001)}

// genCfg draws a configuration for the one-hop checks: own external interfaces
// (up, down, one without a neighbour), interfaces owned by two sibling routers.
func genCfg(r *vgen.Rand, ia addr.IA) *rtgen.Config {
	c := &rtgen.Config{IA: ia, Key: r.Bytes(16),
		LocalHost: netip.AddrFrom4([4]byte{10, 0, byte(r.Intn(250)), byte(1 + r.Intn(250))}),
		PortLo:    1024, PortHi: 65535, SiblingDown: map[int]bool{}}
	used := map[uint16]bool{0: true}
	id := func() uint16 {
		for {
			v := uint16(r.Range(1, 300))
			if r.Chance(1, 5) {
				v = uint16(r.Range(1, 65535))
			}
			if !used[v] {
				used[v] = true
				return v
			}
		}
	}
	nbr := func() addr.IA {
		for {
			n := vgen.Pick(r, ias...)
			if n != ia {
				return n
			}
		}
	}
	lt := func() int { return r.Range(1, 4) }
	c.Ifaces = []rtgen.Iface{
		{ID: id(), LT: lt(), Nbr: nbr(), Up: true},
		{ID: id(), LT: lt(), Nbr: nbr(), Up: true},
		{ID: id(), LT: lt(), Nbr: nbr(), Up: false},
		{ID: id(), LT: lt(), Nbr: 0, Up: true},
		{ID: id(), LT: lt(), Nbr: nbr(), Sibling: 1, Up: true},
		{ID: id(), LT: lt(), Nbr: nbr(), Sibling: 2, Up: true},
	}
	if r.Chance(1, 4) {
		c.SiblingDown[2] = true
	}
	c.Svcs = []rtgen.Svc{{SVC: addr.SvcCS,
		Addr: netip.AddrPortFrom(netip.AddrFrom4([4]byte{10, 0, 9, byte(1 + r.Intn(200))}), uint16(r.Range(1025, 60000)))}}
	return c
}

func randHost(r *vgen.Rand) rtgen.Host {
	if r.Chance(1, 3) {
		b := r.Bytes(16)
		b[0] = 0xfd
		return rtgen.Host{Type: 3, Raw: b}
	}
	return rtgen.HostIP4(byte(r.Range(1, 223)), byte(r.Intn(256)), byte(r.Intn(256)), byte(r.Range(1, 254)))
}

func randL4(r *vgen.Rand) rtgen.L4 {
	pl := r.Bytes(r.Intn(24))
	switch r.Intn(6) {
	case 0:
		return rtgen.TCP(uint16(r.Range(1, 65535)), uint16(r.Range(1, 65535)), pl)
	case 1:
		return rtgen.SCMPEcho(r.Bool(), uint16(r.Range(1, 65535)), uint16(r.Intn(100)), pl)
	case 2:
		return rtgen.RawL4(uint8(vgen.Pick(r, 253, 254, 99)), pl)
	}
	return rtgen.UDP(uint16(r.Range(1, 65535)), uint16(r.Range(1, 65535)), pl)
}

// randOpts: no extension header (2 of 5), a header with padding only, or 1-3 options of
// 0..12 bytes.
func randOpts(r *vgen.Rand) []rtgen.Opt {
	if r.Chance(2, 5) {
		return nil
	}
	opts := []rtgen.Opt{}
	for i := r.Intn(4); i > 0; i-- {
		opts = append(opts, rtgen.Opt{Type: uint8(r.Range(3, 250)), Data: r.Bytes(r.Intn(13))})
	}
	return opts
}

type scen struct {
	d     *rtgen2.OHP
	ing   rtgen.Ingress
	kind  string
	mut   string
	slack int // extra header lines announced by HdrLen
}

func mac(c *rtgen.Config, d *rtgen2.OHP) [6]byte { return c.MAC(d.Info, d.First) }

// genOut: a one-hop packet the router must send out (from inside the AS).
func genOut(r *vgen.Rand, c *rtgen.Config) *scen {
	var cands []rtgen.Iface
	for _, f := range c.Ifaces {
		if f.Nbr != 0 {
			cands = append(cands, f)
		}
	}
	f := cands[r.Intn(len(cands))]
	d := &rtgen2.OHP{
		Info:  rtgen.Info{ConsDir: true, SegID: uint16(r.U64()), Timestamp: uint32(nowSec - int64(r.Range(0, 100000)))},
		First: rtgen.Hop{ConsEgress: f.ID, ExpTime: uint8(r.Intn(256))},
		SrcIA: c.IA, DstIA: f.Nbr, Src: randHost(r), Dst: rtgen.HostSVC(addr.SvcCS),
		TC: uint8(r.U64()), FlowID: uint32(r.U64()) & 0xfffff,
		HBH: randOpts(r), E2E: randOpts(r), L4: randL4(r),
	}
	if r.Chance(1, 4) {
		d.First.ConsIngress = uint16(r.Range(1, 500))
	}
	if r.Chance(1, 4) {
		d.Dst = randHost(r)
	}
	d.First.Mac = mac(c, d)
	s := &scen{d: d, ing: rtgen.Ingress{Kind: rtgen.IngInt}, kind: "out"}
	if r.Chance(1, 5) {
		s.ing = rtgen.Ingress{Kind: rtgen.IngSib, ID: r.Range(1, 2)}
	}
	return s
}

// genIn: a one-hop packet arriving from the neighbour on an own external interface.
func genIn(r *vgen.Rand, c *rtgen.Config) *scen {
	var cands []rtgen.Iface
	for _, f := range c.Ifaces {
		if f.Sibling == 0 && f.Nbr != 0 {
			cands = append(cands, f)
		}
	}
	f := cands[r.Intn(len(cands))]
	d := &rtgen2.OHP{
		Info:  rtgen.Info{ConsDir: true, SegID: uint16(r.U64()), Timestamp: uint32(nowSec - int64(r.Range(0, 100000)))},
		First: rtgen.Hop{ConsEgress: uint16(r.Range(1, 500)), ExpTime: uint8(r.Intn(256))},
		SrcIA: f.Nbr, DstIA: c.IA, Src: randHost(r), Dst: rtgen.HostSVC(addr.SvcCS),
		TC: uint8(r.U64()), FlowID: uint32(r.U64()) & 0xfffff,
		HBH: randOpts(r), E2E: randOpts(r), L4: randL4(r),
	}
	copy(d.First.Mac[:], r.Bytes(6))
	switch r.Intn(5) {
	case 0:
		d.Dst = randHost(r)
	case 1:
		d.Dst = rtgen.HostSVC(addr.SvcCS.Multicast())
	}
	return &scen{d: d, ing: rtgen.Ingress{Kind: rtgen.IngExt, ID: int(f.ID)}, kind: "in"}
}

var mutations = []string{"consdir", "srcia", "dstia", "mac", "consegress", "segid", "timestamp", "exptime",
	"ingress", "key", "dsthost", "l4", "paylen", "rsv", "alert", "peerflag", "second", "bfd", "consingress",
	"mac", "dstia", "srcia", "ingress"}

func mutate(r *vgen.Rand, s *scen, c *rtgen.Config, what string) {
	d := s.d
	anyIA := func() addr.IA {
		return vgen.Pick(r, c.IA, vgen.Pick(r, ias...), c.Ifaces[r.Intn(len(c.Ifaces))].Nbr, addr.IA(0))
	}
	switch what {
	case "consdir":
		d.Info.ConsDir = false
	case "srcia":
		d.SrcIA = anyIA()
	case "dstia":
		d.DstIA = anyIA()
	case "mac":
		d.First.Mac[r.Intn(6)] ^= byte(1 + r.Intn(255))
	case "consegress":
		d.First.ConsEgress = vgen.Pick(r, 0, uint16(r.Range(1, 65535)), c.Ifaces[r.Intn(len(c.Ifaces))].ID)
		if r.Bool() {
			d.First.Mac = mac(c, d)
		}
	case "consingress":
		d.First.ConsIngress = uint16(r.Range(0, 600))
		if r.Bool() {
			d.First.Mac = mac(c, d)
		}
	case "segid":
		d.Info.SegID ^= uint16(1 + r.Intn(65535))
	case "timestamp":
		d.Info.Timestamp = uint32(r.U64())
		if r.Bool() {
			d.First.Mac = mac(c, d)
		}
	case "exptime":
		d.First.ExpTime += uint8(1 + r.Intn(255))
		if r.Bool() {
			d.First.Mac = mac(c, d)
		}
	case "ingress":
		for {
			var n rtgen.Ingress
			switch r.Intn(4) {
			case 0:
				n = rtgen.Ingress{Kind: rtgen.IngInt}
			case 1:
				n = rtgen.Ingress{Kind: rtgen.IngSib, ID: r.Range(1, 2)}
			default:
				f := c.Ifaces[r.Intn(len(c.Ifaces))]
				if f.Sibling != 0 {
					continue
				}
				n = rtgen.Ingress{Kind: rtgen.IngExt, ID: int(f.ID)}
			}
			if n != s.ing {
				s.ing = n
				break
			}
		}
	case "key":
		d.First.Mac = rtgen.MAC(r.Bytes(16), d.Info.SegID, d.Info.Timestamp, d.First.ExpTime, d.First.ConsIngress, d.First.ConsEgress)
	case "dsthost":
		switch r.Intn(6) {
		case 0:
			d.Dst = rtgen.HostSVC(vgen.Pick(r, addr.SvcDS, addr.SvcWildcard, addr.SVC(0x7777)))
		case 1:
			d.Dst = rtgen.Host{Type: 3, Raw: append(append(make([]byte, 10), 0xff, 0xff), r.Bytes(4)...)}
		case 2:
			d.Dst = rtgen.Host{Type: 0, Raw: make([]byte, 4)}
		case 3:
			d.Dst = rtgen.HostRaw(uint8(vgen.Pick(r, 1, 2, 5, 6, 7, 8, 11, 12, 15)), r.Bytes(16))
		default:
			d.Dst = randHost(r)
		}
	case "l4":
		switch r.Intn(3) {
		case 0:
			d.L4 = rtgen.L4{Proto: 17, Bytes: r.Bytes(r.Intn(8)), Name: "udp-short"}
		case 1:
			d.L4 = rtgen.L4{Proto: 6, Bytes: r.Bytes(r.Intn(20)), Name: "tcp-short"}
		default:
			d.L4 = rtgen.L4{Proto: 202, Bytes: r.Bytes(r.Intn(4)), Name: "scmp-trunc"}
		}
		d.Dst = randHost(r)
	case "paylen":
		d.PayloadLenDelta = vgen.Pick(r, 1, 4, 100)
	case "rsv":
		switch r.Intn(5) {
		case 0:
			d.Info.Rsv = uint16(1 + r.Intn(255))
		case 1:
			d.First.Rsv = uint8(1+r.Intn(63)) << 2
		case 2:
			d.Second.Rsv = uint8(1+r.Intn(63)) << 2
		case 3:
			d.CmnRsv = uint16(1 + r.Intn(65535))
		default:
			d.Info.Rsv = uint16(r.Intn(64))<<10 | 1
			d.CmnRsv = 0x8001
		}
	case "alert":
		h := &d.First
		if r.Bool() {
			h = &d.Second
		}
		h.IngressAlert, h.EgressAlert = r.Bool(), true
	case "peerflag":
		d.Info.Peer = true
	case "second":
		d.Second = rtgen.Hop{ConsIngress: uint16(r.Intn(400)), ConsEgress: uint16(r.Intn(400)), ExpTime: uint8(r.Intn(256)),
			IngressAlert: r.Bool()}
		copy(d.Second.Mac[:], r.Bytes(6))
	case "bfd":
		d.HBH, d.E2E = nil, nil
		d.L4 = rtgen.RawL4(rtgen2.L4BFD, make([]byte, 24))
	default:
		panic("unknown mutation " + what)
	}
	if s.mut != "" {
		s.mut += "+"
	}
	s.mut += what
}

func hasTag(ts []string, t string) bool {
	for _, x := range ts {
		if x == t {
			return true
		}
	}
	return false
}

// outTerm prints the output record relative to the input record bound to `p`.
func outTerm(in, out *rtgen.Rec, l4 rtgen.L4) string {
	if out == nil {
		return ""
	}
	if in != nil && len(out.Infos) == 1 && len(out.Hops) == 2 && in.DstIA == out.DstIA && in.SrcIA == out.SrcIA &&
		in.DstType == out.DstType && in.SrcType == out.SrcType && string(in.DstRaw) == string(out.DstRaw) &&
		string(in.SrcRaw) == string(out.SrcRaw) && in.PayLen == out.PayLen && in.PayActual == out.PayActual {
		return vgen.App("RouterOHP.with_path", "p", out.Infos[0].Gallina(), out.Hops[0].Gallina(), out.Hops[1].Gallina())
	}
	return rtgen2.RecTerm(out, l4)
}

// emit runs one one-hop packet through the real router and registers the case. It returns
// the observation (nil when the case was skipped).
func emit(stream string, rc *rcfg, s *scen, raw []byte) *rtgen2.Obs {
	if !run.Want() {
		run.Skip()
		return nil
	}
	if raw == nil {
		var err error
		raw, err = s.d.Serialize()
		if err != nil {
			run.Tally("unserializable")
			run.Skip()
			return nil
		}
		if s.slack > 0 {
			raw = rtgen2.AddSlack(raw, s.slack)
		}
	}
	o, err := rtgen2.Run(rc.rt, raw, s.ing)
	if err != nil || o.In == nil || o.InX.PathType != rtgen2.PathTypeOHP {
		run.Tally("unrunnable")
		run.Skip()
		return nil
	}
	cls := o.Class()
	dir := "in"
	if s.ing.Kind != rtgen.IngExt {
		dir = "out"
	}
	run.Tally("outcome:" + dir + ":" + cls)
	run.Tally("kind:" + s.kind + ":" + cls)
	if s.mut != "" {
		run.Tally("mutation:" + strings.SplitN(s.mut, "+", 2)[0] + ":" + cls)
	}
	if o.InX.Slack > 0 {
		run.Tally("header-slack:" + dir + ":" + cls)
	}
	if s.d != nil {
		nExt := 0
		if s.d.HBH != nil {
			nExt++
		}
		if s.d.E2E != nil {
			nExt++
		}
		run.Tally(fmt.Sprintf("extension-headers=%d:%s:%s", nExt, dir, cls))
	}
	bfd := s.d != nil && s.d.L4.Proto == rtgen2.L4BFD
	var l4 rtgen.L4
	if s.d != nil {
		l4 = s.d.L4
	}
	ifid := uint16(0)
	if s.ing.Kind == rtgen.IngExt {
		ifid = uint16(s.ing.ID)
	}
	term := "(let p := " + rtgen2.RecTerm(o.In, l4) + " in " +
		vgen.App("RouterOHP.COhp", rc.name, s.ing.Gallina(), rtgen2.OHPMacTable(rc.cfg, o.In, ifid), vgen.B(bfd), vgen.N(uint64(o.InX.Slack)),
			"p", o.ResultTerm(outTerm(o.In, o.Out, l4)), changedListTerm(o.Changed), vgen.N(uint64(o.InLen)),
			vgen.N(uint64(o.OutLen)), vgen.N(uint64(o.InX.CmnRsv))) + ")"
	// non-trivial: the packet passed the ConsDir test, i.e. reached the neighbour / MAC decisions
	nt := o.In.Infos[0].ConsDir && !bfd
	desc := map[string]any{"cfg": rc.name, "ingress": s.ing.String(), "kind": s.kind, "mutation": s.mut,
		"raw": hex.EncodeToString(raw), "impl": cls, "egress": o.Res.Egress, "changed": o.Changed,
		"cfg_desc": rc.cfg.Describe()}
	if o.Res.Disp == router.VerifPanic {
		desc["panic"] = o.Res.PanicMsg
	}
	id := run.Add(stream, term, rc.name+"|"+s.ing.String()+"|"+hex.EncodeToString(raw), nt, desc)
	if o.Res.Disp == router.VerifPanic {
		run.Violate(id, "processOHP panicked: "+o.Res.PanicMsg, desc)
	}
	if o.Res.Disp == router.VerifForward && o.Res.Sent &&
		(o.Out == nil || o.OutX.PathType != rtgen2.PathTypeOHP || o.OutX.HdrLen != o.InX.HdrLen) {
		desc["out"] = hex.EncodeToString(o.Res.Out)
		run.Violate(id, "the router forwarded a packet whose header is not a well-formed one-hop header any more", desc)
	}
	return &o
}

func changedListTerm(ch []int) string {
	u := make([]uint64, len(ch))
	for i, x := range ch {
		u[i] = uint64(x)
	}
	return vgen.NList(u)
}

// table: every combination of ingress link, first-hop egress interface, SrcIA, DstIA, MAC
// validity (and a sample with the ConsDir flag cleared) on one configuration.
func table(r *vgen.Rand, rc *rcfg) {
	c := rc.cfg
	ifs := c.Ifaces // e1 e2 e3(down) e4(no neighbour) s1 s2
	ings := []rtgen.Ingress{{Kind: rtgen.IngInt}, {Kind: rtgen.IngSib, ID: 1},
		{Kind: rtgen.IngExt, ID: int(ifs[0].ID)}, {Kind: rtgen.IngExt, ID: int(ifs[3].ID)}}
	unknown := uint16(64999)
	for c.Iface(unknown) != nil {
		unknown--
	}
	egs := []uint16{ifs[0].ID, ifs[1].ID, ifs[2].ID, ifs[3].ID, ifs[4].ID, 0, unknown}
	other := addr.MustIAFrom(9, 0x999)
	n := 0
	for _, ing := range ings {
		for _, eg := range egs {
			nbrEg := addr.IA(0)
			if f := c.Iface(eg); f != nil {
				nbrEg = f.Nbr
			}
			for _, src := range []addr.IA{c.IA, ifs[0].Nbr, other} {
				dsts := []addr.IA{c.IA, nbrEg, other}
				if nbrEg == 0 {
					dsts = []addr.IA{c.IA, 0, ifs[0].Nbr}
				}
				for _, dst := range dsts {
					for _, good := range []bool{true, false} {
						for _, cons := range []bool{true, false} {
							n++
							if !cons && n%8 != 0 {
								continue
							}
							d := &rtgen2.OHP{
								Info:  rtgen.Info{ConsDir: cons, SegID: uint16(r.U64()), Timestamp: uint32(nowSec - 50)},
								First: rtgen.Hop{ConsEgress: eg, ExpTime: 63},
								SrcIA: src, DstIA: dst, Src: rtgen.HostIP4(10, 1, 2, 3), Dst: rtgen.HostSVC(addr.SvcCS),
								L4: rtgen.UDP(1000, 2000, []byte{1, 2, 3, 4}),
							}
							d.First.Mac = mac(c, d)
							if !good {
								d.First.Mac[r.Intn(6)] ^= byte(1 + r.Intn(255))
							}
							emit("table", rc, &scen{d: d, ing: ing, kind: "table"}, nil)
						}
					}
				}
			}
		}
	}
}

// decodeSCION decodes raw with the real slayers decoder.
func decodeSCION(raw []byte) (*slayers.SCION, error) {
	s := &slayers.SCION{}
	if err := s.DecodeFromBytes(raw, gopacket.NilDecodeFeedback); err != nil {
		return nil, err
	}
	return s, nil
}

// buildReply reverses the completed one-hop packet with the real onehop.Path.Reverse and
// builds the reply packet a service in the second AS would send back.
func buildReply(r *vgen.Rand, completed []byte, l4 rtgen.L4) ([]byte, error) {
	s, err := decodeSCION(completed)
	if err != nil {
		return nil, err
	}
	op, ok := s.Path.(*onehop.Path)
	if !ok {
		return nil, fmt.Errorf("not a one-hop path")
	}
	rev, err := op.Reverse()
	if err != nil {
		return nil, err
	}
	if _, ok := rev.(*scion.Decoded); !ok {
		return nil, fmt.Errorf("reversed path has type %T", rev)
	}
	rs := &slayers.SCION{
		TrafficClass: 0xb8, FlowID: 0xbeef, NextHdr: slayers.L4ProtocolType(l4.Proto), PathType: scion.PathType,
		DstIA: s.SrcIA, SrcIA: s.DstIA,
		DstAddrType: s.SrcAddrType, RawDstAddr: s.RawSrcAddr,
		Path: rev,
	}
	// the service's own address as source
	src := netip.AddrFrom4([4]byte{10, 0, 9, byte(1 + r.Intn(200))})
	if err := rs.SetSrcAddr(addr.HostIP(src)); err != nil {
		return nil, err
	}
	buf := gopacket.NewSerializeBuffer()
	if err := gopacket.SerializeLayers(buf, gopacket.SerializeOptions{FixLengths: true}, rs,
		gopacket.Payload(l4.Bytes)); err != nil {
		return nil, err
	}
	return append([]byte(nil), buf.Bytes()...), nil
}

// chain: A sends a one-hop packet out, B completes it, the reply goes back through B and A.
func chain(r *vgen.Rand, a, b *rcfg, variant int) {
	// interface pair: A's e towards B, B's k towards A (set up by main)
	var e, k *rtgen.Iface
	for i := range a.cfg.Ifaces {
		if f := &a.cfg.Ifaces[i]; f.Nbr == b.cfg.IA && f.Sibling == 0 {
			e = f
		}
	}
	for i := range b.cfg.Ifaces {
		if f := &b.cfg.Ifaces[i]; f.Nbr == a.cfg.IA && f.Sibling == 0 {
			k = f
		}
	}
	d := &rtgen2.OHP{
		Info:  rtgen.Info{ConsDir: true, SegID: uint16(r.U64()), Timestamp: uint32(nowSec - int64(r.Range(60, 3000)))},
		First: rtgen.Hop{ConsEgress: e.ID, ExpTime: uint8(r.Range(40, 255))},
		SrcIA: a.cfg.IA, DstIA: b.cfg.IA, Src: randHost(r), Dst: rtgen.HostSVC(addr.SvcCS),
		TC: uint8(r.U64()), FlowID: uint32(r.U64()) & 0xfffff, L4: rtgen.UDP(uint16(r.Range(1025, 65000)), 30252, r.Bytes(r.Intn(16))),
		HBH: randOpts(r), E2E: randOpts(r),
	}
	if r.Chance(1, 4) {
		d.First.ConsIngress = uint16(r.Range(1, 500))
	}
	switch variant % 6 {
	case 1:
		d.First.EgressAlert = true // the reply will be handed to A's slow path (router alert)
	case 2:
		d.First.IngressAlert = true // not looked at on the way back
	case 3:
		d.Info.Timestamp = uint32(nowSec - 400000) // long expired: one-hop processing does not care, the reply is refused
	case 4:
		d.Info.Peer = true
		d.Info.Rsv = 0x401
	}
	d.First.Mac = mac(a.cfg, d)
	replyL4 := rtgen.UDP(30252, uint16(r.Range(1025, 65000)), r.Bytes(r.Intn(16)))
	if variant%7 == 5 {
		replyL4 = rtgen.L4{Proto: 17, Bytes: []byte{1, 2, 3}, Name: "udp-short"}
	}
	ingA := rtgen.Ingress{Kind: rtgen.IngInt}
	s1 := &scen{d: d, ing: ingA, kind: "chain-out"}
	o1 := emit("chain", a, s1, nil)
	// B completes what A really sent
	var raw1 []byte
	if o1 != nil && o1.Res.Disp == router.VerifForward && o1.Res.Sent {
		raw1 = o1.Res.Out
	}
	ingB := rtgen.Ingress{Kind: rtgen.IngExt, ID: int(k.ID)}
	var o2 *rtgen2.Obs
	if raw1 != nil || !run.Want() {
		o2 = emit("chain", b, &scen{d: d, ing: ingB, kind: "chain-in"}, raw1)
	} else {
		run.Skip()
	}
	var reply []byte
	if o2 != nil && o2.Res.Disp == router.VerifForward && o2.Res.Sent {
		var err error
		reply, err = buildReply(r, o2.Res.Out, replyL4)
		if err != nil {
			run.Tally("reverse-failed")
			reply = nil
		}
	} else {
		r.Intn(200) // keep the draws of buildReply
	}
	// reply through B (from inside)
	var o3 *rtgen2.Obs
	if reply != nil && run.Want() {
		o, err := rtgen2.Run(b.rt, reply, rtgen.Ingress{Kind: rtgen.IngInt})
		if err == nil && o.In != nil && o2.In != nil {
			o3 = &o
			cls := o.Class()
			run.Tally("reply-at-second:" + cls)
			macs := "(" + rtgen2.OHPMacTable(b.cfg, o2.In, k.ID) + " ++ " + rtgen.MacTable(b.cfg, o.In) + ")"
			term := vgen.App("RouterOHP.CRevB", b.name, vgen.N(uint64(o.NowNs)), vgen.N(uint64(k.ID)), macs,
				rtgen2.RecTerm(o2.In, d.L4), rtgen2.RecTerm(o.In, replyL4),
				o.ResultTerm(rtgen2.RecTerm(o.Out, replyL4)))
			run.Add("chain", term, b.name+"|rev|"+hex.EncodeToString(reply), true,
				map[string]any{"cfg": b.name, "kind": "reply-at-second", "raw": hex.EncodeToString(reply), "impl": cls,
					"completed": hex.EncodeToString(o2.Res.Out)})
		} else {
			run.Skip()
		}
	} else {
		run.Skip()
	}
	// what B forwarded arrives at A on interface e
	if o3 != nil && o3.Res.Disp == router.VerifForward && o3.Res.Sent && o3.Res.EgressLink == int(k.ID) && run.Want() {
		o, err := rtgen2.Run(a.rt, o3.Res.Out, rtgen.Ingress{Kind: rtgen.IngExt, ID: int(e.ID)})
		if err == nil && o.In != nil {
			cls := o.Class()
			run.Tally("reply-at-first:" + cls)
			macsA := "(" + rtgen2.OHPMacTable(a.cfg, o1.In, 0) + " ++ " + rtgen.MacTable(a.cfg, o.In) + ")"
			macsB := rtgen2.OHPMacTable(b.cfg, o2.In, k.ID)
			term := vgen.App("RouterOHP.CRevA", a.name, b.name, vgen.N(uint64(o.NowNs)), vgen.N(uint64(k.ID)),
				ingA.Gallina(), macsA, macsB, rtgen2.RecTerm(o1.In, d.L4), rtgen2.RecTerm(o3.In, replyL4),
				rtgen2.RecTerm(o.In, replyL4), o.ResultTerm(rtgen2.RecTerm(o.Out, replyL4)))
			run.Add("chain", term, a.name+"|rev|"+hex.EncodeToString(o3.Res.Out), true,
				map[string]any{"cfg": a.name, "kind": "reply-at-first", "raw": hex.EncodeToString(o3.Res.Out), "impl": cls})
		} else {
			run.Skip()
		}
	} else {
		run.Skip()
	}
}

// bfdCase runs the real bfdSend on an own external interface.
func bfdCase(r *vgen.Rand, rc *rcfg, i int) {
	if !run.Want() {
		run.Skip()
		return
	}
	var own []rtgen.Iface
	for _, f := range rc.cfg.Ifaces {
		if f.Sibling == 0 {
			own = append(own, f)
		}
	}
	f := own[i%len(own)]
	remote := f.Nbr
	if remote == 0 || i%5 == 4 {
		remote = vgen.Pick(r, ias...)
	}
	msg := &layers.BFD{Version: 1, State: layers.BFDStateDown, DetectMultiplier: 3, MyDiscriminator: 1,
		DesiredMinTxInterval: 1000000, RequiredMinRxInterval: 1000000}
	var raw []byte
	var now int64
	var err error
	for try := 0; try < 5; try++ {
		now = time.Now().Unix()
		raw, err = rc.rt.DP.VerifBFDSendOHP(f.ID, remote, addr.HostIP(rc.cfg.LocalHost),
			addr.HostIP(netip.AddrFrom4([4]byte{192, 0, 2, 1})), msg)
		if time.Now().Unix() == now {
			break
		}
	}
	if err != nil {
		run.Tally("bfd-send-error")
		run.Skip()
		return
	}
	rec, x, err := rtgen2.Parse(raw)
	if err != nil || x.PathType != rtgen2.PathTypeOHP {
		id := run.Add("bfd", vgen.App("RouterOHP.CConst", "999", "0"), "bfd-unparsable", false, map[string]any{"raw": hex.EncodeToString(raw)})
		run.Violate(id, "bfdSend produced a packet that is not a one-hop packet", nil)
		return
	}
	macs := vgen.List([]string{rtgen2.MacEntry(rc.cfg.Key, 0, uint32(now-10), router.VerifHopFieldDefaultExpTime, 0, f.ID)})
	l4 := rtgen.RawL4(rtgen2.L4BFD, nil)
	term := vgen.App("RouterOHP.CBfd", rc.name, vgen.N(uint64(f.ID)), vgen.N(uint64(remote)), vgen.N(uint64(now)), macs,
		rtgen2.RecTerm(rec, l4))
	run.Tally("bfd-packet")
	run.Add("bfd", term, fmt.Sprintf("%s|bfd|%d|%d", rc.name, f.ID, uint64(remote)), true,
		map[string]any{"cfg": rc.name, "ifid": f.ID, "remote": remote.String(), "raw": hex.EncodeToString(raw)})
	// the packet, coming back from inside the AS with its BFD upper layer, is never forwarded
	emitRaw("bfd", rc, rtgen.Ingress{Kind: rtgen.IngInt}, raw, true)
}

// emitRaw registers a case for raw bytes that were not built from a description.
func emitRaw(stream string, rc *rcfg, ing rtgen.Ingress, raw []byte, bfd bool) {
	d := &rtgen2.OHP{L4: rtgen.RawL4(253, nil)}
	if bfd {
		d.L4 = rtgen.RawL4(rtgen2.L4BFD, nil)
	}
	emit(stream, rc, &scen{d: d, ing: ing, kind: "raw"}, raw)
}

// bfdSeries: ONE real bfdSend sender (as a BFD session owns it) emits a series of packets
// over ~2.3 s, so that at least two wall-clock second boundaries are crossed between
// consecutive sends; it runs in its own goroutine on its own dataplane while the other
// streams are generated.
type bfdShot struct {
	t0, t1 int64 // time.Now().Unix() before / after the Send
	raw    []byte
	err    error
}

type bfdSeriesT struct {
	rc     *rcfg
	ifc    rtgen.Iface
	remote addr.IA
	shots  []bfdShot
	done   chan struct{}
	err    error
}

const bfdShotsPerSeries = 24

func startBFDSeries(r *vgen.Rand, rc *rcfg, k int) *bfdSeriesT {
	s := &bfdSeriesT{rc: rc, done: make(chan struct{})}
	var own []rtgen.Iface
	for _, f := range rc.cfg.Ifaces {
		if f.Sibling == 0 && f.Nbr != 0 {
			own = append(own, f)
		}
	}
	s.ifc = own[k%len(own)]
	s.remote = s.ifc.Nbr
	jitter := make([]time.Duration, bfdShotsPerSeries)
	for i := range jitter {
		jitter[i] = time.Duration(r.Range(-30, 30)) * time.Millisecond
	}
	rt, err := rc.cfg.Build() // a dataplane of its own: nothing else touches its links
	if err != nil {
		s.err = err
		close(s.done)
		return s
	}
	go func() {
		defer close(s.done)
		snd, err := rt.DP.VerifNewBFDSender(s.ifc.ID, s.remote, addr.HostIP(rc.cfg.LocalHost),
			addr.HostIP(netip.AddrFrom4([4]byte{192, 0, 2, 1})))
		if err != nil {
			s.err = err
			return
		}
		msg := &layers.BFD{Version: 1, State: layers.BFDStateUp, DetectMultiplier: 3, MyDiscriminator: 7,
			YourDiscriminator: 9, DesiredMinTxInterval: 100000, RequiredMinRxInterval: 100000}
		start := time.Now().Add(time.Duration(k) * 230 * time.Millisecond)
		for i := 0; i < bfdShotsPerSeries; i++ {
			time.Sleep(time.Until(start.Add(time.Duration(i)*100*time.Millisecond + jitter[i])))
			var sh bfdShot
			sh.t0 = time.Now().Unix()
			sh.raw, sh.err = snd.Send(msg)
			sh.t1 = time.Now().Unix()
			s.shots = append(s.shots, sh)
		}
	}()
	return s
}

// emitBFDSeries registers every packet of the series: the timestamp must be (second of the
// Send) - 10 and the first hop's MAC must be the AS key's MAC for THAT timestamp.
func emitBFDSeries(s *bfdSeriesT, k int) {
	<-s.done
	rc := s.rc
	boundaries := 0
	var last uint32
	for i := 0; i < bfdShotsPerSeries; i++ {
		if !run.Want() {
			run.Skip()
			continue
		}
		if s.err != nil || i >= len(s.shots) || s.shots[i].err != nil {
			run.Tally("bfd-series-send-error")
			run.Skip()
			continue
		}
		sh := s.shots[i]
		rec, x, err := rtgen2.Parse(sh.raw)
		if err != nil || x.PathType != rtgen2.PathTypeOHP {
			id := run.Add("bfd-series", vgen.App("RouterOHP.CConst", "999", "0"), fmt.Sprintf("bfdser-unparsable-%d-%d", k, i), false,
				map[string]any{"raw": hex.EncodeToString(sh.raw)})
			run.Violate(id, "bfdSend produced a packet that is not a one-hop packet", nil)
			continue
		}
		ts := rec.Infos[0].Timestamp
		if i > 0 && ts != last {
			boundaries++
			run.Tally("bfd-series:first-packet-of-a-new-second")
		}
		last = ts
		// the second the sender read lies between the two samples; the model is evaluated at
		// the sample the packet's timestamp corresponds to (if any: otherwise at t0, and the
		// comparison fails)
		now := sh.t0
		if int64(ts)+10 >= sh.t0 && int64(ts)+10 <= sh.t1 {
			now = int64(ts) + 10
		}
		macs := vgen.List([]string{rtgen2.MacEntry(rc.cfg.Key, 0, uint32(now-10), router.VerifHopFieldDefaultExpTime, 0, s.ifc.ID)})
		term := vgen.App("RouterOHP.CBfd", rc.name, vgen.N(uint64(s.ifc.ID)), vgen.N(uint64(s.remote)), vgen.N(uint64(now)), macs,
			rtgen2.RecTerm(rec, rtgen.RawL4(rtgen2.L4BFD, nil)))
		run.Tally("bfd-series-packet")
		run.Add("bfd-series", term, fmt.Sprintf("%s|bfdser|%d|%d|%d", rc.name, k, i, ts), true,
			map[string]any{"cfg": rc.name, "ifid": s.ifc.ID, "series": k, "shot": i, "timestamp": ts,
				"raw": hex.EncodeToString(sh.raw)})
	}
	run.Tally(fmt.Sprintf("bfd-series:second-boundaries-crossed=%d", boundaries))
}

func consts() {
	vals := []uint64{onehop.PathLen, uint64(onehop.PathType), uint64(scion.PathType),
		router.VerifHopFieldDefaultExpTime, 8, 12, slayers.CmnHdrLen}
	for k, v := range vals {
		if !run.Want() {
			run.Skip()
			continue
		}
		run.Add("const", vgen.App("RouterOHP.CConst", vgen.N(uint64(k)), vgen.N(v)), fmt.Sprintf("const%d", k), false,
			map[string]uint64{"const": uint64(k), "value": v})
	}
}

func main() {
	run = vgen.Flags("C12")
	run.Imports = []string{"Model.Router", "Model.RouterOHP"}
	run.CheckFn = "RouterOHP.check"
	run.DiagFn = "RouterOHP.diag"
	run.CaseType = "RouterOHP.case"
	run.ShardSize = 250
	run.Rule = "one-hop packets through the real processPkt/processOHP: (1) table = every combination of ingress link " +
		"(internal, sibling, external with / without neighbour), first-hop egress interface (own up / down / without " +
		"neighbour, sibling-owned, 0, unknown), SrcIA (local, neighbour, other), DstIA (local, neighbour behind the egress, " +
		"other / zero), MAC valid / invalid, ConsDir set (cleared on a sample); (2) valid-by-construction outgoing and " +
		"incoming packets on random configurations (IPv4/IPv6/service hosts, UDP/TCP/SCMP/other payloads, HBH/E2E headers) " +
		"(0, 1 or 2 extension headers with 0-3 options of 0-12 bytes; each header on 3 of 5 packets) " +
		"and a mutation stream (ConsDir, SrcIA, DstIA, MAC byte, foreign key, ConsEgress/ConsIngress/SegID/timestamp/ExpTime " +
		"with and without re-MAC, ingress link, destination host, truncated L4, PayloadLen, reserved bits, alert flags, peer " +
		"flag, pre-filled second hop, BFD upper layer) and valid packets whose HdrLen announces 1-3 lines more than the " +
		"one-hop path occupies; (3) chains: router A sends out, router B completes the real output, " +
		"the real onehop.Path.Reverse of the completed packet is sent back through real B and real A; (4) packets built by " +
		"the real bfdSend (one per fresh sender), and 4 senders that each emit 24 packets over ~2.3 s (every 100 +- 30 ms, " +
		"at least two second boundaries crossed): every packet's timestamp and first-hop MAC checked. non-trivial = ConsDir set and no BFD upper layer (the packet reached the neighbour / MAC decisions), " +
		"every chain step, every bfdSend packet"
	rng := vgen.NewRand(run.Seed)
	nowSec = time.Now().Unix()
	consts()

	// configurations: pairs (A, B) with A's first interface towards B and B's first towards A
	type pair struct{ a, b *rcfg }
	var pairs []pair
	nPairs := run.Count(3, 12)
	if run.N > 0 {
		nPairs = 3
	}
	for i := 0; i < nPairs; i++ {
		r := rng.Fork(uint64(7000 + i))
		iaA := ias[i%len(ias)]
		iaB := ias[(i+1+r.Intn(len(ias)-1))%len(ias)]
		if iaB == iaA {
			iaB = ias[(i+1)%len(ias)]
		}
		ca, cb := genCfg(r, iaA), genCfg(r, iaB)
		ca.Ifaces[0].Nbr = iaB
		cb.Ifaces[0].Nbr = iaA
		for j := 1; j < len(ca.Ifaces); j++ {
			if ca.Ifaces[j].Nbr == iaB && ca.Ifaces[j].Sibling == 0 {
				ca.Ifaces[j].Nbr = addr.MustIAFrom(9, 0x901)
			}
		}
		for j := 1; j < len(cb.Ifaces); j++ {
			if cb.Ifaces[j].Nbr == iaA && cb.Ifaces[j].Sibling == 0 {
				cb.Ifaces[j].Nbr = addr.MustIAFrom(9, 0x902)
			}
		}
		pairs = append(pairs, pair{addConfig(ca), addConfig(cb)})
	}
	var all []*rcfg
	for _, p := range pairs {
		all = append(all, p.a, p.b)
	}

	// four real BFD senders emit in the background while the other streams are generated
	var series []*bfdSeriesT
	for k := 0; k < 4; k++ {
		series = append(series, startBFDSeries(rng.Fork(uint64(500000+k)), all[k%len(all)], k))
	}

	table(rng.Fork(1), pairs[0].a)
	if run.Tier == "thorough" {
		for i := 1; i < len(pairs); i++ {
			table(rng.Fork(uint64(10+i)), pairs[i].b)
		}
	}

	nValid := run.Count(160, 6000)
	for i := 0; i < nValid; i++ {
		r := rng.Fork(uint64(100000 + i))
		rc := all[i%len(all)]
		var s *scen
		if i%2 == 0 {
			s = genOut(r, rc.cfg)
		} else {
			s = genIn(r, rc.cfg)
		}
		emit("valid", rc, s, nil)
	}
	nMut := run.Count(300, 20000)
	for i := 0; i < nMut; i++ {
		r := rng.Fork(uint64(200000 + i))
		rc := all[i%len(all)]
		var s *scen
		if (i/len(mutations))%2 == 0 {
			s = genOut(r, rc.cfg)
		} else {
			s = genIn(r, rc.cfg)
		}
		mutate(r, s, rc.cfg, mutations[i%len(mutations)])
		if i%6 == 5 {
			mutate(r, s, rc.cfg, vgen.Pick(r, mutations...))
		}
		emit("mutated", rc, s, nil)
	}
	// otherwise valid packets whose HdrLen announces more than the one-hop path needs
	nSlack := run.Count(40, 1000)
	for i := 0; i < nSlack; i++ {
		r := rng.Fork(uint64(250000 + i))
		rc := all[i%len(all)]
		var s *scen
		if i%2 == 0 {
			s = genOut(r, rc.cfg)
		} else {
			s = genIn(r, rc.cfg)
			if i%4 == 1 {
				s.d.Dst = randHost(r)
				s.d.L4 = rtgen.UDP(uint16(r.Range(1, 65535)), uint16(r.Range(1, 65535)), r.Bytes(r.Intn(24)))
			}
		}
		s.kind = "slack-" + s.kind
		s.slack = r.Range(1, 3)
		emit("slack", rc, s, nil)
	}
	nChain := run.Count(60, 3000)
	for i := 0; i < nChain; i++ {
		p := pairs[i%len(pairs)]
		chain(rng.Fork(uint64(300000+i)), p.a, p.b, i)
	}
	nBfd := run.Count(16, 400)
	for i := 0; i < nBfd; i++ {
		bfdCase(rng.Fork(uint64(400000+i)), all[i%len(all)], i)
	}
	for k, sr := range series {
		emitBFDSeries(sr, k)
	}
	run.Prelude = strings.Join(prelude, "\n")
	run.Finish()
}
