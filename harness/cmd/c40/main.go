package main

import (
	"fmt"
	"net"

	dkgrpc "github.com/scionproto/scion/control/drkey/grpc"
	"github.com/scionproto/scion/pkg/drkey"
)

func main() {
	m := drkey.ASHostMeta{ProtoId: 1, SrcIA: 5, DstIA: 7, DstHost: "CS"}
	fmt.Println(dkgrpc.VerifValidateASHostReq(m, 7, &net.TCPAddr{}))
	fmt.Println(dkgrpc.VerifValidateASHostReq(m, 7, &net.TCPAddr{IP: net.IP{1, 2, 3, 4}}))
	m.DstHost = "::ffff:1.2.3.4"
	fmt.Println(dkgrpc.VerifValidateASHostReq(m, 7, &net.TCPAddr{IP: net.IP{1, 2, 3, 4}}))
	m.DstHost = "1.2.3.4"
	fmt.Println(dkgrpc.VerifValidateASHostReq(m, 7, &net.TCPAddr{IP: net.ParseIP("1.2.3.4"), Zone: "x"}))
	fmt.Println(dkgrpc.VerifValidateASHostReq(m, 7, &net.TCPAddr{IP: net.IP{1, 2, 3}}))
	m.DstHost = "fe80::1%eth0"
	fmt.Println(dkgrpc.VerifValidateASHostReq(m, 7, &net.TCPAddr{IP: net.ParseIP("fe80::1"), Zone: "eth0"}))
}
