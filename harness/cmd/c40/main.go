// Runner for C40: who is handed which DRKey. Drives the real request validators
// of control/drkey/grpc (through export_verif.go) and the exported gRPC Server
// methods with a synthetic peer.Context (TCP address, TLS info with generated
// client certificates, certificate verifier reading the ISD-AS from the
// certificate subject, recording engine).
package main

import (
	"context"
	"crypto/ecdsa"
	"crypto/elliptic"
	"crypto/rand"
	"crypto/tls"
	"crypto/x509"
	"crypto/x509/pkix"
	"errors"
	"fmt"
	"math/big"
	"net"
	"net/netip"
	"sort"
	"strings"
	"time"

	"google.golang.org/grpc/credentials"
	"google.golang.org/grpc/peer"
	"google.golang.org/protobuf/types/known/timestamppb"

	"github.com/scionproto/scion/control/config"
	dkgrpc "github.com/scionproto/scion/control/drkey/grpc"
	"github.com/scionproto/scion/pkg/addr"
	"github.com/scionproto/scion/pkg/drkey"
	cppb "github.com/scionproto/scion/pkg/proto/control_plane"
	drkeypb "github.com/scionproto/scion/pkg/proto/drkey"
	"github.com/scionproto/scion/pkg/scrypto/cppki"
	"verifharness/internal/vgen"
)

// ---------------------------------------------------------------- pools

var ias = []addr.IA{
	addr.MustParseIA("1-ff00:0:110"), addr.MustParseIA("1-ff00:0:111"),
	addr.MustParseIA("2-ff00:0:210"),
}

// hosts of the pool, as canonical address bytes
var hostPool = [][]byte{
	{10, 1, 2, 3}, {10, 1, 2, 4}, {127, 0, 0, 1},
	net.ParseIP("2001:db8::1"), net.ParseIP("2001:db8::2"), net.ParseIP("::1"),
}

func mapped(b []byte) []byte {
	return append([]byte{0, 0, 0, 0, 0, 0, 0, 0, 0, 0, 0xff, 0xff}, b...)
}

// ---- requester

type peerSpec struct {
	Kind int    // 0 absent, 1 not TCP, 2 TCP
	IP   []byte // TCP only
	Zone string
}

func (p peerSpec) addr() net.Addr {
	switch p.Kind {
	case 1:
		return &net.UDPAddr{IP: net.IP(p.IP), Port: 12345}
	case 2:
		return &net.TCPAddr{IP: net.IP(p.IP), Port: 12345, Zone: p.Zone}
	}
	return nil
}

func (p peerSpec) term() string {
	switch p.Kind {
	case 0:
		return "DRKeyACL.PAbsent"
	case 1:
		return "DRKeyACL.PNotTCP"
	}
	return vgen.App("DRKeyACL.PTCP", vgen.Bytes(p.IP))
}

func (p peerSpec) String() string {
	switch p.Kind {
	case 0:
		return "absent"
	case 1:
		return "udp:" + net.IP(p.IP).String()
	}
	return fmt.Sprintf("tcp:%x", p.IP)
}

// peerForms lists the ways host h can show up as the requester address.
func peerForms(h []byte) []peerSpec {
	if len(h) == 4 {
		return []peerSpec{{Kind: 2, IP: h}, {Kind: 2, IP: mapped(h)}}
	}
	return []peerSpec{{Kind: 2, IP: h}, {Kind: 2, IP: h, Zone: "eth0"}}
}

func genPeer(r *vgen.Rand, legit []byte) peerSpec {
	switch x := r.Intn(20); {
	case x < 12 && legit != nil:
		return vgen.Pick(r, peerForms(legit)...)
	case x < 16:
		return vgen.Pick(r, peerForms(vgen.Pick(r, hostPool...))...)
	case x == 16:
		return peerSpec{Kind: 0}
	case x == 17:
		return peerSpec{Kind: 1, IP: vgen.Pick(r, hostPool...)}
	case x == 18:
		return peerSpec{Kind: 2, IP: nil}
	default:
		return peerSpec{Kind: 2, IP: r.Bytes(vgen.Pick(r, 1, 3, 5, 15, 17))}
	}
}

// ---- named hosts (strings)

func hostStrings(h []byte) []string {
	if len(h) == 4 {
		a := netip.AddrFrom4([4]byte(h))
		return []string{a.String(), "::ffff:" + a.String(),
			fmt.Sprintf("::ffff:%02x%02x:%02x%02x", h[0], h[1], h[2], h[3]),
			fmt.Sprintf("0:0:0:0:0:ffff:%x:%x", int(h[0])<<8|int(h[1]), int(h[2])<<8|int(h[3]))}
	}
	a := netip.AddrFrom16([16]byte(h))
	return []string{a.String(), a.StringExpanded(), strings.ToUpper(a.String())}
}

var junkHosts = []string{"", "CS", "DS_M", "Wildcard", "localhost", "10.1.2", "10.1.2.3.4",
	" 10.1.2.3", "10.1.2.03", "fe80::1%eth0", "2001:db8::1%x", "::ffff:10.1.2.3%z", "1.2.3.4/32"}

func genHostString(r *vgen.Rand, legit []byte) string {
	switch x := r.Intn(10); {
	case x < 6 && legit != nil:
		return vgen.Pick(r, hostStrings(legit)...)
	case x < 9:
		return vgen.Pick(r, hostStrings(vgen.Pick(r, hostPool...))...)
	default:
		return vgen.Pick(r, junkHosts...)
	}
}

// parsed is what the model receives for a named host.
func parsed(s string) string { return vgen.Bytes(net.ParseIP(s)) }

// ---- protocols

var pbProtos = []int32{0, 1, 2, 7, 200, 65535, 65536, 65537, 131072, -1, -65536, -65535,
	2147483647, -2147483648, 1 << 30}

func genProto(r *vgen.Rand) int32 {
	switch x := r.Intn(10); {
	case x < 4:
		return 1
	case x < 6:
		return vgen.Pick(r, int32(2), int32(7), int32(200))
	case x < 7:
		return 0
	default:
		return vgen.Pick(r, pbProtos...)
	}
}

func zterm(v int64) string { return fmt.Sprintf("(%d)%%Z", v) }

// ---- allowed (host, protocol) set

type allowedEntry struct {
	Host  netip.Addr
	Proto drkey.Protocol
}

func naddrTerm(a netip.Addr) string {
	if a.Is4() {
		b := a.As4()
		return vgen.App("DRKeyACL.NA4", vgen.Bytes(b[:]))
	}
	b := a.As16()
	return vgen.App("DRKeyACL.NA6", vgen.Bytes(b[:]), vgen.Str(a.Zone()))
}

func allowedTerm(es []allowedEntry) string {
	return vgen.ListOf(es, func(e allowedEntry) string {
		return vgen.Pair(naddrTerm(e.Host), vgen.N(uint64(e.Proto)))
	})
}

func allowedMap(es []allowedEntry) map[config.HostProto]struct{} {
	m := map[config.HostProto]struct{}{}
	for _, e := range es {
		m[config.HostProto{Host: e.Host, Proto: e.Proto}] = struct{}{}
	}
	return m
}

func genAllowed(r *vgen.Rand, legit []byte, proto drkey.Protocol) []allowedEntry {
	var es []allowedEntry
	n := r.Intn(4)
	for i := 0; i < n; i++ {
		h := vgen.Pick(r, hostPool...)
		a, _ := netip.AddrFromSlice(h)
		switch r.Intn(6) {
		case 0:
			if a.Is4() { // as configured "::ffff:a.b.c.d": never matches
				a = netip.AddrFrom16(a.As16())
			}
		case 1:
			if a.Is6() {
				a = a.WithZone("eth0")
			}
		}
		es = append(es, allowedEntry{a, drkey.Protocol(vgen.Pick(r, 0, 1, 1, 2, 7))})
	}
	if legit != nil && r.Chance(3, 4) {
		a, _ := netip.AddrFromSlice(legit)
		p := proto
		if r.Chance(1, 6) {
			p = drkey.Protocol(vgen.Pick(r, 0, 1, 2, 7))
		}
		es = append(es, allowedEntry{a, p})
	}
	sort.Slice(es, func(i, j int) bool {
		if c := es[i].Host.Compare(es[j].Host); c != 0 {
			return c < 0
		}
		return es[i].Proto < es[j].Proto
	})
	return es
}

// ---- certificates

type authSpec struct {
	Kind  int // 0 none, 1 not TLS, 2 TLS
	Chain []*x509.Certificate
	// model view
	Verified *addr.IA
}

type otherAuth struct{}

func (otherAuth) AuthType() string { return "other" }

func (a authSpec) info() credentials.AuthInfo {
	switch a.Kind {
	case 1:
		return otherAuth{}
	case 2:
		return credentials.TLSInfo{State: tls.ConnectionState{PeerCertificates: a.Chain}}
	}
	return nil
}

func (a authSpec) term() string {
	switch a.Kind {
	case 0:
		return "DRKeyACL.ANone"
	case 1:
		return "DRKeyACL.ANotTLS"
	}
	v := "None"
	if a.Verified != nil {
		v = vgen.Opt(vgen.N(uint64(*a.Verified)), true)
	}
	return vgen.App("DRKeyACL.ATLS", fmt.Sprintf("%d%%nat", len(a.Chain)), v)
}

// subjectVerifier stands in for trust.TLSCryptoVerifier: the ISD-AS is read from
// the leaf certificate's subject (cppki.ExtractIA, as the real verifier does); a
// certificate whose common name is "untrusted" does not verify.
type subjectVerifier struct{}

func (subjectVerifier) VerifyParsedClientCertificate(chain []*x509.Certificate) (addr.IA, error) {
	if len(chain) == 0 {
		return 0, errors.New("empty chain")
	}
	if chain[0].Subject.CommonName == "untrusted" {
		return 0, errors.New("certificate does not verify")
	}
	return cppki.ExtractIA(chain[0].Subject)
}

func mkCert(cn string, ia *addr.IA) *x509.Certificate { return mkCertSerial(cn, ia, 1) }

func mkCertSerial(cn string, ia *addr.IA, serial int64) *x509.Certificate {
	key, err := ecdsa.GenerateKey(elliptic.P256(), rand.Reader)
	must(err)
	subj := pkix.Name{CommonName: cn}
	if ia != nil {
		subj.ExtraNames = []pkix.AttributeTypeAndValue{{Type: cppki.OIDNameIA, Value: ia.String()}}
	}
	tmpl := &x509.Certificate{
		SerialNumber: big.NewInt(serial), Subject: subj,
		NotBefore: time.Unix(1700000000, 0), NotAfter: time.Unix(1900000000, 0),
		KeyUsage: x509.KeyUsageDigitalSignature, ExtKeyUsage: []x509.ExtKeyUsage{x509.ExtKeyUsageClientAuth},
	}
	der, err := x509.CreateCertificate(rand.Reader, tmpl, tmpl, &key.PublicKey, key)
	must(err)
	c, err := x509.ParseCertificate(der)
	must(err)
	return c
}

var (
	goodCerts   []*x509.Certificate // one per ias entry, all with serial number 1
	serialCerts []*x509.Certificate // one per ias entry, distinct serial numbers
	badCerts    []*x509.Certificate // untrusted, one per ias entry
	noIACert    *x509.Certificate
	caLikeCert  *x509.Certificate
)

func initCerts() {
	for i := range ias {
		ia := ias[i]
		goodCerts = append(goodCerts, mkCert("as "+ia.String(), &ia))
		badCerts = append(badCerts, mkCert("untrusted", &ia))
	}
	for i := range ias {
		ia := ias[i]
		serialCerts = append(serialCerts, mkCertSerial("as "+ia.String(), &ia, int64(100+i)))
	}
	noIACert = mkCert("no ia", nil)
	caLikeCert = mkCert("ca", &ias[2])
}

func genAuth(r *vgen.Rand) authSpec {
	switch x := r.Intn(12); {
	case x < 7:
		i := r.Intn(len(ias))
		ia := ias[i]
		chain := []*x509.Certificate{goodCerts[i]}
		if r.Bool() {
			chain = append(chain, caLikeCert)
		}
		return authSpec{Kind: 2, Chain: chain, Verified: &ia}
	case x < 8:
		return authSpec{Kind: 2, Chain: []*x509.Certificate{badCerts[r.Intn(len(ias))], caLikeCert}}
	case x < 9:
		return authSpec{Kind: 2, Chain: []*x509.Certificate{noIACert}}
	case x < 10:
		return authSpec{Kind: 2}
	case x < 11:
		return authSpec{Kind: 1}
	default:
		return authSpec{Kind: 0}
	}
}

// ---- recording engine

type callRec struct {
	Kind            int // 1 DeriveLevel1, 2 GetLevel1Key, 3 ASHost, 4 HostAS, 5 HostHost, 6 SV
	Proto           uint16
	Src, Dst        addr.IA
	SrcHost, DstHst string
}

type recEngine struct{ calls []callRec }

var engineKey = drkey.Key{1, 2, 3, 4, 5, 6, 7, 8, 9, 10, 11, 12, 13, 14, 15, 16}

func (e *recEngine) GetSecretValue(_ context.Context, m drkey.SecretValueMeta) (drkey.SecretValue, error) {
	e.calls = append(e.calls, callRec{Kind: 6, Proto: uint16(m.ProtoId)})
	return drkey.SecretValue{Key: engineKey}, nil
}
func (e *recEngine) GetLevel1Key(_ context.Context, m drkey.Level1Meta) (drkey.Level1Key, error) {
	e.calls = append(e.calls, callRec{Kind: 2, Proto: uint16(m.ProtoId), Src: m.SrcIA, Dst: m.DstIA})
	return drkey.Level1Key{Key: engineKey}, nil
}
func (e *recEngine) DeriveLevel1(_ context.Context, m drkey.Level1Meta) (drkey.Level1Key, error) {
	e.calls = append(e.calls, callRec{Kind: 1, Proto: uint16(m.ProtoId), Src: m.SrcIA, Dst: m.DstIA})
	return drkey.Level1Key{Key: engineKey}, nil
}
func (e *recEngine) DeriveASHost(_ context.Context, m drkey.ASHostMeta) (drkey.ASHostKey, error) {
	e.calls = append(e.calls, callRec{Kind: 3, Proto: uint16(m.ProtoId), Src: m.SrcIA, Dst: m.DstIA,
		DstHst: m.DstHost})
	return drkey.ASHostKey{Key: engineKey}, nil
}
func (e *recEngine) DeriveHostAS(_ context.Context, m drkey.HostASMeta) (drkey.HostASKey, error) {
	e.calls = append(e.calls, callRec{Kind: 4, Proto: uint16(m.ProtoId), Src: m.SrcIA, Dst: m.DstIA,
		SrcHost: m.SrcHost})
	return drkey.HostASKey{Key: engineKey}, nil
}
func (e *recEngine) DeriveHostHost(_ context.Context, m drkey.HostHostMeta) (drkey.HostHostKey, error) {
	e.calls = append(e.calls, callRec{Kind: 5, Proto: uint16(m.ProtoId), Src: m.SrcIA, Dst: m.DstIA,
		SrcHost: m.SrcHost, DstHst: m.DstHost})
	return drkey.HostHostKey{Key: engineKey}, nil
}

func (c callRec) term() string {
	p, s, d := vgen.N(uint64(c.Proto)), vgen.N(uint64(c.Src)), vgen.N(uint64(c.Dst))
	switch c.Kind {
	case 1:
		return vgen.App("DRKeyACL.CallDeriveLvl1", p, s, d)
	case 2:
		return vgen.App("DRKeyACL.CallGetLvl1", p, s, d)
	// the hosts are the ones the engine was asked for (net.ParseIP of the strings it received)
	case 3:
		return vgen.App("DRKeyACL.CallASHost", p, s, d, parsed(c.DstHst))
	case 4:
		return vgen.App("DRKeyACL.CallHostAS", p, s, d, parsed(c.SrcHost))
	case 5:
		return vgen.App("DRKeyACL.CallHostHost", p, s, d, parsed(c.SrcHost), parsed(c.DstHst))
	}
	return vgen.App("DRKeyACL.CallSV", p)
}

// ---- requests

type reqSpec struct {
	Proto            int32
	TS               int // 0 valid, 1 nil, 2 out of range
	Src, Dst         addr.IA
	SrcHost, DstHost string
}

func (q reqSpec) ts() *timestamppb.Timestamp {
	switch q.TS {
	case 1:
		return nil
	case 2:
		return &timestamppb.Timestamp{Seconds: 1 << 60}
	case 3:
		return &timestamppb.Timestamp{Seconds: 1700000000, Nanos: -5}
	}
	return timestamppb.New(time.Unix(1700000000, 0))
}

func (q reqSpec) term() string {
	return vgen.App("DRKeyACL.mkReq", zterm(int64(q.Proto)), vgen.B(q.TS == 0),
		vgen.N(uint64(q.Src)), vgen.N(uint64(q.Dst)), parsed(q.SrcHost), parsed(q.DstHost))
}

var epNames = []string{"ELvl1", "EIntra", "EASHost", "EHostAS", "EHostHost", "ESV"}

// serve runs one request against a real Server and returns the engine call made
// for a successful response (nil = refused).
func serve(ep int, local addr.IA, allowed []allowedEntry, p peerSpec, a authSpec, q reqSpec) (
	*callRec, string) {

	eng := &recEngine{}
	srv := &dkgrpc.Server{LocalIA: local, ClientCertificateVerifier: subjectVerifier{}, Engine: eng,
		AllowedSVHostProto: allowedMap(allowed)}
	return serveOn(srv, eng, ep, p, a, q)
}

// serveOn runs one request against an existing (possibly long-lived) Server whose
// engine is eng.
func serveOn(srv *dkgrpc.Server, eng *recEngine, ep int, p peerSpec, a authSpec, q reqSpec) (
	*callRec, string) {

	eng.calls = nil
	ctx := context.Background()
	if p.Kind != 0 {
		ctx = peer.NewContext(ctx, &peer.Peer{Addr: p.addr(), AuthInfo: a.info()})
	}
	var err error
	var key []byte
	pid := drkeypb.Protocol(q.Proto)
	switch ep {
	case 0:
		var r *cppb.DRKeyLevel1Response
		r, err = srv.DRKeyLevel1(ctx, &cppb.DRKeyLevel1Request{ValTime: q.ts(), ProtocolId: pid})
		key = r.GetKey()
	case 1:
		var r *cppb.DRKeyIntraLevel1Response
		r, err = srv.DRKeyIntraLevel1(ctx, &cppb.DRKeyIntraLevel1Request{ValTime: q.ts(),
			ProtocolId: pid, SrcIa: uint64(q.Src), DstIa: uint64(q.Dst)})
		key = r.GetKey()
	case 2:
		var r *cppb.DRKeyASHostResponse
		r, err = srv.DRKeyASHost(ctx, &cppb.DRKeyASHostRequest{ValTime: q.ts(), ProtocolId: pid,
			SrcIa: uint64(q.Src), DstIa: uint64(q.Dst), DstHost: q.DstHost})
		key = r.GetKey()
	case 3:
		var r *cppb.DRKeyHostASResponse
		r, err = srv.DRKeyHostAS(ctx, &cppb.DRKeyHostASRequest{ValTime: q.ts(), ProtocolId: pid,
			SrcIa: uint64(q.Src), DstIa: uint64(q.Dst), SrcHost: q.SrcHost})
		key = r.GetKey()
	case 4:
		var r *cppb.DRKeyHostHostResponse
		r, err = srv.DRKeyHostHost(ctx, &cppb.DRKeyHostHostRequest{ValTime: q.ts(), ProtocolId: pid,
			SrcIa: uint64(q.Src), DstIa: uint64(q.Dst), SrcHost: q.SrcHost, DstHost: q.DstHost})
		key = r.GetKey()
	case 5:
		var r *cppb.DRKeySecretValueResponse
		r, err = srv.DRKeySecretValue(ctx, &cppb.DRKeySecretValueRequest{ValTime: q.ts(), ProtocolId: pid})
		key = r.GetKey()
	}
	if err != nil {
		if len(eng.calls) != 0 {
			return nil, "engine called although the request was refused"
		}
		return nil, ""
	}
	if len(eng.calls) != 1 {
		return nil, fmt.Sprintf("response without exactly one engine call (%d)", len(eng.calls))
	}
	c := eng.calls[0]
	if string(key) != string(engineKey[:]) {
		return &c, "response does not carry the engine's key"
	}
	// the hosts must be handed to the engine as named in the request
	switch c.Kind {
	case 3:
		if c.DstHst != q.DstHost {
			return &c, "engine asked for another host than the one named"
		}
	case 4:
		if c.SrcHost != q.SrcHost {
			return &c, "engine asked for another host than the one named"
		}
	case 5:
		if c.SrcHost != q.SrcHost || c.DstHst != q.DstHost {
			return &c, "engine asked for another host than the one named"
		}
	}
	return &c, ""
}

func must(err error) {
	if err != nil {
		panic(err)
	}
}

// ---------------------------------------------------------------- main

func main() {
	run := vgen.Flags("C40")
	run.Imports = []string{"Model.DRKeyACL"}
	run.CheckFn = "DRKeyACL.check"
	run.DiagFn = "DRKeyACL.diag"
	run.CaseType = "DRKeyACL.case"
	run.Rule = "predefined protocols: all 2^16 ids (exhaustive); validators: full product of kind x " +
		"protocol x local-AS position x requester form (IPv4, IPv4-in-IPv6, IPv6, other host, nil, " +
		"non-TCP) x named-host spelling (exhaustive) + random (incl. odd-length IPs, junk host strings); allowed-host sets; " +
		"certificate outcomes; the six Server methods with mostly legitimate requests and single-field " +
		"deviations; sequences of 4-7 requests on ONE Server (level-1 requests whose certificates share a serial " +
		"number across ASes / with unverifiable chains / repeated / distinct serials; all six RPCs mixed) against " +
		"the stateless model; non-trivial = the request reached the address/AS/allowed-set decision " +
		"(requester present with TCP address, valid timestamp, protocol not generic where that is checked first)"
	rng := vgen.NewRand(run.Seed)
	initCerts()

	// 1. predefined protocol identifiers (finite domain)
	if run.Want() {
		var pre []uint64
		for p := 0; p < 65536; p++ {
			if drkey.Protocol(p).IsPredefined() {
				pre = append(pre, uint64(p))
			}
		}
		run.Add("predefined", vgen.App("DRKeyACL.CPredef", vgen.NList(pre)), "predef", true,
			map[string]any{"predefined": pre})
	} else {
		run.Skip()
	}

	// 2. validators, exhaustive product around the local AS
	L, O, O2 := ias[0], ias[1], ias[2]
	type iaPos struct{ src, dst addr.IA }
	positions := []iaPos{{O, L}, {L, O}, {L, L}, {O, O2}}
	h1, h2, h6 := hostPool[0], hostPool[1], hostPool[3]
	peers := []peerSpec{{Kind: 2, IP: h1}, {Kind: 2, IP: mapped(h1)}, {Kind: 2, IP: h2},
		{Kind: 2, IP: h6}, {Kind: 2, IP: nil}, {Kind: 1, IP: h1}}
	named := []string{"10.1.2.3", "::ffff:10.1.2.3", "10.1.2.4", "", "2001:db8::1", "CS"}
	validateOne := func(kind int, proto uint16, pos iaPos, local addr.IA, p peerSpec, sh, dh string) {
		if !run.Want() {
			run.Skip()
			return
		}
		var err error
		pa := p.addr()
		panicked, msg := vgen.Recover(func() {
			switch kind {
			case 1:
				err = dkgrpc.VerifValidateASHostReq(drkey.ASHostMeta{ProtoId: drkey.Protocol(proto),
					SrcIA: pos.src, DstIA: pos.dst, DstHost: dh}, local, pa)
			case 2:
				err = dkgrpc.VerifValidateHostASReq(drkey.HostASMeta{ProtoId: drkey.Protocol(proto),
					SrcIA: pos.src, DstIA: pos.dst, SrcHost: sh}, local, pa)
			default:
				err = dkgrpc.VerifValidateHostHostReq(drkey.HostHostMeta{ProtoId: drkey.Protocol(proto),
					SrcIA: pos.src, DstIA: pos.dst, SrcHost: sh, DstHost: dh}, local, pa)
			}
		})
		desc := map[string]any{"kind": kind, "proto": proto, "src": pos.src.String(),
			"dst": pos.dst.String(), "src_host": sh, "dst_host": dh, "local": local.String(),
			"peer": p.String(), "accepted": err == nil}
		if panicked {
			run.Violate(run.Add("validate", "DRKeyACL.CPredef []", "", false, desc), "panic: "+msg, desc)
			return
		}
		run.Tally(fmt.Sprintf("validate:kind%d-accepted:%v", kind, err == nil))
		run.Add("validate", vgen.App("DRKeyACL.CValidate", vgen.N(uint64(kind)), vgen.N(uint64(proto)),
			vgen.N(uint64(pos.src)), vgen.N(uint64(pos.dst)), parsed(sh), parsed(dh),
			vgen.N(uint64(local)), p.term(), vgen.B(err == nil)),
			fmt.Sprint(kind, proto, pos, local, p, sh, dh), proto != 0 && p.Kind == 2, desc)
	}
	for _, proto := range []uint16{0, 1, 7} {
		for _, pos := range positions {
			for _, p := range peers {
				if proto == 0 { // refused before anything else is looked at
					validateOne(1, proto, pos, L, p, "", named[0])
					validateOne(2, proto, pos, L, p, named[0], "")
					validateOne(3, proto, pos, L, p, named[0], named[0])
					continue
				}
				for _, h := range named {
					validateOne(1, proto, pos, L, p, "", h)
					validateOne(2, proto, pos, L, p, h, "")
				}
				for _, sh := range named[:4] {
					for _, dh := range named[:4] {
						validateOne(3, proto, pos, L, p, sh, dh)
					}
				}
			}
		}
	}
	// 2b. validators, random
	nv := run.Count(300, 40000)
	for i := 0; i < nv; i++ {
		r := rng.Fork(uint64(100000 + i))
		kind := r.Range(1, 3)
		local := vgen.Pick(r, ias...)
		pos := iaPos{vgen.Pick(r, ias...), vgen.Pick(r, ias...)}
		if r.Chance(2, 3) {
			if kind == 1 || (kind == 3 && r.Bool()) {
				pos.dst = local
			} else {
				pos.src = local
			}
		}
		me := vgen.Pick(r, hostPool...)
		p := genPeer(r, me)
		sh, dh := genHostString(r, me), genHostString(r, me)
		proto := uint16(vgen.Pick(r, 0, 1, 1, 1, 2, 7, 200, 65535))
		validateOne(kind, proto, pos, local, p, sh, dh)
	}

	// 3. allowed (host, protocol) sets
	na := run.Count(200, 20000)
	for i := 0; i < na; i++ {
		r := rng.Fork(uint64(200000 + i))
		me := vgen.Pick(r, hostPool...)
		proto := drkey.Protocol(vgen.Pick(r, 0, 1, 1, 2, 7))
		es := genAllowed(r, me, proto)
		p := genPeer(r, me)
		if p.Kind == 0 {
			p.Kind = 1
		}
		if !run.Want() {
			run.Skip()
			continue
		}
		srv := &dkgrpc.Server{AllowedSVHostProto: allowedMap(es)}
		err := srv.VerifValidateAllowedHost(proto, p.addr())
		run.Tally(fmt.Sprintf("allowed:%v", err == nil))
		run.Add("allowed", vgen.App("DRKeyACL.CAllowed", allowedTerm(es), vgen.N(uint64(proto)),
			p.term(), vgen.B(err == nil)), fmt.Sprint(es, proto, p), p.Kind == 2 && len(es) > 0,
			map[string]any{"allowed": fmt.Sprint(es), "proto": proto, "peer": p.String(),
				"accepted": err == nil})
	}

	// 4. certificate outcomes
	nc := run.Count(30, 400)
	for i := 0; i < nc; i++ {
		r := rng.Fork(uint64(300000 + i))
		a := genAuth(r)
		if !run.Want() {
			run.Skip()
			continue
		}
		srv := &dkgrpc.Server{ClientCertificateVerifier: subjectVerifier{}}
		ia, err := srv.VerifValidateClientCertificate(&peer.Peer{AuthInfo: a.info()})
		impl := "None"
		if err == nil {
			impl = vgen.Opt(vgen.N(uint64(ia)), true)
		}
		run.Tally(fmt.Sprintf("cert:kind%d-ok:%v", a.Kind, err == nil))
		run.Add("cert", vgen.App("DRKeyACL.CCert", a.term(), impl), a.term(), a.Kind == 2,
			map[string]any{"auth": a.term(), "ia": ia.String(), "ok": err == nil})
	}

	// 5. the Server methods
	ns := run.Count(150, 15000)
	for ep := 0; ep < 6; ep++ {
		for i := 0; i < ns; i++ {
			r := rng.Fork(uint64(1000000*(ep+1) + i))
			local := vgen.Pick(r, ias...)
			me := vgen.Pick(r, hostPool...)
			other := vgen.Pick(r, ias...)
			q := reqSpec{Proto: genProto(r), Src: other, Dst: local}
			// a legitimate request for this endpoint ...
			switch ep {
			case 1:
				if r.Bool() {
					q.Src, q.Dst = local, other
				}
			case 3:
				q.Src, q.Dst = local, other
			case 4:
				if r.Bool() {
					q.Src, q.Dst = local, other
				}
			}
			q.SrcHost = genHostString(r, me)
			q.DstHost = genHostString(r, me)
			p := genPeer(r, me)
			a := genAuth(r)
			es := genAllowed(r, me, drkey.Protocol(q.Proto))
			// ... with occasional deviations
			if r.Chance(1, 5) {
				q.Src = vgen.Pick(r, ias...)
			}
			if r.Chance(1, 5) {
				q.Dst = vgen.Pick(r, ias...)
			}
			if r.Chance(1, 10) {
				q.TS = r.Range(1, 3)
			}
			if !run.Want() {
				run.Skip()
				continue
			}
			var c *callRec
			var bad string
			panicked, msg := vgen.Recover(func() { c, bad = serve(ep, local, es, p, a, q) })
			desc := map[string]any{"endpoint": epNames[ep], "local": local.String(), "peer": p.String(),
				"auth": a.term(), "allowed": fmt.Sprint(es), "proto": q.Proto, "ts": q.TS,
				"src": q.Src.String(), "dst": q.Dst.String(), "src_host": q.SrcHost,
				"dst_host": q.DstHost}
			impl := "None"
			if c != nil {
				impl = vgen.Opt(c.term(), true)
				desc["call"] = fmt.Sprintf("%+v", *c)
			}
			run.Tally(fmt.Sprintf("serve:%s-served:%v", epNames[ep], c != nil))
			id := run.Add("serve", vgen.App("DRKeyACL.CServe", "DRKeyACL."+epNames[ep],
				vgen.N(uint64(local)), allowedTerm(es), p.term(), a.term(), q.term(), impl),
				fmt.Sprint(ep, local, es, p, a.term(), q), p.Kind == 2 && q.TS == 0, desc)
			if panicked {
				run.Violate(id, "panic: "+msg, desc)
			} else if bad != "" {
				run.Violate(id, bad, desc)
			}
		}
	}
	// 6. sequences of requests on ONE long-lived Server: every response must be the one
	// its own request determines (no state may leak from earlier requests)
	nq := run.Count(160, 8000)
	for i := 0; i < nq; i++ {
		r := rng.Fork(uint64(9000000 + i))
		local := vgen.Pick(r, ias...)
		me := vgen.Pick(r, hostPool...)
		es := genAllowed(r, me, drkey.SCMP)
		type step struct {
			ep int
			p  peerSpec
			a  authSpec
			q  reqSpec
		}
		var steps []step
		tls := func(c ...*x509.Certificate) authSpec { return authSpec{Kind: 2, Chain: c} }
		good := func(k int, c *x509.Certificate) authSpec {
			ia := ias[k]
			return authSpec{Kind: 2, Chain: []*x509.Certificate{c}, Verified: &ia}
		}
		lvl1 := func(a authSpec) step {
			return step{0, genPeer(r, me), a, reqSpec{Proto: vgen.Pick(r, int32(0), int32(1), int32(1), int32(7))}}
		}
		if i%2 == 0 {
			// level-1 requests with colliding / repeated / distinct certificate serial numbers
			x, y := r.Intn(len(ias)), r.Intn(len(ias))
			steps = append(steps, lvl1(good(x, goodCerts[x])))
			n := r.Range(3, 6)
			for j := 0; j < n; j++ {
				switch r.Intn(7) {
				case 0: // same serial, other AS
					steps = append(steps, lvl1(good(y, goodCerts[y])))
				case 1: // same serial, chain that does not verify
					steps = append(steps, lvl1(tls(badCerts[r.Intn(len(ias))], caLikeCert)))
				case 2: // same serial, certificate without ISD-AS
					steps = append(steps, lvl1(tls(noIACert)))
				case 3: // the same certificate again
					steps = append(steps, lvl1(good(x, goodCerts[x])))
				case 4: // distinct serial numbers
					k := r.Intn(len(ias))
					steps = append(steps, lvl1(good(k, serialCerts[k])))
				case 5: // no certificate / no TLS
					steps = append(steps, lvl1(authSpec{Kind: vgen.Pick(r, 0, 1, 2)}))
				default:
					k := r.Intn(len(ias))
					steps = append(steps, lvl1(good(k, goodCerts[k])))
				}
			}
		} else {
			// all RPCs mixed: an accepted request followed by ones that must be refused, etc.
			n := r.Range(4, 7)
			for j := 0; j < n; j++ {
				ep := r.Intn(6)
				other := vgen.Pick(r, ias...)
				q := reqSpec{Proto: genProto(r), Src: other, Dst: local}
				if ep == 3 || ((ep == 1 || ep == 4) && r.Bool()) {
					q.Src, q.Dst = local, other
				}
				q.SrcHost, q.DstHost = genHostString(r, me), genHostString(r, me)
				if r.Chance(1, 6) {
					q.Src = vgen.Pick(r, ias...)
				}
				if r.Chance(1, 6) {
					q.Dst = vgen.Pick(r, ias...)
				}
				if r.Chance(1, 12) {
					q.TS = r.Range(1, 3)
				}
				steps = append(steps, step{ep, genPeer(r, me), genAuth(r), q})
			}
		}
		if !run.Want() {
			run.Skip()
			continue
		}
		eng := &recEngine{}
		srv := &dkgrpc.Server{LocalIA: local, ClientCertificateVerifier: subjectVerifier{}, Engine: eng,
			AllowedSVHostProto: allowedMap(es)}
		var terms []string
		var descs []any
		var bads []string
		servedN := 0
		for _, st := range steps {
			var c *callRec
			var bad string
			panicked, msg := vgen.Recover(func() { c, bad = serveOn(srv, eng, st.ep, st.p, st.a, st.q) })
			if panicked {
				bad = "panic: " + msg
			}
			impl := "None"
			d := map[string]any{"endpoint": epNames[st.ep], "peer": st.p.String(), "auth": st.a.term(),
				"proto": st.q.Proto, "ts": st.q.TS, "src": st.q.Src.String(), "dst": st.q.Dst.String(),
				"src_host": st.q.SrcHost, "dst_host": st.q.DstHost}
			if st.a.Kind == 2 && len(st.a.Chain) > 0 {
				d["cert"] = fmt.Sprintf("serial %v subject %v", st.a.Chain[0].SerialNumber, st.a.Chain[0].Subject)
			}
			if c != nil {
				impl = vgen.Opt(c.term(), true)
				d["call"] = fmt.Sprintf("%+v", *c)
				servedN++
			}
			if bad != "" {
				bads = append(bads, bad)
			}
			descs = append(descs, d)
			terms = append(terms, "(DRKeyACL."+epNames[st.ep]+", "+st.p.term()+", "+st.a.term()+", "+
				st.q.term()+", "+impl+")")
		}
		kind := "lvl1"
		if i%2 == 1 {
			kind = "mixed"
		}
		run.Tally(fmt.Sprintf("seq:%s-len%d", kind, len(steps)))
		desc := map[string]any{"local": local.String(), "allowed": fmt.Sprint(es), "steps": descs}
		id := run.Add("sequence", vgen.App("DRKeyACL.CSeq", vgen.N(uint64(local)), allowedTerm(es),
			vgen.List(terms)), fmt.Sprint(local, es, terms), servedN > 0, desc)
		for _, b := range bads {
			run.Violate(id, b, desc)
		}
	}
	run.Finish()
}
