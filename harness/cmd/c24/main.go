// Runner for C24: path-segment verification on the real code —
// seg.PathSegment.AddASEntry / SegmentFromPB (+Validate) / segverifier.VerifySegment
// with a real trust.Verifier (with and without Verifier.Cache) over the real
// trust.FetchingProvider and an in-memory SQLite trust DB filled by
// harness/internal/pki24 (real ECDSA keys, X.509 chains, signed TRCs).
//
// A case is a short sequence of verifications on ONE verifier (so that the
// chain cache is exercised): each step carries the segment as VerifySegment sees
// it (Info.Raw, Info.Timestamp, per entry Local / ExpTime / HeaderAndBody /
// Signature), the table of (key, digest, signature) triples among the step's
// candidates that crypto/ecdsa accepts, and VerifySegment's verdict.
package main

import (
	"bytes"
	"context"
	"crypto/ecdsa"
	"crypto/elliptic"
	"crypto/sha256"
	"crypto/sha512"
	"encoding/hex"
	"fmt"
	"net"
	"os"
	"sort"
	"strings"
	"sync"
	"time"

	"github.com/patrickmn/go-cache"
	"google.golang.org/protobuf/proto"

	"github.com/scionproto/scion/pkg/addr"
	cppb "github.com/scionproto/scion/pkg/proto/control_plane"
	cryptopb "github.com/scionproto/scion/pkg/proto/crypto"
	"github.com/scionproto/scion/pkg/scrypto"
	"github.com/scionproto/scion/pkg/scrypto/cppki"
	"github.com/scionproto/scion/pkg/scrypto/signed"
	seg "github.com/scionproto/scion/pkg/segment"
	"github.com/scionproto/scion/private/segment/segverifier"
	infra "github.com/scionproto/scion/private/segment/verifier"
	"github.com/scionproto/scion/private/trust"
	"github.com/scionproto/scion/private/trust/compat"
	"verifharness/internal/pki24"
	"verifharness/internal/vgen"
)

// ---------------------------------------------------------------- PKI description

type certRec struct {
	ia     addr.IA
	key    *ecdsa.PrivateKey
	keyID  int
	skid   []byte
	nb, na time.Time
	ok     bool // chain verifies against the TRC and is valid now
	label  string
	as     *pki24.ASCert
}

type asRec struct {
	ia    addr.IA
	certs map[string]*certRec
}

func detKey(r *vgen.Rand, c elliptic.Curve) *ecdsa.PrivateKey {
	n := (c.Params().BitSize + 7) / 8
	for {
		d := r.Bytes(n)
		d[0] = 0
		d[n-1] |= 1
		if k, err := ecdsa.ParseRawPrivateKey(c, d); err == nil {
			return k
		}
	}
}

func ms(t time.Time) string { return fmt.Sprintf("(%d)%%Z", t.UnixMilli()) }

// hx prints a byte string as the compact literal of Lib/HexLit.v.
func hx(b []byte) string {
	if len(b) == 0 {
		return "[]"
	}
	return fmt.Sprintf("(Hx %d 0x%s)", len(b), hex.EncodeToString(b))
}

// ---------------------------------------------------------------- per-case byte-string names

type names struct {
	lets  []string
	byVal map[string]string
	vals  map[string][]byte
	order []string
}

func newNames() *names { return &names{byVal: map[string]string{}, vals: map[string][]byte{}} }

// ref returns a Gallina expression for b, introducing a let-bound name for long strings.
func (n *names) ref(b []byte) string {
	if len(b) < 6 {
		return hx(b)
	}
	if nm, ok := n.byVal[string(b)]; ok {
		return nm
	}
	// one byte away from a named string of the same length?
	for _, nm := range n.order {
		o := n.vals[nm]
		if len(o) != len(b) {
			continue
		}
		diff, pos := 0, 0
		for i := range b {
			if b[i] != o[i] {
				diff++
				pos = i
				if diff > 1 {
					break
				}
			}
		}
		if diff == 1 {
			return fmt.Sprintf("(setb %s %d %d)", nm, pos, b[pos])
		}
	}
	nm := fmt.Sprintf("x%d", len(n.order))
	n.order = append(n.order, nm)
	n.byVal[string(b)] = nm
	n.vals[nm] = append([]byte{}, b...)
	n.lets = append(n.lets, fmt.Sprintf("let %s := %s in", nm, hx(b)))
	return nm
}

// ---------------------------------------------------------------- segments

type entrySpec struct {
	as     *asRec
	cert   *certRec // key and subject key id used for signing
	kIA    addr.IA  // key id fields (default: as.ia, cert.skid, TRC 1/1)
	kSKID  []byte
	kBase  uint64
	kSer   uint64
	exp    uint8
	abnorm string
}

type world struct {
	ctx   context.Context
	now   time.Time
	ases  []*asRec
	certs []*certRec
	db    trust.DB
	rng   *vgen.Rand
}

func (w *world) signer(e *entrySpec) trust.Signer {
	algo, err := signed.SelectSignatureAlgorithm(e.cert.key.Public())
	if err != nil {
		panic(err)
	}
	return trust.Signer{PrivateKey: e.cert.key, Algorithm: algo, IA: e.kIA, SubjectKeyID: e.kSKID,
		Expiration: w.now.Add(time.Hour),
		TRCID:      cppki.TRCID{ISD: e.kIA.ISD(), Base: scrypto.Version(e.kBase), Serial: scrypto.Version(e.kSer)}}
}

// build signs a segment entry by entry with the real AddASEntry and passes it
// through the protobuf representation and SegmentFromPB (parse + Validate).
func (w *world) build(r *vgen.Rand, ts time.Time, specs []*entrySpec) (*seg.PathSegment, error) {
	ps, err := seg.CreateSegment(ts, uint16(r.Intn(65536)))
	if err != nil {
		return nil, err
	}
	prevEgress := uint16(0)
	for i, sp := range specs {
		e := seg.ASEntry{Local: sp.as.ia, MTU: 1200 + r.Intn(300)}
		hf := seg.HopField{ExpTime: sp.exp, ConsIngress: prevEgress}
		copy(hf.MAC[:], r.Bytes(6))
		if i < len(specs)-1 {
			e.Next = specs[i+1].as.ia
			hf.ConsEgress = uint16(r.Range(1, 60000))
		}
		prevEgress = uint16(r.Range(1, 60000))
		if i == 0 {
			hf.ConsIngress = 0
		}
		e.HopEntry = seg.HopEntry{HopField: hf, IngressMTU: 1300}
		for p := r.Intn(3); p > 0 && i > 0; p-- {
			ph := seg.HopField{ExpTime: uint8(r.Intn(256)), ConsIngress: uint16(r.Range(1, 999)),
				ConsEgress: hf.ConsEgress}
			copy(ph.MAC[:], r.Bytes(6))
			e.PeerEntries = append(e.PeerEntries, seg.PeerEntry{HopField: ph, Peer: w.ases[r.Intn(len(w.ases))].ia,
				PeerInterface: uint16(r.Range(1, 999)), PeerMTU: 1400})
		}
		if err := ps.AddASEntry(w.ctx, e, w.signer(sp)); err != nil {
			return nil, err
		}
	}
	return seg.SegmentFromPB(seg.PathSegmentToPB(ps))
}

func clonePB(pb *cppb.PathSegment) *cppb.PathSegment { return proto.Clone(pb).(*cppb.PathSegment) }

func digest(hid int, raw []byte) []byte {
	switch hid {
	case 1:
		s := sha256.Sum256(raw)
		return s[:]
	case 2:
		s := sha512.Sum384(raw)
		return s[:]
	default:
		s := sha512.Sum512(raw)
		return s[:]
	}
}

// ---------------------------------------------------------------- steps

type step struct {
	ps     *seg.PathSegment
	fromPB bool
	what   string
}

// stepTerm runs the real verification and prints the step.
func (w *world) stepTerm(n *names, v compat.Verifier, st step) (term string, verdict bool, accepted int, reached bool) {
	ps := st.ps
	err := segverifier.VerifySegment(w.ctx, v, nil, ps)
	verdict = err == nil
	infoE := n.ref(ps.Info.Raw)
	var ents, tbl []string
	var earlierE []string
	earlier := append([]byte{}, ps.Info.Raw...)
	for _, e := range ps.ASEntries {
		var hb, sg []byte
		if e.Signed != nil {
			hb, sg = e.Signed.HeaderAndBody, e.Signed.Signature
		}
		hbE, sgE := n.ref(hb), n.ref(sg)
		ents = append(ents, fmt.Sprintf("SegVerify.mkentry %d %d %s %s", uint64(e.Local), e.HopEntry.HopField.ExpTime,
			hbE, sgE))
		// candidate keys: certificates whose (IA, subject key id) are the ones named in the key id
		if hdr, herr := signed.ExtractUnverifiedHeader(&cryptopb.SignedMessage{HeaderAndBody: hb}); herr == nil {
			var kid cppb.VerificationKeyID
			if proto.Unmarshal(hdr.VerificationKeyID, &kid) == nil {
				reached = true
				raw := append(append([]byte{}, hb...), earlier...)
				rawE := fmt.Sprintf("(%s ++ %s%s)", hbE, infoE, strings.Join(earlierE, ""))
				seen := map[int]bool{}
				for _, c := range w.certs {
					if uint64(c.ia) != kid.IsdAs || !bytes.Equal(c.skid, kid.SubjectKeyId) || seen[c.keyID] {
						continue
					}
					seen[c.keyID] = true
					for hid := 1; hid <= 3; hid++ {
						if ecdsa.VerifyASN1(&c.key.PublicKey, digest(hid, raw), sg) {
							accepted++
							tbl = append(tbl, fmt.Sprintf("(%d, (%d :: %s), %s)", c.keyID, hid, rawE, sgE))
						}
					}
				}
			}
		}
		earlier = append(append(earlier, hb...), sg...)
		earlierE = append(earlierE, " ++ "+hbE+" ++ "+sgE)
	}
	term = fmt.Sprintf("SegVerify.mkstep (SegVerify.mkseg %s (%d)%%Z [%s]) %s [%s] %s", infoE, ps.Info.Timestamp.Unix(),
		strings.Join(ents, "; "), vgen.B(st.fromPB), strings.Join(tbl, "; "), vgen.B(verdict))
	return
}

func shortKey(parts ...any) string {
	s := sha256.Sum256([]byte(fmt.Sprint(parts...)))
	return hex.EncodeToString(s[:10])
}

func main() {
	run := vgen.Flags("C24")
	run.Imports = []string{"Lib.HexLit", "Model.Signed", "Model.SegVerify"}
	run.CheckFn = "SegVerify.check"
	run.DiagFn = "SegVerify.diag"
	run.CaseType = "SegVerify.case"
	run.ShardSize = 60
	run.Rule = "segments of 1..8 AS entries signed entry by entry with the real AddASEntry + trust.Signer under a generated " +
		"PKI (2 ISDs, 10 ASes; per AS a main certificate and narrow / renewed / expired / future / rogue-CA / " +
		"same-key-other-AS / same-skid-other-key certificates), passed through protobuf + SegmentFromPB; per case a " +
		"sequence of 1-4 verifications on one verifier (cache on in half of the cases): the base segment, abnormal " +
		"signers (uncertified key, foreign ISD-AS, certificate not covering [ts, ts+lifetime] incl. exact boundaries, " +
		"wrong / empty subject key id, TRC base / serial), wire mutations (segment info bytes and fields, " +
		"header-and-body bytes, signature bytes, swapped signatures), structural mutations (entry removed / inserted / " +
		"swapped / duplicated, trailing entries dropped, struct fields Local / ExpTime / Timestamp changed) and " +
		"cache-priming sequences (same signer, different validity; same timestamp, different ExpTime); verification " +
		"units through segverifier.StartVerification with a context that expires while the verifier is busy " +
		"(valid, forged and uncovered segments; reported verified => every entry verified); " +
		"non-trivial = a verification reached the " +
		"certificate lookup of some entry"
	rng := vgen.NewRand(run.Seed)
	ctx := context.Background()
	now := time.Now().Truncate(time.Second)
	w := &world{ctx: ctx, now: now, rng: rng}

	// ------------------------------------------------------------ the PKI
	day := 24 * time.Hour
	isd1, err := pki24.NewISD(1, addr.MustParseIA("1-ff00:0:110"), now.Add(-100*day), now.Add(100*day), 1)
	if err != nil {
		panic(err)
	}
	isd2, err := pki24.NewISD(2, addr.MustParseIA("2-ff00:0:210"), now.Add(-100*day), now.Add(100*day), 1)
	if err != nil {
		panic(err)
	}
	isdOf := map[addr.ISD]*pki24.ISD{1: isd1, 2: isd2}
	kr := rng.Fork(3)
	keyCount := 0
	newKey := func(i int) (*ecdsa.PrivateKey, int) {
		keyCount++
		c := elliptic.P256()
		if i%5 == 3 {
			c = elliptic.P384()
		} else if i%7 == 6 {
			c = elliptic.P521()
		}
		return detKey(kr, c), keyCount
	}
	issue := func(a *asRec, label string, key *ecdsa.PrivateKey, keyID int, skid []byte, nb, na time.Time, rogue bool) *certRec {
		isd := isdOf[a.ia.ISD()]
		var caKey *ecdsa.PrivateKey
		var caCert = isd.CA
		if rogue {
			ck, cc, err := isd.RogueCA(now.Add(-100*day), now.Add(100*day))
			if err != nil {
				panic(err)
			}
			caKey, caCert = ck, cc
		} else {
			caKey = isd.CAKey
		}
		ac, err := isd.IssueAS(a.ia, key, skid, nb, na, caKey, caCert)
		if err != nil {
			panic(fmt.Sprint("issuing ", label, " for ", a.ia, ": ", err))
		}
		okNow := !rogue && !now.Before(nb) && !now.After(na)
		c := &certRec{ia: a.ia, key: key, keyID: keyID, skid: skid, nb: nb, na: na, ok: okNow, label: label, as: ac}
		a.certs[label] = c
		w.certs = append(w.certs, c)
		return c
	}
	ias := []string{"1-ff00:0:110", "1-ff00:0:111", "1-ff00:0:112", "1-ff00:0:113", "1-ff00:0:114", "1-ff00:0:115",
		"2-ff00:0:210", "2-ff00:0:211", "2-ff00:0:212", "2-ff00:0:213"}
	for i, s := range ias {
		a := &asRec{ia: addr.MustParseIA(s), certs: map[string]*certRec{}}
		w.ases = append(w.ases, a)
		k, id := newKey(i)
		skid, _ := cppki.SubjectKeyID(k.Public())
		issue(a, "main", k, id, skid, now.Add(-30*day), now.Add(30*day), false)
		if i%3 == 0 {
			k2, id2 := newKey(i + 1)
			skid2, _ := cppki.SubjectKeyID(k2.Public())
			issue(a, "narrow", k2, id2, skid2, now.Add(-3*time.Hour), now.Add(3*time.Hour), false)
		}
		if i%3 == 1 {
			// renewed: same key and subject key id, another window (two chains for one query)
			issue(a, "renewed", k, id, skid, now.Add(-2*time.Hour), now.Add(40*day), false)
		}
		if i%4 == 1 {
			k3, id3 := newKey(i + 2)
			skid3, _ := cppki.SubjectKeyID(k3.Public())
			issue(a, "expired", k3, id3, skid3, now.Add(-20*day), now.Add(-10*day), false)
		}
		if i%4 == 2 {
			k3, id3 := newKey(i + 2)
			skid3, _ := cppki.SubjectKeyID(k3.Public())
			issue(a, "future", k3, id3, skid3, now.Add(2*day), now.Add(9*day), false)
		}
		if i%5 == 0 {
			k4, id4 := newKey(i + 3)
			skid4, _ := cppki.SubjectKeyID(k4.Public())
			issue(a, "rogue", k4, id4, skid4, now.Add(-30*day), now.Add(30*day), true)
		}
		if i%5 == 2 {
			// another key under the SAME subject key id as the main certificate
			k5, id5 := newKey(i + 4)
			issue(a, "twin", k5, id5, skid, now.Add(-30*day), now.Add(30*day), false)
		}
	}
	// the main key of AS 1 is also certified (same subject key id) for AS 2
	{
		x := w.ases[1].certs["main"]
		issue(w.ases[2], "cross", x.key, x.keyID, x.skid, now.Add(-30*day), now.Add(30*day), false)
	}
	db, err := pki24.NewDB()
	if err != nil {
		panic(err)
	}
	var chains []*pki24.ASCert
	for _, c := range w.certs {
		chains = append(chains, c.as)
	}
	if err := pki24.Load(ctx, db, []*pki24.ISD{isd1, isd2}, chains); err != nil {
		panic(err)
	}
	w.db = db
	engine := pki24.Provider(db)

	var certT []string
	for _, c := range w.certs {
		certT = append(certT, fmt.Sprintf("SegVerify.mkcert %d %s %s %s %d %s", uint64(c.ia), hx(c.skid), ms(c.nb), ms(c.na),
			c.keyID, vgen.B(c.ok)))
	}
	run.Prelude = "Definition pki0 : list SegVerify.cert := [\n " + strings.Join(certT, ";\n ") + "].\n" +
		"Definition trcs0 : list SegVerify.trc := [SegVerify.mktrc 1 1 1; SegVerify.mktrc 2 1 1].\n"

	// ------------------------------------------------------------ generators
	normal := func(a *asRec, exp uint8) *entrySpec {
		c := a.certs["main"]
		return &entrySpec{as: a, cert: c, kIA: a.ia, kSKID: c.skid, kBase: 1, kSer: 1, exp: exp}
	}
	pathOf := func(r *vgen.Rand, n int) []*asRec {
		idx := make([]int, len(w.ases))
		for i := range idx {
			idx[i] = i
		}
		vgen.Shuffle(r, idx)
		out := make([]*asRec, n)
		for i := 0; i < n; i++ {
			out[i] = w.ases[idx[i%len(idx)]]
		}
		return out
	}
	genExp := func(r *vgen.Rand) uint8 {
		return vgen.Pick(r, uint8(0), 1, 10, 63, 127, 254, 255, uint8(r.Intn(256)), uint8(r.Intn(256)))
	}
	genTS := func(r *vgen.Rand) time.Time {
		return now.Add(-time.Duration(r.Range(60, 6*3600)) * time.Second)
	}
	withCert := func(sp *entrySpec, label string) bool {
		c, ok := sp.as.certs[label]
		if !ok {
			return false
		}
		sp.cert, sp.kSKID, sp.abnorm = c, c.skid, label
		return true
	}
	asWith := func(label string) *asRec {
		for _, a := range w.ases {
			if _, ok := a.certs[label]; ok {
				return a
			}
		}
		panic("no AS with " + label)
	}
	_ = asWith

	abnormalKinds := []string{"wrongkey", "otherIA", "narrow", "renewed", "expired", "future", "rogue", "twin", "cross",
		"wrongskid", "emptyskid", "trcbase", "trcserial-ok", "trcserial-high", "foreign-isd-keyid"}
	// makeAbnormal changes the signer of entry k; returns false if the class does not apply to that AS
	makeAbnormal := func(r *vgen.Rand, specs []*entrySpec, k int, kind string) bool {
		sp := specs[k]
		switch kind {
		case "wrongkey":
			fresh := detKey(r, elliptic.P256())
			sp.cert = &certRec{ia: sp.as.ia, key: fresh, keyID: 900 + k, skid: sp.cert.skid}
		case "otherIA":
			other := w.ases[(indexOf(w.ases, sp.as)+1)%len(w.ases)]
			oc := other.certs["main"]
			sp.cert, sp.kIA, sp.kSKID = oc, other.ia, oc.skid
		case "narrow", "renewed", "expired", "future", "rogue", "twin", "cross":
			if !withCert(sp, kind) {
				return false
			}
		case "wrongskid":
			sp.kSKID = append([]byte{}, sp.kSKID...)
			sp.kSKID[r.Intn(len(sp.kSKID))] ^= 1
		case "emptyskid":
			sp.kSKID = nil
		case "trcbase":
			sp.kBase = vgen.Pick(r, uint64(0), 2)
			sp.kSer = sp.kBase
		case "trcserial-ok":
			sp.kSer = 0
			sp.kBase = 1
		case "trcserial-high":
			sp.kSer = uint64(r.Range(2, 4))
		case "foreign-isd-keyid":
			// key id names the same AS number in the other ISD
			isd := addr.ISD(3 - int(sp.as.ia.ISD()))
			sp.kIA = addr.MustIAFrom(isd, sp.as.ia.AS())
		}
		sp.abnorm = kind
		return true
	}

	newVerifier := func(cached bool) compat.Verifier {
		tv := trust.Verifier{Engine: engine}
		if cached {
			tv.Cache = cache.New(time.Minute, time.Minute)
		}
		return compat.Verifier{Verifier: tv}
	}

	emit := func(kind, class string, cached bool, steps []step, key string, extra map[string]any) {
		n := newNames()
		v := newVerifier(cached)
		var terms []string
		var verdicts []bool
		var whats []string
		reachedAny := false
		acc := 0
		for _, st := range steps {
			t, vd, a, reached := w.stepTerm(n, v, st)
			terms = append(terms, t)
			verdicts = append(verdicts, vd)
			whats = append(whats, st.what)
			reachedAny = reachedAny || reached
			acc += a
		}
		term := "(" + strings.Join(n.lets, " ") + " SegVerify.CSeq pki0 trcs0 " + vgen.B(cached) + " [" +
			strings.Join(terms, "; ") + "])"
		desc := map[string]any{"class": class, "cache": cached, "steps": whats, "impl": verdicts,
			"crypto_accepts": acc}
		for k, v := range extra {
			desc[k] = v
		}
		run.Tally("class:" + class)
		for i, vd := range verdicts {
			run.Tally(fmt.Sprintf("step:%s:%v", strings.SplitN(whats[i], " ", 2)[0], vd))
		}
		run.Add(kind, term, key, reachedAny, desc)
	}

	describe := func(specs []*entrySpec) string {
		var s []string
		for _, sp := range specs {
			d := fmt.Sprintf("%s/exp%d", sp.as.ia, sp.exp)
			if sp.abnorm != "" {
				d += "/" + sp.abnorm
			}
			s = append(s, d)
		}
		return strings.Join(s, " ")
	}

	// other returns a second, independent valid segment (source of foreign entries)
	other := func(r *vgen.Rand) *seg.PathSegment {
		p := pathOf(r, r.Range(2, 4))
		var specs []*entrySpec
		for _, a := range p {
			specs = append(specs, normal(a, genExp(r)))
		}
		ps, err := w.build(r, genTS(r), specs)
		if err != nil {
			panic(err)
		}
		return ps
	}

	wireKinds := []string{"info-byte", "info-ts", "info-segid", "info-unknown-field", "hb-byte", "sig-byte",
		"hb-byte", "sig-swap", "hb-swap", "sig-truncate", "sig-byte"}
	structKinds := []string{"remove", "insert", "swap", "dup", "truncate", "lie-local", "remove", "lie-exp", "lie-ts",
		"move-last-first", "insert", "empty"}
	mutTried, mutDone := map[string]int{}, map[string]int{}
	ncases := run.Count(200, 6000)
	for ci := 0; ci < ncases; ci++ {
		r := rng.Fork(uint64(1000 + ci))
		cached := r.Bool()
		n := vgen.Pick(r, 1, 2, 2, 3, 3, 4, 5, 6, 8)
		path := pathOf(r, n)
		var specs []*entrySpec
		for _, a := range path {
			specs = append(specs, normal(a, genExp(r)))
		}
		ts := genTS(r)
		group := vgen.Pick(r, "valid", "abnormal", "abnormal", "wire", "wire", "struct", "struct", "boundary", "cache", "cache-same-ts", "cache-same-ts")
		if !run.Want() {
			run.Skip()
			continue
		}
		extra := map[string]any{}
		var steps []step
		class := group
		mustBuild := func(ts time.Time, specs []*entrySpec) *seg.PathSegment {
			ps, err := w.build(r, ts, specs)
			if err != nil {
				panic(fmt.Sprint("building segment: ", err))
			}
			return ps
		}
		switch group {
		case "valid":
			ps := mustBuild(ts, specs)
			steps = append(steps, step{ps, true, "base"})
			// every prefix verifies as well
			k := r.Range(1, n)
			cp := ps.ShallowCopy()
			cp.ASEntries = cp.ASEntries[:k]
			steps = append(steps, step{cp, false, fmt.Sprintf("prefix %d", k)})
			if r.Bool() {
				steps = append(steps, step{ps, true, "base again"})
			}
		case "abnormal":
			k := r.Intn(n)
			kind := vgen.Pick(r, abnormalKinds...)
			if !makeAbnormal(r, specs, k, kind) {
				// class not available for this AS: use one that always is
				kind = vgen.Pick(r, "wrongkey", "otherIA", "wrongskid", "trcserial-high")
				makeAbnormal(r, specs, k, kind)
			}
			class = "abnormal:" + kind
			if kind == "narrow" || kind == "renewed" {
				// the window is +-3h / from -2h: vary the timestamp and lifetime around it
				ts = now.Add(-time.Duration(vgen.Pick(r, 600, 3600, 2*3600+1800, 4*3600, 5*3600)) * time.Second)
				specs[k].exp = vgen.Pick(r, uint8(0), 5, 20, 40, 255)
			}
			ps := mustBuild(ts, specs)
			steps = append(steps, step{ps, true, "abnormal " + kind})
			if k > 0 && r.Bool() {
				cp := ps.ShallowCopy()
				cp.ASEntries = cp.ASEntries[:k]
				steps = append(steps, step{cp, false, "prefix before-abnormal"})
			}
		case "boundary":
			// narrow certificate [now-3h, now+3h]: lifetime ending exactly at / just after NotAfter,
			// timestamp exactly at / just before NotBefore
			var a *asRec
			for _, x := range w.ases {
				if _, ok := x.certs["narrow"]; ok && r.Chance(1, 2) {
					a = x
				}
			}
			if a == nil {
				a = w.ases[0]
			}
			sp := normal(a, 0)
			withCert(sp, "narrow")
			c := a.certs["narrow"]
			which := vgen.Pick(r, "na-exact", "na-plus", "na-minus", "nb-exact", "nb-before", "nb-after")
			switch which {
			case "na-exact", "na-plus", "na-minus":
				// (exp+1) even => whole seconds: lifetime = (exp+1)*337.5 s
				sp.exp = uint8(2*r.Range(1, 12) - 1)
				life := time.Duration(int(sp.exp)+1) * 337500 * time.Millisecond
				ts = c.na.Add(-life)
				if which == "na-plus" {
					ts = ts.Add(time.Second)
				} else if which == "na-minus" {
					ts = ts.Add(-time.Second)
				}
			case "nb-exact":
				ts, sp.exp = c.nb, uint8(r.Intn(8))
			case "nb-before":
				ts, sp.exp = c.nb.Add(-time.Second), uint8(r.Intn(8))
			case "nb-after":
				ts, sp.exp = c.nb.Add(time.Second), uint8(r.Intn(8))
			}
			class = "boundary:" + which
			k := r.Intn(n)
			specs[k] = sp
			ps := mustBuild(ts, specs)
			steps = append(steps, step{ps, true, "boundary " + which})
		case "cache":
			// same signer, different validity requirements, on one verifier
			a := w.ases[vgen.Pick(r, 0, 3, 6, 9)] // ASes with a narrow certificate
			good := normal(a, uint8(r.Intn(6)))
			withCert(good, "narrow")
			long := normal(a, 255)
			withCert(long, "narrow")
			old := normal(a, 3)
			withCert(old, "narrow")
			k := r.Intn(n)
			mk := func(sp *entrySpec, ts time.Time) *seg.PathSegment {
				s2 := append([]*entrySpec{}, specs...)
				s2[k] = sp
				return mustBuild(ts, s2)
			}
			gs := mk(good, now.Add(-time.Duration(r.Range(60, 3000))*time.Second))
			ls := mk(long, now.Add(-time.Duration(r.Range(60, 3000))*time.Second))
			os := mk(old, now.Add(-4*time.Hour))
			order := vgen.Pick(r, "good-long", "long-good-long", "good-old", "old-good-old", "good-long-old")
			class = "cache:" + order
			for _, o := range strings.Split(order, "-") {
				switch o {
				case "good":
					steps = append(steps, step{gs, true, "good validity-covered"})
				case "long":
					steps = append(steps, step{ls, true, "long lifetime-outlives-certificate"})
				case "old":
					steps = append(steps, step{os, true, "old timestamp-before-certificate"})
				}
			}
		case "cache-same-ts":
			// one cached verifier, same signer and key; consecutive segments share the info timestamp
			// and differ only in the hop ExpTime (same NotBefore, other NotAfter), or share the end of
			// the validity and differ in the timestamp (same NotAfter, other NotBefore)
			cached = cached || r.Chance(2, 3)
			a := w.ases[vgen.Pick(r, 0, 3, 6, 9)] // narrow certificate [now-3h, now+3h]
			c := a.certs["narrow"]
			k := r.Intn(n)
			mk := func(exp uint8, ts time.Time) *seg.PathSegment {
				sp := normal(a, exp)
				withCert(sp, "narrow")
				s2 := append([]*entrySpec{}, specs...)
				s2[k] = sp
				return mustBuild(ts, s2)
			}
			variant := vgen.Pick(r, "short-long", "short-long", "long-short-long", "short-long-same-parity",
				"short-long-same-parity", "same-end", "same-end", "before-nb")
			class = "cache-same-ts:" + variant
			ts = now.Add(-time.Duration(r.Range(60, 3000)) * time.Second)
			short := uint8(r.Range(0, 20))                  // ends before now+2h
			long := uint8(r.Range(45, 255))                 // ends after now+3h20m
			if variant == "short-long-same-parity" {
				long = uint8(int(short)%2 + 2*r.Range(23, 127)) // same sub-second part of NotAfter
			}
			switch variant {
			case "short-long", "short-long-same-parity":
				steps = append(steps, step{mk(short, ts), true, "short covered"},
					step{mk(long, ts), true, "long same-timestamp lifetime-outlives-certificate"})
				if r.Bool() {
					steps = append(steps, step{mk(short, ts), true, "short covered"})
				}
			case "long-short-long":
				steps = append(steps, step{mk(long, ts), true, "long same-timestamp lifetime-outlives-certificate"},
					step{mk(short, ts), true, "short covered"},
					step{mk(long, ts), true, "long same-timestamp lifetime-outlives-certificate"})
			case "same-end":
				// covered: timestamp 10 min after NotBefore; not covered: timestamp before NotBefore,
				// ExpTime raised by 2j so that the validity ends at the same instant
				ts1 := c.nb.Add(10 * time.Minute)
				j := r.Range(1, 20)
				ts2 := ts1.Add(-time.Duration(2*j) * 337500 * time.Millisecond)
				e1 := uint8(r.Range(0, 15))
				g, b := step{mk(e1, ts1), true, "good covered"},
					step{mk(e1+uint8(2*j), ts2), true, "old same-end timestamp-before-certificate"}
				if r.Bool() {
					steps = append(steps, g, b)
				} else {
					steps = append(steps, b, g, b)
				}
			case "before-nb":
				tsb := c.nb.Add(-time.Duration(r.Range(1, 600)) * time.Second)
				steps = append(steps, step{mk(short, ts), true, "short covered"},
					step{mk(short, tsb), true, "old timestamp-before-certificate"},
					step{mk(long, tsb), true, "old timestamp-before-certificate"})
			}
		case "wire":
			ps := mustBuild(ts, specs)
			if r.Chance(1, 3) {
				steps = append(steps, step{ps, true, "base"})
			}
			for tries := 0; tries < 3; tries++ {
				pb := clonePB(seg.PathSegmentToPB(ps))
				k := r.Intn(n)
				// kinds are taken in turn (from the case index), so that every kind occurs in every run
				m := wireKinds[(ci*3+tries)%len(wireKinds)]
				mutTried["wire:"+m]++
				switch m {
				case "info-byte":
					p := r.Intn(len(pb.SegmentInfo))
					pb.SegmentInfo[p] ^= byte(1 << r.Intn(8))
				case "info-ts", "info-segid":
					var inf cppb.SegmentInformation
					_ = proto.Unmarshal(pb.SegmentInfo, &inf)
					if m == "info-ts" {
						inf.Timestamp += int64(vgen.Pick(r, 1, -1, 60, -3600))
					} else {
						inf.SegmentId ^= uint32(1 << r.Intn(16))
					}
					pb.SegmentInfo, _ = proto.Marshal(&inf)
				case "info-unknown-field":
					pb.SegmentInfo = append(pb.SegmentInfo, 0x48, byte(r.Intn(128)))
				case "hb-byte":
					hb := pb.AsEntries[k].Signed.HeaderAndBody
					hb[r.Intn(len(hb))] ^= byte(1 << r.Intn(8))
				case "sig-byte":
					sg := pb.AsEntries[k].Signed.Signature
					sg[r.Intn(len(sg))] ^= byte(1 << r.Intn(8))
				case "sig-truncate":
					sg := pb.AsEntries[k].Signed.Signature
					pb.AsEntries[k].Signed.Signature = sg[:len(sg)-1]
				case "sig-swap":
					l := r.Intn(n)
					pb.AsEntries[k].Signed.Signature, pb.AsEntries[l].Signed.Signature =
						pb.AsEntries[l].Signed.Signature, pb.AsEntries[k].Signed.Signature
				case "hb-swap":
					l := r.Intn(n)
					pb.AsEntries[k].Signed.HeaderAndBody, pb.AsEntries[l].Signed.HeaderAndBody =
						pb.AsEntries[l].Signed.HeaderAndBody, pb.AsEntries[k].Signed.HeaderAndBody
				}
				mp, err := seg.SegmentFromPB(pb)
				if err != nil {
					run.Tally("wire-parse-rejected:" + m)
					continue
				}
				mutDone["wire:"+m]++
				run.Tally("mut:wire:" + m)
				steps = append(steps, step{mp, true, fmt.Sprintf("wire %s entry %d", m, k)})
			}
			if len(steps) == 0 {
				steps = append(steps, step{ps, true, "base"})
			}
		case "struct":
			ps := mustBuild(ts, specs)
			if r.Chance(1, 3) {
				steps = append(steps, step{ps, true, "base"})
			}
			for tries := 0; tries < 3; tries++ {
				cp := ps.ShallowCopy()
				k := r.Intn(n)
				m := structKinds[(ci*3+tries)%len(structKinds)]
				mutTried["struct:"+m]++
				mutDone["struct:"+m]++
				run.Tally("mut:struct:" + m)
				es := append([]seg.ASEntry{}, cp.ASEntries...)
				consistent := true
				switch m {
				case "remove":
					es = append(es[:k:k], es[k+1:]...)
				case "insert":
					o := other(r)
					es = append(es[:k:k], append([]seg.ASEntry{o.ASEntries[r.Intn(len(o.ASEntries))]}, es[k:]...)...)
				case "swap":
					if n > 1 {
						l := (k + 1) % n
						es[k], es[l] = es[l], es[k]
					}
				case "dup":
					es = append(es[:k+1:k+1], es[k:]...)
				case "truncate":
					es = es[:r.Range(0, n)]
				case "move-last-first":
					es = append([]seg.ASEntry{es[len(es)-1]}, es[:len(es)-1]...)
				case "empty":
					es = nil
				case "lie-local":
					es[k].Local = w.ases[r.Intn(len(w.ases))].ia
					if r.Chance(1, 4) {
						es[k].Local = 0
					}
					consistent = false
				case "lie-exp":
					es[k].HopEntry.HopField.ExpTime = genExp(r)
					consistent = false
				case "lie-ts":
					cp.Info.Timestamp = cp.Info.Timestamp.Add(time.Duration(vgen.Pick(r, -7200, 7200, 1)) * time.Second)
					consistent = false
				}
				_ = consistent
				cp.ASEntries = es
				steps = append(steps, step{cp, false, fmt.Sprintf("struct %s at %d", m, k)})
			}
		}
		extra["segment"] = describe(specs)
		extra["ts_minus_now_s"] = int(ts.Sub(now).Seconds())
		emit("seq", class, cached, steps, shortKey(ci, class, describe(specs), cached, len(steps)), extra)
	}
	// ------------------------------------------------------------ verification units under an expiring context
	// segverifier.StartVerification / Unit.Verify (what the segment handler of the control
	// service uses) with a verifier that is still busy when the request context expires:
	//   mode 1 "stall-on-failure": a failing entry verification blocks until the context is
	//          done (a chain fetch from a remote that never answers) and then returns the error;
	//   mode 2 "slow": every entry verification finishes only after the context is done and
	//          then returns its real result.
	// Observed: the UnitResult has no segment error (the segment would be stored as verified).
	type unitJob struct {
		want   bool
		ps     *seg.PathSegment
		mode   int
		class  string
		desc   string
		unitOK bool
	}
	nunits := run.Count(36, 400)
	jobs := make([]*unitJob, nunits)
	baseID := ncases
	for ui := 0; ui < nunits; ui++ {
		r := rng.Fork(uint64(500000 + ui))
		j := &unitJob{want: run.WantID(baseID + ui), mode: 1 + ui%2}
		jobs[ui] = j
		n := vgen.Pick(r, 1, 2, 3, 4, 6)
		var specs []*entrySpec
		for _, a := range pathOf(r, n) {
			specs = append(specs, normal(a, genExp(r)))
		}
		j.class = vgen.Pick(r, "valid", "forged-wrongkey", "forged-wrongkey", "forged-unknown-skid", "forged-sig-byte",
			"forged-info", "uncovered")
		if !j.want {
			continue
		}
		k := r.Intn(n)
		ts := genTS(r)
		switch j.class {
		case "forged-wrongkey":
			makeAbnormal(r, specs, k, "wrongkey")
		case "forged-unknown-skid":
			makeAbnormal(r, specs, k, "wrongskid")
		case "uncovered":
			a := w.ases[vgen.Pick(r, 0, 3, 6, 9)]
			sp := normal(a, 255)
			withCert(sp, "narrow")
			specs[k] = sp
		}
		ps, err := w.build(r, ts, specs)
		if err != nil {
			panic(err)
		}
		if j.class == "forged-sig-byte" || j.class == "forged-info" {
			pb := clonePB(seg.PathSegmentToPB(ps))
			if j.class == "forged-sig-byte" {
				sg := pb.AsEntries[k].Signed.Signature
				sg[r.Intn(len(sg))] ^= byte(1 << r.Intn(8))
			} else {
				var inf cppb.SegmentInformation
				_ = proto.Unmarshal(pb.SegmentInfo, &inf)
				inf.SegmentId ^= uint32(1 << r.Intn(16))
				pb.SegmentInfo, _ = proto.Marshal(&inf)
			}
			if mp, err := seg.SegmentFromPB(pb); err == nil {
				ps = mp
			}
		}
		j.ps = ps
		j.desc = describe(specs)
	}
	{
		var wg sync.WaitGroup
		sem := make(chan struct{}, 12)
		for _, j := range jobs {
			if !j.want {
				continue
			}
			wg.Add(1)
			sem <- struct{}{}
			go func(j *unitJob) {
				defer wg.Done()
				defer func() { <-sem }()
				uctx, cancel := context.WithTimeout(ctx, 120*time.Millisecond)
				defer cancel()
				v := stallVerifier{inner: newVerifier(false), mode: j.mode, stall: 40 * time.Millisecond}
				resC, cnt := segverifier.StartVerification(uctx, v, nil, []*seg.Meta{{Segment: j.ps, Type: seg.TypeDown}})
				if cnt != 1 {
					panic("unexpected unit count")
				}
				select {
				case res := <-resC:
					j.unitOK = res.SegError() == nil && len(res.Errors) == 0
				case <-time.After(10 * time.Second):
					panic("no unit result")
				}
			}(j)
		}
		wg.Wait()
	}
	for ui, j := range jobs {
		if !j.want {
			run.Skip()
			continue
		}
		n := newNames()
		// the step itself (direct, uncached VerifySegment with a live context) and its crypto table
		t, direct, acc, reached := w.stepTerm(n, newVerifier(false), step{j.ps, true, "unit " + j.class})
		term := "(" + strings.Join(n.lets, " ") + " SegVerify.CUnit pki0 trcs0 " + fmt.Sprint(j.mode) + " (" + t + ") " +
			vgen.B(j.unitOK) + ")"
		run.Tally("class:unit:" + j.class)
		run.Tally(fmt.Sprintf("unit:mode%d:reported-verified:%v", j.mode, j.unitOK))
		run.Add("unit", term, shortKey("unit", ui, j.class, j.mode, j.desc), reached,
			map[string]any{"class": "unit:" + j.class, "mode": j.mode, "segment": j.desc, "direct_verdict": direct,
				"unit_reported_verified": j.unitOK, "crypto_accepts": acc})
	}
	_ = sort.Strings
	// every mutation kind must have been exercised (full runs only, not -only replays):
	// attempted on the real parser at least minKind times, and — except hb-swap, which Validate
	// rejects unless it is a no-op — verified at least once
	if run.WantID(-1) {
		minKind := 2
		var missing []string
		for _, k := range wireKinds {
			if mutTried["wire:"+k] < minKind || (k != "hb-swap" && mutDone["wire:"+k] < 1) {
				missing = append(missing, fmt.Sprintf("wire:%s tried=%d verified=%d", k, mutTried["wire:"+k], mutDone["wire:"+k]))
			}
		}
		for _, k := range structKinds {
			if mutDone["struct:"+k] < minKind {
				missing = append(missing, fmt.Sprintf("struct:%s verified=%d", k, mutDone["struct:"+k]))
			}
		}
		if len(missing) > 0 {
			fmt.Fprintln(os.Stderr, "runner error: mutation kinds below their minimum count:", missing)
			os.Exit(3)
		}
		run.Extra("mutation_kinds_tried", mutTried)
		run.Extra("mutation_kinds_verified", mutDone)
	}
	run.Finish()
}

// stallVerifier wraps the real verifier so that it is still busy when the request
// context expires (see the unit cases in main).
type stallVerifier struct {
	inner compat.Verifier
	mode  int
	stall time.Duration
}

func (v stallVerifier) WithServer(a net.Addr) infra.Verifier {
	v.inner = v.inner.WithServer(a).(compat.Verifier)
	return v
}
func (v stallVerifier) WithIA(ia addr.IA) infra.Verifier {
	v.inner = v.inner.WithIA(ia).(compat.Verifier)
	return v
}
func (v stallVerifier) WithValidity(val cppki.Validity) infra.Verifier {
	v.inner = v.inner.WithValidity(val).(compat.Verifier)
	return v
}

func (v stallVerifier) Verify(ctx context.Context, msg *cryptopb.SignedMessage,
	ad ...[]byte) (*signed.Message, error) {
	// the real verification, with a context that does not expire
	m, err := v.inner.Verify(context.Background(), msg, ad...)
	if v.mode == 2 || err != nil {
		<-ctx.Done()
		time.Sleep(v.stall)
	}
	return m, err
}

func indexOf(as []*asRec, a *asRec) int {
	for i, x := range as {
		if x == a {
			return i
		}
	}
	return 0
}
