package main

import (
	"context"
	"crypto/ecdsa"
	"crypto/elliptic"
	"crypto/rand"
	"fmt"
	"time"

	"github.com/patrickmn/go-cache"

	"github.com/scionproto/scion/pkg/addr"
	"github.com/scionproto/scion/pkg/scrypto/cppki"
	"github.com/scionproto/scion/pkg/scrypto/signed"
	seg "github.com/scionproto/scion/pkg/segment"
	"github.com/scionproto/scion/private/segment/segverifier"
	"github.com/scionproto/scion/private/trust"
	"github.com/scionproto/scion/private/trust/compat"
	"verifharness/internal/pki24"
)

func main() {
	ctx := context.Background()
	now := time.Now()
	ia := addr.MustParseIA("1-ff00:0:110")
	isd, err := pki24.NewISD(1, ia, now.Add(-100*24*time.Hour), now.Add(100*24*time.Hour), 1)
	if err != nil {
		panic(err)
	}
	k, _ := ecdsa.GenerateKey(elliptic.P256(), rand.Reader)
	skid, _ := cppki.SubjectKeyID(k.Public())
	// certificate valid from 10 days ago until 1 hour from now
	c, err := isd.IssueAS(ia, k, skid, now.Add(-10*24*time.Hour), now.Add(time.Hour), nil, nil)
	if err != nil {
		panic(err)
	}
	d, err := pki24.NewDB()
	if err != nil {
		panic(err)
	}
	if err := pki24.Load(ctx, d, []*pki24.ISD{isd}, []*pki24.ASCert{c}); err != nil {
		panic(err)
	}
	algo, _ := signed.SelectSignatureAlgorithm(k.Public())
	signer := trust.Signer{PrivateKey: k, Algorithm: algo, IA: ia, SubjectKeyID: skid,
		Expiration: now.Add(time.Hour), TRCID: isd.TRC.TRC.ID}
	mk := func(ts time.Time, exp uint8) *seg.PathSegment {
		ps, err := seg.CreateSegment(ts, 7)
		if err != nil {
			panic(err)
		}
		e := seg.ASEntry{Local: ia, MTU: 1400, HopEntry: seg.HopEntry{HopField: seg.HopField{ExpTime: exp}}}
		if err := ps.AddASEntry(ctx, e, signer); err != nil {
			panic(err)
		}
		ps2, err := seg.SegmentFromPB(seg.PathSegmentToPB(ps))
		if err != nil {
			panic(err)
		}
		return ps2
	}
	good := mk(now.Add(-time.Hour), 10)        // lifetime inside the certificate
	long := mk(now.Add(-time.Minute), 255)     // 24 h lifetime: outlives the certificate
	for _, withCache := range []bool{false, true} {
		tv := trust.Verifier{Engine: pki24.Provider(d)}
		if withCache {
			tv.Cache = cache.New(time.Minute, time.Minute)
		}
		v := compat.Verifier{Verifier: tv}
		fmt.Println("cache", withCache)
		fmt.Println("  long first:", segverifier.VerifySegment(ctx, v, nil, long) == nil)
		fmt.Println("  good:", segverifier.VerifySegment(ctx, v, nil, good) == nil)
		fmt.Println("  long after good:", segverifier.VerifySegment(ctx, v, nil, long) == nil)
	}
}
