// Runner for C08: robustness of the router's packet processing. Four streams go through the
// REAL code under recover: valid packets (rtgen, re-dressed), mutated valid packets (field
// level and byte level: every length field, HdrLen, ExtLen, SegLens, CurrINF/CurrHF, address
// type nibbles, NextHdr chains, path type, truncation at every offset, SCMP errors quoting
// truncated / random inner packets), raw random bytes up to the buffer size, and STUN-shaped
// messages on the internal link. Each input takes the way a received datagram takes:
// computeProcID (udpip), then processPkt, then for slow-path dispositions the slow path, or on
// the internal link the link's own STUN handling. Any panic is a violation; every emitted packet
// must decode with the real slayers with consistent HdrLen / PayloadLen / path pointers.
package main

import (
	"bytes"
	"encoding/binary"
	"encoding/hex"
	"fmt"
	"hash/crc32"
	"net"
	"net/netip"
	"strings"
	"time"

	"github.com/scionproto/scion/pkg/addr"
	"github.com/scionproto/scion/pkg/slayers"
	"github.com/scionproto/scion/pkg/stun"
	"github.com/scionproto/scion/router"
	"github.com/scionproto/scion/router/underlayproviders/udpip"

	"verifharness/internal/glit"
	"verifharness/internal/rtgen"
	"verifharness/internal/spgen"
	"verifharness/internal/vgen"
)

type conf struct {
	name string
	rt   *rtgen.Router
}

type ctx struct {
	run     *vgen.Run
	rng     *vgen.Rand
	now     int64
	prelude []string
	cfgs    []conf
	goOnly  int // inputs executed without a Coq case
	coqMax  int // cap on CGeo cases per stream (keeps the quick tier quick)
	geoSeen map[string]int
}

func (x *ctx) addConfig(c *rtgen.Config) conf {
	name := fmt.Sprintf("cfg_%d", len(x.prelude))
	x.prelude = append(x.prelude, glit.Rewrite(fmt.Sprintf("Definition %s : Router.cfg := %s.", name, c.Gallina())))
	rt, err := c.Build()
	if err != nil {
		panic(err)
	}
	return conf{name, rt}
}

var srcV4 = &net.UDPAddr{IP: net.IP{10, 0, 200, 1}, Port: 40123}
var srcV6 = &net.UDPAddr{IP: net.ParseIP("fd00::200:1"), Port: 40124}
var srcMapped = &net.UDPAddr{IP: net.ParseIP("10.0.200.7"), Port: 40125} // 16-byte form of an IPv4 address

// obs is everything the real code did with one datagram.
type obs struct {
	gated   bool // computeProcID accepted it as SCION
	res     router.VerifResult
	ran     bool // processPkt was executed
	slow    *spgen.SlowObs
	stunOut []byte // answer of the internal link's own processing (nil: dropped)
	stunRan bool
	panics  []string
	out     []byte // the SCION packet emitted (forwarded, SCMP reply, echoed), nil if none
	outKind string
}

// deliver takes raw the way a received datagram goes.
func deliver(cf conf, raw []byte, ing rtgen.Ingress, src *net.UDPAddr) *obs {
	o := &obs{}
	dp := cf.rt.DP
	if p, msg := vgen.Recover(func() { _, o.gated = udpip.VerifComputeProcID(raw, 4, 0x811c9dc5) }); p {
		o.panics = append(o.panics, "computeProcID: "+msg)
	}
	var usrc *net.UDPAddr
	if ing.Kind == rtgen.IngInt {
		usrc = src
	}
	dp.ClearRecords()
	if p, msg := vgen.Recover(func() {
		res, err := dp.VerifProcess(raw, ing.Link(), usrc)
		if err != nil {
			return
		}
		o.res, o.ran = res, true
	}); p {
		o.panics = append(o.panics, "VerifProcess: "+msg)
	}
	if o.ran {
		switch o.res.Disp {
		case router.VerifPanic:
			o.panics = append(o.panics, "processPkt: "+o.res.PanicMsg)
		case router.VerifForward:
			if o.res.Sent {
				o.out, o.outKind = o.res.Out, "forwarded"
			}
		case router.VerifSlowPath:
			if p, msg := vgen.Recover(func() { o.slow = spgen.RunSlow(cf.rt, o.res) }); p {
				o.panics = append(o.panics, "slow path harness: "+msg)
			}
			if o.slow != nil {
				switch o.slow.Kind {
				case "panic":
					o.panics = append(o.panics, "slow path: "+o.slow.Slow.PanicMsg)
				case "reply", "unparsable", "echo":
					if o.slow.Slow.Sent {
						o.out, o.outKind = o.slow.Slow.Out, "slow-"+o.slow.Kind
					}
				}
			}
		}
	}
	if ing.Kind == rtgen.IngInt && !o.gated {
		// internalLink.receive hands such packets to the link's own processor (STUN)
		if p, msg := vgen.Recover(func() {
			pkt, err := dp.VerifNewPacket(raw, 0, src)
			if err != nil {
				return
			}
			o.stunRan = true
			send, err := udpip.VerifInternalLinkProcess(pkt)
			if err == nil && send {
				o.stunOut = append([]byte{}, pkt.RawPacket...)
			}
		}); p {
			o.panics = append(o.panics, "internalLink.processPacket: "+msg)
		}
	}
	return o
}

func (o *obs) class() string {
	if len(o.panics) > 0 {
		return "PANIC"
	}
	if !o.ran {
		return "not-run"
	}
	c := ""
	switch o.res.Disp {
	case router.VerifDiscard:
		c = "discard"
	case router.VerifDone:
		c = "done"
	case router.VerifForward:
		c = "forward"
		if !o.res.Sent {
			c = "forward-nolink"
		}
	case router.VerifSlowPath:
		c = "slow"
		if o.slow != nil {
			c += "-" + o.slow.Kind
		}
	}
	if !o.gated {
		c += "(ungated)"
	}
	if o.stunOut != nil {
		c += "+stun-reply"
	}
	return c
}

// judge reports the Go-side violations of one observation and returns the geometry of the
// emitted packet (nil if none / undecodable).
func (x *ctx) judge(id int, stream string, cf conf, raw []byte, ing rtgen.Ingress, src *net.UDPAddr, o *obs,
	extra map[string]any) *spgen.Geo {
	desc := map[string]any{"stream": stream, "cfg": cf.name, "cfg_desc": cf.rt.Cfg.Describe(),
		"auth": cf.rt.Cfg.SCMPAuth, "ingress": ing.String(), "raw": hex.EncodeToString(raw), "outcome": o.class()}
	for k, v := range extra {
		desc[k] = v
	}
	for _, p := range o.panics {
		x.run.Tally("PANIC:" + firstWords(p))
		x.run.Violate(id, "panic in "+p, desc)
	}
	var g *spgen.Geo
	if o.out != nil {
		var err error
		g, err = spgen.DecodeGeo(o.out)
		if err == nil {
			err = g.Consistent()
		}
		if err == nil && o.outKind == "slow-reply" && o.slow.Err != nil {
			err = o.slow.Err
		}
		if o.outKind == "slow-unparsable" && err == nil {
			err = o.slow.Err
		}
		if err != nil {
			d := map[string]any{"out": hex.EncodeToString(o.out), "out_kind": o.outKind, "error": err.Error()}
			for k, v := range desc {
				d[k] = v
			}
			x.run.Tally("BAD-OUTPUT:" + o.outKind)
			x.run.Violate(id, "emitted packet ("+o.outKind+") is not a consistent SCION packet: "+err.Error(), d)
		}
	}
	if o.stunOut != nil {
		tx, ap, err := stun.ParseResponse(o.stunOut)
		want, _ := netip.AddrFromSlice(src.IP)
		switch {
		case err != nil:
			x.run.Violate(id, "STUN answer does not parse: "+err.Error(), desc)
		case len(raw) < 20 || !bytes.Equal(tx[:], raw[8:20]):
			x.run.Violate(id, "STUN answer with a different transaction id", desc)
		case ap.Addr() != want.Unmap() || int(ap.Port()) != src.Port:
			x.run.Violate(id, fmt.Sprintf("STUN answer reports %v, the request came from %v", ap, src), desc)
		}
	}
	return g
}

func firstWords(s string) string {
	if len(s) > 60 {
		s = s[:60]
	}
	return s
}

// ---------------------------------------------------------------- stream 1: valid and field-mutated packets

// emitModel registers the case of one rtgen scenario: the slow-path case, the fast-path case
// (where the model applies), or the geometry of the output.
func (x *ctx) emitModel(stream string, cf conf, sc *rtgen.Scenario, tallies ...string) {
	run := x.run
	if !run.Want() {
		run.Skip()
		return
	}
	raw, err := sc.Desc.Serialize()
	if err != nil || len(raw) > spgen.MaxPacket {
		run.Tally(stream + ":unserializable")
		run.Skip()
		return
	}
	o := deliver(cf, raw, sc.Ing, srcV4)
	cls := o.class()
	run.Tally(stream + ":" + cls)
	for _, t := range tallies {
		run.Tally(stream + ":" + t)
	}
	run.Tally("ingress:" + []string{"external", "sibling", "internal"}[sc.Ing.Kind])
	run.Tally(fmt.Sprintf("auth=%v", cf.rt.Cfg.SCMPAuth))
	extra := map[string]any{"kind": sc.Kind, "mutation": sc.Mut}
	key := cf.name + "|" + sc.Ing.String() + "|" + hex.EncodeToString(raw)
	var term string
	nt := false
	switch {
	case o.slow != nil && o.slow.Kind != "panic":
		if t, ok := spgen.SlowCaseTerm(cf.name, sc.Ing, &o.res, o.slow); ok {
			term, nt = "(RouterTotal.CSlow "+t+")", o.slow.Kind == "reply" || o.slow.Kind == "echo"
		}
	case o.ran && o.res.Disp != router.VerifPanic:
		_, _, known := sc.Desc.L4.DstPort()
		in, perr := rtgen.Parse(raw)
		if perr == nil && in != nil && (known || addr.IA(in.DstIA) != cf.rt.Cfg.IA) {
			ro := rtgen.Obs{NowNs: time.Now().UnixNano(), Res: o.res, In: in, InLen: len(raw), OutLen: len(o.res.Out)}
			ro.Out, _ = rtgen.Parse(o.res.Out)
			for i := 0; i < min(len(raw), len(o.res.Out)); i++ {
				if raw[i] != o.res.Out[i] {
					ro.Changed = append(ro.Changed, i)
				}
			}
			term = "(RouterTotal.CFast " + rtgen.CaseTerm(cf.name, cf.rt.Cfg, sc.Ing, sc.Desc.L4, &ro) + ")"
			nt = o.res.Disp == router.VerifForward
		}
	}
	if term == "" && o.out != nil {
		if g, err := spgen.DecodeGeo(o.out); err == nil {
			term, nt = "(RouterTotal.CGeo "+g.Term()+")", true
		}
	}
	if term == "" {
		// nothing to evaluate in Coq; the Go-side checks still apply
		id := run.Add(stream, "(RouterTotal.CGeo (RouterTotal.mkGeo 36 9 0 0 0 0 0 0 0 0 0))", key, false,
			map[string]any{"raw": hex.EncodeToString(raw), "outcome": cls, "note": "no Coq-side content"})
		x.judge(id, stream, cf, raw, sc.Ing, srcV4, o, extra)
		return
	}
	id := run.Add(stream, glit.Rewrite(term), key, nt, map[string]any{"cfg": cf.name, "cfg_desc": cf.rt.Cfg.Describe(),
		"ingress": sc.Ing.String(), "kind": sc.Kind, "mutation": sc.Mut, "raw": hex.EncodeToString(raw), "outcome": cls})
	x.judge(id, stream, cf, raw, sc.Ing, srcV4, o, extra)
}

// ---------------------------------------------------------------- streams 2-4: bytes

// emitBytes runs raw Go-side; an emitted packet becomes a CGeo case (up to the stream's cap).
func (x *ctx) emitBytes(stream, what string, cf conf, raw []byte, ing rtgen.Ingress, src *net.UDPAddr) {
	run := x.run
	if !run.Want() {
		run.Skip()
		return
	}
	if len(raw) > spgen.MaxPacket {
		raw = raw[:spgen.MaxPacket]
	}
	o := deliver(cf, raw, ing, src)
	cls := o.class()
	run.Tally(stream + ":" + cls)
	run.Tally(stream + "/" + what + ":" + cls)
	x.goOnly++
	extra := map[string]any{"mutation": what}
	var g *spgen.Geo
	if o.out != nil {
		g, _ = spgen.DecodeGeo(o.out)
	}
	bad := len(o.panics) > 0
	if g != nil && (x.geoSeen[stream] < x.coqMax || g.Consistent() != nil) {
		x.geoSeen[stream]++
		id := run.Add(stream, glit.Rewrite("(RouterTotal.CGeo "+g.Term()+")"),
			stream+"|"+cf.name+"|"+ing.String()+"|"+hex.EncodeToString(raw), true,
			map[string]any{"cfg": cf.name, "ingress": ing.String(), "mutation": what, "raw": hex.EncodeToString(raw),
				"out": hex.EncodeToString(o.out), "outcome": cls})
		x.judge(id, stream, cf, raw, ing, src, o, extra)
		return
	}
	if bad || o.out != nil || o.stunOut != nil {
		// judge needs an id only when it reports something; take one lazily
		if bad || (o.out != nil && g == nil) {
			id := run.Add(stream, "(RouterTotal.CGeo (RouterTotal.mkGeo 36 9 0 0 0 0 0 0 0 0 0))",
				stream+"|"+hex.EncodeToString(raw), false, map[string]any{"raw": hex.EncodeToString(raw), "outcome": cls})
			x.judge(id, stream, cf, raw, ing, src, o, extra)
			return
		}
		x.judgeNoID(stream, cf, raw, ing, src, o, extra)
		return
	}
	run.Skip()
}

// judgeNoID judges an observation that has no Coq case; a violation takes a fresh id.
func (x *ctx) judgeNoID(stream string, cf conf, raw []byte, ing rtgen.Ingress, src *net.UDPAddr, o *obs, extra map[string]any) {
	// consistent outputs and good STUN answers need no id
	ok := true
	if o.out != nil {
		g, err := spgen.DecodeGeo(o.out)
		ok = err == nil && g.Consistent() == nil
	}
	if ok && o.stunOut != nil {
		tx, ap, err := stun.ParseResponse(o.stunOut)
		want, _ := netip.AddrFromSlice(src.IP)
		ok = err == nil && len(raw) >= 20 && bytes.Equal(tx[:], raw[8:20]) && ap.Addr() == want.Unmap() && int(ap.Port()) == src.Port
	}
	if ok {
		x.run.Skip()
		return
	}
	id := x.run.Add(stream, "(RouterTotal.CGeo (RouterTotal.mkGeo 36 9 0 0 0 0 0 0 0 0 0))",
		stream+"|"+hex.EncodeToString(raw), false, map[string]any{"raw": hex.EncodeToString(raw), "outcome": o.class()})
	x.judge(id, stream, cf, raw, ing, src, o, extra)
}

// layout of a serialized packet with a SCION-type path
type layout struct {
	meta, hdr   int // offset of the path meta header, header length in bytes
	hbh, e2e    int // offsets of the extension headers (-1: absent)
	l4          int
	numInf, num int
}

func layoutOf(raw []byte) (l layout, ok bool) {
	l.hbh, l.e2e = -1, -1
	if len(raw) < 12 {
		return l, false
	}
	l.meta = 12 + 16 + 4*(1+int(raw[9]>>4&3)) + 4*(1+int(raw[9]&3))
	l.hdr = int(raw[5]) * 4
	if len(raw) < l.hdr || l.hdr < l.meta+4 {
		return l, false
	}
	next, off := raw[4], l.hdr
	if next == 200 && off+2 <= len(raw) {
		l.hbh = off
		next, off = raw[off], off+(int(raw[off+1])+1)*4
	}
	if next == 201 && off+2 <= len(raw) {
		l.e2e = off
		off += (int(raw[off+1]) + 1) * 4
	}
	l.l4 = off
	return l, true
}

var byteMutations = []string{
	"hdrlen", "paylen", "nexthdr", "pathtype", "addrtypes", "version", "meta-random", "currinf", "currhf",
	"seglen", "seglen-sum", "extlen", "ext-nexthdr", "flip", "flip-header", "truncate", "extend", "hdrlen-slack",
	"meta-rsv", "zero-tail",
}

func mutateBytes(r *vgen.Rand, raw []byte, what string) []byte {
	b := append([]byte(nil), raw...)
	l, ok := layoutOf(b)
	pick := func(xs ...int) int { return xs[r.Intn(len(xs))] }
	switch what {
	case "hdrlen":
		b[5] = byte(pick(0, 1, 2, 3, 8, 9, int(b[5])-1, int(b[5])+1, int(b[5])+4, 255, r.Intn(256)))
	case "hdrlen-slack":
		// announce more header than the path needs and supply the bytes
		n := r.Range(1, 6)
		if ok && int(b[5])+n <= 255 {
			ins := r.Bytes(4 * n)
			b = append(b[:l.hdr], append(ins, b[l.hdr:]...)...)
			b[5] += byte(n)
			binary.BigEndian.PutUint16(b[6:], uint16(len(b)-int(b[5])*4))
		}
	case "paylen":
		v := int(binary.BigEndian.Uint16(b[6:]))
		binary.BigEndian.PutUint16(b[6:], uint16(pick(0, 1, v-1, v+1, v+4, 65535, r.Intn(65536))))
	case "nexthdr":
		b[4] = byte(pick(0, 6, 17, 200, 201, 202, 203, 253, 254, 255, r.Intn(256)))
	case "pathtype":
		b[8] = byte(pick(0, 1, 2, 3, 4, 255, r.Intn(256)))
	case "addrtypes":
		b[9] = byte(r.Intn(256))
	case "version":
		b[0] = byte(r.Intn(256))
	case "meta-random":
		if ok {
			copy(b[l.meta:], r.Bytes(4))
		}
	case "meta-rsv":
		if ok {
			b[l.meta+1] |= byte(1+r.Intn(63)) << 2
		}
	case "currinf":
		if ok {
			b[l.meta] = b[l.meta]&0x3f | byte(r.Intn(4))<<6
		}
	case "currhf":
		if ok {
			b[l.meta] = b[l.meta]&0xc0 | byte(pick(0, 1, 2, 3, 62, 63, r.Intn(64)))
		}
	case "seglen", "seglen-sum":
		if ok {
			line := binary.BigEndian.Uint32(b[l.meta:])
			s := [3]uint32{line >> 12 & 63, line >> 6 & 63, line & 63}
			if what == "seglen" {
				s[r.Intn(3)] = uint32(pick(0, 1, 2, 63, r.Intn(64)))
			} else {
				// keep the sum, move hops between segments
				i, j := r.Intn(3), r.Intn(3)
				if s[i] > 0 && s[j] < 63 {
					s[i]--
					s[j]++
				}
			}
			line = line&^0x3ffff | s[0]<<12 | s[1]<<6 | s[2]
			binary.BigEndian.PutUint32(b[l.meta:], line)
		}
	case "extlen":
		if ok && (l.hbh >= 0 || l.e2e >= 0) {
			off := l.hbh
			if off < 0 || (l.e2e >= 0 && r.Bool()) {
				off = l.e2e
			}
			b[off+1] = byte(pick(0, 1, int(b[off+1])-1, int(b[off+1])+1, 255, r.Intn(256)))
		} else {
			b[4] = byte(pick(200, 201))
		}
	case "ext-nexthdr":
		if ok && (l.hbh >= 0 || l.e2e >= 0) {
			off := l.hbh
			if off < 0 || (l.e2e >= 0 && r.Bool()) {
				off = l.e2e
			}
			b[off] = byte(pick(200, 201, 202, 17, 0, 255))
		} else {
			b[4] = byte(pick(200, 201))
		}
	case "flip":
		for i := r.Range(1, 4); i > 0 && len(b) > 0; i-- {
			b[r.Intn(len(b))] ^= 1 << r.Intn(8)
		}
	case "flip-header":
		n := len(b)
		if ok {
			n = min(n, l.hdr+8)
		}
		for i := r.Range(1, 3); i > 0 && n > 0; i-- {
			b[r.Intn(n)] = byte(r.U64())
		}
	case "truncate":
		b = b[:r.Intn(len(b)+1)]
	case "extend":
		b = append(b, r.Bytes(r.Range(1, 40))...)
	case "zero-tail":
		for i := r.Intn(len(b) + 1); i < len(b); i++ {
			b[i] = 0
		}
	}
	return b
}

// stunShaped builds STUN-like datagrams: valid binding requests and every way of breaking them.
func stunShaped(r *vgen.Rand, i int) ([]byte, string) {
	var tx stun.TxID
	copy(tx[:], r.Bytes(12))
	req := stun.Request(tx)
	switch i % 12 {
	case 0:
		return req, "valid"
	case 1:
		b := append([]byte{}, req...)
		b[len(b)-1] ^= byte(1 + r.Intn(255))
		return b, "bad-fingerprint"
	case 2:
		return req[:r.Intn(len(req))], "truncated"
	case 3:
		b := append([]byte{}, req...)
		binary.BigEndian.PutUint16(b[2:], uint16(r.Intn(65536)))
		return b, "length-field"
	case 4:
		b := append([]byte{}, req...)
		binary.BigEndian.PutUint16(b[22:], uint16(r.Intn(65536))) // attribute length
		return b, "attr-length"
	case 5:
		b := append([]byte{}, req[:20]...)
		for k := r.Intn(5); k > 0; k-- {
			n := r.Intn(9)
			b = append(b, byte(r.U64()), byte(r.U64()), 0, byte(n))
			b = append(b, r.Bytes((n+3)&^3)...)
		}
		// recompute nothing: no fingerprint
		return b, "other-attributes"
	case 6:
		b := append([]byte{}, req...)
		b[0], b[1] = byte(r.Intn(64)), byte(r.U64()) // other message types, top bits zero
		return b, "message-type"
	case 7:
		b := append(append([]byte{}, req...), r.Bytes(r.Range(1, 30))...)
		return b, "trailing-bytes"
	case 8:
		b := r.Bytes(r.Range(20, 80))
		b[0] &= 0x3f
		copy(b[4:], "\x21\x12\xa4\x42")
		return b, "cookie-random"
	case 9:
		b := append([]byte{}, req[:20]...)
		return b, "no-attributes"
	case 10:
		b := append([]byte{}, req...)
		b[21] ^= 0x01 // attribute type
		return b, "attr-type"
	default:
		b := append([]byte{}, req...)
		b[r.Intn(len(b))] ^= 1 << r.Intn(8)
		return b, "bit-flip"
	}
}

// ---- STUN messages built by construction (pkg/stun: Is, ParseBindingRequest, foreachAttr, fingerPrint;
// udpip internalLink.processPacket). Length computations covered: len >= 20 (Is); the attribute walker's
// "4 bytes of attribute header left", "padded length <= rest", value slice b[:attrLen], advance by the padded
// length; fingerprint attribute of length exactly 4 as LAST attribute; the fingerprint input b[:len-8];
// the answer written over the request (32 / 44 bytes into a possibly shorter request).

type stunAttr struct {
	typ     uint16
	length  int // announced length
	data    int // value bytes actually present (-1: as announced)
	padding int // pad bytes present (-1: full padding)
}

var stunAttrTypes = []uint16{0x8028, 0x0001, 0x0020, 0x8020, 0x0006, 0x8022, 0x7fff, 0xffff, 0x0000}

// stunMsg serializes header + attributes. lenMode: 0 consistent message-length field, 1 smaller, 2 larger,
// 3 zero, 4 0xffff. fp: append a correct FINGERPRINT attribute computed over everything before it.
func stunMsg(r *vgen.Rand, msgType [2]byte, cookieOK bool, attrs []stunAttr, lenMode int, fp bool) []byte {
	b := []byte{msgType[0], msgType[1], 0, 0, 0x21, 0x12, 0xa4, 0x42}
	if !cookieOK {
		b[4+r.Intn(4)] ^= byte(1 + r.Intn(255))
	}
	b = append(b, r.Bytes(12)...)
	for _, a := range attrs {
		b = append(b, byte(a.typ>>8), byte(a.typ), byte(a.length>>8), byte(a.length))
		n := a.length
		if a.data >= 0 {
			n = min(a.data, a.length)
		}
		b = append(b, r.Bytes(n)...)
		if n == a.length {
			pad := (4 - a.length%4) % 4
			if a.padding >= 0 {
				pad = min(pad, a.padding)
			}
			b = append(b, make([]byte, pad)...)
		}
	}
	if fp {
		// as stun.Request does: the length field counts the fingerprint attribute
		binary.BigEndian.PutUint16(b[2:], uint16(len(b)-20+8))
		c := crc32.ChecksumIEEE(b) ^ 0x5354554e
		b = append(b, 0x80, 0x28, 0, 4, byte(c>>24), byte(c>>16), byte(c>>8), byte(c))
	}
	body := len(b) - 20
	switch lenMode {
	case 0:
		binary.BigEndian.PutUint16(b[2:], uint16(body))
	case 1:
		binary.BigEndian.PutUint16(b[2:], uint16(max(0, body-1-r.Intn(8))))
	case 2:
		binary.BigEndian.PutUint16(b[2:], uint16(body+1+r.Intn(40)))
	case 3:
		binary.BigEndian.PutUint16(b[2:], 0)
	case 4:
		binary.BigEndian.PutUint16(b[2:], 0xffff)
	}
	return b
}

// stunEnumerated lists, completely, binding requests whose LAST attribute has every length 0..9 (and
// 12, 255, 1000) with 0..3 of its pad bytes and 0.. all of its value bytes present, after no / one /
// two leading attributes, for every attribute type the code looks at and unknown ones.
func stunEnumerated(r *vgen.Rand) (msgs [][]byte, what []string) {
	req := [2]byte{0, 1}
	leads := [][]stunAttr{nil, {{typ: 0x7fff, length: 4, data: -1, padding: -1}},
		{{typ: 0x8028, length: 4, data: -1, padding: -1}, {typ: 0x0006, length: 5, data: -1, padding: -1}}}
	for li, lead := range leads {
		for _, t := range []uint16{0x8028, 0x0020, 0x7fff} {
			for _, l := range []int{0, 1, 2, 3, 4, 5, 6, 7, 8, 9, 12, 255, 1000} {
				needPad := (4 - l%4) % 4
				for pad := 0; pad <= needPad; pad++ {
					as := append(append([]stunAttr{}, lead...), stunAttr{typ: t, length: l, data: -1, padding: pad})
					msgs = append(msgs, stunMsg(r, req, true, as, li%2*2, false))
					what = append(what, fmt.Sprintf("last-attr-len%d-pad%d/%d", l, pad, needPad))
				}
				// value cut short: 0 .. l-1 bytes present (sampled for the long ones)
				for _, d := range []int{0, 1, l / 2, l - 1} {
					if d < 0 || d >= l {
						continue
					}
					as := append(append([]stunAttr{}, lead...), stunAttr{typ: t, length: l, data: d})
					msgs = append(msgs, stunMsg(r, req, true, as, 0, false))
					what = append(what, fmt.Sprintf("last-attr-len%d-data%d", l, d))
				}
			}
		}
	}
	return
}

// stunBuilt draws one constructed message.
func stunBuilt(r *vgen.Rand) ([]byte, string) {
	msgType := [2]byte{0, 1}
	kind := "request"
	switch r.Intn(8) {
	case 0:
		msgType, kind = [2]byte{1, 1}, "response"
	case 1:
		msgType, kind = [2]byte{byte(r.Intn(64)), byte(r.U64())}, "other-type"
	}
	var as []stunAttr
	for k := r.Intn(5); k > 0; k-- {
		a := stunAttr{typ: stunAttrTypes[r.Intn(len(stunAttrTypes))], data: -1, padding: -1}
		switch r.Intn(6) {
		case 0:
			a.length = vgen.Pick(r, 12, 20, 255, 1000, 65535)
			a.data = r.Intn(60)
		default:
			a.length = r.Intn(10)
		}
		as = append(as, a)
	}
	if len(as) > 0 {
		last := &as[len(as)-1]
		switch r.Intn(4) {
		case 0:
			last.padding = r.Intn(3)
		case 1:
			last.padding = 0
		case 2:
			last.data = r.Intn(last.length + 1)
		}
	}
	fp := r.Chance(1, 3)
	lenMode := vgen.Pick(r, 0, 0, 0, 1, 2, 3, 4)
	return stunMsg(r, msgType, !r.Chance(1, 12), as, lenMode, fp), fmt.Sprintf("built-%s-attrs%d-fp=%v-len%d", kind, len(as), fp, lenMode)
}

// extTails enumerates option areas (length 4k-2, to follow the two bytes NextHdr / ExtLen) that are malformed at
// their end, and a few well-formed ones for contrast.
func extTails() [][]byte {
	var out [][]byte
	fill := func(n int, tail []byte) []byte { // Pad1 / PadN / a small option, then the tail
		b := make([]byte, 0, n)
		rest := n - len(tail)
		switch {
		case rest >= 5:
			b = append(b, 7, 1, 0xaa)      // a 3-byte option
			b = append(b, 1, byte(rest-5)) // PadN covering what is left
			b = append(b, make([]byte, rest-5)...)
		case rest >= 2:
			b = append(b, 1, byte(rest-2))
			b = append(b, make([]byte, rest-2)...)
		case rest == 1:
			b = append(b, 0)
		}
		return append(b, tail...)
	}
	for _, n := range []int{2, 6, 10, 30} {
		// lone byte that is not Pad1: PadN, authenticator, unknown types
		for _, t := range []byte{1, 2, 3, 77, 255} {
			out = append(out, fill(n, []byte{t}))
		}
		// last option's length overruns the extension by 1, 2, 3 bytes and by far (0 data bytes present ...)
		for _, over := range []int{1, 2, 3, 200} {
			out = append(out, fill(n, []byte{9, byte(over)}))
			if n >= 6 {
				out = append(out, fill(n, []byte{2, byte(2 + over), 0xbb, 0xcc})) // ... and 2 present
			}
		}
		// well-formed: padding only, one option exactly filling the area
		out = append(out, make([]byte, n))
		out = append(out, append([]byte{9, byte(n - 2)}, make([]byte, n-2)...))
	}
	// authenticator options: truncated inside the metadata, metadata only, complete with a wrong tag (decoded by
	// ParsePacketAuthOption and verified by hasValidAuth), complete followed by a lone byte
	meta := []byte{0, 0, 0, 1, 0, 0, 0, 0, 0, 1, 2, 3}
	out = append(out, append([]byte{2, 8}, meta[:8]...))                                             // 10 bytes
	out = append(out, append(append([]byte{2, 12}, meta...), 0, 0, 0, 0)[:14])                        // metadata only
	out = append(out, append(append([]byte{2, 28}, meta...), make([]byte, 16)...))                    // complete (30)
	out = append(out, append(append(append([]byte{2, 28}, meta...), make([]byte, 16)...), 0, 0, 0, 5)) // + lone byte (34)
	out = append(out, append([]byte{2, 28}, meta...))                                                 // announces 28, has 12 (14 bytes)
	return out
}

func scionish(r *vgen.Rand, n int) []byte {
	b := r.Bytes(n)
	if n < 12 {
		return b
	}
	b[0] &= 0x0f
	b[4] = byte(vgen.Pick(r, 6, 17, 200, 201, 202, 203, 253))
	b[8] = byte(vgen.Pick(r, 0, 1, 1, 1, 2, 3))
	b[9] = byte(vgen.Pick(r, 0x00, 0x03, 0x30, 0x33, 0x40, r.Intn(256)))
	hdr := 12 + 16 + 4*(1+int(b[9]>>4&3)) + 4*(1+int(b[9]&3))
	switch b[8] {
	case 1:
		ni, nh := r.Range(1, 3), r.Range(1, 8)
		hdr += 4 + 8*ni + 12*nh
	case 2:
		hdr += 32
	case 3:
		hdr += 16 + 4 + 8 + 24
	}
	if hdr%4 == 0 && hdr/4 < 256 && r.Chance(3, 4) {
		b[5] = byte(hdr / 4)
		if r.Chance(3, 4) {
			binary.BigEndian.PutUint16(b[6:], uint16(max(0, n-hdr)))
		}
	}
	return b
}

func main() {
	run := vgen.Flags("C08")
	run.Imports = []string{"Model.Router", "Model.RouterScmp", "Model.RouterTotal"}
	run.CheckFn = "RouterTotal.check"
	run.DiagFn = "RouterTotal.diag"
	run.CaseType = "RouterTotal.case"
	run.ShardSize = 60
	run.Rule = "every input goes computeProcID -> processPkt -> (slow-path disposition) slow path -> (internal link, not " +
		"SCION-shaped) the link's STUN handling, all under recover; streams: valid = rtgen packets of every position kind " +
		"re-dressed (SCMP of every type, extension headers, sizes up to the buffer, long paths); field-mutated = rtgen " +
		"mutations (incl. SCMP errors with truncated / random inner quotes delivered locally: getDstPortSCMP); one-hop and " +
		"empty-path packets (valid, PayloadLen off, HdrLen off, BFD); byte-mutated = 20 byte-level mutations (HdrLen, " +
		"PayloadLen, NextHdr chains, path type, address type nibbles, meta header, SegLens, ExtLen, flips, extension, " +
		"zeroing) + truncation at every offset of small packets; random = uniformly random and SCION-shaped random bytes " +
		"of all lengths up to the buffer size; stun = valid and 11 kinds of broken STUN binding requests on the internal " +
		"link (IPv4, IPv6, v4-in-16-byte sources); all on external, sibling and internal ingress, SCMP authentication on " +
		"and off. Coq cases: fast-path model agreement + output predicate where the record model applies, slow-path model " +
		"agreement + reply geometry, and the geometry (as decoded by the real slayers) of packets emitted for byte-mutated " +
		"inputs. non-trivial = a packet was emitted (forwarded, delivered, SCMP reply)"
	x := &ctx{run: run, rng: vgen.NewRand(run.Seed), now: time.Now().Unix(), geoSeen: map[string]int{}}
	x.coqMax = run.Count(100, 2000)

	for i := 0; i < 4; i++ {
		c := rtgen.GenConfig(x.rng.Fork(uint64(9000 + i)))
		c.SCMPAuth = i%2 == 1
		if i == 2 {
			c.LocalHost = netip.MustParseAddr("fd00:1::7")
		}
		x.cfgs = append(x.cfgs, x.addConfig(c))
	}
	kinds := append(append([]string{}, rtgen.Kinds...), rtgen.AttackKinds...)
	ingresses := func(r *vgen.Rand, c *rtgen.Config) rtgen.Ingress {
		switch r.Intn(3) {
		case 0:
			return rtgen.Ingress{Kind: rtgen.IngInt}
		case 1:
			return rtgen.Ingress{Kind: rtgen.IngSib, ID: r.Range(1, 2)}
		}
		for {
			f := c.Ifaces[r.Intn(len(c.Ifaces))]
			if f.Sibling == 0 {
				return rtgen.Ingress{Kind: rtgen.IngExt, ID: int(f.ID)}
			}
		}
	}
	srcs := []*net.UDPAddr{srcV4, srcV6, srcMapped}

	// ---- stream 1a: valid packets
	nValid := run.Count(170, 3000)
	for i := 0; i < nValid; i++ {
		r := x.rng.Fork(uint64(i))
		cf := x.cfgs[i%len(x.cfgs)]
		sc := rtgen.GenValid(r, cf.rt.Cfg, x.now, kinds[i%len(kinds)])
		size := 0
		if i%9 == 8 {
			size = 1 + r.Intn(4)
		}
		o := spgen.Decorate(r, sc, size)
		x.emitModel("valid", cf, sc, "l4:"+o.L4)
	}
	// ---- stream 1b: field-level mutations, and SCMP errors delivered locally (getDstPortSCMP)
	nField := run.Count(230, 4500)
	for i := 0; i < nField; i++ {
		r := x.rng.Fork(uint64(100000 + i))
		cf := x.cfgs[i%len(x.cfgs)]
		if i%3 == 2 {
			sc := rtgen.GenValid(r, cf.rt.Cfg, x.now, "inbound")
			t := vgen.Pick(r, uint8(1), 2, 4, 5, 6, 3, 100)
			var q []byte
			switch r.Intn(4) {
			case 0:
				q = r.Bytes(r.Intn(90))
			case 1:
				q = scionish(r, r.Range(12, 120))
			default:
				q = spgen.InnerQuote(r)
			}
			cut := -1
			if r.Chance(1, 5) {
				cut = r.Intn(4 + 24 + len(q))
			}
			sc.Desc.L4 = spgen.SCMPMsg(r, t, q, cut)
			sc.Mut = "scmp-error-inbound"
			if r.Chance(1, 3) {
				sc.Desc.E2E = []rtgen.Opt{{Type: 9, Data: r.Bytes(5)}}
			}
			x.emitModel("field-mutated", cf, sc, "mut:scmp-error-inbound")
			continue
		}
		sc := rtgen.GenValid(r, cf.rt.Cfg, x.now, kinds[(i/7)%len(kinds)])
		m := rtgen.Mutate(r, sc, cf.rt.Cfg, x.now, "")
		if i%4 == 3 {
			m += "+" + rtgen.Mutate(r, sc, cf.rt.Cfg, x.now, "")
			sc.Mut = m
		}
		if i%2 == 0 {
			spgen.Decorate(r, sc, 0)
		}
		x.emitModel("field-mutated", cf, sc, "mut:"+strings.SplitN(m, "+", 2)[0])
	}
	// ---- stream 1b': local delivery of upper layers of every length 0..24 (UDP, TCP, SCMP echo / traceroute
	// replies): the port extraction of dstScionPort / getDstPortSCMP at every truncation point
	for _, proto := range []uint8{17, 6, 202} {
		for n := 0; n <= 24; n++ {
			r := x.rng.Fork(uint64(150000 + int(proto)*100 + n))
			cf := x.cfgs[n%len(x.cfgs)]
			sc := rtgen.GenValid(r, cf.rt.Cfg, x.now, "inbound")
			b := r.Bytes(n)
			if proto == 202 && n > 0 {
				b[0] = vgen.Pick(r, uint8(128), 129, 130, 131)
			}
			sc.Desc.L4 = rtgen.RawL4(proto, b)
			sc.Desc.HBH, sc.Desc.E2E = nil, nil
			sc.Desc.Dst = rtgen.HostIP4(10, 0, 5, byte(1+n))
			if n%3 == 0 {
				sc.Desc.E2E = []rtgen.Opt{}
			}
			sc.Mut = fmt.Sprintf("l4-proto%d-len%d", proto, n)
			x.emitModel("short-l4", cf, sc)
		}
	}
	// ---- stream 1b'': SCMP ERROR messages of every known type delivered to a local IP host, with every kind of
	// quote: none at all, 1..7 bytes, exactly a common header, header without / with truncated upper layer, body
	// of the error message itself cut short (dstScionPort -> getDstPortSCMP -> decodeSCMP / gopacket)
	{
		full := spgen.InnerQuote(vgen.NewRand(run.Seed).Fork(160000))
		for len(full) < 80 {
			full = spgen.InnerQuote(x.rng.Fork(uint64(160001 + len(full))))
		}
		quotes := [][]byte{{}}
		for n := 1; n <= 7; n++ {
			quotes = append(quotes, full[:n])
		}
		for _, n := range []int{8, 11, 12, 13, 27, 28, 36, 40, 48, 71, 72, 73, 76, 79, 80} {
			quotes = append(quotes, full[:min(n, len(full))])
		}
		quotes = append(quotes, full)
		k := 0
		for _, t := range []uint8{1, 2, 4, 5, 6} {
			for qi, q := range quotes {
				for _, cut := range []int{-1, 4 + qi%5} { // whole message / cut inside or right after the SCMP header
					if cut >= 0 && qi%4 != 0 {
						continue
					}
					r := x.rng.Fork(uint64(161000 + k))
					cf := x.cfgs[k%len(x.cfgs)]
					k++
					sc := rtgen.GenValid(r, cf.rt.Cfg, x.now, "inbound")
					sc.Desc.L4 = spgen.SCMPMsg(r, t, q, cut)
					sc.Desc.Dst = rtgen.HostIP4(10, 0, 6, byte(1+qi))
					sc.Desc.HBH, sc.Desc.E2E = nil, nil
					if k%4 == 0 {
						sc.Desc.E2E = []rtgen.Opt{{Type: 9, Data: r.Bytes(3)}}
					}
					sc.Mut = fmt.Sprintf("scmp-error-type%d-quote%d-cut%d", t, len(q), cut)
					x.emitModel("scmp-error-inbound", cf, sc)
				}
			}
		}
	}
	// ---- stream 1b''': extension headers whose option area is malformed at its END (the skippers of the fast path
	// do not look at options; the slow path's hasValidAuth decodes the E2E options when authentication is on and it
	// builds a traceroute reply): lone non-Pad1 byte, truncated option header, option length overrunning the
	// extension by 1..3 bytes / by far, truncated and complete authenticator options — on router-alert traceroute
	// requests and on packets with an error cause, on all configurations (authentication on and off)
	{
		tails := extTails()
		k := 0
		for ti, area := range tails {
			for v := 0; v < 4; v++ {
				if v > 0 && ti%3 != v-1 && run.Tier != "thorough" {
					continue
				}
				r := x.rng.Fork(uint64(170000 + k))
				cf := x.cfgs[(2*k+1)%len(x.cfgs)] // odd configurations authenticate
				if v == 3 {
					cf = x.cfgs[(2*k)%len(x.cfgs)]
				}
				k++
				sc := rtgen.GenValid(r, cf.rt.Cfg, x.now, kinds[(ti+v)%len(rtgen.Kinds)])
				what := "alert"
				if v == 2 {
					what = vgen.Pick(r, "mac", "expired", "paylen", "consegress")
				}
				rtgen.Mutate(r, sc, cf.rt.Cfg, x.now, what)
				if what == "alert" {
					// set both flags on the current hop so that this router is the one addressed
					h := &sc.Desc.Hops[min(int(sc.Desc.CurrHF), len(sc.Desc.Hops)-1)]
					h.IngressAlert, h.EgressAlert = true, true
				}
				tr := rtgen.SCMPTraceroute(false, uint16(r.U64()), uint16(r.U64()), 0, 0).Bytes
				e2e := append([]byte{202, byte((len(area)+2)/4 - 1)}, area...)
				sc.Desc.HBH, sc.Desc.E2E = nil, nil
				switch v {
				case 1: // the same area in a HBH header in front of a well-formed E2E header
					hbh := append([]byte{201, byte((len(area)+2)/4 - 1)}, area...)
					sc.Desc.L4 = rtgen.RawL4(200, append(append(hbh, 202, 0, 0, 0), tr...))
				default:
					sc.Desc.L4 = rtgen.RawL4(201, append(e2e, tr...))
				}
				sc.Mut = fmt.Sprintf("%s+ext-tail-%d", what, ti)
				x.emitModel("ext-tail", cf, sc)
			}
		}
	}
	// ---- stream 1b'''': validly MACed packets whose egress interface id is ABSENT from the interface map, with and
	// without router-alert flags: aims at the three d.interfaces[egress] dereferences behind validateEgressID
	// (handleEgressRouterAlert, validateEgressUp, the Scope() test at the end of process()) — C08_egress_link_nonnil
	{
		nAbsent := run.Count(64, 2000)
		for i := 0; i < nAbsent; i++ {
			r := x.rng.Fork(uint64(180000 + i))
			cf := x.cfgs[i%len(x.cfgs)]
			sc := rtgen.GenValid(r, cf.rt.Cfg, x.now, vgen.Pick(r, "first-hop", "transit", "xover", "peer-out", "peer-in"))
			d := sc.Desc
			absent := func() uint16 {
				for {
					id := uint16(r.Range(1, 65535))
					if cf.rt.Cfg.Iface(id) == nil {
						return id
					}
				}
			}
			k := int(d.CurrHF)
			if i%3 == 2 && k+1 < len(d.Hops) {
				k++ // the hop after a cross-over
			}
			if k < len(d.Hops) {
				if inf := int(d.InfIndexForHF(uint8(k))); inf < len(d.Infos) && d.Infos[inf].ConsDir {
					d.Hops[k].ConsEgress = absent()
				} else {
					d.Hops[k].ConsIngress = absent()
				}
				if i%2 == 1 {
					d.Hops[k].IngressAlert, d.Hops[k].EgressAlert = i%4 == 1, true
				}
			}
			sc.Remac(cf.rt.Cfg)
			sc.Mut = "egress-absent"
			x.emitModel("egress-absent", cf, sc)
		}
	}
	// ---- stream 1c: one-hop and empty paths
	nOHP := run.Count(120, 6000)
	for i := 0; i < nOHP; i++ {
		r := x.rng.Fork(uint64(200000 + i))
		cf := x.cfgs[i%len(x.cfgs)]
		raw, ing, what := ohpPacket(r, cf.rt.Cfg, x.now, i)
		x.emitBytes("one-hop", what, cf, raw, ing, srcV4)
	}
	// ---- stream 2: byte-level mutations
	nByte := run.Count(1400, 400000)
	for i := 0; i < nByte; i++ {
		r := x.rng.Fork(uint64(300000 + i))
		cf := x.cfgs[i%len(x.cfgs)]
		sc := rtgen.GenValid(r, cf.rt.Cfg, x.now, kinds[(i/len(byteMutations))%len(kinds)])
		if i%3 != 0 {
			spgen.Decorate(r, sc, 0)
		}
		raw, err := sc.Desc.Serialize()
		if err != nil {
			run.Skip()
			continue
		}
		if r.Chance(1, 6) {
			var meta [16]byte
			copy(meta[:], r.Bytes(16))
			if e := spgen.Epicize(raw, meta); e != nil {
				raw = e
			}
		}
		what := byteMutations[i%len(byteMutations)]
		b := mutateBytes(r, raw, what)
		if i%5 == 4 {
			w2 := byteMutations[r.Intn(len(byteMutations))]
			b = mutateBytes(r, b, w2)
			what += "+" + w2
		}
		ing := sc.Ing
		if r.Chance(1, 4) {
			ing = ingresses(r, cf.rt.Cfg)
		}
		x.emitBytes("byte-mutated", what, cf, b, ing, srcs[i%3])
	}
	// ---- stream 2b: truncation at every offset of small packets
	nTrunc := run.Count(5, 300)
	for i := 0; i < nTrunc; i++ {
		r := x.rng.Fork(uint64(400000 + i))
		cf := x.cfgs[i%len(x.cfgs)]
		sc := rtgen.GenValid(r, cf.rt.Cfg, x.now, kinds[i%len(kinds)])
		if i%2 == 1 {
			spgen.Decorate(r, sc, 0)
		}
		raw, err := sc.Desc.Serialize()
		if err != nil || len(raw) > 400 {
			for k := 0; k <= 400; k++ {
				run.Skip()
			}
			continue
		}
		for k := 0; k <= 400; k++ {
			if k > len(raw) {
				run.Skip()
				continue
			}
			x.emitBytes("truncated", "every-offset", cf, raw[:k], sc.Ing, srcV4)
		}
	}
	// ---- stream 3: random bytes
	nRand := run.Count(6000, 3000000)
	for i := 0; i < nRand; i++ {
		r := x.rng.Fork(uint64(500000 + i))
		cf := x.cfgs[i%len(x.cfgs)]
		var n int
		switch i % 8 {
		case 0:
			n = r.Intn(64)
		case 1:
			n = r.Range(spgen.MaxPacket-3, spgen.MaxPacket)
		case 2:
			n = r.Range(1000, spgen.MaxPacket)
		default:
			n = r.Range(12, 400)
		}
		var b []byte
		what := "uniform"
		if i%2 == 0 {
			b, what = scionish(r, n), "scion-shaped"
		} else {
			b = r.Bytes(n)
		}
		x.emitBytes("random", what, cf, b, ingresses(r, cf.rt.Cfg), srcs[i%3])
	}
	// ---- stream 4: STUN-shaped datagrams on the internal link (and, to see them dropped, elsewhere)
	nStun := run.Count(600, 60000)
	for i := 0; i < nStun; i++ {
		r := x.rng.Fork(uint64(600000 + i))
		cf := x.cfgs[i%len(x.cfgs)]
		b, what := stunShaped(r, i)
		ing := rtgen.Ingress{Kind: rtgen.IngInt}
		if i%10 == 9 {
			ing = ingresses(r, cf.rt.Cfg)
		}
		x.emitBytes("stun", what, cf, b, ing, srcs[(i/12)%3])
	}
	// ---- stream 4b: STUN messages built by construction, all on the internal link
	intIng := rtgen.Ingress{Kind: rtgen.IngInt}
	stunProbe := func(b []byte) {
		// pkg/stun's client-side parser is not on the router's receive path; a panic there is only tallied
		if p, _ := vgen.Recover(func() { _, _, _ = stun.ParseResponse(b) }); p {
			run.Tally("OBSERVATION:stun.ParseResponse-panics")
		}
	}
	{
		// complete enumeration of the last-attribute boundary cases, every run
		msgs, what := stunEnumerated(x.rng.Fork(650000))
		for i, b := range msgs {
			x.emitBytes("stun", "enum:"+what[i], x.cfgs[i%len(x.cfgs)], b, intIng, srcs[i%3])
			stunProbe(b)
		}
		run.Tally(fmt.Sprintf("stun-enumerated-messages:%d", len(msgs)))
	}
	nStunBuilt := run.Count(1500, 200000)
	for i := 0; i < nStunBuilt; i++ {
		r := x.rng.Fork(uint64(700000 + i))
		b, what := stunBuilt(r)
		x.emitBytes("stun", what, x.cfgs[i%len(x.cfgs)], b, intIng, srcs[i%3])
		stunProbe(b)
	}
	// truncation at every offset of the attribute area (and of the header) of constructed messages
	nStunTrunc := run.Count(12, 400)
	for i := 0; i < nStunTrunc; i++ {
		r := x.rng.Fork(uint64(800000 + i))
		var b []byte
		for {
			b, _ = stunBuilt(r)
			if len(b) > 24 && len(b) <= 120 {
				break
			}
		}
		for k := 0; k <= 120; k++ {
			if k > len(b) {
				run.Skip()
				continue
			}
			x.emitBytes("stun", "built-truncated-every-offset", x.cfgs[i%len(x.cfgs)], b[:k], intIng, srcs[i%3])
		}
	}
	run.Extra("inputs_executed_without_coq_case", x.goOnly)
	run.Prelude = "From Coq Require Import PrimInt63.\n" + strings.Join(x.prelude, "\n")
	run.Finish()
}

// ohpPacket builds one-hop-path and empty-path packets around the router's configuration.
func ohpPacket(r *vgen.Rand, c *rtgen.Config, now int64, i int) ([]byte, rtgen.Ingress, string) {
	var own []rtgen.Iface
	for _, f := range c.Ifaces {
		if f.Sibling == 0 {
			own = append(own, f)
		}
	}
	f := own[r.Intn(len(own))]
	ts := uint32(now - 100)
	pld := r.Bytes(r.Intn(40))
	l4 := rtgen.UDP(uint16(r.Range(1, 65535)), uint16(r.Range(1, 65535)), pld).Bytes
	build := func(srcIA, dstIA addr.IA, in, eg uint16, mac [6]byte, next uint8, pathType uint8, body []byte) []byte {
		s := make([]byte, 0, 200)
		hdr := 12 + 16 + 4 + 4
		switch pathType {
		case 2:
			hdr += 32
		}
		b := make([]byte, hdr)
		b[4] = next
		b[5] = byte(hdr / 4)
		binary.BigEndian.PutUint16(b[6:], uint16(len(body)))
		b[8] = pathType
		binary.BigEndian.PutUint64(b[12:], uint64(dstIA))
		binary.BigEndian.PutUint64(b[20:], uint64(srcIA))
		copy(b[28:], []byte{10, 0, 9, 9})
		copy(b[32:], []byte{10, 0, 8, 8})
		if pathType == 2 {
			o := 36
			b[o] = 1 // ConsDir
			binary.BigEndian.PutUint16(b[o+2:], uint16(r.U64()))
			binary.BigEndian.PutUint32(b[o+4:], ts)
			b[o+9] = 63
			binary.BigEndian.PutUint16(b[o+10:], in)
			binary.BigEndian.PutUint16(b[o+12:], eg)
			copy(b[o+14:], mac[:])
		}
		s = append(s, b...)
		return append(s, body...)
	}
	what := []string{"ohp-out", "ohp-out-paylen", "ohp-in", "ohp-in-paylen", "ohp-hdrlen", "ohp-noncons", "empty-bfd",
		"ohp-bfd", "empty-udp", "ohp-out-wrong-nbr", "ohp-in-svc", "ohp-truncated"}[i%12]
	ing := rtgen.Ingress{Kind: rtgen.IngInt}
	segID := uint16(r.U64())
	mk := func(out bool) []byte {
		if out {
			raw := build(c.IA, f.Nbr, 0, f.ID, [6]byte{}, 17, 2, l4)
			binary.BigEndian.PutUint16(raw[38:], segID)
			m := rtgen.MAC(c.Key, segID, ts, 63, 0, f.ID)
			copy(raw[50:], m[:])
			return raw
		}
		raw := build(f.Nbr, c.IA, 0, uint16(r.Range(1, 500)), [6]byte{1, 2, 3, 4, 5, 6}, 17, 2, l4)
		return raw
	}
	switch what {
	case "ohp-out":
		return mk(true), ing, what
	case "ohp-out-paylen":
		raw := mk(true)
		binary.BigEndian.PutUint16(raw[6:], uint16(len(l4)+vgen.Pick(r, -1, 1, 4, 100)))
		return raw, ing, what
	case "ohp-in":
		return mk(false), rtgen.Ingress{Kind: rtgen.IngExt, ID: int(f.ID)}, what
	case "ohp-in-paylen":
		raw := mk(false)
		binary.BigEndian.PutUint16(raw[6:], uint16(max(0, len(l4)+vgen.Pick(r, -1, 1, 4, 100))))
		return raw, rtgen.Ingress{Kind: rtgen.IngExt, ID: int(f.ID)}, what
	case "ohp-hdrlen":
		raw := mk(r.Bool())
		raw[5] = byte(int(raw[5]) + vgen.Pick(r, -1, 1, 2))
		return raw, vgen.Pick(r, ing, rtgen.Ingress{Kind: rtgen.IngExt, ID: int(f.ID)}), what
	case "ohp-noncons":
		raw := mk(true)
		raw[36] = 0
		return raw, ing, what
	case "empty-bfd":
		return build(f.Nbr, c.IA, 0, 0, [6]byte{}, 203, 0, r.Bytes(r.Intn(30))), rtgen.Ingress{Kind: rtgen.IngExt, ID: int(f.ID)}, what
	case "ohp-bfd":
		raw := build(f.Nbr, c.IA, 0, 1, [6]byte{}, 203, 2, r.Bytes(r.Intn(30)))
		return raw, rtgen.Ingress{Kind: rtgen.IngExt, ID: int(f.ID)}, what
	case "empty-udp":
		return build(f.Nbr, c.IA, 0, 0, [6]byte{}, 17, 0, l4), rtgen.Ingress{Kind: rtgen.IngExt, ID: int(f.ID)}, what
	case "ohp-out-wrong-nbr":
		raw := mk(true)
		binary.BigEndian.PutUint64(raw[12:], uint64(f.Nbr)+1)
		return raw, ing, what
	case "ohp-in-svc":
		raw := mk(false)
		raw[9] = 0x40 // destination is a service address
		copy(raw[28:], []byte{0, 2, 0, 0})
		return raw, rtgen.Ingress{Kind: rtgen.IngExt, ID: int(f.ID)}, what
	default:
		raw := mk(r.Bool())
		return raw[:r.Intn(len(raw))], vgen.Pick(r, ing, rtgen.Ingress{Kind: rtgen.IngExt, ID: int(f.ID)}), what
	}
}

var _ = slayers.CmnHdrLen
