// Runner for C27: histories of inserts, deletions, expiry clean-ups and queries on
// the REAL sqlite backends of the beacon database and the path-segment database
// (fresh in-memory database per history), with real *seg.PathSegment / beacon.Beacon
// objects built by internal/segbuild.
//
// Pool: 8 segments x 4 variants (versions: two strictly ordered, one tie, one newer
// by 1 ns resp. 1000 s with an *older* expiry), 3 segment types, hidden-path groups
// {0,7,9,2^64-1}, 9 usages. Every derived field the model needs (ID, version, first
// and last ISD-AS, interfaces, MaxExpiry, number of AS entries) is computed by the
// implementation's own functions and handed to the model as data.
package main

import (
	"context"
	"encoding/hex"
	"fmt"
	"math"
	"sort"
	"strings"
	"time"

	"github.com/scionproto/scion/control/beacon"
	"github.com/scionproto/scion/pkg/addr"
	seg "github.com/scionproto/scion/pkg/segment"
	"github.com/scionproto/scion/pkg/segment/iface"
	"github.com/scionproto/scion/private/pathdb/query"
	storagebeacon "github.com/scionproto/scion/private/storage/beacon"
	beaconsql "github.com/scionproto/scion/private/storage/beacon/sqlite"
	"github.com/scionproto/scion/private/storage/db"
	pathsql "github.com/scionproto/scion/private/storage/path/sqlite"
	"github.com/scionproto/scion/private/storage/utils"
	"verifharness/internal/glit"
	"verifharness/internal/segbuild"
	"verifharness/internal/vgen"
)

var (
	iaA = addr.MustParseIA("1-ff00:0:110")
	iaB = addr.MustParseIA("1-ff00:0:111")
	iaC = addr.MustParseIA("1-ff00:0:112")
	iaD = addr.MustParseIA("2-ff00:0:210")
	iaE = addr.MustParseIA("2-ff00:0:211")
	iaL = addr.MustParseIA("1-ff00:0:113") // the AS that receives the beacons
)

const nSeg, nVar = 8, 4

// hop lists of the 8 pool segments (ConsIngress, ConsEgress); the last egress is
// used for beacons only.
func baseHops() [][]segbuild.Hop {
	return [][]segbuild.Hop{
		{{IA: iaA, Eg: 1}, {IA: iaB, In: 2, Eg: 31}},
		{{IA: iaA, Eg: 3}, {IA: iaC, In: 4, Eg: 32}},
		{{IA: iaA, Eg: 1}, {IA: iaB, In: 2, Eg: 5}, {IA: iaC, In: 6, Eg: 33}},
		{{IA: iaB, Eg: 7}, {IA: iaC, In: 8, Eg: 34}},
		{{IA: iaD, Eg: 1}, {IA: iaE, In: 2, Eg: 35}},
		{{IA: iaD, Eg: 3}, {IA: iaA, In: 9, Eg: 36}},
		{{IA: iaA, Eg: 10}, {IA: iaD, In: 11, Eg: 12}, {IA: iaE, In: 13, Eg: 37}},
		{{IA: iaC, Eg: 14}, {IA: iaB, In: 15, Eg: 38}, {IA: iaA, In: 16, Eg: 39}, {IA: iaD, In: 17, Eg: 40}},
	}
}

type variant struct {
	info    int64 // info timestamp, seconds
	signNs  int64 // signing time of every AS entry, nanoseconds
	exp     uint8 // ExpTime of the hop fields
	peer    bool  // a peer entry at the second AS (another interface, another FullID)
	peerExp uint8
	inIf    uint16 // beacons: InIfID
}

var pathVariants = [nVar]variant{
	{info: 1000, signNs: 100e9, exp: 10},
	{info: 2000, signNs: 200e9, exp: 3, peer: true, peerExp: 2},
	{info: 2500, signNs: 200e9, exp: 20},                           // same version as 1
	{info: 500, signNs: 200e9 + 1, exp: 5, peer: true, peerExp: 7}, // newer by 1 ns, expires earlier
}
var beaconVariants = [nVar]variant{
	{info: 1000, signNs: 100e9, exp: 10, inIf: 21},
	{info: 2000, signNs: 50e9, exp: 3, peer: true, peerExp: 2, inIf: 22},
	{info: 2000, signNs: 300e9, exp: 20, inIf: 23}, // same version as 1
	{info: 3000, signNs: 10e9, exp: 1, inIf: 21},   // newest, expires first
}

type item struct {
	seg   *seg.PathSegment
	segI  int
	varI  int
	id    []byte
	ver   uint64
	start addr.IA
	end   addr.IA
	intfs [][2]uint64 // (ia, ifid)
	exp   int64
	hops  int
	inIf  uint16
	key   string
}

func segKey(s *seg.PathSegment) string {
	v, _ := utils.ExtractLastHopVersion(s)
	return fmt.Sprintf("%x|%d|%d|%d|%d", s.FullID(), s.Info.Timestamp.Unix(), s.Info.SegmentID, v, s.MaxExpiry().Unix())
}

// extreme info timestamps (around 2^32 s) for the variants of segment 7
var farInfo = [nVar]int64{1000, math.MaxUint32, math.MaxUint32, math.MaxUint32 + 6}

func build(hops []segbuild.Hop, v variant, isBeacon bool, segI, varI int) *item {
	if segI == nSeg-1 {
		v.info = farInfo[varI]
		if varI == 3 {
			v.exp = 255
		}
	}
	hs := make([]segbuild.Hop, len(hops))
	for i, h := range hops {
		h.Exp = v.exp
		if !isBeacon && i == len(hops)-1 {
			h.Eg = 0
		}
		if v.peer && i == 1 {
			h.Peers = []segbuild.Peer{{IA: iaE, In: 50 + uint16(segI), Remote: 77, Exp: v.peerExp}}
		}
		hs[i] = h
	}
	next := addr.IA(0)
	if isBeacon {
		next = iaL
	}
	s, err := segbuild.Build(time.Unix(v.info, 0), uint16(1000+segI*10+varI), hs, time.Unix(0, v.signNs), next)
	if err != nil {
		panic(err)
	}
	it := &item{seg: s, segI: segI, varI: varI, id: s.ID(), start: s.FirstIA(), end: s.LastIA(),
		exp: s.MaxExpiry().Unix(), hops: len(s.ASEntries), inIf: v.inIf, key: segKey(s)}
	if isBeacon {
		it.ver = uint64(s.Info.Timestamp.Unix())
	} else {
		lv, err := utils.ExtractLastHopVersion(s)
		if err != nil {
			panic(err)
		}
		it.ver = uint64(lv)
	}
	// the interfaces insertInterfaces writes (non-zero ingress / egress of hop entries,
	// ingress of peer entries)
	for _, as := range s.ASEntries {
		hf := as.HopEntry.HopField
		if hf.ConsIngress != 0 {
			it.intfs = append(it.intfs, [2]uint64{uint64(as.Local), uint64(hf.ConsIngress)})
		}
		if hf.ConsEgress != 0 {
			it.intfs = append(it.intfs, [2]uint64{uint64(as.Local), uint64(hf.ConsEgress)})
		}
		for _, p := range as.PeerEntries {
			if p.HopField.ConsIngress != 0 {
				it.intfs = append(it.intfs, [2]uint64{uint64(as.Local), uint64(p.HopField.ConsIngress)})
			}
		}
	}
	return it
}

type pool struct {
	items [nSeg][nVar]*item
	byKey map[string]*item
	byID  map[string]int
}

// mkPool builds the pool; the hop lists are tuned (deterministically) so that
// segments 0/1 share the first hex digit of their ID and 2/3 the first byte.
func mkPool(isBeacon bool) *pool {
	hops := baseHops()
	vars := pathVariants
	if isBeacon {
		vars = beaconVariants
	}
	idOf := func(h []segbuild.Hop) []byte { return build(h, vars[0], isBeacon, 0, 0).id }
	tune := func(ref, target int, nibbles int) {
		want := hex.EncodeToString(idOf(hops[ref]))[:nibbles]
		for k := uint16(100); k < 60000; k++ {
			hops[target][0].Eg = k
			if hex.EncodeToString(idOf(hops[target]))[:nibbles] == want {
				return
			}
		}
		panic("no id with the wanted prefix")
	}
	tune(0, 1, 1)
	tune(2, 3, 2)
	p := &pool{byKey: map[string]*item{}, byID: map[string]int{}}
	for s := 0; s < nSeg; s++ {
		for v := 0; v < nVar; v++ {
			it := build(hops[s], vars[v], isBeacon, s, v)
			p.items[s][v] = it
			p.byKey[it.key] = it
		}
		p.byID[string(p.items[s][0].id)] = s
	}
	return p
}

func nibbles(b []byte) []uint64 {
	out := make([]uint64, 0, 2*len(b))
	for _, x := range b {
		out = append(out, uint64(x>>4), uint64(x&15))
	}
	return out
}

func iaT(ia addr.IA) string {
	return vgen.Pair(vgen.N(uint64(ia.ISD())), vgen.N(uint64(ia.AS())))
}

func iaRawT(ia uint64) string { return iaT(addr.IA(ia)) }

var unknownID = []byte{0xde, 0xad, 0xbe, 0xef, 1, 2, 3, 4, 5, 6, 7, 8, 9, 10, 11, 12, 13, 14, 15, 16, 17, 18, 19,
	20, 21, 22, 23, 24, 25, 26, 27, 28}

func (p *pool) idT(id []byte) string {
	if s, ok := p.byID[string(id)]; ok {
		return fmt.Sprintf("I%d", s)
	}
	if string(id) == string(unknownID) {
		return "IX"
	}
	return vgen.NList(nibbles(id))
}

func (p *pool) payOf(s *seg.PathSegment) uint64 {
	if it, ok := p.byKey[segKey(s)]; ok {
		return uint64(it.segI*nVar + it.varI)
	}
	return 9999
}

// prelude defines the pool once per shard.
func prelude(bp, pp *pool) string {
	var sb strings.Builder
	sb.WriteString("Import Store.\n")
	fmt.Fprintf(&sb, "Definition IX : list N := %s.\n", vgen.NList(nibbles(unknownID)))
	for s := 0; s < nSeg; s++ {
		fmt.Fprintf(&sb, "Definition I%d : list N := %s.\n", s, vgen.NList(nibbles(pp.items[s][0].id)))
		fmt.Fprintf(&sb, "Definition J%d : list N := %s.\n", s, vgen.NList(nibbles(bp.items[s][0].id)))
	}
	for s := 0; s < nSeg; s++ {
		for v := 0; v < nVar; v++ {
			b := bp.items[s][v]
			fmt.Fprintf(&sb, "Definition B%d_%d : beacon := Build_beacon J%d %d %s %d %d %d %d.\n", s, v, s,
				b.ver, iaT(b.start), b.inIf, b.hops, b.exp, s*nVar+v)
			q := pp.items[s][v]
			fmt.Fprintf(&sb, "Definition S%d_%d : pseg := Build_pseg I%d %d %s %s %s %d %d.\n", s, v, s,
				q.ver, iaT(q.start), iaT(q.end),
				vgen.ListOf(q.intfs, func(x [2]uint64) string { return vgen.Pair(iaRawT(x[0]), vgen.N(x[1])) }),
				q.exp, s*nVar+v)
		}
	}
	return sb.String()
}

// ---------------------------------------------------------------- generators

var startChoices = []addr.IA{iaA, iaB, iaC, iaD, addr.MustIAFrom(1, 0), addr.MustIAFrom(2, 0), 0,
	addr.MustIAFrom(0, 0xff0000000110), addr.MustIAFrom(3, 0), addr.MustIAFrom(1, 0xff0000000210)}

func pickIAs(r *vgen.Rand) []addr.IA {
	if r.Chance(6, 10) {
		return nil
	}
	n := r.Range(1, 2)
	out := make([]addr.IA, n)
	for i := range out {
		out[i] = startChoices[r.Intn(len(startChoices))]
	}
	return out
}

func pickPrefix(r *vgen.Rand, p *pool) string {
	full := hex.EncodeToString(p.items[r.Intn(nSeg)][0].id)
	var l int
	switch x := r.Intn(20); {
	case x == 0:
		l = 0 // everything
	case x < 7:
		l = 1
	case x < 12:
		l = 2
	case x < 14:
		l = 3
	case x < 16:
		l = 8
	default:
		l = 64
	}
	s := full[:l]
	if r.Bool() {
		s = strings.ToUpper(s)
	}
	if l > 0 && r.Chance(1, 12) {
		// a prefix that matches nothing: change the last digit
		c := s[l-1]
		repl := byte('0')
		if c == '0' {
			repl = '1'
		}
		s = s[:l-1] + string(repl)
	}
	return s
}

func prefixT(s string) string {
	out := make([]uint64, len(s))
	for i, c := range strings.ToLower(s) {
		v, _ := hex.DecodeString("0" + string(c))
		out[i] = uint64(v[0])
	}
	return vgen.NList(out)
}

// ---- path histories

type pOp struct {
	Kind     string
	Seg, Var int
	Type     int
	Groups   []uint64
	Prefix   string
	Now      int64
	Params   *query.Params
	Src, Dst addr.IA
	T        int64
}

var groupChoices = [][]uint64{nil, {0}, {7}, {9}, {7, 9}, {0, 7}, {9, 7, 9}, {math.MaxUint64}}

func (p *pool) nowChoices() []int64 {
	set := map[int64]bool{0: true, 1: true, 100000: true, math.MaxInt32: true, math.MaxInt32 + 1: true,
		math.MaxUint32: true, math.MaxUint32 + 1: true, 1 << 33: true}
	for s := 0; s < nSeg; s++ {
		for v := 0; v < nVar; v++ {
			e := p.items[s][v].exp
			set[e], set[e+1], set[e-1] = true, true, true
		}
	}
	var out []int64
	for k := range set {
		out = append(out, k)
	}
	sort.Slice(out, func(i, j int) bool { return out[i] < out[j] })
	return out
}

func genPathParams(r *vgen.Rand, p *pool) *query.Params {
	if r.Chance(1, 8) {
		return nil
	}
	q := &query.Params{}
	if r.Chance(3, 10) {
		for i, n := 0, r.Range(1, 3); i < n; i++ {
			if r.Chance(1, 8) {
				q.SegIDs = append(q.SegIDs, unknownID)
			} else {
				q.SegIDs = append(q.SegIDs, p.items[r.Intn(nSeg)][0].id)
			}
		}
	}
	if r.Chance(4, 10) {
		for i, n := 0, r.Range(1, 2); i < n; i++ {
			q.SegTypes = append(q.SegTypes, seg.Type(r.Range(1, 3)))
		}
	}
	if r.Chance(4, 10) {
		for i, n := 0, r.Range(1, 2); i < n; i++ {
			q.HPGroupIDs = append(q.HPGroupIDs, vgen.Pick(r, uint64(0), 7, 9, 9, 5, math.MaxUint64))
		}
	}
	if r.Chance(3, 10) {
		for i, n := 0, r.Range(1, 2); i < n; i++ {
			it := p.items[r.Intn(nSeg)][r.Intn(nVar)]
			x := it.intfs[r.Intn(len(it.intfs))]
			spec := &query.IntfSpec{IA: addr.IA(x[0]), IfID: iface.ID(x[1])}
			if r.Chance(1, 6) {
				spec.IfID = 99 // nobody has it
			}
			if r.Chance(1, 6) {
				spec.IA = iaE
			}
			q.Intfs = append(q.Intfs, spec)
		}
	}
	q.StartsAt = pickIAs(r)
	q.EndsAt = pickIAs(r)
	return q
}

func genPathHistory(r *vgen.Rand, p *pool, quick bool) []pOp {
	n := r.Range(30, 200)
	if quick {
		n = r.Range(30, 90)
	}
	nows := p.nowChoices()
	ias := []addr.IA{iaA, iaB, iaD}
	ops := make([]pOp, 0, n)
	// a history concentrates on a few segments so that versions collide often
	focus := r.Range(2, nSeg)
	for i := 0; i < n; i++ {
		x := r.Intn(100)
		switch {
		case x < 45:
			ops = append(ops, pOp{Kind: "insert", Seg: r.Intn(focus), Var: r.Intn(nVar), Type: r.Range(1, 3),
				Groups: groupChoices[r.Intn(len(groupChoices))]})
		case x < 72:
			ops = append(ops, pOp{Kind: "get", Params: genPathParams(r, p)})
		case x < 78:
			ops = append(ops, pOp{Kind: "delete", Prefix: pickPrefix(r, p)})
		case x < 84:
			ops = append(ops, pOp{Kind: "expire", Now: nows[r.Intn(len(nows))]})
		case x < 93:
			ops = append(ops, pOp{Kind: "insnq", Src: ias[r.Intn(3)], Dst: ias[r.Intn(3)],
				T: vgen.Pick(r, int64(1), 1000, 2000, 2000, 2001, 3000, 5e18)})
		default:
			ops = append(ops, pOp{Kind: "getnq", Src: ias[r.Intn(3)], Dst: ias[r.Intn(3)]})
		}
	}
	return ops
}

type window struct{ lo, hi int64 }

func tickOf(ws []window, ns int64) uint64 {
	for i := len(ws) - 1; i >= 0; i-- {
		if ws[i].lo <= ns && ns <= ws[i].hi {
			return uint64(i)
		}
	}
	return 999999
}

type prow struct {
	id     []byte
	pay    uint64
	typ    uint64
	groups []uint64
	lu     uint64
}

func runPathHistory(name string, p *pool, ops []pOp) (res []string, evs []string, errs []string, stats map[string]int) {
	ctx := context.Background()
	stats = map[string]int{}
	b, err := pathsql.New(name, &db.SqliteConfig{InMemory: true})
	if err != nil {
		panic(err)
	}
	defer b.Close()
	ws := make([]window, len(ops))
	for i, o := range ops {
		ws[i].lo = time.Now().UnixNano()
		switch o.Kind {
		case "insert":
			it := p.items[o.Seg][o.Var]
			st, err := b.InsertWithHPGroupIDs(ctx, &seg.Meta{Segment: it.seg, Type: seg.Type(o.Type)}, o.Groups)
			if err != nil {
				errs = append(errs, fmt.Sprintf("op %d insert: %v", i, err))
			}
			evs = append(evs, fmt.Sprintf("PInsert S%d_%d %d %s", o.Seg, o.Var, o.Type, vgen.NList(o.Groups)))
			res = append(res, fmt.Sprintf("PRStats %d %d", st.Inserted, st.Updated))
			stats[fmt.Sprintf("p-insert:%d/%d", st.Inserted, st.Updated)]++
		case "delete":
			// DeleteSegment returns no count: the post-state is observed by counting the
			// stored segments (distinct ids of an unfiltered Get) before and after the call.
			countSegs := func() int {
				rs, err := b.Get(ctx, nil)
				if err != nil {
					errs = append(errs, fmt.Sprintf("op %d count: %v", i, err))
				}
				ids := map[string]bool{}
				for _, x := range rs {
					ids[string(x.Seg.ID())] = true
				}
				return len(ids)
			}
			before := countSegs()
			if err := b.DeleteSegment(ctx, o.Prefix); err != nil {
				errs = append(errs, fmt.Sprintf("op %d delete: %v", i, err))
			}
			gone := before - countSegs()
			evs = append(evs, "PDelete "+prefixT(o.Prefix))
			res = append(res, fmt.Sprintf("PRDeleted %d", gone))
			if gone > 0 {
				stats["p-delete:nonzero"]++
			} else {
				stats["p-delete:zero"]++
			}
		case "expire":
			n, err := b.DeleteExpired(ctx, time.Unix(o.Now, 0))
			if err != nil {
				errs = append(errs, fmt.Sprintf("op %d expire: %v", i, err))
			}
			evs = append(evs, fmt.Sprintf("PDeleteExpired %d", o.Now))
			res = append(res, fmt.Sprintf("PRCount %d", n))
			if n > 0 {
				stats["p-expire:nonzero"]++
			} else {
				stats["p-expire:zero"]++
			}
		case "get":
			rs, err := b.Get(ctx, o.Params)
			if err != nil {
				errs = append(errs, fmt.Sprintf("op %d get: %v", i, err))
			}
			var rows []prow
			for _, x := range rs {
				g := append([]uint64(nil), x.HPGroupIDs...)
				sort.Slice(g, func(i, j int) bool { return g[i] < g[j] })
				rows = append(rows, prow{id: x.Seg.ID(), pay: p.payOf(x.Seg), typ: uint64(x.Type), groups: g,
					lu: tickOf(ws[:i], x.LastUpdate.UnixNano())})
			}
			sort.Slice(rows, func(i, j int) bool {
				if rows[i].pay != rows[j].pay {
					return rows[i].pay < rows[j].pay
				}
				return rows[i].typ < rows[j].typ
			})
			q := o.Params
			if q == nil {
				q = &query.Params{}
			}
			evs = append(evs, fmt.Sprintf("PGet (Build_pparams %s %s %s %s %s %s)",
				vgen.ListOf(q.SegIDs, p.idT),
				vgen.ListOf(q.SegTypes, func(t seg.Type) string { return vgen.N(uint64(t)) }),
				vgen.NList(q.HPGroupIDs),
				vgen.ListOf(q.Intfs, func(s *query.IntfSpec) string { return vgen.Pair(iaT(s.IA), vgen.N(uint64(s.IfID))) }),
				vgen.ListOf(q.StartsAt, iaT), vgen.ListOf(q.EndsAt, iaT)))
			res = append(res, "PRGet "+vgen.ListOf(rows, func(x prow) string {
				return fmt.Sprintf("(%s, %d, %d, %s, %d)", p.idT(x.id), x.pay, x.typ, vgen.NList(x.groups), x.lu)
			}))
			switch {
			case len(rows) == 0:
				stats["p-get:empty"]++
			case len(rows) < 4:
				stats["p-get:1-3"]++
			default:
				stats["p-get:4+"]++
			}
		case "insnq":
			ok, err := b.InsertNextQuery(ctx, o.Src, o.Dst, time.Unix(0, o.T))
			if err != nil {
				errs = append(errs, fmt.Sprintf("op %d insnq: %v", i, err))
			}
			evs = append(evs, fmt.Sprintf("PInsertNQ %s %s %d", iaT(o.Src), iaT(o.Dst), o.T))
			res = append(res, "PRBool "+vgen.B(ok))
			stats[fmt.Sprintf("p-insnq:%v", ok)]++
		case "getnq":
			t, err := b.GetNextQuery(ctx, o.Src, o.Dst)
			if err != nil {
				errs = append(errs, fmt.Sprintf("op %d getnq: %v", i, err))
			}
			evs = append(evs, fmt.Sprintf("PGetNQ %s %s", iaT(o.Src), iaT(o.Dst)))
			if t.IsZero() {
				res = append(res, "PRNQ None")
			} else {
				res = append(res, fmt.Sprintf("PRNQ (Some %d)", t.UnixNano()))
			}
		}
		ws[i].hi = time.Now().UnixNano()
	}
	return
}

// ---- beacon histories

type bOp struct {
	Kind     string
	Seg, Var int
	Usage    int
	Prefix   string
	Now      int64
	N        int
	Src      addr.IA
	Params   *storagebeacon.QueryParams
}

var usageChoices = []int{1, 2, 4, 8, 3, 5, 12, 15, 0}

func genBeaconParams(r *vgen.Rand, p *pool) *storagebeacon.QueryParams {
	if r.Chance(1, 8) {
		return nil
	}
	q := &storagebeacon.QueryParams{}
	if r.Chance(3, 10) {
		for i, n := 0, r.Range(1, 2); i < n; i++ {
			id := p.items[r.Intn(nSeg)][0].id
			switch r.Intn(5) {
			case 0:
				q.SegIDs = append(q.SegIDs, unknownID)
			case 1:
				q.SegIDs = append(q.SegIDs, id[:1])
			case 2:
				q.SegIDs = append(q.SegIDs, id[:2])
			default:
				q.SegIDs = append(q.SegIDs, id)
			}
		}
	}
	q.StartsAt = pickIAs(r)
	if r.Chance(3, 10) {
		for i, n := 0, r.Range(1, 2); i < n; i++ {
			q.IngressInterfaces = append(q.IngressInterfaces, vgen.Pick(r, uint16(21), 22, 23, 24))
		}
	}
	if r.Chance(4, 10) {
		for i, n := 0, r.Range(1, 2); i < n; i++ {
			q.Usages = append(q.Usages, beacon.Usage(vgen.Pick(r, 0, 1, 2, 4, 8, 3, 12)))
		}
	}
	if r.Chance(3, 10) {
		nows := p.nowChoices()
		v := nows[1+r.Intn(len(nows)-1)]
		if r.Bool() {
			v = vgen.Pick(r, int64(999), 1000, 1001, 2000, 2999, 3000, 3001)
		}
		q.ValidAt = time.Unix(v, 0)
	}
	return q
}

func genBeaconHistory(r *vgen.Rand, p *pool, quick bool) []bOp {
	n := r.Range(30, 200)
	if quick {
		n = r.Range(30, 90)
	}
	nows := p.nowChoices()
	ops := make([]bOp, 0, n)
	focus := r.Range(3, nSeg)
	srcs := []addr.IA{0, 0, iaA, iaD, iaB, addr.MustIAFrom(1, 0), addr.MustIAFrom(0, 0xff0000000110)}
	for i := 0; i < n; i++ {
		x := r.Intn(100)
		switch {
		case x < 45:
			ops = append(ops, bOp{Kind: "insert", Seg: r.Intn(focus), Var: r.Intn(nVar),
				Usage: usageChoices[r.Intn(len(usageChoices))]})
		case x < 62:
			ops = append(ops, bOp{Kind: "cands", N: vgen.Pick(r, 0, 1, 2, 3, 5, 10),
				Usage: vgen.Pick(r, 1, 2, 4, 8, 3, 0), Src: srcs[r.Intn(len(srcs))]})
		case x < 68:
			ops = append(ops, bOp{Kind: "sources"})
		case x < 86:
			ops = append(ops, bOp{Kind: "get", Params: genBeaconParams(r, p)})
		case x < 93:
			ops = append(ops, bOp{Kind: "delete", Prefix: pickPrefix(r, p)})
		default:
			ops = append(ops, bOp{Kind: "expire", Now: nows[r.Intn(len(nows))]})
		}
	}
	return ops
}

func runBeaconHistory(name string, p *pool, ops []bOp) (res []string, evs []string, errs []string, stats map[string]int) {
	ctx := context.Background()
	stats = map[string]int{}
	b, err := beaconsql.New(name, iaL, &db.SqliteConfig{InMemory: true})
	if err != nil {
		panic(err)
	}
	defer b.Close()
	ws := make([]window, len(ops))
	for i, o := range ops {
		ws[i].lo = time.Now().UnixNano()
		switch o.Kind {
		case "insert":
			it := p.items[o.Seg][o.Var]
			st, err := b.InsertBeacon(ctx, beacon.Beacon{Segment: it.seg, InIfID: it.inIf}, beacon.Usage(o.Usage))
			if err != nil {
				errs = append(errs, fmt.Sprintf("op %d insert: %v", i, err))
			}
			evs = append(evs, fmt.Sprintf("BInsert B%d_%d %d", o.Seg, o.Var, o.Usage))
			res = append(res, fmt.Sprintf("BRStats %d %d", st.Inserted, st.Updated))
			stats[fmt.Sprintf("b-insert:%d/%d", st.Inserted, st.Updated)]++
		case "delete":
			// DeleteBeacon returns no count: rows of an unfiltered GetBeacons before and after.
			countRows := func() int {
				rs, err := b.GetBeacons(ctx, nil)
				if err != nil {
					errs = append(errs, fmt.Sprintf("op %d count: %v", i, err))
				}
				return len(rs)
			}
			before := countRows()
			if err := b.DeleteBeacon(ctx, o.Prefix); err != nil {
				errs = append(errs, fmt.Sprintf("op %d delete: %v", i, err))
			}
			gone := before - countRows()
			evs = append(evs, "BDelete "+prefixT(o.Prefix))
			res = append(res, fmt.Sprintf("BRDeleted %d", gone))
			if gone > 0 {
				stats["b-delete:nonzero"]++
			} else {
				stats["b-delete:zero"]++
			}
		case "expire":
			n, err := b.DeleteExpiredBeacons(ctx, time.Unix(o.Now, 0))
			if err != nil {
				errs = append(errs, fmt.Sprintf("op %d expire: %v", i, err))
			}
			evs = append(evs, fmt.Sprintf("BDeleteExpired %d", o.Now))
			res = append(res, fmt.Sprintf("BRCount %d", n))
			if n > 0 {
				stats["b-expire:nonzero"]++
			} else {
				stats["b-expire:zero"]++
			}
		case "cands":
			bs, err := b.CandidateBeacons(ctx, o.N, beacon.Usage(o.Usage), o.Src)
			if err != nil {
				errs = append(errs, fmt.Sprintf("op %d cands: %v", i, err))
			}
			evs = append(evs, fmt.Sprintf("BCandidates %d %d %s", o.N, o.Usage, iaT(o.Src)))
			res = append(res, "BRCands "+vgen.ListOf(bs, func(x beacon.Beacon) string {
				return fmt.Sprintf("(%s, %d, %d)", p.bidT(x.Segment.ID()), p.payOf(x.Segment), x.InIfID)
			}))
			switch {
			case len(bs) == 0:
				stats["b-cands:empty"]++
			case len(bs) == o.N:
				stats["b-cands:limited"]++
			default:
				stats["b-cands:all"]++
			}
		case "sources":
			ias, err := b.BeaconSources(ctx)
			if err != nil {
				errs = append(errs, fmt.Sprintf("op %d sources: %v", i, err))
			}
			sort.Slice(ias, func(i, j int) bool { return ias[i] < ias[j] })
			evs = append(evs, "BSources")
			res = append(res, "BRSources "+vgen.ListOf(ias, iaT))
		case "get":
			rs, err := b.GetBeacons(ctx, o.Params)
			if err != nil {
				errs = append(errs, fmt.Sprintf("op %d get: %v", i, err))
			}
			q := o.Params
			if q == nil {
				q = &storagebeacon.QueryParams{}
			}
			valid := "None"
			if !q.ValidAt.IsZero() {
				valid = fmt.Sprintf("(Some %d)", q.ValidAt.Unix())
			}
			evs = append(evs, fmt.Sprintf("BGet %s (Build_bparams %s %s %s %s %s)", vgen.B(o.Params != nil),
				vgen.ListOf(q.SegIDs, func(b []byte) string {
					if len(b) == 32 {
						return p.bidT(b)
					}
					return vgen.NList(nibbles(b))
				}),
				vgen.ListOf(q.StartsAt, iaT),
				vgen.ListOf(q.IngressInterfaces, func(x uint16) string { return vgen.N(uint64(x)) }),
				vgen.ListOf(q.Usages, func(u beacon.Usage) string { return vgen.N(uint64(u)) }), valid))
			res = append(res, "BRGet "+vgen.ListOf(rs, func(x storagebeacon.Beacon) string {
				return fmt.Sprintf("(%s, %d, %d, %d, %d)", p.bidT(x.Beacon.Segment.ID()), p.payOf(x.Beacon.Segment),
					x.Beacon.InIfID, int(x.Usage), tickOf(ws[:i], x.LastUpdated.UnixNano()))
			}))
			switch {
			case len(rs) == 0:
				stats["b-get:empty"]++
			case len(rs) < 3:
				stats["b-get:1-2"]++
			default:
				stats["b-get:3+"]++
			}
		}
		ws[i].hi = time.Now().UnixNano()
	}
	return
}

func (p *pool) bidT(id []byte) string {
	if s, ok := p.byID[string(id)]; ok {
		return fmt.Sprintf("J%d", s)
	}
	if string(id) == string(unknownID) {
		return "IX"
	}
	return vgen.NList(nibbles(id))
}

func main() {
	run := vgen.Flags("C27")
	run.Imports = []string{"Model.Store"}
	run.CheckFn = "Store.check"
	run.DiagFn = ""
	run.CaseType = "Store.case"
	run.ShardSize = 25
	run.Rule = "histories of 30-90 (quick) / 30-200 (thorough) operations on a fresh in-memory sqlite beacon DB resp. path DB; " +
		"pool of 8 segments x 4 variants (strictly newer, equal version, newer by 1 ns with older expiry; peers change " +
		"FullID and interfaces), 3 segment types, hidden-path groups {0,7,9,2^64-1} incl. empty and repeated lists, 9 usages; " +
		"deletions by hex prefix of length 0/1/2/3/8/64 (pool IDs tuned to share the first digit resp. byte), clean-up " +
		"instants at every expiry -1/0/+1; queries with 0-3 values per filter incl. ISD-only / AS-only / zero / unknown " +
		"values; next-query times with ties. Non-trivial = the history contains an update, an ignored insert, a non-empty " +
		"query result"
	bp, pp := mkPool(true), mkPool(false)
	run.Prelude = glit.Rewrite(prelude(bp, pp))
	rng := vgen.NewRand(run.Seed)
	quick := run.Tier != "thorough"
	n := run.Count(100, 6000)
	for i := 0; i < n; i++ {
		r := rng.Fork(uint64(i))
		isBeacon := i%2 == 0
		var key []string
		var term string
		var errs []string
		var stats map[string]int
		var kind string
		if isBeacon {
			ops := genBeaconHistory(r, bp, quick)
			if !run.Want() {
				run.Skip()
				continue
			}
			res, evs, e, st := runBeaconHistory(fmt.Sprintf("c27b-%d-%d", run.Seed, i), bp, ops)
			errs, stats, kind, key = e, st, "beacon", evs
			term = "CBeacon " + vgen.List(evs) + " " + vgen.List(res)
		} else {
			ops := genPathHistory(r, pp, quick)
			if !run.Want() {
				run.Skip()
				continue
			}
			res, evs, e, st := runPathHistory(fmt.Sprintf("c27p-%d-%d", run.Seed, i), pp, ops)
			errs, stats, kind, key = e, st, "path", evs
			term = "CPath " + vgen.List(evs) + " " + vgen.List(res)
		}
		for k, v := range stats {
			for j := 0; j < v; j++ {
				run.Tally(k)
			}
		}
		nontriv := false
		if isBeacon {
			nontriv = stats["b-insert:0/1"] > 0 && stats["b-insert:0/0"] > 0 &&
				stats["b-get:1-2"]+stats["b-get:3+"]+stats["b-cands:limited"]+stats["b-cands:all"] > 0
		} else {
			nontriv = stats["p-insert:0/1"] > 0 && stats["p-insert:0/0"] > 0 && stats["p-get:1-3"]+stats["p-get:4+"] > 0
		}
		id := run.Add(kind, glit.Rewrite(term), strings.Join(key, ";"), nontriv, map[string]any{"ops": key})
		if len(errs) > 0 {
			run.Violate(id, "the database returned an error: "+errs[0], map[string]any{"errors": errs, "ops": key})
		}
	}
	run.Finish()
}
