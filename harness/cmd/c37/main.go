// Runner for C37: renewal.RequestVerifier.VerifyCMSSignedRenewalRequest on
// real CMS-signed renewal requests (correct and mismatching keys, chains,
// signer infos, payloads, subjects, TRC timelines) over the real sqlite trust
// DB, and cppki.CAPolicy.CreateChain with explicit CurrentTime.
package main

import (
	"bytes"
	"context"
	"crypto"
	"crypto/ecdsa"
	"crypto/ed25519"
	"crypto/rand"
	"crypto/x509"
	"crypto/x509/pkix"
	"encoding/asn1"
	"fmt"
	"time"

	"github.com/scionproto/scion/pkg/scrypto/cms/protocol"
	"github.com/scionproto/scion/pkg/scrypto/cppki"
	"github.com/scionproto/scion/private/ca/renewal"
	"github.com/scionproto/scion/private/storage/db"
	"github.com/scionproto/scion/private/storage/trust/sqlite"
	"verifharness/internal/pkigen"
	"verifharness/internal/vgen"
)

const (
	iaCore  = "1-ff00:0:110"
	iaAS    = "1-ff00:0:111"
	iaOther = "1-ff00:0:112"
)

var dbSeq int

func newDB() sqlite.DB {
	dbSeq++
	d, err := sqlite.New(fmt.Sprintf("verif_c37_%d_%d", time.Now().UnixNano(), dbSeq),
		&db.SqliteConfig{InMemory: true})
	if err != nil {
		panic(err)
	}
	return d
}

func main() {
	run := vgen.Flags("C37")
	run.Imports = []string{"Model.PKIChain", "Model.Renewal"}
	run.CheckFn = "Renewal.check"
	run.DiagFn = "Renewal.diag"
	run.CaseType = "Renewal.case"
	run.ShardSize = 100
	run.Rule = "renew: a correct CMS-signed renewal request (fresh keys, chain, CSR, 1-3 TRCs with root rotation) with 0-2 " +
		"irregularities out of 30 (CSR subject with the ISD-AS attribute twice (same / own+other / other+own) or with unknown attributes, signed by another key / by the CA certificate / naming the CA certificate, two or no signer infos, payload or " +
		"signature altered after signing, wrong content type or version, 1 or 3 certificates, CA first, CSR for another " +
		"ISD-AS / without ISD-AS / with an invalid own signature / garbage, chain expired / foreign root / old root with " +
		"or without grace period, latest TRC expired or base-only, predecessor expired or missing, truncated DER); issue: " +
		"CAPolicy.CreateChain with explicit CurrentTime on and around the CA validity bounds, wrong signer key, ed25519 " +
		"signer, mis-typed CA certificate, CSR without / with duplicated ISD-AS or unknown attributes (the issued subject is compared attribute by attribute); non-trivial = renew cases that pass ExtractChain, issue cases"
	rng := vgen.NewRand(run.Seed)
	nr := run.Count(260, 6000)
	for i := 0; i < nr; i++ {
		renewCase(run, rng.Fork(uint64(i)), i)
	}
	ni := run.Count(120, 3000)
	for i := 0; i < ni; i++ {
		issueCase(run, rng.Fork(uint64(600000+i)))
	}
	run.Finish()
}

const nMut = 30

func corruptTail(b []byte) []byte {
	out := append([]byte(nil), b...)
	out[len(out)-2] ^= 0x01
	return out
}

// subjectName builds a subject with the given ISD-AS attributes (in order) and
// optionally an attribute type unknown to pkix.Name.
func subjectName(ias []string, extra bool) pkix.Name {
	n := pkix.Name{CommonName: "as", Organization: []string{"verif"}}
	n.ExtraNames = []pkix.AttributeTypeAndValue{
		{Type: asn1.ObjectIdentifier{2, 5, 4, 3}, Value: "as"},
		{Type: asn1.ObjectIdentifier{2, 5, 4, 10}, Value: "verif"},
	}
	for i, ia := range ias {
		if extra && i == 0 {
			n.ExtraNames = append(n.ExtraNames,
				pkix.AttributeTypeAndValue{Type: asn1.ObjectIdentifier{1, 3, 6, 1, 4, 1, 55324, 9, 9}, Value: "extra"})
		}
		n.ExtraNames = append(n.ExtraNames, pkix.AttributeTypeAndValue{Type: cppki.OIDNameIA, Value: ia})
	}
	if extra {
		n.ExtraNames = append(n.ExtraNames,
			pkix.AttributeTypeAndValue{Type: asn1.ObjectIdentifier{2, 5, 4, 5}, Value: "serial-7"})
	}
	return n
}

// sameAttrs compares two parsed names attribute by attribute (type, value, order).
func sameAttrs(a, b pkix.Name) bool {
	if len(a.Names) != len(b.Names) {
		return false
	}
	for i := range a.Names {
		if !a.Names[i].Type.Equal(b.Names[i].Type) || fmt.Sprint(a.Names[i].Value) != fmt.Sprint(b.Names[i].Value) {
			return false
		}
	}
	return true
}

func makeCSRName(n pkix.Name, key crypto.Signer) []byte {
	raw, err := x509.CreateCertificateRequest(rand.Reader, &x509.CertificateRequest{Subject: n}, key)
	if err != nil {
		panic(err)
	}
	return raw
}

func makeCSR(ia string, key crypto.Signer, badSig bool) []byte {
	raw, err := x509.CreateCertificateRequest(rand.Reader, &x509.CertificateRequest{Subject: pkigen.Name("as", ia)}, key)
	if err != nil {
		panic(err)
	}
	if badSig {
		raw = corruptTail(raw)
	}
	return raw
}

func renewCase(run *vgen.Run, r *vgen.Rand, idx int) {
	// ---- description
	nm := []int{0, 1, 1, 1, 2}[r.Intn(5)]
	muts := map[int]bool{}
	if idx < nMut {
		muts[idx] = true // every irregularity once on an otherwise correct request
	} else {
		for j := 0; j < nm; j++ {
			muts[r.Intn(nMut)] = true
		}
	}
	if muts[29] { // chain under the old root, in the grace period, but the predecessor TRC has expired
		muts[16], muts[19] = true, true
	}
	nTRC := r.Range(1, 3)
	graceState := r.Intn(3) // 0 in grace, 1 grace over, 2 zero grace
	if !run.Want() {
		run.Skip()
		return
	}
	// ---- build
	g := pkigen.NewGen()
	origin := time.Now().UTC().Truncate(time.Second)
	a := pkigen.NewAbs(g, origin)
	h := func(n int) time.Time { return origin.Add(time.Duration(n) * time.Hour) }
	wNB, wNA := h(-24*400), h(24*400)
	sens := g.MustIssue(g.Tmpl(pkigen.Sensitive, iaCore, "sens", wNB, wNA), g.NewKey(), nil, nil)
	reg := g.MustIssue(g.Tmpl(pkigen.Regular, iaCore, "reg", wNB, wNA), g.NewKey(), nil, nil)
	roots := make([]*pkigen.Cert, 3)
	cas := make([]*pkigen.Cert, 3)
	for j := range roots {
		roots[j] = g.MustIssue(g.Tmpl(pkigen.Root, iaCore, fmt.Sprintf("root%d", j), wNB, wNA), g.NewKey(), nil, nil)
		cas[j] = g.MustIssue(g.Tmpl(pkigen.CA, iaCore, fmt.Sprintf("ca%d", j), h(-24*300), h(24*300)),
			g.NewKey(), roots[j], nil)
	}
	// TRCs: the latest carries root 1 when rotated (mut 16/17: chain under the old root)
	oldRoot := muts[16] || muts[17]
	if oldRoot && nTRC == 1 {
		nTRC = 2
	}
	store := newDB()
	defer store.Close()
	ctx := context.Background()
	var trcT []string
	for sidx := 1; sidx <= nTRC; sidx++ {
		latest := sidx == nTRC
		nb, na := h(-24*(30-sidx)), h(24*30)
		grace := time.Duration(0)
		root := roots[0]
		if latest && sidx > 1 {
			root = roots[1]
			switch graceState {
			case 0:
				nb, grace = h(-3), 6*time.Hour
			case 1:
				nb, grace = h(-24), 3*time.Hour
			}
			if muts[16] {
				nb, grace = h(-3), 6*time.Hour // old root, in grace
			}
			if muts[17] {
				nb, grace = h(-24), 3*time.Hour // old root, grace over
			}
		}
		if latest && muts[18] {
			nb, na = h(-24*20), h(-3) // latest TRC expired
		}
		if !latest && sidx == nTRC-1 && muts[19] {
			nb, na = h(-24*40), h(-3) // predecessor expired
		}
		spec := pkigen.TRCSpec{ISD: 1, Base: 1, Serial: uint64(sidx), NB: nb, NA: na,
			Certs: []*pkigen.Cert{sens, reg, root}, Signers: []*pkigen.Cert{sens, reg}}
		if sidx > 1 {
			spec.Grace = grace
			spec.Votes = []int{0}
		}
		t, err := pkigen.MakeTRC(spec)
		if err != nil {
			panic(err)
		}
		if muts[20] && sidx == nTRC-1 {
			continue // predecessor missing
		}
		if _, err := store.InsertTRC(ctx, t); err != nil {
			panic(err)
		}
		trcT = append(trcT, a.TRC(&t.TRC, 0, 0))
	}
	// the client's chain: under the root of the latest TRC unless oldRoot / foreign
	rootIdx := 0
	if nTRC > 1 {
		rootIdx = 1
	}
	if oldRoot {
		rootIdx = 0
	}
	if muts[15] {
		rootIdx = 2 // foreign root
	}
	asKey := g.NewKey()
	nb, na := h(-24*10), h(24*10)
	if muts[14] {
		nb, na = h(-24*10), h(-3) // AS certificate expired
	}
	asTmpl := g.Tmpl(pkigen.AS, iaAS, "as", nb, na)
	if muts[21] {
		asTmpl.ExtKeyUsage = []x509.ExtKeyUsage{x509.ExtKeyUsageServerAuth} // not a valid AS certificate
	}
	as := g.MustIssue(asTmpl, asKey, cas[rootIdx], nil)
	ca := cas[rootIdx]
	// the CSR
	newKey := g.NewKey()
	csrIA := iaAS
	if muts[9] {
		csrIA = iaOther
	}
	if muts[10] {
		csrIA = ""
	}
	payload := makeCSR(csrIA, newKey.Priv, muts[11])
	switch {
	case muts[25]: // ISD-AS attribute twice, same value
		payload = makeCSRName(subjectName([]string{iaAS, iaAS}, false), newKey.Priv)
	case muts[26]: // own ISD-AS first, another one behind
		payload = makeCSRName(subjectName([]string{iaAS, iaOther}, false), newKey.Priv)
	case muts[27]: // another ISD-AS first
		payload = makeCSRName(subjectName([]string{iaOther, iaAS}, false), newKey.Priv)
	case muts[28]: // attributes unknown to pkix.Name
		payload = makeCSRName(subjectName([]string{iaAS}, true), newKey.Priv)
	}
	if muts[12] {
		payload = []byte("this is not a certificate request")
	}
	// the CMS envelope
	var eci protocol.EncapsulatedContentInfo
	var err error
	if muts[6] {
		eci, err = protocol.NewEncapsulatedContentInfo(asn1.ObjectIdentifier{1, 2, 840, 113549, 1, 7, 3}, payload)
	} else {
		eci, err = protocol.NewDataEncapsulatedContentInfo(payload)
	}
	if err != nil {
		panic(err)
	}
	sd, err := protocol.NewSignedData(eci)
	if err != nil {
		panic(err)
	}
	signChain := []*x509.Certificate{as.X, ca.X}
	signKey := asKey
	if muts[1] { // signed with the CA key: the signer info names the CA certificate
		signKey = ca.Key
	}
	if muts[2] { // no signer info at all
		for _, c := range signChain {
			if err := sd.AddCertificate(c); err != nil {
				panic(err)
			}
		}
	} else if err := sd.AddSignerInfo(signChain, signKey.Priv); err != nil {
		panic(err)
	}
	if muts[0] && len(sd.SignerInfos) > 0 {
		// signature made by another key, still naming the AS certificate
		other := g.NewKey()
		sd2, _ := protocol.NewSignedData(eci)
		oc := g.MustIssue(g.Tmpl(pkigen.AS, iaAS, "as", h(-24*10), h(24*10)), other, ca, nil)
		if err := sd2.AddSignerInfo([]*x509.Certificate{oc.X}, other.Priv); err != nil {
			panic(err)
		}
		sd.SignerInfos[0].Signature = sd2.SignerInfos[0].Signature
		sd.SignerInfos[0].SignedAttrs = sd2.SignerInfos[0].SignedAttrs
	}
	if muts[3] { // a second signer info
		other := g.NewKey()
		oc := g.MustIssue(g.Tmpl(pkigen.AS, iaAS, "as2", h(-24*10), h(24*10)), other, ca, nil)
		sd2, _ := protocol.NewSignedData(eci)
		if err := sd2.AddSignerInfo([]*x509.Certificate{oc.X}, other.Priv); err != nil {
			panic(err)
		}
		sd.SignerInfos = append(sd.SignerInfos, sd2.SignerInfos[0])
	}
	if muts[4] { // payload replaced after signing
		other := makeCSR(iaAS, g.NewKey().Priv, false)
		if eci2, err := protocol.NewDataEncapsulatedContentInfo(other); err == nil && !muts[6] {
			sd.EncapContentInfo = eci2
		}
	}
	if muts[24] && len(sd.SignerInfos) > 0 { // the signer identifier names the CA certificate, the AS key signed
		if sid, err := protocol.NewIssuerAndSerialNumber(ca.X); err == nil {
			sd.SignerInfos[0].SID = sid
		}
	}
	if muts[5] && len(sd.SignerInfos) > 0 { // signature bit flipped
		sd.SignerInfos[0].Signature = corruptTail(sd.SignerInfos[0].Signature)
	}
	if muts[7] {
		sd.Version = 3
	}
	if muts[8] { // only the AS certificate in the envelope
		sd.ClearCertificates()
		if err := sd.AddCertificate(as.X); err != nil {
			panic(err)
		}
	}
	if muts[13] { // a third certificate
		if err := sd.AddCertificate(roots[rootIdx].X); err != nil {
			panic(err)
		}
	}
	if muts[22] { // chain of another AS certificate (same CA), signer info still for the first one
		other := g.NewKey()
		oc := g.MustIssue(g.Tmpl(pkigen.AS, iaAS, "as3", h(-24*10), h(24*10)), other, ca, nil)
		sd.ClearCertificates()
		_ = sd.AddCertificate(oc.X)
		_ = sd.AddCertificate(ca.X)
	}
	req, err := sd.ContentInfoDER()
	if err != nil {
		panic(err)
	}
	if muts[23] {
		req = req[:len(req)-7] // truncated
	}
	// ---- run the implementation
	before := time.Now()
	rv := renewal.RequestVerifier{TRCFetcher: store}
	var verr error
	if pn, msg := vgen.Recover(func() { _, verr = rv.VerifyCMSSignedRenewalRequest(ctx, req) }); pn {
		run.Violate(run.Add("renew", "(Renewal.CRenew [] (Renewal.mkreq false [] 0 0 0 false false 0 false PKIChain.IANone 0 0) 0%Z false)",
			"panic", true, msg), "panic: "+msg, nil)
		return
	}
	ok := verr == nil
	// ---- abstract the request from its bytes
	reqT, passedExtract := abstractRequest(a, g, req)
	var ml []int
	for m := 0; m < nMut; m++ {
		if muts[m] {
			ml = append(ml, m)
			run.Tally(fmt.Sprintf("mut:%02d", m))
		}
	}
	run.Tally(fmt.Sprintf("renew:accepted=%v", ok))
	term := vgen.App("Renewal.CRenew", vgen.List(trcT), reqT, fmt.Sprintf("(%d)%%Z", a.T(before)), vgen.B(ok))
	run.Add("renew", term, term, passedExtract, map[string]any{"muts": ml, "nTRC": nTRC, "graceState": graceState, "accepted": ok})
}

// abstractRequest reads the request back from its DER bytes.
func abstractRequest(a *pkigen.Abs, g *pkigen.Gen, req []byte) (string, bool) {
	bad := "(Renewal.mkreq false [] 0 0 0 false false 0 false PKIChain.IANone 0 0)"
	ci, err := protocol.ParseContentInfo(req)
	if err != nil {
		return bad, false
	}
	sd, err := ci.SignedDataContent()
	if err != nil {
		return bad, false
	}
	certs, err := sd.X509Certificates()
	if err != nil {
		return bad, false
	}
	sid, digestOK, sigKey := uint64(0), false, uint64(0)
	pld, perr := sd.EncapContentInfo.EContentValue()
	typeData := sd.EncapContentInfo.IsTypeData() && perr == nil
	if len(sd.SignerInfos) > 0 {
		si := sd.SignerInfos[0]
		if si.Version == 1 {
			var isn protocol.IssuerAndSerialNumber
			if rest, err := asn1.Unmarshal(si.SID.FullBytes, &isn); err == nil && len(rest) == 0 {
				for _, c := range certs {
					if bytes.Equal(c.RawIssuer, isn.Issuer.FullBytes) && isn.SerialNumber.Cmp(c.SerialNumber) == 0 {
						sid = a.CertID(c)
						break
					}
				}
			}
		}
		if hash, err := si.Hash(); err == nil {
			if d, err := si.GetMessageDigestAttribute(); err == nil {
				hh := hash.New()
				hh.Write(pld)
				digestOK = bytes.Equal(d, hh.Sum(nil))
			}
		}
		if in, err := si.SignedAttrs.MarshaledForVerifying(); err == nil {
			for _, k := range g.Keys {
				p := &x509.Certificate{PublicKey: k.Pub}
				switch k.Pub.(type) {
				case *ecdsa.PublicKey:
					p.PublicKeyAlgorithm = x509.ECDSA
				case ed25519.PublicKey:
					p.PublicKeyAlgorithm = x509.Ed25519
				}
				if p.CheckSignature(si.X509SignatureAlgorithm(), in, si.Signature) == nil {
					sigKey = a.KeyH(k.Pub)
					break
				}
			}
		}
	}
	csrParse, csrIA, csrKey, csrSig := false, "PKIChain.IANone", uint64(0), uint64(0)
	if perr == nil {
		if csr, err := x509.ParseCertificateRequest(pld); err == nil {
			csrParse = true
			csrIA = pkigen.IARes(csr.Subject)
			csrKey = a.KeyH(csr.PublicKey)
			if csr.CheckSignature() == nil {
				csrSig = csrKey
			}
		}
	}
	passed := false
	if len(certs) == 2 {
		ch := []*x509.Certificate{certs[0], certs[1]}
		if ct, err := cppki.ValidateCert(ch[0]); err == nil {
			if ct == cppki.CA {
				ch[0], ch[1] = ch[1], ch[0]
			}
			passed = cppki.ValidateChain(ch) == nil
		}
	}
	return fmt.Sprintf("(Renewal.mkreq true %s %d %d %d %s %s %d %s %s %d %d)", a.Certs(certs), sd.Version,
		len(sd.SignerInfos), sid, vgen.B(typeData), vgen.B(digestOK), sigKey, vgen.B(csrParse), csrIA, csrKey, csrSig), passed
}

func issueCase(run *vgen.Run, r *vgen.Rand) {
	caMut := []int{0, 0, 0, 0, 0, 0, 0, 0, 0, 1, 2, 3}[r.Intn(12)]                 // 1 pathlen 1, 2 digital signature set, 3 root certificate as CA
	signerKind := []int{0, 0, 0, 0, 0, 0, 0, 0, 1, 2}[r.Intn(10)]                  // 1 other ECDSA key, 2 ed25519 CA
	csrIAKind := []int{0, 0, 0, 0, 0, 0, 1, 1, 2, 3, 4, 4, 5, 5, 6, 6}[r.Intn(16)] // 1 other ISD-AS, 2 none, 3 twice the same, 4 own+other, 5 other+own, 6 unknown attributes
	csrKeyKind := []int{0, 0, 0, 0, 0, 0, 0, 0, 0, 1}[r.Intn(10)]                  // 1 ed25519 key in the CSR
	durH := vgen.Pick(r, 1, 24, 72, 24*3)
	timeSel := r.Intn(8)
	delta := r.Intn(3) - 1
	if !run.Want() {
		run.Skip()
		return
	}
	g := pkigen.NewGen()
	t0 := time.Unix(1900000000, 0).UTC()
	a := pkigen.NewAbs(g, t0)
	h := func(n int) time.Time { return t0.Add(time.Duration(n) * time.Hour) }
	root := g.MustIssue(g.Tmpl(pkigen.Root, iaCore, "root", h(-1000), h(1000)), g.NewKey(), nil, nil)
	caKey := g.NewKey()
	if signerKind == 2 {
		caKey = g.NewEdKey()
	}
	ct := g.Tmpl(pkigen.CA, iaCore, "ca", h(-100), h(100))
	switch caMut {
	case 1:
		ct.MaxPathLen, ct.MaxPathLenZero = 1, false
	case 2:
		ct.KeyUsage |= x509.KeyUsageDigitalSignature
	}
	ca := g.MustIssue(ct, caKey, root, nil)
	if caMut == 3 {
		ca = g.MustIssue(g.Tmpl(pkigen.Root, iaCore, "rootca", h(-100), h(100)), caKey, nil, nil)
	}
	signer := caKey
	if signerKind == 1 {
		signer = g.NewKey()
	}
	csrKey := g.NewKey()
	if csrKeyKind == 1 {
		csrKey = g.NewEdKey()
	}
	var rawCSR []byte
	switch csrIAKind {
	case 0, 1, 2:
		rawCSR = makeCSR([]string{iaAS, iaOther, ""}[csrIAKind], csrKey.Priv, false)
	case 3:
		rawCSR = makeCSRName(subjectName([]string{iaAS, iaAS}, false), csrKey.Priv)
	case 4:
		rawCSR = makeCSRName(subjectName([]string{iaAS, iaOther}, false), csrKey.Priv)
	case 5:
		rawCSR = makeCSRName(subjectName([]string{iaOther, iaAS}, r.Bool()), csrKey.Priv)
	case 6:
		rawCSR = makeCSRName(subjectName([]string{iaAS}, true), csrKey.Priv)
	}
	csr, err := x509.ParseCertificateRequest(rawCSR)
	if err != nil {
		panic(err)
	}
	dur := time.Duration(durH) * time.Hour
	// signing time: around the bounds of the CA validity (so that [now, now+d] sticks out or just fits)
	cands := []time.Time{h(0), h(-100), h(100).Add(-dur), h(100), h(-100).Add(-dur), h(-20), h(-50), h(100).Add(-dur)}
	now := cands[timeSel].Add(time.Duration(delta) * time.Second)
	force512 := r.Chance(1, 3)
	pol := cppki.CAPolicy{Validity: dur, Certificate: ca.X, Signer: signer.Priv, CurrentTime: now,
		ForceECDSAWithSHA512: force512}
	var chain []*x509.Certificate
	var cerr error
	if pn, msg := vgen.Recover(func() { chain, cerr = pol.CreateChain(csr) }); pn {
		run.Violate(run.Add("issue", "(Renewal.CRenew [] (Renewal.mkreq false [] 0 0 0 false false 0 false PKIChain.IANone 0 0) 0%Z false)",
			"panic", true, msg), "panic: "+msg, nil)
		return
	}
	skid := uint64(0)
	if id, err := cppki.SubjectKeyID(csr.PublicKey); err == nil {
		skid = a.H('i', id)
	}
	_, ecdsaSigner := signer.Pub.(*ecdsa.PublicKey)
	caT := a.Cert(ca.X) // interns the CA names / key ids first
	implT, same := "None", true
	if cerr == nil {
		implT = "(Some " + a.Cert(chain[0]) + ")"
		same = sameAttrs(chain[0].Subject, csr.Subject) && chain[0].Subject.String() == csr.Subject.String()
	}
	qT := fmt.Sprintf("(Renewal.mkcsr %d %d %d %s)", a.KeyH(csr.PublicKey), skid, a.H('n', csr.RawSubject), pkigen.IARes(csr.Subject))
	term := vgen.App("Renewal.CIssue", caT, vgen.N(a.KeyH(signer.Pub)), vgen.B(ecdsaSigner),
		fmt.Sprintf("(%d)%%Z", a.T(now)), fmt.Sprintf("(%d)%%Z", int64(dur/time.Second)), qT, implT, vgen.B(same))
	run.Tally(fmt.Sprintf("issue:ok=%v", cerr == nil))
	if cerr == nil {
		run.Tally(fmt.Sprintf("issue:force512=%v,alg=%v", force512, chain[0].SignatureAlgorithm))
	}
	run.Add("issue", term, term, true, map[string]any{"caMut": caMut, "signerKind": signerKind, "csrIA": csrIAKind,
		"csrKey": csrKeyKind, "durH": durH, "now": a.T(now), "ok": cerr == nil})
}
