// Runner for C30: the real segfetcher.Pather with the real MultiSegmentSplitter,
// the real Fetcher struct over a fake Resolver (answers from a generated segment
// pool, honouring the "only matching segments" contract), the real path
// combinator, a real memrevcache fed with generated revocations, a fake
// Inspector over a generated core set and a fake NextHopper.
package main

import (
	"context"
	"errors"
	"fmt"
	"net"
	"sort"
	"time"

	"github.com/scionproto/scion/pkg/addr"
	"github.com/scionproto/scion/pkg/private/ctrl/path_mgmt"
	"github.com/scionproto/scion/pkg/private/ctrl/path_mgmt/proto"
	seg "github.com/scionproto/scion/pkg/segment"
	"github.com/scionproto/scion/pkg/segment/iface"
	"github.com/scionproto/scion/private/path/combinator"
	"github.com/scionproto/scion/private/revcache/memrevcache"
	"github.com/scionproto/scion/private/segment/segfetcher"
	"github.com/scionproto/scion/private/trust"
	"verifharness/internal/hpseg"
	"verifharness/internal/vgen"
)

func ia(s string) addr.IA { return addr.MustParseIA(s) }

var (
	a110, a120, a111, a112, a113, a121 = ia("1-ff00:0:110"), ia("1-ff00:0:120"), ia("1-ff00:0:111"),
		ia("1-ff00:0:112"), ia("1-ff00:0:113"), ia("1-ff00:0:121")
	a210, a220, a211, a221 = ia("2-ff00:0:210"), ia("2-ff00:0:220"), ia("2-ff00:0:211"),
		ia("2-ff00:0:221")
	allAS = []addr.IA{a110, a120, a111, a112, a113, a121, a210, a220, a211, a221}
)

type link struct {
	a   addr.IA
	aif uint16
	b   addr.IA
	bif uint16
}

// links between potential core ASes (core links when both ends are core,
// parent->child when b is demoted) and fixed parent->child links.
var (
	coreLinks = []link{{a110, 1, a120, 1}, {a110, 2, a210, 1}, {a120, 2, a210, 2},
		{a210, 3, a220, 1}, {a120, 3, a220, 2}}
	childLinks = []link{{a110, 11, a111, 1}, {a110, 12, a112, 1}, {a120, 11, a121, 1},
		{a120, 12, a112, 2}, {a111, 2, a113, 1}, {a210, 11, a211, 1}, {a220, 11, a221, 1}}
)

// twin is the ISD-AS with the AS number of x under the other ISD (AS numbers are
// only unique per ISD): never part of the topology.
func twin(x addr.IA) addr.IA { return addr.MustIAFrom(3-x.ISD(), x.AS()) }

func has(l []addr.IA, x addr.IA) bool {
	for _, y := range l {
		if x == y {
			return true
		}
	}
	return false
}

type hop struct {
	ia     addr.IA
	in, eg uint16
}

// parents lists (parent, parent egress, child ingress) for x given the core set.
func parents(x addr.IA, cores []addr.IA) []link {
	var out []link
	for _, l := range childLinks {
		if l.b == x {
			out = append(out, l)
		}
	}
	if !has(cores, x) {
		for _, l := range coreLinks {
			if l.a.ISD() != l.b.ISD() {
				continue
			}
			if l.b == x {
				out = append(out, l)
			}
			if l.a == x {
				out = append(out, link{l.b, l.bif, l.a, l.aif})
			}
		}
	}
	return out
}

// chains returns the hop lists of all down segments core -> ... -> x (<= 3 ASes).
func chains(x addr.IA, cores []addr.IA, depth int) [][]hop {
	if depth == 0 {
		return nil
	}
	var out [][]hop
	for _, p := range parents(x, cores) {
		if has(cores, p.a) {
			out = append(out, []hop{{ia: p.a, eg: p.aif}, {ia: x, in: p.bif}})
			continue
		}
		for _, c := range chains(p.a, cores, depth-1) {
			cc := append([]hop(nil), c...)
			cc[len(cc)-1].eg = p.aif
			out = append(out, append(cc, hop{ia: x, in: p.bif}))
		}
	}
	return out
}

// corePaths returns hop lists of core segments (1 or 2 links) among the cores.
func corePaths(cores []addr.IA) [][]hop {
	type edge struct {
		to       addr.IA
		eg, in   uint16
	}
	adj := map[addr.IA][]edge{}
	for _, l := range coreLinks {
		if has(cores, l.a) && has(cores, l.b) {
			adj[l.a] = append(adj[l.a], edge{l.b, l.aif, l.bif})
			adj[l.b] = append(adj[l.b], edge{l.a, l.bif, l.aif})
		}
	}
	var out [][]hop
	for _, c := range cores {
		for _, e1 := range adj[c] {
			out = append(out, []hop{{ia: c, eg: e1.eg}, {ia: e1.to, in: e1.in}})
			for _, e2 := range adj[e1.to] {
				if e2.to == c {
					continue
				}
				out = append(out, []hop{{ia: c, eg: e1.eg}, {ia: e1.to, in: e1.in, eg: e2.eg},
					{ia: e2.to, in: e2.in}})
			}
		}
	}
	return out
}

type poolSeg struct {
	typ   seg.Type
	hops  []hop
	ps    *seg.PathSegment
	fresh bool
}

// Hop-field lifetimes are drawn per hop field (each AS chooses its own ExpTime),
// also for peer entries. Besides wholly fresh and wholly expired segments there
// are mixed ones, issued 1-2 h ago: some hop fields are expired (ExpTime <= 5:
// <= 34 min) while others, possibly only an unused peer hop field, are still
// valid (ExpTime >= 30: >= 2.9 h); the clock lies between the segment's minimum
// and maximum hop expiry, every single expiry is >= 26 min away from it.
const (
	kindFresh = iota
	kindExpired
	kindMixed
)

func (s *poolSeg) first() addr.IA { return s.hops[0].ia }
func (s *poolSeg) last() addr.IA  { return s.hops[len(s.hops)-1].ia }

func build(r *vgen.Rand, now time.Time, typ seg.Type, hops []hop, kind int) *poolSeg {
	hh := make([]hpseg.Hop, len(hops))
	var ts time.Time
	lo := func() uint8 { return uint8(r.Range(0, 5)) }
	hi := func() uint8 { return uint8(r.Range(30, 63)) }
	switch kind {
	case kindFresh:
		ts = now.Add(-time.Duration(r.Range(60, 1800)) * time.Second)
	case kindExpired:
		ts = now.Add(-time.Duration(r.Range(7200, 20000)) * time.Second)
	default:
		ts = now.Add(-time.Duration(r.Range(3600, 7200)) * time.Second)
	}
	for i, h := range hops {
		hh[i] = hpseg.Hop{IA: h.ia, In: h.in, Eg: h.eg}
		switch kind {
		case kindFresh:
			hh[i].Exp = uint8(r.Range(20, 63))
		case kindExpired:
			hh[i].Exp = uint8(r.Range(0, 8)) // at most ~51 min, issued >= 2 h ago
		default:
			hh[i].Exp = vgen.Pick(r, lo(), hi())
		}
	}
	peerExp := func() uint8 {
		if kind == kindMixed {
			return hi()
		}
		return hh[0].Exp
	}
	peerHop := -1
	if kind == kindMixed {
		switch r.Intn(3) {
		case 0: // all regular hop fields expired, only an unused peer hop field is still valid
			for i := range hh {
				hh[i].Exp = lo()
			}
			peerHop = r.Range(1, len(hh)-1)
		default: // at least one expired and one valid regular hop field
			i := r.Intn(len(hh))
			j := (i + 1 + r.Intn(len(hh)-1)) % len(hh)
			hh[i].Exp, hh[j].Exp = lo(), hi()
			if r.Chance(1, 3) {
				peerHop = r.Range(1, len(hh)-1)
			}
		}
	} else if r.Chance(1, 5) {
		peerHop = r.Range(1, len(hh)-1)
	}
	if peerHop >= 0 {
		// a peering link to an AS outside the topology: never usable by the combinator
		hh[peerHop].Peers = []hpseg.Peer{{IA: ia("3-ff00:0:310"), Local: uint16(r.Range(40, 49)),
			Remote: uint16(r.Range(1, 9)), Exp: peerExp()}}
	}
	ps, err := hpseg.Build(hh, ts, ts, uint16(r.Intn(65536)))
	if err != nil {
		panic(err)
	}
	return &poolSeg{typ: typ, hops: hops, ps: ps, fresh: kind == kindFresh}
}

// ---------------------------------------------------------------- fakes

type fakeInspector struct {
	cores []addr.IA
	fail  bool
}

func (f *fakeInspector) ByAttributes(_ context.Context, isd addr.ISD,
	_ trust.Attribute) ([]addr.IA, error) {

	if f.fail {
		return nil, errors.New("inspector failure")
	}
	var out []addr.IA
	for _, c := range f.cores {
		if c.ISD() == isd {
			out = append(out, c)
		}
	}
	return out, nil
}

func (f *fakeInspector) HasAttributes(_ context.Context, x addr.IA,
	_ trust.Attribute) (bool, error) {

	if f.fail {
		return false, errors.New("inspector failure")
	}
	return has(f.cores, x), nil
}

func iaMatch(pat, x addr.IA) bool {
	if pat.AS() == 0 {
		return pat.ISD() == x.ISD()
	}
	return pat == x
}

// fakeResolver answers from the pool: every segment that matches one of the
// requests (the semantics of DefaultResolver.loadSegment on the path DB), nothing
// to fetch remotely. It records the requests.
type fakeResolver struct {
	pool  []*poolSeg
	fail  bool
	calls int
	reqs  segfetcher.Requests
	reply []*poolSeg
}

func (f *fakeResolver) Resolve(_ context.Context, reqs segfetcher.Requests,
	_ bool) (segfetcher.Segments, segfetcher.Requests, error) {

	f.calls++
	f.reqs = append(segfetcher.Requests(nil), reqs...)
	if f.fail {
		return nil, nil, errors.New("path db failure")
	}
	var out segfetcher.Segments
	for _, s := range f.pool {
		for _, r := range reqs {
			start, end := r.Src, r.Dst
			if r.SegType != seg.TypeDown {
				start, end = end, start
			}
			if s.typ == r.SegType && iaMatch(start, s.first()) && iaMatch(end, s.last()) {
				out = append(out, &seg.Meta{Segment: s.ps, Type: s.typ})
				f.reply = append(f.reply, s)
				break
			}
		}
	}
	return out, nil, nil
}

type fakeNextHopper struct{ missing map[uint16]bool }

func (f fakeNextHopper) UnderlayNextHop(id uint16) *net.UDPAddr {
	if f.missing[id] {
		return nil
	}
	return &net.UDPAddr{IP: net.IPv4(127, 0, 0, 1), Port: 30000 + int(id)}
}

// ---------------------------------------------------------------- printing

func iaT(x addr.IA) string {
	return vgen.Pair(vgen.N(uint64(x.ISD())), vgen.N(uint64(x.AS())&0xffff))
}
func zT(v int64) string { return fmt.Sprintf("(%d)%%Z", v) }

type ifc struct {
	ia addr.IA
	id uint64
}

func ifT(i ifc) string { return vgen.Pair(iaT(i.ia), vgen.N(i.id)) }

func reqT(r segfetcher.Request) string {
	return vgen.App("mkreq", vgen.N(uint64(r.SegType)), iaT(r.Src), iaT(r.Dst))
}

func sortedReqs(rs segfetcher.Requests) []segfetcher.Request {
	out := append([]segfetcher.Request(nil), rs...)
	sort.Slice(out, func(i, j int) bool {
		a, b := out[i], out[j]
		if a.SegType != b.SegType {
			return a.SegType < b.SegType
		}
		if a.Src != b.Src {
			return a.Src < b.Src
		}
		return a.Dst < b.Dst
	})
	return out
}

func splitterT(local addr.IA, core bool, insp *fakeInspector) string {
	it := "None"
	if insp != nil {
		it = vgen.Opt(vgen.App("mkinsp", vgen.ListOf(insp.cores, iaT), vgen.B(insp.fail)), true)
	}
	return vgen.App("mksplit", iaT(local), vgen.B(core), it)
}

type cpath struct {
	ifs []ifc
	exp int64 // seconds relative to the case's clock reading
}

func cpathT(p cpath) string {
	return vgen.App("mkcpath", vgen.ListOf(p.ifs, ifT), zT(p.exp))
}

type rev struct {
	i   ifc
	exp int64
}

// ---------------------------------------------------------------- one GetPaths case

type getCase struct {
	local     addr.IA
	core      bool
	insp      *fakeInspector
	cores     []addr.IA
	dst       addr.IA
	pool      []*poolSeg
	fetchFail bool
	revs      []rev
	missing   []uint16
	now       time.Time
	// unshaped: some pool segment is not of the shape beaconing produces (a
	// non-first AS entry without ingress interface; seg.Validate accepts it). The
	// end points of combined paths are then not promised (spec assumption).
	unshaped bool
}

func pickCores(r *vgen.Rand) []addr.IA {
	var cores []addr.IA
	switch r.Intn(4) {
	case 0:
		cores = append(cores, a110)
	case 1:
		cores = append(cores, a120)
	default:
		cores = append(cores, a110, a120)
	}
	switch r.Intn(4) {
	case 0:
		cores = append(cores, a210)
	case 1:
		cores = append(cores, a220)
	default:
		cores = append(cores, a210, a220)
	}
	return cores
}

func genGet(r *vgen.Rand, mutated bool) *getCase {
	c := &getCase{now: time.Now()}
	c.cores = pickCores(r)
	for len(c.cores) == 2 && c.cores[0] == a110 && c.cores[1] == a220 {
		c.cores = pickCores(r) // the only core set without a core-link path between the ISDs
	}
	c.local = vgen.Pick(r, allAS...)
	c.core = has(c.cores, c.local)
	if mutated && r.Chance(1, 4) {
		c.core = !c.core
	}
	switch {
	case r.Chance(1, 10):
		c.insp = nil
	default:
		c.insp = &fakeInspector{cores: c.cores, fail: r.Chance(1, 15)}
		if mutated && r.Chance(1, 3) {
			// the inspector's view differs from the topology the segments come from
			c.insp.cores = pickCores(r)
			if r.Chance(1, 3) {
				c.insp.cores = append(c.insp.cores, twin(vgen.Pick(r, c.insp.cores...)))
			}
		}
	}
	switch x := r.Intn(20); {
	case x < 12:
		c.dst = vgen.Pick(r, allAS...)
	case x < 15:
		c.dst = addr.MustIAFrom(addr.ISD(r.Range(1, 2)), 0)
	case x == 15:
		c.dst = c.local
	case x == 16:
		c.dst = addr.MustIAFrom(0, vgen.Pick(r, allAS...).AS())
	case x == 17:
		c.dst = addr.MustIAFrom(3, addr.AS(r.Intn(2))*0xff0000000310)
	case x == 18:
		// same AS number as the local AS or a core AS, other ISD
		c.dst = twin(vgen.Pick(r, append([]addr.IA{c.local}, c.cores...)...))
	default:
		c.dst = vgen.Pick(r, a110, a120, a210, a220)
	}
	staleP := 6
	if mutated {
		staleP = 3
	}
	zeroIngress := r.Chance(1, 10)
	if zeroIngress {
		// make sure 3-AS chains exist: demote one potential core per ISD
		c.cores = []addr.IA{vgen.Pick(r, a110, a120), a210}
		if c.insp != nil {
			c.insp.cores = c.cores
		}
		c.local = vgen.Pick(r, a121, a112, a113, a111, a120, a110)
		c.core = has(c.cores, c.local)
		c.dst = vgen.Pick(r, a110, a120, a121, a112, a113, addr.MustIAFrom(1, 0), a211)
	}
	add := func(typ seg.Type, hops []hop) {
		if !r.Chance(9, 10) {
			return
		}
		if zeroIngress && r.Chance(1, 2) {
			hops = append([]hop(nil), hops...)
			hops[r.Range(1, len(hops)-1)].in = 0
			c.unshaped = true
		}
		n := 1
		if r.Chance(1, 3) {
			n = 2
		}
		for i := 0; i < n; i++ {
			kind := kindFresh
			if r.Chance(1, staleP) {
				kind = vgen.Pick(r, kindExpired, kindMixed, kindMixed)
			}
			c.pool = append(c.pool, build(r, c.now, typ, hops, kind))
		}
	}
	for _, x := range allAS {
		if has(c.cores, x) {
			continue
		}
		for _, ch := range chains(x, c.cores, 3) {
			add(seg.TypeUp, ch)
			add(seg.TypeDown, ch)
		}
	}
	for _, cp := range corePaths(c.cores) {
		add(seg.TypeCore, cp)
	}
	vgen.Shuffle(r, c.pool)
	c.fetchFail = r.Chance(1, 25)
	return c
}

// addRevs draws revocations, mostly on interfaces of candidate paths.
func (c *getCase) addRevs(r *vgen.Rand, cand []ifc, mutated bool) {
	n := r.Intn(3)
	if mutated {
		n = r.Range(1, 4)
	}
	if len(cand) == 0 {
		n = r.Intn(2)
	}
	for i := 0; i < n; i++ {
		var k ifc
		if len(cand) > 0 && r.Chance(4, 5) {
			k = cand[r.Intn(len(cand))]
			if r.Chance(1, 6) {
				k.ia = twin(k.ia) // same AS number and interface id, other ISD: revokes nothing
			}
		} else {
			k = ifc{vgen.Pick(r, allAS...), uint64(r.Range(1, 12))}
		}
		if r.Chance(3, 5) {
			c.revs = append(c.revs, rev{k, int64(r.Range(30, 3600))}) // active
		} else {
			c.revs = append(c.revs, rev{k, -int64(r.Range(30, 3600))}) // already expired
		}
		if r.Chance(1, 5) { // a second revocation of the same interface
			c.revs = append(c.revs, rev{k, int64(r.Range(-3600, 3600)/30*30 + 15)})
		}
	}
}

func ifsOf(p combinator.Path) []ifc {
	out := make([]ifc, len(p.Metadata.Interfaces))
	for i, x := range p.Metadata.Interfaces {
		out[i] = ifc{x.IA, uint64(x.ID)}
	}
	return out
}

type opath struct {
	src, dst addr.IA
	ifs      []ifc
	live     bool
}

func opathT(p opath) string {
	return fmt.Sprintf("(%s, %s, %s, %s)", iaT(p.src), iaT(p.dst), vgen.ListOf(p.ifs, ifT), vgen.B(p.live))
}

func opathKey(p opath) string { return fmt.Sprint(p.src, p.dst, p.ifs, p.live) }

func main() {
	run := vgen.Flags("C30")
	run.Imports = []string{"Model.Pather"}
	run.CheckFn = "Pather.check"
	run.DiagFn = "Pather.diag"
	run.CaseType = "Pather.case"
	run.ShardSize = 100
	run.Prelude = "Import Pather."
	run.Rule = "split: exhaustive grid (source core flag x 3 local ASes x inspector nil/failing/11 core sets (incl. same AS number in the other ISD) x 17 " +
		"destinations) on the real MultiSegmentSplitter; get: real Pather.GetPaths over a 10-AS/2-ISD topology with " +
		"random core sets, a pool of real up/down/core segments (per-hop-field lifetimes: fresh, expired, or mixed with the clock between the minimum and maximum hop expiry incl. unused peer hop fields; margins >= 20 min), real combinator, " +
		"real memrevcache with 0-4 active/expired revocations mostly on candidate-path interfaces, destinations " +
		"(AS, ISD wildcard, local, ISD 0, unknown ISD), 1 case in 10 with AS entries lacking an ingress interface (end points not promised, agreement only); every 4th case mutated (wrong core flag, inspector view " +
		"differs, more expired segments/revocations, missing next hops); non-trivial = split grid point with " +
		"inspector, or the combinator produced at least one candidate path"
	rng := vgen.NewRand(run.Seed)
	ctx := context.Background()

	// 1. the splitter alone, exhaustive grid
	coreSets := [][]addr.IA{{}, {a110}, {a110, a120}, {a120}, {a110, a210}, {a110, a120, a210, a220},
		{a120, a210}, {a210, a220}, {twin(a110)}, {a110, twin(a110)}, {twin(a111), a210}}
	dsts := append(append([]addr.IA(nil), allAS...), addr.MustIAFrom(1, 0), addr.MustIAFrom(2, 0),
		addr.MustIAFrom(3, 0), ia("3-ff00:0:310"), twin(a110), twin(a111), twin(a210))
	for _, local := range []addr.IA{a110, a111, a210} {
		for _, core := range []bool{false, true} {
			for mode := 0; mode < 2+len(coreSets); mode++ {
				var insp *fakeInspector
				switch {
				case mode == 1:
					insp = &fakeInspector{cores: coreSets[5], fail: true}
				case mode >= 2:
					insp = &fakeInspector{cores: coreSets[mode-2]}
				}
				for _, dst := range dsts {
					if !run.Want() {
						run.Skip()
						continue
					}
					sp := &segfetcher.MultiSegmentSplitter{LocalIA: local, Core: core}
					if insp != nil {
						sp.Inspector = insp
					}
					reqs, err := sp.Split(ctx, dst)
					run.Tally(fmt.Sprintf("split:n=%d", len(reqs)))
					run.Add("split", vgen.App("CSplit", splitterT(local, core, insp), iaT(dst),
						vgen.B(err == nil), vgen.ListOf([]segfetcher.Request(reqs), reqT)),
						fmt.Sprint(local, core, mode, dst), insp != nil,
						map[string]any{"local": local.String(), "core": core, "inspector_mode": mode,
							"dst": dst.String(), "impl_ok": err == nil, "impl_reqs": fmt.Sprint(reqs)})
				}
			}
		}
	}

	// 2. GetPaths
	n := run.Count(1000, 30000)
	for i := 0; i < n; i++ {
		r := rng.Fork(uint64(i))
		mutated := i%4 == 3
		c := genGet(r, mutated)
		if !run.Want() {
			run.Skip()
			continue
		}
		// Candidate paths: what the combinator yields on the segments the resolver
		// hands out, per destination the Pather may ask for. Obtained by a dry run
		// of the same Pather configuration with an empty revocation cache.
		res := &fakeResolver{pool: c.pool, fail: c.fetchFail}
		mk := func(rs *fakeResolver, missing map[uint16]bool) (*segfetcher.Pather, *memrevcacheT) {
			sp := &segfetcher.MultiSegmentSplitter{LocalIA: c.local, Core: c.core}
			if c.insp != nil {
				sp.Inspector = c.insp
			}
			rc := memrevcache.New()
			return &segfetcher.Pather{IA: c.local, MTU: 1400, NextHopper: fakeNextHopper{missing},
				RevCache: rc, Fetcher: &segfetcher.Fetcher{Resolver: rs}, Splitter: sp}, &memrevcacheT{rc}
		}
		dry, _ := mk(res, nil)
		dryPanic, _ := vgen.Recover(func() { _, _ = dry.GetPaths(ctx, c.dst, false) })
		if dryPanic && c.unshaped {
			// combinator.Combine panics on an odd number of traversed interfaces, which
			// an AS entry without ingress interface can cause: outside the assumptions
			run.Tally("get:zero-ingress-combinator-panic")
			run.Skip()
			continue
		}
		var up, core, down []*seg.PathSegment
		cands := map[addr.IA]bool{c.dst: true}
		for _, s := range res.reply {
			switch s.typ {
			case seg.TypeUp:
				up = append(up, s.ps)
			case seg.TypeCore:
				core = append(core, s.ps)
			case seg.TypeDown:
				down = append(down, s.ps)
			}
		}
		for _, s := range c.pool {
			cands[s.first()] = true
		}
		var candList []addr.IA
		for d := range cands {
			candList = append(candList, d)
		}
		sort.Slice(candList, func(i, j int) bool { return candList[i] < candList[j] })
		type combRow struct {
			d  addr.IA
			ps []cpath
		}
		var comb []combRow
		var candIfs []ifc
		var firstIDs []uint16
		ncand := 0 // candidate paths for the destination(s) of this lookup
		marginOK := true
		for _, d := range candList {
			var row []cpath
			panicked, _ := vgen.Recover(func() {
				for _, p := range combinator.Combine(c.local, d, up, core, down, false) {
					exp := p.Metadata.Expiry.Sub(c.now)
					if exp > -20*time.Second && exp < 20*time.Second {
						marginOK = false
					}
					ifs := ifsOf(p)
					row = append(row, cpath{ifs, int64(exp / time.Second)})
					candIfs = append(candIfs, ifs...)
					if len(ifs) > 0 {
						firstIDs = append(firstIDs, uint16(ifs[0].id))
					}
				}
			})
			if panicked {
				row = nil
			}
			if len(row) > 0 {
				comb = append(comb, combRow{d, row})
				if d == c.dst || c.dst.AS() == 0 && d.ISD() == c.dst.ISD() && len(res.reqs) > 0 {
					ncand += len(row)
				}
			}
		}
		c.addRevs(r, candIfs, mutated)
		if len(firstIDs) > 0 && r.Chance(1, 8) || mutated && len(firstIDs) > 0 && r.Chance(1, 3) {
			c.missing = append(c.missing, firstIDs[r.Intn(len(firstIDs))])
		}
		// the real run
		res2 := &fakeResolver{pool: c.pool, fail: c.fetchFail}
		missing := map[uint16]bool{}
		for _, m := range c.missing {
			missing[m] = true
		}
		p, rc := mk(res2, missing)
		for _, rv := range c.revs {
			ts := c.now.Add(-10 * time.Second)
			ttl := rv.exp + 10
			if ttl < 10 { // expired long ago: issue it earlier with the minimum TTL
				ts = c.now.Add(time.Duration(rv.exp-10) * time.Second)
				ttl = 10
			}
			_, _ = rc.c.Insert(ctx, &path_mgmt.RevInfo{IfID: iface.ID(rv.i.id), RawIsdas: rv.i.ia,
				LinkType: proto.LinkType_core, RawTimestamp: uint32(ts.Unix()), RawTTL: uint32(ttl)})
		}
		var got []opath
		var gerr error
		panicked, msg := vgen.Recover(func() {
			paths, err := p.GetPaths(ctx, c.dst, false)
			gerr = err
			after := time.Now()
			for _, sp := range paths {
				o := opath{src: sp.Source(), dst: sp.Destination()}
				if md := sp.Metadata(); md != nil {
					for _, x := range md.Interfaces {
						o.ifs = append(o.ifs, ifc{x.IA, uint64(x.ID)})
					}
					o.live = md.Expiry.After(after)
				}
				got = append(got, o)
			}
		})
		took := time.Since(c.now)
		sort.Slice(got, func(i, j int) bool { return opathKey(got[i]) < opathKey(got[j]) })

		insp := c.insp
		env := vgen.App("mkenv", splitterT(c.local, c.core, insp), iaT(c.dst),
			func() string {
				out := make([]string, len(c.pool))
				for k, s := range c.pool {
					out[k] = vgen.App("mkseg", vgen.N(uint64(s.typ)), iaT(s.first()), iaT(s.last()),
						vgen.N(uint64(k)))
				}
				return vgen.List(out)
			}(),
			vgen.B(c.fetchFail),
			vgen.ListOf(comb, func(row combRow) string {
				return vgen.Pair(iaT(row.d), vgen.ListOf(row.ps, cpathT))
			}),
			vgen.ListOf(c.revs, func(rv rev) string { return vgen.Pair(ifT(rv.i), zT(rv.exp)) }),
			vgen.ListOf(c.missing, func(m uint16) string { return vgen.N(uint64(m)) }),
			vgen.ListOf(c.cores, iaT), vgen.B(!c.unshaped))
		desc := map[string]any{"local": c.local.String(), "core_flag": c.core, "cores": fmt.Sprint(c.cores),
			"inspector": fmt.Sprintf("%+v", c.insp), "dst": c.dst.String(), "pool": len(c.pool),
			"fetch_fail": c.fetchFail, "zero_ingress_segment": c.unshaped, "revocations": fmt.Sprint(c.revs), "missing_nexthop": c.missing,
			"candidates": ncand, "impl_reqs": fmt.Sprint(res2.reqs), "impl_err": fmt.Sprint(gerr),
			"impl_paths": fmt.Sprint(got)}
		id := run.Add("get", vgen.App("CGet", env, vgen.ListOf(sortedReqs(res2.reqs), reqT),
			vgen.B(gerr == nil && !panicked), vgen.ListOf(got, opathT)),
			fmt.Sprint(c.local, c.core, c.cores, c.dst, len(c.pool), c.revs, c.missing, i), ncand > 0, desc)
		if panicked {
			run.Violate(id, "Pather.GetPaths panicked: "+msg, desc)
		}
		if !marginOK || took > 10*time.Second {
			run.Violate(id, "runner: timing margin lost (a path expiry within 20 s of the clock reading, "+
				"or the case took > 10 s)", desc, "runner-timing")
		}
		run.Tally(fmt.Sprintf("get:ok=%v", gerr == nil))
		run.Tally(fmt.Sprintf("get:paths=%s", bucket(len(got))))
		run.Tally(fmt.Sprintf("get:candidates=%s", bucket(ncand)))
		run.Tally(fmt.Sprintf("get:filtered=%v", ncand > len(got)))
		if c.unshaped {
			run.Tally("get:pool=zero-ingress")
		}
		if c.dst.AS() == 0 {
			run.Tally("get:dst=wildcard")
		} else if c.dst == c.local {
			run.Tally("get:dst=local")
		} else {
			run.Tally("get:dst=as")
		}
	}
	run.Finish()
}

type memrevcacheT struct {
	c interface {
		Insert(context.Context, *path_mgmt.RevInfo) (bool, error)
	}
}

func bucket(n int) string {
	switch {
	case n == 0:
		return "0"
	case n <= 2:
		return "1-2"
	case n <= 6:
		return "3-6"
	default:
		return "7+"
	}
}
