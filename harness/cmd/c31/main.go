// Runner for C31: histories of Insert / Get / GetAll / DeleteExpired on the real
// private/revcache/memrevcache over three interfaces.
//
// The implementation reads the wall clock. All timestamps and expirations are
// therefore generated in whole seconds *relative* to a base second sampled when
// a history starts, with at least 2 s between any expiration and any instant at
// which an operation can run:
//   - "flat" histories run within the base second (checked) and use expirations
//     <= base-2 or >= base+4, so the model's clock reading is `base` for every op;
//   - "sleeping" histories advance a logical clock in steps of 5 s with real
//     sleeps to base+T (checked: every op runs within [base+T, base+T+0.5 s]) and
//     use expirations congruent 3 mod 5, so the model's reading is base+T.
//
// A history whose timing check fails is executed again (the check does not look
// at the results).
package main

import (
	"context"
	"fmt"
	"math"
	"sort"
	"strings"
	"sync"
	"time"

	"github.com/scionproto/scion/pkg/addr"
	"github.com/scionproto/scion/pkg/private/ctrl/path_mgmt"
	"github.com/scionproto/scion/pkg/private/ctrl/path_mgmt/proto"
	"github.com/scionproto/scion/pkg/segment/iface"
	"github.com/scionproto/scion/private/revcache"
	"github.com/scionproto/scion/private/revcache/memrevcache"
	"verifharness/internal/glit"
	"verifharness/internal/vgen"
)

type keyT struct {
	IA   addr.IA
	IfID uint16
}

var pool = []keyT{
	{addr.MustParseIA("1-ff00:0:110"), 1},
	{addr.MustParseIA("1-ff00:0:110"), 2},
	{addr.MustParseIA("2-ff00:0:210"), 1},
}

const (
	opInsert = iota
	opGet
	opDel
	opAll
	opSleep
)

// op is generated relative to the base second; abs* override the relative
// values for boundary cases (absolute unix seconds).
type op struct {
	Kind   int
	Key    int
	TsRel  int64 // timestamp - base
	ExpRel int64 // expiration - base
	Abs    bool  // TsAbs/TTLAbs are absolute values
	TsAbs  uint32
	TTLAbs uint32
	Link   uint16
	// Long != 0: timestamp = base+TsRel, TTL chosen so that timestamp+TTL lies near or
	// beyond 2^32 (the sum does not fit the 32-bit fields it is made of):
	// 1 TTL = 2^32-1; 2/3/4 timestamp+TTL = 2^32-1 / 2^32 / 2^32+1; 5 = 2^32+base-3
	// (wraps to just before now); 6 TTL around 2.6e9 s.
	Long int
	Off  uint32
}

type revObs struct {
	IA          uint64
	If, Ts, TTL uint64
	ID          uint64
}

type obs struct {
	Kind int
	B    bool
	Rev  *revObs
	N    int64
	All  []revObs
	Err  bool
}

func revOf(r *path_mgmt.RevInfo) revObs {
	return revObs{IA: uint64(r.RawIsdas), If: uint64(r.IfID), Ts: uint64(r.RawTimestamp),
		TTL: uint64(r.RawTTL), ID: uint64(r.LinkType)}
}

func (o op) rev(base int64) *path_mgmt.RevInfo {
	k := pool[o.Key]
	r := &path_mgmt.RevInfo{IfID: iface.ID(k.IfID), RawIsdas: k.IA, LinkType: proto.LinkType(o.Link)}
	if o.Abs {
		r.RawTimestamp, r.RawTTL = o.TsAbs, o.TTLAbs
	} else if o.Long != 0 {
		ts := uint32(base + o.TsRel)
		r.RawTimestamp = ts
		switch o.Long {
		case 1:
			r.RawTTL = math.MaxUint32
		case 2:
			r.RawTTL = math.MaxUint32 - ts
		case 3:
			r.RawTTL = math.MaxUint32 - ts + 1
		case 4:
			r.RawTTL = math.MaxUint32 - ts + 2
		case 5:
			r.RawTTL = math.MaxUint32 - ts + 1 + uint32(base) - 3
		default:
			r.RawTTL = 2600000000 + o.Off
		}
	} else {
		r.RawTimestamp = uint32(base + o.TsRel)
		r.RawTTL = uint32(o.ExpRel - o.TsRel)
	}
	return r
}

var tsPool = []int64{-2000, -100, -60, -20, -10, -5, 0, 1, 5, 40}

func genInsert(r *vgen.Rand, sleeping bool) op {
	o := op{Kind: opInsert, Key: r.Intn(len(pool)), Link: uint16(r.Intn(5))}
	if r.Chance(1, 8) {
		// very long-lived revocations: expiration near / beyond 2^32 seconds
		o.Long = r.Range(1, 6)
		o.Off = uint32(r.Intn(3)) * 700000000
		o.TsRel = tsPool[r.Intn(len(tsPool))]
		return o
	}
	if r.Chance(1, 25) {
		// boundary values of the 32-bit fields
		o.Abs = true
		switch r.Intn(4) {
		case 0: // epoch timestamp, expires far in the future
			o.TsAbs, o.TTLAbs = 0, math.MaxUint32
		case 1: // epoch timestamp, expired long ago
			o.TsAbs, o.TTLAbs = 0, uint32(r.Intn(1000))
		case 2: // largest timestamp and TTL
			o.TsAbs, o.TTLAbs = math.MaxUint32, math.MaxUint32
		case 3: // largest timestamp, zero TTL
			o.TsAbs, o.TTLAbs = math.MaxUint32, 0
		}
		return o
	}
	if sleeping {
		o.ExpRel = vgen.Pick(r, int64(-7), -2, 3, 3, 8, 8, 13, 18, 1003)
	} else {
		o.ExpRel = vgen.Pick(r, int64(-1000), -50, -3, -2, 4, 5, 10, 50, 50, 100000)
	}
	var cands []int64
	for _, t := range tsPool {
		if t <= o.ExpRel {
			cands = append(cands, t)
		}
	}
	if len(cands) == 0 || r.Chance(1, 12) {
		o.TsRel = o.ExpRel // zero TTL
	} else {
		o.TsRel = cands[r.Intn(len(cands))]
	}
	return o
}

func genHistory(r *vgen.Rand, sleeping bool, maxSleeps int) []op {
	n := r.Range(8, 30)
	ops := make([]op, 0, n)
	sleeps := 0
	for i := 0; i < n; i++ {
		x := r.Intn(100)
		switch {
		case x < 55:
			ops = append(ops, genInsert(r, sleeping))
		case x < 78:
			ops = append(ops, op{Kind: opGet, Key: r.Intn(len(pool))})
		case x < 86:
			ops = append(ops, op{Kind: opDel})
		case x < 92:
			ops = append(ops, op{Kind: opAll})
		default:
			if sleeping && sleeps < maxSleeps {
				ops = append(ops, op{Kind: opSleep})
				sleeps++
			} else {
				ops = append(ops, op{Kind: opGet, Key: r.Intn(len(pool))})
			}
		}
	}
	if sleeping && sleeps == 0 {
		ops[len(ops)/2] = op{Kind: opSleep}
	}
	return ops
}

// genShaped draws a sleeping history around a fixed skeleton: revocation A (interface
// X) expires at base+3 and B (interface Y) at base+8; after the first sleep (T = 5) a
// clean-up runs while A is expired and B is live; after the second sleep (T = 10) B
// is expired as well and interface Y is looked up and offered older, unexpired
// revocations. Random operations on the third interface and lookups fill the gaps.
func genShaped(r *vgen.Rand) []op {
	perm := []int{0, 1, 2}
	vgen.Shuffle(r, perm)
	kA, kB, kC := perm[0], perm[1], perm[2]
	link := func() uint16 { return uint16(r.Intn(5)) }
	filler := func(n int) []op {
		var out []op
		for i := 0; i < n; i++ {
			switch r.Intn(4) {
			case 0:
				o := genInsert(r, true)
				o.Key = kC
				out = append(out, o)
			case 1:
				out = append(out, op{Kind: opAll})
			default:
				out = append(out, op{Kind: opGet, Key: r.Intn(len(pool))})
			}
		}
		return out
	}
	tsB := vgen.Pick(r, int64(-20), -10, -5, 0, 1)
	ops := []op{
		{Kind: opInsert, Key: kA, TsRel: vgen.Pick(r, int64(-60), -10, 0), ExpRel: 3, Link: link()},
		{Kind: opInsert, Key: kB, TsRel: tsB, ExpRel: 8, Link: link()},
	}
	if r.Bool() {
		ops[0], ops[1] = ops[1], ops[0]
	}
	ops = append(ops, filler(r.Intn(4))...)
	ops = append(ops, op{Kind: opSleep}) // T = 5: A expired, B live
	ops = append(ops, filler(r.Intn(3))...)
	ops = append(ops, op{Kind: opDel})
	ops = append(ops, filler(r.Intn(3))...)
	ops = append(ops, op{Kind: opSleep}) // T = 10: B expired
	tail := []op{
		{Kind: opGet, Key: kB},
		{Kind: opInsert, Key: kB, TsRel: tsB - vgen.Pick(r, int64(0), 40, 80), ExpRel: vgen.Pick(r, int64(13), 18, 1003), Link: link()},
		{Kind: opGet, Key: kB},
		{Kind: opAll},
		{Kind: opDel},
		{Kind: opGet, Key: kA},
	}
	if r.Bool() {
		tail[0], tail[1] = tail[1], tail[0]
	}
	ops = append(ops, tail...)
	ops = append(ops, filler(r.Intn(4))...)
	return ops
}

// genShadow draws a sleeping history in which a long-lived revocation A is replaced
// by a NEWER but SHORT-lived revocation C for the same interface (C expires at base+3,
// A would live until base+13 or longer). After the sleep C is expired and A is gone:
// the cache keeps one revocation per interface, the most recently accepted one, so
// the lookup returns nothing although A was accepted and is unexpired; offering A
// again then succeeds. (Reading of the property recorded in spec/C31.json.)
func genShadow(r *vgen.Rand) []op {
	k := r.Intn(len(pool))
	link := func() uint16 { return uint16(r.Intn(5)) }
	tsA := vgen.Pick(r, int64(-60), -20, -10)
	a := op{Kind: opInsert, Key: k, TsRel: tsA, ExpRel: vgen.Pick(r, int64(13), 18, 1003), Link: link()}
	c := op{Kind: opInsert, Key: k, TsRel: vgen.Pick(r, int64(-5), 0, 1), ExpRel: 3, Link: link()}
	filler := func(n int) []op {
		var out []op
		for i := 0; i < n; i++ {
			switch r.Intn(3) {
			case 0:
				o := genInsert(r, true)
				o.Key = (k + 1 + r.Intn(len(pool)-1)) % len(pool)
				out = append(out, o)
			case 1:
				out = append(out, op{Kind: opAll})
			default:
				out = append(out, op{Kind: opGet, Key: r.Intn(len(pool))})
			}
		}
		return out
	}
	ops := []op{a}
	ops = append(ops, filler(r.Intn(3))...)
	ops = append(ops, c, op{Kind: opGet, Key: k})
	ops = append(ops, filler(r.Intn(3))...)
	ops = append(ops, op{Kind: opSleep}) // T = 5: C expired; A was replaced
	if r.Bool() {
		ops = append(ops, op{Kind: opDel})
	}
	ops = append(ops, op{Kind: opGet, Key: k}, op{Kind: opAll}, a, op{Kind: opGet, Key: k})
	// an even older one is refused again while A is live
	ops = append(ops, op{Kind: opInsert, Key: k, TsRel: tsA - 40, ExpRel: 1003, Link: link()}, op{Kind: opGet, Key: k})
	ops = append(ops, filler(r.Intn(3))...)
	if r.Bool() {
		ops = append(ops, op{Kind: opSleep}, op{Kind: opGet, Key: k}, op{Kind: opDel}, op{Kind: opAll})
	}
	return ops
}

// execute runs one history on a fresh cache. base is the base second; for a
// sleeping history the caller has aligned the clock to just after base.
// ok=false: a timing check failed, the observations must not be used.
func execute(ops []op, base int64, sleeping bool) (out []obs, ok bool) {
	ctx := context.Background()
	c := memrevcache.New()
	T := int64(0)
	inWindow := func() bool {
		now := time.Now()
		lo := time.Unix(base+T, 0)
		if sleeping {
			return !now.Before(lo) && now.Before(lo.Add(500*time.Millisecond))
		}
		return !now.Before(lo) && now.Before(lo.Add(1900*time.Millisecond))
	}
	ok = true
	for _, o := range ops {
		if o.Kind == opSleep {
			T += 5
			time.Sleep(time.Until(time.Unix(base+T, 0).Add(10 * time.Millisecond)))
			out = append(out, obs{Kind: opSleep})
			continue
		}
		if !inWindow() {
			ok = false
		}
		switch o.Kind {
		case opInsert:
			b, err := c.Insert(ctx, o.rev(base))
			out = append(out, obs{Kind: opInsert, B: b, Err: err != nil})
		case opGet:
			k := pool[o.Key]
			r, err := c.Get(ctx, revcache.NewKey(k.IA, iface.ID(k.IfID)))
			ob := obs{Kind: opGet, Err: err != nil}
			if r != nil {
				v := revOf(r)
				ob.Rev = &v
			}
			out = append(out, ob)
		case opDel:
			n, err := c.DeleteExpired(ctx)
			out = append(out, obs{Kind: opDel, N: n, Err: err != nil})
		case opAll:
			ch, err := c.GetAll(ctx)
			ob := obs{Kind: opAll, Err: err != nil}
			if ch != nil {
				for re := range ch {
					if re.Err != nil || re.Rev == nil {
						ob.Err = true
						continue
					}
					ob.All = append(ob.All, revOf(re.Rev))
				}
			}
			sort.Slice(ob.All, func(i, j int) bool {
				a, b := ob.All[i], ob.All[j]
				if a.IA != b.IA {
					return a.IA < b.IA
				}
				if a.If != b.If {
					return a.If < b.If
				}
				if a.Ts != b.Ts {
					return a.Ts < b.Ts
				}
				if a.TTL != b.TTL {
					return a.TTL < b.TTL
				}
				return a.ID < b.ID
			})
			out = append(out, ob)
		}
		if !inWindow() {
			ok = false
		}
	}
	return out, ok
}

// b0 is sampled once per run. Large numerals are slow to parse in Coq, so every
// time value is printed as a small offset from the constant B0 of the prelude
// (and the two ISD-AS numbers and 2^32-1 as constants).
var b0 int64

func tN(x uint64) string {
	d := int64(x) - b0
	switch {
	case x < 1<<20:
		return vgen.N(x)
	case x == math.MaxUint32:
		return "U32"
	case d >= 0 && d < 1<<24:
		return fmt.Sprintf("(T %d)", d)
	case d < 0 && d > -(1<<24):
		return fmt.Sprintf("(M %d)", -d)
	}
	return vgen.N(x)
}

func iaN(ia uint64) string {
	for i, k := range pool {
		if uint64(k.IA) == ia {
			return fmt.Sprintf("IA%d", i)
		}
	}
	return vgen.N(ia)
}

func revArgs(v revObs) string {
	return strings.Join([]string{iaN(v.IA), vgen.N(v.If), tN(v.Ts), tN(v.TTL), vgen.N(v.ID)}, " ")
}

func revTerm(v revObs) string { return "Build_revoc " + revArgs(v) }

type hist struct {
	sleeping bool
	ops      []op
	base     int64
	out      []obs
	done     bool
}

// emit prints one executed history as a case.
func emit(run *vgen.Run, h *hist) {
	var evs, res []string
	var key []string
	var desc []any
	T := int64(0)
	nontriv := false
	accepted := map[int]bool{}
	anyErr := false
	for i, o := range h.ops {
		if o.Kind == opSleep {
			T += 5
			key = append(key, "sleep")
			desc = append(desc, "sleep 5s")
			run.Tally("op:sleep")
			continue
		}
		now := tN(uint64(h.base + T))
		ob := h.out[i]
		anyErr = anyErr || ob.Err
		switch o.Kind {
		case opInsert:
			rv := revOf(o.rev(h.base))
			evs = append(evs, "I "+now+" "+revArgs(rv))
			res = append(res, "RIns "+vgen.B(ob.B))
			if o.Abs {
				key = append(key, fmt.Sprintf("I%d/abs%d+%d/%d", o.Key, o.TsAbs, o.TTLAbs, o.Link))
			} else if o.Long != 0 {
				key = append(key, fmt.Sprintf("I%d/%d+long%d.%d/%d", o.Key, o.TsRel, o.Long, o.Off, o.Link))
				run.Tally("insert:long-lived")
			} else {
				key = append(key, fmt.Sprintf("I%d/%d..%d/%d", o.Key, o.TsRel, o.ExpRel, o.Link))
			}
			d := map[string]any{"insert": o.Key, "ts_rel": o.TsRel, "exp_rel": o.ExpRel, "link": o.Link,
				"t": T, "accepted": ob.B}
			if o.Long != 0 {
				d["ttl"] = rv.TTL
				d["long"] = o.Long
				delete(d, "exp_rel")
			}
			if o.Abs {
				d["abs_ts"], d["abs_ttl"] = o.TsAbs, o.TTLAbs
				delete(d, "ts_rel")
				delete(d, "exp_rel")
			}
			desc = append(desc, d)
			if ob.B {
				run.Tally("insert:accepted")
				if accepted[o.Key] {
					nontriv = true
					run.Tally("insert:replacement")
				}
				accepted[o.Key] = true
			} else {
				run.Tally("insert:rejected")
				nontriv = true
			}
		case opGet:
			k := pool[o.Key]
			evs = append(evs, "G "+now+" "+iaN(uint64(k.IA))+" "+vgen.N(uint64(k.IfID)))
			if ob.Rev != nil {
				res = append(res, "RG "+revArgs(*ob.Rev))
				run.Tally("get:hit")
				desc = append(desc, map[string]any{"get": o.Key, "t": T, "ts_rel": int64(ob.Rev.Ts) - h.base,
					"ttl": ob.Rev.TTL, "link": ob.Rev.ID})
			} else {
				res = append(res, "RGet None")
				run.Tally("get:miss")
				desc = append(desc, map[string]any{"get": o.Key, "t": T, "result": nil})
			}
			key = append(key, fmt.Sprintf("G%d", o.Key))
		case opDel:
			evs = append(evs, "D "+now)
			res = append(res, "RDel "+vgen.N(uint64(ob.N)))
			key = append(key, "D")
			desc = append(desc, map[string]any{"delete_expired": ob.N, "t": T})
			if ob.N > 0 {
				run.Tally("cleanup:nonzero")
			} else {
				run.Tally("cleanup:zero")
			}
		case opAll:
			evs = append(evs, "A "+now)
			res = append(res, "RAll "+vgen.ListOf(ob.All, revTerm))
			key = append(key, "A")
			desc = append(desc, map[string]any{"get_all": len(ob.All), "t": T})
			run.Tally(fmt.Sprintf("getall:%d", len(ob.All)))
		}
	}
	kind := "flat"
	if h.sleeping {
		kind = "sleeping"
	}
	id := run.Add(kind, glit.Rewrite(vgen.App("CHist", vgen.List(evs), vgen.List(res))),
		strings.Join(key, " "), nontriv, map[string]any{"base": h.base, "ops": desc})
	if anyErr {
		run.Violate(id, "memrevcache returned an error", desc)
	}
}

func main() {
	run := vgen.Flags("C31")
	run.Imports = []string{"Model.RevCache"}
	b0 = time.Now().Unix()
	run.Prelude = glit.Rewrite(fmt.Sprintf("Import RevCache.\nDefinition B0 : N := %d.\nDefinition U32 : N := 4294967295.\n"+
		"Definition IA0 : N := %d.\nDefinition IA1 : N := %d.\nDefinition IA2 : N := %d.\n"+
		"Definition T (d : N) : N := B0 + d.\nDefinition M (d : N) : N := B0 - d.\n"+
		"Definition I (t a i ts ttl id : N) : event := (t, Insert (Build_revoc a i ts ttl id)).\n"+
		"Definition G (t a i : N) : event := (t, Get (a, i)).\n"+
		"Definition D (t : N) : event := (t, DeleteExpired).\nDefinition A (t : N) : event := (t, GetAll).\n"+
		"Definition RG (a i ts ttl id : N) : res := RGet (Some (Build_revoc a i ts ttl id)).",
		b0, uint64(pool[0].IA), uint64(pool[1].IA), uint64(pool[2].IA)))
	run.CheckFn = "RevCache.check"
	run.DiagFn = "RevCache.diag"
	run.CaseType = "RevCache.case"
	run.ShardSize = 250
	run.Rule = "histories of 8-30 operations (55% Insert, 23% Get, 8% DeleteExpired, 6% GetAll, sleeps) on a fresh " +
		"memrevcache over 3 interfaces (2 ASes); timestamps from a pool of 10 values (ties), expirations " +
		"already-expired / short / far-future with >= 2 s margin to every instant an operation can run, 4% " +
		"boundary values of the 32-bit fields, 12% very long-lived revocations (TTL 2^32-1, timestamp+TTL = 2^32-1 / 2^32 / 2^32+1 / wrapping to just before now, TTL ~2.6e9..4e9 s) mixed with clean-ups, lookups and older/newer inserts; sleeping histories cross expirations with real 5 s sleeps, half of them shaped as: A and B on different interfaces expiring at +3 / +8 s, clean-up at +5 s, lookups and older inserts on B's interface at +10 s; " +
		"non-trivial = the history contains a rejected insertion or a replacement"
	rng := vgen.NewRand(run.Seed)

	nFlat := run.Count(400, 20000)
	nSleep, maxSleeps := 96, 2
	if run.Tier == "thorough" {
		nSleep, maxSleeps = 600, 5
	}
	if run.N > 0 {
		nSleep = run.N / 8
	}
	hs := make([]*hist, 0, nFlat+nSleep)
	for i := 0; i < nFlat; i++ {
		hs = append(hs, &hist{ops: genHistory(rng.Fork(uint64(i)), false, 0)})
	}
	for i := 0; i < nSleep; i++ {
		r := rng.Fork(uint64(1000000 + i))
		if i%2 == 0 {
			// clean-up between two expirations on different interfaces, then time passes again
			hs = append(hs, &hist{sleeping: true, ops: genShaped(r)})
		} else if i%4 == 1 {
			// a newer short-lived revocation replaces a long-lived one, then expires
			hs = append(hs, &hist{sleeping: true, ops: genShadow(r)})
		} else {
			hs = append(hs, &hist{sleeping: true, ops: genHistory(r, true, maxSleeps)})
		}
	}

	// flat histories: sequential, each within its base second
	for id, h := range hs[:nFlat] {
		if !run.WantID(id) {
			continue
		}
		for attempt := 0; attempt < 5 && !h.done; attempt++ {
			h.base = time.Now().Unix()
			h.out, h.done = execute(h.ops, h.base, false)
		}
	}
	// sleeping histories: all concurrently from a common aligned base; repeat the ones
	// whose timing check failed
	for attempt := 0; attempt < 3; attempt++ {
		var todo []*hist
		for i, h := range hs[nFlat:] {
			if run.WantID(nFlat+i) && !h.done {
				todo = append(todo, h)
			}
		}
		if len(todo) == 0 {
			break
		}
		base := time.Now().Unix() + 1
		time.Sleep(time.Until(time.Unix(base, 0).Add(10 * time.Millisecond)))
		var wg sync.WaitGroup
		for _, h := range todo {
			wg.Add(1)
			go func(h *hist) {
				defer wg.Done()
				h.base = base
				h.out, h.done = execute(h.ops, base, true)
			}(h)
		}
		wg.Wait()
	}
	for id, h := range hs {
		if !run.WantID(id) {
			run.Skip()
			continue
		}
		if !h.done {
			// the machine was too slow three times in a row: no observation
			run.Tally("timing-check-failed")
			run.Skip()
			continue
		}
		emit(run, h)
	}
	run.Finish()
}
