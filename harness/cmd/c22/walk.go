package main

import "verifharness/internal/vgen"

// walkCases adds the router-walk cases (SegIDs used by real border routers hop
// by hop). Filled in once the router hook (router/export_verif.go) is available.
func walkCases(run *vgen.Run, rng *vgen.Rand) {}
