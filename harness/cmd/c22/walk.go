package main

import (
	"fmt"
	"strings"
	"time"

	"verifharness/internal/netgen"
	"verifharness/internal/rtgen"
	"verifharness/internal/vgen"
)

// walkCases adds the router-walk cases: paths of the real combinator over
// beaconed segments (real extender) are walked hop by hop through real border
// routers (netgen: 1-3 routers per AS, sibling links); for every segment slice
// of every delivered walk the SegIDs the routers verified the hop fields with
// are compared with SegID.walk and with the construction-time values
// (SegID.walk_ok) computed from the beaconed segment the slice was cut from.
//
// The SegID a router used for a hop field is read off the packets: in
// construction direction the value the info field carried on arrival (the router
// folds the MAC prefix in only afterwards, at egress), against construction
// direction the value the info field carries when the router is done (it folds
// the prefix in before verifying).
func walkCases(run *vgen.Run, rng *vgen.Rand) {
	nWorlds := run.Count(4, 150)
	perWorld := 8
	if run.Tier == "thorough" {
		perWorld = 30
	}
	now := time.Now().Unix()
	for wi := 0; wi < nWorlds; wi++ {
		r := rng.Fork(uint64(9_000_000 + wi))
		w := netgen.NewWorld(r, wi, now)
		count := 0
		for _, pr := range w.Pairs(r) {
			if count >= perWorld {
				break
			}
			ps, err := w.Paths(r, pr[0], pr[1], 2)
			if err != nil {
				run.Violate(-1, "path construction failed: "+err.Error(), map[string]any{"topology": w.Net.Describe()})
				continue
			}
			for _, p := range ps {
				if count >= perWorld {
					break
				}
				if _, expired, borderline := p.ExpiryMargin(now); expired || borderline {
					continue
				}
				p.SetHosts(r, w.Net)
				s, err := w.Send(p, nil)
				if err != nil || !s.Walk.Delivered() {
					run.Tally("walk:not-delivered")
					continue
				}
				count++
				emitWalk(run, w, p, s)
			}
		}
	}
}

type visit struct {
	inExt, egExt bool
	used         uint16
}

func emitWalk(run *vgen.Run, w *netgen.World, p *netgen.Path, s *netgen.Sent) {
	nh := p.NumHops()
	visits := make([][]visit, nh)
	segOf := func(k int) int { return s.Rec.InfIndexForHF(k) }
	steps := s.Walk.Steps
	for si, st := range steps {
		if st.In == nil || st.Out == nil {
			return
		}
		k := int(st.In.CurrHF)
		delivered := si == len(steps)-1
		xover := (st.Ext && int(st.Out.CurrHF) == k+2) || (!st.Ext && !delivered && int(st.Out.CurrHF) == k+1)
		used := func(h int) uint16 {
			j := segOf(h)
			if st.In.Infos[j].ConsDir {
				return st.In.Infos[j].SegID
			}
			return st.Out.Infos[j].SegID
		}
		if k >= nh {
			return
		}
		visits[k] = append(visits[k], visit{inExt: st.Ing.Kind == rtgen.IngExt, egExt: st.Ext && !xover, used: used(k)})
		if xover && k+1 < nh {
			visits[k+1] = append(visits[k+1], visit{inExt: false, egExt: st.Ext, used: used(k + 1)})
		}
	}
	k := 0
	for j, sl := range p.Slices {
		var hs, impl []string
		multi := false
		for _, h := range sl.Hops {
			var vs, us []string
			for _, v := range visits[k] {
				vs = append(vs, vgen.App("SegID.Build_visit", vgen.B(v.inExt), vgen.B(v.egExt)))
				us = append(us, vgen.N(uint64(v.used)))
			}
			if len(visits[k]) > 1 {
				multi = true
			}
			hs = append(hs, vgen.App("SegID.Build_hopv", fmt.Sprintf("%d%%nat", h.Idx), vgen.B(h.Peer),
				vgen.N(uint64(h.Sigma)), vgen.List(vs)))
			impl = append(impl, fmt.Sprintf("(%d%%nat, %s, %s)", h.Idx, vgen.B(h.Peer), vgen.List(us)))
			k++
		}
		sg := make([]uint64, len(sl.Sigmas))
		for i, x := range sl.Sigmas {
			sg[i] = uint64(x)
		}
		term := vgen.App("SegID.CWalk", vgen.B(sl.ConsDir), vgen.N(uint64(sl.B0)), vgen.NList(sg),
			vgen.N(uint64(sl.SegID0)), vgen.List(hs), vgen.List(impl))
		kind := "full"
		switch {
		case sl.Peer:
			kind = "peering"
		case len(sl.Hops) < len(sl.Sigmas):
			kind = "shortcut"
		}
		run.Tally(fmt.Sprintf("walk:consdir=%v,%s", sl.ConsDir, kind))
		if multi {
			run.Tally("walk:several-routers-in-an-AS")
		}
		desc := map[string]any{
			"topology": w.Net.Describe(), "path": p.Kind(), "slice": j, "consdir": sl.ConsDir, "kind": kind,
			"segment_len": len(sl.Sigmas), "hops": len(sl.Hops),
			"crossed": strings.Join(s.Walk.Crossed(), " "),
		}
		run.Add("walk", term, fmt.Sprintf("%x|%d", s.Raw, j), len(sl.Hops) >= 2 || sl.Peer, desc)
	}
}
