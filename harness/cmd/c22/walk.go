package main

import (
	"fmt"
	"os"
	"strings"
	"time"

	"verifharness/internal/netgen"
	"verifharness/internal/rtgen"
	"verifharness/internal/vgen"
)

// walkCases adds the router-walk cases: paths of the real combinator over
// beaconed segments (real extender) are walked hop by hop through real border
// routers (netgen: 1-3 routers per AS, sibling links); for every segment slice
// of every walk the SegIDs the routers verified the hop fields with are compared
// with SegID.walk and with the construction-time values (SegID.walk_ok) computed
// from the beaconed segment the slice was cut from. A walk of such an honest,
// unexpired path that is NOT delivered is a violation (a SegID out of step makes
// the next MAC check drop the packet); what was observed up to the drop is still
// emitted. The buckets of requiredBuckets must all be filled (runner error otherwise).
//
// The SegID a router used for a hop field is read off the packets: in
// construction direction the value the info field carried on arrival (the router
// folds the MAC prefix in only afterwards, at egress), against construction
// direction the value the info field carries when the router is done (it folds
// the prefix in before verifying).
// Buckets every run has to fill (the property names full segments, shortcuts and
// peering, both directions, and several border routers in one AS).
var walkKinds = []string{"full", "shortcut", "peering"}

func requiredBuckets() []string {
	var out []string
	for _, cd := range []bool{true, false} {
		for _, k := range walkKinds {
			out = append(out, fmt.Sprintf("walk:consdir=%v,%s", cd, k))
		}
		out = append(out, fmt.Sprintf("walk:several-routers-in-an-AS,consdir=%v", cd))
	}
	return out
}

func walkCases(run *vgen.Run, rng *vgen.Rand) {
	nWorlds := run.Count(4, 150)
	perWorld := 8
	minBucket := 2
	if run.Tier == "thorough" {
		perWorld = 30
		minBucket = 20
	}
	// extra worlds are generated only while a required bucket is short; from them only
	// paths that fill such a bucket are used
	maxWorlds := nWorlds + 40
	have := map[string]int{}
	short := func() []string {
		var out []string
		for _, b := range requiredBuckets() {
			if have[b] < minBucket {
				out = append(out, b)
			}
		}
		return out
	}
	undelivered := 0
	now := time.Now().Unix()
	for wi := 0; wi < maxWorlds; wi++ {
		if wi >= nWorlds && len(short()) == 0 {
			break
		}
		r := rng.Fork(uint64(9_000_000 + wi))
		w := netgen.NewWorld(r, wi, now)
		count := 0
		for _, pr := range w.Pairs(r) {
			if (wi >= nWorlds || count >= perWorld) && len(short()) == 0 {
				break
			}
			ps, err := w.Paths(r, pr[0], pr[1], 6)
			if err != nil {
				run.Violate(-1, "path construction failed: "+err.Error(), map[string]any{"topology": w.Net.Describe()})
				continue
			}
			for _, p := range ps {
				if _, expired, borderline := p.ExpiryMargin(now); expired || borderline {
					continue
				}
				p.SetHosts(r, w.Net)
				s, err := w.Send(p, nil)
				if err != nil {
					run.Violate(-1, "cannot send: "+err.Error(), map[string]any{"topology": w.Net.Describe()})
					continue
				}
				wcs := buildWalk(w, p, s)
				if !s.Walk.Delivered() {
					// An honest, unexpired path of the real combinator over beaconed segments must be
					// delivered: a SegID that went out of step makes the next MAC check drop the
					// packet. The SegIDs observed up to the drop are still compared with the model.
					run.Tally("walk:not-delivered")
					undelivered++
					if undelivered <= 25 {
						id := -1
						for _, c := range wcs {
							id = run.Add("walk", c.term, c.key, c.nontrivial, c.desc)
						}
						run.Violate(id, "an honest, unexpired path was not delivered: "+s.Walk.Final.Kind+" "+
							s.Walk.Final.StopDesc+" at "+s.Walk.Final.IA.String(), map[string]any{
							"topology": w.Net.Describe(), "path": p.Kind(), "crossed": strings.Join(s.Walk.Crossed(), " ")})
					}
					continue
				}
				needed := false
				for _, c := range wcs {
					for _, b := range c.buckets {
						if have[b] < minBucket {
							needed = true
						}
					}
				}
				if !needed && (wi >= nWorlds || count >= perWorld) {
					continue
				}
				count++
				for _, c := range wcs {
					for _, b := range c.buckets {
						have[b]++
						run.Tally(b)
					}
					run.Add("walk", c.term, c.key, c.nontrivial, c.desc)
				}
			}
		}
	}
	if miss := short(); len(miss) > 0 && run.N == 0 {
		fmt.Fprintf(os.Stderr, "c22: walk buckets not filled (need %d each): %v; have %v\n", minBucket, miss, have)
		os.Exit(3)
	}
}

type visit struct {
	inExt, egExt bool
	used         uint16
}

type walkCase struct {
	term, key  string
	nontrivial bool
	desc       map[string]any
	buckets    []string
}

// buildWalk turns the steps of a (possibly dropped) walk into one CWalk case per slice.
func buildWalk(w *netgen.World, p *netgen.Path, s *netgen.Sent) []walkCase {
	var out []walkCase
	nh := p.NumHops()
	visits := make([][]visit, nh)
	segOf := func(k int) int { return s.Rec.InfIndexForHF(k) }
	steps := s.Walk.Steps
	for si, st := range steps {
		if st.In == nil || st.Out == nil {
			break // the router that dropped the packet: nothing observable after it
		}
		k := int(st.In.CurrHF)
		delivered := si == len(steps)-1
		xover := (st.Ext && int(st.Out.CurrHF) == k+2) || (!st.Ext && !delivered && int(st.Out.CurrHF) == k+1)
		used := func(h int) uint16 {
			j := segOf(h)
			if st.In.Infos[j].ConsDir {
				return st.In.Infos[j].SegID
			}
			return st.Out.Infos[j].SegID
		}
		if k >= nh {
			break
		}
		visits[k] = append(visits[k], visit{inExt: st.Ing.Kind == rtgen.IngExt, egExt: st.Ext && !xover, used: used(k)})
		if xover && k+1 < nh {
			visits[k+1] = append(visits[k+1], visit{inExt: false, egExt: st.Ext, used: used(k + 1)})
		}
	}
	k := 0
	for j, sl := range p.Slices {
		var hs, impl []string
		multi := false
		for _, h := range sl.Hops {
			var vs, us []string
			for _, v := range visits[k] {
				vs = append(vs, vgen.App("SegID.Build_visit", vgen.B(v.inExt), vgen.B(v.egExt)))
				us = append(us, vgen.N(uint64(v.used)))
			}
			if len(visits[k]) > 1 {
				multi = true
			}
			hs = append(hs, vgen.App("SegID.Build_hopv", fmt.Sprintf("%d%%nat", h.Idx), vgen.B(h.Peer),
				vgen.N(uint64(h.Sigma)), vgen.List(vs)))
			impl = append(impl, fmt.Sprintf("(%d%%nat, %s, %s)", h.Idx, vgen.B(h.Peer), vgen.List(us)))
			k++
		}
		sg := make([]uint64, len(sl.Sigmas))
		for i, x := range sl.Sigmas {
			sg[i] = uint64(x)
		}
		term := vgen.App("SegID.CWalk", vgen.B(sl.ConsDir), vgen.N(uint64(sl.B0)), vgen.NList(sg),
			vgen.N(uint64(sl.SegID0)), vgen.List(hs), vgen.List(impl))
		kind := "full"
		switch {
		case sl.Peer:
			kind = "peering"
		case len(sl.Hops) < len(sl.Sigmas):
			kind = "shortcut"
		}
		buckets := []string{fmt.Sprintf("walk:consdir=%v,%s", sl.ConsDir, kind)}
		if multi {
			buckets = append(buckets, fmt.Sprintf("walk:several-routers-in-an-AS,consdir=%v", sl.ConsDir))
		}
		desc := map[string]any{
			"topology": w.Net.Describe(), "path": p.Kind(), "slice": j, "consdir": sl.ConsDir, "kind": kind,
			"segment_len": len(sl.Sigmas), "hops": len(sl.Hops),
			"crossed": strings.Join(s.Walk.Crossed(), " "),
		}
		out = append(out, walkCase{term, fmt.Sprintf("%x|%d", s.Raw, j), len(sl.Hops) >= 2 || sl.Peer, desc, buckets})
	}
	return out
}
