package main

import (
	"fmt"
	"os"

	seg "github.com/scionproto/scion/pkg/segment"
	"github.com/scionproto/scion/pkg/slayers/path"
	"verifharness/internal/topogen"
	"verifharness/internal/vgen"
)

// extendCases observes the SegID INSIDE the MAC input of the hop fields the real
// beaconing.DefaultExtender.Extend produced (regular hop fields and, the point of
// these cases, the peer hop fields): topologies with many peering links are
// beaconed with the real extender (topogen); for every hop field of every
// resulting segment the 16-bit SegID under which its MAC verifies with the AS's
// forwarding key (real path.MAC) is searched among all 65536 values; the unique
// hit - 65536 if there is none or more than one - is the implementation's value
// of a SegID.CMacIn case. The model recomputes what the extender computes
// (extractBeta over the entries present at extension time, for peer entries
// folded with the new hop's MAC prefix), the oracle is the construction-time
// value SegID.construction_segid of the finished segment.
func extendCases(run *vgen.Run, rng *vgen.Rand) {
	nTopo := run.Count(3, 60)
	perTopo := 5
	if run.Tier == "thorough" {
		perTopo = 40
	}
	have := map[string]int{}
	for ti := 0; ti < nTopo+30; ti++ {
		if ti >= nTopo && have["macin:peer-entry-2nd-or-later"] >= 2 && have["macin:peer-entry-1st"] >= 2 {
			break
		}
		r := rng.Fork(uint64(8_000_000 + ti))
		topo := topogen.Generate(r, topogen.Options{PeerChance: 85, MinAS: 4, MaxAS: 8})
		segs := topo.Segments(r, topogen.BeaconOptions{MaxLen: vgen.Pick(r, 3, 4, 5), RandomExp: r.Chance(1, 2)})
		var all []*seg.PathSegment
		for _, a := range topo.ASes {
			all = append(all, segs.Intra[a.IA]...)
		}
		all = append(all, segs.Core...)
		vgen.Shuffle(r, all)
		// segments with several peer entries in one AS entry first
		count := 0
		for pass := 0; pass < 2; pass++ {
			for _, ps := range all {
				multi := false
				for _, e := range ps.ASEntries {
					if len(e.PeerEntries) >= 2 {
						multi = true
					}
				}
				if (pass == 0) != multi || count >= perTopo || (ti >= nTopo && !multi) {
					continue
				}
				count++
				emitSegment(run, topo, ps, have)
			}
		}
	}
	if run.N == 0 && (have["macin:peer-entry-2nd-or-later"] == 0 || have["macin:peer-entry-1st"] == 0 || have["macin:regular"] == 0) {
		fmt.Fprintf(os.Stderr, "c22: extender cases: a bucket is empty: %v\n", have)
		os.Exit(3)
	}
}

func emitSegment(run *vgen.Run, topo *topogen.Topology, ps *seg.PathSegment, have map[string]int) {
	sg := make([]uint64, len(ps.ASEntries))
	for i, e := range ps.ASEntries {
		sg[i] = uint64(sigma16(e.HopEntry.HopField.MAC))
	}
	ts := uint32(ps.Info.Timestamp.Unix())
	b0 := ps.Info.SegmentID
	for i, e := range ps.ASEntries {
		a := topo.AS(e.Local)
		if a == nil {
			run.Violate(-1, "segment entry of an unknown AS", map[string]any{"ia": e.Local.String()})
			continue
		}
		find := func(hf seg.HopField) uint64 {
			h := a.Extender(0).MAC()
			phf := path.HopField{ConsIngress: hf.ConsIngress, ConsEgress: hf.ConsEgress, ExpTime: hf.ExpTime}
			buf := make([]byte, path.MACBufferSize)
			hit, n := uint64(65536), 0
			for x := 0; x < 65536; x++ {
				if path.MAC(h, path.InfoField{SegID: uint16(x), Timestamp: ts}, phf, buf) == hf.MAC {
					hit = uint64(x)
					n++
				}
			}
			if n != 1 {
				return 65536
			}
			return hit
		}
		add := func(peer bool, j int, hf seg.HopField) {
			bucket := "macin:regular"
			if peer && j == 0 {
				bucket = "macin:peer-entry-1st"
			} else if peer {
				bucket = "macin:peer-entry-2nd-or-later"
			}
			have[bucket]++
			if !run.Want() {
				run.Skip()
				return
			}
			impl := find(hf)
			run.Tally(bucket)
			desc := map[string]any{"segment_len": len(sg), "entry": i, "peer_entry": peer, "peer_index": j,
				"as": e.Local.String(), "impl": impl}
			run.Add("extend-mac-input", vgen.App("SegID.CMacIn", vgen.N(uint64(b0)), vgen.NList(sg),
				fmt.Sprintf("%d%%nat", i), vgen.B(peer), vgen.N(impl)),
				fmt.Sprintf("%d|%v|%d|%v|%d|%x", b0, sg, i, peer, j, hf.MAC), peer || i >= 1, desc)
		}
		add(false, 0, e.HopEntry.HopField)
		for j, pe := range e.PeerEntries {
			add(true, j, pe.HopField)
		}
	}
}

func sigma16(m [path.MacLen]byte) uint16 { return uint16(m[0])<<8 | uint16(m[1]) }
