// Runner for C22: the SegID accumulator. Drives the real extractBeta
// (control/beaconing), calculateBeta (private/path/combinator) and — in the
// walk cases — the SegID updates of real border routers.
package main

import (
	"encoding/binary"
	"fmt"

	"github.com/scionproto/scion/control/beaconing"
	seg "github.com/scionproto/scion/pkg/segment"
	"github.com/scionproto/scion/private/path/combinator"
	"verifharness/internal/vgen"
)

func mkSeg(b0 uint16, sg []uint16, r *vgen.Rand) *seg.PathSegment {
	ps := &seg.PathSegment{Info: seg.Info{SegmentID: b0}}
	for _, s := range sg {
		var e seg.ASEntry
		binary.BigEndian.PutUint16(e.HopEntry.HopField.MAC[:2], s)
		copy(e.HopEntry.HopField.MAC[2:], r.Bytes(4))
		ps.ASEntries = append(ps.ASEntries, e)
	}
	return ps
}

func u16s(xs []uint16) []uint64 {
	o := make([]uint64, len(xs))
	for i, x := range xs {
		o[i] = uint64(x)
	}
	return o
}

func main() {
	run := vgen.Flags("C22")
	run.Imports = []string{"Model.SegID"}
	run.CheckFn = "SegID.check"
	run.DiagFn = "SegID.diag"
	run.CaseType = "SegID.case"
	run.Rule = "calculateBeta: every (length 1..8 and sampled up to 64, shortcut, peer, direction) with random MAC prefixes; " +
		"extractBeta: random segments of length 0..64; extend-mac-input: the SegID under which the MAC of every hop field " +
		"(regular and peer entries) of segments beaconed with the real extender verifies (see extend.go); walk: SegIDs used by real routers along generated paths " +
		"(see walk.go); non-trivial = length >= 2 or a peering/shortcut entry"
	rng := vgen.NewRand(run.Seed)

	// calculateBeta: all small shapes exhaustively, larger ones sampled
	lens := []int{1, 2, 3, 4, 5, 6, 7, 8}
	extra := run.Count(6, 200)
	for i := 0; i < extra; i++ {
		lens = append(lens, rng.Range(9, 64))
	}
	for _, n := range lens {
		for sc := 0; sc < n; sc++ {
			if n > 8 && sc != 0 && sc != n-1 && sc != n/2 {
				continue
			}
			for _, peer := range []int{0, 1, 2} {
				for _, down := range []bool{true, false} {
					r := rng.Fork(uint64(n*100000 + sc*100 + peer*2))
					sg := make([]uint16, n)
					for k := range sg {
						sg[k] = uint16(r.U64())
					}
					b0 := uint16(r.U64())
					if !run.Want() {
						run.Skip()
						continue
					}
					ps := mkSeg(b0, sg, r)
					var res uint16
					panicked, msg := vgen.Recover(func() {
						res = combinator.VerifCalculateBeta(ps, down, sc, peer)
					})
					desc := map[string]any{"len": n, "shortcut": sc, "peer": peer, "down": down, "impl": res}
					if panicked {
						// index == len for a peering entry at the last AS entry of a down segment cannot occur
						// in a real graph (the peer hop needs a following hop); skip silently only there.
						if down && peer != 0 && sc == n-1 {
							run.Skip()
							continue
						}
						id := run.Add("calc-beta", vgen.App("SegID.CBeta", vgen.N(uint64(b0)), vgen.NList(u16s(sg)),
							vgen.B(down), fmt.Sprintf("%d%%nat", sc), vgen.B(peer != 0), "65536"),
							fmt.Sprint(n, sc, peer, down), true, desc)
						run.Violate(id, "calculateBeta panicked: "+msg, desc)
						continue
					}
					run.Tally(fmt.Sprintf("calc:down=%v,peer=%v", down, peer != 0))
					run.Add("calc-beta", vgen.App("SegID.CBeta", vgen.N(uint64(b0)), vgen.NList(u16s(sg)),
						vgen.B(down), fmt.Sprintf("%d%%nat", sc), vgen.B(peer != 0), vgen.N(uint64(res))),
						fmt.Sprint(b0, sg, sc, peer, down), n >= 2 || peer != 0, desc)
				}
			}
		}
	}
	// extractBeta
	ne := run.Count(100, 5000)
	for i := 0; i < ne; i++ {
		r := rng.Fork(uint64(7000000 + i))
		n := r.Range(0, 64)
		if i < 10 {
			n = i
		}
		sg := make([]uint16, n)
		for k := range sg {
			sg[k] = uint16(r.U64())
		}
		b0 := uint16(r.U64())
		if !run.Want() {
			run.Skip()
			continue
		}
		res := beaconing.VerifExtractBeta(mkSeg(b0, sg, r))
		run.Add("extract-beta", vgen.App("SegID.CExtract", vgen.N(uint64(b0)), vgen.NList(u16s(sg)), vgen.N(uint64(res))),
			fmt.Sprint(b0, sg), n >= 2, map[string]any{"len": n, "impl": res})
	}
	extendCases(run, rng)
	walkCases(run, rng)
	run.Finish()
}
