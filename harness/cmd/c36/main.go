// Runner for C36: SignerGen.Generate over the real sqlite trust DB (key rings
// of 1-3 keys, chain sets, TRC / grace-period timelines), then Signer.Sign and
// Verifier.Verify (bound to the signer's ISD-AS and to another one) on every
// generated signer; Signer.validate on exact expiry boundaries.
package main

import (
	"context"
	"crypto"
	"crypto/ecdsa"
	"crypto/elliptic"
	"crypto/rand"
	"crypto/x509"
	"errors"
	"fmt"
	"net"
	"time"

	"github.com/scionproto/scion/pkg/addr"
	"github.com/scionproto/scion/pkg/scrypto/cppki"
	"github.com/scionproto/scion/pkg/scrypto/signed"
	"github.com/scionproto/scion/private/storage/db"
	"github.com/scionproto/scion/private/storage/trust/sqlite"
	"github.com/scionproto/scion/private/trust"
	"verifharness/internal/pkigen"
	"verifharness/internal/vgen"
)

const (
	iaCore  = "1-ff00:0:110"
	iaAS    = "1-ff00:0:111"
	iaOther = "1-ff00:0:112"
)

type recurser struct{}

func (recurser) AllowRecursion(net.Addr) error { return errors.New("no recursion") }

type router struct{}

func (router) ChooseServer(context.Context, addr.ISD) (net.Addr, error) {
	return &net.UDPAddr{IP: net.IPv4(127, 0, 0, 1), Port: 30252}, nil
}

type fetcher struct{}

func (fetcher) Chains(context.Context, trust.ChainQuery, net.Addr) ([][]*x509.Certificate, error) {
	return nil, errors.New("no network")
}
func (fetcher) TRC(context.Context, cppki.TRCID, net.Addr) (cppki.SignedTRC, error) {
	return cppki.SignedTRC{}, errors.New("no network")
}

type keyRing []crypto.Signer

func (k keyRing) PrivateKeys(context.Context) ([]crypto.Signer, error) { return k, nil }

var dbSeq int

func newDB() sqlite.DB {
	dbSeq++
	d, err := sqlite.New(fmt.Sprintf("verif_c36_%d_%d", time.Now().UnixNano(), dbSeq),
		&db.SqliteConfig{InMemory: true})
	if err != nil {
		panic(err)
	}
	return d
}

func main() {
	run := vgen.Flags("C36")
	run.Imports = []string{"Model.PKIChain", "Model.SignerGen"}
	run.CheckFn = "SignerGen.check"
	run.DiagFn = "SignerGen.diag"
	run.CaseType = "SignerGen.case"
	run.ShardSize = 100
	run.Rule = "gen: key ring of 1-3 keys (P-256; sometimes ed25519 = no key id, P-224 = no signature algorithm), " +
		"1-3 TRCs with a root rotation, latest TRC valid / in grace (predecessor present, missing or expired) / expired / " +
		"future / with a grace period that outlasts its validity, 0-6 chains per case (old, new or foreign root; NotAfter " +
		"from a small set so that ties occur, varying NotBefore; pairs of a later-expiring non-verifying and an earlier-expiring verifying chain for one key in both row orders; expired, future, other ISD-AS, restricted usages, corrupted), optional " +
		"ExtKeyUsage filter; every signer then signs and the message is verified with a Verifier bound to its ISD-AS and " +
		"to another one; sign: Signer.validate on and around the expiry; non-trivial = Generate reaches bestForKey"
	rng := vgen.NewRand(run.Seed)
	coverSanity(run)
	ng := run.Count(260, 6000)
	for i := 0; i < ng; i++ {
		genCase(run, rng.Fork(uint64(i)), i)
	}
	ns := run.Count(40, 400)
	t0 := time.Unix(1900000000, 0).UTC()
	for i := 0; i < ns; i++ {
		r := rng.Fork(uint64(800000 + i))
		exp := t0.Add(time.Duration(r.Range(-5, 5)) * time.Hour)
		now := exp.Add(time.Duration(r.Range(-2, 2)) * time.Second)
		if r.Chance(1, 4) {
			now = exp.Add(time.Duration(r.Range(-3, 3)) * time.Nanosecond)
			now = now.Truncate(time.Second) // keep whole seconds for the model
		}
		if !run.Want() {
			run.Skip()
			continue
		}
		s := trust.Signer{Expiration: exp}
		ok := s.VerifValidate(now) == nil
		run.Tally(fmt.Sprintf("validate:%v", ok))
		term := fmt.Sprintf("(SignerGen.CSign (%d)%%Z (%d)%%Z %s)", exp.Unix()-t0.Unix(), now.Unix()-t0.Unix(), vgen.B(ok))
		run.Add("sign", term, term, true, map[string]any{"expiry": exp.Unix() - t0.Unix(), "now": now.Unix() - t0.Unix(), "ok": ok})
	}
	run.Finish()
}

var naChoices = []int{3, 24, 48, 48, 72, 24 * 20}

func genCase(run *vgen.Run, r *vgen.Rand, idx int) {
	// ---- description
	nTRC := r.Range(1, 3)
	rotateAt := r.Range(2, 4)
	if nTRC >= 2 && r.Bool() {
		rotateAt = nTRC
	}
	latestState := []int{0, 1, 2, 3, 4, 5, 5, 5, 6, 7, 8, 9}[r.Intn(12)] // 0..5 valid (grace per graceState), 6 expired, 7 future, 8,9 grace outlasts validity
	graceState := []int{0, 0, 1, 1, 2, 3}[r.Intn(6)] // 0,1 in grace, 2 grace over, 3 zero grace
	latestNA := vgen.Pick(r, 3, 24, 24*30, 24*30)
	predNA := vgen.Pick(r, -3, 5, 24*30, 24*30) // predecessor may have expired or end soon
	dropPred := r.Chance(1, 10)
	nKeys := r.Range(1, 3)
	keyKind := make([]int, nKeys) // 0 P-256, 1 ed25519, 2 P-224
	for j := range keyKind {
		keyKind[j] = []int{0, 0, 0, 0, 0, 0, 1, 2}[r.Intn(8)]
		if idx%3 != 0 && keyKind[j] == 2 {
			keyKind[j] = 0
		}
	}
	type chainSpec struct {
		key, rootIdx, state, na, mut int
		nbOff                       int // hours subtracted from the default NotBefore (varies the DB row order)
		ia                          string
	}
	nChains := r.Range(0, 6)
	if nChains == 0 && r.Bool() {
		nChains = 3
	}
	latestRoot, predRoot := 0, 0
	if nTRC >= rotateAt {
		latestRoot = 1
	}
	if nTRC-1 >= rotateAt {
		predRoot = 1
	}
	chains := make([]chainSpec, nChains)
	for j := range chains {
		cs := chainSpec{key: r.Intn(nKeys), rootIdx: r.Intn(2), na: vgen.Pick(r, naChoices...), ia: iaAS}
		switch r.Intn(8) {
		case 0:
			cs.rootIdx = 2
		case 1, 2, 3:
			cs.rootIdx = latestRoot
		case 4:
			cs.rootIdx = predRoot
		}
		if r.Chance(1, 6) {
			cs.state = r.Range(1, 2)
		}
		if r.Chance(1, 10) {
			cs.ia = iaOther
		}
		if r.Chance(1, 6) {
			cs.mut = r.Range(1, 4)
		}
		cs.nbOff = r.Intn(6) * 24
		chains[j] = cs
	}
	// a later-expiring chain that does not verify against the TRC being tried next to an
	// earlier-expiring one that does, for the same key, in both DB row orders and insertion orders
	if r.Chance(1, 3) {
		badRoot := vgen.Pick(r, 1-latestRoot, 2)
		good := chainSpec{key: 0, rootIdx: latestRoot, na: vgen.Pick(r, 3, 24, 48), ia: iaAS, nbOff: r.Intn(6) * 24}
		bad := chainSpec{key: 0, rootIdx: badRoot, na: vgen.Pick(r, 72, 24*20), ia: iaAS, nbOff: r.Intn(6) * 24}
		if r.Bool() {
			bad.nbOff, good.nbOff = 24*7, 0 // the non-verifying chain sorts first by NotBefore
		}
		if r.Bool() {
			chains = append(chains, good, bad)
		} else {
			chains = append([]chainSpec{bad, good}, chains...)
		}
	}
	eku := []int{0, 0, 0, 1, 2, 8}[r.Intn(6)]
	if !run.Want() {
		run.Skip()
		return
	}
	// ---- build
	g := pkigen.NewGen()
	origin := time.Now().UTC().Truncate(time.Second)
	a := pkigen.NewAbs(g, origin)
	h := func(n int) time.Time { return origin.Add(time.Duration(n) * time.Hour) }
	wNB, wNA := h(-24*400), h(24*400)
	sens := g.MustIssue(g.Tmpl(pkigen.Sensitive, iaCore, "sens", wNB, wNA), g.NewKey(), nil, nil)
	reg := g.MustIssue(g.Tmpl(pkigen.Regular, iaCore, "reg", wNB, wNA), g.NewKey(), nil, nil)
	roots := make([]*pkigen.Cert, 3)
	cas := make([]*pkigen.Cert, 3)
	for j := range roots {
		roots[j] = g.MustIssue(g.Tmpl(pkigen.Root, iaCore, fmt.Sprintf("root%d", j), wNB, wNA), g.NewKey(), nil, nil)
		cas[j] = g.MustIssue(g.Tmpl(pkigen.CA, iaCore, fmt.Sprintf("ca%d", j), h(-24*300), h(24*300)),
			g.NewKey(), roots[j], nil)
	}
	keys := make([]*pkigen.Key, nKeys)
	var ring keyRing
	var keyT []string
	for j, kk := range keyKind {
		switch kk {
		case 0:
			keys[j] = g.NewKey()
		case 1:
			keys[j] = g.NewEdKey()
		case 2:
			p, err := ecdsa.GenerateKey(elliptic.P224(), rand.Reader)
			if err != nil {
				panic(err)
			}
			keys[j] = &pkigen.Key{Priv: p, Pub: p.Public()}
			g.Keys = append(g.Keys, keys[j])
		}
		ring = append(ring, keys[j].Priv)
		skid := uint64(0)
		if id, err := cppki.SubjectKeyID(keys[j].Pub); err == nil {
			skid = a.H('i', id)
		}
		_, aerr := signed.SelectSignatureAlgorithm(keys[j].Pub)
		keyT = append(keyT, fmt.Sprintf("(SignerGen.mkkey %d %d %s)", a.KeyH(keys[j].Pub), skid, vgen.B(aerr == nil)))
	}
	store := newDB()
	defer store.Close()
	ctx := context.Background()
	var trcT []string
	for sidx := 1; sidx <= nTRC; sidx++ {
		latest := sidx == nTRC
		nb, na := h(-24*(30-sidx)), h(predNA)
		if predNA < 0 {
			nb = h(-24 * 40)
		}
		if sidx < nTRC-1 {
			na = h(24 * 30)
		}
		grace := time.Duration(0)
		if latest {
			na = h(latestNA)
			switch {
			case latestState == 6:
				nb, na = h(-24*20), h(-3)
			case latestState == 7:
				nb, na = h(3), h(24*30)
			case latestState >= 8:
				nb, na, grace = h(-3), h(3), 24*time.Hour
			default:
				switch graceState {
				case 0:
					nb, grace = h(-3), 6*time.Hour
				case 1:
					nb, grace = h(-24), 48*time.Hour
				case 2:
					nb, grace = h(-24), 3*time.Hour
				}
			}
		}
		root := roots[0]
		if sidx >= rotateAt {
			root = roots[1]
		}
		spec := pkigen.TRCSpec{ISD: 1, Base: 1, Serial: uint64(sidx), NB: nb, NA: na,
			Certs: []*pkigen.Cert{sens, reg, root}, Signers: []*pkigen.Cert{sens, reg}}
		if sidx > 1 {
			spec.Grace = grace
			spec.Votes = []int{0}
		}
		t, err := pkigen.MakeTRC(spec)
		if err != nil {
			panic(err)
		}
		if dropPred && sidx == nTRC-1 {
			continue
		}
		if _, err := store.InsertTRC(ctx, t); err != nil {
			panic(err)
		}
		trcT = append(trcT, a.TRC(&t.TRC, 0, 0))
	}
	var chainT []string
	for _, cs := range chains {
		k := keys[cs.key]
		if _, ok := k.Pub.(*ecdsa.PublicKey); !ok {
			continue // no certificates for the ed25519 key
		}
		if k.Pub.(*ecdsa.PublicKey).Curve == elliptic.P224() {
			continue
		}
		nb, na := h(-24*10-cs.nbOff), h(cs.na)
		switch cs.state {
		case 1:
			nb, na = h(-24*10), h(-3)
		case 2:
			nb, na = h(3), h(24*10)
		}
		t := g.Tmpl(pkigen.AS, cs.ia, "as", nb, na)
		switch cs.mut {
		case 1:
			t.ExtKeyUsage = []x509.ExtKeyUsage{x509.ExtKeyUsageTimeStamping}
		case 2:
			t.ExtKeyUsage = []x509.ExtKeyUsage{x509.ExtKeyUsageClientAuth, x509.ExtKeyUsageTimeStamping}
		}
		subj := k
		if cs.mut == 4 { // the key id names the ring key, the certified key is another one
			t.SubjectKeyId = pkigen.SKID(k.Pub)
			subj = g.NewKey()
		}
		c, err := g.Issue(t, subj, cas[cs.rootIdx], nil, false)
		if err != nil {
			panic(err)
		}
		if cs.mut == 3 {
			c = pkigen.Corrupt(c)
		}
		ch := []*x509.Certificate{c.X, cas[cs.rootIdx].X}
		ins, err := store.InsertChain(ctx, ch)
		if err != nil {
			panic(err)
		}
		if ins {
			chainT = append(chainT, a.Certs(ch))
		}
	}
	ia, _ := addr.ParseIA(iaAS)
	iaO, _ := addr.ParseIA(iaOther)
	gen := trust.SignerGen{IA: ia, KeyRing: ring, DB: store, ExtKeyUsage: x509.ExtKeyUsage(eku)}
	before := time.Now()
	var signers []trust.Signer
	var gerr error
	if pn, msg := vgen.Recover(func() { signers, gerr = gen.Generate(ctx) }); pn {
		run.Violate(run.Add("gen", "(SignerGen.CSign 0%Z 0%Z true)", "panic", true, msg), "panic: "+msg, nil)
		return
	}
	prov := trust.FetchingProvider{DB: store, Recurser: recurser{}, Fetcher: fetcher{}, Router: router{}}
	implT := "None"
	var desc []any
	tags := []string{}
	if gerr == nil {
		var l []string
		for _, s := range signers {
			msg, serr := s.Sign(ctx, []byte("verif"))
			v1, v2 := false, false
			if serr == nil {
				_, e1 := trust.Verifier{BoundIA: ia, Engine: prov}.Verify(ctx, msg)
				_, e2 := trust.Verifier{BoundIA: iaO, Engine: prov}.Verify(ctx, msg)
				v1, v2 = e1 == nil, e2 == nil
			}
			l = append(l, fmt.Sprintf("(%d, %s, (%d)%%Z, %s, (%s, %s, %s))", a.KeyH(s.PrivateKey.Public()),
				vgen.NList([]uint64{a.CertID(s.Chain[0]), a.CertID(s.Chain[1])}), a.T(s.Expiration), vgen.B(s.InGrace),
				vgen.B(serr == nil), vgen.B(v1), vgen.B(v2)))
			run.Tally(fmt.Sprintf("signer:grace=%v,sign=%v,verify=%v", s.InGrace, serr == nil, v1))
			desc = append(desc, map[string]any{"grace": s.InGrace, "expiry_h": a.T(s.Expiration) / 3600, "sign": serr == nil,
				"verify": v1, "verify_other": v2})
		}
		implT = "(Some " + vgen.List(l) + ")"
	}
	if latestState >= 8 {
		tags = append(tags, "grace-outlasts-validity")
	}
	for _, cs := range chains {
		if cs.mut == 4 {
			tags = append(tags, "skid-names-other-key")
			break
		}
	}
	run.Tally(fmt.Sprintf("gen:err=%v", gerr != nil))
	term := fmt.Sprintf("(SignerGen.CGen (PKIChain.mkdb %s %s) %d %d %d (%d)%%Z %s %s)", vgen.List(trcT), vgen.List(chainT),
		uint64(ia.ISD()), uint64(ia.AS()), eku, a.T(before), vgen.List(keyT), implT)
	run.Add("gen", term, term, latestState < 6 || latestState >= 8, map[string]any{"nTRC": nTRC, "rotateAt": rotateAt,
		"latestState": latestState, "graceState": graceState, "latestNA": latestNA, "predNA": predNA, "dropPred": dropPred,
		"keys": keyKind, "chains": fmt.Sprint(chains), "eku": eku, "err": gerr != nil, "signers": desc}, tags...)
}

// coverSanity checks the hypothesis of C36_sign_verify_lifetime on the real
// code: a TRC that carries a certificate (here the root) ending before the TRC
// itself is rejected by cppki.TRC.Validate (which Encode and DecodeTRC call), so
// no such TRC can be stored in or read from the trust DB.
func coverSanity(run *vgen.Run) {
	g := pkigen.NewGen()
	t0 := time.Unix(1900000000, 0).UTC()
	h := func(n int) time.Time { return t0.Add(time.Duration(n) * time.Hour) }
	sens := g.MustIssue(g.Tmpl(pkigen.Sensitive, iaCore, "sens", h(-900), h(900)), g.NewKey(), nil, nil)
	reg := g.MustIssue(g.Tmpl(pkigen.Regular, iaCore, "reg", h(-900), h(900)), g.NewKey(), nil, nil)
	short := g.MustIssue(g.Tmpl(pkigen.Root, iaCore, "root", h(-500), h(100)), g.NewKey(), nil, nil)
	late := g.MustIssue(g.Tmpl(pkigen.Root, iaCore, "root", h(-300), h(900)), g.NewKey(), nil, nil)
	for _, root := range []*pkigen.Cert{short, late} {
		_, err := pkigen.MakeTRC(pkigen.TRCSpec{ISD: 1, Base: 1, Serial: 1, NB: h(-400), NA: h(400),
			Certs: []*pkigen.Cert{sens, reg, root}, Signers: []*pkigen.Cert{sens, reg}})
		run.Tally(fmt.Sprintf("trc-cover-rejected:%v", err != nil))
		if err == nil {
			run.Violate(0, "a TRC whose root certificate does not cover the TRC validity was accepted by cppki.TRC.Validate",
				nil, "trc-not-covered")
		}
	}
}
