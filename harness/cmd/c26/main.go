// Runner for C26: beacon selection (baseAlgo.SelectBeacons / selectMostDiverse /
// Beacon.Diversity) on the real control/beacon code, through the exported
// beacon.DefaultSelectionAlgorithm().
package main

import (
	"context"
	"fmt"
	"sort"
	"strings"

	"github.com/scionproto/scion/control/beacon"
	"github.com/scionproto/scion/pkg/addr"
	seg "github.com/scionproto/scion/pkg/segment"
	"verifharness/internal/vgen"
)

type link struct {
	IA   uint64
	IfID uint16
}

var iaPool = []addr.IA{
	addr.MustParseIA("1-ff00:0:110"), addr.MustParseIA("1-ff00:0:111"),
	addr.MustParseIA("2-ff00:0:210"), addr.MustParseIA("2-ff00:0:211"),
}

func genLink(r *vgen.Rand) link {
	return link{IA: uint64(iaPool[r.Intn(len(iaPool))]), IfID: uint16(r.Range(1, 3))}
}

func genLinks(r *vgen.Rand, n int) []link {
	out := make([]link, n)
	for i := range out {
		out[i] = genLink(r)
	}
	return out
}

// genCands draws a candidate list. Most candidates are variations of the first
// one (so that the diversity w.r.t. the first takes every value between 0 and
// its length and ties are frequent); the list is ordered by length unless
// unsorted is drawn.
func genCands(r *vgen.Rand) [][]link {
	n := r.Range(0, 12)
	if r.Chance(1, 10) {
		n = r.Range(0, 3)
	}
	maxLen := r.Range(1, 6)
	minLen := 1
	if r.Chance(1, 2) {
		// nearly equal lengths: the first candidate is long, diversities spread out
		minLen = r.Range(2, 5)
		maxLen = minLen + r.Intn(2)
	}
	cands := make([][]link, 0, n)
	var first []link
	for i := 0; i < n; i++ {
		l := r.Range(minLen, maxLen)
		if r.Chance(1, 40) {
			l = 0
		}
		var c []link
		switch {
		case first == nil || r.Chance(1, 4):
			c = genLinks(r, l)
		default:
			// variation of the first: keep some links, replace others, maybe shuffle
			c = make([]link, l)
			for j := range c {
				if j < len(first) && r.Chance(2, 3) {
					c[j] = first[j]
				} else if len(first) > 0 && r.Chance(1, 4) {
					c[j] = first[r.Intn(len(first))]
				} else {
					c[j] = genLink(r)
				}
			}
		}
		if first == nil {
			first = c
		}
		cands = append(cands, c)
	}
	if !r.Chance(1, 6) {
		sort.SliceStable(cands, func(i, j int) bool { return len(cands[i]) < len(cands[j]) })
	}
	return cands
}

func build(cands [][]link) []beacon.Beacon {
	bs := make([]beacon.Beacon, len(cands))
	for i, c := range cands {
		ps := &seg.PathSegment{}
		for j, l := range c {
			e := seg.ASEntry{Local: addr.IA(l.IA)}
			e.HopEntry.HopField.ConsEgress = l.IfID
			e.HopEntry.HopField.ConsIngress = uint16(j)
			ps.ASEntries = append(ps.ASEntries, e)
		}
		bs[i] = beacon.Beacon{Segment: ps, InIfID: uint16(i + 1)}
	}
	return bs
}

func linksTerm(c []link) string {
	return vgen.ListOf(c, func(l link) string { return vgen.Pair(vgen.N(l.IA), vgen.N(uint64(l.IfID))) })
}

func main() {
	run := vgen.Flags("C26")
	run.Imports = []string{"Model.Select"}
	run.CheckFn = "Select.check"
	run.DiagFn = "Select.diag"
	run.CaseType = "Select.case"
	run.Rule = "candidate lists of 0-12 beacons with 0-6 AS entries (half of the lists with nearly equal lengths), links (IA, ConsEgress) from a pool of " +
		"4 IAs x 3 interfaces, most candidates variations of the first one, ordered by length (1/6 unordered); " +
		"every k in 1..8 for each list plus k = n-1, n, n+1 and a few k <= 0 (outside the property: " +
		"compared with the model only); non-trivial = 1 <= k < n (the diversity decision is reached)"
	rng := vgen.NewRand(run.Seed)
	algo := beacon.DefaultSelectionAlgorithm()

	nl := run.Count(600, 12000)
	for i := 0; i < nl; i++ {
		r := rng.Fork(uint64(i))
		cands := genCands(r)
		n := len(cands)
		ks := []int{1, 2, 3, 4, 5, 6, 7, 8}
		for _, k := range []int{n - 1, n, n + 1} {
			if k > 8 {
				ks = append(ks, k)
			}
		}
		if r.Chance(1, 8) {
			ks = append(ks, 0, -1)
		}
		candT := vgen.ListOf(cands, linksTerm)
		var keyB strings.Builder
		for _, c := range cands {
			fmt.Fprintf(&keyB, "%v;", c)
		}
		for _, k := range ks {
			if !run.Want() {
				run.Skip()
				continue
			}
			bs := build(cands)
			idx := map[*seg.PathSegment]int{}
			for j, b := range bs {
				idx[b.Segment] = j
			}
			var res []beacon.Beacon
			panicked, msg := vgen.Recover(func() { res = algo.SelectBeacons(context.Background(), bs, k) })
			var obsT string
			var obs any
			if panicked {
				obsT = "None"
				obs = "panic: " + msg
			} else {
				ids := make([]uint64, len(res))
				for j, b := range res {
					p, ok := idx[b.Segment]
					if !ok {
						p = 1 << 20 // not one of the candidates
					}
					ids[j] = uint64(p)
				}
				obsT = vgen.Opt(vgen.NList(ids), true)
				obs = ids
			}
			var tags []string
			if k == 1 && n > 1 {
				tags = append(tags, "k1")
			}
			switch {
			case k < 1:
				run.Tally("k<1")
			case n <= k:
				run.Tally("n<=k")
			default:
				run.Tally("n>k")
				if !panicked && len(res) == k {
					if idx[res[k-1].Segment] == k-1 {
						run.Tally("n>k:last=first-remaining")
					} else {
						run.Tally("n>k:last=more-diverse")
					}
				}
			}
			desc := map[string]any{"k": k, "n": n, "cands": fmt.Sprint(cands), "impl": obs}
			id := run.Add("select", vgen.App("Select.CSel", fmt.Sprintf("(%d)%%Z", k), candT, obsT),
				fmt.Sprintf("%d|%s", k, keyB.String()), k >= 1 && k < n, desc, tags...)
			if panicked && k >= 1 {
				run.Violate(id, "SelectBeacons panicked: "+msg, desc, tags...)
			}
		}
	}
	run.Finish()
}
