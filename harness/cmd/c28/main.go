// Runner for C28 and C29: the real combinator.Combine on segment sets produced by
// a mini beaconing (real DefaultExtender) over generated topologies, plus
// perturbed sets, against Model/Combinator.v (code model) and Model/CombSpec.v
// (declarative specification of valid combinations).
//
//	-prop C28   check function Combinator.check28 (default)
//	-prop C29   check function Combinator.check29
package main

import (
	"flag"
	"fmt"
	"strings"
	"time"

	"github.com/scionproto/scion/pkg/addr"
	seg "github.com/scionproto/scion/pkg/segment"
	"github.com/scionproto/scion/pkg/slayers/path/scion"
	"github.com/scionproto/scion/private/path/combinator"

	"verifharness/internal/topogen"
	"verifharness/internal/vgen"
)

// ------------------------------------------------------------------ printing

func hopTerm(h seg.HopField) string {
	return vgen.App("hopN", vgen.N(uint64(h.ConsIngress)), vgen.N(uint64(h.ConsEgress)),
		vgen.N(uint64(h.ExpTime)), vgen.N(mac48(h.MAC[:])))
}

func mac48(m []byte) uint64 {
	var v uint64
	for _, b := range m {
		v = v<<8 | uint64(b)
	}
	return v
}

func segTerm(s *seg.PathSegment) string {
	entries := vgen.ListOf(s.ASEntries, func(a seg.ASEntry) string {
		peers := vgen.ListOf(a.PeerEntries, func(p seg.PeerEntry) string {
			return vgen.App("mkPeer", vgen.N(uint64(p.Peer)), vgen.N(uint64(p.PeerInterface)),
				hopTerm(p.HopField), vgen.N(uint64(p.PeerMTU)))
		})
		return vgen.App("mkAS", vgen.N(uint64(a.Local)), hopTerm(a.HopEntry.HopField),
			vgen.N(uint64(a.HopEntry.IngressMTU)), vgen.N(uint64(a.MTU)), peers)
	})
	return vgen.Pair(fmt.Sprintf("0x%x", s.ID()), vgen.App("mkSeg", vgen.N(uint64(s.Info.Timestamp.Unix())),
		vgen.N(uint64(s.Info.SegmentID)), entries))
}

type obs struct {
	Ifs    []string `json:"ifs"`
	SegLen [3]uint8 `json:"seglen"`
	Exp    int64    `json:"exp_ms"`
	MTU    uint16   `json:"mtu"`
	Weight int      `json:"weight"`
	term   string
	peer   bool
	short  bool
}

func observe(p combinator.Path) (obs, error) {
	var o obs
	var dec scion.Decoded
	if err := dec.DecodeFromBytes(p.SCIONPath.Raw); err != nil {
		return o, err
	}
	ifs := make([]string, len(p.Metadata.Interfaces))
	for i, x := range p.Metadata.Interfaces {
		ifs[i] = vgen.Pair(vgen.N(uint64(x.IA)), vgen.N(uint64(x.ID)))
		o.Ifs = append(o.Ifs, fmt.Sprintf("%s#%d", x.IA, x.ID))
	}
	o.SegLen = dec.PathMeta.SegLen
	infos := make([]string, len(dec.InfoFields))
	for i, f := range dec.InfoFields {
		infos[i] = vgen.App("mkInfo", vgen.N(uint64(f.Timestamp)), vgen.N(uint64(f.SegID)),
			vgen.B(f.ConsDir), vgen.B(f.Peer))
		if f.Peer {
			o.peer = true
		}
	}
	hops := make([]string, len(dec.HopFields))
	for i, h := range dec.HopFields {
		hops[i] = vgen.App("hopN", vgen.N(uint64(h.ConsIngress)), vgen.N(uint64(h.ConsEgress)),
			vgen.N(uint64(h.ExpTime)), vgen.N(mac48(h.Mac[:])))
	}
	// shortcut: a segment is left / entered at a hop that has a construction ingress
	k := 0
	for i, f := range dec.InfoFields {
		n := int(dec.PathMeta.SegLen[i])
		if n > 0 && k+n <= len(dec.HopFields) && !f.Peer {
			if f.ConsDir && dec.HopFields[k].ConsIngress != 0 {
				o.short = true
			}
			if !f.ConsDir && dec.HopFields[k+n-1].ConsIngress != 0 {
				o.short = true
			}
		}
		k += n
	}
	o.Exp = p.Metadata.Expiry.UnixMilli()
	o.MTU = p.Metadata.MTU
	o.Weight = p.Weight
	o.term = vgen.App("mkObs", vgen.List(ifs),
		vgen.NList([]uint64{uint64(o.SegLen[0]), uint64(o.SegLen[1]), uint64(o.SegLen[2])}),
		vgen.List(infos), vgen.List(hops), vgen.N(uint64(o.Exp)), vgen.N(uint64(o.MTU)),
		vgen.N(uint64(o.Weight)))
	return o, nil
}

// ------------------------------------------------------------------ perturbation

func cloneSeg(s *seg.PathSegment) *seg.PathSegment {
	c := &seg.PathSegment{Info: s.Info}
	c.ASEntries = make([]seg.ASEntry, len(s.ASEntries))
	copy(c.ASEntries, s.ASEntries)
	for i := range c.ASEntries {
		c.ASEntries[i].PeerEntries = append([]seg.PeerEntry(nil), s.ASEntries[i].PeerEntries...)
	}
	return c
}

var mtuBoundary = []int{0, 1, 576, 1280, 1500, 9000, 65534, 65535, 65536, 65537, 70000, 131072 + 1400, 1<<31 - 1}

type caseIn struct {
	src, dst          addr.IA
	ups, cores, downs []*seg.PathSegment
	findAll           bool
	notes             []string
	invalid           bool // some segment violates seg.Validate / beaconing invariants on purpose
}

func (c *caseIn) note(f string, a ...any) { c.notes = append(c.notes, fmt.Sprintf(f, a...)) }

func (c *caseIn) lists() []*[]*seg.PathSegment {
	return []*[]*seg.PathSegment{&c.ups, &c.cores, &c.downs}
}

// pickSeg returns a random (list, index) of a non-empty list, or nil.
func (c *caseIn) pickSeg(r *vgen.Rand) (*[]*seg.PathSegment, int) {
	var cand []*[]*seg.PathSegment
	for _, l := range c.lists() {
		if len(*l) > 0 {
			cand = append(cand, l)
		}
	}
	if len(cand) == 0 {
		return nil, 0
	}
	l := cand[r.Intn(len(cand))]
	return l, r.Intn(len(*l))
}

// perturb applies k property-preserving changes (the result is still what a
// path service could hand out: it passes seg.Validate and keeps the beaconing
// invariants): expiries, MTUs, re-originated duplicates, extra peer entries.
func perturb(r *vgen.Rand, c *caseIn, t *topogen.Topology, k int) {
	for ; k > 0; k-- {
		l, i := c.pickSeg(r)
		if l == nil {
			return
		}
		s := cloneSeg((*l)[i])
		(*l)[i] = s
		e := r.Intn(len(s.ASEntries))
		switch r.Intn(7) {
		case 0: // hop expiry
			s.ASEntries[e].HopEntry.HopField.ExpTime = uint8(vgen.Pick(r, 0, 1, 62, 63, 127, 254, 255, r.Intn(256)))
			c.note("exp")
		case 1: // peer hop expiry
			if n := len(s.ASEntries[e].PeerEntries); n > 0 {
				s.ASEntries[e].PeerEntries[r.Intn(n)].HopField.ExpTime = uint8(r.Intn(256))
				c.note("peer-exp")
			}
		case 2: // MTUs
			switch r.Intn(3) {
			case 0:
				s.ASEntries[e].MTU = vgen.Pick(r, mtuBoundary...)
			case 1:
				if e > 0 {
					s.ASEntries[e].HopEntry.IngressMTU = vgen.Pick(r, mtuBoundary...)
				}
			case 2:
				if n := len(s.ASEntries[e].PeerEntries); n > 0 {
					s.ASEntries[e].PeerEntries[r.Intn(n)].PeerMTU = vgen.Pick(r, mtuBoundary...)
				}
			}
			c.note("mtu")
		case 3, 4: // duplicate: same interfaces, other timestamp / expiry / MACs / MTU
			d := cloneSeg(s)
			d.Info.Timestamp = time.Unix(s.Info.Timestamp.Unix()+int64(r.Range(-3000, 3000)), 0)
			d.Info.SegmentID = uint16(r.U64())
			for j := range d.ASEntries {
				copy(d.ASEntries[j].HopEntry.HopField.MAC[:], r.Bytes(6))
				if r.Chance(1, 2) {
					d.ASEntries[j].HopEntry.HopField.ExpTime = uint8(r.Intn(256))
				}
				if r.Chance(1, 4) {
					d.ASEntries[j].MTU = vgen.Pick(r, mtuBoundary...)
				}
			}
			if r.Chance(1, 3) { // exact same expiry profile: a full tie
				for j := range d.ASEntries {
					d.ASEntries[j].HopEntry.HopField.ExpTime = s.ASEntries[j].HopEntry.HopField.ExpTime
				}
				d.Info.Timestamp = s.Info.Timestamp
			}
			*l = append(*l, d)
			c.note("dup")
		case 5: // extra peer entry towards a random AS
			far := t.ASes[r.Intn(len(t.ASes))]
			a := &s.ASEntries[e]
			pe := seg.PeerEntry{
				Peer: far.IA, PeerInterface: uint16(r.Range(1, 60)), PeerMTU: vgen.Pick(r, mtuBoundary...),
				HopField: seg.HopField{ConsIngress: uint16(r.Range(100, 160)), ConsEgress: a.HopEntry.HopField.ConsEgress,
					ExpTime: uint8(r.Intn(256))},
			}
			copy(pe.HopField.MAC[:], r.Bytes(6))
			a.PeerEntries = append(a.PeerEntries, pe)
			c.note("peer+")
		case 6: // a matching pair of extra peer entries on an up and a down segment
			if len(c.ups) == 0 || len(c.downs) == 0 {
				continue
			}
			ui, di := r.Intn(len(c.ups)), r.Intn(len(c.downs))
			u, d := cloneSeg(c.ups[ui]), cloneSeg(c.downs[di])
			c.ups[ui], c.downs[di] = u, d
			ua, da := &u.ASEntries[r.Intn(len(u.ASEntries))], &d.ASEntries[r.Intn(len(d.ASEntries))]
			ifu, ifd := uint16(r.Range(200, 230)), uint16(r.Range(200, 230))
			mk := func(local *seg.ASEntry, lif uint16, far *seg.ASEntry, fif uint16) {
				pe := seg.PeerEntry{Peer: far.Local, PeerInterface: fif, PeerMTU: vgen.Pick(r, mtuBoundary...),
					HopField: seg.HopField{ConsIngress: lif, ConsEgress: local.HopEntry.HopField.ConsEgress,
						ExpTime: uint8(r.Intn(256))}}
				copy(pe.HopField.MAC[:], r.Bytes(6))
				local.PeerEntries = append(local.PeerEntries, pe)
			}
			mk(ua, ifu, da, ifd)
			mk(da, ifd, ua, ifu)
			c.note("peer-pair")
		}
	}
}

// mutate breaks one invariant the combinator does not itself check.
func mutate(r *vgen.Rand, c *caseIn) {
	l, i := c.pickSeg(r)
	if l == nil {
		return
	}
	s := cloneSeg((*l)[i])
	(*l)[i] = s
	c.invalid = true
	n := len(s.ASEntries)
	e := r.Intn(n)
	switch r.Intn(9) {
	case 0:
		s.ASEntries[0].HopEntry.HopField.ConsIngress = uint16(r.Range(1, 9))
		c.note("first-ingress")
	case 1:
		s.ASEntries[n-1].HopEntry.HopField.ConsEgress = uint16(r.Range(1, 9))
		c.note("last-egress")
	case 2: // an AS twice in one segment
		ns := append([]seg.ASEntry(nil), s.ASEntries[:e+1]...)
		s.ASEntries = append(ns, s.ASEntries[e:]...)
		if r.Bool() && e+2 < len(s.ASEntries) {
			s.ASEntries[e+1], s.ASEntries[e+2] = s.ASEntries[e+2], s.ASEntries[e+1]
		}
		c.note("as-twice")
	case 3: // peer entry with a different egress
		if k := len(s.ASEntries[e].PeerEntries); k > 0 {
			s.ASEntries[e].PeerEntries[r.Intn(k)].HopField.ConsEgress += 7
		}
		c.note("peer-egress")
	case 4: // duplicate peer entry (same link announced twice, different hop data)
		if k := len(s.ASEntries[e].PeerEntries); k > 0 {
			pe := s.ASEntries[e].PeerEntries[r.Intn(k)]
			pe.HopField.ExpTime = uint8(r.Intn(256))
			pe.PeerMTU = vgen.Pick(r, mtuBoundary...)
			copy(pe.HopField.MAC[:], r.Bytes(6))
			s.ASEntries[e].PeerEntries = append(s.ASEntries[e].PeerEntries, pe)
		}
		c.note("peer-twice")
	case 5: // interior interface zero
		if r.Bool() {
			s.ASEntries[e].HopEntry.HopField.ConsIngress = 0
		} else {
			s.ASEntries[e].HopEntry.HopField.ConsEgress = 0
		}
		c.note("zero-if")
	case 6: // wrong role: move the segment to another list
		*l = append((*l)[:i], (*l)[i+1:]...)
		other := c.lists()[r.Intn(3)]
		*other = append(*other, s)
		c.note("role")
	case 7: // timestamp beyond uint32
		s.Info.Timestamp = time.Unix(1<<32+int64(r.Intn(100000)), 0)
		c.note("ts-wrap")
	case 8: // truncate to a single entry
		s.ASEntries = s.ASEntries[e : e+1]
		c.note("single-entry")
	}
}

func capList(r *vgen.Rand, l []*seg.PathSegment, n int) []*seg.PathSegment {
	l = append([]*seg.PathSegment(nil), l...)
	vgen.Shuffle(r, l)
	if len(l) > n {
		l = l[:n]
	}
	return l
}

// ------------------------------------------------------------------ main

func main() {
	prop := "C28"
	flag.StringVar(&prop, "prop", "C28", "C28|C29: which check function evaluates the cases")
	run := vgen.Flags("C28")
	run.Prop = prop
	run.Imports = []string{"Model.Segment", "Model.Combinator"}
	run.Prelude = "Import Segment Combinator."
	run.CaseType = "case"
	run.CheckFn = "check28"
	if prop == "C29" {
		run.CheckFn = "check29"
	}
	run.DiagFn = "diag"
	run.ShardSize = 45
	run.Rule = "segment sets from a mini beaconing (real DefaultExtender, real MACs) over random topologies " +
		"(3-10 ASes, 1-3 ISDs, core/parent-child/peering/parallel links; in half of them AS numbers are reused across ISDs), random (src,dst) incl. src=dst and core ASes; " +
		"streams: beaconed | perturbed (expiries, MTUs incl. uint16 wrap, re-originated duplicates, extra/matching peer entries) | " +
		"mutated (one broken invariant: first ingress, last egress, AS twice, peer egress, peer twice, zero interface, wrong role, " +
		"timestamp > uint32, single entry) | boundary (empty lists, empty segment -> panic). " +
		"non-trivial = Combine returned >= 2 paths, or a path with a shortcut or a peering link"

	n := run.Count(270, 6000)
	root := vgen.NewRand(run.Seed)
	var topo *topogen.Topology
	var segs *topogen.Segments
	for i := 0; i < n; i++ {
		r := root.Fork(uint64(i))
		if i%3 == 0 || topo == nil {
			topo = topogen.Generate(r, topogen.Options{SparseIfIDs: r.Chance(1, 4), ReuseASNumbers: r.Chance(1, 2)})
			segs = topo.Segments(r, topogen.BeaconOptions{
				RandomExp: r.Chance(1, 3), Rounds: vgen.Pick(r, 1, 1, 1, 2),
				AnnouncePct: vgen.Pick(r, 100, 100, 70), MaxLen: vgen.Pick(r, 3, 4, 5),
			})
		}
		c := &caseIn{findAll: r.Chance(1, 4)}
		// endpoints
		pickAS := func() *topogen.AS { return topo.ASes[r.Intn(len(topo.ASes))] }
		var leaves []*topogen.AS
		for _, a := range topo.ASes {
			if !a.Core {
				leaves = append(leaves, a)
			}
		}
		s, d := pickAS(), pickAS()
		if len(leaves) > 0 && r.Chance(3, 5) {
			s, d = leaves[r.Intn(len(leaves))], leaves[r.Intn(len(leaves))]
		}
		c.src, c.dst = s.IA, d.IA
		maxU, maxC, maxD := 3, 4, 3
		if run.Tier == "thorough" {
			maxU, maxC, maxD = 5, 8, 5
		}
		c.ups = capList(r, segs.Ups(c.src), maxU)
		c.downs = capList(r, segs.Downs(c.dst), maxD)
		// prefer core segments that can connect the chosen up and down segments
		var rel, other []*seg.PathSegment
		starts, ends := map[addr.IA]bool{c.src: true}, map[addr.IA]bool{c.dst: true}
		for _, u := range c.ups {
			starts[u.FirstIA()] = true
		}
		for _, x := range c.downs {
			ends[x.FirstIA()] = true
		}
		for _, x := range segs.Cores() {
			if starts[x.LastIA()] && ends[x.FirstIA()] {
				rel = append(rel, x)
			} else {
				other = append(other, x)
			}
		}
		c.cores = capList(r, rel, maxC)
		if len(c.cores) < maxC && r.Chance(1, 2) {
			c.cores = append(c.cores, capList(r, other, 1)...)
		}
		kind := "beaconed"
		switch x := r.Intn(20); {
		case x < 8:
		case x < 15:
			kind = "perturbed"
			perturb(r, c, topo, r.Range(1, 4))
		case x < 19:
			kind = "mutated"
			perturb(r, c, topo, r.Range(0, 2))
			mutate(r, c)
			if r.Chance(1, 4) {
				mutate(r, c)
			}
		default:
			kind = "boundary"
			switch r.Intn(5) {
			case 0:
				c.ups = nil
			case 1:
				c.cores = nil
			case 2:
				c.downs = nil
			case 3:
				c.ups, c.cores, c.downs = nil, nil, nil
			case 4:
				if l, j := c.pickSeg(r); l != nil {
					e := cloneSeg((*l)[j])
					e.ASEntries = nil
					(*l)[j] = e
					c.invalid = true
					c.note("empty-segment")
				}
			}
		}
		if !run.Want() {
			run.Skip()
			continue
		}
		// dup-id tally: two segments of the input share the segment ID (sort ties possible)
		ids := map[string]int{}
		for _, l := range c.lists() {
			for _, x := range *l {
				if len(x.ASEntries) > 0 {
					ids[string(x.ID())]++
				}
			}
		}
		for _, k := range ids {
			if k > 1 {
				run.Tally("input:shared-segment-id")
				break
			}
		}
		allValid := true
		for _, l := range c.lists() {
			for _, x := range *l {
				if x.Validate(seg.ValidateSegment) != nil {
					allValid = false
				}
			}
		}
		if allValid {
			run.Tally("input:all-segments-pass-Validate")
		}
		wf := allValid
		for li, l := range c.lists() {
			for _, x := range *l {
				wf = wf && segWF(x, li == 1)
			}
		}
		if wf {
			run.Tally("input:well-formed(C29 oracle applies)")
		}

		var paths []combinator.Path
		panicked, msg := vgen.Recover(func() {
			paths = combinator.Combine(c.src, c.dst, c.ups, c.cores, c.downs, c.findAll)
		})
		desc := map[string]any{
			"src": c.src.String(), "dst": c.dst.String(), "find_all": c.findAll, "notes": strings.Join(c.notes, ","),
			"ups": segStrings(c.ups), "cores": segStrings(c.cores), "downs": segStrings(c.downs),
		}
		implTerm := "None"
		nontrivial := false
		if panicked {
			desc["panic"] = msg
			run.Tally("result:panic")
		} else {
			var os []obs
			terms := make([]string, 0, len(paths))
			bad := false
			for _, p := range paths {
				o, err := observe(p)
				if err != nil {
					run.Violate(i, "returned raw path does not decode: "+err.Error(), desc)
					bad = true
					break
				}
				os = append(os, o)
				terms = append(terms, o.term)
				if o.peer {
					nontrivial = true
				}
				if o.short {
					nontrivial = true
				}
			}
			if bad {
				run.Skip()
				continue
			}
			if len(paths) >= 2 {
				nontrivial = true
			}
			anyPeer, anyShort := false, false
			for _, o := range os {
				anyPeer = anyPeer || o.peer
				anyShort = anyShort || o.short
			}
			if anyPeer {
				run.Tally("result:has-peering-path")
			}
			if anyShort {
				run.Tally("result:has-shortcut-path")
			}
			switch {
			case len(paths) == 0:
				run.Tally("result:0-paths")
			case len(paths) == 1:
				run.Tally("result:1-path")
			case len(paths) <= 5:
				run.Tally("result:2-5-paths")
			default:
				run.Tally("result:6+-paths")
			}
			desc["impl"] = os
			implTerm = "(Some " + vgen.List(terms) + ")"
		}
		if c.findAll {
			run.Tally("find_all:true")
		}
		if sharedASNumber(paths) {
			run.Tally("result:path-through-two-ISD-ASes-with-one-AS-number")
		}
		term := vgen.App("CCombine", vgen.N(uint64(c.src)), vgen.N(uint64(c.dst)),
			vgen.ListOf(c.ups, segTerm), vgen.ListOf(c.cores, segTerm), vgen.ListOf(c.downs, segTerm),
			vgen.B(c.findAll), implTerm)
		run.Tally(fmt.Sprintf("segments:%d", (len(c.ups)+len(c.cores)+len(c.downs)+2)/3*3))
		var tags []string
		run.Add(kind, term, term, nontrivial, desc, tags...)
	}
	run.Finish()
}

// segWF mirrors CombSpec.wf_segment / wf_core minus seg.Validate (tally only).
func segWF(s *seg.PathSegment, core bool) bool {
	n := len(s.ASEntries)
	if n == 0 || (core && n < 2) {
		return false
	}
	seen := map[addr.IA]bool{}
	for i, a := range s.ASEntries {
		if a.Local == 0 || seen[a.Local] {
			return false
		}
		seen[a.Local] = true
		if i > 0 && a.HopEntry.HopField.ConsIngress == 0 {
			return false
		}
		if i < n-1 && a.HopEntry.HopField.ConsEgress == 0 {
			return false
		}
		keys := map[[3]uint64]bool{}
		for _, p := range a.PeerEntries {
			k := [3]uint64{uint64(p.HopField.ConsIngress), uint64(p.Peer), uint64(p.PeerInterface)}
			if keys[k] || p.HopField.ConsIngress == 0 {
				return false
			}
			keys[k] = true
		}
	}
	return true
}

// sharedASNumber: some returned path touches two different ISD-ASes with the same AS number.
func sharedASNumber(paths []combinator.Path) bool {
	for _, p := range paths {
		seen := map[addr.AS]addr.IA{}
		for _, x := range p.Metadata.Interfaces {
			if ia, ok := seen[x.IA.AS()]; ok && ia != x.IA {
				return true
			}
			seen[x.IA.AS()] = x.IA
		}
	}
	return false
}

func segStrings(l []*seg.PathSegment) []string {
	out := make([]string, len(l))
	for i, s := range l {
		if len(s.ASEntries) == 0 {
			out[i] = "<empty>"
			continue
		}
		out[i] = s.String()
	}
	return out
}
