// Runner for C25: beacon reception (beaconing.Handler with the real beacon.Store /
// CoreStore over in-memory sqlite, real ifstate.Interfaces, real Filter) and the
// loop filtering of the Propagator (beaconsPerInterface / shouldIgnore).
package main

import (
	"context"
	"errors"
	"fmt"
	"net"
	"sort"
	"strings"
	"time"

	"github.com/scionproto/scion/control/beacon"
	"github.com/scionproto/scion/control/beaconing"
	"github.com/scionproto/scion/control/ifstate"
	"github.com/scionproto/scion/pkg/addr"
	"github.com/scionproto/scion/pkg/private/xtest/graph"
	cryptopb "github.com/scionproto/scion/pkg/proto/crypto"
	"github.com/scionproto/scion/pkg/scrypto/cppki"
	"github.com/scionproto/scion/pkg/scrypto/signed"
	seg "github.com/scionproto/scion/pkg/segment"
	"github.com/scionproto/scion/pkg/snet"
	snetpath "github.com/scionproto/scion/pkg/snet/path"
	infra "github.com/scionproto/scion/private/segment/verifier"
	"github.com/scionproto/scion/private/storage/beacon/sqlite"
	"github.com/scionproto/scion/private/storage/db"
	"github.com/scionproto/scion/private/topology"
	"verifharness/internal/vgen"
)

type ia struct{ ISD, AS uint64 }

func (a ia) addr() addr.IA   { return addr.MustIAFrom(addr.ISD(a.ISD), addr.AS(a.AS)) }
func (a ia) term() string    { return vgen.Pair(vgen.N(a.ISD), vgen.N(a.AS)) }
func (a ia) String() string  { return fmt.Sprintf("%d-%x", a.ISD, a.AS) }
func iaList(l []ia) string   { return vgen.ListOf(l, ia.term) }
func nList(l []uint64) string { return vgen.NList(l) }

var pool = []ia{
	{1, 0x110}, {1, 0x111}, {1, 0x112}, {2, 0x210}, {2, 0x211}, {3, 0x310}, {3, 0x311},
}

func pickIA(r *vgen.Rand) ia { return pool[r.Intn(len(pool))] }

// genHops draws a hop sequence of length n over the pool; loops are frequent.
func genHops(r *vgen.Rand, n int, mode int) []ia {
	out := make([]ia, 0, n)
	switch mode {
	case 0: // anything
		for i := 0; i < n; i++ {
			out = append(out, pickIA(r))
		}
	case 1: // ISD-wise runs (no ISD loop unless an ISD is drawn twice)
		for len(out) < n {
			isd := uint64(r.Range(1, 3))
			for k := r.Range(1, 3); k > 0 && len(out) < n; k-- {
				var c []ia
				for _, p := range pool {
					if p.ISD == isd {
						c = append(c, p)
					}
				}
				out = append(out, c[r.Intn(len(c))])
			}
		}
	default: // a permutation prefix (no AS loop), grouped by ISD half of the time
		p := append([]ia(nil), pool...)
		vgen.Shuffle(r, p)
		if r.Bool() {
			sort.SliceStable(p, func(i, j int) bool { return p[i].ISD < p[j].ISD })
		}
		for i := 0; i < n; i++ {
			out = append(out, p[i%len(p)])
		}
	}
	return out
}

// ---------------------------------------------------------------- filters

type filt struct {
	MaxHops int
	AsBL    []uint64
	IsdBL   []uint64
	Allow   int // 0 nil, 1 true, 2 false
}

func genFilter(r *vgen.Rand, direct bool) filt {
	f := filt{}
	switch r.Intn(6) {
	case 0:
		f.MaxHops = 0
	case 1:
		f.MaxHops = r.Range(-1, 2)
	default:
		f.MaxHops = r.Range(2, 9)
	}
	if r.Chance(1, 3) {
		for k := r.Range(1, 2); k > 0; k-- {
			f.AsBL = append(f.AsBL, pickIA(r).AS)
		}
	}
	if r.Chance(1, 4) {
		f.IsdBL = append(f.IsdBL, uint64(r.Range(1, 3)))
	}
	f.Allow = r.Intn(3)
	if direct && f.Allow == 0 {
		f.Allow = 1
	}
	return f
}

func (f filt) real() beacon.Filter {
	out := beacon.Filter{MaxHopsLength: f.MaxHops}
	for _, a := range f.AsBL {
		out.AsBlackList = append(out.AsBlackList, addr.AS(a))
	}
	for _, i := range f.IsdBL {
		out.IsdBlackList = append(out.IsdBlackList, addr.ISD(i))
	}
	switch f.Allow {
	case 1:
		t := true
		out.AllowIsdLoop = &t
	case 2:
		t := false
		out.AllowIsdLoop = &t
	}
	return out
}

// term prints the filter; raw = as configured (defaults applied by the model).
func (f filt) term(raw bool) string {
	if raw {
		allow := "None"
		if f.Allow != 0 {
			allow = vgen.Opt(vgen.B(f.Allow == 1), true)
		}
		return vgen.App("BeaconPolicy.mkf", fmt.Sprintf("(%d)%%Z", f.MaxHops), nList(f.AsBL), nList(f.IsdBL), allow)
	}
	return fmt.Sprintf("(BeaconPolicy.Build_bfilter (%d)%%Z %s %s %s)", f.MaxHops, nList(f.AsBL), nList(f.IsdBL),
		vgen.B(f.Allow == 1))
}

// ---------------------------------------------------------------- beacons

type hop struct {
	IA      ia
	In, Eg  uint16
}

type bcn struct {
	HasPeer bool
	PeerAt  int
	PeerIA  ia
	Hops []hop
	Next ia
	TS   int64
	In   uint16
	Sigs []bool
	Kid  uint64
}

func keyOf(hs []hop) string {
	var sb strings.Builder
	for _, h := range hs {
		fmt.Fprintf(&sb, "%d-%x#%d#%d|", h.IA.ISD, h.IA.AS, h.In, h.Eg)
	}
	return sb.String()
}

func (b *bcn) term() string {
	hs := vgen.ListOf(b.Hops, func(h hop) string {
		return fmt.Sprintf("(%s, %d, %d)", h.IA.term(), h.In, h.Eg)
	})
	return fmt.Sprintf("(BeaconPolicy.Build_beacon %s %s (%d)%%Z %d %s %d)", hs, b.Next.term(), b.TS, b.In,
		vgen.ListOf(b.Sigs, vgen.B), b.Kid)
}

var signer = graph.NewSigner()

func (b *bcn) real() beacon.Beacon {
	ps, err := seg.CreateSegment(time.Unix(b.TS, 0), 7)
	if err != nil {
		panic(err)
	}
	for i, h := range b.Hops {
		next := b.Next
		if i+1 < len(b.Hops) {
			next = b.Hops[i+1].IA
		}
		e := seg.ASEntry{Local: h.IA.addr(), Next: next.addr(), MTU: 1400}
		e.HopEntry.HopField = seg.HopField{ConsIngress: h.In, ConsEgress: h.Eg, ExpTime: 63}
		if b.HasPeer && b.PeerAt == i {
			e.PeerEntries = []seg.PeerEntry{{Peer: b.PeerIA.addr(), PeerInterface: 9, PeerMTU: 1400,
				HopField: seg.HopField{ConsIngress: 7, ConsEgress: h.Eg, ExpTime: 63}}}
		}
		if err := ps.AddASEntry(context.Background(), e, signer); err != nil {
			panic(err)
		}
	}
	return beacon.Beacon{Segment: ps, InIfID: b.In}
}

// fakeVerifier answers the i-th Verify call of one HandleBeacon with verdicts[i].
type fakeVerifier struct {
	verdicts []bool
	calls    int
}

func (v *fakeVerifier) Verify(context.Context, *cryptopb.SignedMessage, ...[]byte) (*signed.Message, error) {
	i := v.calls
	v.calls++
	if i < len(v.verdicts) && v.verdicts[i] {
		return nil, nil
	}
	return nil, errors.New("bad signature")
}
func (v *fakeVerifier) WithServer(net.Addr) infra.Verifier         { return v }
func (v *fakeVerifier) WithIA(addr.IA) infra.Verifier              { return v }
func (v *fakeVerifier) WithValidity(cppki.Validity) infra.Verifier { return v }

type intf struct {
	ID   uint16
	Type int
	Nb   ia
}

func intfTerm(l []intf) string {
	return vgen.ListOf(l, func(i intf) string {
		return fmt.Sprintf("(%d, (%d, %s))", i.ID, i.Type, i.Nb.term())
	})
}

func realIntfs(l []intf) *ifstate.Interfaces {
	m := map[uint16]ifstate.InterfaceInfo{}
	for _, i := range l {
		nb := addr.IA(0)
		if i.Nb != (ia{}) {
			nb = i.Nb.addr()
		}
		m[i.ID] = ifstate.InterfaceInfo{ID: i.ID, IA: nb, LinkType: topology.LinkType(i.Type), MTU: 1400}
	}
	return ifstate.NewInterfaces(m, ifstate.Config{})
}

var dbSeq int

func main() {
	run := vgen.Flags("C25")
	run.Imports = []string{"Model.BeaconPolicy"}
	run.CheckFn = "BeaconPolicy.check"
	run.DiagFn = "BeaconPolicy.diag"
	run.CaseType = "BeaconPolicy.case"
	run.Rule = "filter: Filter.Apply / FilterLoop on hop lists of 0-9 IAs from a pool of 7 IAs in 3 ISDs (loops frequent) with " +
		"random max length, AS/ISD block lists, ISD-loop switch, appended neighbour (also the zero IA); " +
		"history: a real Handler + Store/CoreStore (sqlite in memory) + ifstate with 3-6 interfaces of all link types " +
		"receives 4-10 beacons of 1-8 entries (mostly valid by construction; mutations: unknown/child/peer ingress, wrong " +
		"last entry, wrong next, failing signature; 1/4 boundary values of Next / last Local: zero IA, I-0, 0-A, local, neighbour, other; 1/4 with a peer entry; re-sent segment IDs with older/newer timestamps), then the store is " +
		"dumped and Propagator.beaconsPerInterface evaluated for every interface; non-trivial = filter case that reaches " +
		"the loop/block-list decision, history in which at least one beacon is stored and one is rejected"
	rng := vgen.NewRand(run.Seed)
	ctx := context.Background()

	// ---- 1. Filter.Apply / FilterLoop directly
	nf := run.Count(2000, 60000)
	for i := 0; i < nf; i++ {
		r := rng.Fork(uint64(i))
		f := genFilter(r, true)
		hops := genHops(r, r.Range(0, 9), r.Intn(5))
		next := pickIA(r)
		if r.Chance(1, 10) {
			next = ia{}
		}
		allow := r.Bool()
		if !run.Want() {
			run.Skip()
			continue
		}
		b := bcn{}
		for _, h := range hops {
			b.Hops = append(b.Hops, hop{IA: h, In: 1, Eg: 2})
		}
		ps := &seg.PathSegment{}
		for _, h := range hops {
			ps.ASEntries = append(ps.ASEntries, seg.ASEntry{Local: h.addr()})
		}
		rb := beacon.Beacon{Segment: ps, InIfID: 1}
		var okApply, errLoop bool
		nxt := addr.IA(0)
		if next != (ia{}) {
			nxt = next.addr()
		}
		panicked, msg := vgen.Recover(func() {
			okApply = f.real().Apply(rb) == nil
			errLoop = beacon.FilterLoop(rb, nxt, allow) != nil
		})
		desc := map[string]any{"filter": f, "hops": fmt.Sprint(hops), "next": next.String(), "allow": allow,
			"apply_ok": okApply, "loop_err": errLoop}
		run.Tally(fmt.Sprintf("filter:apply=%v", okApply))
		run.Tally(fmt.Sprintf("filter:loop=%v", errLoop))
		id := run.Add("filter", vgen.App("BeaconPolicy.CFilter", f.term(false), iaList(hops), next.term(), vgen.B(allow),
			vgen.B(okApply), vgen.B(errLoop)),
			fmt.Sprint(f, hops, next, allow), len(hops) <= f.MaxHops, desc)
		if panicked {
			run.Violate(id, "filter panicked: "+msg, desc)
		}
	}

	// ---- 2. histories
	nh := run.Count(400, 8000)
	for i := 0; i < nh; i++ {
		r := rng.Fork(uint64(1000000 + i))
		core := r.Bool()
		local := pickIA(r)
		// interfaces
		var ifs []intf
		nif := r.Range(3, 6)
		ids := []uint16{1, 2, 3, 4, 5, 6, 7, 8}
		vgen.Shuffle(r, ids)
		for k := 0; k < nif; k++ {
			t := vgen.Pick(r, 1, 1, 2, 2, 2, 3, 4, 0)
			if core {
				t = vgen.Pick(r, 1, 1, 1, 1, 2, 3, 4, 0)
			}
			nb := pickIA(r)
			if r.Chance(1, 40) {
				nb = ia{}
			}
			ifs = append(ifs, intf{ID: ids[k], Type: t, Nb: nb})
		}
		// policies
		bits := []uint64{8, 1, 2}
		if core {
			bits = []uint64{8, 4}
		}
		fs := make([]filt, len(bits))
		for k := range fs {
			fs[k] = genFilter(r, false)
			if r.Chance(2, 3) {
				fs[k].MaxHops = vgen.Pick(r, 0, 0, 6, 8, 9)
			}
			if r.Chance(1, 2) {
				fs[k].Allow = vgen.Pick(r, 0, 1)
			}
		}
		// history
		n := r.Range(4, 10)
		if r.Chance(1, 60) {
			n = 1
		}
		hist := make([]*bcn, 0, n)
		kids := map[string]uint64{}
		var upIfs []intf
		for _, f := range ifs {
			if f.Type == 1 || f.Type == 2 {
				upIfs = append(upIfs, f)
			}
		}
		base := int64(1700000000)
		for k := 0; k < n; k++ {
			b := &bcn{Next: local, TS: base + int64(r.Intn(6))}
			var in intf
			if len(upIfs) > 0 {
				in = upIfs[r.Intn(len(upIfs))]
			} else {
				in = ifs[r.Intn(len(ifs))]
			}
			b.In = in.ID
			if len(hist) > 0 && r.Chance(1, 4) {
				// same segment ID as an earlier beacon, other timestamp / ingress
				b.Hops = append([]hop(nil), hist[r.Intn(len(hist))].Hops...)
				if r.Bool() {
					for _, f := range ifs {
						if len(b.Hops) > 0 && f.Nb == b.Hops[len(b.Hops)-1].IA {
							b.In = f.ID
						}
					}
				}
			} else {
				l := r.Range(1, 8)
				if r.Chance(1, 2) {
					l = r.Range(1, 3)
				}
				ias := genHops(r, l, vgen.Pick(r, 0, 1, 1, 2, 2, 2, 2, 2))
				last := in.Nb
				if last == (ia{}) {
					last = pickIA(r)
				}
				if !r.Chance(1, 6) {
					// keep the neighbour from closing a loop by accident
					for j := range ias {
						if ias[j] == last {
							ias[j] = ias[l-1]
						}
					}
				}
				ias[l-1] = last
				for j, a := range ias {
					h := hop{IA: a, In: uint16(r.Range(1, 2)), Eg: uint16(r.Range(1, 2))}
					if j == 0 {
						h.In = 0
					}
					b.Hops = append(b.Hops, h)
				}
			}
			// mutations
			if r.Chance(1, 4) {
				switch r.Intn(6) {
				case 0:
					b.In = uint16(r.Range(1, 9)) // any interface, maybe unknown
				case 1:
					b.Hops[len(b.Hops)-1].IA = pickIA(r)
				case 2:
					b.Next = pickIA(r)
				case 3, 4:
					b.Sigs = make([]bool, len(b.Hops))
					for j := range b.Sigs {
						b.Sigs[j] = true
					}
					b.Sigs[r.Intn(len(b.Sigs))] = false
				case 5:
					b.In = ifs[r.Intn(len(ifs))].ID
				}
			}
			// boundary values of the IA-valued fields the handler looks at, on an otherwise untouched beacon:
			// zero IA, wildcard AS (I-0), wildcard ISD (0-A), local IA, neighbour IA, some other IA
			if len(b.Hops) > 0 && r.Chance(1, 4) {
				lastIA := b.Hops[len(b.Hops)-1].IA
				bv := []ia{{}, {lastIA.ISD, 0}, {0, lastIA.AS}, {local.ISD, 0}, {0, local.AS}, local, in.Nb, lastIA, pickIA(r)}
				v := bv[r.Intn(len(bv))]
				if r.Chance(3, 5) {
					b.Next = v
					run.Tally("boundary:next")
				} else {
					// a wildcard Local that equals a (misconfigured) wildcard neighbour would be stored and then
					// fail to unpack; the handler is never given such a beacon (seg.BeaconFromPB)
					if (v.ISD == 0 || v.AS == 0) && v == in.Nb {
						v = pickIA(r)
					}
					b.Hops[len(b.Hops)-1].IA = v
					run.Tally("boundary:local")
				}
			}
			// peer entries are not looked at by the handler: Peer IA = local / neighbour / other
			if len(b.Hops) > 0 && r.Chance(1, 4) {
				pv := []ia{local, in.Nb, pickIA(r), pickIA(r)}
				v := pv[r.Intn(len(pv))]
				if v.ISD == 0 || v.AS == 0 {
					v = pickIA(r)
				}
				b.PeerAt, b.PeerIA = r.Intn(len(b.Hops)), v
				b.HasPeer = true
			}
			if b.Sigs == nil {
				b.Sigs = make([]bool, len(b.Hops))
				for j := range b.Sigs {
					b.Sigs[j] = true
				}
			}
			key := keyOf(b.Hops)
			if _, ok := kids[key]; !ok {
				kids[key] = uint64(len(kids))
			}
			b.Kid = kids[key]
			hist = append(hist, b)
		}
		if r.Chance(1, 80) {
			// a beacon without AS entries (cannot be received; model comparison only)
			z := &bcn{Next: local, TS: base, In: ifs[0].ID}
			key := keyOf(nil)
			if _, ok := kids[key]; !ok {
				kids[key] = uint64(len(kids))
			}
			z.Kid = kids[key]
			hist = append(hist, z)
		}
		// propagation side
		pifs := append([]intf(nil), ifs...)
		if r.Chance(1, 5) {
			k := r.Intn(len(pifs))
			pifs = append(pifs[:k], pifs[k+1:]...)
		}
		if r.Chance(1, 5) {
			pifs[r.Intn(len(pifs))].Nb = pickIA(r)
		}
		allow := r.Bool()

		// every history yields two cases (history, wire): ids nf+2i and nf+2i+1
		if base := nf + 2*i; !run.WantID(base) && !run.WantID(base+1) {
			run.Skip()
			run.Skip()
			continue
		}

		// ---- execute on the real code
		dbSeq++
		backend, err := sqlite.New(fmt.Sprintf("c25_%d_%d", run.Seed, dbSeq), local.addr(), &db.SqliteConfig{InMemory: true})
		if err != nil {
			panic(err)
		}
		mkPol := func(f filt, t beacon.PolicyType) beacon.Policy {
			return beacon.Policy{BestSetSize: 1000, CandidateSetSize: 1000, Filter: f.real(), Type: t}
		}
		var inserter beaconing.BeaconInserter
		var provider beaconing.BeaconProvider
		if core {
			st, err := beacon.NewCoreBeaconStore(beacon.CorePolicies{
				Prop: mkPol(fs[0], beacon.PropPolicy), CoreReg: mkPol(fs[1], beacon.CoreRegPolicy)}, backend)
			if err != nil {
				panic(err)
			}
			inserter, provider = st, st
		} else {
			st, err := beacon.NewBeaconStore(beacon.Policies{
				Prop: mkPol(fs[0], beacon.PropPolicy), UpReg: mkPol(fs[1], beacon.UpRegPolicy),
				DownReg: mkPol(fs[2], beacon.DownRegPolicy)}, backend)
			if err != nil {
				panic(err)
			}
			inserter, provider = st, st
		}
		ver := &fakeVerifier{}
		h := beaconing.Handler{LocalIA: local.addr(), Inserter: inserter, Verifier: ver, Interfaces: realIntfs(ifs)}
		peer := &snet.UDPAddr{IA: addr.MustParseIA("1-ff00:0:1"), Path: snetpath.SCION{}}
		segKid := map[string]uint64{}
		oks := make([]string, len(hist))
		okDesc := make([]any, len(hist))
		anyPanic := ""
		nStoredOK, nRejected := 0, 0
		for k, b := range hist {
			ver.verdicts, ver.calls = b.Sigs, 0
			rb := b.real()
			segKid[fmt.Sprintf("%x", rb.Segment.ID())] = b.Kid
			var herr error
			panicked, msg := vgen.Recover(func() { herr = h.HandleBeacon(ctx, rb, peer) })
			switch {
			case panicked:
				oks[k], okDesc[k] = "None", "panic: "+msg
				if len(b.Hops) > 0 {
					anyPanic = msg
				}
			case herr == nil:
				oks[k], okDesc[k] = "(Some true)", true
				nStoredOK++
			default:
				oks[k], okDesc[k] = "(Some false)", false
				nRejected++
			}
			run.Tally("handle:" + strings.Trim(oks[k], "()"))
		}
		// dump: straight from the table, rows identified by the segment ID (PathSegment.ID of the beacons handed in);
		// GetBeacons would refuse to unpack a stored beacon that is not a well-formed beacon
		type row struct {
			Kid   uint64
			TS    int64
			In    uint16
			Usage int
		}
		var dump []row
		sqlRows, err := backend.DB().ReadOnly.QueryContext(ctx, "SELECT SegID, InfoTime, InIntfID, Usage FROM Beacons")
		if err != nil {
			panic(err)
		}
		for sqlRows.Next() {
			var segID []byte
			var d row
			if err := sqlRows.Scan(&segID, &d.TS, &d.In, &d.Usage); err != nil {
				panic(err)
			}
			kid, ok := segKid[fmt.Sprintf("%x", segID)]
			if !ok {
				kid = 1 << 30
			}
			d.Kid = kid
			dump = append(dump, d)
			run.Tally(fmt.Sprintf("stored:usage=%d", d.Usage))
		}
		if err := sqlRows.Err(); err != nil {
			panic(err)
		}
		_ = sqlRows.Close()
		sort.Slice(dump, func(a, b int) bool { return dump[a].Kid < dump[b].Kid })
		dumpT := vgen.ListOf(dump, func(d row) string {
			return fmt.Sprintf("(%d, (%d)%%Z, %d, %d)", d.Kid, d.TS, d.In, d.Usage)
		})
		// propagation
		pIntfs := realIntfs(pifs)
		p := &beaconing.Propagator{Provider: provider, IA: local.addr(), AllInterfaces: pIntfs, AllowIsdLoop: allow}
		var egress []uint64
		for _, f := range pifs {
			egress = append(egress, uint64(f.ID))
		}
		if r := len(egress); r > 0 {
			sort.Slice(egress, func(a, b int) bool { return egress[a] < egress[b] })
		}
		var targets []*ifstate.Interface
		for _, e := range egress {
			targets = append(targets, pIntfs.Get(uint16(e)))
		}
		var per map[*ifstate.Interface][]beacon.Beacon
		var perr error
		panicked, msg := vgen.Recover(func() { per, perr = p.VerifBeaconsPerInterface(ctx, targets) })
		if panicked {
			anyPanic = msg
		}
		propT := make([]string, 0, len(egress))
		propDesc := map[string]any{}
		nProp, nIgn := 0, 0
		for k, e := range egress {
			if perr != nil || panicked {
				propT = append(propT, fmt.Sprintf("(%d, None)", e))
				continue
			}
			var ks []uint64
			for _, b := range per[targets[k]] {
				var hs []hop
				for _, en := range b.Segment.ASEntries {
					hs = append(hs, hop{IA: ia{uint64(en.Local.ISD()), uint64(en.Local.AS())},
						In: en.HopEntry.HopField.ConsIngress, Eg: en.HopEntry.HopField.ConsEgress})
				}
				kid, ok := kids[keyOf(hs)]
				if !ok {
					kid = 1 << 30
				}
				ks = append(ks, kid)
			}
			sort.Slice(ks, func(a, b int) bool { return ks[a] < ks[b] })
			nProp += len(ks)
			nIgn += len(dump) - len(ks)
			propT = append(propT, fmt.Sprintf("(%d, Some %s)", e, nList(ks)))
			propDesc[fmt.Sprint(e)] = ks
		}
		run.Tally("prop:sent") // count of histories; volumes below
		for k := 0; k < nProp; k++ {
			run.Tally("prop:beacon-sent")
		}
		for k := 0; k < nIgn; k++ {
			run.Tally("prop:beacon-withheld")
		}
		_ = backend.Close()

		polT := make([]string, len(bits))
		for k := range bits {
			polT[k] = vgen.Pair(vgen.N(bits[k]), fs[k].term(true))
		}
		cfgT := fmt.Sprintf("(BeaconPolicy.Build_cfg %s %s %s)", local.term(), intfTerm(ifs), vgen.List(polT))
		histT := vgen.ListOf(hist, func(b *bcn) string { return b.term() })
		var histD []any
		for k, b := range hist {
			histD = append(histD, map[string]any{"hops": keyOf(b.Hops), "next": b.Next.String(), "ts": b.TS, "in": b.In,
				"sigs": b.Sigs, "kid": b.Kid, "ok": okDesc[k]})
		}
		desc := map[string]any{"core": core, "local": local.String(), "ifs": fmt.Sprint(ifs), "filters": fs,
			"hist": histD, "pifs": fmt.Sprint(pifs), "allow": allow, "dump": dump, "prop": propDesc}
		term := vgen.App("BeaconPolicy.CHist", cfgT, histT, intfTerm(pifs), vgen.B(allow), nList(egress),
			vgen.List(oks), dumpT, vgen.List(propT))
		// defect class "loop-through-local-as", from the input: a received beacon that passes the handler's own
		// checks (ingress link, last entry, next, verdicts) loops on the wire (hops ++ local ++ neighbour) on some
		// egress interface although the propagator's check (hops ++ neighbour) lets it pass
		var tags []string
		mkSeg := func(ias []ia) beacon.Beacon {
			ps := &seg.PathSegment{}
			for _, a := range ias {
				ps.ASEntries = append(ps.ASEntries, seg.ASEntry{Local: a.addr()})
			}
			return beacon.Beacon{Segment: ps}
		}
		for _, b := range hist {
			if len(b.Hops) == 0 || b.Next != local {
				continue
			}
			good := true
			for _, v := range b.Sigs {
				good = good && v
			}
			var inIf *intf
			for k := range ifs {
				if ifs[k].ID == b.In {
					inIf = &ifs[k]
				}
			}
			if !good || inIf == nil || (inIf.Type != 1 && inIf.Type != 2) || inIf.Nb != b.Hops[len(b.Hops)-1].IA {
				continue
			}
			var ias []ia
			for _, h := range b.Hops {
				ias = append(ias, h.IA)
			}
			for _, e := range pifs {
				nb := addr.IA(0)
				if e.Nb != (ia{}) {
					nb = e.Nb.addr()
				}
				codeLoop := beacon.FilterLoop(mkSeg(ias), nb, allow) != nil
				wireLoop := beacon.FilterLoop(mkSeg(append(append([]ia(nil), ias...), local)), nb, allow) != nil
				if wireLoop && !codeLoop && len(tags) == 0 {
					tags = append(tags, "loop-through-local-as")
					run.Tally("known:loop-through-local-as")
				}
			}
		}
		id := run.Add("history", term, fmt.Sprint(cfgT, histT, allow), len(dump) > 0 && nRejected > 0, desc)
		// the wire-level part of the property as a case of its own (carries the open finding)
		seenKid := map[uint64]bool{}
		var tbl []string
		for _, b := range hist {
			if seenKid[b.Kid] {
				continue
			}
			seenKid[b.Kid] = true
			var ias []ia
			for _, h := range b.Hops {
				ias = append(ias, h.IA)
			}
			tbl = append(tbl, vgen.Pair(vgen.N(b.Kid), iaList(ias)))
		}
		wterm := vgen.App("BeaconPolicy.CWire", local.term(), vgen.List(tbl), intfTerm(pifs), vgen.B(allow), vgen.List(propT))
		run.Add("wire", wterm, fmt.Sprint(cfgT, histT, allow), nProp > 0,
			map[string]any{"history_case": id, "local": local.String(), "pifs": fmt.Sprint(pifs), "allow": allow, "prop": propDesc,
				"hist": histD}, tags...)
		if anyPanic != "" {
			run.Violate(id, "panic: "+anyPanic, desc)
		}
		if perr != nil {
			run.Violate(id, "beaconsPerInterface failed: "+perr.Error(), desc)
		}
	}
	run.Finish()
}
