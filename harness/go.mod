module verifharness

go 1.26.4

require (
	github.com/gopacket/gopacket v1.6.1
	github.com/prometheus/client_golang v1.22.0
	github.com/scionproto/scion v0.0.0
)

require (
	github.com/beorn7/perks v1.0.1 // indirect
	github.com/cespare/xxhash/v2 v2.3.0 // indirect
	github.com/munnerz/goautoneg v0.0.0-20191010083416-a7dc8b61c822 // indirect
	github.com/opentracing/opentracing-go v1.2.0 // indirect
	github.com/pelletier/go-toml/v2 v2.2.4 // indirect
	github.com/prometheus/client_model v0.6.1 // indirect
	github.com/prometheus/common v0.63.0 // indirect
	github.com/prometheus/procfs v0.16.0 // indirect
	go.uber.org/multierr v1.11.0 // indirect
	go.uber.org/zap v1.27.0 // indirect
	golang.org/x/crypto v0.52.0 // indirect
	golang.org/x/net v0.55.0 // indirect
	golang.org/x/sys v0.45.0 // indirect
	google.golang.org/protobuf v1.36.11 // indirect
)

replace github.com/scionproto/scion => /repo
