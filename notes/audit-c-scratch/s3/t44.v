From Coq Require Import List NArith Bool Lia.
From Scion Require Import Lib.Check Model.Dispatcher.
Import ListNotations. Import Dispatcher.
Local Open Scope N_scope.
Lemma ptr : forall p q, wf_spath p -> reverse_spath p = Some q ->
  sp_chf q = num_hops p - 1 - sp_chf p /\ sp_ci q = num_inf p - 1 - sp_ci p.
Proof.
  intros p q (H1 & H2 & H3 & H4 & H5 & H6) R. unfold reverse_spath in R.
  destruct (num_inf p =? 0) eqn:E; [discriminate|].
  destruct (if num_inf p =? 2 then _ else _) as [[a b] c]. inversion R; subst; cbn.
  assert (num_inf p <= 3) by (unfold num_inf; repeat destruct (_ <? _); lia).
  split.
  - replace (num_hops p + 63 - sp_chf p) with (num_hops p - 1 - sp_chf p + 1 * 64) by lia.
    rewrite N.mod_add by lia. apply N.mod_small. lia.
  - replace (num_inf p + 3 - sp_ci p) with (num_inf p - 1 - sp_ci p + 1 * 4) by lia.
    rewrite N.mod_add by lia. apply N.mod_small. lia.
Qed.
