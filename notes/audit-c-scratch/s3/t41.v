From Coq Require Import List Arith NArith Bool.
From Scion Require Import Lib.Bytes Lib.Check Model.GwFrame Proofs.GwFrameSpec Proofs.GwFrameTop.
Import ListNotations. Import GwFrame.
Definition p1 := big_v4 100.
Definition p2 := [96%N; 0%N; 0%N; 0%N; 0%N; 20%N] ++ repeat 7%N 54.
Definition fs := frames_of 57 3 9 [p1; p2].
Fixpoint inter (l : list bytes) : list rop := match l with [] => [] | f :: t => RFrame f :: RCleanup :: inter t end.
Fixpoint inter2 (l : list bytes) : list rop := match l with [] => [] | f :: t => RFrame f :: RCleanup :: RCleanup :: inter2 t end.
Eval vm_compute in (length fs, length (ingest fs), length (ingest_ops (inter fs)), length (ingest_ops (inter2 fs))).
