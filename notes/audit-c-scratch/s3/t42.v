From Coq Require Import List NArith Bool.
From Coq Require String.
From Scion Require Import Lib.Check Model.PktCls Model.GwRoute Proofs.GwRoute.
Import ListNotations. Import String.StringSyntax. Import GwRoute.
Local Open Scope N_scope.
Definition tb : atoms :=
  [Atom (str "1-0") (Some (1,0)) None None true;
   Atom (str "0-0") (Some (0,0)) None None true;
   Atom (str "10.0.0.0/8") None (Some (Pfx false 167772160 8)) None true;
   Atom (str "10.1.0.0/16") None (Some (Pfx false 167837696 16)) None true;
   Atom (str "10.0.0.1") None None (Some (false,167772161)) true].
Definition p := Policy [Rule AReject (IAM true 1 0) (IAM false 0 0) (NetM [Pfx false 167837696 16; Pfx false 167772160 8] true) None (str "x # y");
                   Rule AAdvertise (IAM false 0 0) (IAM false 0 0) (NetM [Pfx false 167772160 8] false) (Some (false,167772161)) []] AReject.
Eval vm_compute in (tb_ok tb, forallb image_rule (p_rules p)).
Eval vm_compute in (match marshal tb p with Some s => Some (String.string_of_list_ascii (map Ascii.ascii_of_N s), match unmarshal tb s with Ok rs => list_eqb rule_eqb (p_rules p) rs | Err => false end) | None => None end).
