From Coq Require Import String List NArith Bool.
From Scion Require Import Lib.Check Model.AddrFmt.
Import ListNotations. Import AddrFmt.
Local Open Scope N_scope.
Definition l0 := [WithSeparator (s2l "0")].
Eval vm_compute in (format_as l0 10203, parse_formatted_as l0 (format_as l0 10203), in_domain KFAs l0 10203).
Definition la := [WithSeparator (s2l "a")].
Eval vm_compute in (format_as la 0xff0000000110, parse_formatted_as la (format_as la 0xff0000000110)).
Definition ld := [WithSeparator (s2l "-")].
Eval vm_compute in (parse_formatted_ia ld (format_ia ld 0x1ff0000000110)).
