From Coq Require Import String List NArith Bool.
From Scion Require Import Lib.Check Model.AddrFmt Model.PathPol.
Import ListNotations. Import AddrFmt PathPol.
Local Open Scope N_scope.
Eval vm_compute in new_sequence_spec (s2l "1 2 | 3 4").
Eval vm_compute in new_sequence_spec (s2l "1 | 2* 3").
Eval vm_compute in new_sequence_spec (s2l "1 | 2 | 3").
Eval vm_compute in new_sequence_spec (s2l "(1 | 2) 3 | 4").
Eval vm_compute in new_sequence_spec (s2l "1 (2 | 3)+ 4").
Eval vm_compute in new_sequence_spec (s2l "()").
Eval vm_compute in new_sequence_spec (s2l "1 |").
Eval vm_compute in new_sequence_spec (s2l "1-1#1,").
Eval vm_compute in new_sequence_spec (s2l "1-1 #1").
Eval vm_compute in new_sequence_spec (s2l "1#1").
