From Coq Require Import String List NArith Bool.
From Scion Require Import Lib.Check Model.AddrFmt Model.PathPol.
Import ListNotations. Import AddrFmt PathPol.
Local Open Scope N_scope.
Definition ok (s:string) := match new_sequence_spec (s2l s) with SErr => false | _ => true end.
Definition oki (s:string) := match new_sequence_impl (s2l s) with SErr => false | _ => true end.
Eval vm_compute in (ok "((((((((1))))))))", ok "((((1 1)* 1)* 1)* 1)*", ok "1|1|1|1|1|1|1|1|1", ok "1 1 1 1 1 1 1 1 1 1 1 1",
  ok "1?*+?*+?*+?*+", ok "(1|(1|(1|(1|(1|1)))))", ok "((((1?)?)?)?)?", ok "1 (1 (1 (1 (1 (1|1)?)?)?)?)?",
  oki "1|1 1|1 1|1 1|1 1|1 1", ok "1|1 1|1 1|1 1|1 1|1 1").
Eval vm_compute in (new_sequence_spec (s2l "1-1#1 | 2"), new_sequence_spec (s2l "0-0#0"), new_sequence_spec (s2l "1-1#0,0")).
