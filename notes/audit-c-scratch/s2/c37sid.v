From Coq Require Import List NArith ZArith Bool.
From Scion Require Import Lib.Check Model.PKIChain Model.Renewal.
Import ListNotations. Import PKIChain Renewal.
Local Open Scope N_scope.
Definition ia110 := IAOk 1 272.
Definition sens := mkc 4 4 4 4 4 3 true true 4 0 false false false false [8] [1] false false 0 false ia110 ia110 (-900) 900.
Definition reg := mkc 5 5 5 5 5 3 true true 5 0 false false false false [8] [2] false false 0 false ia110 ia110 (-900) 900.
Definition rootA := mkc 1 1 1 1 1 3 true true 1 0 false false true false [8] [3] true true 1 false ia110 ia110 (-500) 500.
Definition ca := mkc 2 2 1 2 1 3 true true 2 1 false false true false [] [] true true 0 false ia110 ia110 (-300) 300.
(* AS certificate with handle 0 *)
Definition asc0 := mkc 0 3 2 3 2 3 true true 3 2 false false false true [1;2;8] [] false false 0 false (IAOk 1 273) ia110 (-200) 200.
Definition trc1 := mkt 1 1 1 1 (-400) 400 0 [sens; reg; rootA] 0 0.
(* r_sid = 0 : "the SignerInfo names no envelope certificate" *)
Definition req0 := mkreq true [ca; asc0] 1 1 0 true true 3 true (IAOk 1 273) 9 9.
Example sid_none_accepted : renewal_verify [trc1] req0 0 = true /\ spec_request_ok [trc1] req0 0 = true.
Proof. vm_compute. split; reflexivity. Qed.
