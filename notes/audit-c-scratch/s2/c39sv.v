From Coq Require Import List NArith ZArith Bool.
From Scion Require Import Lib.Check Lib.Bytes Model.DRKey.
Import ListNotations. Import DRKey.
Local Open Scope N_scope.
(* an SV function blind to protocol and epoch satisfies every C39 theorem (they quantify over all sv),
   yet SCMP and niche-7 keys coincide *)
Example sv_blind_collision :
  let prf := fun (k : key) (i : bytes) => k ++ i in
  let sv := fun (ia p : N) (e : epoch) => [ia] in
  let dur := fun ia : N => Some 60%Z in
  engine_as_host prf sv dur 1 1 1000 1 2 (HIP [7;0;9;9]) =
  engine_as_host prf sv dur 1 7 1000 1 2 (HIP [9;9;0;0]).
Proof. vm_compute. reflexivity. Qed.
