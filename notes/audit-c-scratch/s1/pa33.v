From Scion Require Import Props.C33.
Print Assumptions C33_valid_iff.
Print Assumptions C33_error_names_violated_rule.
Print Assumptions C33_rule_version.
Print Assumptions C33_rule_id.
Print Assumptions C33_rule_validity.
Print Assumptions C33_rule_base_trc.
Print Assumptions C33_rule_quorum.
Print Assumptions C33_rule_enough_voters.
Print Assumptions C33_rule_as_lists.
Print Assumptions C33_rule_classifiable.
Print Assumptions C33_rule_same_isd.
Print Assumptions C33_rule_cover.
Print Assumptions C33_rule_issuer_serial_unique.
Print Assumptions C33_rule_subject_unique.
Print Assumptions C33_no_findia_error.
Print Assumptions C33_oracle_holds_on_model.
Print Assumptions C33_example.
