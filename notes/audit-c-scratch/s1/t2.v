From Coq Require Import List NArith ZArith Bool.
From Scion Require Import Lib.Check Model.PKIChain Model.TrustStore Props.C35.
Import ListNotations.
Import PKIChain TrustStore.
Local Open Scope N_scope.
Definition fut := mkt 99 1 1 4 500 900 0 [] 1 1.
Eval vm_compute in
  (let '(e,l,i,s) := load_trcs 50 [(1, FTRC (Ex.t 2 1)); (2, FTRC fut); (3, FTRC (Ex.t 3 1)); (4, FBad); (5, FTRC (Ex.t 4 1))] [Ex.t 1 1] [] [] in (e,l,i,map t_serial s)).
