From Coq Require Import List NArith ZArith Bool.
From Scion Require Import Lib.Check Model.PKIChain Model.SignerGen Props.C36.
Import ListNotations.
Import PKIChain SignerGen.
Local Open Scope N_scope.
(* root expires at 100, before chain (200) and TRC (400) *)
Definition rootA' := mkc 1 1 1 1 1 3 true true 1 0 false false true false [8] [3] true true 1 false Ex.ia110 Ex.ia110 (-500) 100.
Definition trc1' := mkt 1 1 1 1 (-400) 400 0 [Ex.sens; Ex.reg; rootA'] 0 0.
Definition d' := mkdb [trc1'] [[Ex.asc; Ex.ca]].
Eval vm_compute in
 (match signer_gen d' 1 273 0 50 [Ex.k] with
   | Some [s] => Some (s_expiry s, s_grace s, sign_ok s 150, verifier_ok d' 1 273 s 1 273 50, verifier_ok d' 1 273 s 1 273 150)
   | _ => None end).
