From Scion Require Import Props.C34.
Print Assumptions C34_chain_iff.
Print Assumptions C34_accepted_only_if.
Print Assumptions C34_class_rules.
Print Assumptions C34_verify_any.
Print Assumptions C34_provider.
Print Assumptions C34_provider_spec.
Print Assumptions C34_provider_inactive.
Print Assumptions C34_oracle_verify_holds_on_model.
Print Assumptions C34_oracle_provider_holds_on_model.
Print Assumptions C34_example.
