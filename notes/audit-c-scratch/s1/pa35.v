From Scion Require Import Props.C35.
Print Assumptions C35_in_order.
Print Assumptions C35_in_order_ids.
Print Assumptions C35_nothing_to_do.
Print Assumptions C35_base_mismatch.
Print Assumptions C35_no_regress.
Print Assumptions C35_chain_invariant.
Print Assumptions C35_scripted_instance.
Print Assumptions C35_future_ignored.
Print Assumptions C35_oracle_history_holds_on_model.
Print Assumptions C35_oracle_load_holds_on_model.
Print Assumptions C35_latest_is_greatest.
Print Assumptions C35_example.
