From Scion Require Import Props.C36.
Print Assumptions C36_backed_latest_expiring_expiry.
Print Assumptions C36_backed_spec.
Print Assumptions C36_prefers_active.
Print Assumptions C36_expired_fails.
Print Assumptions C36_sign_verify.
Print Assumptions C36_oracle_holds_on_model.
Print Assumptions C36_example.
