From Coq Require Import List NArith Bool.
From Scion Require Import Lib.Check Model.BFD.
Import ListNotations. Import BFD.
Local Open Scope N_scope.
Definition ops4 := [SendA; SendB; DelivAB; DelivBA].
Fixpoint seqs (n : nat) : list (list pop) :=
  match n with O => [[]] | S k => flat_map (fun s => map (fun o => o :: s) ops4) (seqs k) end.
Definition q := let p := prun (pinit 7 9) [SendA; DropAB; SendB; DelivBA; TimeoutA; SendA; SendA; TimeoutB] in prun p (flush p ++ rounds 3).
Definition bothup (p : pair) := st_eqb (local (sa p)) Up && st_eqb (local (sb p)) Up.
Eval vm_compute in (forallb (fun s => bothup (prun q s)) (seqs 7)).
(* without flush: stale in-flight packets *)
Definition p0 := prun (pinit 7 9) [SendA; SendB; SendA; SendB].
Definition q0 := prun p0 (rounds 3).
Eval vm_compute in (local (sa q0), local (sb q0), length (ab q0), length (ba q0)).
Eval vm_compute in (let r := prun q0 (flush q0) in (local (sa r), local (sb r))).
