From Coq Require Import List NArith Bool.
From Scion Require Import Lib.Check Model.Router Model.Network Model.Prov Model.RouterEpic Model.NetWalk.
Import ListNotations.
Import Scion.Model.Router.Router Network Prov.
Module MNW := Scion.Model.NetWalk.NetWalk.
Module EPIC := Scion.Model.RouterEpic.RouterEpic.
Local Open Scope N_scope.
Definition full (k s ts e i g : N) : list N := [k; s; ts; e; i; g; 1;2;3;4;5;6;7;8;9;10].
Definition ex_topo : topology :=
  [ mkAs 10 7 2 [mkNif 1 Child 20 1 0 true; mkNif 2 Child 30 1 1 true] [] 0 0;
    mkAs 20 8 1 [mkNif 1 Parent 10 1 0 true] [] 0 0;
    mkAs 30 9 1 [mkNif 1 Parent 10 2 0 true] [] 0 0 ].
Definition toy k s ts e i g := firstn 6 (full k s ts e i g).
Definition ex_prov : prov :=
  let ts := 1000 in
  let u0 := toy 7 5 ts 63 0 1 in let bu1 := N.lxor 5 (mac_prefix u0) in
  let u1 := toy 8 bu1 ts 63 1 0 in
  let d0 := toy 7 9 ts 63 0 2 in let bd1 := N.lxor 9 (mac_prefix d0) in
  let d1 := toy 9 bd1 ts 63 1 0 in
  of_slices
    [ mkSl KIntra false false ts [mkPh 20 1 0 63 u1 bu1; mkPh 10 0 1 63 u0 5];
      mkSl KIntra true false ts [mkPh 10 0 2 63 d0 9; mkPh 30 1 0 63 d1 bd1] ].
Definition ex_pp : pparams := mkPP 20 30 0 0 [10; 0; 0; 2] [10; 0; 0; 1] 8 (Some 4242).
Definition now := 1001000000000.
Definition ep := EPIC.mkEpic 0 0 [1;2;3;4] [1;2;3;4].
Definition q := render ex_prov ex_pp 0 false.
Definition w := match start_loc ex_topo q with Some l =>
  Some (MNW.run_with (MNW.epic_proc (fun k s ts e i g => Some (full k s ts e i g)) (fun _ _ => Some [1;2;3;4]) now ep) ex_topo (fuel_for q) l q) | None => None end.
Eval vm_compute in (option_map snd w).
Eval vm_compute in (wf_prov_b (fun k s ts e i g => Some (toy k s ts e i g)) ex_topo ex_prov, all_unexpired now ex_prov).
Definition w2 := match start_loc ex_topo q with Some l =>
  Some (MNW.run_with (MNW.epic_proc (fun k s ts e i g => Some (full k s ts e i g)) (fun _ _ => Some [9;9;9;9]) now ep) ex_topo (fuel_for q) l q) | None => None end.
Eval vm_compute in (option_map snd w2).
