From Coq Require Import List NArith Bool.
From Scion Require Import Lib.Check Lib.Bytes Model.Router Model.Network Model.Prov Model.RouterScmp Model.ScmpReturn Props.C10.
Import ListNotations.
Import Scion.Model.Router.Router Network Prov.
Local Open Scope N_scope.
(* traceroute request: SCMP type 130 code 0 cksum 0 0 id 0x1092 seq 0 1 + 16 bytes *)
Definition tr_raw : bytes := repeat 0 104 ++ [130; 0; 0; 0; 16; 146; 0; 1] ++ repeat 0 16.
Definition pp := mkPP 20 30 0 0 [10; 0; 0; 2] [10; 0; 0; 1] 28 (Some 30041).
Definition m (kx : nat) (a e : bool) := ScmpReturn.model_q ex_macq ex_topo ex_hosts ex_now ex_now ex_prov pp (ScmpReturn.PAlert kx a e) None 0 0 202 202 92 0 tr_raw.
Eval vm_compute in (snd (ScmpReturn.m_fwd (m 2 false true))).
Eval vm_compute in (match ScmpReturn.m_reply (m 2 false true), ScmpReturn.m_back (m 2 false true) with
  | RouterScmp.SReply r, ScmpReturn.BWalk w => Some (RouterScmp.r_l4 r, snd w, crossed (fst w)) | _, _ => None end).
Eval vm_compute in (ScmpReturn.c10_ok ex_topo ex_prov pp (ScmpReturn.PAlert 2 false true) 2 2 ScmpReturn.ASib (Some (4242,1)) 202 92
   (ScmpReturn.pos_loc ex_topo ex_prov 2 ScmpReturn.ASib) (ScmpReturn.m_reply (m 2 false true)) (ScmpReturn.m_back (m 2 false true))).
Eval vm_compute in (snd (ScmpReturn.m_fwd (m 1 false true)), snd (ScmpReturn.m_fwd (m 1 true false)), snd (ScmpReturn.m_fwd (m 1 true true))).
Eval vm_compute in (ScmpReturn.m_reply (m 2 false true)).
Eval vm_compute in (ScmpReturn.m_back (m 2 false true)).
