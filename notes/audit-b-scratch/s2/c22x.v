From Coq Require Import List NArith Bool Arith Lia.
From Scion Require Import Lib.Check Model.SegID Proofs.SegID.
Import ListNotations. Import SegID.
Local Open Scope N_scope.
Goal forall b0 sg s ext,
  construction_segid b0 (sg ++ s :: ext) (length sg) false = extract_beta b0 sg /\
  construction_segid b0 (sg ++ s :: ext) (length sg) true = N.lxor (extract_beta b0 sg) s.
Proof.
  intros. split.
  - unfold construction_segid. rewrite beta_app_prefix by lia. symmetry. apply extract_beta_all.
  - replace (sg ++ s :: ext) with ((sg ++ [s]) ++ ext) by (rewrite <- app_assoc; reflexivity).
    unfold construction_segid. rewrite beta_app_prefix by (rewrite app_length; cbn; lia).
    symmetry. apply extender_peer_beta.
Qed.
