From Coq Require Import List NArith ZArith Bool Lia.
From Scion Require Import Lib.Check Lib.Bytes Lib.PBWire Model.Signed Proofs.Signed
     Model.SegVerify Proofs.SegVerify Props.C24.
Import ListNotations.
Import Signed SegVerify.
Local Open Scope N_scope.

Definition D1 : bytes := dig hash_c (algo_of ex_e1) (raw ex_info [] ex_e1).
Definition D2 : bytes := dig hash_c (algo_of ex_e2) (raw ex_info [ex_e1] ex_e2).
Definition sv2 (pk : N) (d sg : bytes) : bool :=
  ((pk =? 5) && bytes_eqb d D1 && bytes_eqb sg [101]) || ((pk =? 6) && bytes_eqb d D2 && bytes_eqb sg [102]).
Definition cf2 (ia : N) (_ : bytes) (_ : validity) : option (list N) := if ia =? ia1 then Some [5] else Some [6].
Definition sw2 (sk : N) (_ : bytes) : bytes := if sk =? 5 then [101] else [102].

Lemma Dec2 : forall A (e : entry) S, [ex_e1; ex_e2] = A ++ e :: S ->
  (A = [] /\ e = ex_e1 /\ S = [ex_e2]) \/ (A = [ex_e1] /\ e = ex_e2 /\ S = []).
Proof.
  intros [|a [|b A]] e S E; cbn in E; inversion E; subst; auto.
  destruct A; discriminate.
Qed.

Theorem ideal2 : ideal N sv2 hash_c cf2 N sw2 (fun k => k) ex_seg [5; 6].
Proof.
  unfold ideal. split; [|split; [|split; [|split]]].
  - split; [reflexivity|]. intros A e S sk E Hn. destruct (Dec2 A e S E) as [(-> & -> & ->)|(-> & -> & ->)];
    cbn in Hn; inversion Hn; subst; (split; [vm_compute; discriminate|reflexivity]).
  - intros pk d sg Hv. unfold sv2 in Hv. apply orb_true_iff in Hv as [Hv|Hv];
    apply andb_true_iff in Hv as [Hv H3]; apply andb_true_iff in Hv as [H1 H2];
    apply N.eqb_eq in H1; apply bytes_eqb_eq in H2; apply bytes_eqb_eq in H3; subst.
    + exists [], ex_e1, [ex_e2], 5. repeat split; reflexivity.
    + exists [ex_e1], ex_e2, [], 6. repeat split; reflexivity.
  - intros a a' x x' Ha Ha' E. unfold dig in E.
    destruct (hash_of a =? 0) eqn:Z1; [apply N.eqb_eq in Z1; contradiction|].
    destruct (hash_of a' =? 0) eqn:Z2; [apply N.eqb_eq in Z2; contradiction|].
    unfold hash_c in E. now inversion E.
  - intros A e S sk E Hn. destruct (Dec2 A e S E) as [(-> & -> & ->)|(-> & -> & ->)];
    cbn in Hn; inversion Hn; subst; (split; [vm_compute; discriminate|]);
    intros skid v keys pk Hc Hin; vm_compute in Hc; inversion Hc; subst; destruct Hin as [<-|[]]; reflexivity.
  - repeat constructor; cbn; intuition discriminate.
Qed.
Print Assumptions ideal2.
