From Coq Require Import List NArith Bool Arith Lia.
From Scion Require Import Lib.Check Model.Segment Model.CombSpec Model.Combinator.
From Scion Require Import Proofs.CombinatorGraph Proofs.CombinatorRender Proofs.CombinatorPaths Proofs.CombinatorProps.
From Scion Require Import Props.C28.
Import ListNotations.
Import Segment Combinator.
Local Open Scope N_scope.

Definition ps0 := match combine 12 21 [(1, ex_up)] [(2, ex_core)] [(3, ex_down)] false with Done ps => ps | _ => [] end.
Definition p0 := hd (mkPath [] [] 0 0 0) ps0.
Definition sl0 := Eval vm_compute in p_slices p0.

Ltac hops := repeat (constructor; [eexists; split; [|split; [reflexivity|]]; [ | first [left; reflexivity | right; eexists; split; [|reflexivity]]] | ]).

(* A: weight clause of C28_shape is satisfied by ANY weight, with the real input segments *)
Definition eu (s : segment) (w : N) := mkEdge (v_ia 0) (v_ia 0) (mkIn Up 0 1 s) w 1 1.
Definition ed (s : segment) (w : N) := mkEdge (v_ia 0) (v_ia 0) (mkIn Down 0 3 s) w 1 1.

Lemma slices_real : forall w1 w2, Forall2 slice_of_edge [eu ex_up w1; ed ex_down w2] sl0.
Proof.
  intros. constructor; [|constructor; [|constructor]].
  - unfold slice_of_edge. split; [vm_compute; reflexivity|]. split; [vm_compute; lia|].
    split; [vm_compute; reflexivity|]. split; [vm_compute; reflexivity|].
    unfold sl0. cbn [sl_hops].
    constructor. { exists (nth 2 (sg_entries ex_up) (mkAS 0 (mkHop 0 0 0 []) 0 0 [])). split; [vm_compute; auto|]. split; [reflexivity|left; reflexivity]. }
    constructor. { exists (nth 1 (sg_entries ex_up) (mkAS 0 (mkHop 0 0 0 []) 0 0 [])). split; [vm_compute; auto|]. split; [reflexivity|right]. eexists. split; [left; reflexivity|reflexivity]. }
    constructor.
  - unfold slice_of_edge. split; [vm_compute; reflexivity|]. split; [vm_compute; lia|].
    split; [vm_compute; reflexivity|]. split; [vm_compute; reflexivity|].
    unfold sl0. cbn [sl_hops].
    constructor. { exists (nth 1 (sg_entries ex_down) (mkAS 0 (mkHop 0 0 0 []) 0 0 [])). split; [vm_compute; auto|]. split; [reflexivity|right]. eexists. split; [left; reflexivity|reflexivity]. }
    constructor.
Qed.

Goal let p' := mkPath sl0 (p_ifs p0) (p_mtu p0) (p_exp p0) 12345 in
  exists es : list edge,
    (map ety es = [Up; Down]) /\
    Forall (seg_in_role [(1, ex_up)] [(2, ex_core)] [(3, ex_down)]) es /\
    Forall2 slice_of_edge es (p_slices p') /\
    p_weight p' = sum_w es.
Proof.
  intros p'. exists [eu ex_up 12345; ed ex_down 0]. split; [reflexivity|]. split.
  - repeat constructor; cbn; auto.
  - split; [apply slices_real|reflexivity].
Qed.

(* B: C28_mtu_min's conclusion holds for a fabricated MTU of 7 (real one: 1300) *)
Definition fk_up : segment :=
  mkSeg 1700000000 7
    [mkAS 10 (mkHop 0 1 63 [1;1;1;1;1;1]) 7 7 [];
     mkAS 11 (mkHop 1 2 63 [2;2;2;2;2;2]) 7 7 [mkPeer 21 6 (mkHop 5 2 63 [3;3;3;3;3;3]) 7];
     mkAS 12 (mkHop 1 0 50 [4;4;4;4;4;4]) 7 7 []].
Definition fk_down : segment :=
  mkSeg 1700000200 11
    [mkAS 20 (mkHop 0 3 63 [7;7;7;7;7;7]) 7 7 [];
     mkAS 21 (mkHop 1 0 40 [8;8;8;8;8;8]) 7 7 [mkPeer 11 5 (mkHop 6 0 40 [9;9;9;9;9;9]) 7]].

Lemma slices_fake : Forall2 slice_of_edge [eu fk_up 0; ed fk_down 0] sl0.
Proof.
  constructor; [|constructor; [|constructor]].
  - unfold slice_of_edge. split; [vm_compute; reflexivity|]. split; [vm_compute; lia|].
    split; [vm_compute; reflexivity|]. split; [vm_compute; reflexivity|].
    unfold sl0. cbn [sl_hops].
    constructor. { exists (nth 2 (sg_entries fk_up) (mkAS 0 (mkHop 0 0 0 []) 0 0 [])). split; [vm_compute; auto|]. split; [reflexivity|left; reflexivity]. }
    constructor. { exists (nth 1 (sg_entries fk_up) (mkAS 0 (mkHop 0 0 0 []) 0 0 [])). split; [vm_compute; auto|]. split; [reflexivity|right]. eexists. split; [left; reflexivity|reflexivity]. }
    constructor.
  - unfold slice_of_edge. split; [vm_compute; reflexivity|]. split; [vm_compute; lia|].
    split; [vm_compute; reflexivity|]. split; [vm_compute; reflexivity|].
    unfold sl0. cbn [sl_hops].
    constructor. { exists (nth 1 (sg_entries fk_down) (mkAS 0 (mkHop 0 0 0 []) 0 0 [])). split; [vm_compute; auto|]. split; [reflexivity|right]. eexists. split; [left; reflexivity|reflexivity]. }
    constructor.
Qed.

Goal let p' := mkPath sl0 (p_ifs p0) 7 (p_exp p0) (p_weight p0) in
  exists es, Forall2 slice_of_edge es (p_slices p') /\
    p_mtu p' <= 65535 /\
    (forall t, In t (flat_map edge_mtu_terms es) -> p_mtu p' <= t) /\
    (p_mtu p' = 65535 \/ In (p_mtu p') (flat_map edge_mtu_terms es)).
Proof.
  intros p'. exists [eu fk_up 0; ed fk_down 0]. split; [apply slices_fake|].
  split; [vm_compute; discriminate|]. 
  assert (E : flat_map edge_mtu_terms [eu fk_up 0; ed fk_down 0] = [7;7;7;7;7;7]) by (vm_compute; reflexivity).
  rewrite E. split.
  - intros t Ht. cbn in Ht. cbn. repeat destruct Ht as [<-|Ht]; try lia; contradiction.
  - right. left. reflexivity.
Qed.
Print Assumptions slices_fake.
