From Scion Require Import Props.C25 Props.C26 Props.C27 Props.C28.
Print Assumptions C25_stored_respects_policy.
Print Assumptions C25_no_loop_propagated.
Print Assumptions C26_spec.
Print Assumptions C27_candidates.
Print Assumptions C27_query_exact.
Print Assumptions C28_interfaces.
Print Assumptions C28_dedup.
Print Assumptions C28_sound.
Print Assumptions C28_mtu_min.
