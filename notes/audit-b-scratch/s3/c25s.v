From Coq Require Import List NArith ZArith Bool.
From Scion Require Import Lib.Check Model.BeaconPolicy.
Import ListNotations. Import BeaconPolicy. Local Open Scope N_scope.
Definition c := {| local := (1,110); ifs := [(1,(2,(1,111)))]; pols := [(8, mkf 0 [] [] None)] |}.
Definition b := {| b_hops := [((1,100),0,1); ((1,111),2,1)]; b_next := (1,110); b_ts := 100%Z; b_in := 1; b_sigs := []; b_kid := 0 |}.
Eval vm_compute in (snd (handle c [] b), in_scope c [b]).
