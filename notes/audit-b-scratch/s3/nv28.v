From Coq Require Import List NArith Bool Arith Lia.
From Scion Require Import Lib.Check Model.Segment Model.CombSpec Model.Combinator.
From Scion Require Import Proofs.CombinatorProps Props.C28.
Import ListNotations. Import Segment Combinator.
Goal valid_input [ex_up] [ex_core] [ex_down] = true. vm_compute. reflexivity. Qed.
Goal forallb (fun s => wf_fields s) [ex_up; ex_core; ex_down] = true. vm_compute. reflexivity. Qed.
