From Coq Require Import List NArith Bool.
From Scion Require Import Lib.Check Model.Segment Model.CombSpec Model.Combinator.
Import ListNotations. Import Segment Combinator.
Local Open Scope N_scope.
Definition u : segment :=
  mkSeg 1700000000 7
    [mkAS 10 (mkHop 0 1 63 [1;1;1;1;1;1]) 0 1500 [];
     mkAS 11 (mkHop 0 2 63 [2;2;2;2;2;2]) 1400 1500 [];
     mkAS 12 (mkHop 0 0 50 [4;4;4;4;4;4]) 1450 9000 []].
Eval vm_compute in (valid_input [u] [] [], wf_input [u] [] [],
  match combine 12 10 [(1,u)] [] [] false with Done ps => Some (map p_ifs ps) | _ => None end).
