From Coq Require Import List NArith Bool.
From Scion Require Import Lib.Check Model.RevCache.
Import ListNotations. Import RevCache.
Local Open Scope N_scope.
Definition a := {| r_ia := 1; r_if := 5; r_ts := 90; r_ttl := 110; r_id := 1 |}.
Definition c := {| r_ia := 1; r_if := 5; r_ts := 95; r_ttl := 5; r_id := 3 |}.
Eval vm_compute in results [(91, Insert a); (92, Insert c); (150, Get (1,5)); (151, Insert a); (152, Get (1,5))].
