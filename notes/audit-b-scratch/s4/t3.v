From Coq Require Import List ZArith Bool.
From Scion Require Import Lib.Check Model.PKI Props.C32.
Import ListNotations. Import PKI.
Local Open Scope Z_scope.
Definition base0 : trc :=
  mktrc 1 1 1 1 10 900 0 false [] 2 [272; 273] [272]
        [vcert 1 1 1001 1; vcert 1 2 1002 2; vcert 2 3 1003 3; vcert 2 4 1004 4; rcert 5 1005 5].
Eval vm_compute in (verify None base0 [sig 1 1001 1; sig 2 1002 2; sig 3 1003 3; sig 4 1004 4],
                    verify None base0 [sig 1 1001 1; sig 2 1002 2; sig 3 1003 3],
                    base_spec_b base0 [sig 1 1001 1; sig 2 1002 2; sig 3 1003 3; sig 4 1004 4]).
