#!/bin/sh
# Full .vo build of the Coq development (no -vos/-vok).
#   coq/build.sh                      build everything (setup_cmd)
#   coq/build.sh theories/Props/C16.vo   build one target and what it depends on
set -e
cd "$(dirname "$0")"
tmp=$(mktemp _CoqProject.XXXXXX)
{ cat _CoqProject.in; find theories -name '*.v' | LC_ALL=C sort; } > "$tmp"
if [ ! -f _CoqProject ] || ! cmp -s "$tmp" _CoqProject || [ ! -f Makefile.coq ]; then
  mv "$tmp" _CoqProject
  mk=$(mktemp Makefile.coq.XXXXXX)
  coq_makefile -f _CoqProject -o "$mk" >/dev/null
  # coq_makefile writes <name>.conf next to it and includes it by name
  sed -i "s#$(basename "$mk").conf#Makefile.coq.conf#g" "$mk"
  mv "$mk.conf" Makefile.coq.conf
  mv "$mk" Makefile.coq
else
  rm -f "$tmp"
fi
exec timeout 7200 make -f Makefile.coq -j16 "$@"
