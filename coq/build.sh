#!/bin/sh
# Full .vo build of the Coq development (no -vos). Usage: coq/build.sh [make args]
set -e
cd "$(dirname "$0")"
{ cat _CoqProject.in; find theories -name '*.v' | LC_ALL=C sort; } > _CoqProject
coq_makefile -f _CoqProject -o Makefile.coq >/dev/null
exec timeout 3600 make -f Makefile.coq -j16 "$@"
