theories/Lib/Check.vo theories/Lib/Check.glob theories/Lib/Check.v.beautified theories/Lib/Check.required_vo: theories/Lib/Check.v 
theories/Lib/Check.vio: theories/Lib/Check.v 
theories/Lib/Check.vos theories/Lib/Check.vok theories/Lib/Check.required_vos: theories/Lib/Check.v 
theories/Model/BFD.vo theories/Model/BFD.glob theories/Model/BFD.v.beautified theories/Model/BFD.required_vo: theories/Model/BFD.v theories/Lib/Check.vo
theories/Model/BFD.vio: theories/Model/BFD.v theories/Lib/Check.vio
theories/Model/BFD.vos theories/Model/BFD.vok theories/Model/BFD.required_vos: theories/Model/BFD.v theories/Lib/Check.vos
theories/Proofs/BFD.vo theories/Proofs/BFD.glob theories/Proofs/BFD.v.beautified theories/Proofs/BFD.required_vo: theories/Proofs/BFD.v theories/Lib/Check.vo theories/Model/BFD.vo
theories/Proofs/BFD.vio: theories/Proofs/BFD.v theories/Lib/Check.vio theories/Model/BFD.vio
theories/Proofs/BFD.vos theories/Proofs/BFD.vok theories/Proofs/BFD.required_vos: theories/Proofs/BFD.v theories/Lib/Check.vos theories/Model/BFD.vos
theories/Props/C16.vo theories/Props/C16.glob theories/Props/C16.v.beautified theories/Props/C16.required_vo: theories/Props/C16.v theories/Lib/Check.vo theories/Model/BFD.vo theories/Proofs/BFD.vo
theories/Props/C16.vio: theories/Props/C16.v theories/Lib/Check.vio theories/Model/BFD.vio theories/Proofs/BFD.vio
theories/Props/C16.vos theories/Props/C16.vok theories/Props/C16.required_vos: theories/Props/C16.v theories/Lib/Check.vos theories/Model/BFD.vos theories/Proofs/BFD.vos
