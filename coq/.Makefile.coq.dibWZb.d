theories/Lib/Bytes.vo theories/Lib/Bytes.glob theories/Lib/Bytes.v.beautified theories/Lib/Bytes.required_vo: theories/Lib/Bytes.v 
theories/Lib/Bytes.vio: theories/Lib/Bytes.v 
theories/Lib/Bytes.vos theories/Lib/Bytes.vok theories/Lib/Bytes.required_vos: theories/Lib/Bytes.v 
theories/Lib/BytesX.vo theories/Lib/BytesX.glob theories/Lib/BytesX.v.beautified theories/Lib/BytesX.required_vo: theories/Lib/BytesX.v theories/Lib/Bytes.vo
theories/Lib/BytesX.vio: theories/Lib/BytesX.v theories/Lib/Bytes.vio
theories/Lib/BytesX.vos theories/Lib/BytesX.vok theories/Lib/BytesX.required_vos: theories/Lib/BytesX.v theories/Lib/Bytes.vos
theories/Lib/Check.vo theories/Lib/Check.glob theories/Lib/Check.v.beautified theories/Lib/Check.required_vo: theories/Lib/Check.v 
theories/Lib/Check.vio: theories/Lib/Check.v 
theories/Lib/Check.vos theories/Lib/Check.vok theories/Lib/Check.required_vos: theories/Lib/Check.v 
theories/Lib/PBWire.vo theories/Lib/PBWire.glob theories/Lib/PBWire.v.beautified theories/Lib/PBWire.required_vo: theories/Lib/PBWire.v theories/Lib/Bytes.vo
theories/Lib/PBWire.vio: theories/Lib/PBWire.v theories/Lib/Bytes.vio
theories/Lib/PBWire.vos theories/Lib/PBWire.vok theories/Lib/PBWire.required_vos: theories/Lib/PBWire.v theories/Lib/Bytes.vos
theories/Model/AddrFmt.vo theories/Model/AddrFmt.glob theories/Model/AddrFmt.v.beautified theories/Model/AddrFmt.required_vo: theories/Model/AddrFmt.v theories/Lib/Check.vo
theories/Model/AddrFmt.vio: theories/Model/AddrFmt.v theories/Lib/Check.vio
theories/Model/AddrFmt.vos theories/Model/AddrFmt.vok theories/Model/AddrFmt.required_vos: theories/Model/AddrFmt.v theories/Lib/Check.vos
theories/Model/BFD.vo theories/Model/BFD.glob theories/Model/BFD.v.beautified theories/Model/BFD.required_vo: theories/Model/BFD.v theories/Lib/Check.vo
theories/Model/BFD.vio: theories/Model/BFD.v theories/Lib/Check.vio
theories/Model/BFD.vos theories/Model/BFD.vok theories/Model/BFD.required_vos: theories/Model/BFD.v theories/Lib/Check.vos
theories/Model/CombSpec.vo theories/Model/CombSpec.glob theories/Model/CombSpec.v.beautified theories/Model/CombSpec.required_vo: theories/Model/CombSpec.v theories/Lib/Check.vo theories/Model/Segment.vo
theories/Model/CombSpec.vio: theories/Model/CombSpec.v theories/Lib/Check.vio theories/Model/Segment.vio
theories/Model/CombSpec.vos theories/Model/CombSpec.vok theories/Model/CombSpec.required_vos: theories/Model/CombSpec.v theories/Lib/Check.vos theories/Model/Segment.vos
theories/Model/Combinator.vo theories/Model/Combinator.glob theories/Model/Combinator.v.beautified theories/Model/Combinator.required_vo: theories/Model/Combinator.v theories/Lib/Check.vo theories/Model/Segment.vo theories/Model/CombSpec.vo
theories/Model/Combinator.vio: theories/Model/Combinator.v theories/Lib/Check.vio theories/Model/Segment.vio theories/Model/CombSpec.vio
theories/Model/Combinator.vos theories/Model/Combinator.vok theories/Model/Combinator.required_vos: theories/Model/Combinator.v theories/Lib/Check.vos theories/Model/Segment.vos theories/Model/CombSpec.vos
theories/Model/DRKeyACL.vo theories/Model/DRKeyACL.glob theories/Model/DRKeyACL.v.beautified theories/Model/DRKeyACL.required_vo: theories/Model/DRKeyACL.v theories/Lib/Check.vo
theories/Model/DRKeyACL.vio: theories/Model/DRKeyACL.v theories/Lib/Check.vio
theories/Model/DRKeyACL.vos theories/Model/DRKeyACL.vok theories/Model/DRKeyACL.required_vos: theories/Model/DRKeyACL.v theories/Lib/Check.vos
theories/Model/Dispatcher.vo theories/Model/Dispatcher.glob theories/Model/Dispatcher.v.beautified theories/Model/Dispatcher.required_vo: theories/Model/Dispatcher.v theories/Lib/Check.vo theories/Lib/Bytes.vo
theories/Model/Dispatcher.vio: theories/Model/Dispatcher.v theories/Lib/Check.vio theories/Lib/Bytes.vio
theories/Model/Dispatcher.vos theories/Model/Dispatcher.vok theories/Model/Dispatcher.required_vos: theories/Model/Dispatcher.v theories/Lib/Check.vos theories/Lib/Bytes.vos
theories/Model/GwFrame.vo theories/Model/GwFrame.glob theories/Model/GwFrame.v.beautified theories/Model/GwFrame.required_vo: theories/Model/GwFrame.v theories/Lib/Bytes.vo theories/Lib/Check.vo
theories/Model/GwFrame.vio: theories/Model/GwFrame.v theories/Lib/Bytes.vio theories/Lib/Check.vio
theories/Model/GwFrame.vos theories/Model/GwFrame.vok theories/Model/GwFrame.required_vos: theories/Model/GwFrame.v theories/Lib/Bytes.vos theories/Lib/Check.vos
theories/Model/HdrPath.vo theories/Model/HdrPath.glob theories/Model/HdrPath.v.beautified theories/Model/HdrPath.required_vo: theories/Model/HdrPath.v theories/Lib/Bytes.vo theories/Lib/BytesX.vo theories/Lib/Check.vo
theories/Model/HdrPath.vio: theories/Model/HdrPath.v theories/Lib/Bytes.vio theories/Lib/BytesX.vio theories/Lib/Check.vio
theories/Model/HdrPath.vos theories/Model/HdrPath.vok theories/Model/HdrPath.required_vos: theories/Model/HdrPath.v theories/Lib/Bytes.vos theories/Lib/BytesX.vos theories/Lib/Check.vos
theories/Model/HiddenPath.vo theories/Model/HiddenPath.glob theories/Model/HiddenPath.v.beautified theories/Model/HiddenPath.required_vo: theories/Model/HiddenPath.v theories/Lib/Check.vo
theories/Model/HiddenPath.vio: theories/Model/HiddenPath.v theories/Lib/Check.vio
theories/Model/HiddenPath.vos theories/Model/HiddenPath.vok theories/Model/HiddenPath.required_vos: theories/Model/HiddenPath.v theories/Lib/Check.vos
theories/Model/Meta.vo theories/Model/Meta.glob theories/Model/Meta.v.beautified theories/Model/Meta.required_vo: theories/Model/Meta.v theories/Lib/Check.vo
theories/Model/Meta.vio: theories/Model/Meta.v theories/Lib/Check.vio
theories/Model/Meta.vos theories/Model/Meta.vok theories/Model/Meta.required_vos: theories/Model/Meta.v theories/Lib/Check.vos
theories/Model/PktCls.vo theories/Model/PktCls.glob theories/Model/PktCls.v.beautified theories/Model/PktCls.required_vo: theories/Model/PktCls.v theories/Lib/Check.vo
theories/Model/PktCls.vio: theories/Model/PktCls.v theories/Lib/Check.vio
theories/Model/PktCls.vos theories/Model/PktCls.vok theories/Model/PktCls.required_vos: theories/Model/PktCls.v theories/Lib/Check.vos
theories/Model/RevCache.vo theories/Model/RevCache.glob theories/Model/RevCache.v.beautified theories/Model/RevCache.required_vo: theories/Model/RevCache.v theories/Lib/Check.vo
theories/Model/RevCache.vio: theories/Model/RevCache.v theories/Lib/Check.vio
theories/Model/RevCache.vos theories/Model/RevCache.vok theories/Model/RevCache.required_vos: theories/Model/RevCache.v theories/Lib/Check.vos
theories/Model/Ring.vo theories/Model/Ring.glob theories/Model/Ring.v.beautified theories/Model/Ring.required_vo: theories/Model/Ring.v theories/Lib/Check.vo
theories/Model/Ring.vio: theories/Model/Ring.v theories/Lib/Check.vio
theories/Model/Ring.vos theories/Model/Ring.vok theories/Model/Ring.required_vos: theories/Model/Ring.v theories/Lib/Check.vos
theories/Model/SegID.vo theories/Model/SegID.glob theories/Model/SegID.v.beautified theories/Model/SegID.required_vo: theories/Model/SegID.v theories/Lib/Check.vo
theories/Model/SegID.vio: theories/Model/SegID.v theories/Lib/Check.vio
theories/Model/SegID.vos theories/Model/SegID.vok theories/Model/SegID.required_vos: theories/Model/SegID.v theories/Lib/Check.vos
theories/Model/Segment.vo theories/Model/Segment.glob theories/Model/Segment.v.beautified theories/Model/Segment.required_vo: theories/Model/Segment.v theories/Lib/Check.vo
theories/Model/Segment.vio: theories/Model/Segment.v theories/Lib/Check.vio
theories/Model/Segment.vos theories/Model/Segment.vok theories/Model/Segment.required_vos: theories/Model/Segment.v theories/Lib/Check.vos
theories/Model/Select.vo theories/Model/Select.glob theories/Model/Select.v.beautified theories/Model/Select.required_vo: theories/Model/Select.v theories/Lib/Check.vo
theories/Model/Select.vio: theories/Model/Select.v theories/Lib/Check.vio
theories/Model/Select.vos theories/Model/Select.vok theories/Model/Select.required_vos: theories/Model/Select.v theories/Lib/Check.vos
theories/Model/Signed.vo theories/Model/Signed.glob theories/Model/Signed.v.beautified theories/Model/Signed.required_vo: theories/Model/Signed.v theories/Lib/Check.vo theories/Lib/Bytes.vo theories/Lib/PBWire.vo
theories/Model/Signed.vio: theories/Model/Signed.v theories/Lib/Check.vio theories/Lib/Bytes.vio theories/Lib/PBWire.vio
theories/Model/Signed.vos theories/Model/Signed.vok theories/Model/Signed.required_vos: theories/Model/Signed.v theories/Lib/Check.vos theories/Lib/Bytes.vos theories/Lib/PBWire.vos
theories/Model/SockCfg.vo theories/Model/SockCfg.glob theories/Model/SockCfg.v.beautified theories/Model/SockCfg.required_vo: theories/Model/SockCfg.v theories/Lib/Check.vo
theories/Model/SockCfg.vio: theories/Model/SockCfg.v theories/Lib/Check.vio
theories/Model/SockCfg.vos theories/Model/SockCfg.vok theories/Model/SockCfg.required_vos: theories/Model/SockCfg.v theories/Lib/Check.vos
theories/Model/Spao.vo theories/Model/Spao.glob theories/Model/Spao.v.beautified theories/Model/Spao.required_vo: theories/Model/Spao.v theories/Lib/Check.vo theories/Lib/Bytes.vo
theories/Model/Spao.vio: theories/Model/Spao.v theories/Lib/Check.vio theories/Lib/Bytes.vio
theories/Model/Spao.vos theories/Model/Spao.vok theories/Model/Spao.required_vos: theories/Model/Spao.v theories/Lib/Check.vos theories/Lib/Bytes.vos
theories/Proofs/BFD.vo theories/Proofs/BFD.glob theories/Proofs/BFD.v.beautified theories/Proofs/BFD.required_vo: theories/Proofs/BFD.v theories/Lib/Check.vo theories/Model/BFD.vo
theories/Proofs/BFD.vio: theories/Proofs/BFD.v theories/Lib/Check.vio theories/Model/BFD.vio
theories/Proofs/BFD.vos theories/Proofs/BFD.vok theories/Proofs/BFD.required_vos: theories/Proofs/BFD.v theories/Lib/Check.vos theories/Model/BFD.vos
theories/Proofs/DRKeyACL.vo theories/Proofs/DRKeyACL.glob theories/Proofs/DRKeyACL.v.beautified theories/Proofs/DRKeyACL.required_vo: theories/Proofs/DRKeyACL.v theories/Lib/Check.vo theories/Model/DRKeyACL.vo
theories/Proofs/DRKeyACL.vio: theories/Proofs/DRKeyACL.v theories/Lib/Check.vio theories/Model/DRKeyACL.vio
theories/Proofs/DRKeyACL.vos theories/Proofs/DRKeyACL.vok theories/Proofs/DRKeyACL.required_vos: theories/Proofs/DRKeyACL.v theories/Lib/Check.vos theories/Model/DRKeyACL.vos
theories/Proofs/HdrPath.vo theories/Proofs/HdrPath.glob theories/Proofs/HdrPath.v.beautified theories/Proofs/HdrPath.required_vo: theories/Proofs/HdrPath.v theories/Lib/Bytes.vo theories/Lib/BytesX.vo theories/Lib/Check.vo theories/Model/HdrPath.vo
theories/Proofs/HdrPath.vio: theories/Proofs/HdrPath.v theories/Lib/Bytes.vio theories/Lib/BytesX.vio theories/Lib/Check.vio theories/Model/HdrPath.vio
theories/Proofs/HdrPath.vos theories/Proofs/HdrPath.vok theories/Proofs/HdrPath.required_vos: theories/Proofs/HdrPath.v theories/Lib/Bytes.vos theories/Lib/BytesX.vos theories/Lib/Check.vos theories/Model/HdrPath.vos
theories/Proofs/Meta.vo theories/Proofs/Meta.glob theories/Proofs/Meta.v.beautified theories/Proofs/Meta.required_vo: theories/Proofs/Meta.v theories/Lib/Check.vo theories/Model/Meta.vo
theories/Proofs/Meta.vio: theories/Proofs/Meta.v theories/Lib/Check.vio theories/Model/Meta.vio
theories/Proofs/Meta.vos theories/Proofs/Meta.vok theories/Proofs/Meta.required_vos: theories/Proofs/Meta.v theories/Lib/Check.vos theories/Model/Meta.vos
theories/Proofs/RevCache.vo theories/Proofs/RevCache.glob theories/Proofs/RevCache.v.beautified theories/Proofs/RevCache.required_vo: theories/Proofs/RevCache.v theories/Lib/Check.vo theories/Model/RevCache.vo
theories/Proofs/RevCache.vio: theories/Proofs/RevCache.v theories/Lib/Check.vio theories/Model/RevCache.vio
theories/Proofs/RevCache.vos theories/Proofs/RevCache.vok theories/Proofs/RevCache.required_vos: theories/Proofs/RevCache.v theories/Lib/Check.vos theories/Model/RevCache.vos
theories/Proofs/Ring.vo theories/Proofs/Ring.glob theories/Proofs/Ring.v.beautified theories/Proofs/Ring.required_vo: theories/Proofs/Ring.v theories/Lib/Check.vo theories/Model/Ring.vo
theories/Proofs/Ring.vio: theories/Proofs/Ring.v theories/Lib/Check.vio theories/Model/Ring.vio
theories/Proofs/Ring.vos theories/Proofs/Ring.vok theories/Proofs/Ring.required_vos: theories/Proofs/Ring.v theories/Lib/Check.vos theories/Model/Ring.vos
theories/Proofs/SegID.vo theories/Proofs/SegID.glob theories/Proofs/SegID.v.beautified theories/Proofs/SegID.required_vo: theories/Proofs/SegID.v theories/Lib/Check.vo theories/Model/SegID.vo
theories/Proofs/SegID.vio: theories/Proofs/SegID.v theories/Lib/Check.vio theories/Model/SegID.vio
theories/Proofs/SegID.vos theories/Proofs/SegID.vok theories/Proofs/SegID.required_vos: theories/Proofs/SegID.v theories/Lib/Check.vos theories/Model/SegID.vos
theories/Proofs/Select.vo theories/Proofs/Select.glob theories/Proofs/Select.v.beautified theories/Proofs/Select.required_vo: theories/Proofs/Select.v theories/Lib/Check.vo theories/Model/Select.vo
theories/Proofs/Select.vio: theories/Proofs/Select.v theories/Lib/Check.vio theories/Model/Select.vio
theories/Proofs/Select.vos theories/Proofs/Select.vok theories/Proofs/Select.required_vos: theories/Proofs/Select.v theories/Lib/Check.vos theories/Model/Select.vos
theories/Props/C16.vo theories/Props/C16.glob theories/Props/C16.v.beautified theories/Props/C16.required_vo: theories/Props/C16.v theories/Lib/Check.vo theories/Model/BFD.vo theories/Proofs/BFD.vo
theories/Props/C16.vio: theories/Props/C16.v theories/Lib/Check.vio theories/Model/BFD.vio theories/Proofs/BFD.vio
theories/Props/C16.vos theories/Props/C16.vok theories/Props/C16.required_vos: theories/Props/C16.v theories/Lib/Check.vos theories/Model/BFD.vos theories/Proofs/BFD.vos
theories/Props/C22.vo theories/Props/C22.glob theories/Props/C22.v.beautified theories/Props/C22.required_vo: theories/Props/C22.v theories/Lib/Check.vo theories/Model/SegID.vo theories/Proofs/SegID.vo
theories/Props/C22.vio: theories/Props/C22.v theories/Lib/Check.vio theories/Model/SegID.vio theories/Proofs/SegID.vio
theories/Props/C22.vos theories/Props/C22.vok theories/Props/C22.required_vos: theories/Props/C22.v theories/Lib/Check.vos theories/Model/SegID.vos theories/Proofs/SegID.vos
theories/Props/C26.vo theories/Props/C26.glob theories/Props/C26.v.beautified theories/Props/C26.required_vo: theories/Props/C26.v theories/Lib/Check.vo theories/Model/Select.vo theories/Proofs/Select.vo
theories/Props/C26.vio: theories/Props/C26.v theories/Lib/Check.vio theories/Model/Select.vio theories/Proofs/Select.vio
theories/Props/C26.vos theories/Props/C26.vok theories/Props/C26.required_vos: theories/Props/C26.v theories/Lib/Check.vos theories/Model/Select.vos theories/Proofs/Select.vos
theories/Props/C31.vo theories/Props/C31.glob theories/Props/C31.v.beautified theories/Props/C31.required_vo: theories/Props/C31.v theories/Lib/Check.vo theories/Model/RevCache.vo theories/Proofs/RevCache.vo
theories/Props/C31.vio: theories/Props/C31.v theories/Lib/Check.vio theories/Model/RevCache.vio theories/Proofs/RevCache.vio
theories/Props/C31.vos theories/Props/C31.vok theories/Props/C31.required_vos: theories/Props/C31.v theories/Lib/Check.vos theories/Model/RevCache.vos theories/Proofs/RevCache.vos
