theories/Lib/Bytes.vo theories/Lib/Bytes.glob theories/Lib/Bytes.v.beautified theories/Lib/Bytes.required_vo: theories/Lib/Bytes.v 
theories/Lib/Bytes.vio: theories/Lib/Bytes.v 
theories/Lib/Bytes.vos theories/Lib/Bytes.vok theories/Lib/Bytes.required_vos: theories/Lib/Bytes.v 
theories/Lib/BytesX.vo theories/Lib/BytesX.glob theories/Lib/BytesX.v.beautified theories/Lib/BytesX.required_vo: theories/Lib/BytesX.v theories/Lib/Bytes.vo
theories/Lib/BytesX.vio: theories/Lib/BytesX.v theories/Lib/Bytes.vio
theories/Lib/BytesX.vos theories/Lib/BytesX.vok theories/Lib/BytesX.required_vos: theories/Lib/BytesX.v theories/Lib/Bytes.vos
theories/Lib/Check.vo theories/Lib/Check.glob theories/Lib/Check.v.beautified theories/Lib/Check.required_vo: theories/Lib/Check.v 
theories/Lib/Check.vio: theories/Lib/Check.v 
theories/Lib/Check.vos theories/Lib/Check.vok theories/Lib/Check.required_vos: theories/Lib/Check.v 
theories/Model/BFD.vo theories/Model/BFD.glob theories/Model/BFD.v.beautified theories/Model/BFD.required_vo: theories/Model/BFD.v theories/Lib/Check.vo
theories/Model/BFD.vio: theories/Model/BFD.v theories/Lib/Check.vio
theories/Model/BFD.vos theories/Model/BFD.vok theories/Model/BFD.required_vos: theories/Model/BFD.v theories/Lib/Check.vos
theories/Model/HdrPath.vo theories/Model/HdrPath.glob theories/Model/HdrPath.v.beautified theories/Model/HdrPath.required_vo: theories/Model/HdrPath.v theories/Lib/Bytes.vo theories/Lib/BytesX.vo theories/Lib/Check.vo
theories/Model/HdrPath.vio: theories/Model/HdrPath.v theories/Lib/Bytes.vio theories/Lib/BytesX.vio theories/Lib/Check.vio
theories/Model/HdrPath.vos theories/Model/HdrPath.vok theories/Model/HdrPath.required_vos: theories/Model/HdrPath.v theories/Lib/Bytes.vos theories/Lib/BytesX.vos theories/Lib/Check.vos
theories/Model/Meta.vo theories/Model/Meta.glob theories/Model/Meta.v.beautified theories/Model/Meta.required_vo: theories/Model/Meta.v theories/Lib/Check.vo
theories/Model/Meta.vio: theories/Model/Meta.v theories/Lib/Check.vio
theories/Model/Meta.vos theories/Model/Meta.vok theories/Model/Meta.required_vos: theories/Model/Meta.v theories/Lib/Check.vos
theories/Model/RevCache.vo theories/Model/RevCache.glob theories/Model/RevCache.v.beautified theories/Model/RevCache.required_vo: theories/Model/RevCache.v theories/Lib/Check.vo
theories/Model/RevCache.vio: theories/Model/RevCache.v theories/Lib/Check.vio
theories/Model/RevCache.vos theories/Model/RevCache.vok theories/Model/RevCache.required_vos: theories/Model/RevCache.v theories/Lib/Check.vos
theories/Model/SegID.vo theories/Model/SegID.glob theories/Model/SegID.v.beautified theories/Model/SegID.required_vo: theories/Model/SegID.v theories/Lib/Check.vo
theories/Model/SegID.vio: theories/Model/SegID.v theories/Lib/Check.vio
theories/Model/SegID.vos theories/Model/SegID.vok theories/Model/SegID.required_vos: theories/Model/SegID.v theories/Lib/Check.vos
theories/Model/Select.vo theories/Model/Select.glob theories/Model/Select.v.beautified theories/Model/Select.required_vo: theories/Model/Select.v theories/Lib/Check.vo
theories/Model/Select.vio: theories/Model/Select.v theories/Lib/Check.vio
theories/Model/Select.vos theories/Model/Select.vok theories/Model/Select.required_vos: theories/Model/Select.v theories/Lib/Check.vos
theories/Model/Spao.vo theories/Model/Spao.glob theories/Model/Spao.v.beautified theories/Model/Spao.required_vo: theories/Model/Spao.v theories/Lib/Check.vo theories/Lib/Bytes.vo
theories/Model/Spao.vio: theories/Model/Spao.v theories/Lib/Check.vio theories/Lib/Bytes.vio
theories/Model/Spao.vos theories/Model/Spao.vok theories/Model/Spao.required_vos: theories/Model/Spao.v theories/Lib/Check.vos theories/Lib/Bytes.vos
theories/Proofs/BFD.vo theories/Proofs/BFD.glob theories/Proofs/BFD.v.beautified theories/Proofs/BFD.required_vo: theories/Proofs/BFD.v theories/Lib/Check.vo theories/Model/BFD.vo
theories/Proofs/BFD.vio: theories/Proofs/BFD.v theories/Lib/Check.vio theories/Model/BFD.vio
theories/Proofs/BFD.vos theories/Proofs/BFD.vok theories/Proofs/BFD.required_vos: theories/Proofs/BFD.v theories/Lib/Check.vos theories/Model/BFD.vos
theories/Proofs/Meta.vo theories/Proofs/Meta.glob theories/Proofs/Meta.v.beautified theories/Proofs/Meta.required_vo: theories/Proofs/Meta.v theories/Lib/Check.vo theories/Model/Meta.vo
theories/Proofs/Meta.vio: theories/Proofs/Meta.v theories/Lib/Check.vio theories/Model/Meta.vio
theories/Proofs/Meta.vos theories/Proofs/Meta.vok theories/Proofs/Meta.required_vos: theories/Proofs/Meta.v theories/Lib/Check.vos theories/Model/Meta.vos
theories/Proofs/RevCache.vo theories/Proofs/RevCache.glob theories/Proofs/RevCache.v.beautified theories/Proofs/RevCache.required_vo: theories/Proofs/RevCache.v theories/Lib/Check.vo theories/Model/RevCache.vo
theories/Proofs/RevCache.vio: theories/Proofs/RevCache.v theories/Lib/Check.vio theories/Model/RevCache.vio
theories/Proofs/RevCache.vos theories/Proofs/RevCache.vok theories/Proofs/RevCache.required_vos: theories/Proofs/RevCache.v theories/Lib/Check.vos theories/Model/RevCache.vos
theories/Proofs/SegID.vo theories/Proofs/SegID.glob theories/Proofs/SegID.v.beautified theories/Proofs/SegID.required_vo: theories/Proofs/SegID.v theories/Lib/Check.vo theories/Model/SegID.vo
theories/Proofs/SegID.vio: theories/Proofs/SegID.v theories/Lib/Check.vio theories/Model/SegID.vio
theories/Proofs/SegID.vos theories/Proofs/SegID.vok theories/Proofs/SegID.required_vos: theories/Proofs/SegID.v theories/Lib/Check.vos theories/Model/SegID.vos
theories/Proofs/Select.vo theories/Proofs/Select.glob theories/Proofs/Select.v.beautified theories/Proofs/Select.required_vo: theories/Proofs/Select.v theories/Lib/Check.vo theories/Model/Select.vo
theories/Proofs/Select.vio: theories/Proofs/Select.v theories/Lib/Check.vio theories/Model/Select.vio
theories/Proofs/Select.vos theories/Proofs/Select.vok theories/Proofs/Select.required_vos: theories/Proofs/Select.v theories/Lib/Check.vos theories/Model/Select.vos
theories/Props/C16.vo theories/Props/C16.glob theories/Props/C16.v.beautified theories/Props/C16.required_vo: theories/Props/C16.v theories/Lib/Check.vo theories/Model/BFD.vo theories/Proofs/BFD.vo
theories/Props/C16.vio: theories/Props/C16.v theories/Lib/Check.vio theories/Model/BFD.vio theories/Proofs/BFD.vio
theories/Props/C16.vos theories/Props/C16.vok theories/Props/C16.required_vos: theories/Props/C16.v theories/Lib/Check.vos theories/Model/BFD.vos theories/Proofs/BFD.vos
theories/Props/C26.vo theories/Props/C26.glob theories/Props/C26.v.beautified theories/Props/C26.required_vo: theories/Props/C26.v theories/Lib/Check.vo theories/Model/Select.vo theories/Proofs/Select.vo
theories/Props/C26.vio: theories/Props/C26.v theories/Lib/Check.vio theories/Model/Select.vio theories/Proofs/Select.vio
theories/Props/C26.vos theories/Props/C26.vok theories/Props/C26.required_vos: theories/Props/C26.v theories/Lib/Check.vos theories/Model/Select.vos theories/Proofs/Select.vos
