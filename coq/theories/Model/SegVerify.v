(** Model of path-segment verification:
      private/segment/segverifier/segverifier.go  VerifySegment
      pkg/segment/seg.go                          VerifyASEntry / associatedData
      private/trust/verifier.go                   Verifier.Verify (bound IA, bound validity)
      pkg/scrypto/signed/msg.go                   Verify (Model/Signed.v)
    Definitions only.  The trust engine is a pair of function parameters:
    [notify isd base serial] (Provider.NotifyTRC succeeds) and
    [certs_for ia skid validity] (Provider.GetChains: the public keys of the leaf
    certificates, [None] on error).  Times are milliseconds. *)
From Coq Require Import List NArith ZArith Bool.
From Scion Require Import Lib.Check Lib.Bytes Lib.PBWire Model.Signed.
Import ListNotations.
Local Open Scope N_scope.

Module SegVerify.
Import Signed.

(** addr.IA: ISD in the top 16 bits, AS in the low 48 *)
Definition isd_of (ia : N) : N := ia / 281474976710656.
Definition as_of (ia : N) : N := ia mod 281474976710656.
Definition is_wildcard (ia : N) : bool := (isd_of ia =? 0) || (as_of ia =? 0).

(** cppb.VerificationKeyID *)
Record keyid := mkkid { k_ia : N; k_skid : bytes; k_base : N; k_serial : N }.
Definition parse_keyid (raw : bytes) : option keyid :=
  match PB.fields raw with
  | None => None
  | Some fs => Some {| k_ia := PB.last_int 1 fs; k_skid := PB.last_len 2 fs;
                       k_base := PB.last_int 3 fs; k_serial := PB.last_int 4 fs |}
  end.

(** An AS entry as VerifySegment sees it: the struct fields Local and
    HopEntry.HopField.ExpTime, and the signed message. *)
Record entry := mkentry { e_local : N; e_exp : N; e_hb : bytes; e_sig : bytes }.
(** Info.Raw, Info.Timestamp (Unix seconds), ASEntries *)
Record segment := mkseg { s_info : bytes; s_ts : Z; s_entries : list entry }.

Definition validity := (Z * Z)%type.
(** path.ExpTimeToDuration: (exp + 1) * 24h/256, in milliseconds *)
Definition exp_dur (exp : N) : Z := ((Z.of_N exp + 1) * 337500)%Z.
Definition entry_validity (ts : Z) (e : entry) : validity :=
  ((ts * 1000)%Z, (ts * 1000 + exp_dur (e_exp e))%Z).

(** associatedData(idx) given the earlier entries *)
Definition pairs (earlier : list entry) : list bytes :=
  flat_map (fun e => [e_hb e; e_sig e]) earlier.
Definition assoc (info : bytes) (earlier : list entry) : list bytes := info :: pairs earlier.

Definition is_ok {A} (r : res A) : bool := match r with Ok _ => true | Err _ => false end.

Section Engine.
  Variable PK : Type.
  Variable sig_valid : PK -> bytes -> bytes -> bool.
  Variable hash : N -> bytes -> bytes.
  Variable kind : PK -> N.
  Variable notify : N -> N -> N -> bool.
  Variable certs_for : N -> bytes -> validity -> option (list PK).

  (** trust.Verifier.Verify with BoundIA = [bound], BoundValidity = [v] *)
  Definition trust_verify (bound : N) (v : validity) (hb sg : bytes) (ad : list bytes) : bool :=
    match parse_hb hb with
    | None => false
    | Some (h, _) =>
      match parse_keyid (h_keyid h) with
      | None => false
      | Some kid =>
        match k_skid kid with
        | [] => false
        | _ =>
          if negb (bound =? 0) && negb (bound =? k_ia kid) then false
          else if is_wildcard (k_ia kid) then false
          else if negb (notify (isd_of (k_ia kid)) (k_base kid) (k_serial kid)) then false
          else
            match certs_for (k_ia kid) (k_skid kid) v with
            | None => false
            | Some keys =>
              existsb (fun pk => is_ok (verify PK bytes sig_valid hash kind parse_hb
                                               (mkmsg hb sg) (Some pk) ad)) keys
            end
        end
      end
    end.

  (** VerifySegment: entry by entry, each bound to its Local IA and to the
      validity [timestamp, timestamp + ExpTimeToDuration(ExpTime)] *)
  Fixpoint verify_from (info : bytes) (ts : Z) (earlier : list entry) (es : list entry) : bool :=
    match es with
    | [] => true
    | e :: t =>
      trust_verify (e_local e) (entry_validity ts e) (e_hb e) (e_sig e) (assoc info earlier)
      && verify_from info ts (earlier ++ [e]) t
    end.

  Definition verify_segment (s : segment) : bool :=
    verify_from (s_info s) (s_ts s) [] (s_entries s).
End Engine.


(** ------------------------------------------------------------------
    trust.Verifier with a non-nil Cache.  [notifyTRC] remembers the TRC ids for
    which Provider.NotifyTRC succeeded ("notify-<id>"); [getChains] remembers the
    non-empty chain lists under the key (ISD-AS, subject key id, validity) — the
    key used since fix 7016e47 ("chain-<ia>-<skid>-<not before>-<not after>").
    Errors and empty results are not cached.  Entries do not expire in the model
    (sequences of a few verifications, milliseconds). *)
Definition ckey := (N * bytes * validity)%type.
Definition ckey_eqb (a b : ckey) : bool :=
  match a, b with
  | (ia, sk, (nb, na)), (ia', sk', (nb', na')) =>
    (ia =? ia') && bytes_eqb sk sk' && (nb =? nb')%Z && (na =? na')%Z
  end.
Definition tkey := (N * N * N)%type.
Definition tkey_eqb (a b : tkey) : bool :=
  match a, b with (i, b1, s1), (i', b2, s2) => (i =? i') && (b1 =? b2) && (s1 =? s2) end.

Section Cached.
  Variable PK : Type.
  Variable sig_valid : PK -> bytes -> bytes -> bool.
  Variable hash : N -> bytes -> bytes.
  Variable kind : PK -> N.
  Variable notify : N -> N -> N -> bool.
  Variable certs_for : N -> bytes -> validity -> option (list PK).

  Record vcache := mkvc { vc_trc : list tkey; vc_chain : list (ckey * list PK) }.
  Definition vc_empty : vcache := mkvc [] [].

  (** Verifier.notifyTRC *)
  Definition notify_cached (c : vcache) (isd base serial : N) : bool * vcache :=
    if existsb (tkey_eqb (isd, base, serial)) (vc_trc c) then (true, c)
    else if notify isd base serial then (true, mkvc ((isd, base, serial) :: vc_trc c) (vc_chain c))
    else (false, c).

  (** Verifier.getChains *)
  Definition chains_cached (c : vcache) (ia : N) (skid : bytes) (v : validity)
    : option (list PK) * vcache :=
    match find (fun p => ckey_eqb (fst p) (ia, skid, v)) (vc_chain c) with
    | Some p => (Some (snd p), c)
    | None =>
      match certs_for ia skid v with
      | None => (None, c)
      | Some [] => (Some [], c)
      | Some keys => (Some keys, mkvc (vc_trc c) (((ia, skid, v), keys) :: vc_chain c))
      end
    end.

  Definition trust_verify_cached (c : vcache) (bound : N) (v : validity) (hb sg : bytes)
             (ad : list bytes) : bool * vcache :=
    match parse_hb hb with
    | None => (false, c)
    | Some (h, _) =>
      match parse_keyid (h_keyid h) with
      | None => (false, c)
      | Some kid =>
        match k_skid kid with
        | [] => (false, c)
        | _ =>
          if negb (bound =? 0) && negb (bound =? k_ia kid) then (false, c)
          else if is_wildcard (k_ia kid) then (false, c)
          else
            let (nok, c1) := notify_cached c (isd_of (k_ia kid)) (k_base kid) (k_serial kid) in
            if negb nok then (false, c1)
            else
              let (ch, c2) := chains_cached c1 (k_ia kid) (k_skid kid) v in
              match ch with
              | None => (false, c2)
              | Some keys =>
                (existsb (fun pk => is_ok (verify PK bytes sig_valid hash kind parse_hb
                                                  (mkmsg hb sg) (Some pk) ad)) keys, c2)
              end
        end
      end
    end.

  (** VerifySegment stops at the first entry that fails *)
  Fixpoint verify_from_cached (c : vcache) (info : bytes) (ts : Z) (earlier es : list entry)
    : bool * vcache :=
    match es with
    | [] => (true, c)
    | e :: t =>
      let (ok, c1) := trust_verify_cached c (e_local e) (entry_validity ts e) (e_hb e) (e_sig e)
                                          (assoc info earlier) in
      if ok then verify_from_cached c1 info ts (earlier ++ [e]) t else (false, c1)
    end.

  Definition verify_segment_cached (c : vcache) (s : segment) : bool * vcache :=
    verify_from_cached c (s_info s) (s_ts s) [] (s_entries s).

  (** a sequence of verifications on one verifier *)
  Fixpoint verify_segments_cached (c : vcache) (ss : list segment) : list bool * vcache :=
    match ss with
    | [] => ([], c)
    | s :: t =>
      let (r, c1) := verify_segment_cached c s in
      let (rs, c2) := verify_segments_cached c1 t in
      (r :: rs, c2)
    end.
End Cached.
Arguments vc_trc {PK} _.
Arguments vc_chain {PK} _.
Arguments mkvc {PK} _ _.
Arguments vc_empty {PK}.

(** ------------------------------------------------------------------
    What SegmentFromPB derives from the raw bytes (only the fields that
    VerifySegment reads). *)
Definition info_ts (raw : bytes) : option Z :=
  match PB.fields raw with
  | None => None
  | Some fs => Some (PB.to_i64 (PB.last_int 1 fs))
  end.

(** ASEntrySignedBody: isd_as = 1, hop_entry = 3 { hop_field = 1 { exp_time = 3 } } *)
Definition body_fields (body : bytes) : option (N * N) :=
  match PB.fields body with
  | None => None
  | Some fs =>
    match PB.merged (PB.all_len 3 fs) with
    | None => None
    | Some hop =>
      match PB.merged (PB.all_len 1 hop) with
      | None => None
      | Some hf => Some (PB.last_int 1 fs, PB.to_u32 (PB.last_int 3 hf))
      end
    end
  end.

Definition entry_fields (hb : bytes) : option (N * N) :=
  match parse_hb hb with
  | None => None
  | Some (_, body) => body_fields body
  end.

(** ------------------------------------------------------------------
    Execution on cases: the PKI is a table of certificates, crypto verdicts are
    a table of accepted (key id, digest, signature) triples (see Model/Signed). *)
Record cert := mkcert { c_ia : N; c_skid : bytes; c_nb : Z; c_na : Z; c_key : N;
                        c_ok : bool (* chain verifies against the active TRC, now *) }.
Record trc := mktrc { t_isd : N; t_base : N; t_serial : N }.

Definition covers (c : cert) (v : validity) : bool := (c_nb c <=? fst v)%Z && (snd v <=? c_na c)%Z.

Definition certs_for_c (pki : list cert) (ia : N) (skid : bytes) (v : validity) : option (list key) :=
  Some (map (fun c => (1, c_key c))
            (filter (fun c => (c_ia c =? ia) && bytes_eqb (c_skid c) skid && covers c v && c_ok c) pki)).

Definition notify_c (trcs : list trc) (isd base serial : N) : bool :=
  match find (fun t => t_isd t =? isd) trcs with
  | None => false
  | Some t => (base =? t_base t) && (serial <=? t_serial t)
  end.

Definition verify_segment_c (pki : list cert) (trcs : list trc) (tbl : tbl_t) (s : segment) : bool :=
  verify_segment key (sig_valid_c tbl) hash_c kind_c (notify_c trcs) (certs_for_c pki) s.

(** The property as a decision procedure written independently of the control
    flow above: every entry [i] carries a signature that the crypto accepts, under
    the key of a certificate for exactly the ISD-AS in the entry's signed body,
    whose validity covers [ts, ts + lifetime(exp)] (ts from the signed segment
    info, exp from the signed body), over entry || info || all earlier entries
    and signatures. *)
Definition spec_entry (pki : list cert) (trcs : list trc) (tbl : tbl_t) (s : segment) (i : nat) : bool :=
  match nth_error (s_entries s) i, info_ts (s_info s) with
  | Some e, Some ts =>
    match parse_hb (e_hb e) with
    | None => false
    | Some (h, body) =>
      match body_fields body, parse_keyid (h_keyid h) with
      | Some (ia, exp), Some kid =>
        let raw := e_hb e ++ s_info s ++ concat (pairs (firstn i (s_entries s))) in
        negb (is_wildcard ia) && (k_ia kid =? ia) &&
        negb (match k_skid kid with [] => true | _ => false end) &&
        notify_c trcs (isd_of ia) (k_base kid) (k_serial kid) &&
        (Z.of_nat (length raw) - Z.of_nat (length (e_hb e)) =? h_adlen h)%Z &&
        negb (hash_of (h_algo h) =? 0) &&
        existsb (fun c => (c_ia c =? ia) && bytes_eqb (c_skid c) (k_skid kid) && c_ok c &&
                          (c_nb c <=? ts * 1000)%Z && (ts * 1000 + exp_dur exp <=? c_na c)%Z &&
                          sig_valid_c tbl (1, c_key c) (hash_c (hash_of (h_algo h)) raw) (e_sig e)) pki
      | _, _ => false
      end
    end
  | _, _ => false
  end.

Definition spec_segment (pki : list cert) (trcs : list trc) (tbl : tbl_t) (s : segment) : bool :=
  forallb (spec_entry pki trcs tbl s) (seq 0 (length (s_entries s))).

(** struct fields agree with what the raw bytes say (what SegmentFromPB guarantees) *)
Definition consistent (s : segment) : bool :=
  match info_ts (s_info s) with
  | Some ts => (ts =? s_ts s)%Z
  | None => false
  end &&
  forallb (fun e => match entry_fields (e_hb e) with
                    | Some (ia, exp) => (ia =? e_local e) && (exp =? e_exp e) && negb (e_local e =? 0)
                    | None => false
                    end) (s_entries s).

(** One verification of a case: the segment (struct fields as the implementation
    parsed them), whether it came through SegmentFromPB/BeaconFromPB ([frompb]:
    then the struct fields must be the ones the model derives from the bytes),
    the crypto verdict table, and VerifySegment's verdict. *)
Record step := mkstep { st_seg : segment; st_frompb : bool; st_tbl : tbl_t; st_impl : bool }.

Inductive case :=
| CSeq (pki : list cert) (trcs : list trc) (cache : bool) (steps : list step)
(** one verification unit through segverifier.StartVerification / Unit.Verify with a
    request context that expires while the verifier is still busy ([mode]: how it
    stalls); [unit_ok]: the UnitResult carries no segment error, i.e. the segment
    would be stored as verified.  The unit waits for the verification to complete,
    so it is reported verified exactly when VerifySegment returns nil. *)
| CUnit (pki : list cert) (trcs : list trc) (mode : N) (st : step) (unit_ok : bool).

(** the steps of a case on one cached verifier (the crypto table changes per step,
    the cache does not depend on it) *)
Fixpoint verify_steps_cached_c (pki : list cert) (trcs : list trc) (c : @vcache key) (steps : list step)
  : list bool :=
  match steps with
  | [] => []
  | st :: t =>
    let (r, c1) := verify_segment_cached key (sig_valid_c (st_tbl st)) hash_c kind_c (notify_c trcs)
                                         (certs_for_c pki) c (st_seg st) in
    r :: verify_steps_cached_c pki trcs c1 t
  end.

(** the model's verdicts for a sequence: through the cache model when the case ran
    with Verifier.Cache, directly otherwise *)
Definition model_verdicts (pki : list cert) (trcs : list trc) (cache : bool) (steps : list step) : list bool :=
  if cache then verify_steps_cached_c pki trcs vc_empty steps
  else map (fun st => verify_segment_c pki trcs (st_tbl st) (st_seg st)) steps.

Definition seq_agree (pki : list cert) (trcs : list trc) (cache : bool) (steps : list step) : bool :=
  list_eqb Bool.eqb (model_verdicts pki trcs cache steps) (map st_impl steps)
  && forallb (fun st => negb (st_frompb st) || consistent (st_seg st)) steps.

Definition step_agree (pki : list cert) (trcs : list trc) (st : step) : bool :=
  Bool.eqb (verify_segment_c pki trcs (st_tbl st) (st_seg st)) (st_impl st)
  && (negb (st_frompb st) || consistent (st_seg st)).

(** the oracle applies to segments whose struct fields are the parsed ones *)
Definition step_oracle (pki : list cert) (trcs : list trc) (st : step) : bool :=
  negb (consistent (st_seg st))
  || Bool.eqb (spec_segment pki trcs (st_tbl st) (st_seg st)) (st_impl st).

(** reported verified => every entry verified (an incomplete verification is not "verified") *)
Definition unit_oracle (pki : list cert) (trcs : list trc) (st : step) (unit_ok : bool) : bool :=
  step_oracle pki trcs st
  && (negb unit_ok || negb (consistent (st_seg st)) || spec_segment pki trcs (st_tbl st) (st_seg st)).

Definition check (c : case) : N :=
  match c with
  | CSeq pki trcs cache steps =>
    Check.verdict (seq_agree pki trcs cache steps) (forallb (step_oracle pki trcs) steps)
  | CUnit pki trcs _ st unit_ok =>
    Check.verdict (step_agree pki trcs st
                   && Bool.eqb (verify_segment_c pki trcs (st_tbl st) (st_seg st)) unit_ok)
                  (unit_oracle pki trcs st unit_ok)
  end.

Definition diag (c : case) : list (bool * bool * bool) :=
  match c with
  | CSeq pki trcs _ steps =>
    map (fun st => (verify_segment_c pki trcs (st_tbl st) (st_seg st),
                    spec_segment pki trcs (st_tbl st) (st_seg st), consistent (st_seg st))) steps
  | CUnit pki trcs _ st _ =>
    [(verify_segment_c pki trcs (st_tbl st) (st_seg st),
      spec_segment pki trcs (st_tbl st) (st_seg st), consistent (st_seg st))]
  end.

End SegVerify.
