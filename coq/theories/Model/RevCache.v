(** Model of private/revcache/memrevcache (memRevCache.Insert / Get / GetAll /
    DeleteExpired) on top of zgo.at/zcache/v2 (Get, SetWithExpire, Items,
    DeleteExpired), next to a history-level specification ("the newest live
    revocation per interface").  Definitions only.

    Time: [time.Now()] is the explicit argument [now]; all times are natural
    numbers in one unit (the harness uses whole unix seconds).  Insert reads the
    clock twice (once for the remaining TTL, once inside SetWithExpire); the model
    takes both readings at the same instant, so the cache item expires exactly at
    the revocation's own expiration [r_ts + r_ttl]. *)
From Coq Require Import List NArith Bool.
From Scion Require Import Lib.Check.
Import ListNotations.
Local Open Scope N_scope.

Module RevCache.

(** revcache.Key{IA, IfID} *)
Definition key := (N * N)%type.
Definition key_eqb (a b : key) : bool := (fst a =? fst b) && (snd a =? snd b).

(** path_mgmt.RevInfo: RawIsdas, IfID, RawTimestamp, RawTTL; [r_id] is the link
    type, the only field that does not take part in any decision (payload). *)
Record revoc := { r_ia : N; r_if : N; r_ts : N; r_ttl : N; r_id : N }.
Definition r_key (r : revoc) : key := (r_ia r, r_if r).
(** RevInfo.Expiration() = Timestamp().Add(TTL()) *)
Definition r_exp (r : revoc) : N := r_ts r + r_ttl r.
Definition rev_eqb (a b : revoc) : bool :=
  (r_ia a =? r_ia b) && (r_if a =? r_if b) && (r_ts a =? r_ts b) && (r_ttl a =? r_ttl b)
  && (r_id a =? r_id b).

(** zcache: [item.Expiration > 0 && now > item.Expiration] *)
Definition expired (now : N) (r : revoc) : bool := r_exp r <? now.
Definition live (now : N) (o : option revoc) : option revoc :=
  match o with Some r => if expired now r then None else Some r | None => None end.

(** The go map of the cache: at most one item per key; items stay in the map
    after they expired until DeleteExpired runs or the key is set again. *)
Definition state := list revoc.

Fixpoint lookup (k : key) (s : state) : option revoc :=
  match s with
  | [] => None
  | r :: t => if key_eqb (r_key r) k then Some r else lookup k t
  end.
Definition remove (k : key) (s : state) : state :=
  filter (fun r => negb (key_eqb (r_key r) k)) s.
(** c.items[k] = Item{...} *)
Definition set (r : revoc) (s : state) : state := r :: remove (r_key r) s.

(** cache.Get: absent or expired => not found. *)
Definition cache_get (now : N) (k : key) (s : state) : option revoc := live now (lookup k s).

(** memRevCache.Get *)
Definition get (now : N) (k : key) (s : state) : option revoc := cache_get now k s.

(** memRevCache.Insert:
      ttl := time.Until(rev.Expiration());  if ttl <= 0 { return false }
      val, ok := c.c.Get(key);              if !ok { set; return true }
      if rev.Timestamp().After(val.Timestamp()) { set; return true }
      return false *)
Definition insert (now : N) (r : revoc) (s : state) : state * bool :=
  if r_exp r <=? now then (s, false)
  else match cache_get now (r_key r) s with
       | None => (set r s, true)
       | Some v => if r_ts v <? r_ts r then (set r s, true) else (s, false)
       end.

(** memRevCache.DeleteExpired: cache.DeleteExpired with an eviction counter. *)
Definition delete_expired (now : N) (s : state) : state * N :=
  (filter (fun r => negb (expired now r)) s,
   N.of_nat (length (filter (expired now) s))).

(** memRevCache.GetAll: cache.Items() = all unexpired items (any order). *)
Definition get_all (now : N) (s : state) : list revoc :=
  filter (fun r => negb (expired now r)) s.

(** ------------------------------------------------------------------
    Histories. *)
Inductive op := Insert (r : revoc) | Get (k : key) | DeleteExpired | GetAll.
Inductive res := RIns (b : bool) | RGet (o : option revoc) | RDel (n : N) | RAll (l : list revoc).

Definition event := (N * op)%type.            (* (now, operation) *)
Definition entry := (N * op * res)%type.      (* an executed event with its result *)
Definition e_time (e : entry) : N := fst (fst e).

Definition step (s : state) (ev : event) : state * res :=
  let now := fst ev in
  match snd ev with
  | Insert r => let (s', b) := insert now r s in (s', RIns b)
  | Get k => (s, RGet (get now k s))
  | DeleteExpired => let (s', n) := delete_expired now s in (s', RDel n)
  | GetAll => (s, RAll (get_all now s))
  end.

(** State and log (newest entry first) after a history. *)
Definition exec (acc : state * list entry) (ev : event) : state * list entry :=
  let (s', r) := step (fst acc) ev in (s', (fst ev, snd ev, r) :: snd acc).
Definition run_from (acc : state * list entry) (evs : list event) : state * list entry :=
  fold_left exec evs acc.
Definition run (evs : list event) : state * list entry := run_from ([], []) evs.

(** results in chronological order *)
Definition results (evs : list event) : list res := List.rev (map snd (snd (run evs))).

(** Clock readings never go back. [mono_from hi l]: newest-first log [l] has
    non-increasing times, all <= hi. *)
Fixpoint mono_log (hi : N) (l : list entry) : Prop :=
  match l with [] => True | e :: t => e_time e <= hi /\ mono_log (e_time e) t end.
Fixpoint mono_evs (lo : N) (evs : list event) : Prop :=
  match evs with [] => True | e :: t => lo <= fst e /\ mono_evs (fst e) t end.
Fixpoint mono_evs_b (lo : N) (evs : list event) : bool :=
  match evs with [] => true | e :: t => (lo <=? fst e) && mono_evs_b (fst e) t end.
Definition last_time (l : list entry) : N := match l with [] => 0 | e :: _ => e_time e end.

(** ------------------------------------------------------------------
    History-level specification, on a log (newest first) of events and the
    results that were observed for them. *)

(** The most recently accepted revocation for interface [k]. *)
Fixpoint last_acc (l : list entry) (k : key) : option revoc :=
  match l with
  | [] => None
  | (_, Insert r, RIns true) :: t => if key_eqb (r_key r) k then Some r else last_acc t k
  | _ :: t => last_acc t k
  end.

(** ... unless a clean-up collected it in the meantime. *)
Fixpoint pending (l : list entry) (k : key) : option revoc :=
  match l with
  | [] => None
  | (_, Insert r, RIns true) :: t => if key_eqb (r_key r) k then Some r else pending t k
  | (tm, DeleteExpired, _) :: t => live tm (pending t k)
  | _ :: t => pending t k
  end.

Fixpoint mem_key (k : key) (ks : list key) : bool :=
  match ks with [] => false | x :: t => key_eqb x k || mem_key k t end.
(** interfaces for which a revocation was ever accepted (no repetitions) *)
Fixpoint keys (l : list entry) : list key :=
  match l with
  | [] => []
  | (_, Insert r, RIns true) :: t =>
      let ks := keys t in if mem_key (r_key r) ks then ks else r_key r :: ks
  | _ :: t => keys t
  end.

(** What the property prescribes. *)
Definition spec_get (l : list entry) (now : N) (k : key) : option revoc := live now (last_acc l k).
Definition spec_insert (l : list entry) (now : N) (r : revoc) : bool :=
  (now <? r_exp r) &&
  match spec_get l now (r_key r) with None => true | Some o => r_ts o <? r_ts r end.
Definition spec_garbage (l : list entry) (now : N) : list key :=
  filter (fun k => match pending l k with Some r => expired now r | None => false end) (keys l).

Fixpoint mem_rev (r : revoc) (l : list revoc) : bool :=
  match l with [] => false | x :: t => rev_eqb x r || mem_rev r t end.
Fixpoint nodup_keys (l : list revoc) : bool :=
  match l with [] => true | x :: t => negb (mem_key (r_key x) (map r_key t)) && nodup_keys t end.

Definition res_ok (l : list entry) (now : N) (o : op) (r : res) : bool :=
  match o, r with
  | Insert v, RIns b => Bool.eqb b (spec_insert l now v)
  | Get k, RGet g => option_eqb rev_eqb g (spec_get l now k)
  | DeleteExpired, RDel n => n =? N.of_nat (length (spec_garbage l now))
  | GetAll, RAll rs =>
      nodup_keys rs
      && forallb (fun v => option_eqb rev_eqb (Some v) (spec_get l now (r_key v))) rs
      && forallb (fun k => match spec_get l now k with Some v => mem_rev v rs | None => true end)
                 (keys l)
  | _, _ => false
  end.

(** Every entry of the log is what the property prescribes given the log before it. *)
Fixpoint log_ok (l : list entry) : bool :=
  match l with
  | [] => true
  | (now, o, r) :: t => res_ok t now o r && log_ok t
  end.

(** ------------------------------------------------------------------
    The simplest abstract view: a (partial) map interface -> live revocation. *)
Definition amap := key -> option revoc.
Definition view (now : N) (s : state) : amap := fun k => get now k s.
Definition a_expire (now : N) (m : amap) : amap := fun k => live now (m k).
Definition a_upd (m : amap) (r : revoc) : amap :=
  fun k => if key_eqb (r_key r) k then Some r else m k.
Definition a_insert (now : N) (r : revoc) (m : amap) : amap * bool :=
  if r_exp r <=? now then (m, false)
  else match m (r_key r) with
       | None => (a_upd m r, true)
       | Some o => if r_ts o <? r_ts r then (a_upd m r, true) else (m, false)
       end.

(** ------------------------------------------------------------------
    Correspondence cases: one history executed on a fresh memRevCache. *)
Inductive case :=
| CHist (evs : list event) (impl : list res).

Definition subset_b (a b : list revoc) : bool := forallb (fun r => mem_rev r b) a.
Definition res_eqb (a b : res) : bool :=
  match a, b with
  | RIns x, RIns y => Bool.eqb x y
  | RGet x, RGet y => option_eqb rev_eqb x y
  | RDel x, RDel y => x =? y
  | RAll x, RAll y => subset_b x y && subset_b y x && (N.of_nat (length x) =? N.of_nat (length y))
  | _, _ => false
  end.

(** the implementation's log, newest first *)
Definition impl_log (evs : list event) (impl : list res) : list entry := List.rev (combine evs impl).

Definition check (c : case) : N :=
  match c with
  | CHist evs impl =>
    if Nat.eqb (length evs) (length impl) && mono_evs_b 0 evs
    then Check.verdict (list_eqb res_eqb (results evs) impl) (log_ok (impl_log evs impl))
    else 1
  end.

Definition diag (c : case) : list res :=
  match c with CHist evs _ => results evs end.

End RevCache.
