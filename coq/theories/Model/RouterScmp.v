(** Model of the border router's slow path: [slowPathPacketProcessor.processPacket],
    [packSCMP], [prepareSCMP], [handleSCMPTraceRouteRequest] (router/dataplane.go) with what
    they use of pkg/slayers (scmp.go, scmp_msg.go, the extension-header skippers of extn.go,
    [SCION.SerializeTo] with FixLengths) and of pkg/slayers/path/scion ([Raw.ToDecoded],
    [Decoded.Reverse], [Base.IsXover], [Base.IncPath]).  Definitions only.

    Input: the slow-path request the fast path left in the packet (type / code / pointer or
    router alert), [pkt.egress], the ingress link, and the packet AS THE FAST PATH LEFT IT:
    the decoded SCION(-in-EPIC) header record of Model/Router.v plus the raw bytes (the
    extension-header chain, the first bytes of the upper layer and the quote are read from
    the bytes).  Output: the decoded reply (header record, E2E authenticator option if any,
    and the SCMP message as bytes: header, checksum, body, quote).

    The SCMP checksum is the model of C20 ([Checksum.serialize]); the input of the packet
    authenticator is the model of C21 ([Spao.auth_result]); the CMAC is a parameter
    [macq : bytes -> option bytes] (theorems: any total function; execution: the finite table
    of the case, a miss is the distinct result [SMacMiss]).  The timestamp of the authenticator
    option comes from [time.Now()] and is an explicit input [ats]; [valid_auth] stands for
    [hasValidAuth] (only used for traceroute replies). *)
From Coq Require Import List NArith ZArith Bool Uint63.
From Scion Require Import Lib.Check Lib.Bytes Model.Router Model.Checksum Model.Spao.
Import ListNotations.
Local Open Scope N_scope.

Module RouterScmp.
Import Router.

(** * Constants (compared with the Go constants by [CConst] cases every run) *)
Definition MaxSCMPPacketLen : N := 1232.
Definition E2EAuthHdrLen : N := 32.
Definition L4SCMP : N := 202.
Definition HBH : N := 200.
Definition E2E : N := 201.
Definition ScmpTracerouteRequest : N := 130.
Definition ScmpTracerouteReply : N := 131.
Definition OptAuthenticator : N := 2.
Definition AlgCMAC : N := 0.
Definition SpiScmp : N := 1.        (* MakePacketAuthSPIDRKey(drkey.SCMP, ASHost, SenderSide) *)
Definition MaxHdrLen : N := 1020.
Definition BufSize : N := 9000.
Definition MinHeadroom : N := 512.
Definition EpicMetaLen : N := 16.
Definition ScionPathType : N := 1.

(** [slayers.ScmpHeaderSize] *)
Definition scmp_header_size (ty : N) : N :=
  if ty =? ScmpExternalInterfaceDown then 20
  else if ty =? ScmpInternalConnectivityDown then 28
  else if (ty =? ScmpTracerouteRequest) || (ty =? ScmpTracerouteReply) then 24
  else 8.

Definition const_value (k : N) : option N :=
  match k with
  | 0 => Some MaxSCMPPacketLen | 1 => Some E2EAuthHdrLen | 2 => Some L4SCMP | 3 => Some HBH
  | 4 => Some E2E
  | 5 => Some (scmp_header_size ScmpDestUnreachable) | 6 => Some (scmp_header_size ScmpParameterProblem)
  | 7 => Some (scmp_header_size ScmpExternalInterfaceDown)
  | 8 => Some (scmp_header_size ScmpInternalConnectivityDown)
  | 9 => Some (scmp_header_size ScmpTracerouteReply)
  | 10 => Some ScmpTracerouteRequest | 11 => Some ScmpTracerouteReply
  | 12 => Some OptAuthenticator | 13 => Some AlgCMAC | 14 => Some SpiScmp | 15 => Some MaxHdrLen
  | 16 => Some BufSize | 17 => Some MinHeadroom | 18 => Some EpicMetaLen | 19 => Some ScionPathType
  | _ => None
  end.

Definition lenN {A} (l : list A) : N := N.of_nat (length l).
Definition takeN {A} (n : N) (l : list A) : list A := firstn (N.to_nat n) l.
Definition dropN {A} (n : N) (l : list A) : list A := skipn (N.to_nat n) l.

(** * Input *)
Record spin := mkSpin {
  sp_pkt : pkt;        (* decoded header (SCION path, or the SCION path inside an EPIC path) *)
  sp_epic : bool;      (* the path type is EPIC *)
  sp_tc : N; sp_flow : N;
  sp_next : N;         (* NextHdr of the common header *)
  sp_raw : bytes }.    (* the whole packet *)

(** bytes of the SCION header (4 * HdrLen) and what follows it *)
Definition hdr_bytes (x : spin) : N := lenN (sp_raw x) - p_pay_actual (sp_pkt x).
Definition payload (x : spin) : bytes := dropN (hdr_bytes x) (sp_raw x).

(** * [decodeLayers]: the HBH / E2E skippers ([decodeExtnBase] + the NextHdr checks) *)
Definition skip_ext (d : bytes) : option (N * bytes) :=
  match d with
  | nh :: el :: _ =>
    let al := (el + 1) * LineLen in
    if lenN d <? al then None else Some (nh, dropN al d)
  | _ => None
  end.

Definition skip_e2e (d : bytes) : option (N * bytes) :=
  match skip_ext d with
  | None => None
  | Some (n, d') => if (n =? HBH) || (n =? E2E) then None else Some (n, d')
  end.

(** the last decoded layer: its NextHdr and its payload; [None] = decoding error *)
Definition last_layer (next : N) (pld : bytes) : option (N * bytes) :=
  if next =? HBH then
    match skip_ext pld with
    | None => None
    | Some (n1, d1) =>
      if n1 =? HBH then None
      else if n1 =? E2E then skip_e2e d1
      else Some (n1, d1)
    end
  else if next =? E2E then skip_e2e pld
  else Some (next, pld).

(** [packSCMP]: is the offending packet itself an SCMP message, and of which kind *)
Inductive scmp_class := NotScmp | ScmpTruncated | ScmpError | ScmpInfo.
Definition classify (l : N * bytes) : scmp_class :=
  if fst l =? L4SCMP then
    match snd l with
    | t :: _ :: _ :: _ :: _ => if t <? 128 then ScmpError else ScmpInfo
    | _ => ScmpTruncated
    end
  else NotScmp.

(** * Path reversal ([Raw.ToDecoded]; [Decoded.Reverse]) *)
(** decoding drops the reserved bits; reversal flips ConsDir *)
Definition flip_info (i : info) : info := mkInfo (i_peer i) (negb (i_consdir i)) (i_segid i) (i_ts i) 0.
Definition u8 (n : N) : N := n mod 256.

Definition reverse (p : pkt) : option pkt :=
  let ni := num_inf p in
  if ni =? 0 then None
  else
    let s0 := if ni =? 3 then p_seg2 p else if ni =? 2 then p_seg1 p else p_seg0 p in
    let s1 := if ni =? 2 then p_seg0 p else p_seg1 p in
    let s2 := if ni =? 3 then p_seg0 p else p_seg2 p in
    Some (mkPkt (p_dst_ia p) (p_src_ia p) (p_dst_type p) (p_src_type p) (p_dst_raw p) (p_src_raw p)
                (p_pay_len p) (p_pay_actual p) (p_l4_port p)
                (u8 (ni + 256 - p_curr_inf p - 1)) (u8 (num_hops p + 256 - p_curr_hf p - 1))
                s0 s1 s2 0
                (rev (map flip_info (p_infos p))) (rev (map ser_hop (p_hops p)))).

(** [determinePeer(revPath.PathMeta, revPath.InfoFields[CurrINF])]; [None] = error *)
Definition det_peer (p : pkt) (i : info) : option bool :=
  if negb (i_peer i) then Some false
  else if p_seg0 p =? 0 then None
  else if p_seg1 p =? 0 then None
  else if negb (p_seg2 p =? 0) then None
  else Some ((p_curr_hf p =? p_seg0 p - 1) || (p_curr_hf p =? p_seg0 p)).

(** [Base.IsXover] with Go's uint8 arithmetic on CurrHF+1 *)
Definition is_xover8 (p : pkt) : bool :=
  (u8 (p_curr_hf p + 1) <? num_hops p) &&
  negb (p_curr_inf p =? inf_index_for_hf p (u8 (p_curr_hf p + 1))).

(** [Base.IncPath]; [None] = error *)
Definition inc_path_dec (p : pkt) : option pkt :=
  if num_inf p =? 0 then None
  else if num_hops p - 1 <=? p_curr_hf p then None
  else Some (inc_path p).

(** revert the cross-over the fast path may have done *)
Definition revert_xover (p : pkt) (peering : bool) : option pkt :=
  if is_xover8 p && negb peering then inc_path_dec p else Some p.

Inductive step := EPanic | EDrop | EOk (p : pkt).

(** the reply leaves over the ingress link: if that is an external link the path is
    advanced as an egress router would *)
Definition ext_inc (external : bool) (p : pkt) (peering : bool) : step :=
  if negb external then EOk p
  else
    match nthN (p_infos p) (p_curr_inf p) with
    | None => EPanic
    | Some i =>
      let upd :=
        if i_consdir i && negb peering then
          match nthN (p_hops p) (p_curr_hf p) with
          | None => None
          | Some h => Some (with_infos p (set_nthN (p_infos p) (p_curr_inf p) (upd_segid i h)))
          end
        else Some p in
      match upd with
      | None => EPanic
      | Some p1 => match inc_path_dec p1 with None => EDrop | Some p2 => EOk p2 end
      end
    end.

(** [PackAddr(localHost)]: v4-mapped addresses are unmapped *)
Definition pack_local (ip : bytes) : option (N * bytes) :=
  if lenN ip =? 4 then Some (T4Ip, ip)
  else if lenN ip =? 16 then
    if is_4in6 ip then Some (T4Ip, skipn 12 ip) else Some (T16Ip, ip)
  else None.

(** [Raw.ToDecoded] starts with [PathMeta.SerializeTo(s.Raw)]: the six reserved bits of the
    path meta header of the offending packet are cleared IN THE PACKET BUFFER before it is
    quoted.  Byte 1 of the meta header holds them above the two top bits of SegLen[0]. *)
Definition meta_rsv_off (x : spin) : N :=
  CmnHdrLen + addr_len (sp_pkt x) + (if sp_epic x then EpicMetaLen else 0) + 1.
Definition clear_rsv_at (l : bytes) (off : N) : bytes :=
  match nth_error l (N.to_nat off) with
  | Some b => firstn (N.to_nat off) l ++ N.land b 3 :: skipn (S (N.to_nat off)) l
  | None => l
  end.
Definition quoted (x : spin) : bytes := clear_rsv_at (sp_raw x) (meta_rsv_off x).

(** * Output *)
Record auth_opt := mkAuth {
  a_len : N;       (* bytes of the whole E2E extension header *)
  a_next : N;      (* its NextHdr *)
  a_spi : N; a_alg : N; a_ts : N; a_mac : bytes }.

Record reply := mkReply {
  r_hdr : pkt;         (* p_pay_len = PayloadLen field, p_pay_actual = bytes after the SCION header *)
  r_tc : N; r_flow : N; r_next : N;
  r_hdr_len : N;       (* HdrLen field (4-byte units) *)
  r_path_type : N;
  r_auth : option auth_opt;
  r_l4 : bytes }.      (* the SCMP message *)

Inductive sresult :=
| SPanic | SDrop
| SReply (r : reply)
| SEcho            (* router alert without a traceroute request: packet returned unchanged *)
| SMacMiss | SBadInput
| SUnparsable.     (* observation only: the emitted bytes are not a SCION packet *)

Definition total_len (r : reply) : N := 4 * r_hdr_len r + p_pay_actual (r_hdr r).

(** conversion to the packet record of Model/Spao.v *)
Definition to_spao_info (i : info) : Spao.info :=
  Spao.mkInfo 0 (i_peer i) (i_consdir i) 0 (i_segid i) (i_ts i).
Definition to_spao_hop (h : hop) : Spao.hop :=
  Spao.mkHop (h_ialert h) (h_ealert h) (h_exp h) (h_in h) (h_eg h) (h_mac h).
Definition to_spao (h : pkt) (tc flow ts : N) (l4 : bytes) : Spao.pkt :=
  Spao.mkPkt 0 tc flow E2E 0 0 ScionPathType (p_dst_type h) (p_src_type h)
             (p_dst_ia h) (p_src_ia h) (p_dst_raw h) (p_src_raw h)
             (Spao.PScion (Spao.mkMeta (p_curr_inf h) (p_curr_hf h) (p_seg0 h) (p_seg1 h) (p_seg2 h))
                          (map to_spao_info (p_infos h)) (map to_spao_hop (p_hops h)))
             [] AlgCMAC ts L4SCMP l4.

(** the byte string the CMAC of the reply is computed over *)
Definition auth_input (h : pkt) (tc flow ts : N) (l4 : bytes) : option bytes :=
  match Spao.auth_result (to_spao h tc flow ts l4) Spao.ASHostSender with
  | Some a => Some (a ++ l4)
  | None => None
  end.

Definition scn_len (h : pkt) : N :=
  CmnHdrLen + addr_len h + MetaLen + InfoLen * num_inf h + HopLen * num_hops h.

Section WithMac.
Variable macq : bytes -> option bytes.
Variable c : cfg.
Variable ing : ingress.

Definition external : bool := match ing with InExt _ => true | _ => false end.

(** the second half of [prepareSCMP]: header, quote, checksum, authenticator *)
Definition build (x : spin) (rp : pkt) (ty code : N) (body : bytes) (is_error needs_auth : bool)
           (ats : N) : sresult :=
  let p := sp_pkt x in
  match pack_local (c_local_host c) with
  | None => SDrop
  | Some (lt, lraw) =>
    let hdr0 := mkPkt (p_src_ia p) (c_ia c) (p_src_type p) lt (p_src_raw p) lraw 0 0 None
                      (p_curr_inf rp) (p_curr_hf rp) (p_seg0 rp) (p_seg1 rp) (p_seg2 rp) 0
                      (p_infos rp) (p_hops rp) in
    let scn := scn_len hdr0 in
    let hdrlen := scn + scmp_header_size ty + (if needs_auth then E2EAuthHdrLen else 0) in
    if is_error && (MaxSCMPPacketLen <? hdrlen) then SPanic      (* negative quote length *)
    else
      let quote :=
        if is_error then takeN (N.min (lenN (sp_raw x)) (MaxSCMPPacketLen - hdrlen)) (quoted x)
        else [] in
      let ah := {| Checksum.dst_ia := p_src_ia p; Checksum.src_ia := c_ia c;
                   Checksum.raw_dst := p_src_raw p; Checksum.raw_src := lraw |} in
      match Checksum.serialize ah (Checksum.SCMP ty code) (body ++ quote) with
      | Checksum.Panic => SPanic
      | Checksum.ErrNoDst | Checksum.ErrNoSrc => SDrop
      | Checksum.Ok l4 =>
        let pay := (if needs_auth then E2EAuthHdrLen else 0) + lenN l4 in
        let hdr := mkPkt (p_src_ia p) (c_ia c) (p_src_type p) lt (p_src_raw p) lraw
                         (pay mod 65536) pay None
                         (p_curr_inf rp) (p_curr_hf rp) (p_seg0 rp) (p_seg1 rp) (p_seg2 rp) 0
                         (p_infos rp) (p_hops rp) in
        if MaxHdrLen <? scn then SDrop
        else if needs_auth then
          match parse_host (p_src_type p) (p_src_raw p) with
          | HBad => SDrop
          | _ =>
            match auth_input hdr (sp_tc x) (sp_flow x) ats l4 with
            | None => SDrop
            | Some inp =>
              match macq inp with
              | None => SMacMiss
              | Some tag =>
                SReply (mkReply hdr (sp_tc x) (sp_flow x) E2E (u8 (scn / LineLen)) ScionPathType
                                (Some (mkAuth E2EAuthHdrLen L4SCMP SpiScmp AlgCMAC ats tag)) l4)
              end
            end
          end
        else
          SReply (mkReply hdr (sp_tc x) (sp_flow x) L4SCMP (u8 (scn / LineLen)) ScionPathType None l4)
      end
  end.

(** [prepareSCMP] *)
Definition prepare (x : spin) (ty code : N) (body : bytes) (is_error needs_auth : bool) (ats : N)
  : sresult :=
  match reverse (sp_pkt x) with
  | None => SDrop
  | Some r0 =>
    match nthN (p_infos r0) (p_curr_inf r0) with
    | None => SPanic
    | Some i0 =>
      match det_peer r0 i0 with
      | None => SDrop
      | Some peering =>
        match revert_xover r0 peering with
        | None => SDrop
        | Some r1 =>
          match ext_inc external r1 peering with
          | EPanic => SPanic
          | EDrop => SDrop
          | EOk r2 => build x r2 ty code body is_error needs_auth ats
          end
        end
      end
    end
  end.

(** the message body after the 4-byte SCMP header, by type ([processPacket]); [None]: Go panics *)
Definition scmp_body (ty ptr egress : N) : option bytes :=
  if ty =? ScmpParameterProblem then Some ([0; 0] ++ be 2 ptr)
  else if ty =? ScmpDestUnreachable then Some [0; 0; 0; 0]
  else if ty =? ScmpExternalInterfaceDown then Some (be 8 (c_ia c) ++ be 8 egress)
  else if ty =? ScmpInternalConnectivityDown
  then Some (be 8 (c_ia c) ++ be 8 (ing_ifid ing) ++ be 8 egress)
  else None.

(** [handleSCMPTraceRouteRequest] *)
Definition traceroute (x : spin) (ll : N * bytes) (ifid : N) (valid_auth : bool) (ats : N) : sresult :=
  if negb (fst ll =? L4SCMP) then SEcho
  else
    match snd ll with
    | t :: cd :: _ :: _ :: rest =>
      if negb ((t =? ScmpTracerouteRequest) && (cd =? 0)) then SEcho
      else if lenN rest <? 20 then SEcho
      else prepare x ScmpTracerouteReply 0
                   (firstn 4 rest ++ be 8 (c_ia c) ++ be 8 ifid) false
                   (c_scmp_auth c && valid_auth) ats
    | _ => SEcho
    end.

(** [slowPathPacketProcessor.processPacket] *)
Definition slow_path (req : spreq) (egress : N) (x : spin) (valid_auth : bool) (ats : N) : sresult :=
  let p := sp_pkt x in
  if negb (seglen_ok p) || (MaxHops <? num_hops p) then SDrop
  else if negb (well_formed p) then SBadInput
  else
    match last_layer (sp_next x) (payload x) with
    | None => SDrop
    | Some ll =>
      match req with
      | SpAlertIngress => traceroute x ll (ing_ifid ing) valid_auth ats
      | SpAlertEgress => traceroute x ll egress valid_auth ats
      | SpScmp ty code ptr =>
        match scmp_body ty ptr egress with
        | None => SPanic
        | Some body =>
          match classify ll with
          | ScmpTruncated | ScmpError => SDrop
          | NotScmp | ScmpInfo => prepare x ty code body true (c_scmp_auth c) ats
          end
        end
      end
    end.

End WithMac.

(** * Equality tests *)
Definition auth_eqb (a b : auth_opt) : bool :=
  (a_len a =? a_len b) && (a_next a =? a_next b) && (a_spi a =? a_spi b) && (a_alg a =? a_alg b) &&
  (a_ts a =? a_ts b) && bytes_eqb (a_mac a) (a_mac b).
Definition reply_eqb (a b : reply) : bool :=
  pkt_eqb (r_hdr a) (r_hdr b) && (r_tc a =? r_tc b) && (r_flow a =? r_flow b) &&
  (r_next a =? r_next b) && (r_hdr_len a =? r_hdr_len b) && (r_path_type a =? r_path_type b) &&
  option_eqb auth_eqb (r_auth a) (r_auth b) && bytes_eqb (r_l4 a) (r_l4 b).
Definition sresult_eqb (a b : sresult) : bool :=
  match a, b with
  | SPanic, SPanic | SDrop, SDrop | SEcho, SEcho => true
  | SReply x, SReply y => reply_eqb x y
  | _, _ => false
  end.

(** * The property, as a boolean function of the input and an observed reply *)
Definition is_prefix (a b : bytes) : bool := bytes_eqb a (firstn (length a) b).

(** header geometry of an emitted packet: HdrLen covers exactly common + address + path header,
    PayloadLen is what follows, the path pointers are inside the path and consistent *)
Definition geom_ok (r : reply) : bool :=
  let h := r_hdr r in
  (LineLen * r_hdr_len r =? scn_len h) && (r_hdr_len r <? 256) &&
  (p_pay_len h =? p_pay_actual h) &&
  (p_pay_actual h =? (match r_auth r with Some a => a_len a | None => 0 end) + lenN (r_l4 r)) &&
  seglen_ok h && (num_hops h <=? MaxHops) && well_formed h &&
  (p_curr_hf h <? num_hops h) && (p_curr_inf h =? inf_index_for_hf h (p_curr_hf h)) &&
  (r_path_type r =? ScionPathType) &&
  (lenN (p_dst_raw h) =? addr_type_len (p_dst_type h)) &&
  (lenN (p_src_raw h) =? addr_type_len (p_src_type h)) &&
  match r_auth r with
  | Some a => (r_next r =? E2E) && (a_next a =? L4SCMP) && (a_len a =? E2EAuthHdrLen)
  | None => r_next r =? L4SCMP
  end.

Definition addressing_ok (c : cfg) (x : spin) (r : reply) : bool :=
  let p := sp_pkt x in
  let h := r_hdr r in
  (p_dst_ia h =? p_src_ia p) && (p_dst_type h =? p_src_type p) && bytes_eqb (p_dst_raw h) (p_src_raw p) &&
  (p_src_ia h =? c_ia c) &&
  match pack_local (c_local_host c) with
  | Some (lt, lraw) => (p_src_type h =? lt) && bytes_eqb (p_src_raw h) lraw
  | None => false
  end.

(** type, code and the type-specific body (pointer / interface ids) match the request *)
Definition type_code_ok (c : cfg) (ing : ingress) (ty code ptr egress : N) (r : reply) : bool :=
  match r_l4 r, scmp_body c ing ty ptr egress with
  | t :: cd :: _ :: _ :: rest, Some body =>
    (t =? ty) && (cd =? code) && bytes_eqb (firstn (length body) rest) body &&
    (lenN body + 4 =? scmp_header_size ty)
  | _, _ => false
  end.

(** what follows the SCMP header and body is a prefix of the offending packet *)
Definition quote_of (ty : N) (r : reply) : bytes := dropN (scmp_header_size ty) (r_l4 r).
Definition quote_ok (x : spin) (ty : N) (r : reply) : bool := is_prefix (quote_of ty r) (sp_raw x).

Definition size_ok (r : reply) : bool := total_len r <=? MaxSCMPPacketLen.

Definition checksum_ok (r : reply) : bool :=
  let h := r_hdr r in
  match Checksum.verify_sum {| Checksum.dst_ia := p_dst_ia h; Checksum.src_ia := p_src_ia h;
                               Checksum.raw_dst := p_dst_raw h; Checksum.raw_src := p_src_raw h |}
                            (lenN (r_l4 r)) (r_l4 r) L4SCMP with
  | Checksum.Ok s => s =? 65535
  | _ => false
  end.

(** authentication: enabled => an authenticator option with the SCMP DRKey SPI and CMAC whose
    tag is the MAC of the documented input computed from the OBSERVED packet; disabled => none *)
Definition auth_ok (macq : bytes -> option bytes) (c : cfg) (r : reply) : bool :=
  if c_scmp_auth c then
    match r_auth r with
    | None => false
    | Some a =>
      (a_spi a =? SpiScmp) && (a_alg a =? AlgCMAC) &&
      match auth_input (r_hdr r) (r_tc r) (r_flow r) (a_ts a) (r_l4 r) with
      | Some inp => match macq inp with Some tag => bytes_eqb (a_mac a) tag | None => false end
      | None => false
      end
    end
  else match r_auth r with None => true | Some _ => false end.

(** the offending packet is an SCMP error message *)
Definition is_scmp_error (x : spin) : bool :=
  match last_layer (sp_next x) (payload x) with
  | Some ll => match classify ll with ScmpError => true | _ => false end
  | None => false
  end.

(** known finding: the quoted packet has the reserved bits of its path meta header cleared;
    it shows when the offending packet carries non-zero bits there *)
Definition known_quote (x : spin) : bool :=
  match nth_error (sp_raw x) (N.to_nat (meta_rsv_off x)) with
  | Some b => negb (b / 4 =? 0)
  | None => false
  end.

(** the pointer of a parameter problem designates the offending field IN THE OFFENDING PACKET:
    the current hop field for the hop-field problems (codes 48..52), the current info field for an
    invalid segment change, the DstIA / SrcIA field or 0 for address problems, 0 for the size *)
Definition path_shift (x : spin) : N := if sp_epic x then EpicMetaLen else 0.
Definition ptr_ok_pkt (shift : N) (p : pkt) (ty code ptr : N) : bool :=
  if negb (ty =? ScmpParameterProblem) then true
  else if code =? CodeInvalidSegmentChange then ptr =? inf_ptr p + shift
  else if (CodeInvalidPath <=? code) && (code <=? CodePathExpired) then ptr =? hop_ptr p + shift
  else if code =? CodeInvalidPacketSize then ptr =? 0
  else if code =? CodeInvalidSourceAddress then (ptr =? 0) || (ptr =? CmnHdrLen + IABytes)
  else if code =? CodeInvalidDestinationAddress then (ptr =? 0) || (ptr =? CmnHdrLen)
  else true.
Definition ptr_ok (x : spin) (ty code ptr : N) : bool :=
  ptr_ok_pkt (path_shift x) (sp_pkt x) ty code ptr.

Definition c09_ok (macq : bytes -> option bytes) (c : cfg) (ing : ingress) (req : spreq) (egress : N)
           (x : spin) (res : sresult) : bool :=
  match res, req with
  | SReply r, SpScmp ty code ptr =>
    negb (is_scmp_error x) &&
    addressing_ok c x r && type_code_ok c ing ty code ptr egress r && ptr_ok x ty code ptr &&
    quote_ok x ty r &&
    size_ok r && geom_ok r && checksum_ok r && auth_ok macq c r
  | SReply r, _ => geom_ok r && checksum_ok r       (* traceroute reply: C10; only well-formedness here *)
  | SPanic, _ | SUnparsable, _ => false
  | _, _ => true
  end.

(** * Cases *)
Fixpoint tbl_lookup (t : list (bytes * bytes)) (k : bytes) : option bytes :=
  match t with
  | [] => None
  | (k', v) :: r => if bytes_eqb k k' then Some v else tbl_lookup r k
  end.

Inductive case :=
| CConst (k v : N)
| CSlow (c : cfg) (ing : ingress) (req : spreq) (egress : N) (x : spin)
        (valid_auth : bool) (ats : N)
        (macs : list (bytes * bytes))      (* CMAC inputs with their tags (real key, Go side) *)
        (impl : sresult).                  (* the reply of the real slow path, decoded *)

Definition model (cs : case) : sresult :=
  match cs with
  | CConst _ _ => SDrop
  | CSlow c ing req eg x va ats macs _ => slow_path (tbl_lookup macs) c ing req eg x va ats
  end.

Definition agree (cs : case) : bool :=
  match cs with
  | CConst k v => option_eqb N.eqb (const_value k) (Some v)
  | CSlow _ _ _ _ _ _ _ _ impl => sresult_eqb (model cs) impl
  end.

Definition oracle (cs : case) : bool :=
  match cs with
  | CConst _ _ => true
  | CSlow c ing req eg x _ _ macs impl => c09_ok (tbl_lookup macs) c ing req eg x impl
  end.

Definition check (cs : case) : N := Check.verdict (agree cs) (oracle cs).

(** what is shown for a failing case: the model's result with the SCMP message cut to its first
    48 bytes, and the length of the message *)
Definition diag (cs : case) : sresult * N :=
  match model cs with
  | SReply r =>
    (SReply (mkReply (r_hdr r) (r_tc r) (r_flow r) (r_next r) (r_hdr_len r) (r_path_type r) (r_auth r)
                     (firstn 48 (r_l4 r))), lenN (r_l4 r))
  | m => (m, 0)
  end.

(** * Compact constructors used by the runner
    byte strings travel as primitive integers (see Model/Checksum.v); so do hop fields (two
    integers: alerts(2) ExpTime(8) ConsIngress(16) ConsEgress(16) reserved(8) | MAC(48)), info
    fields (peer(1) consdir(1) reserved(16) SegID(16) | timestamp) and the path meta header
    (CurrINF CurrHF SegLen[0..2] reserved, 8 bits each) *)
Definition bytesI := Checksum.bytes_of_ints.
Definition toN (w : int) : N := Z.to_N (Uint63.to_Z w).
Definition hopI (a b : int) : hop :=
  let n := toN a in
  hopc (N.testbit n 49) (N.testbit n 48) (n mod 281474976710656) (toN b).
Fixpoint hopsI (l : list int) : list hop :=
  match l with a :: b :: t => hopI a b :: hopsI t | _ => [] end.
Definition infoI (a b : int) : info :=
  let n := toN a in
  mkInfo (N.testbit n 33) (N.testbit n 32) (n mod 65536) (toN b) (n / 65536 mod 65536).
Fixpoint infosI (l : list int) : list info :=
  match l with a :: b :: t => infoI a b :: infosI t | _ => [] end.
Definition pktI (dst_ia src_ia dt st : N) (draw sraw : bytes) (paylen payact : N) (meta : int)
           (infos hops : list int) : pkt :=
  let m := toN meta in
  mkPkt dst_ia src_ia dt st draw sraw paylen payact None
        (m / 1099511627776 mod 256) (m / 4294967296 mod 256)
        (m / 16777216 mod 256) (m / 65536 mod 256) (m / 256 mod 256) (m mod 256)
        (infosI infos) (hopsI hops).

End RouterScmp.
