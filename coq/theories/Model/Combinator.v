(** Model of private/path/combinator (graph.go, combinator.go):
      newDMG / traverseSegment / AddEdge      -> [seg_tuples], [add_edge], [build]
      dmg.GetPaths (BFS + validNextSeg + sort) -> [expand1], [levels], [sol_cmp], [isort], [get_paths]
      pathSolution.Path, calculateBeta,
      segment(List).ComputeExpTime            -> [render_edge], [calc_beta], [render_sol]
      filterLongPaths, filterDuplicates        -> [is_long], [filter_dups]
      Combine                                  -> [combine]

    Conventions.  ISD-AS, interface ids, MTUs, weights: [N].  Indices (AS entry
    index = Shortcut, peer entry index + 1 = Peer): [nat].  Expiry: unix
    milliseconds.  A Go map iteration order is replaced by list order; the BFS
    queue is processed level by level (which is the order a FIFO queue gives);
    the result is sorted afterwards as in the code, so only ties of the complete
    sort key depend on that order (see [has_ties]).  The segment id (SHA-256 over
    the hop interfaces) is input data ([is_id], as the big-endian number of the
    32 bytes: bytes.Compare on equal-length strings is the order of these
    numbers).  The path fingerprint (SHA-256 of the interface sequence) is
    represented by the interface sequence itself.
    Not modelled: static-info metadata (latency, geo, ...), EPIC authenticators,
    the byte serialisation of the data-plane path (the runner decodes the raw
    path with the real decoder and the decoded fields are compared). *)
From Coq Require Import List NArith Bool Arith.
From Scion Require Import Lib.Check Model.Segment Model.CombSpec.
Import ListNotations.
Local Open Scope N_scope.

Module Combinator.
Import Segment.
Export CombSpec.

Inductive result (A : Type) := Done (a : A) | OutOfFuel | Panic.
Arguments Done {A} a.
Arguments OutOfFuel {A}.
Arguments Panic {A}.

(** ---- input segments (inputSegment: segment + role; identity = Go pointer) ---- *)
Inductive segtype := Up | CoreT | Down.
Definition segtype_eqb (a b : segtype) : bool :=
  match a, b with Up, Up | CoreT, CoreT | Down, Down => true | _, _ => false end.

Record inseg := mkIn {
  is_ty  : segtype;
  is_pos : nat;        (* position in its input list: with [is_ty] the identity of the Go object *)
  is_id  : N;          (* PathSegment.ID() *)
  is_seg : segment
}.
Definition inseg_same (a b : inseg) : bool :=
  segtype_eqb (is_ty a) (is_ty b) && Nat.eqb (is_pos a) (is_pos b).

(** ---- vertices: struct {IA, UpIA, UpIfID, DownIA, DownIfID} ---- *)
Definition vertex := (N * N * N * N * N)%type.
Definition v_ia (ia : N) : vertex := (ia, 0, 0, 0, 0).
Definition v_peer (up_ia up_if down_ia down_if : N) : vertex := (0, up_ia, up_if, down_ia, down_if).
Definition v_rev (v : vertex) : vertex :=
  match v with (ia, a, i, b, j) => (ia, b, j, a, i) end.
Definition vertex_eqb (x y : vertex) : bool :=
  match x, y with (x1, x2, x3, x4, x5), (y1, y2, y3, y4, y5) =>
    (x1 =? y1) && (x2 =? y2) && (x3 =? y3) && (x4 =? y4) && (x5 =? y5) end.

Record edge := mkEdge {
  e_src  : vertex;
  e_dst  : vertex;
  e_seg  : inseg;
  e_w    : N;          (* Weight *)
  e_sc   : nat;        (* Shortcut: AS entry index where the used part ends (up) / starts (down) *)
  e_peer : nat         (* Peer: index + 1 of the peer entry used at [e_sc]; 0 = none *)
}.

(** ---- traverseSegment ---- *)
Definition mk_tuple (s : inseg) (pinned : N) (n idx : nat) (dstv : vertex) (peer : nat) : edge :=
  let w := N.of_nat (n - 1 - idx) in
  match is_ty s with
  | Down => mkEdge (v_rev dstv) (v_ia pinned) s (match peer with O => w | _ => w + 1 end) idx peer
  | _ => mkEdge (v_ia pinned) dstv s w idx peer
  end.

Definition entry_tuples (s : inseg) (pinned : N) (n : nat) (ix : nat * as_entry) : list edge :=
  let '(idx, a) := ix in
  (if Nat.eqb idx (n - 1) then [] else [mk_tuple s pinned n idx (v_ia (ae_ia a)) 0]) ++
  map (fun kp => mk_tuple s pinned n idx
                   (v_peer (ae_ia a) (h_in (pe_hop (snd kp))) (pe_ia (snd kp)) (pe_if (snd kp)))
                   (S (fst kp)))
      (enum (ae_peers a)).

(** the AddEdge calls made for one segment, in call order *)
Definition seg_tuples (s : inseg) : list edge :=
  let sg := is_seg s in
  let es := sg_entries sg in
  let n := length es in
  match is_ty s with
  | CoreT => [mkEdge (v_ia (last_ia sg)) (v_ia (first_ia sg)) s (N.of_nat (n - 1)) 0 0]
  | _ => flat_map (entry_tuples s (last_ia sg) n) (rev (enum es))
  end.

(** AddEdge: Adjacencies[src][dst][segment] = e (a later call replaces an earlier one) *)
Definition same_key (a b : edge) : bool :=
  vertex_eqb (e_src a) (e_src b) && vertex_eqb (e_dst a) (e_dst b) && inseg_same (e_seg a) (e_seg b).
Definition add_edge (g : list edge) (e : edge) : list edge :=
  filter (fun x => negb (same_key x e)) g ++ [e].

Definition insegs (ups cores downs : list (N * segment)) : list inseg :=
  map (fun x => mkIn Up (fst x) (fst (snd x)) (snd (snd x))) (enum ups) ++
  map (fun x => mkIn CoreT (fst x) (fst (snd x)) (snd (snd x))) (enum cores) ++
  map (fun x => mkIn Down (fst x) (fst (snd x)) (snd (snd x))) (enum downs).

Definition all_tuples (segs : list inseg) : list edge := flat_map seg_tuples segs.
Definition build (segs : list inseg) : list edge := fold_left add_edge (all_tuples segs) [].

(** ---- GetPaths ---- *)
Record psol := mkSol {
  ps_edges : list edge;
  ps_cur   : vertex;
  ps_seg   : option segtype;   (* type of currentSeg; None = no segment yet *)
  ps_cost  : N
}.

Definition valid_next (cur : option segtype) (nxt : segtype) : bool :=
  match cur with
  | None => true
  | Some Up => match nxt with CoreT | Down => true | Up => false end
  | Some CoreT => match nxt with Down => true | _ => false end
  | Some Down => false
  end.

Definition extend (s : psol) (e : edge) : psol :=
  mkSol (ps_edges s ++ [e]) (e_dst e) (Some (is_ty (e_seg e))) (ps_cost s + e_w e).

Definition usable (s : psol) (e : edge) : bool :=
  vertex_eqb (e_src e) (ps_cur s) && valid_next (ps_seg s) (is_ty (e_seg e)).

(** one queue element: (new solutions, new queue elements) *)
Definition expand1 (g : list edge) (dst : vertex) (s : psol) : list psol * list psol :=
  partition (fun n => vertex_eqb (ps_cur n) dst) (map (extend s) (filter (usable s) g)).

Fixpoint levels (fuel : nat) (g : list edge) (dst : vertex) (frontier : list psol)
  : result (list psol) :=
  match frontier with
  | [] => Done []
  | _ =>
    match fuel with
    | O => OutOfFuel
    | S f =>
      let r := map (expand1 g dst) frontier in
      match levels f g dst (flat_map snd r) with
      | Done rest => Done (flat_map fst r ++ rest)
      | x => x
      end
    end
  end.

(** the comparison function handed to slices.SortFunc *)
Definition cmp_or (a b : comparison) : comparison := match a with Eq => b | _ => a end.
Fixpoint trail_cmp (a b : list edge) : comparison :=
  match a, b with
  | x :: a', y :: b' =>
    match cmp_or (N.compare (is_id (e_seg x)) (is_id (e_seg y)))
          (cmp_or (Nat.compare (e_sc x) (e_sc y)) (Nat.compare (e_peer x) (e_peer y))) with
    | Eq => trail_cmp a' b'
    | c => c
    end
  | _, _ => Eq
  end.
Definition sol_cmp (a b : psol) : comparison :=
  match cmp_or (N.compare (ps_cost a) (ps_cost b))
               (Nat.compare (length (ps_edges a)) (length (ps_edges b))) with
  | Eq => trail_cmp (ps_edges a) (ps_edges b)
  | c => c
  end.
Definition sol_leb (a b : psol) : bool := match sol_cmp a b with Gt => false | _ => true end.

(** stable insertion sort *)
Fixpoint insert (x : psol) (l : list psol) : list psol :=
  match l with
  | [] => [x]
  | y :: t => if sol_leb x y then x :: l else y :: insert x t
  end.
Definition isort (l : list psol) : list psol := fold_right insert [] l.

Definition init_sol (src : vertex) : psol := mkSol [] src None 0.

Definition get_paths (g : list edge) (src dst : vertex) : result (list psol) :=
  match levels 4 g dst [init_sol src] with
  | Done l => Done (isort l)
  | x => x
  end.

(** ---- pathSolution.Path ---- *)
Record info := mkInfo { i_ts : N; i_segid : N; i_consdir : bool; i_peer : bool }.
Record slice := mkSlice {
  sl_info : info;
  sl_hops : list (N * hopf);   (* (ISD-AS of the AS entry, hop field), in forwarding order *)
  sl_ifs  : list iface
}.
Record path := mkPath {
  p_slices : list slice;
  p_ifs    : list iface;       (* Metadata.Interfaces *)
  p_mtu    : N;                (* Metadata.MTU *)
  p_exp    : N;                (* Metadata.Expiry, unix ms *)
  p_weight : N                 (* Weight *)
}.

Definition u16 (x : N) : N := x mod 65536.
Definition u32 (x : N) : N := x mod 4294967296.

(** AS entries visited by the loop [for asEntryIdx := len-1; asEntryIdx >= Shortcut; asEntryIdx--],
    in visiting order, each with the flag [asEntryIdx == Shortcut] *)
Definition trav_list (sc : nat) (es : list as_entry) : list (bool * as_entry) :=
  match skipn sc es with
  | [] => []
  | c :: rest => map (pair false) (rev rest) ++ [(true, c)]
  end.

Definition rstate := (list (N * hopf) * list iface * N)%type.   (* hops, intfs, mtu *)

(** one iteration of that loop; [None] = index out of range (Go panics) *)
Definition step_entry (e : edge) (st : option rstate) (x : bool * as_entry) : option rstate :=
  match st with
  | None => None
  | Some (hops, intfs, mtu) =>
    let '(cut, ae) := x in
    let is_sc := cut && negb (Nat.eqb (e_sc e) 0) in
    let is_peer := cut && negb (Nat.eqb (e_peer e) 0) in
    let r :=
      if is_peer then
        match nth_error (ae_peers ae) (e_peer e - 1) with
        | None => None
        | Some p => Some (pe_hop p, N.min mtu (u16 (pe_mtu p)))
        end
      else Some (ae_hop ae,
                 if negb (ae_inmtu ae =? 0) && negb is_sc then N.min mtu (u16 (ae_inmtu ae)) else mtu) in
    match r with
    | None => None
    | Some (h, mtu1) =>
      let i1 := if h_eg h =? 0 then [] else [(ae_ia ae, h_eg h)] in
      let i2 := if negb (h_in h =? 0) && (negb is_sc || is_peer) then [(ae_ia ae, h_in h)] else [] in
      Some (hops ++ [(ae_ia ae, h)], intfs ++ i1 ++ i2, N.min mtu1 (u16 (ae_mtu ae)))
    end
  end.

Definition is_down (e : edge) : bool := segtype_eqb (is_ty (e_seg e)) Down.

(** calculateBeta *)
Definition beta_index (e : edge) : nat :=
  if is_down e then e_sc e + (match e_peer e with O => 0 | _ => 1 end)
  else let i := (length (sg_entries (is_seg (e_seg e))) - 1)%nat in
       if Nat.eqb i (e_sc e) && negb (Nat.eqb (e_peer e) 0) then S i else i.
Definition calc_beta (e : edge) : N :=
  fold_left (fun b a => N.lxor b (mac16 (h_mac (ae_hop a))))
            (firstn (beta_index e) (sg_entries (is_seg (e_seg e))))
            (sg_segid (is_seg (e_seg e))).

(** body of the loop over solution.edges: the rendered segment and the running mtu *)
Definition render_edge (mtu : N) (e : edge) : option (slice * N) :=
  let sg := is_seg (e_seg e) in
  match fold_left (step_entry e) (trav_list (e_sc e) (sg_entries sg)) (Some ([], [], mtu)) with
  | None => None
  | Some (hops, intfs, mtu') =>
    let inf := mkInfo (u32 (sg_ts sg)) (calc_beta e) (is_down e) (negb (Nat.eqb (e_peer e) 0)) in
    Some (if is_down e then mkSlice inf (rev hops) (rev intfs) else mkSlice inf hops intfs, mtu')
  end.

(** segment.ComputeExpTime / segmentList.ComputeExpTime *)
Definition slice_exp (sl : slice) : N :=
  i_ts (sl_info sl) * 1000 +
  fold_left (fun m h => N.min m (exp_ms (h_exp (snd h)))) (sl_hops sl) max_ttl_ms.
Definition max_exp_ms : N := 4294967295 * 1000 + max_ttl_ms.
Definition path_exp (sls : list slice) : N :=
  fold_left (fun m sl => N.min m (slice_exp sl)) sls max_exp_ms.

Definition render_step (st : option (list slice * N)) (e : edge) : option (list slice * N) :=
  match st with
  | None => None
  | Some (sls, mtu) =>
    match render_edge mtu e with
    | None => None
    | Some (sl, mtu') => Some (sls ++ [sl], mtu')
    end
  end.

Definition render_sol (s : psol) : option path :=
  match fold_left render_step (ps_edges s) (Some ([], 65535)) with
  | None => None
  | Some (sls, mtu) =>
    let ifs := flat_map sl_ifs sls in
    (* collectMetadata panics on an odd number of interfaces *)
    if Nat.odd (length ifs) then None
    else Some (mkPath sls ifs mtu (path_exp sls) (ps_cost s))
  end.

Fixpoint render_all (l : list psol) : option (list path) :=
  match l with
  | [] => Some []
  | s :: t =>
    match render_sol s, render_all t with
    | Some p, Some ps => Some (p :: ps)
    | _, _ => None
    end
  end.

(** ---- filterLongPaths ---- *)
Definition is_long (ifs : list iface) : bool :=
  existsb (fun x => (2 <? count_ia (fst x) ifs)%nat) ifs.

(** ---- filterDuplicates ----
    uniquePaths: fingerprint -> index of the kept path (with its expiry) *)
Definition dmap := list (list iface * (nat * N)).
Fixpoint dm_get (k : list iface) (m : dmap) : option (nat * N) :=
  match m with
  | [] => None
  | (k', v) :: t => if ifs_eqb k k' then Some v else dm_get k t
  end.
Fixpoint dm_set (k : list iface) (v : nat * N) (m : dmap) : dmap :=
  match m with
  | [] => [(k, v)]
  | (k', v') :: t => if ifs_eqb k k' then (k', v) :: t else (k', v') :: dm_set k v t
  end.
Definition dm_step (m : dmap) (ip : nat * path) : dmap :=
  let '(i, p) := ip in
  match dm_get (p_ifs p) m with
  | None => dm_set (p_ifs p) (i, p_exp p) m
  | Some (_, prev_exp) => if prev_exp <? p_exp p then dm_set (p_ifs p) (i, p_exp p) m else m
  end.
Definition dm_of (ps : list path) : dmap := fold_left dm_step (enum ps) [].
Definition filter_dups (ps : list path) : list path :=
  let m := dm_of ps in
  map snd (filter (fun ip => match dm_get (p_ifs (snd ip)) m with
                             | Some (j, _) => Nat.eqb (fst ip) j
                             | None => false end) (enum ps)).

(** ---- Combine ---- *)
Definition seg_empty (s : inseg) : bool :=
  match sg_entries (is_seg s) with [] => true | _ => false end.

(** all paths before filtering, in sorted order *)
Definition all_paths (src dst : N) (segs : list inseg) : result (list path) :=
  if existsb seg_empty segs then Panic else
  match get_paths (build segs) (v_ia src) (v_ia dst) with
  | Done sols => match render_all sols with Some ps => Done ps | None => Panic end
  | OutOfFuel => OutOfFuel
  | Panic => Panic
  end.

Definition not_long (p : path) : bool := negb (is_long (p_ifs p)).

Definition combine (src dst : N) (ups cores downs : list (N * segment)) (find_all : bool)
  : result (list path) :=
  match all_paths src dst (insegs ups cores downs) with
  | Done ps =>
    let ps1 := filter not_long ps in
    Done (if find_all then ps1 else filter_dups ps1)
  | OutOfFuel => OutOfFuel
  | Panic => Panic
  end.

(** ------------------------------------------------------------------
    Correspondence cases. *)

(** what is observed on one combinator.Path *)
Record obs := mkObs {
  o_ifs    : list iface;   (* Metadata.Interfaces *)
  o_seglen : list N;       (* PathMeta.SegLen[0..2] of the decoded raw path *)
  o_infos  : list info;    (* decoded info fields *)
  o_hops   : list hopf;    (* decoded hop fields *)
  o_exp    : N;            (* Metadata.Expiry.UnixMilli() *)
  o_mtu    : N;            (* Metadata.MTU *)
  o_weight : N             (* Weight *)
}.

Definition info_eqb (a b : info) : bool :=
  (i_ts a =? i_ts b) && (i_segid a =? i_segid b) &&
  Bool.eqb (i_consdir a) (i_consdir b) && Bool.eqb (i_peer a) (i_peer b).

Definition obs_eqb (a b : obs) : bool :=
  ifs_eqb (o_ifs a) (o_ifs b) && list_eqb N.eqb (o_seglen a) (o_seglen b) &&
  list_eqb info_eqb (o_infos a) (o_infos b) && list_eqb hopf_eqb (o_hops a) (o_hops b) &&
  (o_exp a =? o_exp b) && (o_mtu a =? o_mtu b) && (o_weight a =? o_weight b).

Definition pad3 (l : list N) : list N :=
  match l with
  | [] => [0; 0; 0] | [a] => [a; 0; 0] | [a; b] => [a; b; 0] | _ => l
  end.

Definition obs_of (p : path) : obs :=
  mkObs (p_ifs p)
        (pad3 (map (fun sl => N.of_nat (length (sl_hops sl))) (p_slices p)))
        (map sl_info (p_slices p))
        (flat_map (fun sl => map snd (sl_hops sl)) (p_slices p))
        (p_exp p) (p_mtu p) (p_weight p).

(** compact notation for the generated cases: a hop field with its MAC given as
    the big-endian number of the 6 bytes *)
Definition be6 (m : N) : list N :=
  [m / 1099511627776 mod 256; m / 4294967296 mod 256; m / 16777216 mod 256;
   m / 65536 mod 256; m / 256 mod 256; m mod 256].
Definition hopN (i e x m : N) : hopf := mkHop i e x (be6 m).

Inductive case :=
| CCombine (src dst : N) (ups cores downs : list (N * segment)) (find_all : bool)
           (impl : option (list obs)).    (* None = Combine panicked *)

Definition segs_of (l : list (N * segment)) : list segment := map snd l.

(** -- agreement -- *)
Definition mem_obs (x : obs) (l : list obs) : bool := existsb (obs_eqb x) l.
Definition count_obs (x : obs) (l : list obs) : nat := length (filter (obs_eqb x) l).
Definition multiset_eqb (a b : list obs) : bool :=
  Nat.eqb (length a) (length b) &&
  forallb (fun x => Nat.eqb (count_obs x a) (count_obs x b)) a.

Fixpoint sorted_w (l : list obs) : bool :=
  match l with
  | a :: ((b :: _) as t) => (o_weight a <=? o_weight b) && sorted_w t
  | _ => true
  end.

(** Do two different solutions share the complete sort key?  Then the order of
    the implementation's result (map iteration + unstable sort) is not determined. *)
Fixpoint has_ties (l : list psol) : bool :=
  match l with
  | a :: ((b :: _) as t) => (match sol_cmp a b with Eq => true | _ => false end) || has_ties t
  | _ => false
  end.

(** projection that does not depend on which of several tied solutions was kept *)
Definition proj3 (o : obs) : obs := mkObs (o_ifs o) [] [] [] (o_exp o) 0 (o_weight o).

Definition sorted_sols (src dst : N) (segs : list inseg) : list psol :=
  match get_paths (build segs) (v_ia src) (v_ia dst) with Done l => l | _ => [] end.

Definition agree (src dst : N) (ups cores downs : list (N * segment)) (find_all : bool)
                 (impl : option (list obs)) : bool :=
  match combine src dst ups cores downs find_all, impl with
  | Done ps, Some os =>
    let ms := map obs_of ps in
    if has_ties (sorted_sols src dst (insegs ups cores downs)) then
      (* order inside a tie class is free: same multiset, still sorted by weight;
         without findAllIdentical the kept duplicate may be any tied one *)
      let cand := match all_paths src dst (insegs ups cores downs) with
                  | Done c => map obs_of (filter not_long c) | _ => [] end in
      sorted_w os && multiset_eqb (map proj3 os) (map proj3 ms) &&
      forallb (fun o => mem_obs o cand) os &&
      (if find_all then multiset_eqb os ms else true)
    else list_eqb obs_eqb ms os
  | Panic, None => true
  | _, _ => false
  end.

(** -- the property oracles, evaluated on the implementation's observation -- *)

(** expiry recomputed from the decoded info and hop fields only *)
Fixpoint split_hops (lens : list N) (hops : list hopf) : list (list hopf) :=
  match lens with
  | [] => []
  | n :: t => firstn (N.to_nat n) hops :: split_hops t (skipn (N.to_nat n) hops)
  end.
Definition direct_exp (o : obs) : N :=
  let lens := firstn (length (o_infos o)) (o_seglen o) in
  fold_left (fun m ih => N.min m
      (i_ts (fst ih) * 1000 + fold_left (fun m h => N.min m (exp_ms (h_exp h))) (snd ih) max_ttl_ms))
    (List.combine (o_infos o) (split_hops lens (o_hops o))) max_exp_ms.

(** segment lengths / info fields / hop fields fit together; up and core parts
    (ConsDir = false) precede the down part; at most three segments *)
Definition direct_shape (o : obs) : bool :=
  let k := length (o_infos o) in
  (1 <=? k)%nat && (k <=? 3)%nat && Nat.eqb (length (o_seglen o)) 3 &&
  forallb (fun n => 1 <=? n) (firstn k (o_seglen o)) &&
  forallb (fun n => n =? 0) (skipn k (o_seglen o)) &&
  (fold_left N.add (o_seglen o) 0 =? N.of_nat (length (o_hops o))) &&
  (* ConsDir flags: false* then at most one true, at most two false *)
  (match map i_consdir (o_infos o) with
   | [_] | [false; _] | [false; false; true] => true
   | _ => false end).

(** MTU recomputed from the input segments and the decoded path only (no use of
    the rendering above): every path segment has to be explained by an input
    segment of the matching role, a cut index and a peer entry with the same
    timestamp, Peer flag and hop fields; the MTU must be the minimum of 65535
    and the MTU fields of the entries so explained (all explanations are tried). *)
Definition explain (sg : segment) (sc peer : nat) : option (list hopf * list N) :=
  match skipn sc (sg_entries sg) with
  | [] => None
  | c :: rest =>
    let tail_m := flat_map (fun a => (if ae_inmtu a =? 0 then [] else [u16 (ae_inmtu a)]) ++ [u16 (ae_mtu a)])
                           (rev rest) in
    match peer with
    | O => Some (ae_hop c :: map ae_hop rest,
                 tail_m ++ (if (ae_inmtu c =? 0) || negb (Nat.eqb sc 0) then [] else [u16 (ae_inmtu c)])
                        ++ [u16 (ae_mtu c)])
    | S k => match nth_error (ae_peers c) k with
             | Some p => Some (pe_hop p :: map ae_hop rest, tail_m ++ [u16 (pe_mtu p)] ++ [u16 (ae_mtu c)])
             | None => None
             end
    end
  end.

Definition cuts_of (sg : segment) (core : bool) : list (nat * nat) :=
  if core then [(O, O)]
  else flat_map (fun ic => map (pair (fst ic)) (seq 0 (S (length (ae_peers (snd ic))))))
                (enum (sg_entries sg)).

Definition seg_mtu_cands (inf : info) (ch : list hopf) (core : bool) (sg : segment) : list (list N) :=
  if i_ts inf =? u32 (sg_ts sg) then
    flat_map (fun cp => match explain sg (fst cp) (snd cp) with
                        | Some (hs, mt) =>
                          if list_eqb hopf_eqb hs ch && Bool.eqb (negb (Nat.eqb (snd cp) 0)) (i_peer inf)
                          then [mt] else []
                        | None => []
                        end) (cuts_of sg core)
  else [].

Definition slice_mtu_cands (ups cores downs : list segment) (inf : info) (hops : list hopf) : list (list N) :=
  let ch := if i_consdir inf then hops else rev hops in   (* construction order *)
  if i_consdir inf then flat_map (seg_mtu_cands inf ch false) downs
  else flat_map (seg_mtu_cands inf ch false) ups ++ flat_map (seg_mtu_cands inf ch true) cores.

Definition direct_mtu_ok (ups cores downs : list segment) (o : obs) : bool :=
  let lens := firstn (length (o_infos o)) (o_seglen o) in
  let cands := map (fun ih => slice_mtu_cands ups cores downs (fst ih) (snd ih))
                   (List.combine (o_infos o) (split_hops lens (o_hops o))) in
  existsb (fun mt => o_mtu o =? fold_left N.min mt 65535)
          (fold_right (fun cs acc => flat_map (fun t => map (app t) acc) cs) [[]] cands).

Definition ok28 (src dst : N) (ups cores downs : list (N * segment)) (find_all : bool)
                (os : list obs) : bool :=
  let segs := insegs ups cores downs in
  match all_paths src dst segs with
  | Done c =>
    let cand_all := map obs_of c in
    let cand := map obs_of (filter not_long c) in
    forallb (fun o => mem_obs o cand_all) os &&
    forallb direct_shape os &&
    forallb (fun o => o_exp o =? direct_exp o) os &&
    forallb (direct_mtu_ok (segs_of ups) (segs_of cores) (segs_of downs)) os &&
    forallb (fun o => negb (is_long (o_ifs o))) os &&
    sorted_w os &&
    (find_all ||
     (nodupb ifs_eqb (map o_ifs os) &&
      forallb (fun o => forallb (fun c => negb (ifs_eqb (o_ifs c) (o_ifs o)) || (o_exp c <=? o_exp o)) cand) os)) &&
    (negb (valid_input (segs_of ups) (segs_of cores) (segs_of downs)) ||
     forallb (fun o => existsb (ifs_eqb (o_ifs o))
                         (all_combinations (segs_of ups) (segs_of cores) (segs_of downs) src dst)) os)
  | _ => false
  end.

Definition ok29 (src dst : N) (ups cores downs : list (N * segment)) (os : list obs) : bool :=
  negb (wf_input (segs_of ups) (segs_of cores) (segs_of downs)) ||
  forallb (fun ifs => is_long ifs || existsb (fun o => ifs_eqb ifs (o_ifs o)) os)
          (all_combinations (segs_of ups) (segs_of cores) (segs_of downs) src dst).

Definition check28 (c : case) : N :=
  match c with
  | CCombine src dst ups cores downs fa impl =>
    Check.verdict (agree src dst ups cores downs fa impl)
      (match impl with
       | Some os => ok28 src dst ups cores downs fa os
       | None => true     (* C28 speaks about returned paths only *)
       end)
  end.

Definition check29 (c : case) : N :=
  match c with
  | CCombine src dst ups cores downs fa impl =>
    Check.verdict (agree src dst ups cores downs fa impl)
      (match impl with
       | Some os => ok29 src dst ups cores downs os
       | None => negb (wf_input (segs_of ups) (segs_of cores) (segs_of downs))
                 (* nothing is returned: tolerated only for segments beaconing cannot produce *)
       end)
  end.

Definition check := check28.

Definition diag (c : case) : option (list obs) * bool :=
  match c with
  | CCombine src dst ups cores downs fa _ =>
    (match combine src dst ups cores downs fa with Done ps => Some (map obs_of ps) | _ => None end,
     has_ties (sorted_sols src dst (insegs ups cores downs)))
  end.

End Combinator.
