(** Model of the request validation of the DRKey gRPC service
    (control/drkey/grpc/drkey_service.go): who gets which key.

    Conventions.  An IP is the byte list of a Go [net.IP] (any length; 4 and 16
    are the valid ones, [[]] is nil).  The hosts named in a request are strings in
    Go; the model receives [net.ParseIP s] (the 16-byte form, or [[]] for nil) --
    textual IP parsing is the Go standard library and is not modelled.
    ISD-AS numbers and protocol identifiers are [N]; the protobuf protocol enum
    (int32) is a [Z] and is truncated to 16 bits exactly where the Go code
    converts it ([drkey.Protocol(req.ProtocolId)]).
    The engine behind the service is abstract: the model returns the call the
    service would make ([Some call]) or [None] when the request is refused. *)
From Coq Require Import List NArith ZArith Bool.
From Scion Require Import Lib.Check.
Import ListNotations.
Local Open Scope N_scope.

Module DRKeyACL.

Definition ip := list N.

(** ** net.IP comparison *)

Definition v4in6_prefix : list N := [0;0;0;0;0;0;0;0;0;0;255;255].

Definition valid_ipb (a : ip) : bool :=
  Nat.eqb (length a) 4 || Nat.eqb (length a) 16.

(** [net.IP.Equal]: an IPv4 address and the same address in IPv4-in-IPv6 form
    are equal; two slices of the same length are compared bytewise (in
    particular nil equals nil). *)
Definition ip_equal (a b : ip) : bool :=
  if Nat.eqb (length a) (length b) then bytes_eqb a b
  else if Nat.eqb (length a) 4 && Nat.eqb (length b) 16 then
    bytes_eqb (firstn 12 b) v4in6_prefix && bytes_eqb a (skipn 12 b)
  else if Nat.eqb (length a) 16 && Nat.eqb (length b) 4 then
    bytes_eqb (firstn 12 a) v4in6_prefix && bytes_eqb (skipn 12 a) b
  else false.

(** The address an IP denotes: IPv4-in-IPv6 is unmapped. *)
Definition is_mapped (a : ip) : bool :=
  Nat.eqb (length a) 16 && bytes_eqb (firstn 12 a) v4in6_prefix.
Definition canon (a : ip) : ip := if is_mapped a then skipn 12 a else a.

(** "the requester is the named host": both are IP addresses and denote the same one *)
Definition same_hostb (a b : ip) : bool :=
  valid_ipb a && valid_ipb b && bytes_eqb (canon a) (canon b).
Definition same_host (a b : ip) : Prop :=
  valid_ipb a = true /\ valid_ipb b = true /\ canon a = canon b.

(** ** requester *)

Inductive peer_addr :=
| PAbsent                (* no peer information in the context *)
| PNotTCP                (* peer address that is not a *net.TCPAddr *)
| PTCP (a : ip).

(** hostAddrFromPeer (after the fix: the IP must be IPv4 or IPv6) *)
Definition host_addr_from_peer (p : peer_addr) : option ip :=
  match p with
  | PTCP a => if valid_ipb a then Some a else None
  | _ => None
  end.

(** ** protocols *)

Definition generic : N := 0.
Definition proto_of_pb (z : Z) : N := Z.to_N (z mod 65536).
Definition is_predefined (p : N) : bool := (p =? 0) || (p =? 1).
Definition predefined_list : list N := [0; 1].

(** ** the three level 2/3 validators; arguments as in the Go meta structs
    (protocol already a uint16), hosts = net.ParseIP of the named host *)

Definition validate_as_host (proto dstIA : N) (dstHost : ip) (localIA : N) (p : peer_addr) : bool :=
  if proto =? generic then false else
  match host_addr_from_peer p with
  | None => false
  | Some h =>
    if negb (dstIA =? localIA) then false
    else ip_equal h dstHost
  end.

Definition validate_host_as (proto srcIA : N) (srcHost : ip) (localIA : N) (p : peer_addr) : bool :=
  if proto =? generic then false else
  match host_addr_from_peer p with
  | None => false
  | Some h =>
    if negb (srcIA =? localIA) then false
    else ip_equal h srcHost
  end.

Definition validate_host_host (proto srcIA dstIA : N) (srcHost dstHost : ip) (localIA : N)
    (p : peer_addr) : bool :=
  if proto =? generic then false else
  match host_addr_from_peer p with
  | None => false
  | Some h =>
    if (negb (srcIA =? localIA) || negb (ip_equal h srcHost)) &&
       (negb (dstIA =? localIA) || negb (ip_equal h dstHost))
    then false else true
  end.

(** ** hosts allowed to obtain secret values / intra-AS level-1 keys *)

(** a [netip.Addr] as a map key: IPv4, or IPv6 with zone (IPv4-in-IPv6 is an IPv6 address here) *)
Inductive naddr := NA4 (b : list N) | NA6 (b : list N) (zone : list N).

Definition naddr_eqb (x y : naddr) : bool :=
  match x, y with
  | NA4 a, NA4 b => bytes_eqb a b
  | NA6 a z, NA6 b w => bytes_eqb a b && bytes_eqb z w
  | _, _ => false
  end.

(** netipx.FromStdIP: invalid unless 4 or 16 bytes; unmaps IPv4-in-IPv6 *)
Definition from_std_ip (a : ip) : option naddr :=
  if Nat.eqb (length a) 4 then Some (NA4 a)
  else if Nat.eqb (length a) 16 then
    (if bytes_eqb (firstn 12 a) v4in6_prefix then Some (NA4 (skipn 12 a)) else Some (NA6 a []))
  else None.

Definition allowed_set := list (naddr * N).

Definition in_allowed (s : allowed_set) (h : naddr) (proto : N) : bool :=
  existsb (fun e => naddr_eqb (fst e) h && (snd e =? proto)) s.

Definition validate_allowed_host (s : allowed_set) (proto : N) (p : peer_addr) : bool :=
  match p with
  | PTCP a =>
    match from_std_ip a with
    | Some h => in_allowed s h proto
    | None => false
    end
  | _ => false
  end.

(** ** client certificate (level-1 requests from other ASes) *)

Inductive auth :=
| ANone                                   (* peer.AuthInfo == nil *)
| ANotTLS                                 (* auth info of another type *)
| ATLS (chain : nat) (verified : option N). (* TLS, number of peer certificates, verifier's result *)

Definition cert_ia (a : auth) : option N :=
  match a with
  | ATLS (S _) (Some ia) => Some ia
  | _ => None
  end.

(** ** the service methods *)

Record request := mkReq {
  q_proto : Z;       (* protobuf enum value (int32) *)
  q_ts_ok : bool;    (* ValTime.CheckValid() == nil *)
  q_src : N; q_dst : N;
  q_srch : ip; q_dsth : ip   (* net.ParseIP of the named hosts *)
}.

Inductive call :=
| CallDeriveLvl1 (proto src dst : N)   (* Engine.DeriveLevel1 *)
| CallGetLvl1 (proto src dst : N)      (* Engine.GetLevel1Key *)
| CallASHost (proto src dst : N) (dstHost : ip)     (* Engine.DeriveASHost; host = net.ParseIP of
                                                       the host string handed to the engine *)
| CallHostAS (proto src dst : N) (srcHost : ip)
| CallHostHost (proto src dst : N) (srcHost dstHost : ip)
| CallSV (proto : N).

Definition present (p : peer_addr) : bool := match p with PAbsent => false | _ => true end.

Definition serve_lvl1 (localIA : N) (p : peer_addr) (a : auth) (q : request) : option call :=
  if negb (present p) then None else
  match cert_ia a with
  | None => None
  | Some dst =>
    if negb (q_ts_ok q) then None else
    let proto := proto_of_pb (q_proto q) in
    if negb (is_predefined proto) then None
    else Some (CallDeriveLvl1 proto localIA dst)
  end.

Definition serve_intra_lvl1 (localIA : N) (s : allowed_set) (p : peer_addr) (q : request) : option call :=
  if negb (present p) then None else
  if negb (localIA =? q_src q) && negb (localIA =? q_dst q) then None else
  if negb (q_ts_ok q) then None else
  let proto := proto_of_pb (q_proto q) in
  if validate_allowed_host s proto p then Some (CallGetLvl1 proto (q_src q) (q_dst q)) else None.

Definition serve_as_host (localIA : N) (p : peer_addr) (q : request) : option call :=
  if negb (present p) then None else
  if negb (q_ts_ok q) then None else
  let proto := proto_of_pb (q_proto q) in
  if validate_as_host proto (q_dst q) (q_dsth q) localIA p
  then Some (CallASHost proto (q_src q) (q_dst q) (q_dsth q)) else None.

Definition serve_host_as (localIA : N) (p : peer_addr) (q : request) : option call :=
  if negb (present p) then None else
  if negb (q_ts_ok q) then None else
  let proto := proto_of_pb (q_proto q) in
  if validate_host_as proto (q_src q) (q_srch q) localIA p
  then Some (CallHostAS proto (q_src q) (q_dst q) (q_srch q)) else None.

Definition serve_host_host (localIA : N) (p : peer_addr) (q : request) : option call :=
  if negb (present p) then None else
  if negb (q_ts_ok q) then None else
  let proto := proto_of_pb (q_proto q) in
  if validate_host_host proto (q_src q) (q_dst q) (q_srch q) (q_dsth q) localIA p
  then Some (CallHostHost proto (q_src q) (q_dst q) (q_srch q) (q_dsth q)) else None.

Definition serve_sv (s : allowed_set) (p : peer_addr) (q : request) : option call :=
  if negb (present p) then None else
  if negb (q_ts_ok q) then None else
  let proto := proto_of_pb (q_proto q) in
  if validate_allowed_host s proto p then Some (CallSV proto) else None.

Inductive endpoint := ELvl1 | EIntra | EASHost | EHostAS | EHostHost | ESV.

Definition serve (ep : endpoint) (localIA : N) (s : allowed_set) (p : peer_addr) (a : auth)
    (q : request) : option call :=
  match ep with
  | ELvl1 => serve_lvl1 localIA p a q
  | EIntra => serve_intra_lvl1 localIA s p q
  | EASHost => serve_as_host localIA p q
  | EHostAS => serve_host_as localIA p q
  | EHostHost => serve_host_host localIA p q
  | ESV => serve_sv s p q
  end.

(** ** the property, as a boolean predicate on an *observed* outcome *)

Definition peer_ip (p : peer_addr) : option ip := match p with PTCP a => Some a | _ => None end.

Definition peer_is (p : peer_addr) (h : ip) : bool :=
  match peer_ip p with Some a => same_hostb a h | None => false end.

Definition peer_allowed (s : allowed_set) (p : peer_addr) (proto : N) : bool :=
  match peer_ip p with
  | Some a => match from_std_ip a with Some h => in_allowed s h proto | None => false end
  | None => false
  end.

Definition call_eqb (x y : call) : bool :=
  match x, y with
  | CallDeriveLvl1 a b c, CallDeriveLvl1 a' b' c'
  | CallGetLvl1 a b c, CallGetLvl1 a' b' c' => (a =? a') && (b =? b') && (c =? c')
  | CallASHost a b c h, CallASHost a' b' c' h'
  | CallHostAS a b c h, CallHostAS a' b' c' h' =>
    (a =? a') && (b =? b') && (c =? c') && bytes_eqb h h'
  | CallHostHost a b c h g, CallHostHost a' b' c' h' g' =>
    (a =? a') && (b =? b') && (c =? c') && bytes_eqb h h' && bytes_eqb g g'
  | CallSV a, CallSV a' => a =? a'
  | _, _ => false
  end.

(** what C40 demands of a key that is handed out (or derived) by endpoint [ep] *)
Definition serve_ok (ep : endpoint) (localIA : N) (s : allowed_set) (p : peer_addr) (a : auth)
    (q : request) (out : option call) : bool :=
  match out with
  | None => true
  | Some c =>
    let proto := proto_of_pb (q_proto q) in
    match ep with
    | ELvl1 =>
      match cert_ia a with
      | Some ia => call_eqb c (CallDeriveLvl1 proto localIA ia)
      | None => false
      end
    | EIntra =>
      call_eqb c (CallGetLvl1 proto (q_src q) (q_dst q)) &&
      ((localIA =? q_src q) || (localIA =? q_dst q)) && peer_allowed s p proto
    | EASHost =>
      call_eqb c (CallASHost proto (q_src q) (q_dst q) (q_dsth q)) &&
      negb (proto =? generic) && (q_dst q =? localIA) && peer_is p (q_dsth q)
    | EHostAS =>
      call_eqb c (CallHostAS proto (q_src q) (q_dst q) (q_srch q)) &&
      negb (proto =? generic) && (q_src q =? localIA) && peer_is p (q_srch q)
    | EHostHost =>
      call_eqb c (CallHostHost proto (q_src q) (q_dst q) (q_srch q) (q_dsth q)) &&
      negb (proto =? generic) &&
      (((q_src q =? localIA) && peer_is p (q_srch q)) || ((q_dst q =? localIA) && peer_is p (q_dsth q)))
    | ESV =>
      call_eqb c (CallSV proto) && peer_allowed s p proto
    end
  end.

(** the same for the bare validators (kind 1 AS-host, 2 host-AS, 3 host-host) *)
Definition validate (kind proto src dst : N) (srch dsth : ip) (localIA : N) (p : peer_addr) : bool :=
  match kind with
  | 1 => validate_as_host proto dst dsth localIA p
  | 2 => validate_host_as proto src srch localIA p
  | _ => validate_host_host proto src dst srch dsth localIA p
  end.

Definition validate_ok (kind proto src dst : N) (srch dsth : ip) (localIA : N) (p : peer_addr)
    (accepted : bool) : bool :=
  if negb accepted then true else
  negb (proto =? generic) &&
  match kind with
  | 1 => (dst =? localIA) && peer_is p dsth
  | 2 => (src =? localIA) && peer_is p srch
  | _ => ((src =? localIA) && peer_is p srch) || ((dst =? localIA) && peer_is p dsth)
  end.

(** ** correspondence cases *)

Inductive case :=
| CValidate (kind proto src dst : N) (srch dsth : ip) (localIA : N) (p : peer_addr) (impl : bool)
| CAllowed (s : allowed_set) (proto : N) (p : peer_addr) (impl : bool)
| CCert (a : auth) (impl : option N)
| CServe (ep : endpoint) (localIA : N) (s : allowed_set) (p : peer_addr) (a : auth) (q : request)
         (impl : option call)
| CSeq (localIA : N) (s : allowed_set)
       (steps : list (endpoint * peer_addr * auth * request * option call))
    (* consecutive requests on ONE long-lived Server: the service is stateless, every
       response is determined by its own request (peer, certificate, fields) alone *)
| CPredef (impl : list N).      (* all p < 2^16 with Protocol(p).IsPredefined() *)

Definition check (c : case) : N :=
  match c with
  | CValidate k proto src dst srch dsth l p impl =>
    Check.verdict (Bool.eqb (validate k proto src dst srch dsth l p) impl)
                  (validate_ok k proto src dst srch dsth l p impl)
  | CAllowed s proto p impl =>
    Check.verdict (Bool.eqb (validate_allowed_host s proto p) impl)
                  (if impl then peer_allowed s p proto else true)
  | CCert a impl =>
    Check.verdict (option_eqb N.eqb (cert_ia a) impl)
                  (match impl, a with
                   | Some ia, ATLS (S _) (Some ia') => ia =? ia'
                   | Some _, _ => false
                   | None, _ => true
                   end)
  | CServe ep l s p a q impl =>
    Check.verdict (option_eqb call_eqb (serve ep l s p a q) impl) (serve_ok ep l s p a q impl)
  | CSeq l s steps =>
    Check.verdict
      (forallb (fun st => let '(ep, p, a, q, impl) := st in
                          option_eqb call_eqb (serve ep l s p a q) impl) steps)
      (forallb (fun st => let '(ep, p, a, q, impl) := st in serve_ok ep l s p a q impl) steps)
  | CPredef impl =>
    Check.verdict (list_eqb N.eqb predefined_list impl) true
  end.

Definition code_of_call (c : call) : list N :=
  match c with
  | CallDeriveLvl1 a b d => [1; a; b; d]
  | CallGetLvl1 a b d => [2; a; b; d]
  | CallASHost a b d h => [3; a; b; d] ++ h
  | CallHostAS a b d h => [4; a; b; d] ++ h
  | CallHostHost a b d h g => [5; a; b; d] ++ h ++ g
  | CallSV a => [6; a]
  end.

Definition diag (c : case) : list N :=
  match c with
  | CValidate k proto src dst srch dsth l p _ => [if validate k proto src dst srch dsth l p then 1 else 0]
  | CAllowed s proto p _ => [if validate_allowed_host s proto p then 1 else 0]
  | CCert a _ => match cert_ia a with Some ia => [1; ia] | None => [0] end
  | CServe ep l s p a q _ => match serve ep l s p a q with Some c => code_of_call c | None => [0] end
  | CSeq l s steps =>
    concat (map (fun st => let '(ep, p, a, q, _) := st in
                           match serve ep l s p a q with Some c => code_of_call c | None => [0] end) steps)
  | CPredef _ => predefined_list
  end.

End DRKeyACL.
