(** Model of the SCION-IP gateway framing (property C41).

    Sender:   gateway/dataplane/encoder.go   (encoder.Read / copyToFrame), pktring.go
    Receiver: gateway/dataplane/worker.go    (processFrame, getRlist, cleanup)
              gateway/dataplane/rlist.go     (Insert, insertFirst, tryReassemble, collectAndWrite)
              gateway/dataplane/framebuf.go  (ProcessCompletePkts, Processed, SetProcessed)
              gateway/dataplane/ingressserver.go (length / version filter in front of the worker)

    Definitions only.  Bytes are [N], lengths and offsets are [nat], header
    fields (index, stream, sequence number) are [N].  The sequence number is an
    unbounded [N] (the uint64 wrap after 2^64 frames is not modelled); the
    16-bit index and the 20-bit stream are reduced exactly like the Go code does. *)
From Coq Require Import List Arith NArith Bool.
From Scion Require Import Lib.Bytes Lib.Check.
Import ListNotations.
Local Open Scope N_scope.

Module GwFrame.

Definition hdr_len : nat := 16.        (* hdrLen / sigHdrSize *)
Definition no_index : N := 65535.      (* 0xffff *)
Definition rlist_cap : nat := 100.     (* reassemblyListCap *)
Definition min_mtu : nat := 57.        (* sender.go: minMTU = hdrLen + 41 *)

(** ---------------------------------------------------------------- IP length fields *)

Definition ver (b : N) : N := b / 16.                 (* pkt[0] >> 4 *)
Definition u16at (l : bytes) (off : nat) : nat := N.to_nat (unbe (firstn 2 (skipn off l))).
Definition plen4 (l : bytes) : nat := u16at l 2.       (* IPv4 total length *)
Definition plen6 (l : bytes) : nat := (40 + u16at l 4)%nat.  (* IPv6 payload length + 40 *)

(** encoder.Read: the packet is encapsulated only if it is a well-formed IPv4 or
    IPv6 packet whose length field agrees with its size. *)
Definition valid_pkt (p : bytes) : bool :=
  match p with
  | [] => false
  | b0 :: _ =>
    if ver b0 =? 4 then Nat.leb 20 (length p) && Nat.eqb (plen4 p) (length p)
    else if ver b0 =? 6 then Nat.leb 40 (length p) && Nat.eqb (plen6 p) (length p)
    else false
  end.

(** ---------------------------------------------------------------- SIG frame header *)

Definition header (sess index stream seq : N) : bytes :=
  [0; sess] ++ be 2 index ++ be 4 (stream mod 1048576) ++ be 8 seq.

Definition frame_index (f : bytes) : N := unbe (firstn 2 (skipn 2 f)).
Definition frame_epoch (f : bytes) : N := unbe (firstn 4 (skipn 4 f)) mod 1048576.
Definition frame_seq (f : bytes) : N := unbe (firstn 8 (skipn 8 f)).

(** ---------------------------------------------------------------- sender *)

(** encoder state: next sequence number, unsent rest of the current packet *)
Record enc := { e_seq : N; e_pkt : bytes }.
Definition enc_init : enc := {| e_seq := 0; e_pkt := [] |}.

(** result of the packet loop of encoder.Read *)
Record filled := {
  fl_body : bytes;          (* frame content after the header *)
  fl_index : option nat;    (* first packet start, if one was set *)
  fl_rest : bytes;          (* e.pkt afterwards *)
  fl_queue : list bytes;    (* ring afterwards *)
  fl_blocked : bool         (* ring empty while the frame is still empty *)
}.

(** the [for] loop of encoder.Read; [cap] = cap(e.frame) = mtu, [body] = frame[hdrLen:pos] *)
Fixpoint fill (cap : nat) (body : bytes) (idx : option nat) (q : list bytes) : filled :=
  let pos := (hdr_len + length body)%nat in
  if Nat.ltb (cap - pos) 40 then
    {| fl_body := body; fl_index := idx; fl_rest := []; fl_queue := q; fl_blocked := false |}
  else
    match q with
    | [] => {| fl_body := body; fl_index := idx; fl_rest := []; fl_queue := [];
               fl_blocked := Nat.eqb pos hdr_len |}
    | p :: q' =>
      if valid_pkt p then
        let idx' := match idx with None => Some (pos - hdr_len)%nat | Some _ => idx end in
        let n := Nat.min (cap - pos) (length p) in       (* copyToFrame *)
        let body' := body ++ firstn n p in
        let rest := skipn n p in
        match rest with
        | [] => fill cap body' idx' q'
        | _ :: _ => {| fl_body := body'; fl_index := idx'; fl_rest := rest; fl_queue := q';
                       fl_blocked := false |}
        end
      else fill cap body idx q'
    end.

(** encoder.Read with the packets [q] in the ring.  [None]: the ring ran empty
    while the frame was empty (Go blocks, or returns nil once the ring is closed);
    invalid packets met on the way are consumed all the same. *)
Definition read (mtu : nat) (sess stream : N) (e : enc) (q : list bytes)
  : option bytes * enc * list bytes :=
  let room := (mtu - hdr_len)%nat in
  let n0 := Nat.min room (length (e_pkt e)) in
  let body0 := firstn n0 (e_pkt e) in
  let rest0 := skipn n0 (e_pkt e) in
  match rest0 with
  | _ :: _ =>
    (Some (header sess no_index stream (e_seq e) ++ body0),
     {| e_seq := e_seq e + 1; e_pkt := rest0 |}, q)
  | [] =>
    let r := fill mtu body0 None q in
    if fl_blocked r then (None, {| e_seq := e_seq e; e_pkt := [] |}, fl_queue r)
    else
      let index := match fl_index r with None => no_index | Some i => N.of_nat i end in
      (Some (header sess index stream (e_seq e) ++ fl_body r),
       {| e_seq := e_seq e + 1; e_pkt := fl_rest r |}, fl_queue r)
  end.

(** a schedule of the two goroutines: packets written to the ring, frames read *)
Inductive eop := EWrite (p : bytes) | ERead.

Fixpoint enc_run (mtu : nat) (sess stream : N) (ops : list eop) (e : enc) (q : list bytes)
  : list (option bytes) * enc * list bytes :=
  match ops with
  | [] => ([], e, q)
  | EWrite p :: t => enc_run mtu sess stream t e (q ++ [p])
  | ERead :: t =>
    let '(fr, e', q') := read mtu sess stream e q in
    let '(frs, e'', q'') := enc_run mtu sess stream t e' q' in
    (fr :: frs, e'', q'')
  end.

(** after Close: Read until it returns nil *)
Fixpoint drain (fuel : nat) (mtu : nat) (sess stream : N) (e : enc) (q : list bytes) : list bytes :=
  match fuel with
  | O => []
  | S f =>
    match read mtu sess stream e q with
    | (Some fr, e', q') => fr :: drain f mtu sess stream e' q'
    | (None, _, _) => []
    end
  end.

Definition qsize (q : list bytes) : nat := fold_right (fun p a => S (length p + a)) O q.
Definition drain_fuel (e : enc) (q : list bytes) : nat := S (length (e_pkt e) + qsize q).

Definition somes {A} (l : list (option A)) : list A :=
  flat_map (fun o => match o with Some x => [x] | None => [] end) l.

(** all frames of a fresh encoder under a schedule, the ring being closed at the end *)
Definition frames_sched (mtu : nat) (sess stream : N) (ops : list eop) : list bytes :=
  let '(frs, e, q) := enc_run mtu sess stream ops enc_init [] in
  somes frs ++ drain (drain_fuel e q) mtu sess stream e q.

Definition written (ops : list eop) : list bytes :=
  flat_map (fun o => match o with EWrite p => [p] | ERead => [] end) ops.

(** all packets are in the ring before the first frame is read *)
Definition frames_of (mtu : nat) (sess stream : N) (ps : list bytes) : list bytes :=
  frames_sched mtu sess stream (map EWrite ps).

Definition payload (f : bytes) : bytes := skipn hdr_len f.

(** ---------------------------------------------------------------- receiver *)

(** frameBuf: [fb_raw] = raw[:frameLen] *)
Record fbuf := {
  fb_raw : bytes;
  fb_seq : N;
  fb_index : N;
  fb_frag0 : nat;          (* frag0Start *)
  fb_frag0P : bool;        (* frag0Processed *)
  fb_fragNP : bool;        (* fragNProcessed *)
  fb_cpP : bool;           (* completePktsProcessed *)
  fb_pktlen : nat
}.

Definition flen (f : fbuf) : nat := length (fb_raw f).

(** outcome of the loop of ProcessCompletePkts *)
Inductive pcp_exit :=
| PEarly                        (* one of the early returns *)
| PEnd                          (* offset reached frameLen *)
| PBreak (off pktlen : nat).    (* incomplete packet at [off] *)

Fixpoint pcp_loop (fuel : nat) (rest : bytes) (off : nat) (acc : list bytes)
  : list bytes * pcp_exit :=
  match fuel with
  | O => (acc, PEarly)
  | S fu =>
    match rest with
    | [] => (acc, PEnd)
    | b0 :: _ =>
      let body (pl : nat) :=
        if Nat.ltb (length rest) pl then (acc, PBreak off pl)
        else pcp_loop fu (skipn pl rest) (off + pl) (acc ++ [firstn pl rest]) in
      if ver b0 =? 4 then
        if Nat.ltb (length rest) 20 then (acc, PEarly)
        else let pl := plen4 rest in if Nat.ltb pl 20 then (acc, PEarly) else body pl
      else if ver b0 =? 6 then
        if Nat.ltb (length rest) 40 then (acc, PEarly) else body (plen6 rest)
      else (acc, PEarly)
    end
  end.

(** frameBuf.ProcessCompletePkts: the updated frame and the packets sent *)
Definition pcp (f : fbuf) : fbuf * list bytes :=
  let done cp := {| fb_raw := fb_raw f; fb_seq := fb_seq f; fb_index := fb_index f;
                    fb_frag0 := fb_frag0 f; fb_frag0P := fb_frag0P f; fb_fragNP := fb_fragNP f;
                    fb_cpP := cp; fb_pktlen := fb_pktlen f |} in
  if fb_cpP f || (fb_index f =? no_index) then (done true, [])
  else
    let offset := (N.to_nat (fb_index f) + hdr_len)%nat in
    let rest := skipn offset (fb_raw f) in
    match pcp_loop (S (length rest)) rest offset [] with
    | (out, PEarly) => (done true, out)
    | (out, PEnd) =>
      ({| fb_raw := fb_raw f; fb_seq := fb_seq f; fb_index := fb_index f;
          fb_frag0 := fb_frag0 f; fb_frag0P := Nat.eqb (fb_frag0 f) 0; fb_fragNP := fb_fragNP f;
          fb_cpP := true; fb_pktlen := fb_pktlen f |}, out)
    | (out, PBreak off pl) =>
      ({| fb_raw := fb_raw f; fb_seq := fb_seq f; fb_index := fb_index f;
          fb_frag0 := off; fb_frag0P := Nat.eqb off 0; fb_fragNP := fb_fragNP f;
          fb_cpP := true; fb_pktlen := pl |}, out)
    end.

Definition processed (f : fbuf) : bool :=
  fb_cpP f && fb_fragNP f && (Nat.eqb (fb_frag0 f) 0 || fb_frag0P f).

Definition set_processed (f : fbuf) : fbuf :=
  {| fb_raw := fb_raw f; fb_seq := fb_seq f; fb_index := fb_index f; fb_frag0 := fb_frag0 f;
     fb_frag0P := true; fb_fragNP := true; fb_cpP := true; fb_pktlen := fb_pktlen f |}.

Definition set_fragN (f : fbuf) : fbuf :=
  {| fb_raw := fb_raw f; fb_seq := fb_seq f; fb_index := fb_index f; fb_frag0 := fb_frag0 f;
     fb_frag0P := fb_frag0P f; fb_fragNP := true; fb_cpP := fb_cpP f; fb_pktlen := fb_pktlen f |}.

(** reassemblyList.insertFirst *)
Definition insert_first (f : fbuf) : list fbuf * list bytes :=
  let '(f', out) := pcp f in
  if Nat.eqb (fb_frag0 f') 0 then ([], out) else ([f'], out).

(** the scan of tryReassemble over the frames after the first *)
Inductive scan_res := SCan | SFraming | SNotYet.

Fixpoint scan (have pktlen : nat) (rest : list fbuf) : scan_res :=
  match rest with
  | [] => SNotYet
  | c :: t =>
    let have' := (have + (flen c - hdr_len))%nat in
    if Nat.leb pktlen have' then SCan
    else if negb (fb_index c =? no_index) then SFraming
    else scan have' pktlen t
  end.

(** the collecting loop of collectAndWrite: buffer, the frames visited (marked
    fragNProcessed), the frames not visited *)
Fixpoint collect (buf : bytes) (pktlen : nat) (rest : list fbuf)
  : bytes * list fbuf * list fbuf :=
  match rest with
  | [] => (buf, [], [])
  | c :: t =>
    if Nat.ltb (length buf) pktlen then
      let missing := (pktlen - length buf)%nat in
      let upto := Nat.min (missing + hdr_len) (flen c) in
      let buf' := buf ++ firstn (upto - hdr_len) (skipn hdr_len (fb_raw c)) in
      let '(b, vis, unvis) := collect buf' pktlen t in
      (b, set_fragN c :: vis, unvis)
    else (buf, [], rest)
  end.

Definition remove_processed (es : list fbuf) : list fbuf :=
  filter (fun f => negb (processed f)) es.

(** ProcessCompletePkts on the last frame visited by the collecting loop *)
Fixpoint pcp_last (vis : list fbuf) : list fbuf * list bytes :=
  match vis with
  | [] => ([], [])            (* not reachable: Go would dereference a nil frame *)
  | [x] => let '(x', out) := pcp x in ([x'], out)
  | x :: t => let '(t', out) := pcp_last t in (x :: t', out)
  end.

(** reassemblyList.collectAndWrite on [start :: rest] *)
Definition collect_and_write (start : fbuf) (rest : list fbuf) : list fbuf * list bytes :=
  let pktlen := fb_pktlen start in
  let buf0 := skipn (fb_frag0 start) (fb_raw start) in
  let '(buf, vis, unvis) := collect buf0 pktlen rest in
  let out1 := if Nat.eqb (length buf) pktlen then [buf] else [] in
  let '(vis', out2) := pcp_last vis in
  (remove_processed (set_processed start :: vis' ++ unvis), out1 ++ out2).

(** reassemblyList.tryReassemble *)
Definition try_reassemble (es : list fbuf) : list fbuf * list bytes :=
  match es with
  | start :: (_ :: _) as rest =>
    if Nat.eqb (fb_frag0 start) 0 then ([], [])
    else
      match scan (flen start - fb_frag0 start) (fb_pktlen start) rest with
      | SCan => collect_and_write start rest
      | SFraming => ([last es start], [])
      | SNotYet => (es, [])
      end
  | _ => (es, [])
  end.

(** reassemblyList.Insert *)
Definition insert (es : list fbuf) (f : fbuf) : list fbuf * list bytes :=
  match es with
  | [] => insert_first f
  | first :: _ =>
    let lastf := last es first in
    if fb_seq f <? fb_seq first then (es, [])                                   (* too old *)
    else if (fb_seq first <=? fb_seq f) && (fb_seq f <=? fb_seq lastf) then (es, [])  (* duplicate *)
    else if fb_seq lastf + 1 <? fb_seq f then insert_first f                     (* gap *)
    else if Nat.eqb (length es) rlist_cap then insert_first f                    (* capacity *)
    else try_reassemble (es ++ [f])
  end.

(** worker: reassembly lists by epoch *)
Record rlist := { rl_marked : bool; rl_entries : list fbuf }.
Definition worker := list (N * rlist).
Definition worker_init : worker := [].

Fixpoint lookup (ep : N) (w : worker) : option rlist :=
  match w with
  | [] => None
  | (k, rl) :: t => if k =? ep then Some rl else lookup ep t
  end.

Fixpoint update (ep : N) (rl : rlist) (w : worker) : worker :=
  match w with
  | [] => [(ep, rl)]
  | (k, r) :: t => if k =? ep then (k, rl) :: t else (k, r) :: update ep rl t
  end.

(** the frame as worker.processFrame sets it up (a buffer fresh from the pool) *)
Definition fresh (raw : bytes) : fbuf :=
  let index := frame_index raw in
  {| fb_raw := raw; fb_seq := frame_seq raw; fb_index := index; fb_frag0 := O;
     fb_frag0P := false; fb_fragNP := index =? 0; fb_cpP := index =? no_index; fb_pktlen := O |}.

Definition process_frame (w : worker) (raw : bytes) : worker * list bytes :=
  let ep := frame_epoch raw in
  let es := match lookup ep w with Some rl => rl_entries rl | None => [] end in
  let '(es', out) := insert es (fresh raw) in
  (update ep {| rl_marked := false; rl_entries := es' |} w, out).

(** IngressServer.read: frames shorter than the header or of another version are dropped *)
Definition accepted (raw : bytes) : bool :=
  Nat.leb hdr_len (length raw) && (hd 1 raw =? 0).

Definition deliver (w : worker) (raw : bytes) : worker * list bytes :=
  if accepted raw then process_frame w raw else (w, []).

(** worker.cleanup: lists marked at the previous tick go, the others get marked *)
Definition cleanup (w : worker) : worker :=
  map (fun kr => (fst kr, {| rl_marked := true; rl_entries := rl_entries (snd kr) |}))
      (filter (fun kr => negb (rl_marked (snd kr))) w).

Inductive rop := RFrame (raw : bytes) | RCleanup.

Definition rstep (w : worker) (o : rop) : worker * list bytes :=
  match o with
  | RFrame raw => deliver w raw
  | RCleanup => (cleanup w, [])
  end.

(** packets written to the tunnel, per operation *)
Fixpoint wrun (w : worker) (ops : list rop) : list (list bytes) :=
  match ops with
  | [] => []
  | o :: t => let '(w', out) := rstep w o in out :: wrun w' t
  end.

Definition ingest_ops (ops : list rop) : list bytes := concat (wrun worker_init ops).
Definition ingest (frames : list bytes) : list bytes := ingest_ops (map RFrame frames).

(** ---------------------------------------------------------------- correspondence cases *)

Definition bytes_list_eqb := list_eqb bytes_eqb.
Definition inb (p : bytes) (l : list bytes) : bool := existsb (bytes_eqb p) l.
Definition opt_bytes_eqb := option_eqb bytes_eqb.

(** one sending gateway: frame size, session, stream, schedule and the frames the
    real encoder produced for it *)
Record sender := SC { sc_mtu : N; sc_sess : N; sc_stream : N; sc_ops : list eop;
                      sc_frames : list bytes }.

Definition sc_model_frames (s : sender) : list bytes :=
  frames_sched (N.to_nat (sc_mtu s)) (sc_sess s) (sc_stream s) (sc_ops s).
Definition sc_sent (s : sender) : list bytes := filter valid_pkt (written (sc_ops s)).

(** delivery plan: frame [i] of sender [s], a literal (corrupted or foreign) frame,
    or a cleanup tick *)
Inductive dop := DIdx (s i : N) | DRaw (raw : bytes) | DTick.

Definition rop_of (frames : list (list bytes)) (d : dop) : rop :=
  match d with
  | DIdx s i => RFrame (nth (N.to_nat i) (nth (N.to_nat s) frames []) [])
  | DRaw raw => RFrame raw
  | DTick => RCleanup
  end.

Definition is_genuine (d : dop) : bool := match d with DRaw _ => false | _ => true end.

Definition dop_eqb (a b : dop) : bool :=
  match a, b with DIdx s i, DIdx t j => (s =? t) && (i =? j) | _, _ => false end.

(** the plan delivers all frames of the only sender once, in order *)
Definition in_order (plan : list dop) (n : nat) : bool :=
  list_eqb dop_eqb plan (map (fun i => DIdx 0 (N.of_nat i)) (seq 0 n)).

Fixpoint nodupb (l : list N) : bool :=
  match l with [] => true | x :: t => negb (existsb (N.eqb x) t) && nodupb t end.

(** frame sizes the sending gateway accepts (sender.go: minMTU; the parameter is a uint16) *)
Definition mtu_ok (mtu : N) : bool := (57 <=? mtu) && (mtu <=? 65535).

(** a packet the reassembly list can hold at this frame size whatever its position
    in the frame stream: it spans at most [rlist_cap] frames.  Longer packets are the
    known finding "rlist-capacity". *)
Definition fits_rlist (mtu : nat) (p : bytes) : bool :=
  Nat.leb (length p) (40 + (rlist_cap - 1) * (mtu - hdr_len)).

Definition sender_fits (s : sender) : bool :=
  forallb (fits_rlist (N.to_nat (sc_mtu s))) (sc_sent s).

(** the frames among the operations, in order *)
Definition rframes (ops : list rop) : list bytes :=
  flat_map (fun o => match o with RFrame raw => [raw] | RCleanup => [] end) ops.

(** no two cleanup ticks without a frame between them ([prev]: the previous operation
    was a tick): a reassembly list that receives frames is touched between any two ticks *)
Fixpoint no_adjacent_ticks (ops : list rop) (prev : bool) : bool :=
  match ops with
  | [] => true
  | RCleanup :: t => negb prev && no_adjacent_ticks t true
  | RFrame _ :: t => no_adjacent_ticks t false
  end.

(** the property, evaluated on what the receiver emitted: with genuine frames of
    senders with distinct streams only, every emitted packet was sent; all frames of
    one sender in order, with cleanup ticks anywhere but never two in a row, give exactly
    the packets sent *)
Definition e2e_oracle (snd : list sender) (frames : list (list bytes)) (plan : list dop)
  (out : list (list bytes)) : bool :=
  if forallb is_genuine plan && forallb (fun s => mtu_ok (sc_mtu s)) snd
     && nodupb (map (fun s => sc_stream s mod 1048576) snd)
     && forallb (fun fs => N.of_nat (length fs) <=? 18446744073709551616) frames
  then
    forallb (fun p => inb p (flat_map sc_sent snd)) (concat out)
    && match snd, frames with
       | [s], [fs] =>
         let rops := map (rop_of frames) plan in
         if bytes_list_eqb (rframes rops) fs && no_adjacent_ticks rops false
         then bytes_list_eqb (concat out) (sc_sent s) else true
       | _, _ => true
       end
  else true.

Inductive case :=
(** sender only: schedule, observed result of every Read (None = nil), then the frames
    read after Close *)
| CEnc (mtu sess stream : N) (ops : list eop)
       (impl_reads : list (option bytes)) (impl_drain : list bytes)
(** both ends: the real encoders' frames, delivered according to [plan] to one real
    worker, which emitted [impl_out] (per operation) *)
| CE2E (snd : list sender) (plan : list dop) (impl_out : list (list bytes))
(** receiver only: arbitrary frames *)
| CRx (ops : list rop) (impl_out : list (list bytes)).

Definition check (c : case) : N :=
  match c with
  | CEnc mtu sess stream ops ireads idrain =>
    let '(frs, e, q) := enc_run (N.to_nat mtu) sess stream ops enc_init [] in
    let dr := drain (drain_fuel e q) (N.to_nat mtu) sess stream e q in
    let agree := list_eqb opt_bytes_eqb frs ireads && bytes_list_eqb dr idrain in
    (* invalid packets are never encapsulated: the frames carry exactly the valid packets *)
    let oracle := bytes_eqb (concat (map payload (somes ireads ++ idrain)))
                            (concat (filter valid_pkt (written ops))) in
    Check.verdict agree oracle
  | CE2E snd plan iout =>
    let iframes := map sc_frames snd in
    let agree := list_eqb bytes_list_eqb (map sc_model_frames snd) iframes
                 && list_eqb bytes_list_eqb (wrun worker_init (map (rop_of iframes) plan)) iout in
    Check.verdict agree (e2e_oracle snd iframes plan iout)
  | CRx ops iout =>
    Check.verdict (list_eqb bytes_list_eqb (wrun worker_init ops) iout) true
  end.

Definition diag (c : case) : list (list bytes) :=
  match c with
  | CEnc mtu sess stream ops _ _ =>
    let '(frs, e, q) := enc_run (N.to_nat mtu) sess stream ops enc_init [] in
    [somes frs; drain (drain_fuel e q) (N.to_nat mtu) sess stream e q]
  | CE2E snd plan _ =>
    map sc_model_frames snd ++ wrun worker_init (map (rop_of (map sc_frames snd)) plan)
  | CRx ops _ => wrun worker_init ops
  end.

End GwFrame.
