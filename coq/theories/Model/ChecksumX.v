(** C20, additions to the correspondence check of Model/Checksum.v (kept in a file of its own so
    that Model/Checksum.vo, which the router models import, stays untouched): on the
    implementation's bytes the oracle also flips the bits of the checksum field itself and the
    bits of the upper-layer length word of the pseudo header.  Definitions only. *)
From Coq Require Import List NArith Bool.
From Scion Require Import Lib.Check Lib.Bytes Model.Checksum.
Import ListNotations.
Local Open Scope N_scope.

Module ChecksumX.
Import Checksum.

(** all [n] bit positions for short messages, the lowest and the highest one for long ones *)
Definition bits_for (ilen : N) (n : nat) : list N :=
  if ilen <=? 512 then map N.of_nat (seq 0 n) else [0; N.of_nat n - 1].

(** bit [i] of the length word flipped, everything else as written: the sum must not be 0xFFFF *)
Definition len_flip_ok (h : addr_hdr) (l : l4) (ilen : N) (impl : bytes) (i : N) : bool :=
  match verify_sum h (N.lxor ilen (2 ^ i)) impl (proto_of l) with
  | Ok s => negb (s =? 65535)
  | _ => false
  end.

(** bit [k] (0..15, counted from the low bit of the second byte... byte [k/8], bit [k mod 8]) of the
    checksum field flipped *)
Definition ck_flip_ok (h : addr_hdr) (l : l4) (ilen : N) (impl : bytes) (k : N) : bool :=
  match verify_sum h ilen (flip_bit impl (N.to_nat (prelen l + k / 8)) (k mod 8)) (proto_of l) with
  | Ok s => negb (s =? 65535)
  | _ => false
  end.

Definition extra_oracle (h : addr_hdr) (l : l4) (code ilen : N) (impl : bytes) : bool :=
  if even_len (raw_dst h) && even_len (raw_src h) && negb (N.of_nat (length (raw_dst h)) =? 0)
     && negb (N.of_nat (length (raw_src h)) =? 0) && (code =? 0) then
    forallb (len_flip_ok h l ilen impl) (bits_for ilen 32) &&
    forallb (ck_flip_ok h l ilen impl) (bits_for ilen 16)
  else true.

(** [Checksum.check] with the extra clauses added to its oracle *)
Definition check (c : case) : N :=
  match c with
  | CSer h l plen pints code ilen iints flips =>
    let base := Checksum.check c in
    if extra_oracle h l code ilen (bytes_of_ints ilen iints) then base
    else match base with 0 => 2 | 1 => 3 | x => x end
  end.

Definition diag := Checksum.diag.

End ChecksumX.
