(** Model of private/ringbuf/ringbuf.go (Ring.Write / Read / Close / write / read)
    and of the pktRing wrapper of gateway/dataplane/pktring.go.

    - concrete state: the slice [entries] as a list of cells, the two indices,
      the two counters and the closed flag; [write_raw]/[read_raw] follow the
      two-copy wrap-around code;
    - sequential operations [seq_full] returning what the Go call returns, or
      [Blocks c] where the Go code would call [c.Wait()];
    - abstract specification: a bounded FIFO queue with a closed flag;
    - concurrent LTS: threads call / run a critical section / are woken / return.
    Definitions only (lemmas are in Proofs/Ring*.v). *)
From Coq Require Import List NArith ZArith Bool Arith.
From Scion Require Import Lib.Check.
Import ListNotations.

Module Ring.

Notation entry := N (only parsing).
Notation cell := (option N) (only parsing).          (* nil = None *)

Inductive cond := CWritable | CReadable.  (* writableC / readableC *)
Definition cond_eqb (a b : cond) : bool :=
  match a, b with CWritable, CWritable | CReadable, CReadable => true | _, _ => false end.

Record ring := {
  ents : list cell;      (* r.entries, len = capacity *)
  wi : nat;              (* writeIndex *)
  ri : nat;              (* readIndex *)
  writable : nat;
  readable : nat;
  closed : bool }.

Definition cap (r : ring) : nat := length (ents r).

(** [New(count, nil, _)]: empty ring; [New(count, newf, _)]: ring that starts
    full with the [count] values produced by [newf]. *)
Definition new_empty (c : nat) : ring :=
  {| ents := repeat None c; wi := 0; ri := 0; writable := c; readable := 0; closed := false |}.
Definition new_full (es : list entry) : ring :=
  {| ents := map Some es; wi := 0; ri := 0; writable := 0; readable := length es; closed := false |}.
Definition new (c : nat) (init : option (list entry)) : ring :=
  match init with None => new_empty c | Some es => new_full es end.

(** Go [copy(l[i:], src)]: overwrites [l] from position [i] with as much of
    [src] as fits; returns the new slice content and the number copied. *)
Definition copy_in (l : list cell) (i : nat) (src : list cell) : list cell * nat :=
  let n := Nat.min (length l - i) (length src) in
  (firstn i l ++ firstn n src ++ skipn (i + n) l, n).

(** [for j := i; j < i+n; j++ { l[j] = nil }] *)
Definition clear (l : list cell) (i n : nat) : list cell :=
  firstn i l ++ repeat None n ++ skipn (i + n) l.

(** [Ring.write]: returns the new entries and the new writeIndex. *)
Definition write_raw (l : list cell) (w : nat) (es : list entry) : list cell * nat :=
  let src := map Some es in
  let '(l1, n) := copy_in l w src in
  if n <? length src then
    let '(l2, n2) := copy_in l1 0 (skipn n src) in (l2, n2)
  else (l1, w + n).

(** [Ring.read] into a destination of length [k]: new entries, new readIndex,
    what was copied out. *)
Definition read_raw (l : list cell) (r : nat) (k : nat) : list cell * nat * list cell :=
  let n := Nat.min k (length l - r) in
  let got1 := firstn n (skipn r l) in
  let l1 := clear l r n in
  if n <? k then
    let n2 := Nat.min (k - n) (length l1) in
    (clear l1 0 n2, n2, got1 ++ firstn n2 l1)
  else (l1, r + n, got1).

Inductive op :=
| Write (es : list entry) (block : bool)
| Read (k : nat) (block : bool)         (* k = len of the destination slice *)
| Close.

(** What a call does once it holds the mutex: it either returns [Ret count got]
    (count = -1: closed) or reaches [cond.Wait()]. *)
Inductive outcome :=
| Ret (k : Z) (got : list cell)
| Blocks (c : cond).

Definition set_ring (r : ring) (l : list cell) (w i wr rd : nat) : ring :=
  {| ents := l; wi := w; ri := i; writable := wr; readable := rd; closed := closed r |}.

(** One critical section: new state, outcome, and the conditions broadcast. *)
Definition seq_full (r : ring) (o : op) : ring * outcome * list cond :=
  match o with
  | Write es block =>
    if (0 <? length es) && (writable r =? 0) && negb (closed r) then
      if block then (r, Blocks CWritable, []) else (r, Ret 0 [], [])
    else if closed r then (r, Ret (-1) [], [])
    else
      let n := Nat.min (writable r) (length es) in
      let '(l, w) := write_raw (ents r) (wi r) (firstn n es) in
      (set_ring r l w (ri r) (writable r - n) (readable r + n), Ret (Z.of_nat n) [], [CReadable])
  | Read k block =>
    if (0 <? k) && (readable r =? 0) && negb (closed r) then
      if block then (r, Blocks CReadable, []) else (r, Ret 0 [], [])
    else if closed r && (readable r =? 0) then (r, Ret (-1) [], [])
    else
      let n := Nat.min (readable r) k in
      let '(l, i, got) := read_raw (ents r) (ri r) n in
      (set_ring r l (wi r) i (writable r + n) (readable r - n), Ret (Z.of_nat n) got, [CWritable])
  | Close =>
    ({| ents := ents r; wi := wi r; ri := ri r; writable := writable r; readable := readable r;
        closed := true |}, Ret 0 [], [CWritable; CReadable])
  end.

Definition seq_step (r : ring) (o : op) : ring * outcome :=
  let '(r', x, _) := seq_full r o in (r', x).

(** the condition under which a call waits *)
Definition guard (r : ring) (o : op) : bool :=
  match o with
  | Write es block => (0 <? length es) && (writable r =? 0) && negb (closed r) && block
  | Read k block => (0 <? k) && (readable r =? 0) && negb (closed r) && block
  | Close => false
  end.

(** ------------------------------------------------------------------
    Abstraction: the [readable] cells from [readIndex], wrapping. *)
Definition rot (r : ring) : list cell := skipn (ri r) (ents r) ++ firstn (ri r) (ents r).
Definition somes (l : list cell) : list entry :=
  flat_map (fun c => match c with Some v => [v] | None => [] end) l.
Definition abs (r : ring) : list entry := somes (firstn (readable r) (rot r)).

(** Representation invariant. The write index is the read index plus the number
    of stored entries, up to wrap-around (both indices range over 0..cap, the
    value cap being equivalent to 0); the occupied cells hold the queue content
    in order and every free cell is nil. *)
Definition Inv (r : ring) : Prop :=
  wi r <= cap r /\ ri r <= cap r /\ readable r + writable r = cap r /\
  (wi r = ri r + readable r \/ wi r + cap r = ri r + readable r \/
   wi r + cap r + cap r = ri r + readable r) /\
  exists qs, rot r = map Some qs ++ repeat None (writable r).

(** ------------------------------------------------------------------
    Specification: bounded FIFO queue. *)
Record fifo := { q : list entry; cl : bool }.

Definition spec_step (c : nat) (f : fifo) (o : op) : fifo * outcome :=
  match o with
  | Write es block =>
    if (0 <? length es) && (c <=? length (q f)) && negb (cl f) then
      (f, if block then Blocks CWritable else Ret 0 [])
    else if cl f then (f, Ret (-1) [])
    else
      let n := Nat.min (c - length (q f)) (length es) in
      ({| q := q f ++ firstn n es; cl := cl f |}, Ret (Z.of_nat n) [])
  | Read k block =>
    if (0 <? k) && (length (q f) =? 0) && negb (cl f) then
      (f, if block then Blocks CReadable else Ret 0 [])
    else if cl f && (length (q f) =? 0) then (f, Ret (-1) [])
    else
      let n := Nat.min (length (q f)) k in
      ({| q := skipn n (q f); cl := cl f |}, Ret (Z.of_nat n) (map Some (firstn n (q f))))
  | Close => ({| q := q f; cl := true |}, Ret 0 [])
  end.

Definition abs_fifo (r : ring) : fifo := {| q := abs r; cl := closed r |}.

(** ------------------------------------------------------------------
    Histories: a completed operation with its result and the invocation /
    response stamps taken from one global counter. *)
Record hrec := { h_op : op; h_k : Z; h_got : list cell; h_inv : N; h_ret : N }.

Definition cell_eqb : cell -> cell -> bool := option_eqb N.eqb.
Definition got_eqb : list cell -> list cell -> bool := list_eqb cell_eqb.

(** does the specification, in state [f], give operation [e] its recorded result? *)
Definition step_rec (c : nat) (f : fifo) (e : hrec) : option fifo :=
  match spec_step c f (h_op e) with
  | (f', Ret k got) => if Z.eqb k (h_k e) && got_eqb got (h_got e) then Some f' else None
  | (_, Blocks _) => None
  end.

Fixpoint spec_exec (c : nat) (f : fifo) (l : list hrec) : option fifo :=
  match l with
  | [] => Some f
  | e :: t => match step_rec c f e with Some f' => spec_exec c f' t | None => None end
  end.

(** real-time order: the head of a linearization was invoked before any
    remaining operation (itself included) returned *)
Fixpoint rt_ok (l : list hrec) : Prop :=
  match l with
  | [] => True
  | a :: t => Forall (fun b => (h_inv a < h_ret b)%N) (a :: t) /\ rt_ok t
  end.

(** ------------------------------------------------------------------
    Concurrent LTS.  A thread is idle, holds a pending call that will next try
    to take the mutex ([Ready]; the flag says whether it has waited before,
    which is the second result of the Go call), sleeps in [cond.Wait()]
    ([Waiting]) or has left the critical section with its result ([Done]). *)
Inductive pc :=
| Idle
| Ready (o : op) (inv : N) (blocked : bool)
| Waiting (o : op) (inv : N)
| Done (o : op) (k : Z) (got : list cell) (inv : N) (blocked : bool).

Definition cond_of (o : op) : cond :=
  match o with Write _ _ => CWritable | _ => CReadable end.

(** ghost linearization-log entry: the record, and whether the call returned *)
Record lrec := { l_rec : hrec; l_returned : bool }.

Record sys := {
  rg : ring;
  thr : nat -> pc;
  clock : N;                 (* the global stamp counter *)
  log : list lrec;           (* ghost: operations in the order of their final critical section *)
  hist : list hrec }.        (* ghost: completed operations in the order of their return *)

Definition upd (f : nat -> pc) (t : nat) (p : pc) : nat -> pc :=
  fun u => if Nat.eqb u t then p else f u.

(** [c.Broadcast()]: every thread waiting on [c] leaves the wait and will
    re-acquire the mutex. [keep] selects the broadcasts that are performed
    (always all of them in the model of the real code; used to show that the
    no-lost-wake-up invariant depends on each of them). *)
Definition wake (cs : list cond) (f : nat -> pc) : nat -> pc :=
  fun u => match f u with
           | Waiting o inv => if existsb (cond_eqb (cond_of o)) cs then Ready o inv true
                              else Waiting o inv
           | p => p end.

Inductive label :=
| LCall (t : nat) (o : op)
| LRun (t : nat)           (* take the mutex, run up to Wait or to the return *)
| LSpurious (t : nat)      (* a waiter wakes without a broadcast (the code tolerates it) *)
| LRet (t : nat).

Definition mark (i : N) (ret : N) (e : lrec) : lrec :=
  if N.eqb (h_inv (l_rec e)) i
  then {| l_rec := {| h_op := h_op (l_rec e); h_k := h_k (l_rec e); h_got := h_got (l_rec e);
                      h_inv := i; h_ret := ret |}; l_returned := true |}
  else e.

Definition lstep_gen (keep : op -> cond -> bool) (s : sys) (l : label) : option sys :=
  match l with
  | LCall t o =>
    match thr s t with
    | Idle => Some {| rg := rg s; thr := upd (thr s) t (Ready o (clock s) false);
                      clock := N.succ (clock s); log := log s; hist := hist s |}
    | _ => None end
  | LRun t =>
    match thr s t with
    | Ready o inv b =>
      match seq_full (rg s) o with
      | (_, Blocks _, _) =>
        Some {| rg := rg s; thr := upd (thr s) t (Waiting o inv);
                clock := clock s; log := log s; hist := hist s |}
      | (r', Ret k got, bc) =>
        Some {| rg := r';
                thr := wake (filter (keep o) bc) (upd (thr s) t (Done o k got inv b));
                clock := clock s;
                log := log s ++ [{| l_rec := {| h_op := o; h_k := k; h_got := got; h_inv := inv;
                                                h_ret := 0 |}; l_returned := false |}];
                hist := hist s |}
      end
    | _ => None end
  | LSpurious t =>
    match thr s t with
    | Waiting o inv => Some {| rg := rg s; thr := upd (thr s) t (Ready o inv true);
                               clock := clock s; log := log s; hist := hist s |}
    | _ => None end
  | LRet t =>
    match thr s t with
    | Done o k got inv b =>
      Some {| rg := rg s; thr := upd (thr s) t Idle; clock := N.succ (clock s);
              log := map (mark inv (clock s)) (log s);
              hist := hist s ++ [{| h_op := o; h_k := k; h_got := got; h_inv := inv;
                                    h_ret := clock s |}] |}
    | _ => None end
  end.

Definition lstep := lstep_gen (fun _ _ => true).

Fixpoint lrun_gen keep (s : sys) (tr : list label) : option sys :=
  match tr with
  | [] => Some s
  | l :: t => match lstep_gen keep s l with Some s' => lrun_gen keep s' t | None => None end
  end.
Definition lrun := lrun_gen (fun _ _ => true).

Definition init_sys (r : ring) : sys :=
  {| rg := r; thr := fun _ => Idle; clock := 0; log := []; hist := [] |}.

(** a waiting thread whose wait condition is false: a lost wake-up *)
Definition stuck (s : sys) (t : nat) : bool :=
  match thr s t with Waiting o _ => negb (guard (rg s) o) | _ => false end.

(** entries still pending (past their critical section, not yet returned) get
    the current clock as response stamp *)
Definition close_rec (clk : N) (e : lrec) : hrec :=
  if l_returned e then l_rec e
  else {| h_op := h_op (l_rec e); h_k := h_k (l_rec e); h_got := h_got (l_rec e);
          h_inv := h_inv (l_rec e); h_ret := clk |}.

(** ------------------------------------------------------------------
    What was written / read by a sequence of completed operations. *)
Definition written (e : hrec) : list entry :=
  match h_op e with
  | Write es _ => firstn (Z.to_nat (h_k e)) es
  | _ => [] end.
Definition was_read (e : hrec) : list cell :=
  match h_op e with Read _ _ => h_got e | _ => [] end.

(** ------------------------------------------------------------------
    pktRing (gateway/dataplane/pktring.go): single-entry writes, reads that
    fetch up to [batch] entries and hand them out one by one. *)
Definition batch_size : nat := 32.
Definition ring_size : nat := 64.

Record pktring := { pr_ring : ring; pr_buf : list cell }.
Definition pkt_new : pktring := {| pr_ring := new_empty ring_size; pr_buf := [] |}.

Inductive pop := PWrite (v : entry) (block : bool) | PRead (block : bool) | PClose.
(** result: count (1 / 0 / -1), the packet handed out; or would block *)
Inductive pout := PRet (k : Z) (pkt : cell) | PBlocks.

Definition pkt_step (p : pktring) (o : pop) : pktring * pout :=
  match o with
  | PWrite v block =>
    match seq_step (pr_ring p) (Write [v] block) with
    | (r', Ret k _) => ({| pr_ring := r'; pr_buf := pr_buf p |}, PRet k None)
    | (_, Blocks _) => (p, PBlocks)
    end
  | PRead block =>
    match pr_buf p with
    | c :: rest => ({| pr_ring := pr_ring p; pr_buf := rest |}, PRet 1 c)
    | [] =>
      match seq_step (pr_ring p) (Read batch_size block) with
      | (_, Blocks _) => (p, PBlocks)
      | (r', Ret k got) =>
        if (k =? -1)%Z then ({| pr_ring := r'; pr_buf := [] |}, PRet (-1) None)
        else if (k =? 0)%Z then ({| pr_ring := r'; pr_buf := [] |}, PRet 0 None)
        else match got with
             | c :: rest => ({| pr_ring := r'; pr_buf := rest |}, PRet 1 c)
             | [] => ({| pr_ring := r'; pr_buf := [] |}, PRet 1 None)   (* unreachable under Inv *)
             end
      end
    end
  | PClose => ({| pr_ring := fst (seq_step (pr_ring p) Close); pr_buf := pr_buf p |}, PRet 0 None)
  end.

(** the packets a pktRing still holds, in order *)
Definition pkt_abs (p : pktring) : list cell := pr_buf p ++ map Some (abs (pr_ring p)).

(** ------------------------------------------------------------------
    Correspondence cases. *)
Definition obs := (Z * bool * list cell)%type.      (* count, blocked flag, entries read *)

Definition obs_eqb (a b : obs) : bool :=
  let '(k1, b1, g1) := a in let '(k2, b2, g2) := b in
  Z.eqb k1 k2 && Bool.eqb b1 b2 && got_eqb g1 g2.

(** model run of a sequential op list; [None] marks an op at which the model would wait *)
Fixpoint seq_run (r : ring) (ops : list op) : list (option obs) :=
  match ops with
  | [] => []
  | o :: t =>
    match seq_step r o with
    | (r', Ret k got) => Some (k, false, got) :: seq_run r' t
    | (_, Blocks _) => [None]
    end
  end.

(** the same with the FIFO specification *)
Fixpoint spec_run (c : nat) (f : fifo) (ops : list op) : list (option obs) :=
  match ops with
  | [] => []
  | o :: t =>
    match spec_step c f o with
    | (f', Ret k got) => Some (k, false, got) :: spec_run c f' t
    | (_, Blocks _) => [None]
    end
  end.

Definition init_queue (init : option (list entry)) : list entry :=
  match init with None => [] | Some es => es end.
Definition init_cap (c : nat) (init : option (list entry)) : nat :=
  match init with None => c | Some es => length es end.

Definition pobs := (Z * cell)%type.
Definition pobs_eqb (a b : pobs) : bool := Z.eqb (fst a) (fst b) && cell_eqb (snd a) (snd b).

Fixpoint pkt_run (p : pktring) (ops : list pop) : list (option pobs) :=
  match ops with
  | [] => []
  | o :: t =>
    match pkt_step p o with
    | (p', PRet k c) => Some (k, c) :: pkt_run p' t
    | (_, PBlocks) => [None]
    end
  end.

(** specification of the pktRing seen by one producer and one consumer:
    a FIFO of capacity [ring_size] + what the consumer has buffered *)
Fixpoint pkt_spec_run (qs : list entry) (buffered : nat) (cl_ : bool) (ops : list pop)
  : list (option pobs) :=
  match ops with
  | [] => []
  | o :: t =>
    match o with
    | PWrite v block =>
      if cl_ then
        (* a full, closed ring still reports closure *)
        Some ((-1)%Z, None) :: pkt_spec_run qs buffered cl_ t
      else if ring_size + buffered <=? length qs then
        if block then [None] else Some (0%Z, None) :: pkt_spec_run qs buffered cl_ t
      else Some (1%Z, None) :: pkt_spec_run (qs ++ [v]) buffered cl_ t
    | PRead block =>
      match qs with
      | v :: rest =>
        Some (1%Z, Some v) ::
        pkt_spec_run rest (match buffered with
                           | S b => b
                           | O => Nat.min (length qs) batch_size - 1 end) cl_ t
      | [] => if cl_ then Some ((-1)%Z, None) :: pkt_spec_run qs 0 cl_ t
              else if block then [None] else Some (0%Z, None) :: pkt_spec_run qs 0 cl_ t
      end
    | PClose => Some (0%Z, None) :: pkt_spec_run qs buffered true t
    end
  end.

End Ring.
