(** Shared model of SCION control-plane PKI chain handling (C34-C37).

    Certificates, TRCs and chains are *abstract*: a certificate is the record of
    what the Go code derives from the parsed [x509.Certificate] (key usages,
    extended key usages, basic constraints, key identifiers, ISD-AS attributes,
    validity window) plus the issuing relation as data ([c_signer] = handle of
    the key whose signature the certificate carries, name handles for subject
    and issuer).  x509 / CMS / ECDSA are not modelled: the harness builds real
    objects and reads the abstract description back from the parsed objects.

    Modelled code:
      pkg/scrypto/cppki/certs.go   classifyCert, ValidateCert (all five classes),
                                   ValidateChain, verifyChain, VerifyChain
      pkg/scrypto/cppki/trc.go     RootCerts/RootPool, InGracePeriod, GracePeriodEnd
      pkg/scrypto/cppki/validity.go Contains, Covers
      private/trust/fetching_provider.go  activeTRCs, filterVerifiableChains, GetChains
      private/storage/trust/sqlite/db.go  SignedTRC (latest / by id), Chains, InsertChain
    The part of Go's [x509.Certificate.Verify] that is reachable with one
    intermediate (the CA certificate) and the TRC roots is transcribed as
    [x509_int_ok] / [x509_root_ok] / [eku_ok]; name constraints, certificate
    policies and unhandled critical extensions are outside the generated domain.
    Time is [Z] seconds; Go's [time.Now()] is the explicit [now].  Definitions only. *)
From Coq Require Import List NArith ZArith Bool.
From Scion Require Import Lib.Check.
Import ListNotations.
Local Open Scope N_scope.

Module PKIChain.

(** Result of cppki.findIA on a distinguished name. *)
Inductive ia_res :=
| IAOk (isd asn : N)    (* present, parsable, not a wildcard, canonical *)
| IANone                (* attribute absent *)
| IAErr.                (* present but unusable *)

Record cert := mkc {
  c_id : N;               (* handle of the raw certificate *)
  c_key : N;              (* handle of the subject public key *)
  c_signer : N;           (* handle of the key that made the signature; 0 = none verifies *)
  c_subject : N;          (* handle of the raw subject name *)
  c_issuer : N;           (* handle of the raw issuer name *)
  c_version : N;
  c_serial_set : bool;
  c_sigalg_ok : bool;     (* ECDSA with SHA-256/384/512 *)
  c_skid : N;             (* subject key id handle, 0 = absent *)
  c_akid : N;             (* authority key id handle, 0 = absent *)
  c_skid_crit : bool;
  c_akid_crit : bool;
  c_ku_certsign : bool;
  c_ku_digsig : bool;
  c_eku : list N;         (* x509.ExtKeyUsage values: 0 any, 1 serverAuth, 2 clientAuth, 8 timeStamping *)
  c_ueku : list N;        (* UnknownExtKeyUsage in order: 1 sensitive, 2 regular, 3 root, 9 other *)
  c_bc_valid : bool;
  c_is_ca : bool;
  c_maxpath : Z;          (* x509 MaxPathLen (-1 = unlimited) *)
  c_bc_noncrit : bool;    (* basic constraints extension present and not critical *)
  c_subject_ia : ia_res;
  c_issuer_ia : ia_res;
  c_nb : Z;
  c_na : Z }.

Definition chain := list cert.

Record trc := mkt {
  t_h : N;                (* handle of the payload *)
  t_isd : N; t_base : N; t_serial : N;
  t_nb : Z; t_na : Z;
  t_grace : Z;            (* seconds *)
  t_certs : list cert;
  t_vset : N;             (* C35 oracle data: handle of the voting certificates in this TRC *)
  t_sigset : N }.         (* C35 oracle data: voter set whose valid votes/signatures it carries, 0 = none *)

Definition mem (x : N) (l : list N) : bool := existsb (N.eqb x) l.
Definition is_nil {A} (l : list A) : bool := match l with [] => true | _ => false end.

(** ---------------------------------------------------------------- certs.go *)

Inductive ctype := TSensitive | TRegular | TRoot | TCA | TAS.
Definition ctype_code (t : option ctype) : N :=
  match t with None => 0 | Some TSensitive => 1 | Some TRegular => 2 | Some TRoot => 3
             | Some TCA => 4 | Some TAS => 5 end.
Definition ctype_eqb (a b : ctype) : bool := ctype_code (Some a) =? ctype_code (Some b).

Fixpoint classify_ueku (l : list N) : option ctype :=
  match l with
  | [] => None
  | u :: t => if u =? 1 then Some TSensitive else if u =? 2 then Some TRegular
              else if u =? 3 then Some TRoot else classify_ueku t
  end.

(** classifyCert *)
Definition classify (c : cert) : option ctype :=
  match classify_ueku (c_ueku c) with
  | Some t => Some t
  | None => if c_ku_certsign c then Some TCA
            else if c_ku_digsig c && negb (c_ku_certsign c) then Some TAS else None
  end.

Definition ia_set (r : ia_res) : bool := match r with IAOk _ _ => true | _ => false end.
Definition ia_noerr (r : ia_res) : bool := match r with IAErr => false | _ => true end.

Definition general_ok (c : cert) : bool :=
  (c_version c =? 3) && c_serial_set c && c_sigalg_ok c && negb (c_skid c =? 0)
  && negb (c_skid_crit c) && negb (c_akid_crit c).

Definition common_ca_ok (c : cert) (pathlen : Z) : bool :=
  c_ku_certsign c && negb (c_ku_digsig c) && negb (mem 2 (c_eku c)) && negb (mem 1 (c_eku c))
  && negb (c_bc_noncrit c)
  && (c_bc_valid c && c_is_ca c && (c_maxpath c =? pathlen)%Z)
  && (ia_set (c_issuer_ia c) && ia_set (c_subject_ia c)).

Definition akid_self_or_absent (c : cert) : bool := (c_akid c =? 0) || (c_akid c =? c_skid c).

Definition validate_root (c : cert) : bool :=
  general_ok c && common_ca_ok c 1 && akid_self_or_absent c && mem 3 (c_ueku c).

Definition validate_ca (c : cert) : bool :=
  general_ok c && common_ca_ok c 0 && negb (c_akid c =? 0).

Definition validate_as (c : cert) : bool :=
  general_ok c && negb (c_ku_certsign c) && c_ku_digsig c && negb (c_bc_valid c && c_is_ca c)
  && (ia_set (c_issuer_ia c) && ia_set (c_subject_ia c)) && negb (c_akid c =? 0)
  && mem 8 (c_eku c).

Definition common_voting_ok (c : cert) : bool :=
  akid_self_or_absent c && negb (c_ku_certsign c) && negb (c_ku_digsig c)
  && mem 8 (c_eku c) && negb (mem 2 (c_eku c)) && negb (mem 1 (c_eku c))
  && negb (c_bc_valid c && c_is_ca c) && ia_noerr (c_issuer_ia c) && ia_noerr (c_subject_ia c).

Definition validate_sensitive (c : cert) : bool :=
  general_ok c && common_voting_ok c && mem 1 (c_ueku c) && negb (mem 2 (c_ueku c)).

Definition validate_regular (c : cert) : bool :=
  general_ok c && common_voting_ok c && mem 2 (c_ueku c) && negb (mem 1 (c_ueku c)).

(** ValidateCert: [None] = error, otherwise the (validated) type. *)
Definition validate_cert (c : cert) : option ctype :=
  match classify c with
  | None => None
  | Some t =>
    if match t with
       | TSensitive => validate_sensitive c | TRegular => validate_regular c
       | TRoot => validate_root c | TCA => validate_ca c | TAS => validate_as c end
    then Some t else None
  end.

Definition is_type (t : ctype) (c : cert) : bool :=
  match validate_cert c with Some u => ctype_eqb u t | None => false end.

(** Validity.Covers *)
Definition covers (outer_nb outer_na inner_nb inner_na : Z) : bool :=
  (outer_nb <=? inner_nb)%Z && (inner_na <=? outer_na)%Z.
(** Validity.Contains *)
Definition contains (nb na t : Z) : bool := (nb <=? t)%Z && (t <=? na)%Z.

(** ValidateChain *)
Definition validate_chain (ch : chain) : bool :=
  match ch with
  | [a; c] => is_type TAS a && is_type TCA c && covers (c_nb c) (c_na c) (c_nb a) (c_na a)
  | _ => false
  end.

(** TRC.RootCerts / RootPool: every certificate of the TRC must be a valid
    sensitive / regular / root certificate; the pool must not be empty. *)
Definition trc_cert_ok (c : cert) : bool :=
  match validate_cert c with
  | Some TSensitive | Some TRegular | Some TRoot => true
  | _ => false
  end.
Definition root_pool (t : trc) : option (list cert) :=
  if forallb trc_cert_ok (t_certs t) then
    let roots := filter (is_type TRoot) (t_certs t) in
    if is_nil roots then None else Some roots
  else None.

(** -------------------------------------------------------- x509.Verify, abstractly *)

Definition valid_at (c : cert) (t : Z) : bool := contains (c_nb c) (c_na c) t.
(** alreadyInChain: same subject and same public key (no SAN in the domain) *)
Definition same_entity (a b : cert) : bool := (c_subject a =? c_subject b) && (c_key a =? c_key b).
(** the signature on [child] verifies under [parent]'s key *)
Definition sig_from (child parent : cert) : bool :=
  negb (c_signer child =? 0) && (c_signer child =? c_key parent).
(** CheckSignatureFrom's conditions on the parent (version 3 without basic
    constraints, or basic constraints without CA; key usage without certSign) *)
Definition x509_can_sign (p : cert) : bool :=
  (negb (c_version p =? 3) || c_bc_valid p) && (negb (c_bc_valid p) || c_is_ca p)
  && c_ku_certsign p.
(** isValid: numIntermediates > MaxPathLen is an error *)
Definition path_len_ok (p : cert) (n : Z) : bool :=
  negb (c_bc_valid p && (0 <=? c_maxpath p)%Z) || (n <=? c_maxpath p)%Z.

(** the CA certificate [c] is accepted as the parent of the leaf [a] *)
Definition x509_int_ok (a c : cert) (now : Z) : bool :=
  (c_subject c =? c_issuer a) && negb (same_entity c a) && x509_can_sign c && sig_from a c
  && valid_at c now && (c_bc_valid c && c_is_ca c) && path_len_ok c 0.

(** the root [r] is accepted as the parent of [c] in the chain [a; c] *)
Definition x509_root_ok (a c r : cert) (now : Z) : bool :=
  (c_subject r =? c_issuer c) && negb (same_entity r a) && negb (same_entity r c)
  && x509_can_sign r && sig_from c r && valid_at r now && path_len_ok r 1.

(** checkChainForKeyUsage with KeyUsages = leaf.ExtKeyUsage *)
Definition usage_ok (u : N) (path : list cert) : bool :=
  forallb (fun c => (is_nil (c_eku c) && is_nil (c_ueku c)) || mem 0 (c_eku c) || mem u (c_eku c)) path.
Definition eku_ok (a : cert) (path : list cert) : bool :=
  mem 0 (c_eku a)
  || existsb (fun u => usage_ok u path) (if is_nil (c_eku a) then [1] else c_eku a).

(** verifyChain (after the fix: of the verification paths found by x509 one
    must lead through the CA certificate of the chain). [None] = nil / zero TRC. *)
Definition verify_chain_trc (ch : chain) (ot : option trc) (now : Z) : bool :=
  validate_chain ch &&
  match ch, ot with
  | [a; c], Some t =>
    match root_pool t with
    | None => false
    | Some roots =>
      valid_at a now && x509_int_ok a c now
      && existsb (fun r => x509_root_ok a c r now && eku_ok a [a; c; r]) roots
    end
  | _, _ => false
  end.

(** VerifyChain: success if one of the TRCs verifies the chain *)
Definition verify_chain (ch : chain) (trcs : list (option trc)) (now : Z) : bool :=
  existsb (fun ot => verify_chain_trc ch ot now) trcs.

(** The property's reading of an acceptable chain (what C34 demands of every
    accepted chain), written without reference to the control flow above. *)
Definition spec_chain_ok (ch : chain) (t : trc) (now : Z) : bool :=
  match ch with
  | [a; c] =>
    is_type TAS a && is_type TCA c                             (* usages, constraints, ISD-AS attributes *)
    && covers (c_nb c) (c_na c) (c_nb a) (c_na a)              (* CA validity covers AS validity *)
    && (sig_from a c && (c_issuer a =? c_subject c))           (* the CA certificate issued the AS certificate *)
    && (valid_at a now && valid_at c now)
    && existsb (fun r => is_type TRoot r && sig_from c r && (c_issuer c =? c_subject r)
                         && valid_at r now) (t_certs t)        (* chains to a root of that TRC at that time *)
  | _ => false
  end.

(** ---------------------------------------------------------------- TRC timing *)

Definition trc_contains (t : trc) (now : Z) : bool := contains (t_nb t) (t_na t) now.
Definition is_base (t : trc) : bool := t_serial t =? t_base t.
Definition grace_end (t : trc) : Z := (t_nb t + t_grace t)%Z.
(** TRC.InGracePeriod *)
Definition in_grace (t : trc) (now : Z) : bool :=
  negb (is_base t) && contains (t_nb t) (grace_end t) now.

(** ---------------------------------------------------------------- trust DB *)

Record db := mkdb { d_trcs : list trc; d_chains : list chain }.

Definition id_lt (b1 s1 b2 s2 : N) : bool := (b1 <? b2) || ((b1 =? b2) && (s1 <? s2)).

(** SignedTRC(isd, latest, latest): ORDER BY base DESC, serial DESC LIMIT 1 *)
Fixpoint latest_trc (ts : list trc) (isd : N) : option trc :=
  match ts with
  | [] => None
  | t :: r =>
    if t_isd t =? isd then
      match latest_trc r isd with
      | Some u => if id_lt (t_base t) (t_serial t) (t_base u) (t_serial u) then Some u else Some t
      | None => Some t
      end
    else latest_trc r isd
  end.

(** SignedTRC(isd, base, serial) *)
Definition find_trc (ts : list trc) (isd base serial : N) : option trc :=
  find (fun t => (t_isd t =? isd) && (t_base t =? base) && (t_serial t =? serial)) ts.

(** activeTRCs: [None] = error (not found / inactive) *)
Definition active_trcs (ts : list trc) (isd : N) (now : Z) : option (list trc) :=
  match latest_trc ts isd with
  | None => None
  | Some t =>
    if negb (trc_contains t now) then None
    else if negb (in_grace t now) then Some [t]
    else match find_trc ts isd (t_base t) (t_serial t - 1) with
         | None => None
         | Some g => Some [t; g]
         end
  end.

(** filterVerifiableChains *)
Definition filter_verifiable (cs : list chain) (trcs : list trc) (now : Z) : list chain :=
  filter (fun ch => existsb (fun t => verify_chain_trc ch (Some t) now) trcs) cs.

Record query := mkq {
  q_isd : N; q_as : N;
  q_skid : N;              (* 0 = any *)
  q_has_val : bool; q_nb : Z; q_na : Z }.

Definition chain_matches (q : query) (ch : chain) : bool :=
  match ch with
  | a :: _ =>
    match c_subject_ia a with
    | IAOk i s => (i =? q_isd q) && (s =? q_as q)
    | _ => false
    end
    && ((q_skid q =? 0) || (c_skid a =? q_skid q))
    && (negb (q_has_val q) || ((c_nb a <=? q_nb q)%Z && (q_na q <=? c_na a)%Z))
  | [] => false
  end.
Definition db_chains (d : db) (q : query) : list chain := filter (chain_matches q) (d_chains d).

Definition chain_ids (ch : chain) : list N := map c_id ch.
Definition ids_eqb (a b : list N) : bool := list_eqb N.eqb a b.
Definition chain_in (ch : chain) (l : list chain) : bool :=
  existsb (fun x => ids_eqb (chain_ids x) (chain_ids ch)) l.
(** InsertChain ... ON CONFLICT DO NOTHING *)
Definition insert_chain (cs : list chain) (ch : chain) : list chain :=
  if chain_in ch cs then cs else cs ++ [ch].
Definition insert_chains (d : db) (l : list chain) : db :=
  mkdb (d_trcs d) (fold_left insert_chain l (d_chains d)).

(** FetchingProvider.GetChains.  [rec_ok]: Recurser.AllowRecursion succeeds;
    [fetch]: what Fetcher.Chains returns ([None] = error).  Result [None] = error. *)
Definition get_chains (d : db) (q : query) (allow_inactive rec_ok : bool)
           (fetch : option (list chain)) (now : Z) : option (list chain) * db :=
  if (q_isd q =? 0) || (q_as q =? 0) then (None, d) else
  let cs := db_chains d q in
  if allow_inactive && negb (is_nil cs) then (Some cs, d) else
  match active_trcs (d_trcs d) (q_isd q) now with
  | None => (None, d)
  | Some trcs =>
    let v := filter_verifiable cs trcs now in
    if negb (is_nil v) then (Some v, d) else
    if negb rec_ok then (None, d) else
    match fetch with
    | None => (None, d)
    | Some fs => let v2 := filter_verifiable fs trcs now in (Some v2, insert_chains d v2)
    end
  end.

(** The property's reading of GetChains (no AllowInactive): a chain handed out
    verifies against the latest TRC while that TRC is valid, or against its
    predecessor during the latest TRC's grace period. *)
Definition spec_provided_ok (ts : list trc) (isd : N) (now : Z) (ch : chain) : bool :=
  match latest_trc ts isd with
  | None => false
  | Some t =>
    trc_contains t now
    && (spec_chain_ok ch t now
        || (in_grace t now
            && match find_trc ts isd (t_base t) (t_serial t - 1) with
               | Some g => spec_chain_ok ch g now
               | None => false
               end))
  end.

(** ---------------------------------------------------------------- LoadChains (private/trust/store.go) *)

(** activeTRCs with the error class LoadChains distinguishes *)
Inductive ares := ANotFound | AInactive | AActive (l : list trc).
Definition active_trcs_res (ts : list trc) (isd : N) (now : Z) : ares :=
  match latest_trc ts isd with
  | None => ANotFound
  | Some t =>
    if negb (trc_contains t now) then AInactive
    else if negb (in_grace t now) then AActive [t]
    else match find_trc ts isd (t_base t) (t_serial t - 1) with
         | None => ANotFound
         | Some g => AActive [t; g]
         end
  end.

Inductive cfile := CFBad | CFChain (ch : chain).     (* CFBad: no readable PEM certificates *)

Definition add_chain (d : db) (ch : chain) : db := mkdb (d_trcs d) (d_chains d ++ [ch]).

(** LoadChains over the *.pem files in directory order: error flag, loaded and
    ignored file names, the DB *)
Fixpoint load_chains (now : Z) (files : list (N * cfile)) (d : db) (loaded ignored : list N)
  : bool * list N * list N * db :=
  match files with
  | [] => (false, loaded, ignored, d)
  | (name, f) :: r =>
    let skip := load_chains now r d loaded (ignored ++ [name]) in
    match f with
    | CFBad => skip
    | CFChain ch =>
      if negb (validate_chain ch) then skip else
      match ch with
      | [] => skip
      | a :: _ =>
        if negb (contains (c_nb a) (c_na a) now) then skip else
        match c_subject_ia a with
        | IAOk isd _ =>
          match active_trcs_res (d_trcs d) isd now with
          | ANotFound => skip
          | AInactive => (true, loaded, ignored, d)
          | AActive trcs =>
            if negb (existsb (fun t => verify_chain_trc ch (Some t) now) trcs) then skip
            else if chain_in ch (d_chains d) then skip
            else load_chains now r (add_chain d ch) (loaded ++ [name]) ignored
          end
        | _ => skip
        end
      end
    end
  end.

(** the property for chains loaded from disk: same rule as for chains handed out *)
Definition spec_loaded_ok (ts : list trc) (now : Z) (ch : chain) : bool :=
  match ch with
  | a :: _ => match c_subject_ia a with
              | IAOk isd _ => valid_at a now && spec_provided_ok ts isd now ch
              | _ => false end
  | [] => false
  end.

(** ---------------------------------------------------------------- correspondence cases (C34) *)

Inductive case :=
| CCert (c : cert) (impl : N)                        (* ValidateCert: 0 = error, else class code *)
| CChain (ch : chain) (impl : bool)                  (* ValidateChain *)
| CVerify (ch : chain) (trcs : list (option trc)) (now : Z) (impl : bool)   (* VerifyChain, explicit time *)
| CTime (t : trc) (now : Z) (impl_contains impl_grace : bool)            (* Validity.Contains, InGracePeriod *)
| CProvider (d : db) (q : query) (allow_inactive rec_ok : bool) (fetch : option (list chain))
            (now : Z)
            (impl : option (list (list N)))          (* returned chains as id lists, sorted *)
            (impl_db : list (list N))                (* chain table afterwards, sorted *)
| CLoadChains (now : Z) (d : db) (files : list (N * cfile))
              (impl_err : bool) (impl_loaded impl_ignored : list N)
              (impl_db : list (list N)).             (* chain table afterwards *)

Definition subset_ids (a b : list (list N)) : bool :=
  forallb (fun x => existsb (ids_eqb x) b) a.
Definition sameset_ids (a b : list (list N)) : bool :=
  (N.of_nat (length a) =? N.of_nat (length b)) && subset_ids a b && subset_ids b a.

Definition res_eqb (m : option (list chain)) (i : option (list (list N))) : bool :=
  match m, i with
  | None, None => true
  | Some l, Some k => sameset_ids (map chain_ids l) k
  | _, _ => false
  end.

(** the chains the case knows about (returned id lists are resolved among them) *)
Definition known_chains (d : db) (fetch : option (list chain)) : list chain :=
  d_chains d ++ match fetch with Some l => l | None => [] end.
Definition provider_oracle (d : db) (q : query) (allow_inactive : bool) (fetch : option (list chain))
           (now : Z) (impl : option (list (list N))) : bool :=
  (* with AllowInactive the chains found in the DB are handed out as they are
     (documented exception); everything else - in particular chains fetched
     from the network in that mode - is subject to the property *)
  (allow_inactive && negb (is_nil (db_chains d q))) ||
  match impl with
  | None => true
  | Some l =>
    forallb (fun ids =>
               existsb (fun ch => ids_eqb (chain_ids ch) ids
                                  && spec_provided_ok (d_trcs d) (q_isd q) now ch)
                       (known_chains d fetch)) l
  end.

Definition nset_eqb (a b : list N) : bool :=
  (N.of_nat (length a) =? N.of_nat (length b)) && forallb (fun x => mem x b) a && forallb (fun x => mem x a) b.

Definition file_chains (files : list (N * cfile)) : list chain :=
  flat_map (fun nf => match snd nf with CFChain ch => [ch] | CFBad => [] end) files.

(** every chain in the table afterwards was there before, or comes from a file
    and satisfies the rule; nothing was removed *)
Definition load_chains_oracle (now : Z) (d : db) (files : list (N * cfile)) (impl_db : list (list N)) : bool :=
  forallb (fun ids =>
             existsb (fun ch => ids_eqb (chain_ids ch) ids) (d_chains d)
             || existsb (fun ch => ids_eqb (chain_ids ch) ids && spec_loaded_ok (d_trcs d) now ch)
                        (file_chains files)) impl_db
  && forallb (fun ch => existsb (ids_eqb (chain_ids ch)) impl_db) (d_chains d).

Definition verify_oracle (ch : chain) (trcs : list (option trc)) (now : Z) (impl : bool) : bool :=
  negb impl
  || existsb (fun ot => match ot with Some t => spec_chain_ok ch t now | None => false end) trcs.

Definition check (c : case) : N :=
  match c with
  | CCert x impl => Check.verdict (ctype_code (validate_cert x) =? impl)
                                   ((impl =? 0) || (ctype_code (validate_cert x) =? impl))
  | CChain ch impl => Check.verdict (Bool.eqb (validate_chain ch) impl) (negb impl || validate_chain ch)
  | CVerify ch trcs now impl =>
    Check.verdict (Bool.eqb (verify_chain ch trcs now) impl) (verify_oracle ch trcs now impl)
  | CTime t now ic ig =>
    Check.verdict (Bool.eqb (trc_contains t now) ic && Bool.eqb (in_grace t now) ig) true
  | CProvider d q ai rk f now impl impl_db =>
    let '(r, d') := get_chains d q ai rk f now in
    Check.verdict (res_eqb r impl && sameset_ids (map chain_ids (d_chains d')) impl_db)
                  (provider_oracle d q ai f now impl)
  | CLoadChains now d files e l i impl_db =>
    let '(e', l', i', d') := load_chains now files d [] [] in
    Check.verdict (Bool.eqb e e' && nset_eqb l l' && nset_eqb i i'
                   && sameset_ids (map chain_ids (d_chains d')) impl_db)
                  (load_chains_oracle now d files impl_db)
  end.

Definition diag (c : case) : list (list N) :=
  match c with
  | CCert x _ => [[ctype_code (validate_cert x)]]
  | CChain ch _ => [[if validate_chain ch then 1 else 0]]
  | CVerify ch trcs now _ => [[if verify_chain ch trcs now then 1 else 0]]
  | CTime t now _ _ => [[if trc_contains t now then 1 else 0; if in_grace t now then 1 else 0]]
  | CProvider d q ai rk f now _ _ =>
    let '(r, d') := get_chains d q ai rk f now in
    match r with None => [[999]] | Some l => map chain_ids l end ++ [[888]] ++ map chain_ids (d_chains d')
  | CLoadChains now d files _ _ _ _ =>
    let '(e', l', i', d') := load_chains now files d [] [] in
    [[if e' then 1 else 0]; l'; i'] ++ map chain_ids (d_chains d')
  end.

End PKIChain.
