(** Model of signer generation and use (C36):
      private/trust/signer_gen.go   SignerGen.Generate, bestForKey, filterPublicKey, filterChains, bestChain, minTime
      private/trust/signer.go       Signer.Sign -> validate (expiry check)
      private/trust/verifier.go     Verifier.Verify (bound ISD-AS, NotifyTRC, GetChains, signature check)
    on top of Model/PKIChain.v (activeTRCs, VerifyChain, the trust DB, GetChains).
    Keys, signatures and the protobuf envelope are abstract: a key is a handle,
    "the message verifies under certificate c" is [c_key c = signing key].
    Definitions only. *)
From Coq Require Import List NArith ZArith Bool.
From Scion Require Import Lib.Check Model.PKIChain.
Import ListNotations.
Import PKIChain.
Local Open Scope N_scope.

Module SignerGen.

(** a private key of the key ring *)
Record key := mkkey {
  k_h : N;            (* handle of the public key *)
  k_skid : N;         (* cppki.SubjectKeyID; 0 = not computable (not an ECDSA key) *)
  k_algo_ok : bool }. (* signed.SelectSignatureAlgorithm succeeds (P-256/384/521) *)

Record signer := mksigner {
  s_key : N;
  s_chain : chain;
  s_expiry : Z;
  s_grace : bool;
  s_trc : N * N * N;          (* isd, base, serial of the latest TRC *)
  s_skid : N }.

Definition as_na (ch : chain) : Z := match ch with a :: _ => c_na a | [] => 0%Z end.
Definition as_skid (ch : chain) : N := match ch with a :: _ => c_skid a | [] => 0 end.
Definition as_key (ch : chain) : N := match ch with a :: _ => c_key a | [] => 0 end.
Definition as_eku (ch : chain) : list N := match ch with a :: _ => c_eku a | [] => [] end.

(** minTime *)
Definition min_time (a b : Z) : Z := if (a <? b)%Z then a else b.

(** bestChain: the last of the verifying chains with the greatest NotAfter *)
Definition best_step (t : trc) (now : Z) (best : option chain) (ch : chain) : option chain :=
  if verify_chain_trc ch (Some t) now then
    match best with
    | Some b => if (as_na ch <? as_na b)%Z then best else Some ch
    | None => Some ch
    end
  else best.
Definition best_chain (t : trc) (now : Z) (chains : list chain) : option chain :=
  fold_left (best_step t now) chains None.

(** filterChains *)
Definition filter_eku (eku : N) (chains : list chain) : list chain :=
  if eku =? 0 then chains else filter (fun ch => mem eku (as_eku ch)) chains.

(** the candidate chains of a key: DB.Chains(IA, skid, [now, now]), restricted to
    certificates for this very public key (filterPublicKey) and filtered by usage *)
Definition candidates (d : db) (isd asn : N) (eku : N) (now : Z) (k : key) : list chain :=
  filter_eku eku (filter (fun ch => as_key ch =? k_h k)
                         (db_chains d (mkq isd asn (k_skid k) true now now))).

Inductive kres := KErr | KSkip | KGot (s : signer).

Definition trc_id (t : trc) : N * N * N := (t_isd t, t_base t, t_serial t).

(** bestForKey *)
Definition best_for_key (d : db) (isd asn eku : N) (now : Z) (trcs : list trc) (k : key) : kres :=
  if k_skid k =? 0 then KSkip
  else if negb (k_algo_ok k) then KErr
  else
    let cs := candidates d isd asn eku now k in
    match trcs with
    | [t] =>
      match best_chain t now cs with
      | Some ch => KGot (mksigner (k_h k) ch (min_time (as_na ch) (t_na t)) false (trc_id t) (as_skid ch))
      | None => KSkip
      end
    | [t; g] =>
      match best_chain t now cs with
      | Some ch => KGot (mksigner (k_h k) ch (min_time (as_na ch) (t_na t)) false (trc_id t) (as_skid ch))
      | None =>
        match best_chain g now cs with
        | Some ch =>
          KGot (mksigner (k_h k) ch
                  (min_time (min_time (min_time (as_na ch) (t_na t)) (grace_end t)) (t_na g))
                  true (trc_id t) (as_skid ch))
        | None => KSkip
        end
      end
    | _ => KSkip            (* activeTRCs returns one or two TRCs *)
    end.

Fixpoint gen_keys (d : db) (isd asn eku : N) (now : Z) (trcs : list trc) (ks : list key)
  : option (list signer) :=
  match ks with
  | [] => Some []
  | k :: r =>
    match best_for_key d isd asn eku now trcs k with
    | KErr => None
    | KSkip => gen_keys d isd asn eku now trcs r
    | KGot s => match gen_keys d isd asn eku now trcs r with
                | Some l => Some (s :: l) | None => None end
    end
  end.

(** SignerGen.Generate; [None] = error *)
Definition signer_gen (d : db) (isd asn eku : N) (now : Z) (ks : list key) : option (list signer) :=
  if is_nil ks then None else
  match active_trcs (d_trcs d) isd now with
  | None => None
  | Some trcs =>
    match gen_keys d isd asn eku now trcs ks with
    | Some [] => None
    | r => r
    end
  end.

(** Signer.Sign succeeds iff the signer has not expired *)
Definition sign_ok (s : signer) (now : Z) : bool := (now <=? s_expiry s)%Z.

(** Verifier.Verify of a message signed by [s] for ISD-AS (isd, asn), with a
    verifier bound to (bisd, basn) ((0,0) = unbound) whose engine is a
    FetchingProvider over [d] that cannot reach the network. *)
Definition verifier_ok (d : db) (isd asn : N) (s : signer) (bisd basn : N) (now : Z) : bool :=
  negb (s_skid s =? 0)
  && (((bisd =? 0) && (basn =? 0)) || ((bisd =? isd) && (basn =? asn)))
  && negb ((isd =? 0) || (asn =? 0))
  (* NotifyTRC with the signer's TRC id: known base, serial not newer than the latest *)
  && match latest_trc (d_trcs d) isd with
     | Some l => let '(_, b, sr) := s_trc s in (t_base l =? b) && (sr <=? t_serial l)
     | None => false
     end
  && match fst (get_chains d (mkq isd asn (s_skid s) false 0 0) false false None now) with
     | Some l => existsb (fun ch => as_key ch =? s_key s) l
     | None => false
     end.

(** ---------------------------------------------------------------- the property, per signer *)

Definition verifies (t : trc) (now : Z) (ch : chain) : bool := verify_chain_trc ch (Some t) now.

(** [ch] is backing [key_h] now: in the DB for this ISD-AS and key id, valid now, usage ok *)
Definition spec_signer_ok (d : db) (isd asn eku : N) (now : Z) (k : key)
           (ch : chain) (expiry : Z) (grace : bool) : bool :=
  let cs := candidates d isd asn eku now k in
  chain_in ch cs
  && (as_key ch =? k_h k)
  && match latest_trc (d_trcs d) isd with
     | None => false
     | Some t =>
       trc_contains t now &&
       if grace then
         in_grace t now
         && match find_trc (d_trcs d) isd (t_base t) (t_serial t - 1) with
            | None => false
            | Some g =>
              spec_chain_ok ch g now
              && negb (existsb (verifies t now) cs)                        (* only if none verifies against the latest *)
              && forallb (fun c => negb (verifies g now c) || (as_na c <=? as_na ch)%Z) cs   (* latest expiring *)
              && (expiry =? Z.min (Z.min (as_na ch) (t_na t)) (Z.min (grace_end t) (t_na g)))%Z
            end
       else
         spec_chain_ok ch t now
         && forallb (fun c => negb (verifies t now c) || (as_na c <=? as_na ch)%Z) cs
         && (expiry =? Z.min (as_na ch) (t_na t))%Z
     end.

(** ---------------------------------------------------------------- correspondence cases *)

(** implementation's view of one signer: key handle, chain ids, expiry,
    in-grace flag, (Sign ok, Verify ok with a verifier bound to the own ISD-AS,
    Verify ok with a verifier bound to another ISD-AS) *)
Definition isigner := (N * list N * Z * bool * (bool * bool * bool))%type.

Inductive case :=
| CGen (d : db) (isd asn eku : N) (now : Z) (ks : list key) (impl : option (list isigner))
| CSign (expiry now : Z) (impl : bool).

Definition find_key (ks : list key) (h : N) : option key := find (fun k => k_h k =? h) ks.

Definition isigner_agrees (d : db) (isd asn : N) (now : Z) (s : signer) (i : isigner) : bool :=
  let '(kh, ids, exp, gr, (sg, v1, v2)) := i in
  (s_key s =? kh) && (exp =? s_expiry s)%Z && Bool.eqb gr (s_grace s)
  (* the chosen chain: the model's, or (DB order is unspecified) another chain of the DB with the same NotAfter *)
  && (ids_eqb ids (chain_ids (s_chain s))
      || existsb (fun ch => ids_eqb (chain_ids ch) ids && (as_na ch =? as_na (s_chain s))%Z) (d_chains d))
  && Bool.eqb sg (sign_ok s now)
  && (negb sg || (Bool.eqb v1 (verifier_ok d isd asn s isd asn now)
                  && Bool.eqb v2 (verifier_ok d isd asn s isd (asn + 1) now))).

Definition gen_agree (d : db) (isd asn eku : N) (now : Z) (ks : list key) (impl : option (list isigner)) : bool :=
  match signer_gen d isd asn eku now ks, impl with
  | None, None => true
  | Some l, Some k =>
    (N.of_nat (length l) =? N.of_nat (length k))
    && forallb (fun p => isigner_agrees d isd asn now (fst p) (snd p)) (combine l k)
  | _, _ => false
  end.

Definition gen_oracle (d : db) (isd asn eku : N) (now : Z) (ks : list key) (impl : option (list isigner)) : bool :=
  match impl with
  | None => true
  | Some l =>
    forallb (fun i : isigner =>
      let '(kh, ids, exp, gr, (sg, v1, v2)) := i in
      match find_key ks kh with
      | None => false
      | Some k =>
        existsb (fun ch => ids_eqb (chain_ids ch) ids && spec_signer_ok d isd asn eku now k ch exp gr)
                (d_chains d)
        && Bool.eqb sg (now <=? exp)%Z            (* signing fails once expired *)
        && (negb sg || (v1 && negb v2))           (* verifies with a verifier bound to its ISD-AS only *)
      end) l
  end.

Definition check (c : case) : N :=
  match c with
  | CGen d isd asn eku now ks impl =>
    Check.verdict (gen_agree d isd asn eku now ks impl) (gen_oracle d isd asn eku now ks impl)
  | CSign expiry now impl =>
    Check.verdict (Bool.eqb (now <=? expiry)%Z impl) (Bool.eqb (now <=? expiry)%Z impl)
  end.

Definition diag (c : case) : list (N * list N * Z * bool) :=
  match c with
  | CGen d isd asn eku now ks _ =>
    match signer_gen d isd asn eku now ks with
    | None => [(999, [], 0%Z, false)]
    | Some l => map (fun s => (s_key s, chain_ids (s_chain s), s_expiry s, s_grace s)) l
    end
  | CSign expiry now _ => [(0, [], expiry, (now <=? expiry)%Z)]
  end.

End SignerGen.
