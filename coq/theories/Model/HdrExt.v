(** C18, layer 5: hop-by-hop / end-to-end extension headers with TLV options
    (pkg/slayers/extn.go) and the packet authenticator option (pkt_auth.go).
    Definitions only. *)
From Coq Require Import List Arith NArith Bool.
From Scion Require Import Lib.Bytes Lib.BytesX Lib.Check.
Import ListNotations.
Local Open Scope N_scope.
Local Open Scope res_scope.

Module HdrExt.

(** tlvOption; OptAlign = [2]uint8{x, y} is not on the wire *)
Record opt := mkOpt { o_type : N; o_datalen : N; o_data : bytes; o_ax : N; o_ay : N }.

Definition pad1 : opt := mkOpt 0 0 [] 0 0.
Definition is_pad (o : opt) : bool := (o_type o =? 0) || (o_type o =? 1).

(** tlvOption.length(fixLengths) *)
Definition opt_length (fx : bool) (o : opt) : nat :=
  if o_type o =? 0 then 1
  else if fx then length (o_data o) + 2 else N.to_nat (o_datalen o) + 2.

(** tlvOption.serializeTo into its (zeroed) slot of the buffer.  Without FixLengths the slot has
    OptDataLen+2 bytes and [copy(data[2:], OptData)] fills it ([fit]). *)
Definition opt_bytes (fx : bool) (o : opt) : bytes :=
  if o_type o =? 0 then [0]
  else if fx then be 1 (o_type o) ++ be 1 (N.of_nat (length (o_data o))) ++ o_data o
  else be 1 (o_type o) ++ be 1 (o_datalen o) ++ fit (N.to_nat (o_datalen o)) (o_data o).

(** serializeTLVOptionPadding(data, padLength): nothing, Pad1, or PadN with padLength-2 zero bytes *)
Definition pad_bytes (k : nat) : bytes :=
  match k with
  | O => []
  | S O => [0]
  | S (S d) => 1 :: N.of_nat d mod 256 :: repeat 0 d
  end.

Definition pad_opts (k : nat) : list opt :=
  match k with
  | O => []
  | S O => [pad1]
  | S (S d) => [mkOpt 1 (N.of_nat d mod 256) (repeat 0 d) 0 0]
  end.

(** padding in front of an option with alignment x*n+y when [len] bytes are already used *)
Definition align_pad (len : nat) (x y : N) : nat :=
  let x := N.to_nat x in let y := N.to_nat y in
  if Nat.eqb x 0 then 0%nat else
  let offset := (x * (len / x) + y)%nat in
  let offset := if Nat.ltb offset len then (offset + x)%nat else offset in
  (offset - len)%nat.

Definition final_pad (len : nat) : nat :=
  let p := Nat.modulo len 4 in if Nat.eqb p 0 then 0%nat else (4 - p)%nat.

(** serializeTLVOptions: [len] is the running [length] variable (starts at 2) *)
Fixpoint ser_opts (fx : bool) (len : nat) (opts : list opt) : bytes :=
  match opts with
  | [] => if fx then pad_bytes (final_pad len) else []
  | o :: t =>
    let pad := if fx then align_pad len (o_ax o) (o_ay o) else 0%nat in
    pad_bytes pad ++ opt_bytes fx o ++ ser_opts fx (len + pad + opt_length fx o) t
  end.

(** the option list a FixLengths serialization puts on the wire: lengths fixed, padding inserted *)
Definition fix_opt (o : opt) : opt :=
  if o_type o =? 0 then pad1 else mkOpt (o_type o) (N.of_nat (length (o_data o))) (o_data o) 0 0.

Fixpoint fix_opts (len : nat) (opts : list opt) : list opt :=
  match opts with
  | [] => pad_opts (final_pad len)
  | o :: t =>
    let pad := align_pad len (o_ax o) (o_ay o) in
    pad_opts pad ++ fix_opt o :: fix_opts (len + pad + opt_length true o) t
  end.

(** what decoding yields for an option serialized without FixLengths *)
Definition canon_opt (o : opt) : opt :=
  if o_type o =? 0 then pad1 else mkOpt (o_type o) (o_datalen o) (o_data o) 0 0.

Inductive kind := HBH | E2E.

Definition hbh_class : N := 200.
Definition e2e_class : N := 201.

(** checkHopByHopExtnNextHdr / checkEndToEndExtnNextHdr *)
Definition bad_nexthdr (k : kind) (nh : N) : bool :=
  match k with
  | HBH => nh =? hbh_class
  | E2E => (nh =? hbh_class) || (nh =? e2e_class)
  end.

Record ext := mkExt { e_nexthdr : N; e_extlen : N; e_opts : list opt }.

Definition ext_body_len (fx : bool) (e : ext) : nat := length (ser_opts fx 2 (e_opts e)) + 2.

Definition ext_encode (k : kind) (fx : bool) (e : ext) : res bytes :=
  if bad_nexthdr k (e_nexthdr e) then Err else
  let body := ser_opts fx 2 (e_opts e) in
  let len := (length body + 2)%nat in
  if negb (Nat.eqb (Nat.modulo len 4) 0) then Err else
  Ok (be 1 (e_nexthdr e) ++
      be 1 (if fx then N.of_nat (len / 4 - 1) else e_extlen e) ++ body).

(** the struct after SerializeTo as a decoder sees it *)
Definition ext_canon (fx : bool) (e : ext) : ext :=
  if fx then mkExt (e_nexthdr e) (N.of_nat (ext_body_len true e / 4 - 1) mod 256) (fix_opts 2 (e_opts e))
  else mkExt (e_nexthdr e) (e_extlen e) (map canon_opt (e_opts e)).

(** the loop [for offset < ActualLen { decodeTLVOption(data[offset:ActualLen]) }];
    [r] = data[offset:ActualLen].  The fuel is [length r]; running out is a [Panic]. *)
Fixpoint dec_opts (fuel : nat) (r : bytes) : res (list opt) :=
  match r with
  | [] => Ok []
  | t :: r1 =>
    match fuel with
    | O => Panic
    | S fuel' =>
      if t =? 0 then os <- dec_opts fuel' r1 ;; Ok (pad1 :: os)
      else match r1 with
           | [] => Err                                   (* len(data) < 2 *)
           | l :: r2 =>
             if Nat.ltb (length r2) (N.to_nat l) then Err (* len(data) < ActualLength *)
             else '(d, r3) <- takeP (N.to_nat l) r2 ;;
                  os <- dec_opts fuel' r3 ;;
                  Ok (mkOpt t l d 0 0 :: os)
           end
    end
  end.

(** decodeExtnBase *)
Definition extn_base_decode (data : bytes) : res (N * N * bytes * bytes) :=
  if Nat.ltb (length data) 2 then Err else
  '(nh, r) <- wordP 1 data ;;
  '(el, r) <- wordP 1 r ;;
  let actual := ((N.to_nat el + 1) * 4)%nat in
  if Nat.ltb (length data) actual then Err else
  '(ob, payload) <- takeP (actual - 2) r ;;
  Ok (nh, el, ob, payload).

(** HopByHopExtn.DecodeFromBytes / EndToEndExtn.DecodeFromBytes *)
Definition ext_decode (k : kind) (data : bytes) : res (ext * bytes) :=
  '(nh, el, ob, payload) <- extn_base_decode data ;;
  if bad_nexthdr k nh then Err else
  os <- dec_opts (length ob) ob ;;
  Ok (mkExt nh el os, payload).

(** HopByHopExtnSkipper / EndToEndExtnSkipper: base header only *)
Definition ext_skip_decode (k : kind) (data : bytes) : res (N * N * bytes) :=
  '(nh, el, _, payload) <- extn_base_decode data ;;
  if bad_nexthdr k nh then Err else Ok (nh, el, payload).

Definition wf_opt (o : opt) : Prop :=
  o_type o < 256 /\
  (o_type o = 0 \/
   (o_datalen o = N.of_nat (length (o_data o)) /\ o_datalen o < 256 /\ wf_bytes (o_data o))).
Definition wf_optb (o : opt) : bool :=
  (o_type o <? 256) &&
  ((o_type o =? 0) ||
   ((o_datalen o =? N.of_nat (length (o_data o))) && (o_datalen o <? 256) && wf_bytesb (o_data o))).

(** wf for FixLengths=true: only the data length matters, alignment values are uint8 *)
Definition wf_opt_fix (o : opt) : Prop :=
  o_type o < 256 /\ o_ax o < 256 /\ o_ay o < 256 /\
  (o_type o = 0 \/ ((length (o_data o) < 256)%nat /\ wf_bytes (o_data o))).
Definition wf_opt_fixb (o : opt) : bool :=
  (o_type o <? 256) && (o_ax o <? 256) && (o_ay o <? 256) &&
  ((o_type o =? 0) || (Nat.ltb (length (o_data o)) 256 && wf_bytesb (o_data o))).

Definition wf_ext (k : kind) (e : ext) : Prop :=
  e_nexthdr e < 256 /\ bad_nexthdr k (e_nexthdr e) = false /\ Forall wf_opt (e_opts e) /\
  ext_body_len false e = ((N.to_nat (e_extlen e) + 1) * 4)%nat /\ e_extlen e < 256.
Definition wf_extb (k : kind) (e : ext) : bool :=
  (e_nexthdr e <? 256) && negb (bad_nexthdr k (e_nexthdr e)) && forallb wf_optb (e_opts e) &&
  Nat.eqb (ext_body_len false e) ((N.to_nat (e_extlen e) + 1) * 4) && (e_extlen e <? 256).

Definition wf_ext_fix (k : kind) (e : ext) : Prop :=
  e_nexthdr e < 256 /\ bad_nexthdr k (e_nexthdr e) = false /\ Forall wf_opt_fix (e_opts e) /\
  (ext_body_len true e <= 1024)%nat.
Definition wf_ext_fixb (k : kind) (e : ext) : bool :=
  (e_nexthdr e <? 256) && negb (bad_nexthdr k (e_nexthdr e)) && forallb wf_opt_fixb (e_opts e) &&
  Nat.leb (ext_body_len true e) 1024.

(** ExtLen announces more than the data holds *)
Definition ext_overlong (bs : bytes) : bool :=
  Nat.leb 2 (length bs) && Nat.ltb (length bs) ((N.to_nat (nth 1 bs 0) + 1) * 4).

Definition opt_eqb (a b : opt) : bool :=
  (o_type a =? o_type b) && (o_datalen a =? o_datalen b) && bytes_eqb (o_data a) (o_data b) &&
  (o_ax a =? o_ax b) && (o_ay a =? o_ay b).
Definition ext_eqb (a b : ext) : bool :=
  (e_nexthdr a =? e_nexthdr b) && (e_extlen a =? e_extlen b) && list_eqb opt_eqb (e_opts a) (e_opts b).

(** ------------------------------------------------------------ packet authenticator option *)
Record spao := mkSpao { sp_spi : N; sp_alg : N; sp_ts : N; sp_auth : bytes }.

Definition spao_meta_len : nat := 12.
Definition opt_type_auth : N := 2.

(** PacketAuthOption.Reset / NewPacketAuthOption *)
Definition spao_to_opt (p : spao) : res opt :=
  if 2 ^ 48 <=? sp_ts p then Err else
  let d := be 4 (sp_spi p) ++ be 1 (sp_alg p) ++ be 1 0 ++ be 6 (sp_ts p) ++ sp_auth p in
  Ok (mkOpt opt_type_auth (N.of_nat (length d) mod 256) d 4 2).

(** ParsePacketAuthOption, then SPI() / Algorithm() / TimestampSN() / Authenticator() *)
Definition spao_of_opt (o : opt) : res spao :=
  if negb (o_type o =? opt_type_auth) then Err else
  if Nat.ltb (length (o_data o)) spao_meta_len then Err else
  '(spi, r) <- wordP 4 (o_data o) ;;
  '(alg, r) <- wordP 1 r ;;
  '(_, r) <- wordP 1 r ;;
  '(ts, r) <- wordP 6 r ;;
  Ok (mkSpao spi alg ts r).

Definition wf_spao (p : spao) : Prop :=
  sp_spi p < 2 ^ 32 /\ sp_alg p < 256 /\ sp_ts p < 2 ^ 48 /\ wf_bytes (sp_auth p).
Definition wf_spaob (p : spao) : bool :=
  (sp_spi p <? 2 ^ 32) && (sp_alg p <? 256) && (sp_ts p <? 2 ^ 48) && wf_bytesb (sp_auth p).

(** reserved: byte 5 of the option data *)
Definition mask_spao (d : bytes) : bytes := firstn 5 d ++ [0] ++ skipn 6 d.

Definition spao_eqb (a b : spao) : bool :=
  (sp_spi a =? sp_spi b) && (sp_alg a =? sp_alg b) && (sp_ts a =? sp_ts b) &&
  bytes_eqb (sp_auth a) (sp_auth b).

End HdrExt.
