(** C02, layer 4: a beaconing RUN over a topology of Model/Network.v, as the iteration of the
    extension step of C23 ([Extend.extend] = DefaultExtender.Extend).

      control/beaconing/originator.go   origination: Extend on an empty segment, ingress 0, egress = a
                                        core (core beaconing) / child (intra-ISD) interface
      control/beaconing/propagator.go   propagation: a beacon received on interface [i] is extended with
                                        ingress [i] and an egress interface of the same kind
      control/beaconing/writer.go       termination / registration: Extend with egress 0
      control/beaconing/handler.go      the receiver accepts a beacon on interface [i] whose last entry
                                        names the neighbour behind [i] and the local AS as Next
      peers                             [sortedIntfs(.., topology.Peer)]: interfaces of link type Peer

    A run is a list of choices (egress, peering interfaces, the clock of the AS) folded over a state
    (segment so far, AS at which the beacon is, interface on which it arrived).  The beacon sent on
    egress interface [e] of AS [A] arrives at [ni_nbr] on interface [ni_remote] of that interface
    (the link of the topology).  Every AS extends with its OWN forwarding key
    ([fullmac (a_key a)], arbitrary) and its own control-plane configuration ([ctl]: MTUs, maximal
    expiry, signers - not part of Network.topology).  Beacon policy filters (C25) and the store only
    remove runs; they are not needed for what a produced segment satisfies.

    The representations differ: Extend.v has ISD-AS pairs, [Z] times/expiry, byte-level MAC input;
    Model/Segment.v (the combinator's and [CombProv.beaconed]'s segment) has [N] throughout.
    [ia_of]/[ia_n], [entry_of], [seg_of] translate; [mac6] is the hop-field MAC function of
    Network/Prov/CombProv ([key -> beta -> ts -> exp -> in -> eg -> 6 bytes]) induced by the full MAC.
    Definitions only. *)
From Coq Require Import List NArith ZArith Bool.
From Scion Require Import Lib.Check Lib.Bytes Model.Router Model.Network Model.Segment Model.Extend.
Import ListNotations.
Local Open Scope N_scope.

Module Beaconing.
Module R := Scion.Model.Router.Router.
Module Nw := Scion.Model.Network.Network.
Module Sg := Scion.Model.Segment.Segment.
Module Ex := Scion.Model.Extend.Extend.

(** addr.IA (uint64) = ISD (16 bits) . AS (48 bits) *)
Definition as_bits : N := 281474976710656.
Definition ia_of (n : N) : Ex.ia := (n / as_bits, n mod as_bits).
Definition ia_n (a : Ex.ia) : N := fst a * as_bits + snd a.

(** control-plane configuration of an AS that Network.topology does not carry *)
Record ctl := mkCtl { k_mtu : N; k_maxexp : Z; k_signers : list Ex.signer; k_ifmtu : N -> N }.

(** the extender's view of the interfaces of AS [a] (ifstate.Interfaces / topology) *)
Definition intfs_of (k : ctl) (a : Nw.nas) : Ex.intfs :=
  map (fun f => (Nw.ni_id f, {| Ex.i_ia := ia_of (Nw.ni_nbr f); Ex.i_rif := Nw.ni_remote f;
                                Ex.i_mtu := k_ifmtu k (Nw.ni_id f) |})) (Nw.a_ifs a).
Definition cfg_of (k : ctl) (a : Nw.nas) : Ex.cfg :=
  {| Ex.c_ia := ia_of (Nw.a_ia a); Ex.c_mtu := k_mtu k; Ex.c_maxexp := k_maxexp k; Ex.c_ifs := intfs_of k a |}.

(** translation of the extender's AS entry / segment to Model/Segment.v *)
Definition hop_of (e : Ex.entry) : Sg.hopf :=
  Sg.mkHop (Ex.e_in e) (Ex.e_eg e) (Z.to_N (Ex.e_exp e)) (Ex.e_mac e).
Definition peer_of (p : Ex.peer) : Sg.peer_entry :=
  Sg.mkPeer (ia_n (Ex.p_ia p)) (Ex.p_rif p)
            (Sg.mkHop (Ex.p_in p) (Ex.p_eg p) (Z.to_N (Ex.p_exp p)) (Ex.p_mac p)) (Ex.p_mtu p).
Definition entry_of (e : Ex.entry) : Sg.as_entry :=
  Sg.mkAS (ia_n (Ex.e_local e)) (hop_of e) (Ex.e_inmtu e) (Ex.e_mtu e) (map peer_of (Ex.e_peers e)).
Definition entries_of (s : Ex.segment) : list Sg.as_entry := map (fun x => entry_of (fst x)) (Ex.s_entries s).
Definition seg_of (s : Ex.segment) : Sg.segment :=
  Sg.mkSeg (Z.to_N (Ex.s_ts s)) (Ex.s_segid s) (entries_of s).

(** [AddASEntry] (the identities of the signed messages play no role here) *)
Definition snoc (s : Ex.segment) (e : Ex.entry) : Ex.segment :=
  {| Ex.s_ts := Ex.s_ts s; Ex.s_segid := Ex.s_segid s; Ex.s_entries := Ex.s_entries s ++ [(e, (0, 0))] |}.

Section Run.
(** full MAC (16 bytes for AES-CMAC) of an input under a key *)
Variable fullmac : N -> list N -> list N.
Variable ctl_of : N -> ctl.
Variable t : Nw.topology.

(** the 6-byte hop-field MAC as the routers recompute it *)
Definition mac6 (k b ts e i g : N) : list N :=
  firstn 6 (fullmac k (Ex.mac_input b (Z.of_N ts) (Z.of_N e) i g)).

(** where the beacon is: [b_at] received it on its interface [b_in] (0: [b_at] originates) *)
Record state := mkSt { b_seg : Ex.segment; b_at : N; b_in : N; b_done : bool }.
(** what the AS decides: egress interface (0 = terminate and register), the peering interfaces to
    announce, and its clock *)
Record choice := mkCh { ch_eg : N; ch_peers : list N; ch_now : Z }.

Definition is_peer_if (a : Nw.nas) (p : N) : bool :=
  match Nw.find_nif (Nw.a_ifs a) p with Some f => R.lt_eqb (Nw.ni_lt f) R.Peer | None => false end.

(** beacons leave over core links (core beaconing) or towards children (intra-ISD) *)
Definition egress_lt (core : bool) : R.linktype := if core then R.Core else R.Child.

(** the far end of the egress interface: the AS and interface where the beacon arrives *)
Definition target (core : bool) (a : Nw.nas) (eg : N) : option (N * N) :=
  if eg =? 0 then Some (0, 0)
  else match Nw.find_nif (Nw.a_ifs a) eg with
       | Some f => if R.lt_eqb (Nw.ni_lt f) (egress_lt core) then Some (Nw.ni_nbr f, Nw.ni_remote f) else None
       | None => None
       end.

Definition step (core : bool) (st : state) (c : choice) : option state :=
  if b_done st then None
  else match Nw.find_as t (b_at st) with
  | None => None
  | Some a =>
    let k := ctl_of (Nw.a_ia a) in
    if negb (forallb (is_peer_if a) (ch_peers c)) then None
    else match target core a (ch_eg c) with
    | None => None
    | Some (nbr, rem) =>
      match Ex.extend (fun i => Some (fullmac (Nw.a_key a) i)) (cfg_of k a) (k_signers k) false (ch_now c)
                      (b_seg st) (b_in st) (ch_eg c) (ch_peers c) with
      | Ex.Ok e _ _ => Some (mkSt (snoc (b_seg st) e) nbr rem (ch_eg c =? 0))
      | _ => None
      end
    end
  end.

Fixpoint steps (core : bool) (st : state) (cs : list choice) : option state :=
  match cs with
  | [] => Some st
  | c :: r => match step core st c with Some st' => steps core st' r | None => None end
  end.

Definition init (origin ts segid : N) : state :=
  mkSt {| Ex.s_ts := Z.of_N ts; Ex.s_segid := segid; Ex.s_entries := [] |} origin 0 false.

(** a complete run: origination at [origin] with timestamp [ts] and initial SegID [segid] (uint16),
    propagation, termination; the registered segment *)
Definition run (core : bool) (origin ts segid : N) (cs : list choice) : option Sg.segment :=
  if negb (segid <? 65536) then None
  else match steps core (init origin ts segid) cs with
       | Some st => if b_done st then Some (seg_of (b_seg st)) else None
       | None => None
       end.

(** the segments beaconing produces: up and down segments ([core = false]), core segments *)
Definition produced (core : bool) (s : Sg.segment) : Prop :=
  exists origin ts segid cs, run core origin ts segid cs = Some s.

End Run.

(** side conditions (Go field widths): MAC output is a byte string of at least 6 bytes; MaxExpTime is
    a uint8, MTUs fit the segment encoding; interface ids are uint16 *)
Definition mac_ok (fullmac : N -> list N -> list N) : Prop :=
  forall k i, (6 <= length (fullmac k i))%nat /\ Forall (fun b => b < 256) (fullmac k i).
Definition ctl_ok (ctl_of : N -> ctl) : Prop :=
  forall a, (0 <= k_maxexp (ctl_of a) <= 255)%Z /\ k_mtu (ctl_of a) < 2147483648 /\
            forall i, k_ifmtu (ctl_of a) i < 2147483648.
Definition ids16 (t : Nw.topology) : bool :=
  forallb (fun a => forallb (fun f => Nw.ni_id f <? 65536) (Nw.a_ifs a)) t.

End Beaconing.
