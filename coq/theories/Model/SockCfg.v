(** C17 — configured socket buffer sizes reach the matching socket option.

    Model of the plumbing, one definition per hop of the Go code, every call
    written with POSITIONAL arguments in the order the Go call site uses
    (the property is exactly about that order):

      config.RouterConfig{ReceiveBufferSize, SendBufferSize, BatchSize}
        -> router.NewConnector            (router/connector.go)      RunConfig{...}
        -> makeDataPlane                  (router/dataplane.go)      underlayProviders["udpip"](batch, receive, send)
           AddExternalInterface / AddNextHop (lazily instantiated providers, same call shape)
        -> udpip.newProvider(batchSize, receiveBufferSize, sendBufferSize)   provider fields
        -> NewInternalLink / newConnectedLink  conn.Config{ReceiveBufferSize, SendBufferSize}
        -> conn.New / initConnUDP         (private/underlay/conn)    SO_SNDBUF / SO_RCVBUF

    Definitions only. *)
From Coq Require Import List NArith Bool.
From Scion Require Import Lib.Check.
Import ListNotations.
Local Open Scope N_scope.

Module SockCfg.

(** config.RouterConfig (only the fields of this plumbing) *)
Record router_config := { rc_receive : N; rc_send : N; rc_batch : N }.

(** router.RunConfig *)
Record run_config := { run_batch : N; run_receive : N; run_send : N }.

(** NewConnector: RunConfig{BatchSize: config.BatchSize,
      ReceiveBufferSize: config.ReceiveBufferSize, SendBufferSize: config.SendBufferSize} *)
Definition new_connector (c : router_config) : run_config :=
  {| run_batch := rc_batch c; run_receive := rc_receive c; run_send := rc_send c |}.

(** udpip.provider (fields of this plumbing) *)
Record provider := { pv_batch : N; pv_receive : N; pv_send : N }.

(** func newProvider(batchSize int, receiveBufferSize int, sendBufferSize int) *)
Definition new_provider (batchSize receiveBufferSize sendBufferSize : N) : provider :=
  {| pv_batch := batchSize; pv_receive := receiveBufferSize; pv_send := sendBufferSize |}.

(** the three call sites of the provider factory in router/dataplane.go *)
Definition make_data_plane (r : run_config) : provider :=
  new_provider (run_batch r) (run_receive r) (run_send r).
Definition add_external_interface_provider (r : run_config) : provider :=
  new_provider (run_batch r) (run_receive r) (run_send r).
Definition add_next_hop_provider (r : run_config) : provider :=
  new_provider (run_batch r) (run_receive r) (run_send r).

(** conn.Config *)
Record conn_config := { cc_send : N; cc_receive : N }.

(** NewInternalLink and newConnectedLink:
    &conn.Config{ReceiveBufferSize: u.receiveBufferSize, SendBufferSize: u.sendBufferSize} *)
Definition new_internal_link_cfg (u : provider) : conn_config :=
  {| cc_send := pv_send u; cc_receive := pv_receive u |}.
Definition new_connected_link_cfg (u : provider) : conn_config :=
  {| cc_send := pv_send u; cc_receive := pv_receive u |}.

Inductive link_kind := Internal | Sibling | External.

(** which call site instantiated the provider that owns the link:
    at construction (the "udpip" provider made by makeDataPlane) or lazily by
    AddExternalInterface / AddNextHop for a provider name not yet instantiated *)
Inductive origin := AtConstruction | Lazy.

Definition provider_of (r : run_config) (k : link_kind) (o : origin) : provider :=
  match o, k with
  | AtConstruction, _ => make_data_plane r
  | Lazy, External => add_external_interface_provider r
  | Lazy, Sibling => add_next_hop_provider r
  | Lazy, Internal => make_data_plane r  (* the internal link always lives on "udpip" *)
  end.

(** The conn.Config handed to ConnOpener.Open for a link, None when the link
    opens no socket of its own (a sibling link that shares the internal socket
    because the opener cannot reuse the local address: newDetachedLink). *)
Definition open_cfg (c : router_config) (k : link_kind) (o : origin) (reuse_local : bool)
  : option conn_config :=
  let u := provider_of (new_connector c) k o in
  match k with
  | Internal => Some (new_internal_link_cfg u)
  | External => Some (new_connected_link_cfg u)
  | Sibling => if reuse_local then Some (new_connected_link_cfg u) else None
  end.

(** initConnUDP: a zero size leaves the operating-system default; otherwise
    SetWriteBuffer(cfg.SendBufferSize) / SetReadBuffer(cfg.ReceiveBufferSize). *)
Record sockopts := { so_sndbuf : option N; so_rcvbuf : option N }.
Definition init_conn (c : conn_config) : sockopts :=
  {| so_sndbuf := if cc_send c =? 0 then None else Some (cc_send c);
     so_rcvbuf := if cc_receive c =? 0 then None else Some (cc_receive c) |}.

(** what the socket option should be for a configured size *)
Definition requested (size : N) : option N := if size =? 0 then None else Some size.

(** Linux reports twice the value that was set, capped at the kernel limit
    (net.core.rmem_max / wmem_max), and the default when nothing was set; the
    harness keeps sizes above the kernel's minimum.  [lim] = (default, max). *)
Definition kernel_reports (lim : N * N) (o : option N) : N :=
  match o with None => fst lim | Some v => 2 * N.min v (snd lim) end.

(** ------------------------------------------------------------------
    Correspondence cases. *)
Definition kind_of (n : N) : option link_kind :=
  match n with 0 => Some Internal | 1 => Some Sibling | 2 => Some External | _ => None end.
Definition origin_of (n : N) : origin := if n =? 0 then AtConstruction else Lazy.

(** observation for one link: None = no Open call, Some (receive, send) of the conn.Config *)
Definition obs := option (N * N).
Definition obs_of (o : option conn_config) : obs :=
  match o with None => None | Some c => Some (cc_receive c, cc_send c) end.
Definition obs_eqb (a b : obs) : bool :=
  option_eqb (fun x y => N.eqb (fst x) (fst y) && N.eqb (snd x) (snd y)) a b.

(** the property on one observed Open: receive = configured receive, send = configured send *)
Definition obs_ok (c : router_config) (o : obs) : bool :=
  match o with
  | None => true
  | Some (r, s) => N.eqb r (rc_receive c) && N.eqb s (rc_send c)
  end.

(** Flat encodings keep the generated case files cheap to elaborate:
    a link is  kind + 3 * origin ; an observation list is a sequence of
    0 (no socket)  or  1, receive, send. *)
Definition links_of (l : list N) : list (N * N) := map (fun x => (x mod 3, x / 3)) l.
Fixpoint obs_list_of (fuel : nat) (l : list N) : option (list obs) :=
  match fuel with
  | O => None
  | S f =>
    match l with
    | [] => Some []
    | 0 :: t => option_map (cons None) (obs_list_of f t)
    | 1 :: r :: s :: t => option_map (cons (Some (r, s))) (obs_list_of f t)
    | _ => None
    end
  end.

Inductive case :=
| CPlumb (receive send batch : N) (reuse_local : bool)
         (links : list N)                (* kind + 3 * origin per configured link *)
         (impl : list N)                 (* conn.Config of the Open made for that link *)
| CChain (receive send batch : N) (reuse_local : bool) (links : list N)
         (def_rcv max_rcv def_snd max_snd : N)   (* kernel defaults and limits *)
         (impl : list N)                 (* getsockopt (SO_RCVBUF, SO_SNDBUF) of the link's socket *)
| CSock (receive send : N)               (* conn.Config given to conn.New *)
        (def_rcv max_rcv def_snd max_snd : N)  (* kernel defaults (zero config) and limits *)
        (impl_rcv impl_snd : N).         (* getsockopt SO_RCVBUF / SO_SNDBUF afterwards *)

Definition model_links (c : router_config) (reuse : bool) (links : list (N * N)) : option (list obs) :=
  fold_right (fun l acc =>
    match acc, kind_of (fst l) with
    | Some t, Some k => Some (obs_of (open_cfg c k (origin_of (snd l)) reuse) :: t)
    | _, _ => None
    end) (Some []) links.

(** what the kernel reports for the socket of a link, through the whole chain *)
Definition reports (dr ds : N * N) (o : option conn_config) : obs :=
  match o with
  | None => None
  | Some c => let so := init_conn c in
              Some (kernel_reports dr (so_rcvbuf so), kernel_reports ds (so_sndbuf so))
  end.

Definition model_chain (c : router_config) (reuse : bool) (dr ds : N * N) (links : list (N * N))
  : option (list obs) :=
  fold_right (fun l acc =>
    match acc, kind_of (fst l) with
    | Some t, Some k => Some (reports dr ds (open_cfg c k (origin_of (snd l)) reuse) :: t)
    | _, _ => None
    end) (Some []) links.

(** the property on one observed socket: the kernel reports what it reports for
    "receive size requested as SO_RCVBUF, send size requested as SO_SNDBUF" *)
Definition sock_ok (c : router_config) (dr ds : N * N) (o : obs) : bool :=
  match o with
  | None => true
  | Some (r, s) => N.eqb r (kernel_reports dr (requested (rc_receive c))) &&
                   N.eqb s (kernel_reports ds (requested (rc_send c)))
  end.

Definition check (x : case) : N :=
  match x with
  | CPlumb r s b reuse links impl =>
    let c := {| rc_receive := r; rc_send := s; rc_batch := b |} in
    match model_links c reuse (links_of links), obs_list_of (S (length impl)) impl with
    | Some m, Some impl => Check.verdict (list_eqb obs_eqb m impl) (forallb (obs_ok c) impl)
    | _, _ => 1
    end
  | CChain r s b reuse links dr mr ds ms impl =>
    let c := {| rc_receive := r; rc_send := s; rc_batch := b |} in
    let dr := (dr, mr) in let ds := (ds, ms) in
    match model_chain c reuse dr ds (links_of links), obs_list_of (S (length impl)) impl with
    | Some m, Some impl => Check.verdict (list_eqb obs_eqb m impl) (forallb (sock_ok c dr ds) impl)
    | _, _ => 1
    end
  | CSock r s dr mr ds ms ir is_ =>
    let o := init_conn {| cc_send := s; cc_receive := r |} in
    let dr := (dr, mr) in let ds := (ds, ms) in
    Check.verdict
      (N.eqb (kernel_reports dr (so_rcvbuf o)) ir && N.eqb (kernel_reports ds (so_sndbuf o)) is_)
      (N.eqb (kernel_reports dr (requested r)) ir && N.eqb (kernel_reports ds (requested s)) is_)
  end.

Definition diag (x : case) : list obs :=
  match x with
  | CPlumb r s b reuse links _ =>
    match model_links {| rc_receive := r; rc_send := s; rc_batch := b |} reuse (links_of links) with
    | Some m => m | None => [] end
  | CChain r s b reuse links dr mr ds ms _ =>
    match model_chain {| rc_receive := r; rc_send := s; rc_batch := b |} reuse (dr, mr) (ds, ms)
                      (links_of links) with
    | Some m => m | None => [] end
  | CSock r s dr mr ds ms _ _ =>
    let o := init_conn {| cc_send := s; cc_receive := r |} in
    [Some (kernel_reports (dr, mr) (so_rcvbuf o), kernel_reports (ds, ms) (so_sndbuf o))]
  end.

End SockCfg.
