(** C15 - the border router's fast path (Model/Router.v) combined with the BFD
    sessions of its links (Model/BFD.v).  Definitions only.

    Go: [scionPacketProcessor.validateEgressUp] asks [interfaces[egress].IsUp()];
    [connectedLink.IsUp] / [detachedLink.IsUp] (udpip.go) answer
    [bfdSession == nil || bfdSession.IsUp()] and [Session.IsUp] is
    [localState == stateUp].  BFD control packets reach the session of the link
    they arrive on ([processBFD]: [pkt.Link.BFDSession().ReceiveMessage]); a link
    without a session discards them.  The internal link (interface 0) never has
    a session.

    A router state is the list of its links that have a BFD session, each with
    the state of that session.  A history is a list of events: a BFD event on a
    link (a received control packet or the expiry of the detection timer) or a
    data packet.  Every data packet is processed by [Router.process_scion] under
    the configuration whose interface-up flags are computed from the session
    states at that moment. *)
From Coq Require Import List NArith Bool.
From Scion Require Import Lib.Check Model.BFD Model.Router Model.RouterOHP.
Import ListNotations.
Local Open Scope N_scope.

Module RouterBfd.
Import Router.

(** * Links and their sessions *)
Definition links := list (N * BFD.sess).     (* link id -> session; absent = link without BFD *)

Fixpoint find_sess (ls : links) (l : N) : option BFD.sess :=
  match ls with
  | [] => None
  | (k, s) :: t => if k =? l then Some s else find_sess t l
  end.

(** [Link.IsUp()] *)
Definition link_up (ls : links) (l : N) : bool :=
  match find_sess ls l with
  | None => true
  | Some s => BFD.st_eqb (BFD.local s) BFD.Up
  end.

(** a BFD event on link [l]; a link without session ignores it *)
Fixpoint step_links (ls : links) (l : N) (o : BFD.op) : links :=
  match ls with
  | [] => []
  | (k, s) :: t => if k =? l then (k, BFD.step s o) :: t else (k, s) :: step_links t l o
  end.

(** the up flag of an interface: interface 0 is the internal link (no BFD) *)
Definition iface_up (ls : links) (f : iface) : bool :=
  if if_id f =? 0 then if_up f else link_up ls (if_link f).

Definition set_up (ls : links) (f : iface) : iface :=
  mkIf (if_id f) (if_scope f) (if_lt f) (if_nbr f) (iface_up ls f) (if_link f).

(** the configuration as the fast path sees it while the sessions are in state [ls] *)
Definition cfg_at (c : cfg) (ls : links) : cfg :=
  mkCfg (c_ia c) (map (set_up ls) (c_ifs c)) (c_svcs c) (c_local_host c)
        (c_port_lo c) (c_port_hi c) (c_scmp_auth c).

(** * Histories *)
Inductive event :=
| EvBfd (l : N) (o : BFD.op)
| EvPkt (now : N) (ing : ingress) (p : pkt).

Definition links_step (ls : links) (e : event) : links :=
  match e with EvBfd l o => step_links ls l o | EvPkt _ _ _ => ls end.
Definition links_after (ls : links) (evs : list event) : links := fold_left links_step evs ls.

(** the BFD events of a history that concern link [l] *)
Fixpoint ops_on (l : N) (evs : list event) : list BFD.op :=
  match evs with
  | [] => []
  | EvBfd k o :: t => if k =? l then o :: ops_on l t else ops_on l t
  | EvPkt _ _ _ :: t => ops_on l t
  end.

Fixpoint count_pkts (evs : list event) : nat :=
  match evs with
  | [] => O
  | EvBfd _ _ :: t => count_pkts t
  | EvPkt _ _ _ :: t => S (count_pkts t)
  end.

Section Run.
Variable macq : N -> N -> N -> N -> N -> option (list N).
Variable c : cfg.

Definition process_at (ls : links) (now : N) (ing : ingress) (p : pkt) : result :=
  process_scion macq (cfg_at c ls) now ing p.

(** what the router does with the data packets of a history, in order *)
Fixpoint run_history (ls : links) (evs : list event) : list result :=
  match evs with
  | [] => []
  | EvBfd l o :: t => run_history (step_links ls l o) t
  | EvPkt now ing p :: t => process_at ls now ing p :: run_history ls t
  end.

(** * The point of [process()] at which the link state is consulted *)

(** the checks of the egress half of [process()] that precede [validateEgressUp]:
    doXover (+ expiry, MAC), egressInterface, validateEgressID, handleEgressRouterAlert *)
Definition before_up (now : N) (ing : ingress) (s : st) : outcome :=
  xover_part macq now s >>= set_egress >>= validate_egress_id c ing >>=
  handle_egress_router_alert c.

(** [Some s]: the packet is not for the local AS and passed every check that
    [process()] makes before [validateEgressUp]; [s] is the processor state there *)
Definition up_check_state (now : N) (ing : ingress) (p : pkt) : option st :=
  match ingress_part macq c now ing p with
  | Stop _ => None
  | Ok s =>
    if p_dst_ia p =? c_ia c then None
    else match before_up now ing s with Ok s' => Some s' | Stop _ => None end
  end.

(** the fast path without [validateEgressUp]: a router none of whose links has BFD *)
Definition no_up_check (now : N) (ing : ingress) (p : pkt) : result :=
  match ingress_part macq c now ing p with
  | Stop r => r
  | Ok s =>
    if p_dst_ia p =? c_ia c then resolve_inbound c s
    else match before_up now ing s with Stop r => r | Ok s' => finish c s' end
  end.

End Run.

(** * One-hop packets (audit follow-up).  [processOHP] never calls [validateEgressUp]:
    a one-hop packet leaving the AS is handed to [interfaces[first.ConsEgress]] whatever the
    state of that link's session (model: Model/RouterOHP.v, which has no up check).  The union
    of both branches of [processPkt] that forward data packets: *)
Definition process_ohp_at (macq : N -> N -> N -> N -> N -> option (list N)) (c : cfg) (ls : links)
           (ing : ingress) (p : pkt) : result :=
  RouterOHP.process_ohp macq (cfg_at c ls) ing p.

Inductive dpkt := DScion (now : N) (p : pkt) | DOhp (p : pkt).
Definition is_ohp (d : dpkt) : bool := match d with DOhp _ => true | DScion _ _ => false end.

Definition process_any (macq : N -> N -> N -> N -> N -> option (list N)) (c : cfg) (ls : links)
           (ing : ingress) (d : dpkt) : result :=
  match d with
  | DScion now p => process_at macq c ls now ing p
  | DOhp p => process_ohp_at macq c ls ing p
  end.

Inductive event2 := Ev2Bfd (l : N) (o : BFD.op) | Ev2Data (ing : ingress) (d : dpkt).
Definition links_step2 (ls : links) (e : event2) : links :=
  match e with Ev2Bfd l o => step_links ls l o | Ev2Data _ _ => ls end.
Definition links_after2 (ls : links) (evs : list event2) : links := fold_left links_step2 evs ls.
Fixpoint count_data2 (evs : list event2) : nat :=
  match evs with
  | [] => O
  | Ev2Bfd _ _ :: t => count_data2 t
  | Ev2Data _ _ :: t => S (count_data2 t)
  end.
Fixpoint run_history2 (macq : N -> N -> N -> N -> N -> option (list N)) (c : cfg) (ls : links)
         (evs : list event2) : list result :=
  match evs with
  | [] => []
  | Ev2Bfd l o :: t => run_history2 macq c (step_links ls l o) t
  | Ev2Data ing d :: t => process_any macq c ls ing d :: run_history2 macq c ls t
  end.

(** the link a slow-path reply leaves over: always the link the request came in on
    ([runSlowPathProcessor]: [egressLink := p.Link], no [IsUp] test) *)
Definition reply_link (ing : ingress) (r : result) : option N :=
  match r with SlowPath (SpScmp _ _ _) _ _ => Some (ing_link ing) | _ => None end.

(** the slow-path request of [validateEgressUp] for a link that is down *)
Definition down_type (f : iface) : N :=
  if scope_eqb (if_scope f) External then ScmpExternalInterfaceDown
  else ScmpInternalConnectivityDown.
Definition down_result (c : cfg) (s : st) : result :=
  SlowPath (SpScmp (down_type (egress_if c s)) 0 0) (s_eg s) (s_p s).

(** * The SCMP message built by the slow path ([slowPathPacketProcessor.processPacket]) *)
Inductive scmp_msg :=
| ExternalInterfaceDown (ia ifid : N)
| InternalConnectivityDown (ia ingress egress : N).

Definition down_scmp (c : cfg) (ing : ingress) (r : result) : option scmp_msg :=
  match r with
  | SlowPath (SpScmp ty _ _) e _ =>
    if ty =? ScmpExternalInterfaceDown then Some (ExternalInterfaceDown (c_ia c) e)
    else if ty =? ScmpInternalConnectivityDown
    then Some (InternalConnectivityDown (c_ia c) (ing_ifid ing) e)
    else None
  | _ => None
  end.

(** * Observations compared with the implementation *)

(** the interface record behind an egress id ([interfaces[egress]]) *)
Definition iface_of (c : cfg) (e : N) : iface :=
  match get_if c e with Some f => f | None => internal_if end.

(** link id (hook numbering) a forwarded packet is handed to *)
Definition fwd_link (c : cfg) (r : result) : option N :=
  match r with Forward e _ _ => Some (if_link (iface_of c e)) | _ => None end.

(** the decoded reply of the slow path:
    [type; code; IA; ingress (0 for type 5); interface / egress; SrcIA of the reply; link it is sent over] *)
Definition reply_of (c : cfg) (ing : ingress) (r : result) : option (list N) :=
  match r with
  | SlowPath (SpScmp ty code _) e _ =>
    match down_scmp c ing r with
    | Some (ExternalInterfaceDown ia i) => Some [ty; code; ia; 0; i; c_ia c; ing_link ing]
    | Some (InternalConnectivityDown ia i g) => Some [ty; code; ia; i; g; c_ia c; ing_link ing]
    | None => None
    end
  | _ => None
  end.

(** * The property as a boolean over one processed data packet.
    [allup]: what a router without BFD does with the packet;
    [impl], [fwd], [reply]: what was observed. *)
Definition c15_ok (c : cfg) (ls : links) (ing : ingress) (allup impl : result)
           (fwd : option N) (reply : option (list N)) : bool :=
  (* never forwarded to another router over a link whose session is not up *)
  match impl with
  | Forward e _ None =>
    iface_up ls (iface_of c e) &&
    match fwd with Some l => (l =? 0) || link_up ls l | None => true end
  | _ => true
  end &&
  (* a packet that would use the link: forwarded iff the link is up, otherwise answered by
     the SCMP message that names the local ISD-AS and the interface(s) *)
  match allup with
  | Forward e _ None =>
    if iface_up ls (iface_of c e) then
      match impl with Forward e' _ None => e' =? e | _ => false end
    else
      match impl with
      | SlowPath (SpScmp ty code _) e' _ =>
        (ty =? down_type (iface_of c e)) && (code =? 0) && (e' =? e) &&
        match reply with
        | None => true         (* the slow path did not produce a reply (e.g. the packet was itself an SCMP error) *)
        | Some r =>
          list_eqb N.eqb r
            [ty; 0; c_ia c;
             (if ty =? ScmpExternalInterfaceDown then 0 else ing_ifid ing); e; c_ia c; ing_link ing]
        end
      | _ => false
      end
  | _ => true
  end.

(** * Cases of the correspondence check *)
Inductive hev :=
| HBfd (l : N) (o : option (list N))   (* None = the detection time passed without a packet *)
       (up : option bool)              (* Link.IsUp() observed afterwards; None = not looked at (the packet only arms a short detection time right before the expiry that follows) *)
| HPkt (now : N) (ing : ingress) (k : N)   (* k: index into the packets of the case *)
       (impl : result) (fwd : option N) (reply : option (list N))
| HOhp (ing : ingress) (k : N)             (* one-hop packet (index k), no BFD upper layer *)
       (impl : result) (fwd : option N)
| HPktR (now : N) (ing : ingress) (k : N)  (* SCION-path packet whose slow-path reply is followed *)
        (impl : result)
        (rl : option N)                    (* link the reply was handed to (None: no reply) *)
        (rl_up : bool).                    (* IsUp() of that link at that moment (recorded, not judged) *)

(** the first clause of [c15_ok] alone: nothing is forwarded to another router over a link
    whose session is not up *)
Definition fwd_ok (c : cfg) (ls : links) (impl : result) (fwd : option N) : bool :=
  match impl with
  | Forward e _ None =>
    iface_up ls (iface_of c e) &&
    match fwd with Some l => (l =? 0) || link_up ls l | None => true end
  | _ => true
  end.

Definition is_hohp (e : hev) : bool := match e with HOhp _ _ _ _ => true | _ => false end.

Inductive case :=
| CHist (c : cfg) (ss : list (N * N))         (* links with a session: (link id, configured remote discriminator) *)
        (macs : list mac_entry) (pkts : list pkt) (evs : list hev).

Definition init_links (ss : list (N * N)) : links :=
  map (fun x => (fst x, BFD.init (snd x))) ss.

Definition op_of (o : option (list N)) : option BFD.op :=
  match o with
  | None => Some BFD.Timeout
  | Some f => match BFD.pkt_of f with Some p => Some (BFD.Recv p) | None => None end
  end.

Definition reply_agree (model impl : option (list N)) : bool :=
  match impl with
  | None => true
  | Some r => match model with Some m => list_eqb N.eqb m r | None => false end
  end.

(** one event: new session states, (agree, oracle) *)
Definition hev_step (c : cfg) (macs : list mac_entry) (pkts : list pkt) (ls : links) (e : hev)
  : links * (bool * bool) :=
  match e with
  | HBfd l o up =>
    match op_of o with
    | Some op => let ls' := step_links ls l op in
                 (ls', (match up with Some b => Bool.eqb (link_up ls' l) b | None => true end, true))
    | None => (ls, (false, true))
    end
  | HPkt now ing k impl fwd reply =>
    match nthN pkts k with
    | None => (ls, (false, true))
    | Some p =>
      let macq := mac_lookup macs in
      let m := process_at macq c ls now ing p in
      (ls, (result_eqb m impl && option_eqb N.eqb (fwd_link c m) fwd &&
            reply_agree (reply_of c ing m) reply,
            c15_ok c ls ing (no_up_check macq c now ing p) impl fwd reply))
    end
  | HOhp ing k impl fwd =>
    match nthN pkts k with
    | None => (ls, (false, true))
    | Some p =>
      let m := process_ohp_at (mac_lookup macs) c ls ing p in
      (ls, (result_eqb m impl && option_eqb N.eqb (fwd_link c m) fwd,
            (* the property, literally: this is where scion deviates (known finding
               C15/ohp-ignores-link-state) *)
            fwd_ok c ls impl fwd))
    end
  | HPktR now ing k impl rl _ =>
    match nthN pkts k with
    | None => (ls, (false, true))
    | Some p =>
      let macq := mac_lookup macs in
      let m := process_at macq c ls now ing p in
      (ls, (result_eqb m impl &&
            match rl with Some l => option_eqb N.eqb (reply_link ing m) (Some l) | None => true end,
            (* a reply the router originates goes back over the link the request came from,
               whatever that link's session says: not "forwarding", see notes/C15.md *)
            c15_ok c ls ing (no_up_check macq c now ing p) impl (fwd_link c impl) None))
    end
  end.

Fixpoint hist_check (c : cfg) (macs : list mac_entry) (pkts : list pkt) (ls : links)
         (evs : list hev) : bool * bool :=
  match evs with
  | [] => (true, true)
  | e :: t =>
    let '(ls', (a, o)) := hev_step c macs pkts ls e in
    let '(a', o') := hist_check c macs pkts ls' t in
    (a && a', o && o')
  end.

(** the same events carrying the model's own observations *)
Fixpoint with_model_obs (c : cfg) (macs : list mac_entry) (pkts : list pkt) (ls : links)
         (evs : list hev) : list hev :=
  match evs with
  | [] => []
  | HBfd l o up :: t =>
    match op_of o with
    | Some op => let ls' := step_links ls l op in
                 HBfd l o (Some (link_up ls' l)) :: with_model_obs c macs pkts ls' t
    | None => HBfd l o up :: with_model_obs c macs pkts ls t
    end
  | HPkt now ing k impl fwd reply :: t =>
    match nthN pkts k with
    | Some p => let m := process_at (mac_lookup macs) c ls now ing p in
                HPkt now ing k m (fwd_link c m) (reply_of c ing m) :: with_model_obs c macs pkts ls t
    | None => HPkt now ing k impl fwd reply :: with_model_obs c macs pkts ls t
    end
  | HOhp ing k impl fwd :: t =>
    match nthN pkts k with
    | Some p => let m := process_ohp_at (mac_lookup macs) c ls ing p in
                HOhp ing k m (fwd_link c m) :: with_model_obs c macs pkts ls t
    | None => HOhp ing k impl fwd :: with_model_obs c macs pkts ls t
    end
  | HPktR now ing k impl rl up :: t =>
    match nthN pkts k with
    | Some p => let m := process_at (mac_lookup macs) c ls now ing p in
                HPktR now ing k m (reply_link ing m) up :: with_model_obs c macs pkts ls t
    | None => HPktR now ing k impl rl up :: with_model_obs c macs pkts ls t
    end
  end.

Definition check (cs : case) : N :=
  match cs with
  | CHist c ss macs pkts evs =>
    let '(a, o) := hist_check c macs pkts (init_links ss) evs in Check.verdict a o
  end.

(** the model's observation per event, for replays:
    BFD event: [0; up]; packet: [1; kind ...] with kind 0 discard, 1 forward (egress),
    2 SCMP (type, code, pointer, egress), 3/4 router alert, 9 other *)
Definition result_code (r : result) : list N :=
  match r with
  | Discard => [0]
  | Forward e _ _ => [1; e]
  | SlowPath (SpScmp ty code ptr) e _ => [2; ty; code; ptr; e]
  | SlowPath SpAlertIngress _ _ => [3]
  | SlowPath SpAlertEgress _ _ => [4]
  | Panic => [7] | Done => [8] | MacMiss => [9] | BadInput => [10]
  end.

Fixpoint hist_diag (c : cfg) (macs : list mac_entry) (pkts : list pkt) (ls : links)
         (evs : list hev) : list (list N) :=
  match evs with
  | [] => []
  | HBfd l o _ :: t =>
    match op_of o with
    | Some op => let ls' := step_links ls l op in
                 [0; (if link_up ls' l then 1 else 0)] :: hist_diag c macs pkts ls' t
    | None => [99] :: hist_diag c macs pkts ls t
    end
  | HPkt now ing k _ _ _ :: t =>
    match nthN pkts k with
    | Some p => (1 :: result_code (process_at (mac_lookup macs) c ls now ing p))
                :: hist_diag c macs pkts ls t
    | None => [99] :: hist_diag c macs pkts ls t
    end
  | HOhp ing k _ _ :: t =>
    match nthN pkts k with
    | Some p => (2 :: result_code (process_ohp_at (mac_lookup macs) c ls ing p))
                :: hist_diag c macs pkts ls t
    | None => [99] :: hist_diag c macs pkts ls t
    end
  | HPktR now ing k _ _ _ :: t =>
    match nthN pkts k with
    | Some p => (3 :: result_code (process_at (mac_lookup macs) c ls now ing p))
                :: hist_diag c macs pkts ls t
    | None => [99] :: hist_diag c macs pkts ls t
    end
  end.

Definition diag (cs : case) : list (list N) :=
  match cs with CHist c ss macs pkts evs => hist_diag c macs pkts (init_links ss) evs end.

End RouterBfd.
