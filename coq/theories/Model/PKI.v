(** Model of the SCION TRC machinery (C32, C33):
      pkg/scrypto/cppki/certs.go   classifyCert, ValidateCert and the per-class validators
      pkg/scrypto/cppki/trc.go     TRC.Validate, TRC.ValidateUpdate, validateSensitive/Regular,
                                   classifyCerts, certMap.find, detectNewVoters
      pkg/scrypto/cppki/id.go      TRCID.Validate, IsBase
      pkg/scrypto/cppki/signed_trc.go  SignedTRC.Verify, verifyBase, verifyUpdate, verifyAll,
                                   verifySignerInfo
      pkg/scrypto/cms/protocol     SignerInfo.FindCertificate
    x509/ASN.1/CMS parsing and ECDSA are not modelled: a certificate is the record of the
    values the Go code reads from the parsed x509.Certificate, a signer info says whose
    certificate it claims, whether its message digest attribute matches the payload and which
    key produced the signature.  Definitions only. *)
From Coq Require Import List ZArith Bool.
From Scion Require Import Lib.Check.
Import ListNotations.

Module PKI.
Local Open Scope Z_scope.

(** * Distinguished names *)

(** The ISD-AS attribute of a name: absent, present but rejected by [findIA]
    (unparsable or not canonical), or present with numbers. *)
Inductive ia_attr := IANone | IABad | IASome (isd asn : Z).

(** [n_id] stands for all ordinary attributes (country, organisation, common name ...). *)
Record name := mkname { n_id : Z; n_ia : ia_attr }.

Definition ia_eqb (a b : ia_attr) : bool :=
  match a, b with
  | IANone, IANone => true
  | IABad, IABad => true
  | IASome i x, IASome j y => (i =? j) && (x =? y)
  | _, _ => false
  end.

(** [equalName] (and byte equality of RawIssuer in FindCertificate). *)
Definition name_eqb (a b : name) : bool := (n_id a =? n_id b) && ia_eqb (n_ia a) (n_ia b).

(** [findIA]: error, not present, or the ISD-AS (never a wildcard). *)
Inductive ia_res := FErr | FNone | FSome (isd asn : Z).
Definition find_ia (n : name) : ia_res :=
  match n_ia n with
  | IANone => FNone
  | IABad => FErr
  | IASome i a => if (i =? 0) || (a =? 0) then FErr else FSome i a
  end.
Definition ia_noerr (n : name) : bool := match find_ia n with FErr => false | _ => true end.
Definition ia_set (n : name) : bool := match find_ia n with FSome _ _ => true | _ => false end.

(** * Certificates *)

Record acert := mkcert {
  c_ekus : list Z;        (* UnknownExtKeyUsage in order: 1 id-kp-sensitive, 2 id-kp-regular, 3 id-kp-root *)
  c_certsign : bool;      (* KeyUsageCertSign *)
  c_digsig : bool;        (* KeyUsageDigitalSignature *)
  c_ts : bool;            (* ExtKeyUsage contains timeStamping / clientAuth / serverAuth *)
  c_client : bool;
  c_server : bool;
  c_bc : bool;            (* BasicConstraintsValid *)
  c_ca : bool;            (* IsCA *)
  c_pathlen : Z;          (* MaxPathLen, -1 when absent *)
  c_bc_noncrit : bool;    (* basic constraints extension present and not critical *)
  c_sigalg : bool;        (* SignatureAlgorithm is one of the ECDSA algorithms *)
  c_skid : Z;             (* SubjectKeyId, 0 = absent *)
  c_akid : Z;             (* AuthorityKeyId, 0 = absent *)
  c_subject : name;
  c_issuer : name;
  c_serial : Z;
  c_nb : Z;               (* NotBefore, NotAfter (seconds) *)
  c_na : Z;
  c_raw : Z;              (* identity of the DER bytes *)
  c_key : Z               (* identity of the certified public key *)
}.

Inductive ctype := Sensitive | Regular | Root | CA | AS.

Definition ctype_eqb (a b : ctype) : bool :=
  match a, b with
  | Sensitive, Sensitive | Regular, Regular | Root, Root | CA, CA | AS, AS => true
  | _, _ => false
  end.

Fixpoint first_scion_eku (l : list Z) : option ctype :=
  match l with
  | [] => None
  | x :: t => if x =? 1 then Some Sensitive else if x =? 2 then Some Regular
              else if x =? 3 then Some Root else first_scion_eku t
  end.

(** [classifyCert] *)
Definition classify (c : acert) : option ctype :=
  match first_scion_eku (c_ekus c) with
  | Some t => Some t
  | None => if c_certsign c then Some CA else if c_digsig c then Some AS else None
  end.

Definition has_eku (k : Z) (c : acert) : bool := existsb (Z.eqb k) (c_ekus c).

(** [generalValidation] (certificate version and nil serial cannot differ for a parsed
    certificate built by crypto/x509; critical key identifiers are rejected by the parser) *)
Definition general_ok (c : acert) : bool := c_sigalg c && negb (c_skid c =? 0).

Definition akid_matches (c : acert) : bool := (c_akid c =? 0) || (c_akid c =? c_skid c).

(** [commonVotingValidation] *)
Definition voting_common (c : acert) : bool :=
  akid_matches c && negb (c_certsign c) && negb (c_digsig c) &&
  c_ts c && negb (c_client c) && negb (c_server c) &&
  negb (c_bc c && c_ca c) && ia_noerr (c_issuer c) && ia_noerr (c_subject c).

(** [commonCAValidation c pathLen] *)
Definition ca_common (c : acert) (pl : Z) : bool :=
  c_certsign c && negb (c_digsig c) && negb (c_client c) && negb (c_server c) &&
  negb (c_bc_noncrit c) && (c_bc c && c_ca c && (c_pathlen c =? pl)) &&
  ia_set (c_issuer c) && ia_set (c_subject c).

Definition validate_as (c : acert) (t : ctype) : bool :=
  match t with
  | Sensitive => general_ok c && voting_common c && has_eku 1 c && negb (has_eku 2 c)
  | Regular => general_ok c && voting_common c && has_eku 2 c && negb (has_eku 1 c)
  | Root => general_ok c && ca_common c 1 && akid_matches c && has_eku 3 c
  | CA => general_ok c && ca_common c 0 && negb (c_akid c =? 0)
  | AS => general_ok c && negb (c_certsign c) && c_digsig c && negb (c_bc c && c_ca c) &&
          ia_set (c_issuer c) && ia_set (c_subject c) && negb (c_akid c =? 0) && c_ts c
  end.

(** [ValidateCert]: the type, or [None] for an error. *)
Definition validate_cert (c : acert) : option ctype :=
  match classify c with
  | Some t => if validate_as c t then Some t else None
  | None => None
  end.

(** * TRC payload *)

Record trc := mktrc {
  t_version : Z;
  t_isd : Z; t_base : Z; t_serial : Z;
  t_nb : Z; t_na : Z;          (* validity, seconds *)
  t_grace : Z;
  t_ntr : bool;                (* NoTrustReset *)
  t_votes : list Z;
  t_quorum : Z;
  t_core : list Z; t_auth : list Z;
  t_certs : list acert
}.

Inductive verr :=
  EVersion | EID | EValidity | EGrace | EVotesOnBase | EQuorum | ENoASes | EWildcardAS
| EDuplicateAS | EUnclassified | EInvalidCertType | ENotEnoughVoters | EFindIA | EOtherISD
| ENotCovered | EDuplicate.

Definition is_base (t : trc) : bool := t_serial t =? t_base t.

(** [TRCID.Validate]. Base and serial are unsigned in Go: [Base == 0] is written [0 <? base]
    so that the model needs no side condition on the sign. *)
Definition id_ok (t : trc) : bool :=
  negb (t_isd t =? 0) && (t_base t <=? t_serial t) && (0 <? t_base t).

(** [validateASSequence] *)
Fixpoint as_seq_go (l : list Z) : option verr :=
  match l with
  | [] => None
  | a :: r => if a =? 0 then Some EWildcardAS
              else if existsb (Z.eqb a) r then Some EDuplicateAS else as_seq_go r
  end.
Definition as_seq_err (l : list Z) : option verr :=
  match l with [] => Some ENoASes | _ => as_seq_go l end.

Fixpoint first_err {A} (f : A -> option verr) (l : list A) : option verr :=
  match l with
  | [] => None
  | x :: r => match f x with Some e => Some e | None => first_err f r end
  end.

(** One iteration of the loop in [classifyCerts]. *)
Definition cert_err (c : acert) : option verr :=
  match validate_cert c with
  | None => Some EUnclassified
  | Some CA | Some AS => Some EInvalidCertType
  | Some _ => None
  end.

Fixpoint indexed {A} (i : Z) (l : list A) : list (Z * A) :=
  match l with [] => [] | x :: r => (i, x) :: indexed (i + 1) r end.

Definition has_class (ty : ctype) (c : acert) : bool :=
  match validate_cert c with Some t => ctype_eqb t ty | None => false end.

(** The certificate maps of [classified], as index/certificate lists in index order. *)
Definition of_class (ty : ctype) (cs : list acert) : list (Z * acert) :=
  filter (fun p => has_class ty (snd p)) (indexed 0 cs).

Definition sens_of (t : trc) := of_class Sensitive (t_certs t).
Definition reg_of (t : trc) := of_class Regular (t_certs t).
Definition root_of (t : trc) := of_class Root (t_certs t).

(** [classifyCerts]: the first error, if any. *)
Definition classify_err (cs : list acert) : option verr := first_err cert_err cs.

(** One iteration of the per-certificate loop of [Validate]. *)
Definition cert_trc_err (t : trc) (c : acert) : option verr :=
  match find_ia (c_subject c) with
  | FErr => Some EFindIA
  | FSome i _ =>
      if negb (i =? t_isd t) then Some EOtherISD
      else if (c_nb c <=? t_nb t) && (t_na t <=? c_na c) then None else Some ENotCovered
  | FNone => if (c_nb c <=? t_nb t) && (t_na t <=? c_na c) then None else Some ENotCovered
  end.

Definition same_issuer_serial (a b : acert) : bool :=
  (c_serial a =? c_serial b) && name_eqb (c_issuer a) (c_issuer b).

Fixpoint dup_issuer_serial (cs : list acert) : bool :=
  match cs with
  | [] => false
  | a :: r => existsb (same_issuer_serial a) r || dup_issuer_serial r
  end.

Fixpoint dup_subject (m : list (Z * acert)) : bool :=
  match m with
  | [] => false
  | a :: r => existsb (fun b => name_eqb (c_subject (snd a)) (c_subject (snd b))) r || dup_subject r
  end.

Definition len {A} (l : list A) : Z := Z.of_nat (length l).

(** [TRC.Validate]: [None] = valid. *)
Definition trc_validate (t : trc) : option verr :=
  if negb (t_version t =? 1) then Some EVersion else
  if negb (id_ok t) then Some EID else
  if negb (t_nb t <? t_na t) then Some EValidity else
  if is_base t && negb (t_grace t =? 0) then Some EGrace else
  if is_base t && negb (len (t_votes t) =? 0) then Some EVotesOnBase else
  if (t_quorum t <=? 0) || (255 <? t_quorum t) then Some EQuorum else
  match as_seq_err (t_core t) with Some e => Some e | None =>
  match as_seq_err (t_auth t) with Some e => Some e | None =>
  match classify_err (t_certs t) with Some e => Some e | None =>
  if len (sens_of t) <? t_quorum t then Some ENotEnoughVoters else
  if len (reg_of t) <? t_quorum t then Some ENotEnoughVoters else
  match first_err (cert_trc_err t) (t_certs t) with Some e => Some e | None =>
  if dup_issuer_serial (t_certs t) then Some EDuplicate else
  if dup_subject (sens_of t) || dup_subject (reg_of t) || dup_subject (root_of t)
  then Some EDuplicate else None
  end end end end.

(** The rules of the property, written independently of the order of the code
    (used as the oracle of the correspondence check). *)
Fixpoint nodupb {A} (eqb : A -> A -> bool) (l : list A) : bool :=
  match l with [] => true | x :: r => negb (existsb (eqb x) r) && nodupb eqb r end.

Definition as_list_ok (l : list Z) : bool :=
  negb (len l =? 0) && negb (existsb (Z.eqb 0) l) && nodupb Z.eqb l.

Definition votable (c : acert) : bool :=
  has_class Sensitive c || has_class Regular c || has_class Root c.

Definition in_isd (t : trc) (c : acert) : bool :=
  match find_ia (c_subject c) with FSome i _ => i =? t_isd t | FNone => true | FErr => false end.

Definition covers (t : trc) (c : acert) : bool := (c_nb c <=? t_nb t) && (t_na t <=? c_na c).

Definition issuer_serial_eqb (a b : name * Z) : bool :=
  (snd a =? snd b) && name_eqb (fst a) (fst b).

Definition subjects (m : list (Z * acert)) : list name := map (fun p => c_subject (snd p)) m.

Definition rules_b (t : trc) : bool :=
  (t_version t =? 1) &&
  (negb (t_isd t =? 0) && (1 <=? t_base t) && (t_base t <=? t_serial t)) &&
  (t_nb t <? t_na t) &&
  (negb (t_base t =? t_serial t) || ((t_grace t =? 0) && (len (t_votes t) =? 0))) &&
  ((1 <=? t_quorum t) && (t_quorum t <=? 255)) &&
  ((t_quorum t <=? len (sens_of t)) && (t_quorum t <=? len (reg_of t))) &&
  (as_list_ok (t_core t) && as_list_ok (t_auth t)) &&
  forallb votable (t_certs t) &&
  forallb (in_isd t) (t_certs t) &&
  forallb (covers t) (t_certs t) &&
  nodupb issuer_serial_eqb (map (fun c => (c_issuer c, c_serial c)) (t_certs t)) &&
  (nodupb name_eqb (subjects (sens_of t)) && nodupb name_eqb (subjects (reg_of t)) &&
   nodupb name_eqb (subjects (root_of t))).

(** * TRC updates *)

Fixpoint lookup (m : list (Z * acert)) (v : Z) : option acert :=
  match m with
  | [] => None
  | (i, c) :: r => if i =? v then Some c else lookup r v
  end.

(** [certMap.find]: index of the certificate with the same subject and whether it is byte-equal. *)
Fixpoint find_subject (m : list (Z * acert)) (c : acert) : option (Z * acert) :=
  match m with
  | [] => None
  | (i, p) :: r => if name_eqb (c_subject p) (c_subject c) then Some (i, p) else find_subject r c
  end.

Definition unchanged_in (m : list (Z * acert)) (c : acert) : bool :=
  match find_subject m c with Some (_, p) => c_raw p =? c_raw c | None => false end.

(** [detectNewVoters] (results carry the index in the new TRC). *)
Definition new_voters (psens preg : list (Z * acert)) (t : trc) : list (Z * acert) :=
  filter (fun p => negb (unchanged_in psens (snd p))) (sens_of t) ++
  filter (fun p => negb (unchanged_in preg (snd p))) (reg_of t).

(** The voters named by the votes, [None] if a vote is not an index of [m]. *)
Fixpoint voters_of (m : list (Z * acert)) (votes : list Z) : option (list (Z * acert)) :=
  match votes with
  | [] => Some []
  | v :: r =>
      match lookup m v with
      | None => None
      | Some c => match voters_of m r with Some l => Some ((v, c) :: l) | None => None end
      end
  end.

Inductive rerr :=
  RQuorum | RCore | RAuth | RSensCount | RSens | RRootCount | RRootNew | RRegCount | RRegNew
| RNonRegularVote | RMissingVotes.

Definition zlist_eqb := list_eqb Z.eqb.

(** Root certificates of the predecessor that were replaced (same subject, other bytes). *)
Definition root_acks (pred t : trc) : list (Z * acert) :=
  flat_map (fun p => match find_subject (root_of pred) (snd p) with
                     | Some (i, q) => if c_raw q =? c_raw (snd p) then [] else [(i, q)]
                     | None => [] end) (root_of t).

(** Indices of the predecessor's regular voting certificates that were replaced. *)
Definition changed_regular (pred t : trc) : list Z :=
  flat_map (fun p => match find_subject (reg_of pred) (snd p) with
                     | Some (i, q) => if c_raw q =? c_raw (snd p) then [] else [i]
                     | None => [] end) (reg_of t).

Definition all_found (m : list (Z * acert)) (l : list (Z * acert)) : bool :=
  forallb (fun p => match find_subject m (snd p) with Some _ => true | None => false end) l.

(** [validateRegular]: votes and root acknowledgements, or the error. *)
Definition validate_regular (pred t : trc) : rerr + (list (Z * acert) * list (Z * acert)) :=
  if negb (t_quorum pred =? t_quorum t) then inl RQuorum else
  if negb (zlist_eqb (t_core pred) (t_core t)) then inl RCore else
  if negb (zlist_eqb (t_auth pred) (t_auth t)) then inl RAuth else
  if negb (len (sens_of pred) =? len (sens_of t)) then inl RSensCount else
  if negb (forallb (fun p => unchanged_in (sens_of pred) (snd p)) (sens_of t)) then inl RSens else
  if negb (len (root_of pred) =? len (root_of t)) then inl RRootCount else
  if negb (all_found (root_of pred) (root_of t)) then inl RRootNew else
  if negb (len (reg_of pred) =? len (reg_of t)) then inl RRegCount else
  if negb (all_found (reg_of pred) (reg_of t)) then inl RRegNew else
  match voters_of (reg_of pred) (t_votes t) with
  | None => inl RNonRegularVote
  | Some voters =>
      if forallb (fun i => existsb (Z.eqb i) (t_votes t)) (changed_regular pred t)
      then inr (voters, root_acks pred t) else inl RMissingVotes
  end.

Inductive utype := USensitive | URegular.

Record update := mkupd {
  u_type : utype;
  u_new : list (Z * acert);      (* NewVoters (index in the new TRC) *)
  u_votes : list (Z * acert);    (* Votes (index in the predecessor) *)
  u_acks : list (Z * acert)      (* RootAcknowledgments (index in the predecessor) *)
}.

Inductive uerr :=
  UValidate (e : verr) | UNoPred | UISD | UBase | USerial | UNTR | UVoteCount
| UPredClassify | USensVote | UReg (e : rerr).

Inductive ures := UOk (u : update) | UErr (e : uerr) | UPanic.

Definition two64 : Z := 18446744073709551616.

(** [TRC.ValidateUpdate] *)
Definition validate_update (pred : option trc) (t : trc) : ures :=
  match trc_validate t with Some e => UErr (UValidate e) | None =>
  match pred with None => UErr UNoPred | Some p =>
  if negb (t_isd p =? t_isd t) then UErr UISD else
  if negb (t_base p =? t_base t) then UErr UBase else
  if negb ((t_serial p + 1) mod two64 =? t_serial t) then UErr USerial else
  if negb (Bool.eqb (t_ntr p) (t_ntr t)) then UErr UNTR else
  if len (t_votes t) <? t_quorum p then UErr UVoteCount else
  match classify_err (t_certs p) with Some _ => UErr UPredClassify | None =>
  match t_votes t with
  | [] => UPanic                                   (* trc.Votes[0] *)
  | v0 :: _ =>
      match lookup (reg_of p) v0 with
      | None =>
          match voters_of (sens_of p) (t_votes t) with
          | None => UErr USensVote
          | Some voters => UOk (mkupd USensitive (new_voters (sens_of p) (reg_of p) t) voters [])
          end
      | Some _ =>
          match validate_regular p t with
          | inl e => UErr (UReg e)
          | inr (voters, acks) =>
              UOk (mkupd URegular (new_voters (sens_of p) (reg_of p) t) voters acks)
          end
      end
  end end end end.

(** * Signatures *)

Record sinfo := mksi {
  si_kind : Z;          (* SignerInfo.Version: 1 issuer+serial, 3 subject key id, other unsupported *)
  si_issuer : name; si_serial : Z;
  si_ski : Z;
  si_digest_ok : bool;  (* the message digest attribute equals the digest of the payload *)
  si_key : Z            (* the key that produced the signature, 0 = none *)
}.

Inductive fres := FCErr | FCNone | FCSome (p : Z * acert).

(** does the signer identifier name this certificate *)
Definition claims (si : sinfo) (c : acert) : bool :=
  if si_kind si =? 1 then name_eqb (c_issuer c) (si_issuer si) && (si_serial si =? c_serial c)
  else negb (c_skid c =? 0) && (c_skid c =? si_ski si).

(** [SignerInfo.FindCertificate] *)
Definition find_cert (si : sinfo) (certs : list (Z * acert)) : fres :=
  if (si_kind si =? 1) || (si_kind si =? 3) then
    match find (fun p => claims si (snd p)) certs with Some p => FCSome p | None => FCNone end
  else FCErr.

Inductive serr := SBadSID | SDigest | SSignature | SMissing.

Definition sig_valid (si : sinfo) (c : acert) : bool := (si_key si =? c_key c) && (0 <? si_key si).

Definition add_seen (i : Z) (seen : list Z) : list Z :=
  if existsb (Z.eqb i) seen then seen else i :: seen.

(** the loop of [verifyAll] with [verifySignerInfo] *)
Fixpoint verify_sis (sis : list sinfo) (certs : list (Z * acert)) (seen : list Z) : serr + list Z :=
  match sis with
  | [] => inr seen
  | si :: r =>
      match find_cert si certs with
      | FCErr => inl SBadSID
      | FCNone => verify_sis r certs seen
      | FCSome (i, c) =>
          if negb (si_digest_ok si) then inl SDigest
          else if negb (sig_valid si c) then inl SSignature
          else verify_sis r certs (add_seen i seen)
      end
  end.

(** [verifyAll]: the certificates are identified by their index (pointer identity in Go). *)
Definition verify_all (sis : list sinfo) (certs : list (Z * acert)) : option serr :=
  match verify_sis sis certs [] with
  | inl e => Some e
  | inr seen => if len seen =? len certs then None else Some SMissing
  end.

Inductive stage := AtNewVoters | AtRootAcks | AtVotes.

Inductive vres :=
  Accept
| RejPredForBase                    (* predecessor given for a base TRC *)
| RejValidate (e : verr)            (* base TRC: payload invalid *)
| RejUpdate (e : uerr)              (* ValidateUpdate failed *)
| RejSig (st : stage) (e : serr)
| Panic.

Definition voters_all (t : trc) : list (Z * acert) := sens_of t ++ reg_of t.

(** [verifyBase] *)
Definition verify_base (t : trc) (sis : list sinfo) : vres :=
  match trc_validate t with
  | Some e => RejValidate e
  | None => match verify_all sis (voters_all t) with
            | Some e => RejSig AtNewVoters e
            | None => Accept
            end
  end.

(** [verifyUpdate] *)
Definition verify_update (pred : option trc) (t : trc) (sis : list sinfo) : vres :=
  match validate_update pred t with
  | UPanic => Panic
  | UErr e => RejUpdate e
  | UOk u =>
      match verify_all sis (u_new u) with Some e => RejSig AtNewVoters e | None =>
      match verify_all sis (u_acks u) with Some e => RejSig AtRootAcks e | None =>
      match verify_all sis (u_votes u) with Some e => RejSig AtVotes e | None => Accept
      end end end
  end.

(** [SignedTRC.Verify] *)
Definition verify (pred : option trc) (t : trc) (sis : list sinfo) : vres :=
  if negb (is_base t) then verify_update pred t sis
  else match pred with Some _ => RejPredForBase | None => verify_base t sis end.

(** * The property of C32 as a decision procedure independent of the code's control flow
      (oracle of the correspondence check). *)

(** some signer info names the certificate, carries the right digest and was produced by the
    certificate's key *)
Definition signed_by (sis : list sinfo) (p : Z * acert) : bool :=
  existsb (fun si => ((si_kind si =? 1) || (si_kind si =? 3)) && claims si (snd p) &&
                     si_digest_ok si && sig_valid si (snd p)) sis.

(** distinct certificates (by position in their TRC), every one of which signed *)
Definition all_signed (sis : list sinfo) (l : list (Z * acert)) : bool :=
  nodupb Z.eqb (map fst l) && forallb (signed_by sis) l.

Definition mem_idx (m : list (Z * acert)) (v : Z) : bool :=
  match lookup m v with Some _ => true | None => false end.

(** same subject in the same class, other bytes *)
Definition replaced_by (l : list (Z * acert)) (p : Z * acert) : bool :=
  existsb (fun q => name_eqb (c_subject (snd p)) (c_subject (snd q)) &&
                    negb (c_raw (snd p) =? c_raw (snd q))) l.
Definition kept_in (l : list (Z * acert)) (p : Z * acert) : bool :=
  existsb (fun q => name_eqb (c_subject (snd p)) (c_subject (snd q)) &&
                    (c_raw (snd p) =? c_raw (snd q))) l.
Definition same_subjects (a b : list (Z * acert)) : bool :=
  forallb (fun p => existsb (fun q => name_eqb (c_subject (snd p)) (c_subject (snd q))) b) a &&
  forallb (fun q => existsb (fun p => name_eqb (c_subject (snd p)) (c_subject (snd q))) a) b.

Definition pick (m : list (Z * acert)) (votes : list Z) : list (Z * acert) :=
  flat_map (fun v => match lookup m v with Some c => [(v, c)] | None => [] end) votes.

Definition newly_introduced (p t : trc) : list (Z * acert) :=
  filter (fun q => negb (kept_in (sens_of p) q)) (sens_of t) ++
  filter (fun q => negb (kept_in (reg_of p) q)) (reg_of t).

Definition update_common_b (p t : trc) : bool :=
  (t_isd p =? t_isd t) && (t_base p =? t_base t) && (t_serial t =? t_serial p + 1) &&
  Bool.eqb (t_ntr p) (t_ntr t) && rules_b t && (t_quorum p <=? len (t_votes t)).

Definition sensitive_b (p t : trc) (sis : list sinfo) : bool :=
  forallb (mem_idx (sens_of p)) (t_votes t) &&
  all_signed sis (pick (sens_of p) (t_votes t)).

Definition regular_b (p t : trc) (sis : list sinfo) : bool :=
  forallb (mem_idx (reg_of p)) (t_votes t) &&
  all_signed sis (pick (reg_of p) (t_votes t)) &&
  (t_quorum p =? t_quorum t) && zlist_eqb (t_core p) (t_core t) && zlist_eqb (t_auth p) (t_auth t) &&
  (* sensitive voting certificates unchanged *)
  forallb (kept_in (sens_of p)) (sens_of t) && forallb (kept_in (sens_of t)) (sens_of p) &&
  (* no root / regular voting certificate added or removed *)
  same_subjects (root_of p) (root_of t) && same_subjects (reg_of p) (reg_of t) &&
  (* every replaced regular voter voted *)
  forallb (fun q => negb (replaced_by (reg_of t) q) || existsb (Z.eqb (fst q)) (t_votes t)) (reg_of p) &&
  (* every replaced root acknowledged *)
  all_signed sis (filter (replaced_by (root_of t)) (root_of p)).

(** acceptance of a non-base TRC as successor of the (valid) TRC [p] *)
Definition update_spec_b (p t : trc) (sis : list sinfo) : bool :=
  negb (is_base t) && update_common_b p t &&
  (sensitive_b p t sis || regular_b p t sis) &&
  all_signed sis (newly_introduced p t).

Definition base_spec_b (t : trc) (sis : list sinfo) : bool :=
  is_base t && rules_b t && all_signed sis (voters_all t).

Definition accept_spec_b (pred : option trc) (t : trc) (sis : list sinfo) : bool :=
  match pred with
  | Some p => update_spec_b p t sis
  | None => base_spec_b t sis
  end.

(** * Observation codes shared with the Go runners *)

Definition verr_code (e : verr) : Z :=
  match e with
  | EVersion => 1 | EID => 2 | EValidity => 3 | EGrace => 4 | EVotesOnBase => 5 | EQuorum => 6
  | ENoASes => 7 | EWildcardAS => 8 | EDuplicateAS => 9 | EUnclassified => 10
  | EInvalidCertType => 11 | ENotEnoughVoters => 12 | EFindIA => 13 | EOtherISD => 14
  | ENotCovered => 15 | EDuplicate => 16
  end.

Definition validate_code (t : trc) : Z :=
  match trc_validate t with None => 0 | Some e => verr_code e end.

Definition ctype_code (o : option ctype) : Z :=
  match o with
  | None => 0 | Some Sensitive => 1 | Some Regular => 2 | Some Root => 3 | Some CA => 4 | Some AS => 5
  end.

Definition rerr_code (e : rerr) : Z :=
  match e with
  | RQuorum => 1 | RCore => 2 | RAuth => 3 | RSensCount => 4 | RSens => 5 | RRootCount => 6
  | RRootNew => 7 | RRegCount => 8 | RRegNew => 9 | RNonRegularVote => 10 | RMissingVotes => 11
  end.

Definition uerr_code (e : uerr) : Z :=
  match e with
  | UValidate e => 100 + verr_code e
  | UNoPred => 1 | UISD => 2 | UBase => 3 | USerial => 4 | UNTR => 5 | UVoteCount => 6
  | UPredClassify => 7 | USensVote => 8 | UReg e => 20 + rerr_code e
  end.

Definition serr_code (e : serr) : Z :=
  match e with SBadSID => 1 | SDigest => 2 | SSignature => 3 | SMissing => 4 end.

Definition stage_code (s : stage) : Z :=
  match s with AtNewVoters => 1 | AtRootAcks => 2 | AtVotes => 3 end.

(** (coarse class, fine class): coarse 0 accept, 1 payload invalid, 2 update rule, 3 signatures,
    4 panic, 5 predecessor for a base TRC. *)
Definition vres_code (r : vres) : Z * Z :=
  match r with
  | Accept => (0, 0)
  | RejValidate e => (1, verr_code e)
  | RejUpdate (UValidate e) => (1, verr_code e)
  | RejUpdate e => (2, uerr_code e)
  | RejSig st e => (3, 10 * stage_code st + serr_code e)
  | Panic => (4, 0)
  | RejPredForBase => (5, 0)
  end.

Fixpoint insert_z (x : Z) (l : list Z) : list Z :=
  match l with [] => [x] | y :: r => if x <=? y then x :: l else y :: insert_z x r end.
Definition sort_z (l : list Z) : list Z := fold_right insert_z [] l.

Definition raws (l : list (Z * acert)) : list Z := map (fun p => c_raw (snd p)) l.

(** what the runner reads off [Update]: type, new voters and acknowledgements as sorted sets of
    certificate identities (Go iterates maps), votes in order *)
Definition upd_obs (r : ures) : option (Z * list Z * list Z * list Z) :=
  match r with
  | UOk u => Some (match u_type u with USensitive => 1 | URegular => 2 end,
                   sort_z (raws (u_new u)), raws (u_votes u), sort_z (raws (u_acks u)))
  | _ => None
  end.

Definition obs_eqb (a b : option (Z * list Z * list Z * list Z)) : bool :=
  match a, b with
  | None, None => true
  | Some (t1, n1, v1, a1), Some (t2, n2, v2, a2) =>
      (t1 =? t2) && zlist_eqb n1 n2 && zlist_eqb v1 v2 && zlist_eqb a1 a2
  | _, _ => false
  end.

(** fine class 0 on the implementation side = message not recognised: compare coarsely *)
Definition code_agree (model impl : Z * Z) : bool :=
  (fst model =? fst impl) && ((snd impl =? 0) || (snd model =? snd impl)).

(** * Cases of the correspondence checks *)

Inductive case :=
| CCert (c : acert) (impl : Z)                   (* ValidateCert: type code, 0 = error *)
| CValidate (t : trc) (impl : Z)                 (* TRC.Validate: error code, 0 = valid *)
| CDecode (t : trc) (impl : Z)                   (* DecodeTRC on crafted DER describing [t]: 0 = accepted,
                                                    error code, 99 = rejected with an unclassified error *)
| CVerify (pred : option trc) (t : trc) (sis : list sinfo)
          (impl : Z * Z)                         (* SignedTRC.Verify: coarse and fine class *)
          (upd : option (Z * list Z * list Z * list Z)).  (* TRC.ValidateUpdate result *)

(** the predecessor handed to Verify is a valid TRC (it was verified when it was stored) whose
    serial number is in the range of its Go type *)
Definition pred_ok (pred : option trc) : bool :=
  match pred with
  | Some p => match trc_validate p with None => t_serial p <? two64 | Some _ => false end
  | None => true
  end.

Definition check (c : case) : N :=
  match c with
  | CCert a impl => Check.verdict (ctype_code (validate_cert a) =? impl) true
  | CValidate t impl =>
      Check.verdict (validate_code t =? impl) (negb (impl =? 0) || rules_b t)
  | CDecode t impl =>
      Check.verdict
        (if impl =? 0 then validate_code t =? 0
         else negb (validate_code t =? 0) && ((impl =? 99) || (validate_code t =? impl)))
        (negb (impl =? 0) || rules_b t)
  | CVerify pred t sis impl upd =>
      Check.verdict
        (code_agree (vres_code (verify pred t sis)) impl &&
         (is_base t || obs_eqb (upd_obs (validate_update pred t)) upd))
        (negb (fst impl =? 0) || negb (pred_ok pred) || accept_spec_b pred t sis)
  end.

Definition diag (c : case) : Z * Z * option (Z * list Z * list Z * list Z) :=
  match c with
  | CCert a _ => (ctype_code (validate_cert a), 0, None)
  | CValidate t _ => (validate_code t, if rules_b t then 1 else 0, None)
  | CDecode t _ => (validate_code t, if rules_b t then 1 else 0, None)
  | CVerify pred t sis _ _ =>
      (fst (vres_code (verify pred t sis)), snd (vres_code (verify pred t sis)),
       upd_obs (validate_update pred t))
  end.

End PKI.
