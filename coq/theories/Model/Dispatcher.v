(** Model of the shim dispatcher's per-datagram decision
    (dispatcher/dispatcher.go: Server.processMsgNextHop, getDstSCMP, getDstSCIONUDP,
    replyToSCMPInfoRequest, reverseSCION), at the decoded level: the input is what
    gopacket's DecodingLayerParser (SCION, HBH skipper, E2E, UDP | SCMP) and, for SCMP
    errors, gopacket.NewPacket on the quote make of the datagram.  Definitions only. *)
From Coq Require Import List NArith Bool.
From Scion Require Import Lib.Check.
Import ListNotations.
Local Open Scope N_scope.

Module Dispatcher.

(** big-endian words, as in Lib/Bytes.v (repeated here so that evaluating cases does not
    load the arithmetic tactics that file needs for its lemmas; Proofs/Dispatcher.v shows
    them equal) *)
Fixpoint be (k : nat) (n : N) : list N :=
  match k with
  | O => []
  | S k' => (n / 256 ^ N.of_nat k') mod 256 :: be k' n
  end.
Definition unbe (l : list N) : N := fold_left (fun a b => a * 256 + b) l 0.

(** ------------------------------------------------------------------ addresses *)

(** netip.Addr (no zone): 32-bit or 128-bit number. *)
Inductive ip := V4 (a : N) | V6 (a : N).

Definition ip_eqb (x y : ip) : bool :=
  match x, y with V4 a, V4 b => a =? b | V6 a, V6 b => a =? b | _, _ => false end.

(** netip.Addr.Unmap: ::ffff:a.b.c.d becomes a.b.c.d *)
Definition unmap (x : ip) : ip :=
  match x with
  | V6 a => if a / 4294967296 =? 65535 then V4 (a mod 4294967296) else V6 a
  | V4 _ => x
  end.

(** netip.AddrFromSlice *)
Definition addr_from_slice (raw : list N) : option ip :=
  match length raw with
  | 4%nat => Some (V4 (unbe raw))
  | 16%nat => Some (V6 (unbe raw))
  | _ => None
  end.

Definition addr_port (raw : list N) (port : N) : option (ip * N) :=
  match addr_from_slice raw with Some a => Some (a, port) | None => None end.

(** [dst.Unmap().Compare(underlay.Unmap()) == 0]; the underlay is the zero Addr
    ([None]) when the outer destination is not known *)
Definition same_host (a : ip) (ul : option ip) : bool :=
  match ul with Some u => ip_eqb (unmap a) (unmap u) | None => false end.

(** SCION host addresses: 4-bit type/length code and raw bytes (4*(1+code mod 4) of them).
    T4Ip = 0, T4Svc = 4, T16Ip = 3. *)
Inductive host := HIP (a : ip) | HSVC (s : N).

(** slayers.ParseAddr *)
Definition parse_addr (t : N) (raw : list N) : option host :=
  if t =? 0 then Some (HIP (V4 (unbe (firstn 4 raw))))
  else if t =? 4 then Some (HSVC (unbe (firstn 2 raw)))
  else if t =? 3 then Some (HIP (V6 (unbe (firstn 16 raw))))
  else None.

(** slayers.PackAddr (IPs are unmapped first) *)
Definition pack_addr (h : host) : N * list N :=
  match h with
  | HIP a => match unmap a with V4 x => (0, be 4 x) | V6 x => (3, be 16 x) end
  | HSVC s => (4, be 2 s ++ [0; 0])
  end.

(** ------------------------------------------------------------------ paths *)

Record info := MkInfo { i_peer : bool; i_cons : bool; i_segid : N; i_ts : N }.
Record hop := MkHop { h_ialert : bool; h_ealert : bool; h_exp : N; h_in : N; h_eg : N; h_mac : N }.

(** a SCION path: meta header (CurrINF, CurrHF, SegLen[3]), info fields, hop fields *)
Record spath := MkSPath { sp_ci : N; sp_chf : N; sp_s0 : N; sp_s1 : N; sp_s2 : N;
                          sp_infos : list info; sp_hops : list hop }.

Inductive path :=
| PEmpty
| PScion (p : spath)
| POneHop (i : info) (h1 h2 : hop)
| PEpic (p : spath)                  (* PktID/PHVF/LHVF play no role *)
| PRaw (ty : N).                     (* unregistered path type *)

Definition path_type (p : path) : N :=
  match p with PEmpty => 0 | PScion _ => 1 | POneHop _ _ _ => 2 | PEpic _ => 3 | PRaw ty => ty end.

(** scion.Base.DecodeFromBytes: number of info fields / hop fields *)
Definition num_inf (p : spath) : N :=
  if 0 <? sp_s2 p then 3 else if 0 <? sp_s1 p then 2 else if 0 <? sp_s0 p then 1 else 0.
Definition num_hops (p : spath) : N := sp_s0 p + sp_s1 p + sp_s2 p.

(** exchange first and last element *)
Definition swap_ends {A} (l : list A) : list A :=
  match l with
  | [] => []
  | x :: t => match rev t with [] => [x] | y :: m => y :: rev m ++ [x] end
  end.

Definition flip_info (i : info) : info :=
  {| i_peer := i_peer i; i_cons := negb (i_cons i); i_segid := i_segid i; i_ts := i_ts i |}.

(** scion.Decoded.Reverse followed by the serialisation of the meta header
    (CurrINF keeps 2 bits, CurrHF 6 bits of the uint8 arithmetic) *)
Definition reverse_spath (p : spath) : option spath :=
  let n := num_inf p in
  if n =? 0 then None else
  let infos := if 1 <? n then swap_ends (sp_infos p) else sp_infos p in
  let '(s0, s1, s2) :=
    if n =? 2 then (sp_s1 p, sp_s0 p, sp_s2 p)
    else if n =? 3 then (sp_s2 p, sp_s1 p, sp_s0 p)
    else (sp_s0 p, sp_s1 p, sp_s2 p) in
  Some {| sp_ci := (n + 3 - sp_ci p) mod 4;
          sp_chf := (num_hops p + 63 - sp_chf p) mod 64;
          sp_s0 := s0; sp_s1 := s1; sp_s2 := s2;
          sp_infos := map flip_info infos;
          sp_hops := rev (sp_hops p) |}.

(** onehop.Path.ToSCIONDecoded + IncPath *)
Definition onehop_to_scion (i : info) (h1 h2 : hop) : option spath :=
  if h_in h2 =? 0 then None else
  Some {| sp_ci := 0; sp_chf := 1; sp_s0 := 2; sp_s1 := 0; sp_s2 := 0;
          sp_infos := [ {| i_peer := false; i_cons := true; i_segid := i_segid i; i_ts := i_ts i |} ];
          sp_hops := [h1; h2] |}.

(** Path.Reverse as used by reverseSCION (EPIC is converted to SCION first) *)
Definition reverse_path (p : path) : option path :=
  match p with
  | PEmpty => Some PEmpty
  | PScion s | PEpic s =>
    match reverse_spath s with Some r => Some (PScion r) | None => None end
  | POneHop i h1 h2 =>
    match onehop_to_scion i h1 h2 with
    | Some s => match reverse_spath s with Some r => Some (PScion r) | None => None end
    | None => None
    end
  | PRaw _ => None
  end.

(** ------------------------------------------------------------------ packets *)

(** what gopacket.NewPacket(quote, LayerTypeSCION) finds in the quote of an SCMP error *)
Inductive quote :=
| QBad                               (* no UDP and no SCMP layer *)
| QUdp (sport : N)                   (* UDP layer (source port 0 when its header is cut) *)
| QScmp (ty : N) (id : option N).    (* SCMP layer; identifier of the echo/traceroute layer if decoded *)

Inductive l4 :=
| L4None                             (* unknown protocol, or nothing left to decode *)
| L4Udp (sport dport : N)
| L4Scmp (ty code : N) (payload : list N) (q : quote).   (* payload = bytes after the 4-byte SCMP header *)

Record pkt := MkPkt {
  dst_ia : N; src_ia : N;
  dst_t : N; dst_raw : list N;
  src_t : N; src_raw : list N;
  pth : path;
  hbh : bool;                        (* hop-by-hop extension present (skipped) *)
  e2e : option (list N);             (* end-to-end extension, its bytes *)
  l4p : l4 }.

Inductive dgram :=
| Undecodable                        (* DecodeLayers returned an error *)
| Pkt (p : pkt).

Inductive layer := LScion | LHbh | LE2e | LUdp | LScmp.

Definition layer_eqb (a b : layer) : bool :=
  match a, b with
  | LScion, LScion | LHbh, LHbh | LE2e, LE2e | LUdp, LUdp | LScmp, LScmp => true
  | _, _ => false
  end.

(** the list of decoded layer types *)
Definition decoded (p : pkt) : list layer :=
  [LScion] ++ (if hbh p then [LHbh] else [])
           ++ (match e2e p with Some _ => [LE2e] | None => [] end)
           ++ (match l4p p with L4None => [] | L4Udp _ _ => [LUdp] | L4Scmp _ _ _ _ => [LScmp] end).

Definition scmp_type (p : pkt) : N :=
  match l4p p with L4Scmp ty _ _ _ => ty | _ => 0 end.

Record cfg := MkCfg { is_disp : bool; svcs : list ((N * N) * (ip * N)) }.   (* (IA, SVC) -> addr:port *)

Definition key_eqb (a b : N * N) : bool := (fst a =? fst b) && (snd a =? snd b).

Fixpoint lookup (k : N * N) (m : list ((N * N) * (ip * N))) : option (ip * N) :=
  match m with
  | [] => None
  | (k', v) :: t => if key_eqb k k' then Some v else lookup k t
  end.

(** ------------------------------------------------------------------ destinations *)

Definition is_info_req (ty : N) : bool := (ty =? 130) || (ty =? 128).

(** identifier of an echo (min 4 bytes) / traceroute (min 20 bytes) message *)
Definition scmp_id (min : nat) (payload : list N) : option N :=
  if Nat.ltb (length payload) min then None else Some (unbe (firstn 2 payload)).

(** length of the type-specific header of the SCMP error messages; [None] where
    SCMP.NextLayerType() is LayerTypePayload *)
Definition err_hdr_len (ty : N) : option nat :=
  match ty with
  | 1 => Some 4%nat | 2 => Some 4%nat | 4 => Some 4%nat | 5 => Some 16%nat | 6 => Some 24%nat
  | _ => None
  end.

(** the port a quoted packet asks the error to be delivered to *)
Definition quote_port (q : quote) : option N :=
  match q with
  | QUdp sport => if sport =? 0 then None else Some sport
  | QScmp qty id =>
    if qty <=? 127 then None                                   (* error about an error *)
    else if negb (qty =? 128) && negb (qty =? 130) then None   (* only requests *)
    else id                                                    (* None: truncated *)
  | QBad => None
  end.

(** getDstSCMP (never called for echo/traceroute requests) *)
Definition get_dst_scmp (p : pkt) (ty : N) (payload : list N) (q : quote) : option (ip * N) :=
  if ty =? 129 then
    match scmp_id 4 payload with Some id => addr_port (dst_raw p) id | None => None end
  else if ty =? 131 then
    match scmp_id 20 payload with Some id => addr_port (dst_raw p) id | None => None end
  else if is_info_req ty then None
  else match err_hdr_len ty with
  | None => None                                        (* unknown SCMP error message *)
  | Some hl =>
    if Nat.leb (length payload) hl then None            (* undecodable, or no quote *)
    else match quote_port q with
         | Some port => addr_port (dst_raw p) port
         | None => None
         end
  end.

(** getDstSCIONUDP *)
Definition get_dst_scion_udp (c : cfg) (p : pkt) (dport : N) : option (ip * N) :=
  match parse_addr (dst_t p) (dst_raw p) with
  | None => None
  | Some (HSVC s) => lookup (dst_ia p, s) (svcs c)
  | Some (HIP _) => addr_port (dst_raw p) dport
  end.

(** ------------------------------------------------------------------ replies *)

Record reply := MkReply {
  r_to : ip * N;                     (* underlay destination *)
  r_dst_ia : N; r_src_ia : N;
  r_dst : N * list N; r_src : N * list N;    (* (type, raw) *)
  r_path_ty : N; r_path : path;      (* announced path type, path carried *)
  r_next : N;                        (* NextHdr of the SCION header *)
  r_e2e : option (list N);           (* bytes emitted between SCION header and SCMP header *)
  r_ty : N; r_code : N; r_payload : list N }.

(** replyToSCMPInfoRequest + reverseSCION + serialisation *)
Definition make_reply (p : pkt) (prev : ip * N) (ty : N) (payload : list N) : option reply :=
  match parse_addr (src_t p) (src_raw p) with
  | None => None
  | Some src =>
    match parse_addr (dst_t p) (dst_raw p) with
    | None => None
    | Some dst =>
      match reverse_path (pth p) with
      | None => None
      | Some rp =>
        Some {| r_to := prev;
                r_dst_ia := src_ia p; r_src_ia := dst_ia p;
                r_dst := pack_addr src; r_src := pack_addr dst;
                r_path_ty := path_type rp; r_path := rp;
                r_next := 202;
                r_e2e := e2e p;
                r_ty := if ty =? 128 then 129 else 131; r_code := 0;
                r_payload := payload |}
      end
    end
  end.

Inductive out := Drop | Forward (a : ip) (port : N) | Reply (r : reply).

(** processMsgNextHop. *)
Definition process (c : cfg) (d : dgram) (ul : option ip) (prev : ip * N) : out :=
  match d with
  | Undecodable => Drop
  | Pkt p =>
    let ls := decoded p in
    if Nat.ltb (length ls) 2 then Drop else
    let lastl := last ls LScion in
    (* feature flag off: only SCMP echo / traceroute requests *)
    if negb (is_disp c) &&
       (negb (layer_eqb lastl LScmp) || negb (is_info_req (scmp_type p))) then Drop else
    match l4p p with
    | L4Scmp ty _ payload q =>
      if is_info_req ty then
        match make_reply p prev ty payload with Some r => Reply r | None => Drop end
      else
        match get_dst_scmp p ty payload q with
        | None => Drop
        | Some (a, port) => if same_host a ul then Forward a port else Drop
        end
    | L4Udp _ dport =>
      match get_dst_scion_udp c p dport with
      | None => Drop
      | Some (a, port) => if same_host a ul then Forward a port else Drop
      end
    | L4None => Drop                  (* zero AddrPort: discarded by Serve *)
    end
  end.

(** ------------------------------------------------------------------ the property, as a
    function of the input and of what the implementation was seen to do *)

Inductive obs :=
| ODrop
| OForward (a : ip) (port : N) (same : bool)    (* same: output bytes = input bytes *)
| OReply (r : reply)
| OBad.                                         (* a reply that does not parse *)

Definition to_obs (o : out) : obs :=
  match o with Drop => ODrop | Forward a port => OForward a port true | Reply r => OReply r end.

Definition is_ip_type (t : N) : bool := (t =? 0) || (t =? 3).

Definition pair_eqb (x y : ip * N) : bool := ip_eqb (fst x) (fst y) && (snd x =? snd y).

(** Is [a:port] a destination the datagram itself names?  (spec, from the input alone) *)
Definition dest_ok (c : cfg) (p : pkt) (a : ip) (port : N) : bool :=
  match l4p p with
  | L4None => false
  | L4Udp _ dport =>
    if is_ip_type (dst_t p) then
      match addr_from_slice (dst_raw p) with Some h => ip_eqb h a && (dport =? port) | None => false end
    else if dst_t p =? 4 then
      existsb (fun e => key_eqb (dst_ia p, unbe (firstn 2 (dst_raw p))) (fst e) && pair_eqb (snd e) (a, port))
              (svcs c)
    else false
  | L4Scmp ty _ payload q =>
    match addr_from_slice (dst_raw p) with
    | None => false
    | Some h =>
      ip_eqb h a &&
      (if ty =? 129 then match scmp_id 4 payload with Some id => id =? port | None => false end
       else if ty =? 131 then match scmp_id 20 payload with Some id => id =? port | None => false end
       else match err_hdr_len ty with
            | None => false
            | Some hl =>
              Nat.ltb hl (length payload) &&
              match q with
              | QUdp sport => negb (sport =? 0) && (sport =? port)
              | QScmp qty (Some id) => ((qty =? 128) || (qty =? 130)) && (id =? port)
              | _ => false
              end
            end)
    end
  end.

(** the same, as a proposition: the destinations a datagram names *)
Definition err_with_quote (ty : N) (payload : list N) : Prop :=
  exists hl, err_hdr_len ty = Some hl /\ (hl < length payload)%nat.

Definition legit_dest (c : cfg) (p : pkt) (a : ip) (port : N) : Prop :=
  (* the SCION destination host (an IP) with the UDP destination port *)
  (exists sp, l4p p = L4Udp sp port /\ is_ip_type (dst_t p) = true /\
              addr_from_slice (dst_raw p) = Some a)
  \/
  (* the registered address of the SCION destination service *)
  (exists sp dp s, l4p p = L4Udp sp dp /\ parse_addr (dst_t p) (dst_raw p) = Some (HSVC s) /\
                   In ((dst_ia p, s), (a, port)) (svcs c))
  \/
  (* the SCION destination host with the identifier of an echo / traceroute reply, or with
     the UDP source port / request identifier quoted by an SCMP error *)
  (exists ty code payload q, l4p p = L4Scmp ty code payload q /\
     addr_from_slice (dst_raw p) = Some a /\
     ((ty = 129 /\ scmp_id 4 payload = Some port) \/
      (ty = 131 /\ scmp_id 20 payload = Some port) \/
      (err_with_quote ty payload /\
       ((q = QUdp port /\ port <> 0) \/
        (exists qty, q = QScmp qty (Some port) /\ (qty = 128 \/ qty = 130)))))).

(** paths as the SCION decoder delivers them (and with pointers inside the path) *)
Definition wf_spath (p : spath) : Prop :=
  sp_ci p < num_inf p /\ sp_chf p < num_hops p /\ num_hops p <= 64 /\
  length (sp_infos p) = N.to_nat (num_inf p) /\
  0 < sp_s0 p /\ (sp_s1 p = 0 -> sp_s2 p = 0).

Definition info_eqb (a b : info) : bool :=
  Bool.eqb (i_peer a) (i_peer b) && Bool.eqb (i_cons a) (i_cons b) &&
  (i_segid a =? i_segid b) && (i_ts a =? i_ts b).
Definition hop_eqb (a b : hop) : bool :=
  Bool.eqb (h_ialert a) (h_ialert b) && Bool.eqb (h_ealert a) (h_ealert b) &&
  (h_exp a =? h_exp b) && (h_in a =? h_in b) && (h_eg a =? h_eg b) && (h_mac a =? h_mac b).
Definition spath_eqb (a b : spath) : bool :=
  (sp_ci a =? sp_ci b) && (sp_chf a =? sp_chf b) && (sp_s0 a =? sp_s0 b) && (sp_s1 a =? sp_s1 b) &&
  (sp_s2 a =? sp_s2 b) && list_eqb info_eqb (sp_infos a) (sp_infos b) &&
  list_eqb hop_eqb (sp_hops a) (sp_hops b).
Definition path_eqb (a b : path) : bool :=
  match a, b with
  | PEmpty, PEmpty => true
  | PScion x, PScion y => spath_eqb x y
  | POneHop i h1 h2, POneHop j g1 g2 => info_eqb i j && hop_eqb h1 g1 && hop_eqb h2 g2
  | PEpic x, PEpic y => spath_eqb x y
  | PRaw x, PRaw y => x =? y
  | _, _ => false
  end.
Definition haddr_eqb (a b : N * list N) : bool := (fst a =? fst b) && bytes_eqb (snd a) (snd b).

(** the part of a reply the property talks about *)
Definition reply_ok (p : pkt) (prev : ip * N) (ty : N) (payload : list N) (r : reply) : bool :=
  pair_eqb (r_to r) prev &&
  (r_dst_ia r =? src_ia p) && (r_src_ia r =? dst_ia p) &&
  match parse_addr (src_t p) (src_raw p), parse_addr (dst_t p) (dst_raw p), reverse_path (pth p) with
  | Some src, Some dst, Some rp =>
    haddr_eqb (r_dst r) (pack_addr src) && haddr_eqb (r_src r) (pack_addr dst) &&
    path_eqb (r_path r) rp && (r_path_ty r =? path_type rp)
  | _, _, _ => false
  end &&
  (r_ty r =? (if ty =? 128 then 129 else 131)) && (r_code r =? 0) &&
  bytes_eqb (r_payload r) payload.

(** Audit follow-up: the property speaks of the destination *host*.  For SCMP replies and
    errors the code reads RawDstAddr as an IP address whatever DstAddrType says
    (addrPortFromBytes), so the strict specification also demands an IP address type. *)
Definition scmp_dst_typed (p : pkt) : bool :=
  match l4p p with L4Scmp _ _ _ _ => is_ip_type (dst_t p) | _ => true end.

Definition dest_ok_strict (c : cfg) (p : pkt) (a : ip) (port : N) : bool :=
  dest_ok c p a port && scmp_dst_typed p.

Definition legit_dest_strict (c : cfg) (p : pkt) (a : ip) (port : N) : Prop :=
  legit_dest c p a port /\
  (forall ty code payload q, l4p p = L4Scmp ty code payload q -> is_ip_type (dst_t p) = true).

(** the class of inputs of the open finding scmp-dst-type-unchecked: an SCMP message other
    than an echo / traceroute request whose SCION destination is not of an IP type *)
Definition known_scmp_dst_type (d : dgram) : bool :=
  match d with
  | Pkt p =>
    match l4p p with
    | L4Scmp ty _ _ _ => negb (is_info_req ty) && negb (is_ip_type (dst_t p))
    | _ => false
    end
  | Undecodable => false
  end.

Definition oracle (c : cfg) (d : dgram) (ul : option ip) (prev : ip * N) (o : obs) : bool :=
  match o with
  | ODrop => true
  | OBad => false
  | OForward a port same =>
    same && is_disp c &&
    match d with Pkt p => dest_ok_strict c p a port && same_host a ul | Undecodable => false end
  | OReply r =>
    match d with
    | Pkt p =>
      match l4p p with
      | L4Scmp ty _ payload _ => is_info_req ty && reply_ok p prev ty payload r
      | _ => false
      end
    | Undecodable => false
    end
  end.

Definition reply_eqb (a b : reply) : bool :=
  pair_eqb (r_to a) (r_to b) && (r_dst_ia a =? r_dst_ia b) && (r_src_ia a =? r_src_ia b) &&
  haddr_eqb (r_dst a) (r_dst b) && haddr_eqb (r_src a) (r_src b) &&
  (r_path_ty a =? r_path_ty b) && path_eqb (r_path a) (r_path b) && (r_next a =? r_next b) &&
  option_eqb bytes_eqb (r_e2e a) (r_e2e b) &&
  (r_ty a =? r_ty b) && (r_code a =? r_code b) && bytes_eqb (r_payload a) (r_payload b).

Definition obs_eqb (a b : obs) : bool :=
  match a, b with
  | ODrop, ODrop => true
  | OForward x p s, OForward y q t => ip_eqb x y && (p =? q) && Bool.eqb s t
  | OReply x, OReply y => reply_eqb x y
  | OBad, OBad => true
  | _, _ => false
  end.

(** ------------------------------------------------------------------ correspondence cases:
    the same datagram given to a fresh Server and to the long-lived Server of the run *)
Record case := MkCase { k_cfg : cfg; k_dg : dgram; k_ul : option ip; k_prev : ip * N;
                        k_fresh : obs; k_long : obs }.

Definition model_obs (k : case) : obs := to_obs (process (k_cfg k) (k_dg k) (k_ul k) (k_prev k)).

Definition check (k : case) : N :=
  let m := model_obs k in
  Check.verdict (obs_eqb m (k_fresh k) && obs_eqb m (k_long k))
                (oracle (k_cfg k) (k_dg k) (k_ul k) (k_prev k) (k_fresh k) &&
                 oracle (k_cfg k) (k_dg k) (k_ul k) (k_prev k) (k_long k)).

Definition diag (k : case) : obs := model_obs k.

End Dispatcher.
