(** Abstract stores for C27: the beacon database (control/beacon/db.go,
    private/storage/beacon/sqlite/db.go) and the path-segment database
    (private/pathdb, private/storage/path/sqlite/sqlite.go) as association lists
    from segment identifier to the stored version.  Definitions only.

    The SQL text is not modelled.  What is modelled is the meaning of every
    statement as read from the sources: which columns an insert / update writes,
    the comparison that decides whether a stored row is replaced, the WHERE
    clauses built by [buildQuery] (wildcard rules included), ORDER BY / LIMIT
    where the API promises an order, and the row counts that are returned.

    Conventions: a segment identifier is the list of the hexadecimal digits of
    [PathSegment.ID()] (a SHA-256 value computed by the implementation and handed
    to the model as data, like every other derived field: FirstIA, LastIA,
    MaxExpiry, len(ASEntries), the interface list, the version).  [pay] identifies
    the stored object (which of the generated segments it is).  The value written
    to LastUpdated is a logical tick, the index of the operation in the history. *)
From Coq Require Import List NArith Bool.
From Scion Require Import Lib.Check.
Import ListNotations.
Local Open Scope N_scope.

Module Store.

(** ISD-AS as (ISD, AS). *)
Definition ia := (N * N)%type.
Definition ia_eqb (a b : ia) : bool := (fst a =? fst b) && (snd a =? snd b).
Definition ia_zero (a : ia) : bool := (fst a =? 0) && (snd a =? 0).

Definition segid := list N.
Definition id_eqb : segid -> segid -> bool := list_eqb N.eqb.
(** [hex(SegID) LIKE prefix || '%'] for a prefix made of hexadecimal digits *)
Fixpoint prefix_b (p l : list N) : bool :=
  match p, l with
  | [], _ => true
  | x :: p', y :: l' => (x =? y) && prefix_b p' l'
  | _ :: _, [] => false
  end.

Fixpoint mem_n (x : N) (l : list N) : bool :=
  match l with [] => false | y :: t => (y =? x) || mem_n x t end.
(** sets of small numbers (segment types, hidden-path group ids): sorted, no repetition *)
Fixpoint add_n (x : N) (l : list N) : list N :=
  match l with
  | [] => [x]
  | y :: t => if x <? y then x :: l else if x =? y then l else y :: add_n x t
  end.
Definition union_n (xs l : list N) : list N := fold_left (fun acc x => add_n x acc) xs l.

Fixpoint mem_ia (x : ia) (l : list ia) : bool :=
  match l with [] => false | y :: t => ia_eqb y x || mem_ia x t end.

(** Rows keyed by segment id, in RowID order. *)
Fixpoint kfind {E} (key : E -> segid) (id : segid) (l : list E) : option E :=
  match l with
  | [] => None
  | e :: t => if id_eqb (key e) id then Some e else kfind key id t
  end.
Fixpoint kreplace {E} (key : E -> segid) (e' : E) (l : list E) : list E :=
  match l with
  | [] => []
  | e :: t => if id_eqb (key e) (key e') then e' :: t else e :: kreplace key e' t
  end.

(** ==================================================================
    Beacon store. *)

(** what InsertBeacon reads off a beacon.Beacon *)
Record beacon := {
  b_id : segid;        (* Segment.ID() *)
  b_ver : N;           (* Segment.Info.Timestamp, seconds *)
  b_start : ia;        (* Segment.FirstIA() *)
  b_inif : N;          (* InIfID *)
  b_hops : N;          (* len(Segment.ASEntries) *)
  b_exp : N;           (* Segment.MaxExpiry(), seconds *)
  b_pay : N }.

(** a row of table Beacons (FullID and the blob are represented by [be_pay]) *)
Record bentry := {
  be_id : segid; be_start : ia; be_ver : N; be_inif : N; be_hops : N; be_exp : N;
  be_usage : N; be_lu : N; be_pay : N }.

Definition beacon_db := list bentry.

(** insertNewBeacon *)
Definition bnew (tick : N) (b : beacon) (usage : N) : bentry :=
  {| be_id := b_id b; be_start := b_start b; be_ver := b_ver b; be_inif := b_inif b;
     be_hops := b_hops b; be_exp := b_exp b; be_usage := usage; be_lu := tick; be_pay := b_pay b |}.
(** updateExistingBeacon: everything but SegID / StartIsd / StartAs is overwritten,
    the usage included *)
Definition bupd (tick : N) (b : beacon) (usage : N) (e : bentry) : bentry :=
  {| be_id := be_id e; be_start := be_start e; be_ver := b_ver b; be_inif := b_inif b;
     be_hops := b_hops b; be_exp := b_exp b; be_usage := usage; be_lu := tick; be_pay := b_pay b |}.

(** InsertBeacon: (Inserted, Updated) *)
Definition insert_beacon (tick : N) (b : beacon) (usage : N) (db : beacon_db)
  : beacon_db * (N * N) :=
  match kfind be_id (b_id b) db with
  | Some e =>
      if be_ver e <? b_ver b                      (* Info.Timestamp.After(meta.InfoTime) *)
      then (kreplace be_id (bupd tick b usage e) db, (0, 1))
      else (db, (0, 0))
  | None => (db ++ [bnew tick b usage], (1, 0))
  end.

(** DeleteBeacon: hex(SegID) LIKE partialID% *)
Definition delete_beacon (p : list N) (db : beacon_db) : beacon_db :=
  filter (fun e => negb (prefix_b p (be_id e))) db.

(** DeleteExpiredBeacons: ExpirationTime < now, returns the number of rows *)
Definition delete_expired_beacons (now : N) (db : beacon_db) : beacon_db * N :=
  (filter (fun e => negb (be_exp e <? now)) db,
   N.of_nat (length (filter (fun e => be_exp e <? now) db))).

Definition usage_has (have want : N) : bool := N.land have want =? want.
Definition src_ok (src : ia) (e : bentry) : bool := ia_zero src || ia_eqb (be_start e) src.

(** ORDER BY HopsLength ASC (stable insertion sort: ties stay in RowID order; the
    implementation may break ties differently) *)
Fixpoint insert_hops (e : bentry) (l : list bentry) : list bentry :=
  match l with
  | [] => [e]
  | x :: t => if be_hops x <? be_hops e then x :: insert_hops e t else e :: l
  end.
Definition sort_hops (l : list bentry) : list bentry := fold_right insert_hops [] l.

Definition cand_match (usage : N) (src : ia) (e : bentry) : bool :=
  usage_has (be_usage e) usage && src_ok src e.

(** CandidateBeacons: WHERE (Usage & u) == u [AND start = src] ORDER BY HopsLength LIMIT n *)
Definition candidate_beacons (n usage : N) (src : ia) (db : beacon_db) : list bentry :=
  firstn (N.to_nat n) (sort_hops (filter (cand_match usage src) db)).

(** BeaconSources: SELECT DISTINCT StartIsd, StartAs *)
Fixpoint dedup_ia (l : list ia) : list ia :=
  match l with
  | [] => []
  | x :: t => let r := dedup_ia t in if mem_ia x r then r else x :: r
  end.
Definition beacon_sources (db : beacon_db) : list ia := dedup_ia (map be_start db).

(** storagebeacon.QueryParams *)
Record bparams := {
  q_ids : list segid;     (* SegIDs: byte prefixes, as hexadecimal digits *)
  q_starts : list ia;
  q_inifs : list N;
  q_usages : list N;
  q_valid : option N }.   (* None: ValidAt.IsZero() *)

(** buildQuery, StartsAt: 0-0 is skipped, ISD 0 matches on the AS only, AS 0 on the
    ISD only; no usable element => no condition *)
Definition start_match_b (a s : ia) : bool :=
  if fst a =? 0 then snd s =? snd a else if snd a =? 0 then fst s =? fst a else ia_eqb s a.
Definition any_or_all {A} (l : list A) (f : A -> bool) : bool :=
  match l with [] => true | _ => existsb f l end.

Definition bmatch (p : bparams) (e : bentry) : bool :=
  any_or_all (q_ids p) (fun x => prefix_b x (be_id e))
  && any_or_all (filter (fun a => negb (ia_zero a)) (q_starts p)) (fun a => start_match_b a (be_start e))
  && any_or_all (q_inifs p) (fun i => i =? be_inif e)
  && any_or_all (filter (fun u => 0 <? u) (q_usages p)) (fun u => usage_has (be_usage e) u)
  && match q_valid p with None => true | Some v => (be_ver e <=? v) && (v <=? be_exp e) end.

(** ORDER BY LastUpdated DESC *)
Fixpoint insert_lu (e : bentry) (l : list bentry) : list bentry :=
  match l with
  | [] => [e]
  | x :: t => if be_lu e <? be_lu x then x :: insert_lu e t else e :: l
  end.
Definition sort_lu (l : list bentry) : list bentry := fold_right insert_lu [] l.

Definition get_beacons (p : bparams) (db : beacon_db) : list bentry :=
  sort_lu (filter (bmatch p) db).

Inductive bop :=
| BInsert (b : beacon) (usage : N)
| BDelete (p : list N)
| BDeleteExpired (now : N)
| BCandidates (n usage : N) (src : ia)
| BSources
| BGet (ordered : bool) (p : bparams).   (* ordered = params is not nil: ORDER BY LastUpdated DESC *)

Definition crow := (segid * N * N)%type.                 (* id, pay, InIfID *)
Definition brow := (segid * N * N * N * N)%type.         (* id, pay, InIfID, usage, last-updated tick *)
Inductive bres :=
| BRStats (ins upd : N) | BRUnit | BRCount (n : N)
| BRDeleted (n : N)      (* DeleteBeacon: rows counted before minus rows counted after *)
| BRCands (l : list crow) | BRSources (l : list ia) | BRGet (l : list brow).

Definition crow_of (e : bentry) : crow := (be_id e, be_pay e, be_inif e).
Definition brow_of (e : bentry) : brow := (be_id e, be_pay e, be_inif e, be_usage e, be_lu e).

Definition bstep (tick : N) (db : beacon_db) (o : bop) : beacon_db * bres :=
  match o with
  | BInsert b u => let (db', st) := insert_beacon tick b u db in (db', BRStats (fst st) (snd st))
  | BDelete p =>
      (delete_beacon p db, BRDeleted (N.of_nat (length (filter (fun e => prefix_b p (be_id e)) db))))
  | BDeleteExpired now => let (db', n) := delete_expired_beacons now db in (db', BRCount n)
  | BCandidates n u src => (db, BRCands (map crow_of (candidate_beacons n u src db)))
  | BSources => (db, BRSources (beacon_sources db))
  | BGet _ p => (db, BRGet (map brow_of (get_beacons p db)))
  end.

(** accumulator of a history: next tick, store, results newest first *)
Definition bacc := (N * beacon_db * list bres)%type.
Definition bexec (a : bacc) (o : bop) : bacc :=
  let '(tick, db, rs) := a in
  let (db', r) := bstep tick db o in (tick + 1, db', r :: rs).
Definition brun_from (a : bacc) (ops : list bop) : bacc := fold_left bexec ops a.
Definition brun (ops : list bop) : bacc := brun_from (0, [], []) ops.
Definition bdb (a : bacc) : beacon_db := snd (fst a).
Definition bresults (ops : list bop) : list bres := rev (snd (brun ops)).

(** ==================================================================
    Path-segment store. *)

Definition intf := (ia * N)%type.
Definition intf_eqb (a b : intf) : bool := ia_eqb (fst a) (fst b) && (snd a =? snd b).

(** what insert reads off a seg.Meta *)
Record pseg := {
  s_id : segid;            (* Segment.ID() *)
  s_ver : N;               (* signing time of the last AS entry, nanoseconds *)
  s_start : ia; s_end : ia;
  s_intfs : list intf;     (* what insertInterfaces writes *)
  s_exp : N;               (* MaxExpiry(), seconds *)
  s_pay : N }.

(** a row of Segments with its rows of SegTypes, HPGroupIDs and IntfToSeg (deleted
    with it: ON DELETE CASCADE) *)
Record pentry := {
  pe_id : segid; pe_start : ia; pe_end : ia; pe_ver : N; pe_intfs : list intf; pe_exp : N;
  pe_lu : N; pe_types : list N; pe_groups : list N; pe_pay : N }.

(** insertFull: an empty group list registers group 0 *)
Definition pnew (tick : N) (s : pseg) (ty : N) (groups : list N) : pentry :=
  {| pe_id := s_id s; pe_start := s_start s; pe_end := s_end s; pe_ver := s_ver s;
     pe_intfs := s_intfs s; pe_exp := s_exp s; pe_lu := tick; pe_types := [ty];
     pe_groups := union_n (match groups with [] => [0] | _ => groups end) []; pe_pay := s_pay s |}.
(** updateExisting: blob, FullID, LastUpdated, MaxExpiry and the interfaces follow the
    new segment; type and groups are added to what is registered *)
Definition pupd (tick : N) (s : pseg) (ty : N) (groups : list N) (e : pentry) : pentry :=
  {| pe_id := pe_id e; pe_start := pe_start e; pe_end := pe_end e; pe_ver := s_ver s;
     pe_intfs := s_intfs s; pe_exp := s_exp s; pe_lu := tick; pe_types := add_n ty (pe_types e);
     pe_groups := union_n groups (pe_groups e); pe_pay := s_pay s |}.

Definition seg_db := list pentry.

(** insert: (Inserted, Updated); newLastHopVersion <= oldLastHopVersion => nothing *)
Definition insert_seg (tick : N) (s : pseg) (ty : N) (groups : list N) (db : seg_db)
  : seg_db * (N * N) :=
  match kfind pe_id (s_id s) db with
  | None => (db ++ [pnew tick s ty groups], (1, 0))
  | Some e =>
      if pe_ver e <? s_ver s
      then (kreplace pe_id (pupd tick s ty groups e) db, (0, 1))
      else (db, (0, 0))
  end.

Definition delete_segment (p : list N) (db : seg_db) : seg_db :=
  filter (fun e => negb (prefix_b p (pe_id e))) db.
Definition delete_expired_segs (now : N) (db : seg_db) : seg_db * N :=
  (filter (fun e => negb (pe_exp e <? now)) db,
   N.of_nat (length (filter (fun e => pe_exp e <? now) db))).

(** query.Params (nil = all fields empty) *)
Record pparams := {
  g_ids : list segid; g_types : list N; g_groups : list N; g_intfs : list intf;
  g_starts : list ia; g_ends : list ia }.

(** StartsAt / EndsAt: AS 0 matches on the ISD only *)
Definition end_match_b (a s : ia) : bool :=
  if snd a =? 0 then fst s =? fst a else ia_eqb s a.

Definition pmatch (p : pparams) (e : pentry) : bool :=
  any_or_all (g_ids p) (fun x => id_eqb x (pe_id e))
  && any_or_all (g_intfs p) (fun i => existsb (intf_eqb i) (pe_intfs e))
  && any_or_all (g_starts p) (fun a => end_match_b a (pe_start e))
  && any_or_all (g_ends p) (fun a => end_match_b a (pe_end e)).

(** the WHERE clause is applied to the joined rows before GROUP BY, so the types and
    groups reported for a segment are those that pass the filter *)
Definition sel (want have : list N) : list N :=
  match want with [] => have | _ => filter (fun x => mem_n x want) have end.

Definition prow := (segid * N * N * list N * N)%type.   (* id, pay, type, groups, last-updated tick *)

Definition rows_of (p : pparams) (e : pentry) : list prow :=
  if pmatch p e then
    match sel (g_groups p) (pe_groups e) with
    | [] => []
    | gs => map (fun t => (pe_id e, pe_pay e, t, gs, pe_lu e)) (sel (g_types p) (pe_types e))
    end
  else [].
Definition get_segs (p : pparams) (db : seg_db) : list prow := flat_map (rows_of p) db.

(** table NextQuery *)
Definition nq_db := list (ia * ia * N).
Fixpoint nq_find (src dst : ia) (l : nq_db) : option N :=
  match l with
  | [] => None
  | (s, d, t) :: r => if ia_eqb s src && ia_eqb d dst then Some t else nq_find src dst r
  end.
Fixpoint nq_set (src dst : ia) (t : N) (l : nq_db) : nq_db :=
  match l with
  | [] => [(src, dst, t)]
  | (s, d, t0) :: r =>
      if ia_eqb s src && ia_eqb d dst then (s, d, t) :: r else (s, d, t0) :: nq_set src dst t r
  end.
(** InsertNextQuery: written iff there is no row or the new value is larger *)
Definition insert_nq (src dst : ia) (t : N) (l : nq_db) : nq_db * bool :=
  match nq_find src dst l with
  | None => (nq_set src dst t l, true)
  | Some t0 => if t0 <? t then (nq_set src dst t l, true) else (l, false)
  end.

Inductive pop :=
| PInsert (s : pseg) (ty : N) (groups : list N)
| PDelete (p : list N)
| PDeleteExpired (now : N)
| PGet (p : pparams)
| PInsertNQ (src dst : ia) (t : N)
| PGetNQ (src dst : ia).

Inductive pres :=
| PRStats (ins upd : N) | PRUnit | PRCount (n : N) | PRGet (l : list prow)
| PRDeleted (n : N)      (* DeleteSegment: segments counted before minus segments counted after *)
| PRBool (b : bool) | PRNQ (o : option N).

Record pstate := { segs : seg_db; nqs : nq_db }.

Definition pstep (tick : N) (st : pstate) (o : pop) : pstate * pres :=
  match o with
  | PInsert s ty gs =>
      let (db', r) := insert_seg tick s ty gs (segs st) in
      ({| segs := db'; nqs := nqs st |}, PRStats (fst r) (snd r))
  | PDelete p =>
      ({| segs := delete_segment p (segs st); nqs := nqs st |},
       PRDeleted (N.of_nat (length (filter (fun e => prefix_b p (pe_id e)) (segs st)))))
  | PDeleteExpired now =>
      let (db', n) := delete_expired_segs now (segs st) in
      ({| segs := db'; nqs := nqs st |}, PRCount n)
  | PGet p => (st, PRGet (get_segs p (segs st)))
  | PInsertNQ src dst t =>
      let (l', b) := insert_nq src dst t (nqs st) in ({| segs := segs st; nqs := l' |}, PRBool b)
  | PGetNQ src dst => (st, PRNQ (nq_find src dst (nqs st)))
  end.

Definition pacc := (N * pstate * list pres)%type.
Definition pexec (a : pacc) (o : pop) : pacc :=
  let '(tick, st, rs) := a in
  let (st', r) := pstep tick st o in (tick + 1, st', r :: rs).
Definition prun_from (a : pacc) (ops : list pop) : pacc := fold_left pexec ops a.
Definition prun (ops : list pop) : pacc := prun_from (0, {| segs := []; nqs := [] |}, []) ops.
Definition pst (a : pacc) : pstate := snd (fst a).
Definition presults (ops : list pop) : list pres := rev (snd (prun ops)).

(** ==================================================================
    What the property prescribes for one operation, given the store before it
    (used as the oracle on the implementation's observations). *)

Definition ia_list_eqb := list_eqb ia_eqb.
Definition crow_eqb (a b : crow) : bool :=
  match a, b with (i1, p1, f1), (i2, p2, f2) => id_eqb i1 i2 && (p1 =? p2) && (f1 =? f2) end.
Definition brow_eqb (a b : brow) : bool :=
  match a, b with
  | (i1, p1, f1, u1, l1), (i2, p2, f2, u2, l2) =>
      id_eqb i1 i2 && (p1 =? p2) && (f1 =? f2) && (u1 =? u2) && (l1 =? l2)
  end.
Definition prow_eqb (a b : prow) : bool :=
  match a, b with
  | (i1, p1, t1, g1, l1), (i2, p2, t2, g2, l2) =>
      id_eqb i1 i2 && (p1 =? p2) && (t1 =? t2) && list_eqb N.eqb g1 g2 && (l1 =? l2)
  end.

Definition mem_by {A} (eqb : A -> A -> bool) (x : A) (l : list A) : bool := existsb (eqb x) l.
Definition incl_by {A} (eqb : A -> A -> bool) (a b : list A) : bool :=
  forallb (fun x => mem_by eqb x b) a.
Fixpoint nodup_by {A} (eqb : A -> A -> bool) (l : list A) : bool :=
  match l with [] => true | x :: t => negb (mem_by eqb x t) && nodup_by eqb t end.
(** equal as sets, the first without repetition *)
Definition same_set {A} (eqb : A -> A -> bool) (a b : list A) : bool :=
  nodup_by eqb a && incl_by eqb a b && incl_by eqb b a.

(** candidates: every row is a stored beacon (by id) with that payload and ingress
    interface, allowed for
    the usage and source; no beacon twice; lengths non-decreasing; as many as
    possible up to n; nothing shorter was left out *)
Fixpoint resolve (db : beacon_db) (rows : list crow) : option (list bentry) :=
  match rows with
  | [] => Some []
  | (id, pay, inif) :: t =>
      match kfind be_id id db, resolve db t with
      | Some e, Some r => if (be_pay e =? pay) && (be_inif e =? inif) then Some (e :: r) else None
      | _, _ => None
      end
  end.
Fixpoint sorted_hops (l : list bentry) : bool :=
  match l with
  | [] => true
  | x :: t => forallb (fun y => be_hops x <=? be_hops y) t && sorted_hops t
  end.
Definition cands_ok (db : beacon_db) (n usage : N) (src : ia) (rows : list crow) : bool :=
  match resolve db rows with
  | None => false
  | Some es =>
      let m := filter (cand_match usage src) db in
      forallb (cand_match usage src) es
      && nodup_by id_eqb (map be_id es)
      && sorted_hops es
      && (N.of_nat (length es) =? N.min n (N.of_nat (length m)))
      && forallb (fun x => mem_by id_eqb (be_id x) (map be_id es)
                           || forallb (fun y => be_hops y <=? be_hops x) es) m
  end.

Fixpoint desc_lu (l : list brow) : bool :=
  match l with
  | [] => true
  | (_, _, _, _, lu) :: t => forallb (fun r => snd r <=? lu) t && desc_lu t
  end.

Definition bres_ok (tick : N) (db : beacon_db) (o : bop) (r : bres) : bool :=
  match o, r with
  | BInsert b u, BRStats i k =>
      match kfind be_id (b_id b) db with
      | None => (i =? 1) && (k =? 0)
      | Some e => (i =? 0) && (k =? (if be_ver e <? b_ver b then 1 else 0))
      end
  | BDelete p, BRDeleted n =>
      n =? N.of_nat (length (filter (fun e => prefix_b p (be_id e)) db))
  | BDeleteExpired now, BRCount n =>
      n =? N.of_nat (length (filter (fun e => be_exp e <? now) db))
  | BCandidates n u src, BRCands rows => cands_ok db n u src rows
  | BSources, BRSources l => same_set ia_eqb l (map be_start db)
  | BGet ordered p, BRGet rows =>
      (negb ordered || desc_lu rows) && same_set brow_eqb rows (map brow_of (filter (bmatch p) db))
  | _, _ => false
  end.

Definition pres_ok (tick : N) (st : pstate) (o : pop) (r : pres) : bool :=
  match o, r with
  | PInsert s ty gs, PRStats i k =>
      match kfind pe_id (s_id s) (segs st) with
      | None => (i =? 1) && (k =? 0)
      | Some e => (i =? 0) && (k =? (if pe_ver e <? s_ver s then 1 else 0))
      end
  | PDelete p, PRDeleted n =>
      n =? N.of_nat (length (filter (fun e => prefix_b p (pe_id e)) (segs st)))
  | PDeleteExpired now, PRCount n =>
      n =? N.of_nat (length (filter (fun e => pe_exp e <? now) (segs st)))
  | PGet p, PRGet rows => same_set prow_eqb rows (flat_map (rows_of p) (segs st))
  | PInsertNQ src dst t, PRBool b =>
      Bool.eqb b (match nq_find src dst (nqs st) with None => true | Some t0 => t0 <? t end)
  | PGetNQ src dst, PRNQ o => option_eqb N.eqb o (nq_find src dst (nqs st))
  | _, _ => false
  end.

(** the oracle over a history: the model's store before each operation, the
    implementation's result for it *)
Fixpoint bhist_ok (tick : N) (db : beacon_db) (ops : list bop) (rs : list bres) : bool :=
  match ops, rs with
  | [], [] => true
  | o :: t, r :: t' => bres_ok tick db o r && bhist_ok (tick + 1) (fst (bstep tick db o)) t t'
  | _, _ => false
  end.
Fixpoint phist_ok (tick : N) (st : pstate) (ops : list pop) (rs : list pres) : bool :=
  match ops, rs with
  | [], [] => true
  | o :: t, r :: t' => pres_ok tick st o r && phist_ok (tick + 1) (fst (pstep tick st o)) t t'
  | _, _ => false
  end.

(** agreement of the model's result with the implementation's: exact, except that
    sets are compared as sets and that candidates of equal length may come in any
    order (same lengths in the same positions, same beacons below the last length) *)
Definition hops_of (db : beacon_db) (rows : list crow) : list N :=
  map (fun r => match kfind be_id (fst (fst r)) db with Some e => be_hops e | None => 0 end) rows.
Definition bres_agree (db : beacon_db) (o : bop) (m r : bres) : bool :=
  match m, r with
  | BRStats a b, BRStats c d => (a =? c) && (b =? d)
  | BRUnit, BRUnit => true
  | BRDeleted a, BRDeleted b => a =? b
  | BRCount a, BRCount b => a =? b
  | BRCands a, BRCands b =>
      list_eqb N.eqb (hops_of db a) (hops_of db b)
      && match o with BCandidates n u src => cands_ok db n u src b | _ => false end
  | BRSources a, BRSources b => same_set ia_eqb b a
  | BRGet a, BRGet b =>
      match o with BGet true _ => list_eqb brow_eqb a b | _ => same_set brow_eqb b a end
  | _, _ => false
  end.
Definition pres_agree (m r : pres) : bool :=
  match m, r with
  | PRStats a b, PRStats c d => (a =? c) && (b =? d)
  | PRUnit, PRUnit => true
  | PRDeleted a, PRDeleted b => a =? b
  | PRCount a, PRCount b => a =? b
  | PRGet a, PRGet b => same_set prow_eqb b a
  | PRBool a, PRBool b => Bool.eqb a b
  | PRNQ a, PRNQ b => option_eqb N.eqb a b
  | _, _ => false
  end.
Fixpoint bhist_agree (tick : N) (db : beacon_db) (ops : list bop) (rs : list bres) : bool :=
  match ops, rs with
  | [], [] => true
  | o :: t, r :: t' =>
      let (db', m) := bstep tick db o in bres_agree db o m r && bhist_agree (tick + 1) db' t t'
  | _, _ => false
  end.
Fixpoint phist_agree (tick : N) (st : pstate) (ops : list pop) (rs : list pres) : bool :=
  match ops, rs with
  | [], [] => true
  | o :: t, r :: t' =>
      let (st', m) := pstep tick st o in pres_agree m r && phist_agree (tick + 1) st' t t'
  | _, _ => false
  end.

Inductive case :=
| CBeacon (ops : list bop) (impl : list bres)
| CPath (ops : list pop) (impl : list pres).

Definition check (c : case) : N :=
  match c with
  | CBeacon ops impl =>
      Check.verdict (bhist_agree 0 [] ops impl) (bhist_ok 0 [] ops impl)
  | CPath ops impl =>
      let s0 := {| segs := []; nqs := [] |} in
      Check.verdict (phist_agree 0 s0 ops impl) (phist_ok 0 s0 ops impl)
  end.

Inductive anyres := AB (l : list bres) | AP (l : list pres).
Definition diag (c : case) : anyres :=
  match c with
  | CBeacon ops _ => AB (bresults ops)
  | CPath ops _ => AP (presults ops)
  end.

End Store.
