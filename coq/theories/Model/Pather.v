(** Model of private/segment/segfetcher: [MultiSegmentSplitter.Split] / [inspect]
    (splitter.go) and [Pather.GetPaths] with [buildAllPaths], [findDestinations],
    [filterRevoked], [translatePaths] (pather.go).  Definitions only.

    An ISD-AS is a pair (ISD, AS); AS 0 is the wildcard.  Time is in seconds (Z);
    [time.Now()] is the explicit argument [now].  The segment fetcher, the path
    combinator, the revocation cache lookup and the next-hop lookup are function
    arguments of [get_paths]. *)
From Coq Require Import List NArith ZArith Bool.
From Scion Require Import Lib.Check.
Import ListNotations.
Local Open Scope N_scope.

Module Pather.

Definition ia := (N * N)%type.
Definition isd (a : ia) : N := fst a.
Definition ia_eqb (a b : ia) : bool := (fst a =? fst b) && (snd a =? snd b).
Definition mem_ia (x : ia) (l : list ia) : bool := existsb (ia_eqb x) l.
Definition wildcard (a : ia) : bool := snd a =? 0.          (* addr.IA.IsWildcard *)
Definition to_wild (a : ia) : ia := (fst a, 0).              (* toWildCard *)
Definition zero : ia := (0, 0).
Definition is_zero (a : ia) : bool := ia_eqb a zero.         (* addr.IA.IsZero *)

Definition Up : N := 1.  Definition Down : N := 2.  Definition Core : N := 3.   (* seg.Type *)

Record req := mkreq { rq_type : N; rq_src : ia; rq_dst : ia }.
Definition req_eqb (a b : req) : bool :=
  (rq_type a =? rq_type b) && ia_eqb (rq_src a) (rq_src b) && ia_eqb (rq_dst a) (rq_dst b).

(** ---------------------------------------------------------------- Splitter *)

(** trust.Inspector as far as the splitter uses it: the primary ASes holding the
    Core attribute (ByAttributes(isd, Core) = those of that ISD, in this order;
    HasAttributes(ia, Core) = membership) and whether a lookup fails. *)
Record inspector := mkinsp { i_cores : list ia; i_fail : bool }.

Record splitter := mksplit { sp_local : ia; sp_core : bool; sp_insp : option inspector }.

Definition cores_of (insp : inspector) (i : N) : list ia :=
  filter (fun c => isd c =? i) (i_cores insp).

(** [inspect]: None = the inspector returned an error. *)
Definition inspect (insp : inspector) (src dst : ia) : option (ia * bool) :=
  if negb (isd src =? isd dst) then
    (* isCore *)
    if wildcard dst then Some (zero, true)
    else if i_fail insp then None
    else Some (zero, mem_ia dst (i_cores insp))
  else if i_fail insp then None
  else
    let cores := cores_of insp (isd src) in
    let single := match cores with [c] => c | _ => zero end in
    if mem_ia dst cores then Some (single, true) else Some (single, wildcard dst).

Inductive split_res := SplitOk (l : list req) | SplitErr.

Definition split (sp : splitter) (dst : ia) : split_res :=
  let src := sp_local sp in
  match sp_insp sp with
  | None =>
    if sp_core sp then
      SplitOk [mkreq Down src dst; mkreq Core src dst; mkreq Core src (to_wild dst);
               mkreq Down (to_wild dst) dst]
    else
      SplitOk [mkreq Up src (to_wild src); mkreq Core (to_wild src) (to_wild dst);
               mkreq Core (to_wild src) dst; mkreq Down (to_wild dst) dst]
  | Some insp =>
    match inspect insp src dst with
    | None => SplitErr
    | Some (single, dst_core) =>
      match sp_core sp, dst_core with
      | false, false =>
        if negb (is_zero single) then
          SplitOk [mkreq Up src single; mkreq Down single dst]
        else
          SplitOk [mkreq Up src (to_wild src); mkreq Core (to_wild src) (to_wild dst);
                   mkreq Down (to_wild dst) dst]
      | false, true =>
        if ((isd src =? isd dst) && wildcard dst) || ia_eqb single dst then
          SplitOk [mkreq Up src dst]
        else SplitOk [mkreq Up src (to_wild src); mkreq Core (to_wild src) dst]
      | true, false =>
        if ia_eqb single src then SplitOk [mkreq Down src dst]
        else SplitOk [mkreq Core src (to_wild dst); mkreq Down (to_wild dst) dst]
      | true, true => SplitOk [mkreq Core src dst]
      end
    end
  end.

(** ---------------------------------------------------------------- the specification table of the splitter
    Kinds of source and destination, stated without reference to the code:
    the source is core as configured; the destination counts as core when it is a
    wildcard or holds the Core attribute; [single] is the only core AS of the
    source ISD when source and destination are in the same ISD. *)
Record kinds := mkkinds {
  k_src_core : bool; k_dst_core : bool; k_same_isd : bool; k_wild : bool;
  k_has_single : bool; k_single_is_src : bool; k_single_is_dst : bool }.

(** symbolic end points of a request *)
Inductive ep := ESrc | EDst | EWildSrc | EWildDst | ESingle.

Definition table (k : kinds) : list (N * ep * ep) :=
  match k_src_core k, k_dst_core k with
  | false, false =>
    if k_has_single k
    then [(Up, ESrc, ESingle); (Down, ESingle, EDst)]
    else [(Up, ESrc, EWildSrc); (Core, EWildSrc, EWildDst); (Down, EWildDst, EDst)]
  | false, true =>
    if (k_same_isd k && k_wild k) || (k_has_single k && k_single_is_dst k)
    then [(Up, ESrc, EDst)]
    else [(Up, ESrc, EWildSrc); (Core, EWildSrc, EDst)]
  | true, false =>
    if k_has_single k && k_single_is_src k
    then [(Down, ESrc, EDst)]
    else [(Core, ESrc, EWildDst); (Down, EWildDst, EDst)]
  | true, true => [(Core, ESrc, EDst)]
  end.

(** without an inspector nothing is known about the destination: all combinations *)
Definition table_basic (src_core : bool) : list (N * ep * ep) :=
  if src_core
  then [(Down, ESrc, EDst); (Core, ESrc, EDst); (Core, ESrc, EWildDst); (Down, EWildDst, EDst)]
  else [(Up, ESrc, EWildSrc); (Core, EWildSrc, EWildDst); (Core, EWildSrc, EDst);
        (Down, EWildDst, EDst)].

Definition inst_ep (src dst single : ia) (e : ep) : ia :=
  match e with
  | ESrc => src | EDst => dst | EWildSrc => to_wild src | EWildDst => to_wild dst
  | ESingle => single
  end.
Definition inst (src dst single : ia) (r : N * ep * ep) : req :=
  mkreq (fst (fst r)) (inst_ep src dst single (snd (fst r))) (inst_ep src dst single (snd r)).

(** the only core AS of ISD [i], if there is exactly one *)
Definition single_core (cores : list ia) (i : N) : option ia :=
  match filter (fun c => isd c =? i) cores with [c] => Some c | _ => None end.

Definition classify (src : ia) (src_core : bool) (cores : list ia) (dst : ia) : kinds * ia :=
  let same := isd src =? isd dst in
  let single := if same then single_core cores (isd src) else None in
  let s := match single with Some c => c | None => zero end in
  (mkkinds src_core (wildcard dst || mem_ia dst cores) same (wildcard dst)
           (match single with Some _ => true | None => false end)
           (ia_eqb s src) (ia_eqb s dst), s).

(** does the splitter have to consult the inspector for this destination *)
Definition needs_lookup (src dst : ia) : bool := (isd src =? isd dst) || negb (wildcard dst).

Definition split_spec (sp : splitter) (dst : ia) : split_res :=
  let src := sp_local sp in
  match sp_insp sp with
  | None => SplitOk (map (inst src dst zero) (table_basic (sp_core sp)))
  | Some insp =>
    if needs_lookup src dst && i_fail insp then SplitErr
    else let (k, s) := classify src (sp_core sp) (i_cores insp) dst in
         SplitOk (map (inst src dst s) (table k))
  end.

(** the meaning of a request list, independent of the table: the requested
    segments form a chain from [a] to [b] (each request starts where the previous
    one ended; wildcards are matched by their wildcard), at most one segment of a
    kind, up before core before down *)
Definition rank (t : N) : N := if t =? Up then 1 else if t =? Core then 2 else 3.
Fixpoint chain_from (a : ia) (prev : N) (l : list req) (b : ia) : Prop :=
  match l with
  | [] => a = b
  | r :: t => rq_src r = a /\ prev < rank (rq_type r) /\ chain_from (rq_dst r) (rank (rq_type r)) t b
  end.
Definition has_type (t : N) (l : list req) : bool := existsb (fun r => rq_type r =? t) l.

(** ---------------------------------------------------------------- Pather *)
(** [sg_id] names the segment (the Pather never looks at it; it lets an instance of
    [combine] find the segment's content) *)
Record seg := mkseg { sg_type : N; sg_first : ia; sg_last : ia; sg_id : N }.
Definition iface := (ia * N)%type.
Record cpath := mkcpath { p_ifs : list iface; p_exp : Z }.       (* combinator.Path: Metadata *)
Record rpath := mkrpath { r_src : ia; r_dst : ia; r_ifs : list iface; r_exp : Z }.   (* snet path *)

Definition max_ttl : Z := 86400.       (* rawpath.MaxTTL in seconds *)

Inductive gp_err := EBadDst | ESplit | EFetch | ETranslate.
Inductive gp_res := GOk (l : list rpath) | GErr (e : gp_err) | GPanic.

Fixpoint dedup (l : list ia) : list ia :=
  match l with
  | [] => []
  | a :: t => if mem_ia a t then dedup t else a :: dedup t
  end.

Definition of_type (t : N) (segs : list seg) : list seg := filter (fun s => sg_type s =? t) segs.
Definition firsts (segs : list seg) : list ia := map sg_first segs.

(** SQL-style match of a request end point against a segment end point *)
Definition ia_match (pat x : ia) : bool := if wildcard pat then isd pat =? isd x else ia_eqb pat x.

(** the Fetcher contract: a segment answers a request (resolver.go [loadSegment]:
    down segments are stored in request direction, up and core segments reversed) *)
Definition seg_matches (r : req) (s : seg) : bool :=
  (sg_type s =? rq_type r) &&
  if rq_type r =? Down
  then ia_match (rq_src r) (sg_first s) && ia_match (rq_dst r) (sg_last s)
  else ia_match (rq_dst r) (sg_first s) && ia_match (rq_src r) (sg_last s).

Section WithEnv.
Variable fetch : list req -> list seg * bool.            (* Fetcher.Fetch: segments, failed? *)
Variable combine : ia -> ia -> list seg -> list seg -> list seg -> list cpath.   (* combinator.Combine *)
Variable rev_active : iface -> bool.                     (* RevCache.Get(key) <> nil *)
Variable nexthop : N -> bool.                            (* NextHopper.UnderlayNextHop(id) <> nil *)

(** [findDestinations] *)
Definition find_destinations (local dst : ia) (ups cores : list seg) : list ia :=
  if negb (wildcard dst) then [dst]
  else dedup (firsts cores ++ (if isd dst =? isd local then firsts ups else [])).

(** [buildAllPaths] *)
Definition build_all_paths (now : Z) (local dst : ia) (segs : list seg) : list cpath :=
  let up := of_type Up segs in
  let core := of_type Core segs in
  let down := of_type Down segs in
  let paths := flat_map (fun d => combine local d up core down)
                        (find_destinations local dst up core) in
  filter (fun p => (p_exp p >? now)%Z) paths.

(** [filterRevoked] *)
Definition filter_revoked (paths : list cpath) : list cpath :=
  filter (fun p => negb (existsb rev_active (p_ifs p))) paths.

(** [translatePath]: None = no next hop; the first interface is indexed unchecked *)
Inductive tr_res := TrOk (p : rpath) | TrNoHop | TrPanic.
Definition translate_path (p : cpath) : tr_res :=
  match p_ifs p with
  | [] => TrPanic
  | i0 :: _ =>
    if nexthop (snd i0) then TrOk (mkrpath (fst i0) (fst (last (p_ifs p) i0)) (p_ifs p) (p_exp p))
    else TrNoHop
  end.

Fixpoint translate_paths (ps : list cpath) : option (list rpath) :=     (* None = panic *)
  match ps with
  | [] => Some []
  | p :: t =>
    match translate_path p, translate_paths t with
    | TrPanic, _ => None
    | _, None => None
    | TrOk r, Some l => Some (r :: l)
    | TrNoHop, Some l => Some l
    end
  end.

(** [Pather.GetPaths] with [Pather.IA] = [sp_local sp] *)
Definition get_paths (sp : splitter) (now : Z) (dst : ia) : gp_res :=
  let src := sp_local sp in
  if isd dst =? 0 then GErr EBadDst
  else if ia_eqb dst src then GOk [mkrpath src dst [] (now + max_ttl)]
  else
    match split sp dst with
    | SplitErr => GErr ESplit
    | SplitOk reqs =>
      let (segs, fetch_err) := fetch reqs in
      let paths := filter_revoked (build_all_paths now src dst segs) in
      match paths with
      | [] => if fetch_err then GErr EFetch else GOk []
      | _ =>
        match translate_paths paths with
        | None => GPanic
        | Some [] => GErr ETranslate
        | Some l => GOk l
        end
      end
    end.

(** the segment requests handed to the fetcher *)
Definition requests (sp : splitter) (dst : ia) : list req :=
  if (isd dst =? 0) || ia_eqb dst (sp_local sp) then []
  else match split sp dst with SplitOk reqs => reqs | SplitErr => [] end.

End WithEnv.

(** ---------------------------------------------------------------- correspondence cases *)

(** the fake fetcher of the runner: everything in the pool that answers a request *)
Definition pool_fetch (pool : list seg) (fail : bool) (reqs : list req) : list seg * bool :=
  if fail then ([], true)
  else (filter (fun s => existsb (fun r => seg_matches r s) reqs) pool, false).

Fixpoint lookup_ia {A} (d : ia) (tbl : list (ia * A)) : option A :=
  match tbl with
  | [] => None
  | (k, v) :: t => if ia_eqb k d then Some v else lookup_ia d t
  end.

(** combinator output shipped with the case, per destination *)
Definition table_combine (tbl : list (ia * list cpath))
           (src d : ia) (up core down : list seg) : list cpath :=
  match lookup_ia d tbl with Some l => l | None => [] end.

Definition iface_eqb (a b : iface) : bool := ia_eqb (fst a) (fst b) && (snd a =? snd b).

(** revocations inserted into the cache: (interface, expiry); active = not yet expired *)
Definition revs_active (now : Z) (revs : list (iface * Z)) (i : iface) : bool :=
  existsb (fun r => iface_eqb (fst r) i && (snd r >? now)%Z) revs.

Definition nexthop_of (missing : list N) (id : N) : bool := negb (existsb (N.eqb id) missing).

(** observation of one returned path: (source, destination, interfaces, expiry > now) *)
Definition opath := (ia * ia * list iface * bool)%type.
Definition opath_of (now : Z) (r : rpath) : opath := (r_src r, r_dst r, r_ifs r, (r_exp r >? now)%Z).
Definition opath_eqb (a b : opath) : bool :=
  match a, b with
  | (s1, d1, i1, l1), (s2, d2, i2, l2) =>
    ia_eqb s1 s2 && ia_eqb d1 d2 && list_eqb iface_eqb i1 i2 && Bool.eqb l1 l2
  end.

Definition set_eqb {A} (eqb : A -> A -> bool) (l1 l2 : list A) : bool :=
  forallb (fun a => existsb (eqb a) l2) l1 && forallb (fun a => existsb (eqb a) l1) l2.

Record env := mkenv {
  e_sp : splitter; e_dst : ia;
  e_pool : list seg; e_fetch_fail : bool;
  e_comb : list (ia * list cpath);
  e_revs : list (iface * Z);
  e_missing : list N;                         (* interface ids without a next hop *)
  e_cores : list ia;                          (* the core ASes of the topology the pool comes from *)
  e_shaped : bool }.                          (* the pool segments are beaconing-shaped *)

(** now = 0: all times in a case are relative to the runner's clock reading *)
Definition model_paths (e : env) : gp_res :=
  get_paths (pool_fetch (e_pool e) (e_fetch_fail e)) (table_combine (e_comb e))
            (revs_active 0 (e_revs e)) (nexthop_of (e_missing e)) (e_sp e) 0 (e_dst e).

(** the oracle: the property on the implementation's requests and returned paths *)
Definition dst_ok (e : env) (d : ia) : bool :=
  let dst := e_dst e in
  if negb (wildcard dst) then ia_eqb d dst
  else
    (isd d =? isd dst) && mem_ia d (e_cores e) &&
    let segs := fst (pool_fetch (e_pool e) (e_fetch_fail e) (requests (e_sp e) dst)) in
    mem_ia d (firsts (of_type Core segs)
              ++ (if isd dst =? isd (sp_local (e_sp e)) then firsts (of_type Up segs) else [])).

Definition path_ok (e : env) (p : opath) : bool :=
  match p with
  | (s, d, ifs, live) =>
    (* end points are promised for beaconing-shaped segments only *)
    (negb (e_shaped e) || (ia_eqb s (sp_local (e_sp e)) && dst_ok e d)) && live
    && negb (existsb (revs_active 0 (e_revs e)) ifs)
  end.

Definition spec_requests (e : env) : list req :=
  let dst := e_dst e in
  if (isd dst =? 0) || ia_eqb dst (sp_local (e_sp e)) then []
  else match split_spec (e_sp e) dst with SplitOk l => l | SplitErr => [] end.

Definition oracle (e : env) (reqs : list req) (ok : bool) (paths : list opath) : bool :=
  set_eqb req_eqb reqs (spec_requests e)
  && forallb (path_ok e) paths
  && (negb (ia_eqb (e_dst e) (sp_local (e_sp e)) && negb (isd (e_dst e) =? 0))
      || (ok && match paths with [(_, _, [], _)] => true | _ => false end)).

Inductive case :=
| CGet (e : env) (reqs : list req) (ok : bool) (paths : list opath)     (* GetPaths observed *)
| CSplit (sp : splitter) (dst : ia) (ok : bool) (reqs : list req).       (* Split alone, any dst *)

Definition res_ok (r : gp_res) : bool := match r with GOk _ => true | _ => false end.
Definition res_paths (r : gp_res) : list opath :=
  match r with GOk l => map (opath_of 0) l | _ => [] end.

Definition check (c : case) : N :=
  match c with
  | CGet e reqs ok paths =>
    let m := model_paths e in
    Check.verdict (set_eqb req_eqb (requests (e_sp e) (e_dst e)) reqs
                   && Bool.eqb (res_ok m) ok && set_eqb opath_eqb (res_paths m) paths
                   && (length (res_paths m) =? length paths)%nat)
                  (oracle e reqs ok paths)
  | CSplit sp dst ok reqs =>
    let same l := set_eqb req_eqb l reqs && (length l =? length reqs)%nat in
    match split sp dst, split_spec sp dst with
    | SplitOk l, SplitOk l' => Check.verdict (ok && same l) (ok && same l')
    | SplitErr, SplitErr => Check.verdict (negb ok) (negb ok)
    | SplitOk l, SplitErr => Check.verdict (ok && same l) (negb ok)
    | SplitErr, SplitOk l' => Check.verdict (negb ok) (ok && same l')
    end
  end.

Definition diag (c : case) : list req * bool * list opath :=
  match c with
  | CGet e _ _ _ => let m := model_paths e in (requests (e_sp e) (e_dst e), res_ok m, res_paths m)
  | CSplit sp dst _ _ =>
    match split sp dst with SplitOk l => (l, true, []) | SplitErr => ([], false, []) end
  end.

End Pather.
