(** Model of the gateway's routing decisions:
    - gateway/dataplane/routingtable.go: NewRoutingTable, SetSession / ClearSession,
      route (longest prefix, then first matching traffic class);
    - gateway/dataplane/ipforwarder.go: the checks of IPForwarder.Run before routing;
    - gateway/routing/policy.go, matchers.go, advertise.go: Policy.Match, IA and
      network matchers, AdvertiseList;
    - gateway/routing/marshal.go: MarshalText / UnmarshalText.
    Definitions only.

    Addresses are numbers with a family (32 / 128 bits), prefixes (family, address,
    length); membership is arithmetic.  Traffic classes are PktCls conditions.
    The atoms of the policy text (ISD-AS, prefix, IP address) are parsed and
    printed by library functions (addr.ParseIA, netip.ParsePrefix, net.ParseIP and
    their String methods); the model receives them as a table: every text that one
    of the parsers accepts and that occurs in the case, with the values. *)
From Coq Require Import List NArith Bool.
From Coq Require String Ascii.
From Scion Require Import Lib.Check Model.PktCls.
Import ListNotations.
Import String.StringSyntax.
Local Open Scope N_scope.

Module GwRoute.

Definition str := PktCls.str.
Arguments str s%string_scope.

(** ------------------------------------------------------------------
    Addresses and prefixes. *)
Definition abits (v6 : bool) : N := if v6 then 128 else 32.
Definition ipaddr := (bool * N)%type.           (* (is IPv6, value) *)
Record prefix := Pfx { pf_v6 : bool; pf_addr : N; pf_len : N }.

Definition in_prefix (p : prefix) (a : ipaddr) : bool :=
  let k := abits (pf_v6 p) - pf_len p in
  Bool.eqb (pf_v6 p) (fst a) && (snd a / 2 ^ k =? pf_addr p / 2 ^ k).

Definition ipaddr_eqb (a b : ipaddr) : bool := Bool.eqb (fst a) (fst b) && (snd a =? snd b).
Definition pfx_eqb (a b : prefix) : bool :=
  Bool.eqb (pf_v6 a) (pf_v6 b) && (pf_addr a =? pf_addr b) && (pf_len a =? pf_len b).
(** the set of addresses of a prefix is determined by this *)
Definition canon (p : prefix) : prefix :=
  let k := abits (pf_v6 p) - pf_len p in Pfx (pf_v6 p) (pf_addr p / 2 ^ k * 2 ^ k) (pf_len p).

(** ------------------------------------------------------------------
    Routing table. *)
Record tmatch := TM { tm_id : N; tm_cond : PktCls.cond }.
Record chain := Chain { ch_prefixes : list prefix; ch_matchers : list tmatch }.
Record cls := Cls { c_id : N; c_cond : PktCls.cond; c_sess : option N }.
Record entry := Entry { e_pfx : prefix; e_ids : list N }.
Record table := Table { t_entries : list entry; t_classes : list cls }.

Definition find_cls (cs : list cls) (id : N) : option cls := find (fun c => c_id c =? id) cs.

(** indexToSubEntry: the first matcher seen for an ID defines the sub-entry *)
Definition add_matchers (cs : list cls) (ms : list tmatch) : list cls :=
  fold_left (fun cs m => match find_cls cs (tm_id m) with
                         | Some _ => cs
                         | None => cs ++ [Cls (tm_id m) (tm_cond m) None]
                         end) ms cs.

Definition new_table (chains : list chain) : table :=
  fold_left (fun t ch =>
    fold_left (fun t p =>
      Table (t_entries t ++ [Entry p (List.map tm_id (ch_matchers ch))])
            (add_matchers (t_classes t) (ch_matchers ch)))
      (ch_prefixes ch) t) chains (Table [] []).

Inductive op := OSet (id : N) (s : option N) | OClear (id : N).

Definition set_cls (cs : list cls) (id : N) (s : option N) : list cls :=
  List.map (fun c => if c_id c =? id then Cls (c_id c) (c_cond c) s else c) cs.

(** SetSession / ClearSession: the new table and whether the call succeeded *)
Definition apply_op (t : table) (o : op) : table * bool :=
  match o with
  | OSet id None => (t, false)                               (* nil session *)
  | OSet id (Some s) =>
    match find_cls (t_classes t) id with
    | Some _ => (Table (t_entries t) (set_cls (t_classes t) id (Some s)), true)
    | None => (t, false)
    end
  | OClear id =>
    match find_cls (t_classes t) id with
    | Some _ => (Table (t_entries t) (set_cls (t_classes t) id None), true)
    | None => (t, false)
    end
  end.

Definition apply_ops (t : table) (ops : list op) : table * list bool :=
  fold_left (fun acc o => let '(t', ok) := apply_op (fst acc) o in (t', snd acc ++ [ok])) ops (t, []).

(** entry.route: the session of the first class that matches (nil session = None) *)
Fixpoint ids_route (cs : list cls) (ids : list N) (pkt : PktCls.layer) : option N :=
  match ids with
  | [] => None
  | id :: r =>
    match find_cls cs id with
    | Some c => if PktCls.eval (c_cond c) pkt then c_sess c else ids_route cs r pkt
    | None => ids_route cs r pkt
    end
  end.
Definition entry_route (cs : list cls) (e : entry) (pkt : PktCls.layer) : option N :=
  ids_route cs (e_ids e) pkt.

(** statement level: does the class with this index match, and what is its session *)
Definition cls_matches (cs : list cls) (pkt : PktCls.layer) (id : N) : bool :=
  match find_cls cs id with Some c => PktCls.eval (c_cond c) pkt | None => false end.
Definition cls_session (cs : list cls) (id : N) : option N :=
  match find_cls cs id with Some c => c_sess c | None => None end.

(** RoutingTable.route: scan, keep the result of the last entry that contains
    the destination and whose mask is not shorter than the best so far *)
Fixpoint route_scan (cs : list cls) (es : list entry) (dst : ipaddr) (pkt : PktCls.layer)
         (highest : N) (ret : option N) : option N :=
  match es with
  | [] => ret
  | e :: r =>
    if negb (in_prefix (e_pfx e) dst) then route_scan cs r dst pkt highest ret
    else if pf_len (e_pfx e) <? highest then route_scan cs r dst pkt highest ret
    else route_scan cs r dst pkt (pf_len (e_pfx e)) (entry_route cs e pkt)
  end.

Definition route (t : table) (dst : ipaddr) (pkt : PktCls.layer) : option N :=
  route_scan (t_classes t) (t_entries t) dst pkt 0 None.

(** net.IPNet.Contains converts an IPv4-mapped IPv6 address to IPv4 *)
Definition norm_dst (a : ipaddr) : ipaddr :=
  if fst a && (snd a / 4294967296 =? 65535) then (false, snd a mod 4294967296) else a.

(** a packet handed to RouteIPv4 / RouteIPv6 *)
Inductive ippkt := V4 (p : PktCls.pkt) | V6 (dst : N).
Definition route_pkt (t : table) (k : ippkt) : option N :=
  match k with
  | V4 p => route t (false, PktCls.p_dst p) (Some p)
  | V6 d => route t (norm_dst (true, d)) None
  end.

(** The specification: the first class of the longest containing prefix. *)
Fixpoint best_entry (es : list entry) (dst : ipaddr) (best : option entry) : option entry :=
  match es with
  | [] => best
  | e :: r =>
    if in_prefix (e_pfx e) dst then
      match best with
      | Some b => if pf_len (e_pfx b) <? pf_len (e_pfx e) then best_entry r dst (Some e)
                  else best_entry r dst best
      | None => best_entry r dst (Some e)
      end
    else best_entry r dst best
  end.
Definition spec_route (t : table) (dst : ipaddr) (pkt : PktCls.layer) : option N :=
  match best_entry (t_entries t) dst None with
  | Some e => entry_route (t_classes t) e pkt
  | None => None
  end.
Definition spec_route_pkt (t : table) (k : ippkt) : option N :=
  match k with
  | V4 p => spec_route t (false, PktCls.p_dst p) (Some p)
  | V6 d => spec_route t (norm_dst (true, d)) None
  end.

Fixpoint nodupb {A} (eqb : A -> A -> bool) (l : list A) : bool :=
  match l with [] => true | x :: r => negb (existsb (eqb x) r) && nodupb eqb r end.
Definition distinct_prefixes (t : table) : bool :=
  nodupb pfx_eqb (List.map (fun e => canon (e_pfx e)) (t_entries t)).

(** ------------------------------------------------------------------
    IPForwarder.Run, one packet.  [r_dec] is what gopacket makes of the bytes when
    decoded as the version nibble says: the network layer (or failure), and
    whether every layer above it decodes too.  Only the IP header has to decode
    (checkNetworkHeader); the second component does not influence the decision. *)
Inductive ipdec := DBad | D4 (p : PktCls.pkt) (payload_ok : bool) | D6 (dst : N) (payload_ok : bool).
Record raw := Raw { r_len : N; r_b0 : N; r_dec : ipdec }.

Definition forward (t : table) (r : raw) : option N :=
  if r_len r =? 0 then None
  else match r_b0 r / 16, r_dec r with
       | 4, D4 p _ => if PktCls.p_frag p then None         (* fragments are ignored *)
                      else route_pkt t (V4 p)
       | 6, D6 d _ => route_pkt t (V6 d)
       | _, _ => None                                      (* other version, header does not decode *)
       end.

(** what the property asks of the forwarder: a packet with a well-formed IP header
    goes where the table says unless it is an IPv4 fragment *)
Definition spec_forward (t : table) (r : raw) : option N :=
  if r_len r =? 0 then None
  else match r_b0 r / 16, r_dec r with
       | 4, D4 p _ => if PktCls.p_frag p then None else spec_route_pkt t (V4 p)
       | 6, D6 d _ => spec_route_pkt t (V6 d)
       | _, _ => None
       end.

(** ------------------------------------------------------------------
    Routing policy. *)
Inductive action := AUnknown | AAccept | AReject | AAdvertise | ARedistribute.
Definition action_code (a : action) : N :=
  match a with AUnknown => 0 | AAccept => 1 | AReject => 2 | AAdvertise => 3 | ARedistribute => 4 end.
Definition action_eqb (a b : action) : bool := action_code a =? action_code b.

(** SingleIAMatcher, optionally wrapped in NegatedIAMatcher *)
Record iam := IAM { m_neg : bool; m_isd : N; m_as : N }.
Definition ia := (N * N)%type.

Definition single_match (m : iam) (x : ia) : bool :=
  if (m_isd m =? 0) && (m_as m =? 0) then true
  else if m_isd m =? 0 then m_as m =? snd x
  else if m_as m =? 0 then m_isd m =? fst x
  else (m_isd m =? fst x) && (m_as m =? snd x).
Definition ia_match (m : iam) (x : ia) : bool := xorb (m_neg m) (single_match m x).

Record netm := NetM { n_allowed : list prefix; n_neg : bool }.
(** NetworkMatcher.IPSet: union of the prefixes, complemented (over IPv4 and IPv6) if negated *)
Definition net_set (m : netm) (a : ipaddr) : bool :=
  xorb (n_neg m) (existsb (fun p => in_prefix p a) (n_allowed m)).

Record rule := Rule { r_action : action; r_from : iam; r_to : iam; r_net : netm;
                      r_nexthop : option ipaddr; r_comment : list N }.
Record policy := Policy { p_rules : list rule; p_default : action }.

(** one iteration of the loop in Policy.Match on the set under construction *)
Definition match_step (from to : ia) (r : rule) (s : ipaddr -> bool) : ipaddr -> bool :=
  if negb (ia_match (r_from r) from) || negb (ia_match (r_to r) to) then s
  else match r_action r with
       | AAccept => fun a => s a || net_set (r_net r) a
       | AReject => fun a => s a && negb (net_set (r_net r) a)
       | _ => s
       end.

(** Policy.Match: rules from last to first, then intersect with the prefix *)
Definition match_set (p : policy) (from to : ia) (pref : prefix) (a : ipaddr) : bool :=
  fold_right (match_step from to) (fun _ => action_eqb (p_default p) AAccept) (p_rules p) a
  && in_prefix pref a.

(** statement level: the rule matches the ISD-AS pair and the address; what it decides *)
Definition applies (r : rule) (from to : ia) (a : ipaddr) : bool :=
  ia_match (r_from r) from && ia_match (r_to r) to && net_set (r_net r) a.
Definition decides (r : rule) : option bool :=
  match r_action r with AAccept => Some true | AReject => Some false | _ => None end.

(** the specification: the first accept / reject rule that matches decides *)
Fixpoint first_decision (rules : list rule) (from to : ia) (a : ipaddr) : option bool :=
  match rules with
  | [] => None
  | r :: rs =>
    if ia_match (r_from r) from && ia_match (r_to r) to && net_set (r_net r) a then
      match r_action r with
      | AAccept => Some true
      | AReject => Some false
      | _ => first_decision rs from to a
      end
    else first_decision rs from to a
  end.
Definition spec_match (p : policy) (from to : ia) (pref : prefix) (a : ipaddr) : bool :=
  in_prefix pref a &&
  match first_decision (p_rules p) from to a with
  | Some d => d
  | None => action_eqb (p_default p) AAccept
  end.

(** AdvertiseList *)
Definition advertise_list (p : policy) (from to : ia) : list prefix :=
  flat_map (fun r =>
    if action_eqb (r_action r) AAdvertise && ia_match (r_from r) from && ia_match (r_to r) to
       && negb (n_neg (r_net r))
    then n_allowed (r_net r) else []) (p_rules p).

(** ------------------------------------------------------------------
    Text format.  ASCII only (bytes.Fields also splits at U+0085 / U+00A0). *)
Record atom := Atom { a_text : list N; a_ia : option ia; a_pfx : option prefix;
                      a_ip : option ipaddr; a_canon : bool }.
Definition atoms := list atom.
Inductive res (A : Type) := Ok (a : A) | Err.
Arguments Ok {A} a. Arguments Err {A}.

Definition lookup (tb : atoms) (w : list N) : option atom :=
  find (fun a => bytes_eqb (a_text a) w) tb.
Definition parse_ia (tb : atoms) (w : list N) : res ia :=
  match lookup tb w with Some a => match a_ia a with Some v => Ok v | None => Err end | None => Err end.
Definition parse_pfx (tb : atoms) (w : list N) : res prefix :=
  match lookup tb w with Some a => match a_pfx a with Some v => Ok v | None => Err end | None => Err end.
Definition parse_ip (tb : atoms) (w : list N) : res ipaddr :=
  match lookup tb w with Some a => match a_ip a with Some v => Ok v | None => Err end | None => Err end.

Definition ia_eqb (a b : ia) : bool := (fst a =? fst b) && (snd a =? snd b).
Definition show_ia (tb : atoms) (v : ia) : option (list N) :=
  match find (fun a => a_canon a && match a_ia a with Some x => ia_eqb x v | None => false end) tb with
  | Some a => Some (a_text a) | None => None end.
Definition show_pfx (tb : atoms) (v : prefix) : option (list N) :=
  match find (fun a => a_canon a && match a_pfx a with Some x => pfx_eqb x v | None => false end) tb with
  | Some a => Some (a_text a) | None => None end.
Definition show_ip (tb : atoms) (v : ipaddr) : option (list N) :=
  match find (fun a => a_canon a && match a_ip a with Some x => ipaddr_eqb x v | None => false end) tb with
  | Some a => Some (a_text a) | None => None end.

Definition is_space (c : N) : bool := (c =? 32) || ((9 <=? c) && (c <=? 13)).

(** bytes.Fields *)
Fixpoint fields_aux (s cur : list N) : list (list N) :=
  match s with
  | [] => match cur with [] => [] | _ => [rev cur] end
  | c :: r =>
    if is_space c then match cur with [] => fields_aux r [] | _ => rev cur :: fields_aux r [] end
    else fields_aux r (c :: cur)
  end.
Definition fields (s : list N) : list (list N) := fields_aux s [].

(** bufio.ScanLines *)
Definition drop_cr (l : list N) : list N :=
  match rev l with c :: r => if c =? 13 then rev r else l | [] => l end.
Fixpoint lines_aux (s cur : list N) : list (list N) :=
  match s with
  | [] => match cur with [] => [] | _ => [drop_cr (rev cur)] end
  | c :: r => if c =? 10 then drop_cr (rev cur) :: lines_aux r [] else lines_aux r (c :: cur)
  end.
Definition lines (s : list N) : list (list N) := lines_aux s [].

(** split at the first occurrence of [c] *)
Fixpoint split_at (c : N) (s : list N) : list N * option (list N) :=
  match s with
  | [] => ([], None)
  | x :: r => if x =? c then ([], Some r)
              else let '(a, b) := split_at c r in (x :: a, b)
  end.
(** bytes.Split(b, sep) for a one-byte separator *)
Fixpoint split_all (c : N) (s cur : list N) : list (list N) :=
  match s with
  | [] => [rev cur]
  | x :: r => if x =? c then rev cur :: split_all c r [] else split_all c r (x :: cur)
  end.

Fixpoint drop_spaces (l : list N) : list N :=
  match l with c :: r => if c =? 32 then drop_spaces r else l | [] => [] end.
Definition trim_right (l : list N) : list N := rev (drop_spaces (rev l)).
Definition trim_prefix1 (l : list N) : list N :=
  match l with c :: r => if c =? 32 then r else l | [] => [] end.

Definition res_bind {A B} (x : res A) (f : A -> res B) : res B :=
  match x with Ok a => f a | Err => Err end.

Definition parse_action (w : list N) : res action :=
  if bytes_eqb w (str "accept") then Ok AAccept
  else if bytes_eqb w (str "reject") then Ok AReject
  else if bytes_eqb w (str "advertise") then Ok AAdvertise
  else if bytes_eqb w (str "redistribute-bgp") then Ok ARedistribute
  else Err.

Definition strip_bang (w : list N) : bool * list N :=
  match w with c :: r => if c =? 33 then (true, r) else (false, w) | [] => (false, w) end.

Definition parse_iam (tb : atoms) (w : list N) : res iam :=
  let '(neg, w') := strip_bang w in
  res_bind (parse_ia tb w') (fun v => Ok (IAM neg (fst v) (snd v))).

Fixpoint parse_pfxs (tb : atoms) (ws : list (list N)) : res (list prefix) :=
  match ws with
  | [] => Ok []
  | w :: r => res_bind (parse_pfx tb w) (fun p => res_bind (parse_pfxs tb r) (fun ps => Ok (p :: ps)))
  end.
Definition parse_netm (tb : atoms) (w : list N) : res netm :=
  let '(neg, w') := strip_bang w in
  res_bind (parse_pfxs tb (split_all 44 w' [])) (fun ps => Ok (NetM ps neg)).

Definition parse_rule (tb : atoms) (line : list N) : res rule :=
  let '(b, c) := split_at 35 line in
  let comment := match c with Some x => trim_right (trim_prefix1 x) | None => [] end in
  match fields b with
  | c0 :: c1 :: c2 :: c3 :: rest =>
    res_bind (parse_action c0) (fun act =>
    res_bind (parse_iam tb c1) (fun from =>
    res_bind (parse_iam tb c2) (fun to =>
    res_bind (parse_netm tb c3) (fun net =>
    match rest with
    | [] => Ok (Rule act from to net None comment)
    | [c4] => if action_eqb act AAdvertise
              then res_bind (parse_ip tb c4) (fun ip => Ok (Rule act from to net (Some ip) comment))
              else Err
    | _ => Err
    end))))
  | _ => Err
  end.

Fixpoint parse_rules (tb : atoms) (ls : list (list N)) : res (list rule) :=
  match ls with
  | [] => Ok []
  | l :: r => res_bind (parse_rule tb l) (fun x => res_bind (parse_rules tb r) (fun xs => Ok (x :: xs)))
  end.

(** UnmarshalText: the rules (DefaultAction is left as it was) *)
Definition unmarshal (tb : atoms) (text : list N) : res (list rule) := parse_rules tb (lines text).

(** MarshalText: five tab-terminated cells and the comment per rule, laid out by
    text/tabwriter (minwidth 0, padding 4, pad char ' '): every column is as wide
    as its widest cell plus 4; then trailing spaces are removed from every line. *)
Definition action_str (a : action) : list N :=
  match a with
  | AAccept => str "accept" | AReject => str "reject" | AAdvertise => str "advertise"
  | ARedistribute => str "redistribute-bgp" | AUnknown => str "UNKNOWN (0)"
  end.

Definition opt_bind {A B} (x : option A) (f : A -> option B) : option B :=
  match x with Some a => f a | None => None end.

Definition iam_str (tb : atoms) (m : iam) : option (list N) :=
  opt_bind (show_ia tb (m_isd m, m_as m)) (fun s => Some ((if m_neg m then [33] else []) ++ s)).

Fixpoint pfxs_str (tb : atoms) (ps : list prefix) : option (list (list N)) :=
  match ps with
  | [] => Some []
  | p :: r => opt_bind (show_pfx tb p) (fun s => opt_bind (pfxs_str tb r) (fun ss => Some (s :: ss)))
  end.
Definition netm_str (tb : atoms) (m : netm) : option (list N) :=
  opt_bind (pfxs_str tb (n_allowed m)) (fun ss =>
    Some ((if n_neg m then [33] else []) ++ PktCls.join [44] ss)).

(** the cells of a rule and its trailing text *)
Definition rule_cells (tb : atoms) (r : rule) : option (list (list N) * list N) :=
  opt_bind (iam_str tb (r_from r)) (fun f =>
  opt_bind (iam_str tb (r_to r)) (fun t =>
  opt_bind (netm_str tb (r_net r)) (fun n =>
  opt_bind (match r_nexthop r with Some ip => show_ip tb ip | None => Some [] end) (fun h =>
  Some ([action_str (r_action r); f; t; n; h],
        match r_comment r with [] => [] | c => str "# " ++ c end))))).

Fixpoint all_cells (tb : atoms) (rs : list rule) : option (list (list (list N) * list N)) :=
  match rs with
  | [] => Some []
  | r :: rest => opt_bind (rule_cells tb r) (fun x => opt_bind (all_cells tb rest) (fun xs => Some (x :: xs)))
  end.

Definition col_width (rows : list (list (list N) * list N)) (j : nat) : nat :=
  fold_right (fun row w => Nat.max (length (nth j (fst row) [])) w) O rows + 4.
Definition pad (w : nat) (cell : list N) : list N := cell ++ repeat 32 (w - length cell).

Definition layout_row (rows : list (list (list N) * list N)) (row : list (list N) * list N) : list N :=
  trim_right (concat (List.map (fun j => pad (col_width rows j) (nth j (fst row) [])) (seq 0 5))
              ++ snd row) ++ [10].

Definition marshal (tb : atoms) (p : policy) : option (list N) :=
  opt_bind (all_cells tb (p_rules p)) (fun rows => Some (concat (List.map (layout_row rows) rows))).

(** what MarshalText relies on: the printed atoms are fields (no white space, '#',
    ',' and no leading '!') and the library parsers read them back *)
Definition fieldlike (s : list N) : bool :=
  match s with
  | [] => false
  | c :: _ => negb (c =? 33) &&
              forallb (fun c => negb (is_space c) && negb (c =? 35) && negb (c =? 44)) s
  end.
Definition atom_same (a b : atom) : bool :=
  option_eqb ia_eqb (a_ia a) (a_ia b) && option_eqb pfx_eqb (a_pfx a) (a_pfx b)
  && option_eqb ipaddr_eqb (a_ip a) (a_ip b).
Definition tb_ok (tb : atoms) : bool :=
  forallb (fun a => if a_canon a
                    then fieldlike (a_text a) &&
                         match lookup tb (a_text a) with Some b => atom_same a b | None => false end
                    else true) tb.

(** policies that UnmarshalText can produce *)
Definition image_rule (r : rule) : bool :=
  negb (action_eqb (r_action r) AUnknown)
  && match r_nexthop r with Some _ => action_eqb (r_action r) AAdvertise | None => true end
  && match n_allowed (r_net r) with [] => false | _ => true end
  && forallb (fun c => negb (c =? 10)) (r_comment r).

(** ------------------------------------------------------------------
    Correspondence cases. *)
Definition opt_n_eqb := option_eqb N.eqb.
Definition list_opt_n_eqb := list_eqb opt_n_eqb.
Definition bools_eqb := list_eqb Bool.eqb.

Definition iam_eqb (a b : iam) : bool :=
  Bool.eqb (m_neg a) (m_neg b) && (m_isd a =? m_isd b) && (m_as a =? m_as b).
Definition netm_eqb (a b : netm) : bool :=
  Bool.eqb (n_neg a) (n_neg b) && list_eqb pfx_eqb (n_allowed a) (n_allowed b).
(** equal but for the comment *)
Definition rule_same (a b : rule) : bool :=
  action_eqb (r_action a) (r_action b) && iam_eqb (r_from a) (r_from b) && iam_eqb (r_to a) (r_to b)
  && netm_eqb (r_net a) (r_net b) && option_eqb ipaddr_eqb (r_nexthop a) (r_nexthop b).
Definition rule_eqb (a b : rule) : bool := rule_same a b && bytes_eqb (r_comment a) (r_comment b).

Definition res_rules_eqb (a : res (list rule)) (b : option (list rule)) : bool :=
  match a, b with
  | Ok x, Some y => list_eqb rule_eqb x y
  | Err, None => true
  | _, _ => false
  end.

(** observations of the model *)
Definition route_model (chains : list chain) (ops : list op) (ps : list ippkt) : list bool * list (option N) :=
  let '(t, oks) := apply_ops (new_table chains) ops in (oks, List.map (route_pkt t) ps).
Definition fwd_model (chains : list chain) (ops : list op) (rs : list raw) : list (option N) :=
  let '(t, _) := apply_ops (new_table chains) ops in List.map (forward t) rs.

Inductive case :=
(* NewRoutingTable(chains), Set/ClearSession ops (success flags), RouteIPv4/6 per packet *)
| CRoute (chains : list chain) (ops : list op) (ps : list ippkt) (impl_ok : list bool) (impl : list (option N))
(* IPForwarder.Run over raw packets: the session that got each packet *)
| CFwd (chains : list chain) (ops : list op) (rs : list raw) (impl : list (option N))
(* Policy.Match(from, to, prefix): membership of the probe addresses in the result *)
| CMatch (p : policy) (from to : ia) (pref : prefix) (addrs : list ipaddr) (impl : list bool)
| CAdv (p : policy) (from to : ia) (impl : list prefix)
(* UnmarshalText of a text *)
| CUnm (tb : atoms) (text : list N) (impl : option (list rule))
(* MarshalText of a policy, and UnmarshalText of the result *)
| CMar (tb : atoms) (p : policy) (impl : list N) (re : option (list rule)).

Definition route_oracle (chains : list chain) (ops : list op) (ps : list ippkt) (impl : list (option N)) : bool :=
  let t := fst (apply_ops (new_table chains) ops) in
  if distinct_prefixes t then list_opt_n_eqb (List.map (spec_route_pkt t) ps) impl else true.

Definition fwd_oracle (chains : list chain) (ops : list op) (rs : list raw) (impl : list (option N)) : bool :=
  let t := fst (apply_ops (new_table chains) ops) in
  if distinct_prefixes t then list_opt_n_eqb (List.map (spec_forward t) rs) impl else true.

Definition match_oracle (p : policy) (from to : ia) (pref : prefix) (addrs : list ipaddr) (impl : list bool) : bool :=
  bools_eqb (List.map (spec_match p from to pref) addrs) impl.

(** serialising and parsing again keeps every rule but for its comment *)
Definition roundtrip_oracle (p : policy) (re : option (list rule)) : bool :=
  match re with Some rs => list_eqb rule_same (p_rules p) rs | None => false end.

Definition check (c : case) : N :=
  match c with
  | CRoute chains ops ps impl_ok impl =>
    let '(oks, out) := route_model chains ops ps in
    Check.verdict (bools_eqb oks impl_ok && list_opt_n_eqb out impl) (route_oracle chains ops ps impl)
  | CFwd chains ops rs impl =>
    Check.verdict (list_opt_n_eqb (fwd_model chains ops rs) impl) (fwd_oracle chains ops rs impl)
  | CMatch p from to pref addrs impl =>
    Check.verdict (bools_eqb (List.map (match_set p from to pref) addrs) impl)
                  (match_oracle p from to pref addrs impl)
  | CAdv p from to impl =>
    Check.verdict (list_eqb pfx_eqb (advertise_list p from to) impl) true
  | CUnm tb text impl =>
    Check.verdict (res_rules_eqb (unmarshal tb text) impl) true
  | CMar tb p impl re =>
    Check.verdict
      (tb_ok tb && forallb image_rule (p_rules p) &&
       match marshal tb p with
       | Some s => bytes_eqb s impl && res_rules_eqb (unmarshal tb s) re
       | None => false end)
      (roundtrip_oracle p re)
  end.

Definition diag (c : case) : list (option N) * list bool * option (list N) * res (list rule) :=
  match c with
  | CRoute chains ops ps _ _ => let '(oks, out) := route_model chains ops ps in (out, oks, None, Err)
  | CFwd chains ops rs _ => (fwd_model chains ops rs, [], None, Err)
  | CMatch p from to pref addrs _ => ([], List.map (match_set p from to pref) addrs, None, Err)
  | CAdv p from to _ => ([], [], None, Err)
  | CUnm tb text _ => ([], [], None, unmarshal tb text)
  | CMar tb p _ _ => ([], [], marshal tb p,
                      match marshal tb p with Some s => unmarshal tb s | None => Err end)
  end.

End GwRoute.
