(** Model of how the trust store learns TRCs (C35):
      private/trust/fetching_provider.go   FetchingProvider.NotifyTRC
      private/trust/store.go               loadTRCs (LoadTRCs)
      private/storage/trust/sqlite/db.go   SignedTRC (latest / by id), InsertTRC
    The store is the list of TRCs in insertion order (abstract TRCs of
    Model/PKIChain.v; [t_h] is the payload handle = the DB fingerprint).
    Fetching and update verification are *functions supplied as data*:
    [fetch : id -> option trc] (the scripted Fetcher) and
    [verify : pred -> fetched -> bool] (SignedTRC.Verify, C32's subject).
    Definitions only. *)
From Coq Require Import List NArith ZArith Bool.
From Scion Require Import Lib.Check Model.PKIChain.
Import ListNotations.
Import PKIChain.
Local Open Scope N_scope.

Module TrustStore.

Definition store := list trc.
Definition trcid := (N * N * N)%type.        (* isd, base, serial *)

(** InsertTRC: primary key (isd, base, serial); an identical payload is not
    inserted again (no error); another payload under the same id is a write error. *)
Inductive ins_res := Inserted | Exists | Conflict.
Definition insert_trc (s : store) (t : trc) : ins_res * store :=
  match find_trc s (t_isd t) (t_base t) (t_serial t) with
  | None => (Inserted, s ++ [t])
  | Some u => if t_h u =? t_h t then (Exists, s) else (Conflict, s)
  end.

Inductive nres := NOk | NErrNoTRC | NErrBase | NErrRec | NErrFetch | NErrVerify | NErrInsert.
Definition nres_ok (r : nres) : bool := match r with NOk => true | _ => false end.

Section Notify.
Variable verify : trc -> trc -> bool.
Variable fetch : trcid -> option trc.

(** The update loop: [n] serials remain, [cur] is the TRC the next one is
    verified against, [serial] the next serial to fetch.  Returns the result,
    the store and the serials requested from the fetcher (in order). *)
Fixpoint fetch_loop (n : nat) (s : store) (cur : trc) (isd base serial : N)
  : nres * store * list N :=
  match n with
  | O => (NOk, s, [])
  | S k =>
    match fetch (isd, base, serial) with
    | None => (NErrFetch, s, [serial])
    | Some f =>
      if negb (verify cur f) then (NErrVerify, s, [serial])
      else match insert_trc s f with
           | (Conflict, _) => (NErrInsert, s, [serial])
           | (_, s') =>
             let '(r, s'', req) := fetch_loop k s' f isd base (serial + 1) in
             (r, s'', serial :: req)
           end
    end
  end.

(** FetchingProvider.NotifyTRC *)
Definition notify_trc (rec_ok : bool) (s : store) (id : trcid) : nres * store * list N :=
  let '(isd, base, serial) := id in
  match latest_trc s isd with
  | None => (NErrNoTRC, s, [])
  | Some l =>
    if negb (t_base l =? base) then (NErrBase, s, [])
    else if serial <=? t_serial l then (NOk, s, [])
    else if negb rec_ok then (NErrRec, s, [])
    else fetch_loop (N.to_nat (serial - t_serial l)) s l isd base (t_serial l + 1)
  end.
End Notify.

(** SignedTRC.Verify for an update, as far as this property needs it: the ids
    line up and the votes/signatures were made by the voting certificates of
    the predecessor (oracle data [t_sigset] / [t_vset]). *)
Definition verify_update (pred t : trc) : bool :=
  negb (is_base t) && (t_isd t =? t_isd pred) && (t_base t =? t_base pred)
  && (t_serial t =? t_serial pred + 1)
  && negb (t_sigset t =? 0) && (t_sigset t =? t_vset pred).

(** A notification with its own fetch script. *)
Record op := mkop {
  o_isd : N; o_base : N; o_serial : N;
  o_rec : bool;
  o_script : list (trcid * trc) }.

Definition id_eqb (a b : trcid) : bool :=
  let '(i1, b1, s1) := a in let '(i2, b2, s2) := b in (i1 =? i2) && (b1 =? b2) && (s1 =? s2).
Definition script_fetch (sc : list (trcid * trc)) (id : trcid) : option trc :=
  match find (fun e => id_eqb (fst e) id) sc with Some e => Some (snd e) | None => None end.

Definition step (verify : trc -> trc -> bool) (s : store) (o : op) : nres * store * list N :=
  notify_trc verify (script_fetch (o_script o)) (o_rec o) s (o_isd o, o_base o, o_serial o).

(** stores and observations after every notification *)
Fixpoint trace (verify : trc -> trc -> bool) (s : store) (ops : list op)
  : list (bool * list N * store) :=
  match ops with
  | [] => []
  | o :: r => let '(res, s', req) := step verify s o in (nres_ok res, req, s') :: trace verify s' r
  end.

Definition run (verify : trc -> trc -> bool) (s : store) (ops : list op) : store :=
  fold_left (fun st o => snd (fst (step verify st o))) ops s.

(** ---------------------------------------------------------------- loadTRCs *)

Inductive file := FBad | FTRC (t : trc).

(** files in directory (glob) order; returns error flag, loaded and ignored
    file names, and the store *)
Fixpoint load_trcs (now : Z) (files : list (N * file)) (s : store) (loaded ignored : list N)
  : bool * list N * list N * store :=
  match files with
  | [] => (false, loaded, ignored, s)
  | (_, FBad) :: _ => (true, loaded, ignored, s)
  | (name, FTRC t) :: r =>
    if (now <? t_nb t)%Z then load_trcs now r s loaded (ignored ++ [name])
    else match insert_trc s t with
         | (Conflict, _) => (true, loaded, ignored, s)
         | (Exists, _) => load_trcs now r s loaded (ignored ++ [name])
         | (Inserted, s') => load_trcs now r s' (loaded ++ [name]) ignored
         end
  end.

(** ---------------------------------------------------------------- correspondence cases *)

Definition key (t : trc) : list N := [t_isd t; t_base t; t_serial t; t_h t].
Definition keys_eqb (a b : list N) : bool := list_eqb N.eqb a b.
Definition subset_keys (a b : list (list N)) : bool := forallb (fun x => existsb (keys_eqb x) b) a.
Definition same_store (a b : store) : bool :=
  (N.of_nat (length a) =? N.of_nat (length b))
  && subset_keys (map key a) (map key b) && subset_keys (map key b) (map key a).

Definition nlist_eqb (a b : list N) : bool := list_eqb N.eqb a b.

(** The property, evaluated on one observed step: [pre] / [post] are the
    observed stores, [ok] the observed result, [req] the serials requested. *)
Definition id_le (t u : trc) : bool :=
  (t_base t <? t_base u) || ((t_base t =? t_base u) && (t_serial t <=? t_serial u)).
Definition in_store (t : trc) (s : store) : bool := existsb (fun u => keys_eqb (key u) (key t)) s.
Definition new_of (pre post : store) : list trc := filter (fun t => negb (in_store t pre)) post.

(** [follow cur new]: the new TRCs are exactly cur+1, cur+2, ... each verified
    against the one before *)
Fixpoint follow (n : nat) (cur : trc) (new : list trc) : bool :=
  match n with
  | O => is_nil new
  | S k =>
    match new with
    | [] => true
    | _ =>
      match find (fun f => (t_isd f =? t_isd cur) && (t_base f =? t_base cur)
                           && (t_serial f =? t_serial cur + 1)) new with
      | None => false
      | Some f => verify_update cur f
                  && follow k f (filter (fun g => negb (keys_eqb (key g) (key f))) new)
      end
    end
  end.

Fixpoint consecutive (from : N) (l : list N) : bool :=
  match l with [] => true | x :: r => (x =? from) && consecutive (from + 1) r end.

Definition step_oracle (pre : store) (o : op) (ok : bool) (req : list N) (post : store) : bool :=
  (* nothing is removed *)
  forallb (fun t => in_store t post) pre
  && match latest_trc pre (o_isd o) with
     | None => same_store pre post && negb ok
     | Some l =>
       let new := new_of pre post in
       if negb (t_base l =? o_base o) then same_store pre post && negb ok       (* other base: never accepted *)
       else if o_serial o <=? t_serial l then same_store pre post && is_nil req (* stale / current: nothing to do *)
       else
         (* in order, each verified against the previously latest, nothing else *)
         follow (length new) l new
         && forallb (fun f => t_serial f <=? o_serial o) new
         (* requests are latest+1, latest+2, ...; stop at the first failure *)
         && consecutive (t_serial l + 1) req
         && (if ok then (N.of_nat (length new) =? o_serial o - t_serial l)
                        && (N.of_nat (length req) =? o_serial o - t_serial l)
             else (is_nil req && is_nil new) || (N.of_nat (length req) =? N.of_nat (length new) + 1))
         (* the latest never regresses *)
         && match latest_trc post (o_isd o) with Some l' => id_le l l' | None => false end
     end.

Fixpoint hist_oracle (pre : store) (ops : list op) (obs : list (bool * list N * store)) : bool :=
  match ops, obs with
  | [], [] => true
  | o :: r, (ok, req, post) :: r' => step_oracle pre o ok req post && hist_oracle post r r'
  | _, _ => false
  end.

Definition obs_eqb (a b : bool * list N * store) : bool :=
  let '(ok1, req1, s1) := a in let '(ok2, req2, s2) := b in
  Bool.eqb ok1 ok2 && nlist_eqb req1 req2 && same_store s1 s2.

(** what a "latest" lookup (SignedTRC with the wildcard id) must return for a
    store: nothing if the ISD has no TRC, otherwise a stored TRC of the ISD that
    no stored TRC of the ISD exceeds in (base, serial) *)
Definition latest_key (s : store) (isd : N) : list N :=
  match latest_trc s isd with Some l => key l | None => [] end.
Definition latest_oracle (s : store) (isd : N) (k : list N) : bool :=
  match k with
  | [] => forallb (fun t => negb (t_isd t =? isd)) s
  | _ => existsb (fun l => keys_eqb (key l) k && (t_isd l =? isd)
                           && forallb (fun t => negb (t_isd t =? isd) || id_le t l) s) s
  end.

(** the property for LoadTRCs: nothing whose validity starts in the future gets
    in, nothing is removed, and the latest TRC afterwards is the greatest stored one (no regression,
    whatever the order of the files) *)
Definition load_oracle (now : Z) (pre post : store) (latest : list N) : bool :=
  forallb (fun t => in_store t pre || (t_nb t <=? now)%Z) post
  && forallb (fun t => in_store t post) pre          (* nothing stored before is lost *)
  && latest_oracle post 1 latest.

Inductive case :=
| CHist (init : store) (ops : list op) (impl : list (bool * list N * store))
| CLoad (now : Z) (init : store) (files : list (N * file))
        (impl_err : bool) (impl_loaded impl_ignored : list N) (impl_store : store)
        (impl_latest : list N).      (* key of SignedTRC(ISD 1, latest) afterwards, [] = none *)

Definition set_eqb (a b : list N) : bool :=
  (N.of_nat (length a) =? N.of_nat (length b)) && forallb (fun x => mem x b) a && forallb (fun x => mem x a) b.

Definition check (c : case) : N :=
  match c with
  | CHist init ops impl =>
    Check.verdict (list_eqb obs_eqb (trace verify_update init ops) impl) (hist_oracle init ops impl)
  | CLoad now init files e l i st lk =>
    let '(e', l', i', st') := load_trcs now files init [] [] in
    Check.verdict (Bool.eqb e e' && set_eqb l l' && set_eqb i i' && same_store st st'
                   && keys_eqb lk (latest_key st' 1))
                  (load_oracle now init st lk)
  end.

Definition diag (c : case) : list (N * list N * list (list N)) :=
  match c with
  | CHist init ops _ =>
    map (fun x : bool * list N * store => let '(ok, req, s) := x in ((if ok then 1 else 0), req, map key s))
        (trace verify_update init ops)
  | CLoad now init files _ _ _ _ _ =>
    let '(e', l', i', st') := load_trcs now files init [] [] in
    [((if e' then 1 else 0), l', [i']); (0, latest_key st' 1, map key st')]
  end.

End TrustStore.
