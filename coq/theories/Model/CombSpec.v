(** Declarative specification of path combination (C29, and the converse used by
    C28): which interface sequences are obtainable from sets of up, core and
    down segments.  Written without any reference to the combinator's graph:

      - an up segment is walked from its last AS entry (the source AS) towards
        its first one and may be left at any AS on it;
      - a core segment is walked completely, from its last entry to its first;
      - a down segment may be entered at any AS on it and is walked to its last
        entry (the destination AS);
      - at most one up, one core, one down piece, in that order, consecutive
        pieces meeting in the same AS;
      - or an up piece and a down piece meeting across a peering link that both
        AS entries announce (matching ISD-AS and interface on either side).

    Where a segment is left/entered inside (a cut), the AS entry at the cut
    contributes only the interface towards the walked part.

    Definitions only; the equivalence of the relation and the enumerator and
    the link to the combinator model are in Proofs/CombSpec.v, Proofs/Combinator*.v. *)
From Coq Require Import List NArith Bool Arith.
From Scion Require Import Lib.Check Model.Segment.
Import ListNotations.
Local Open Scope N_scope.

Module CombSpec.
Import Segment.

(** (ISD-AS, interface id) *)
Definition iface := (N * N)%type.
Definition iface_eqb (a b : iface) : bool := (fst a =? fst b) && (snd a =? snd b).
Definition ifs_eqb : list iface -> list iface -> bool := list_eqb iface_eqb.

(** interface 0 = "none" is never listed *)
Definition nz (ia x : N) : list iface := if x =? 0 then [] else [(ia, x)].

(** interfaces of a hop field of AS [ia] crossed in construction direction / against it *)
Definition hop_fwd (ia : N) (h : hopf) : list iface := nz ia (h_in h) ++ nz ia (h_eg h).
Definition hop_bwd (ia : N) (h : hopf) : list iface := nz ia (h_eg h) ++ nz ia (h_in h).
Definition entry_fwd (a : as_entry) : list iface := hop_fwd (ae_ia a) (ae_hop a).
Definition entry_bwd (a : as_entry) : list iface := hop_bwd (ae_ia a) (ae_hop a).

(** the entries after index [i], walked towards the end / from the end *)
Definition walk_fwd (i : nat) (es : list as_entry) : list iface := flat_map entry_fwd (skipn (S i) es).
Definition walk_bwd (i : nat) (es : list as_entry) : list iface := flat_map entry_bwd (rev (skipn (S i) es)).

(** A piece joins two ASes. *)
Record piece := mkPiece { pc_from : N; pc_to : N; pc_ifs : list iface }.

(** A peering link: the AS on the up-segment side with its interface, the AS on
    the down-segment side with its interface. *)
Definition plink := (N * N * N * N)%type.
Definition plink_eqb (a b : plink) : bool :=
  match a, b with (a1, a2, a3, a4), (b1, b2, b3, b4) => (a1 =? b1) && (a2 =? b2) && (a3 =? b3) && (a4 =? b4) end.

(** Half a peering combination. *)
Record half := mkHalf { hf_end : N; hf_link : plink; hf_ifs : list iface }.


(** up segment [u] left at entry [i] (not the last entry: that is the source itself) *)
Inductive up_piece (u : segment) : piece -> Prop :=
| UpPiece i c :
    nth_error (sg_entries u) i = Some c -> (S i < length (sg_entries u))%nat ->
    up_piece u (mkPiece (last_ia u) (ae_ia c)
                        (walk_bwd i (sg_entries u) ++ nz (ae_ia c) (h_eg (ae_hop c)))).

(** core segment, walked completely from its last to its first entry *)
Inductive core_piece (c : segment) : piece -> Prop :=
| CorePiece : sg_entries c <> [] ->
    core_piece c (mkPiece (last_ia c) (first_ia c) (flat_map entry_bwd (rev (sg_entries c)))).

(** down segment [d] entered at entry [j] (not the last entry) *)
Inductive down_piece (d : segment) : piece -> Prop :=
| DownPiece j c :
    nth_error (sg_entries d) j = Some c -> (S j < length (sg_entries d))%nat ->
    down_piece d (mkPiece (ae_ia c) (last_ia d)
                          (nz (ae_ia c) (h_eg (ae_hop c)) ++ walk_fwd j (sg_entries d))).

(** up segment left over the peering link announced by peer entry [k] of entry [i] *)
Inductive up_half (u : segment) : half -> Prop :=
| UpHalf i c k p :
    nth_error (sg_entries u) i = Some c -> nth_error (ae_peers c) k = Some p ->
    up_half u (mkHalf (last_ia u) (ae_ia c, h_in (pe_hop p), pe_ia p, pe_if p)
                      (walk_bwd i (sg_entries u) ++ hop_bwd (ae_ia c) (pe_hop p))).

(** down segment entered over the peering link announced by peer entry [k] of entry [j] *)
Inductive down_half (d : segment) : half -> Prop :=
| DownHalf j c k p :
    nth_error (sg_entries d) j = Some c -> nth_error (ae_peers c) k = Some p ->
    down_half d (mkHalf (last_ia d) (pe_ia p, pe_if p, ae_ia c, h_in (pe_hop p))
                        (hop_fwd (ae_ia c) (pe_hop p) ++ walk_fwd j (sg_entries d))).


(** [valid_combination ups cores downs src dst ifs]: [ifs] is an interface
    sequence from [src] to [dst] obtainable from the segments. *)
Inductive valid_combination (ups cores downs : list segment) (src dst : N) : list iface -> Prop :=
| VC_up u p : In u ups -> up_piece u p -> pc_from p = src -> pc_to p = dst ->
    valid_combination ups cores downs src dst (pc_ifs p)
| VC_core c p : In c cores -> core_piece c p -> pc_from p = src -> pc_to p = dst ->
    valid_combination ups cores downs src dst (pc_ifs p)
| VC_down d p : In d downs -> down_piece d p -> pc_from p = src -> pc_to p = dst ->
    valid_combination ups cores downs src dst (pc_ifs p)
| VC_up_core u p c q : In u ups -> up_piece u p -> In c cores -> core_piece c q ->
    pc_from p = src -> pc_to p = pc_from q -> pc_to q = dst ->
    valid_combination ups cores downs src dst (pc_ifs p ++ pc_ifs q)
| VC_up_down u p d q : In u ups -> up_piece u p -> In d downs -> down_piece d q ->
    pc_from p = src -> pc_to p = pc_from q -> pc_to q = dst ->
    valid_combination ups cores downs src dst (pc_ifs p ++ pc_ifs q)
| VC_core_down c p d q : In c cores -> core_piece c p -> In d downs -> down_piece d q ->
    pc_from p = src -> pc_to p = pc_from q -> pc_to q = dst ->
    valid_combination ups cores downs src dst (pc_ifs p ++ pc_ifs q)
| VC_up_core_down u p c q d r :
    In u ups -> up_piece u p -> In c cores -> core_piece c q -> In d downs -> down_piece d r ->
    pc_from p = src -> pc_to p = pc_from q -> pc_to q = pc_from r -> pc_to r = dst ->
    valid_combination ups cores downs src dst (pc_ifs p ++ pc_ifs q ++ pc_ifs r)
| VC_peering u x d y : In u ups -> up_half u x -> In d downs -> down_half d y ->
    hf_end x = src -> hf_link x = hf_link y -> hf_end y = dst ->
    valid_combination ups cores downs src dst (hf_ifs x ++ hf_ifs y).

(** ---- the boolean enumerator ---- *)
Definition enum {A} (l : list A) : list (nat * A) := combine (seq 0 (length l)) l.

Definition up_pieces (u : segment) : list piece :=
  let es := sg_entries u in
  flat_map (fun ic => let '(i, c) := ic in
    if (S i <? length es)%nat
    then [mkPiece (last_ia u) (ae_ia c) (walk_bwd i es ++ nz (ae_ia c) (h_eg (ae_hop c)))]
    else []) (enum es).

Definition core_pieces (c : segment) : list piece :=
  match sg_entries c with
  | [] => []
  | _ => [mkPiece (last_ia c) (first_ia c) (flat_map entry_bwd (rev (sg_entries c)))]
  end.

Definition down_pieces (d : segment) : list piece :=
  let es := sg_entries d in
  flat_map (fun jc => let '(j, c) := jc in
    if (S j <? length es)%nat
    then [mkPiece (ae_ia c) (last_ia d) (nz (ae_ia c) (h_eg (ae_hop c)) ++ walk_fwd j es)]
    else []) (enum es).

Definition up_halves (u : segment) : list half :=
  let es := sg_entries u in
  flat_map (fun ic => let '(i, c) := ic in
    map (fun p => mkHalf (last_ia u) (ae_ia c, h_in (pe_hop p), pe_ia p, pe_if p)
                         (walk_bwd i es ++ hop_bwd (ae_ia c) (pe_hop p))) (ae_peers c)) (enum es).

Definition down_halves (d : segment) : list half :=
  let es := sg_entries d in
  flat_map (fun jc => let '(j, c) := jc in
    map (fun p => mkHalf (last_ia d) (pe_ia p, pe_if p, ae_ia c, h_in (pe_hop p))
                         (hop_fwd (ae_ia c) (pe_hop p) ++ walk_fwd j es)) (ae_peers c)) (enum es).

Definition all_combinations (ups cores downs : list segment) (src dst : N) : list (list iface) :=
  let U := filter (fun p => pc_from p =? src) (flat_map up_pieces ups) in
  let C := flat_map core_pieces cores in
  let D := filter (fun p => pc_to p =? dst) (flat_map down_pieces downs) in
  let UH := filter (fun x => hf_end x =? src) (flat_map up_halves ups) in
  let DH := filter (fun y => hf_end y =? dst) (flat_map down_halves downs) in
  map pc_ifs (filter (fun p => pc_to p =? dst) U) ++
  map pc_ifs (filter (fun p => (pc_from p =? src) && (pc_to p =? dst)) C) ++
  map pc_ifs (filter (fun p => pc_from p =? src) D) ++
  flat_map (fun p => map (fun q => pc_ifs p ++ pc_ifs q)
     (filter (fun q => (pc_to p =? pc_from q) && (pc_to q =? dst)) C)) U ++
  flat_map (fun p => map (fun q => pc_ifs p ++ pc_ifs q)
     (filter (fun q => pc_to p =? pc_from q) D)) U ++
  flat_map (fun p => map (fun q => pc_ifs p ++ pc_ifs q)
     (filter (fun q => pc_to p =? pc_from q) D)) (filter (fun p => pc_from p =? src) C) ++
  flat_map (fun p => flat_map (fun q => map (fun r => pc_ifs p ++ pc_ifs q ++ pc_ifs r)
     (filter (fun r => pc_to q =? pc_from r) D))
     (filter (fun q => pc_to p =? pc_from q) C)) U ++
  flat_map (fun x => map (fun y => hf_ifs x ++ hf_ifs y)
     (filter (fun y => plink_eqb (hf_link x) (hf_link y)) DH)) UH.

(** "passes no AS more than twice": no ISD-AS owns more than two of the listed interfaces *)
Definition count_ia (ia : N) (ifs : list iface) : nat :=
  length (filter (fun x => fst x =? ia) ifs).
Definition no_as_thrice (ifs : list iface) : Prop := forall ia, (count_ia ia ifs <= 2)%nat.

(** ---- well-formedness of segments, as produced by beaconing ----
    [validate] (seg.Validate) plus: no wildcard ISD-AS, no AS twice in one
    segment, links between consecutive entries have non-zero interfaces on both
    ends, the peer entries of one AS entry announce different links over a
    non-zero local interface, a core segment has at least two entries. *)
Fixpoint nodupb {A} (eqb : A -> A -> bool) (l : list A) : bool :=
  match l with
  | [] => true
  | x :: t => negb (existsb (eqb x) t) && nodupb eqb t
  end.

Definition peer_key (p : peer_entry) : N * N * N := (h_in (pe_hop p), pe_ia p, pe_if p).
Definition peer_key_eqb (a b : N * N * N) : bool :=
  match a, b with (a1, a2, a3), (b1, b2, b3) => (a1 =? b1) && (a2 =? b2) && (a3 =? b3) end.

(** every entry but the first has an ingress interface, every entry but the last an egress one *)
Fixpoint inner_ifs_ok (first : bool) (es : list as_entry) : bool :=
  match es with
  | [] => true
  | a :: t =>
    (first || negb (h_in (ae_hop a) =? 0)) &&
    (match t with [] => true | _ => negb (h_eg (ae_hop a) =? 0) end) &&
    inner_ifs_ok false t
  end.

Definition wf_segment (s : segment) : bool :=
  validate s &&
  forallb (fun a => negb (ae_ia a =? 0)) (sg_entries s) &&
  nodupb N.eqb (map ae_ia (sg_entries s)) &&
  inner_ifs_ok true (sg_entries s) &&
  forallb (fun a => nodupb peer_key_eqb (map peer_key (ae_peers a))) (sg_entries s) &&
  forallb (fun a => forallb (fun p => negb (h_in (pe_hop p) =? 0)) (ae_peers a)) (sg_entries s).

Definition wf_core (s : segment) : bool := wf_segment s && (2 <=? length (sg_entries s))%nat.

Definition wf_input (ups cores downs : list segment) : bool :=
  forallb wf_segment ups && forallb wf_core cores && forallb wf_segment downs.

(** what the converse direction needs: validated segments without wildcard ISD-AS *)
Definition valid_segment (s : segment) : bool :=
  validate s && forallb (fun a => negb (ae_ia a =? 0)) (sg_entries s).
Definition valid_input (ups cores downs : list segment) : bool :=
  forallb valid_segment ups && forallb valid_segment cores && forallb valid_segment downs.

(** ---- the interfaces a rendered path segment traverses (data-plane view) ----
    A hop field of AS [ia] in a segment with construction-direction flag [cd] is
    entered through [enter] and left through [leave].  Inside a segment both are
    crossed.  The first hop of a segment is entered, and the last one left, over
    an inter-AS link only if that end is a peering hop (flag [peer]; the peering
    hop is the first hop of a segment in construction direction and the last hop
    of one against it); otherwise the path starts / ends / changes segment inside
    that AS. *)
Definition enter (cd : bool) (h : hopf) : N := if cd then h_in h else h_eg h.
Definition leave (cd : bool) (h : hopf) : N := if cd then h_eg h else h_in h.
Definition hop_ifs (cd keep_enter keep_leave : bool) (x : N * hopf) : list iface :=
  (if keep_enter then nz (fst x) (enter cd (snd x)) else []) ++
  (if keep_leave then nz (fst x) (leave cd (snd x)) else []).
Definition traversed (cd peer : bool) (hops : list (N * hopf)) : list iface :=
  match hops with
  | [] => []
  | [x] => hop_ifs cd (peer && cd) (peer && negb cd) x
  | x :: t => hop_ifs cd (peer && cd) true x ++
              flat_map (hop_ifs cd true true) (removelast t) ++
              hop_ifs cd true (peer && negb cd) (last t x)
  end.

End CombSpec.
