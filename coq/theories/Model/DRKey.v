(** Model of DRKey derivation (pkg/drkey, pkg/drkey/specific, pkg/drkey/generic),
    of the control service's derivations (control/drkey/service_engine.go,
    secret_value_mgr.go) and of the acceptance-window key selection
    (private/drkey/drkeyutil/provider.go, pkg/spao/timestamp.go).

    The PRF (AES-CBC-MAC in Go) and the secret-value KDF (PBKDF2) are Section
    variables.  For execution the harness supplies their values as lookup
    tables; a lookup miss yields the empty key [[]] (real keys have 16 bytes),
    which [check] reports as a broken correspondence, never as agreement. *)
From Coq Require Import List NArith ZArith Bool.
From Scion Require Import Lib.Check Lib.Bytes.
Import ListNotations.
Local Open Scope N_scope.

Module DRKey.

Definition key := list N.

(** byte strings in generated cases are written as (length, big-endian number) *)
Definition B (len : nat) (n : N) : bytes := be len n.

(** ** hosts: result of addr.ParseHost *)
Inductive host :=
| HIP (b : list N)      (* netip.Addr as bytes: 4 (IPv4) or 16 (IPv6, possibly IPv4-in-IPv6) *)
| HSVC (svc : N)        (* service address, uint16 *)
| HBad.                 (* ParseHost failed *)

Definition v4in6_prefix : list N := [0;0;0;0;0;0;0;0;0;0;255;255].

(** address type nibbles of the SCION common header *)
Definition T4Ip : N := 0.
Definition T4Svc : N := 4.
Definition T16Ip : N := 3.

(** slayers.PackAddr: (type, raw address); IPv4-in-IPv6 is unmapped *)
Definition pack_addr (h : host) : option (N * bytes) :=
  match h with
  | HIP b =>
    if Nat.eqb (length b) 4 then Some (T4Ip, b)
    else if Nat.eqb (length b) 16 then
      (if bytes_eqb (firstn 12 b) v4in6_prefix then Some (T4Ip, skipn 12 b) else Some (T16Ip, b))
    else None
  | HSVC s => Some (T4Svc, be 2 s ++ [0; 0])
  | HBad => None
  end.

(** length of the address field as the type nibble encodes it: (L+1)*4 *)
Definition addr_len (t : N) : nat := N.to_nat ((N.land t 3 + 1) * 4).

(** ** derivation inputs *)

Definition kt_as_as : N := 0.
Definition kt_as_host : N := 1.
Definition kt_host_as : N := 2.
Definition kt_host_host : N := 3.

Definition zeros (n : nat) : bytes := repeat 0 n.

(** 16 * ((n-1)/16 + 1): the input is padded with zeros to whole AES blocks *)
Definition input_len (n : nat) : nat := 16 * ((n - 1) / 16 + 1).
Definition pad (l : bytes) : bytes := l ++ zeros (input_len (length l) - length l).

(** specific.serializeLevel1Input *)
Definition lvl1_input (dstIA : N) : bytes := [kt_as_as] ++ be 8 dstIA ++ zeros 7.

(** specific.Deriver.serializeLevel2Input *)
Definition spec_lvl2_input (kt : N) (h : host) : option bytes :=
  match pack_addr h with
  | Some (t, raw) => Some (pad ([kt; N.land t 15] ++ raw))
  | None => None
  end.

(** generic.Deriver.serializeLevel2Input *)
Definition gen_lvl2_input (kt proto : N) (h : host) : option bytes :=
  match pack_addr h with
  | Some (t, raw) => Some (pad ([kt] ++ be 2 proto ++ [N.land t 15] ++ raw))
  | None => None
  end.

(** drkey.SerializeHostHostInput (both derivers) *)
Definition hh_input (h : host) : option bytes :=
  match pack_addr h with
  | Some (t, raw) => Some (pad ([kt_host_host; N.land t 15] ++ raw))
  | None => None
  end.

(** ** protocols *)
Definition generic : N := 0.
Definition is_predefined (p : N) : bool := (p =? 0) || (p =? 1).

(** protocol whose secret value / level-1 key a level 2/3 key of [p] hangs under *)
Definition lvl1_proto (p : N) : N := if is_predefined p then p else generic.

(** the derivation the key service (and the documentation) picks for protocol [p] *)
Definition lvl2_input (kt p : N) (h : host) : option bytes :=
  if is_predefined p then spec_lvl2_input kt h else gen_lvl2_input kt p h.

(** ** epochs of secret values (secretValueBackend.getSecretValue) *)
Definition epoch := (N * N)%type.   (* begin, end: uint32 seconds *)

Definition u32 (z : Z) : N := Z.to_N (z mod 2 ^ 32)%Z.

(** [d]: key duration in whole seconds (> 0; Go divides by it), [t]: Unix time of the request *)
Definition sv_epoch (d t : Z) : epoch :=
  let idx := Z.quot t d in
  let b := u32 (idx * d)%Z in
  (b, u32 (Z.of_N b + d mod 2 ^ 32)%Z).

(** ** secret values (drkey.DeriveSV): the KDF (PBKDF2-HMAC-SHA256, salt "Derive DRKey Key",
    1000 iterations, 16 bytes) is applied to
      len(secret) as uint64 || secret || protocol as uint16 || epoch begin, end as uint32 *)
Definition sv_input (ms : bytes) (p : N) (e : epoch) : bytes :=
  be 8 (N.of_nat (length ms)) ++ ms ++ be 2 p ++ be 4 (fst e) ++ be 4 (snd e).

(** DeriveSV refuses an empty secret *)
Definition derive_sv (kdf : bytes -> key) (ms : bytes) (p : N) (e : epoch) : option key :=
  match ms with [] => None | _ => Some (kdf (sv_input ms p e)) end.

(** the secret values of a world in which AS [ia] has master secret [ms ia] *)
Definition sv_of (kdf : bytes -> key) (ms : N -> bytes) (ia p : N) (e : epoch) : key :=
  kdf (sv_input (ms ia) p e).

Inductive res := ROk (k : key) (e : epoch) | RErr.

Section Derivation.
  Variable prf : key -> bytes -> key.               (* drkey.DeriveKey: AES-CBC-MAC *)
  Variable sv : N -> N -> epoch -> key.             (* DeriveSV(proto, epoch, master secret of AS ia) *)
  Variable dur : N -> option Z.                     (* key duration of the CS of AS ia; None: no such AS *)

  (** *** the control service *)

  (** ServiceEngine.DeriveLevel1 at AS [loc]: own secret value, level-1 input = dst *)
  Definition own_lvl1 (loc p : N) (t : Z) (dst : N) : res :=
    match dur loc with
    | Some d => let e := sv_epoch d t in ROk (prf (sv loc p e) (lvl1_input dst)) e
    | None => RErr
    end.

  (** grpc Server.DRKeyLevel1 of AS [src] for a client authenticated as [cert]:
      predefined protocols only, key for src -> cert *)
  Definition remote_lvl1 (src p : N) (t : Z) (cert : N) : res :=
    if is_predefined p then own_lvl1 src p t cert else RErr.

  (** ServiceEngine.getLevel1Key at AS [loc] (level-1 DB = cache of the fetcher) *)
  Definition engine_get_lvl1 (loc p : N) (t : Z) (src dst : N) : res :=
    if src =? loc then own_lvl1 loc p t dst
    else if negb (dst =? loc) then RErr
    else remote_lvl1 src p t loc.

  (** ServiceEngine.obtainLevel1Key *)
  Definition obtain_lvl1 (loc p : N) (t : Z) (src dst : N) : res :=
    engine_get_lvl1 loc (lvl1_proto p) t src dst.

  Definition engine_as_host (loc p : N) (t : Z) (src dst : N) (dstHost : host) : res :=
    match obtain_lvl1 loc p t src dst with
    | ROk k1 e =>
      match lvl2_input kt_as_host p dstHost with
      | Some i => ROk (prf k1 i) e
      | None => RErr
      end
    | RErr => RErr
    end.

  Definition engine_host_as (loc p : N) (t : Z) (src dst : N) (srcHost : host) : res :=
    match obtain_lvl1 loc p t src dst with
    | ROk k1 e =>
      match lvl2_input kt_host_as p srcHost with
      | Some i => ROk (prf k1 i) e
      | None => RErr
      end
    | RErr => RErr
    end.

  Definition engine_host_host (loc p : N) (t : Z) (src dst : N) (srcHost dstHost : host) : res :=
    match engine_host_as loc p t src dst srcHost with
    | ROk k2 e =>
      match hh_input dstHost with
      | Some i => ROk (prf k2 i) e
      | None => RErr
      end
    | RErr => RErr
    end.

  (** *** a host deriving by itself, as documented (doc/cryptography/drkey.rst):
      from the secret value (hosts of the source AS) or from a level-1 key *)

  (** K_{A->B} = PRF_{SV_A}(type || B) *)
  Definition host_lvl1 (s : key) (dst : N) : key := prf s (lvl1_input dst).

  (** protocol-specific: PRF_{K_{A->B}^p}(type || len/type(H) || H);
      generic: PRF_{K_{A->B}}(type || protocol || len/type(H) || H) *)
  Definition host_lvl2 (kt p : N) (k1 : key) (h : host) : option key :=
    if is_predefined p
    then option_map (prf k1) (spec_lvl2_input kt h)
    else option_map (prf k1) (gen_lvl2_input kt p h).

  (** K_{A:Ha->B:Hb} = PRF_{K_{A:Ha->B}}(type || len/type(Hb) || Hb) *)
  Definition host_host_host (k2 : key) (dstHost : host) : option key :=
    option_map (prf k2) (hh_input dstHost).

  (** the keys for (p, src -> dst, hosts): the level-1 key of protocol [p] from the
      secret value [sP] of [p]; the level 2/3 keys from the secret value [sL] of
      [lvl1_proto p] *)
  Definition host_keys (sP sL : key) (p dst : N) (srcHost dstHost : host) : list (option key) :=
    let k1 := host_lvl1 sL dst in
    let has := host_lvl2 kt_host_as p k1 srcHost in
    [ Some (host_lvl1 sP dst);
      host_lvl2 kt_as_host p k1 dstHost;
      has;
      match has with Some k2 => host_host_host k2 dstHost | None => None end ].

  (** what the engine at [loc] serves: GetLevel1Key (protocol as requested),
      DeriveASHost, DeriveHostAS, DeriveHostHost *)
  Definition engine_keys (loc p : N) (t : Z) (src dst : N) (srcHost dstHost : host) : list res :=
    [ engine_get_lvl1 loc p t src dst;
      engine_as_host loc p t src dst dstHost;
      engine_host_as loc p t src dst srcHost;
      engine_host_host loc p t src dst srcHost dstHost ].

  (** the host-side keys of the epoch the source AS uses at time [t] *)
  Definition host_keys_at (p : N) (t : Z) (src dst : N) (srcHost dstHost : host) : list (option key) :=
    match dur src with
    | Some d => let e := sv_epoch d t in
                host_keys (sv src p e) (sv src (lvl1_proto p) e) p dst srcHost dstHost
    | None => [None; None; None; None]
    end.
End Derivation.

(** ** timestamps and the acceptance window *)

Definition sec : Z := 1000000000.
Definition grace_ns : Z := (5 * sec)%Z.

(** time.Duration(uint64): two's complement *)
Definition i64_of_u64 (n : N) : Z :=
  let z := (Z.of_N n mod 2 ^ 64)%Z in if (z <? 2 ^ 63)%Z then z else (z - 2 ^ 64)%Z.

(** spao.AbsoluteTimestamp; times are Unix nanoseconds *)
Definition abs_time (nb : Z) (ts : N) : Z := (nb + i64_of_u64 ts)%Z.

(** spao.RelativeTimestamp *)
Definition rel_time (nb t : Z) : option N :=
  let r := (t - nb)%Z in
  if (r >=? 2 ^ 48)%Z then None else Some (Z.to_N (r mod 2 ^ 64)%Z).

(** drkeyutil.newEpoch, in nanoseconds *)
Definition new_epoch (idx d : Z) : Z * Z :=
  let b := Z.of_N (u32 (idx * d)%Z) in
  (b * sec, Z.of_N (u32 (b + d mod 2 ^ 32)%Z) * sec)%Z.

Definition contains (nb na t : Z) : bool := (nb <=? t)%Z && (t <=? na)%Z.
Definition within_grace (e : Z * Z) (t : Z) : bool := contains (fst e) (snd e + grace_ns)%Z t.

Inductive wres :=
| WKey (nb na : Z)      (* epoch of the selected key, Unix nanoseconds *)
| WNone                 (* no absolute time falls into the acceptance window *)
| WPanic.               (* epoch duration below one second: integer division by zero *)

(** FakeProvider.GetKeyWithinAcceptanceWindow(t, timestamp) *)
Definition get_key_within_window (epoch_dur aw t : Z) (ts : N) : wres :=
  let d := Z.quot epoch_dur sec in
  if (d =? 0)%Z then WPanic else
  let idx := Z.quot (t / sec)%Z d in
  let prev := new_epoch (idx - 1)%Z d in
  let cur := new_epoch idx d in
  let next := new_epoch (idx + 1)%Z d in
  let half := Z.quot aw 2 in
  let lo := (t - half)%Z in
  let hi := (t + half)%Z in
  let ok e := let a := abs_time (fst e) ts in contains lo hi a && within_grace e a in
  if ok cur then WKey (fst cur) (snd cur)
  else if ok prev then WKey (fst prev) (snd prev)
  else if ok next then WKey (fst next) (snd next)
  else WNone.

(** what C39 demands of a selected key *)
Definition window_ok (aw t : Z) (ts : N) (r : wres) : bool :=
  match r with
  | WKey nb na =>
    let a := abs_time nb ts in
    let half := Z.quot aw 2 in
    contains (t - half)%Z (t + half)%Z a && contains nb (na + grace_ns)%Z a
  | _ => true
  end.

(** ** execution: lookup tables for the two abstract functions *)

Definition prf_table := list ((key * bytes) * key).
Definition sv_table := list ((N * N * (N * N)) * key).

Definition prf_tab (tab : prf_table) (k : key) (i : bytes) : key :=
  match find (fun e => bytes_eqb (fst (fst e)) k && bytes_eqb (snd (fst e)) i) tab with
  | Some e => snd e
  | None => []
  end.

Definition sv_tab (tab : sv_table) (ia p : N) (e : epoch) : key :=
  match find (fun x => let '(ia', p', (b', e')) := fst x in
                       (ia' =? ia) && (p' =? p) && (b' =? fst e) && (e' =? snd e)) tab with
  | Some x => snd x
  | None => []
  end.

Definition dur_tab (l : list (N * Z)) (ia : N) : option Z :=
  match find (fun x => fst x =? ia) l with Some x => Some (snd x) | None => None end.

(** observation of one key: key bytes and epoch *)
Definition obs := option (key * (N * N)).

Definition obs_of (r : res) : obs :=
  match r with ROk k e => Some (k, e) | RErr => None end.

Definition miss_res (r : res) : bool :=
  match r with ROk [] _ => true | _ => false end.
Definition miss_key (k : option key) : bool :=
  match k with Some [] => true | _ => false end.

Definition epoch_eqb (a b : N * N) : bool := (fst a =? fst b) && (snd a =? snd b).
Definition obs_eqb (a b : obs) : bool :=
  option_eqb (fun x y => bytes_eqb (fst x) (fst y) && epoch_eqb (snd x) (snd y)) a b.

(** the served key equals the one the host derives; its epoch contains [t]
    (checked where uint32 arithmetic does not wrap) *)
Definition served_ok (d : option Z) (t : Z) (o : obs) (h : option key) : bool :=
  match o with
  | None => true
  | Some (k, (b, e)) =>
    match h with
    | Some k' => bytes_eqb k k'
    | None => false
    end &&
    match d with
    | Some d => if (0 <=? t)%Z && (0 <? d)%Z && (t + d <? 2 ^ 32)%Z
                then (Z.of_N b <=? t)%Z && (t <? Z.of_N e)%Z && (Z.of_N e - Z.of_N b =? d)%Z
                else true
    | None => false
    end
  end.

Fixpoint all2 {A B} (f : A -> B -> bool) (l1 : list A) (l2 : list B) : bool :=
  match l1, l2 with
  | [], [] => true
  | x :: t1, y :: t2 => f x y && all2 f t1 t2
  | _, _ => false
  end.

Definition wres_eqb (a b : wres) : bool :=
  match a, b with
  | WKey x y, WKey x' y' => (x =? x')%Z && (y =? y')%Z
  | WNone, WNone | WPanic, WPanic => true
  | _, _ => false
  end.

Inductive case :=
| CConsts (kts : list N) (grace : Z) (types : list N)
| CInput (fmt kt proto ia : N) (h : host) (impl : option bytes)
    (* fmt 0: level 1 (ia), 1: specific level 2, 2: generic level 2, 3: host-host *)
| CDerive (durs : list (N * Z)) (svs : sv_table) (prfs : prf_table)
          (loc proto : N) (t : Z) (src dst : N) (srcHost dstHost : host)
          (impl_engine : list obs) (impl_host : list (option key))
| CPair (prfs : prf_table) (fmt kt proto : N) (parent : key) (h1 h2 : host)
        (impl1 impl2 : option key)
    (* two hosts, same parent key / key type / protocol, keys from the real derivers *)
| CSV (kdfs : list (bytes * key)) (ms : bytes) (p1 : N) (e1 : epoch) (p2 : N) (e2 : epoch)
      (impl1 impl2 : option key)
    (* drkey.DeriveSV for one master secret and two (protocol, epoch) pairs; [kdfs] is an
       independent PBKDF2 over the documented input layout *)
| CWindow (epoch_dur aw t : Z) (ts : N) (impl : wres)
| CAbs (nb : Z) (ts : N) (impl_sec impl_nsec : Z)
| CRel (nb t : Z) (impl : option N).

Definition model_input (fmt kt proto ia : N) (h : host) : option bytes :=
  match fmt with
  | 0 => Some (lvl1_input ia)
  | 1 => spec_lvl2_input kt h
  | 2 => gen_lvl2_input kt proto h
  | _ => hh_input h
  end.

(** the fields of a derivation input, read back from the bytes (fmt as in [CInput]):
    (key type, protocol, address type, address / ISD-AS bytes); [None] unless the
    length is the padded length and the padding is zero *)
Definition all_zero (l : bytes) : bool := forallb (N.eqb 0) l.

Definition decode_input (fmt : N) (i : bytes) : option (N * N * N * bytes) :=
  match fmt with
  | 0 =>
    match i with
    | kt :: r => if Nat.eqb (length i) 16 && all_zero (skipn 8 r)
                 then Some (kt, 0, 0, firstn 8 r) else None
    | _ => None
    end
  | 2 =>
    match i with
    | kt :: a :: b :: t :: r =>
      let n := addr_len t in
      if Nat.eqb (length i) (input_len (4 + n)) && all_zero (skipn n r)
      then Some (kt, unbe [a; b], t, firstn n r) else None
    | _ => None
    end
  | _ =>
    match i with
    | kt :: t :: r =>
      let n := addr_len t in
      if Nat.eqb (length i) (input_len (2 + n)) && all_zero (skipn n r)
      then Some (kt, 0, t, firstn n r) else None
    | _ => None
    end
  end.

(** the fields an input is supposed to carry *)
Definition input_fields (fmt kt proto ia : N) (h : host) : option (N * N * N * bytes) :=
  match fmt with
  | 0 => Some (kt_as_as, 0, 0, be 8 ia)
  | 1 => match pack_addr h with Some (t, raw) => Some (kt, 0, t, raw) | None => None end
  | 2 => match pack_addr h with Some (t, raw) => Some (kt, unbe (be 2 proto), t, raw) | None => None end
  | _ => match pack_addr h with Some (t, raw) => Some (kt_host_host, 0, t, raw) | None => None end
  end.

Definition fields_eqb (x y : N * N * N * bytes) : bool :=
  let '(a, b, c, d) := x in let '(a', b', c', d') := y in
  (a =? a') && (b =? b') && (c =? c') && bytes_eqb d d'.

(** separation oracle: an input that was produced decodes to exactly its fields *)
Definition input_ok (fmt kt proto ia : N) (h : host) (out : option bytes) : bool :=
  match out with
  | None => true
  | Some i => option_eqb fields_eqb (decode_input fmt i) (input_fields fmt kt proto ia h)
  end.

(** two hosts under the same parent key: each key is the documented one, and equal keys
    mean the same SCION host address *)
Definition pack_eqb (a b : option (N * bytes)) : bool :=
  option_eqb (fun x y => (fst x =? fst y) && bytes_eqb (snd x) (snd y)) a b.

Definition pair_key (prf : key -> bytes -> key) (fmt kt proto : N) (parent : key) (h : host) : option key :=
  option_map (prf parent) (model_input fmt kt proto 0 h).

Definition pair_ok (h1 h2 : host) (doc1 doc2 o1 o2 : option key) : bool :=
  option_eqb bytes_eqb o1 doc1 && option_eqb bytes_eqb o2 doc2 &&
  match o1, o2 with
  | Some a, Some b => if bytes_eqb a b then pack_eqb (pack_addr h1) (pack_addr h2) else true
  | _, _ => true
  end.

Definition kdf_tab (tab : list (bytes * key)) (i : bytes) : key :=
  match find (fun e => bytes_eqb (fst e) i) tab with Some e => snd e | None => [] end.

(** each secret value is the documented one, and equal secret values mean the same
    (protocol, epoch) *)
Definition sv_pair_ok (p1 : N) (e1 : epoch) (p2 : N) (e2 : epoch) (doc1 doc2 o1 o2 : option key) : bool :=
  option_eqb bytes_eqb o1 doc1 && option_eqb bytes_eqb o2 doc2 &&
  match o1, o2 with
  | Some a, Some b => if bytes_eqb a b then (p1 =? p2) && epoch_eqb e1 e2 else true
  | _, _ => true
  end.

Definition check (c : case) : N :=
  match c with
  | CConsts kts g types =>
    Check.verdict (list_eqb N.eqb [kt_as_as; kt_as_host; kt_host_as; kt_host_host] kts &&
                   (g =? grace_ns)%Z && list_eqb N.eqb [T4Ip; T4Svc; T16Ip] types) true
  | CInput fmt kt proto ia h impl =>
    Check.verdict (option_eqb bytes_eqb (model_input fmt kt proto ia h) impl)
                  (input_ok fmt kt proto ia h impl)
  | CDerive durs svs prfs loc p t src dst sh dh ie ih =>
    let prf := prf_tab prfs in
    let sv := sv_tab svs in
    let dur := dur_tab durs in
    let me := engine_keys prf sv dur loc p t src dst sh dh in
    let mh := host_keys_at prf sv dur p t src dst sh dh in
    let miss := existsb miss_res me || existsb miss_key mh in
    (* [prfs] holds the documented derivation (reference CBC-MAC): the served keys and the
       keys of the real derivers must both equal model-over-reference *)
    Check.verdict (negb miss && all2 obs_eqb (map obs_of me) ie && all2 (option_eqb bytes_eqb) mh ih)
                  (miss || (all2 (served_ok (dur src) t) ie mh && all2 (option_eqb bytes_eqb) ih mh))
  | CPair prfs fmt kt proto parent h1 h2 o1 o2 =>
    let d1 := pair_key (prf_tab prfs) fmt kt proto parent h1 in
    let d2 := pair_key (prf_tab prfs) fmt kt proto parent h2 in
    let miss := miss_key d1 || miss_key d2 in
    Check.verdict (negb miss && option_eqb bytes_eqb d1 o1 && option_eqb bytes_eqb d2 o2)
                  (miss || pair_ok h1 h2 d1 d2 o1 o2)
  | CSV kdfs ms p1 e1 p2 e2 o1 o2 =>
    let d1 := derive_sv (kdf_tab kdfs) ms p1 e1 in
    let d2 := derive_sv (kdf_tab kdfs) ms p2 e2 in
    let miss := miss_key d1 || miss_key d2 in
    Check.verdict (negb miss && option_eqb bytes_eqb d1 o1 && option_eqb bytes_eqb d2 o2)
                  (miss || sv_pair_ok p1 e1 p2 e2 d1 d2 o1 o2)
  | CWindow ed aw t ts impl =>
    Check.verdict (wres_eqb (get_key_within_window ed aw t ts) impl) (window_ok aw t ts impl)
  | CAbs nb ts isec insec =>
    Check.verdict (abs_time nb ts =? isec * sec + insec)%Z true
  | CRel nb t impl =>
    Check.verdict (option_eqb N.eqb (rel_time nb t) impl) true
  end.

Definition diag (c : case) : list (list N) :=
  match c with
  | CConsts _ _ _ => []
  | CInput fmt kt proto ia h _ =>
    match model_input fmt kt proto ia h with Some b => [b] | None => [] end
  | CDerive durs svs prfs loc p t src dst sh dh _ _ =>
    let prf := prf_tab prfs in
    let sv := sv_tab svs in
    let dur := dur_tab durs in
    map (fun r => match r with ROk k (b, e) => k ++ [b; e] | RErr => [] end)
        (engine_keys prf sv dur loc p t src dst sh dh) ++
    map (fun k => match k with Some k => k | None => [] end)
        (host_keys_at prf sv dur p t src dst sh dh)
  | CPair prfs fmt kt proto parent h1 h2 _ _ =>
    map (fun k => match k with Some k => k | None => [] end)
        [pair_key (prf_tab prfs) fmt kt proto parent h1; pair_key (prf_tab prfs) fmt kt proto parent h2]
  | CSV kdfs ms p1 e1 p2 e2 _ _ =>
    map (fun k => match k with Some k => k | None => [] end)
        [derive_sv (kdf_tab kdfs) ms p1 e1; derive_sv (kdf_tab kdfs) ms p2 e2]
  | CWindow ed aw t ts _ =>
    match get_key_within_window ed aw t ts with
    | WKey a b => [[1; Z.to_N a; Z.to_N b]] | WNone => [[0]] | WPanic => [[2]]
    end
  | CAbs nb ts _ _ => [[Z.to_N (abs_time nb ts)]]
  | CRel nb t _ => match rel_time nb t with Some r => [[r]] | None => [] end
  end.

End DRKey.
