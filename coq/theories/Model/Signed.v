(** Model of pkg/scrypto/signed (msg.go, algo.go): the signed control-plane
    message envelope over an abstract signature scheme.  Definitions only.

    Part 1 (Section Scheme): [sign] / [verify] follow Sign / Verify check by
    check, over Section variables [sign_with], [sig_valid], [pub], [hash] and an
    abstract serialisation [ser] / [parse] of the header-and-body.
    Part 2: the concrete protobuf serialisation used by the code ([ser_hb],
    [parse_hb], built on Lib/PBWire).
    Part 3: the instantiation used to execute the model on cases: signature
    verdicts are looked up in a table supplied by the runner. *)
From Coq Require Import List NArith ZArith Bool.
From Scion Require Import Lib.Check Lib.Bytes Lib.PBWire Lib.HexLit.  (* HexLit: literals of the generated case files *)
Import ListNotations.
Local Open Scope N_scope.

Module Signed.

(** signed.Header.  [h_algo]: SignatureAlgorithm (0 unknown, 1..3 ECDSA with
    SHA-256/384/512); [h_ts]: (Unix seconds, nanosecond) of Timestamp, the zero
    time.Time being [zero_time]; [h_adlen]: AssociatedDataLength (an int). *)
Record header := mkh { h_algo : N; h_keyid : bytes; h_ts : Z * Z; h_meta : bytes; h_adlen : Z }.

Definition zero_time : Z * Z := ((-62135596800)%Z, 0%Z).

(** algo.go [signatureAlgorithmDetails]: (public key algorithm, hash);
    public key algorithm 1 = ECDSA, hash 1/2/3 = SHA-256/384/512. *)
Definition algo_details (a : N) : option (N * N) :=
  match a with
  | 1 => Some (1, 1)
  | 2 => Some (1, 2)
  | 3 => Some (1, 3)
  | _ => None
  end.
Definition hash_of (a : N) : N :=
  match algo_details a with Some (_, h) => h | None => 0 end.

(** [checkPubKeyAlgo]; [kind] is the dynamic type of the key:
    1 = *ecdsa.PublicKey, anything else = a type the switch does not know. *)
Definition check_algo (a kind : N) : bool :=
  match algo_details a with
  | None => false
  | Some (pka, _) => if kind =? 1 then pka =? 1 else false
  end.

(** [associatedDataLen] *)
Definition ad_len (ad : list bytes) : Z :=
  fold_left (fun a d => (a + Z.of_nat (length d))%Z) ad 0%Z.

Inductive err := ENilKey | EParse | EAdLen | EAlgo | ESig.
Inductive res (A : Type) := Ok (a : A) | Err (e : err).
Arguments Ok {A} a.
Arguments Err {A} e.

Section Scheme.
  Variables SK PK SG : Type.
  Variable sign_with : SK -> bytes -> SG.
  Variable sig_valid : PK -> bytes -> SG -> bool.
  Variable pub : SK -> PK.
  (** [hash h m]: digest of [m] under hash function number [h] *)
  Variable hash : N -> bytes -> bytes.
  Variable kind : PK -> N.
  (** marshalling of HeaderAndBody and what extractHeaderAndBody reads back *)
  Variable ser : header -> bytes -> bytes.
  Variable parse : bytes -> option (header * bytes).

  Record msg := mkmsg { m_hb : bytes; m_sig : SG }.

  (** [computeSignatureInput]: header-and-body followed by every chunk of
      associated data, hashed with the algorithm's hash (raw when it has none). *)
  Definition sig_input (a : N) (hb : bytes) (ad : list bytes) : bytes :=
    let raw := hb ++ concat ad in
    if hash_of a =? 0 then raw else hash (hash_of a) raw.

  Definition sign (sk : option SK) (h : header) (body : bytes) (ad : list bytes) : res msg :=
    match sk with
    | None => Err ENilKey
    | Some k =>
      if negb (ad_len ad =? h_adlen h)%Z then Err EAdLen
      else if negb (check_algo (h_algo h) (kind (pub k))) then Err EAlgo
      else
        let hb := ser h body in
        Ok {| m_hb := hb; m_sig := sign_with k (sig_input (h_algo h) hb ad) |}
    end.

  Definition verify (m : msg) (key : option PK) (ad : list bytes) : res (header * bytes) :=
    match key with
    | None => Err ENilKey
    | Some k =>
      match parse (m_hb m) with
      | None => Err EParse
      | Some (h, body) =>
        if negb (ad_len ad =? h_adlen h)%Z then Err EAdLen
        else if negb (check_algo (h_algo h) (kind k)) then Err EAlgo
        else if sig_valid k (sig_input (h_algo h) (m_hb m) ad) (m_sig m) then Ok (h, body)
        else Err ESig
      end
    end.
End Scheme.

Arguments m_hb {SG} m.
Arguments m_sig {SG} m.
Arguments mkmsg {SG} _ _.

(** ------------------------------------------------------------------
    Part 2: the protobuf encoding (proto/crypto/v1/signed.proto). *)

(** signatureAlgorithmFromPB on the decoded enum (an int32) *)
Definition algo_from_pb (v : Z) : N :=
  if (v =? 1)%Z then 1 else if (v =? 2)%Z then 2 else if (v =? 3)%Z then 3 else 0.
(** SignatureAlgorithm.toPB *)
Definition algo_to_pb (a : N) : N :=
  match a with 1 => 1 | 2 => 2 | 3 => 3 | _ => 0 end.

Definition wrap64 (z : Z) : Z :=
  ((z + 9223372036854775808) mod 18446744073709551616 - 9223372036854775808)%Z.
Definition wrap32 (z : Z) : Z :=
  ((z + 2147483648) mod 4294967296 - 2147483648)%Z.

(** timestamppb.Timestamp.AsTime = time.Unix(seconds, nanos), observed as
    (Unix(), Nanosecond()) *)
Definition as_time (sec nanos : Z) : Z * Z :=
  (wrap64 (sec + nanos / 1000000000), nanos mod 1000000000)%Z.

Definition ts_eqb (a b : Z * Z) : bool := (fst a =? fst b)%Z && (snd a =? snd b)%Z.

Definition parse_header (raw : bytes) : option header :=
  match PB.fields raw with
  | None => None
  | Some fs =>
    let ts :=
      match PB.all_len 3 fs with
      | [] => Some zero_time
      | occ => match PB.merged occ with
               | Some tf => Some (as_time (PB.to_i64 (PB.last_int 1 tf)) (PB.to_i32 (PB.last_int 2 tf)))
               | None => None
               end
      end in
    match ts with
    | None => None
    | Some t =>
      Some {| h_algo := algo_from_pb (PB.to_i32 (PB.last_int 1 fs));
              h_keyid := PB.last_len 2 fs;
              h_ts := t;
              h_meta := PB.last_len 4 fs;
              h_adlen := PB.to_i32 (PB.last_int 5 fs) |}
    end
  end.

(** extractHeaderAndBody *)
Definition parse_hb (raw : bytes) : option (header * bytes) :=
  match PB.fields raw with
  | None => None
  | Some fs =>
    match parse_header (PB.last_len 1 fs) with
    | None => None
    | Some h => Some (h, PB.last_len 2 fs)
    end
  end.

(** timestamppb.New(t) marshalled *)
Definition ser_ts (t : Z * Z) : bytes :=
  PB.opt_int 1 (PB.of_i64 (fst t)) ++ PB.opt_int 2 (PB.of_i64 (snd t)).

Definition ser_header (h : header) : bytes :=
  PB.opt_int 1 (algo_to_pb (h_algo h)) ++
  PB.opt_len 2 (h_keyid h) ++
  (if ts_eqb (h_ts h) zero_time then [] else PB.enc_len 3 (ser_ts (h_ts h))) ++
  PB.opt_len 4 (h_meta h) ++
  PB.opt_int 5 (PB.of_i64 (wrap32 (h_adlen h))).

Definition ser_hb (h : header) (body : bytes) : bytes :=
  PB.opt_len 1 (ser_header h) ++ PB.opt_len 2 body.

(** what Sign can take and marshal without loss *)
Definition small (s : bytes) : Prop := N.of_nat (length s) < 18446744073709551616.
Definition signable (h : header) (body : bytes) : Prop :=
  (h_algo h = 1 \/ h_algo h = 2 \/ h_algo h = 3) /\
  (h_ts h = zero_time \/
   (-9223372036854775808 <= fst (h_ts h) < 9223372036854775808 /\ 0 <= snd (h_ts h) < 1000000000)%Z) /\
  (-2147483648 <= h_adlen h < 2147483648)%Z /\
  small (h_keyid h) /\ small (h_meta h) /\ small body /\
  small (ser_ts (h_ts h)) /\ small (ser_header h).

(** ------------------------------------------------------------------
    Part 3: execution on cases.  Keys are (kind, id); a signature is its bytes;
    the digest of [m] under hash [h] is represented as [h :: m] (so equal
    digests mean equal hash function and equal message); whether the real
    crypto accepts (key id, digest, signature) is looked up in [tbl]. *)
Definition key := (N * N)%type.
Definition hash_c (h : N) (m : bytes) : bytes := h :: m.
Definition tbl_t := list (N * bytes * bytes).
Definition sig_valid_c (tbl : tbl_t) (k : key) (d : bytes) (s : bytes) : bool :=
  existsb (fun e => match e with (i, d', s') =>
                      (i =? snd k) && bytes_eqb d' d && bytes_eqb s' s end) tbl.
Definition kind_c (k : key) : N := fst k.

Definition verify_c (tbl : tbl_t) (hb sg : bytes) (k : option key) (ad : list bytes)
  : res (header * bytes) :=
  verify key bytes (sig_valid_c tbl) hash_c kind_c parse_hb (mkmsg hb sg) k ad.

Definition sign_c (k : option key) (h : header) (body : bytes) (ad : list bytes) : res (@msg bytes) :=
  sign key key bytes (fun _ _ => []) (fun k => k) hash_c kind_c ser_hb k h body ad.

Definition hdr_eqb (a b : header) : bool :=
  (h_algo a =? h_algo b) && bytes_eqb (h_keyid a) (h_keyid b) && ts_eqb (h_ts a) (h_ts b)
  && bytes_eqb (h_meta a) (h_meta b) && (h_adlen a =? h_adlen b)%Z.
Definition out_eqb (a b : option (header * bytes)) : bool :=
  option_eqb (fun x y => hdr_eqb (fst x) (fst y) && bytes_eqb (snd x) (snd y)) a b.
Definition to_opt {A} (r : res A) : option A := match r with Ok a => Some a | Err _ => None end.

Definition opt_key_eqb (a b : option key) : bool :=
  option_eqb (fun x y => (fst x =? fst y) && (snd x =? snd y)) a b.

Inductive case :=
(** Sign(h, body, signer of kind [k], ad...): success flag and HeaderAndBody bytes *)
| CSign (k : option key) (h : header) (body : bytes) (ad : list bytes)
        (impl_ok : bool) (impl_hb : bytes)
(** A message (hb, sg) that Sign produced for (h, body) under ECDSA key [kid]
    with associated data [cad] (concatenated); then Verify of (hb', sg') under
    [k'] with [ad'].  [tbl]: the (key, digest, signature) triples among the
    candidates of this case that ecdsa.VerifyASN1 accepts. *)
| CVerify (h : header) (body cad : bytes) (kid : N) (hb sg : bytes)
          (hb' sg' : bytes) (ad' : list bytes) (k' : option key)
          (tbl : tbl_t) (impl : option (header * bytes))
(** Verify of a message that was not produced by Sign (hand-marshalled header) *)
| CRaw (hb' sg' : bytes) (ad' : list bytes) (k' : option key)
       (tbl : tbl_t) (impl : option (header * bytes)).

(** nothing of what the signature covers, nor the key, was changed *)
Definition unchanged (cad : bytes) (kid : N) (hb sg hb' sg' : bytes) (ad' : list bytes)
           (k' : option key) : bool :=
  bytes_eqb hb' hb && bytes_eqb sg' sg && bytes_eqb (concat ad') cad
  && opt_key_eqb k' (Some (1, kid)).

(** The property, on the implementation's answer: the untouched message (however
    its associated data is chunked) verifies and gives back the signed header and
    body; anything else is rejected. *)
Definition oracle_verify (h : header) (body cad : bytes) (kid : N) (hb sg hb' sg' : bytes)
           (ad' : list bytes) (k' : option key) (impl : option (header * bytes)) : bool :=
  if unchanged cad kid hb sg hb' sg' ad' k' then out_eqb impl (Some (h, body))
  else out_eqb impl None.

(** known finding ad-splice: header-and-body and associated data are concatenated
    without separation, so bytes can move from one to the other *)
Definition known_splice (cad hb hb' : bytes) (ad' : list bytes) : bool :=
  negb (bytes_eqb hb' hb) && bytes_eqb (hb' ++ concat ad') (hb ++ cad).

Definition oracle_sign (h : header) (body : bytes) (impl_ok : bool) (impl_hb : bytes) : bool :=
  if impl_ok then out_eqb (parse_hb impl_hb) (Some (h, body)) else true.

(** messages not produced by Sign: whatever is accepted has the right
    associated-data length, an algorithm that fits the key, a signature that the
    crypto accepts over header-and-body || associated data, and the returned
    header and body are the ones in the verified bytes *)
Definition oracle_raw (hb' sg' : bytes) (ad' : list bytes) (k' : option key) (tbl : tbl_t)
           (impl : option (header * bytes)) : bool :=
  match impl with
  | None => true
  | Some (h', b') =>
    out_eqb (parse_hb hb') (Some (h', b')) && (ad_len ad' =? h_adlen h')%Z &&
    match k' with
    | Some k => check_algo (h_algo h') (fst k) &&
                sig_valid_c tbl k (sig_input hash_c (h_algo h') hb' ad') sg'
    | None => false
    end
  end.

Definition model_sign (k : option key) h body ad : bool * bytes :=
  match sign_c k h body ad with Ok m => (true, m_hb m) | Err _ => (false, []) end.

Definition check (c : case) : N :=
  match c with
  | CSign k h body ad impl_ok impl_hb =>
    let m := model_sign k h body ad in
    Check.verdict (Bool.eqb (fst m) impl_ok && bytes_eqb (snd m) impl_hb)
                  (oracle_sign h body impl_ok impl_hb)
  | CVerify h body cad kid hb sg hb' sg' ad' k' tbl impl =>
    Check.verdict (out_eqb (to_opt (verify_c tbl hb' sg' k' ad')) impl)
                  (oracle_verify h body cad kid hb sg hb' sg' ad' k' impl)
  | CRaw hb' sg' ad' k' tbl impl =>
    Check.verdict (out_eqb (to_opt (verify_c tbl hb' sg' k' ad')) impl)
                  (oracle_raw hb' sg' ad' k' tbl impl)
  end.

Definition diag (c : case) : (bool * bytes) * res (header * bytes) :=
  match c with
  | CSign k h body ad _ _ => (model_sign k h body ad, Err ENilKey)
  | CVerify _ _ _ _ _ _ hb' sg' ad' k' tbl _ => ((false, []), verify_c tbl hb' sg' k' ad')
  | CRaw hb' sg' ad' k' tbl _ => ((false, []), verify_c tbl hb' sg' k' ad')
  end.

End Signed.
