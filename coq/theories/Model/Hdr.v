(** C18: all header layers under one roof, and the correspondence cases.
    Layers: Model/HdrPath.v (hop, info, meta, SCION/one-hop/EPIC/empty paths),
    Model/HdrScion.v (common + address header + path), Model/HdrL4.v (UDP, SCMP),
    Model/HdrExt.v (HBH/E2E extensions, SPAO).  Definitions only. *)
From Coq Require Import List Arith NArith Bool.
From Scion Require Import Lib.Bytes Lib.BytesX Lib.Check.
From Scion Require Import Model.HdrPath Model.HdrScion Model.HdrL4 Model.HdrExt.
Import ListNotations.
Local Open Scope N_scope.
Local Open Scope res_scope.

Module Hdr.
Import HdrPath HdrScion HdrL4 HdrExt.

(** compact notation for byte strings in generated cases: [B k n] = the [k] low-order bytes of [n],
    most significant first (= [be k n], computed by shifting) *)
Fixpoint unpack (k : nat) (n : N) (acc : bytes) : bytes :=
  match k with O => acc | S k' => unpack k' (N.shiftr n 8) (N.land n 255 :: acc) end.
Definition B (k : nat) (n : N) : bytes := unpack k n [].

(** a header value of any layer *)
Inductive hdr :=
| HHop (h : hop)
| HInfo (i : info)
| HMeta (m : meta)
| HRaw (p : raw_path)
| HDec (d : dec_path)
| HOneHop (o : onehop)
| HEpic (e : epic)
| HEmpty
| HScion (s : scion)
| HUdp (v : list N)
| HScmp (b m : list N)
| HFmt (id : N) (v : list N)
| HExt (k : kind) (e : ext)
| HSpao (p : spao)
| HAddr (a : host).

(** which decoder to run *)
Inductive lay :=
| LHop | LInfo | LMeta | LRaw | LDec | LOneHop | LEpic | LEmpty | LScion | LUdp | LScmp
| LFmt (id : N) | LExt (k : kind) | LSpao | LAddr
| LScionR.    (* SCION.DecodeFromBytes on a layer with RecyclePaths() *)

(** the SCMP message structs of scmp_msg.go (and the base header) by number *)
Definition fmt_of (id : N) : fmt :=
  match id with
  | 0 => scmp_base_fmt
  | 1 => scmp_ext_if_down_fmt
  | 2 => scmp_int_conn_down_fmt
  | 3 => scmp_echo_fmt
  | 4 => scmp_param_problem_fmt
  | 5 => scmp_traceroute_fmt
  | 6 => scmp_dest_unreachable_fmt
  | _ => scmp_packet_too_big_fmt
  end.

Definition lay_of (h : hdr) : lay :=
  match h with
  | HHop _ => LHop | HInfo _ => LInfo | HMeta _ => LMeta | HRaw _ => LRaw | HDec _ => LDec
  | HOneHop _ => LOneHop | HEpic _ => LEpic | HEmpty => LEmpty | HScion _ => LScion
  | HUdp _ => LUdp | HScmp _ _ => LScmp | HFmt id _ => LFmt id | HExt k _ => LExt k
  | HSpao _ => LSpao | HAddr _ => LAddr
  end.

Definition lift {A} (f : A -> hdr) (r : res (A * bytes)) : res (hdr * bytes) :=
  '(a, rest) <- r ;; Ok (f a, rest).

Definition decode (l : lay) (bs : bytes) : res (hdr * bytes) :=
  match l with
  | LHop => lift HHop (hop_decode bs)
  | LInfo => lift HInfo (info_decode bs)
  | LMeta => lift HMeta (meta_decode bs)
  | LRaw => lift HRaw (raw_decode bs)
  | LDec => lift HDec (dec_decode bs)
  | LOneHop => lift HOneHop (onehop_decode bs)
  | LEpic => lift HEpic (epic_decode bs)
  | LEmpty => '(_, r) <- empty_decode bs ;; Ok (HEmpty, r)
  | LScion => lift HScion (scion_decode bs)
  | LScionR => lift HScion (scion_decode_r bs)
  | LUdp => '(v, p, _) <- udp_decode bs ;; Ok (HUdp v, p)
  | LScmp => '(b, m, r) <- scmp_decode bs ;; Ok (HScmp b m, r)
  | LFmt id => lift (HFmt id) (fmt_decode (fmt_of id) bs)
  | LExt k => lift (HExt k) (ext_decode k bs)
  | LSpao => p <- spao_of_opt (mkOpt opt_type_auth (N.of_nat (length bs) mod 256) bs 0 0) ;;
             Ok (HSpao p, [])
  | LAddr => match bs with
             | t :: raw => a <- parse_addr t raw ;; Ok (HAddr a, [])
             | [] => Err
             end
  end.

(** serialization; [aux] is the number of bytes already in the serialize buffer (only used
    with FixLengths by the SCION and UDP layers) *)
Definition encode (fx : bool) (aux : N) (h : hdr) : res bytes :=
  match h with
  | HHop x => Ok (hop_encode x)
  | HInfo x => Ok (info_encode x)
  | HMeta x => Ok (meta_encode x)
  | HRaw x => raw_encode x
  | HDec x => dec_encode x
  | HOneHop x => Ok (onehop_encode x)
  | HEpic x => epic_encode x
  | HEmpty => Ok []
  | HScion x => scion_encode fx aux x
  | HUdp v => Ok (udp_encode fx (aux + 8) v)
  | HScmp b m => Ok (scmp_encode b m)
  | HFmt id v => Ok (fmt_encode (fmt_of id) v)
  | HExt k e => ext_encode k fx e
  | HSpao p => o <- spao_to_opt p ;; Ok (o_data o)
  | HAddr a => let '(t, raw) := pack_addr a in Ok (t :: raw)
  end.

(** the value a decoder returns for what [encode] wrote *)
Definition canon (fx : bool) (aux : N) (h : hdr) : hdr :=
  match h with
  | HRaw x => HRaw (raw_canon x)
  | HEpic e => HEpic (mkEpic (ep_ts e) (ep_ctr e) (ep_phvf e) (ep_lhvf e) (raw_canon (ep_scion e)))
  | HScion x => HScion (scion_canon fx aux (scion_undecoded x))   (* a decoded path comes back raw *)
  | HUdp v => HUdp (if fx then udp_fix (aux + 8) v else v)
  | HExt k e => HExt k (ext_canon fx e)
  | _ => h
  end.

Definition wfb (fx : bool) (aux : N) (h : hdr) : bool :=
  match h with
  | HHop x => wf_hopb x
  | HInfo x => wf_infob x
  | HMeta x => wf_metab x
  | HRaw x => wf_rawb x
  | HDec x => wf_decb x
  | HOneHop x => wf_onehopb x
  | HEpic x => wf_epicb x
  | HEmpty => true
  | HScion x0 =>
    let x := scion_undecoded x0 in
    (if fx then wf_scion_nolenb x && Nat.leb (scn_len x) max_hdr_len &&
               Nat.eqb (Nat.modulo (scn_len x) line_len) 0
    else wf_scionb x) && negb (is_opaque (s_path x)) &&
    match s_path x0 with PDecoded d => wf_decb d | _ => true end
  | HUdp v => wf_valsb udp_fmt v &&
              (fx || (nth 2 v 0 =? 0) || (nth 2 v 0 =? aux + 8))
  | HScmp b m => wf_valsb scmp_base_fmt b &&
                 match scmp_msg_fmt (hd 0 b) with
                 | Some f => wf_valsb f m
                 | None => match m with [] => true | _ => false end
                 end
  | HFmt id v => wf_valsb (fmt_of id) v
  | HExt k e => if fx then wf_ext_fixb k e else wf_extb k e
  | HSpao p => wf_spaob p && Nat.ltb (length (sp_auth p)) 244
  | HAddr a => match a with
               | HostIP4 b => Nat.eqb (length b) 4 && wf_bytesb b
               | HostIP6 b => Nat.eqb (length b) 16 && wf_bytesb b && negb (is_v4mapped b)
               | HostSVC s => s <? 65536
               end
  end.

(** reserved positions per layer (everything else must be reproduced) *)
Definition mask (l : lay) (bs : bytes) : bytes :=
  match l with
  | LHop => mask_hop bs
  | LInfo => mask_info bs
  | LMeta => mask_meta bs
  | LRaw => mask_meta bs
  | LDec => mask_dec bs
  | LOneHop => mask_onehop bs
  | LEpic => mask_epic bs
  | LEmpty => bs
  | LScion | LScionR => mask_scion bs
  | LUdp => udp_covered bs
  | LScmp => scmp_mask bs
  | LFmt id => fmt_mask (fmt_of id) bs
  | LExt _ => bs
  | LSpao => mask_spao bs
  | LAddr => match bs with t :: raw => t :: mask_addr t raw | [] => [] end
  end.

(** a length field of the layer announces more bytes than the data holds *)
Definition overlong (l : lay) (bs : bytes) : bool :=
  match l with
  | LScion | LScionR => scion_overlong bs
  | LUdp => udp_overlong bs
  | LExt _ => ext_overlong bs
  | LRaw | LDec =>
    match base_decode bs with
    | Ok (b, _) => Nat.ltb (length bs) (base_len b)
    | _ => false
    end
  | _ => false
  end.

Definition hdr_eqb (a b : hdr) : bool :=
  match a, b with
  | HHop x, HHop y => hop_eqb x y
  | HInfo x, HInfo y => info_eqb x y
  | HMeta x, HMeta y => meta_eqb x y
  | HRaw x, HRaw y => raw_eqb x y
  | HDec x, HDec y => dec_eqb x y
  | HOneHop x, HOneHop y => onehop_eqb x y
  | HEpic x, HEpic y => epic_eqb x y
  | HEmpty, HEmpty => true
  | HScion x, HScion y => scion_eqb x y
  | HUdp x, HUdp y => vals_eqb x y
  | HScmp b m, HScmp b' m' => vals_eqb b b' && vals_eqb m m'
  | HFmt i x, HFmt j y => (i =? j) && vals_eqb x y
  | HExt HBH x, HExt HBH y => ext_eqb x y
  | HExt E2E x, HExt E2E y => ext_eqb x y
  | HSpao x, HSpao y => spao_eqb x y
  | HAddr x, HAddr y => host_eqb x y
  | _, _ => false
  end.

Definition pair_eqb (a b : hdr * bytes) : bool := hdr_eqb (fst a) (fst b) && bytes_eqb (snd a) (snd b).

Definition res_matches {A} (eqb : A -> A -> bool) (r : res A) (o : option A) : bool :=
  match r, o with
  | Ok a, Some b => eqb a b
  | Err, None => true
  | _, _ => false
  end.

(** the IPv4-mapped 16-byte host address is unmapped by PackAddr (documented there); the
    ParseAddr/PackAddr pair is only required to round-trip for the others *)
Definition addr_exempt (l : lay) (bs : bytes) (h : hdr) : bool :=
  match l, bs with
  | LAddr, t :: raw =>
    negb (Nat.eqb (length raw) (addr_len t)) ||     (* not what DecodeAddrHdr hands to ParseAddr *)
    match h with HAddr (HostIP6 b) => is_v4mapped b | _ => false end
  | _, _ => false
  end.

(** layers whose decoder tolerates trailing bytes (and returns them as rest / payload) *)
Definition takes_payload (h : hdr) : bool :=
  match h with HEmpty | HSpao _ | HAddr _ => false | _ => true end.

(** inputs on which scion is known to deviate from the property (see Props/C18.v):
    SCION header whose HdrLen exceeds what address header and path occupy; UDP header whose
    Length exceeds the data *)
Definition known (l : lay) (bs : bytes) : bool :=
  match l with
  | LUdp => udp_overlong bs
  | LScion => match scion_decode bs with
              | Ok (h, _) => negb (Nat.eqb (scion_slack h) 0)
              | _ => false
              end
  | LScionR => match scion_decode_r bs with
               | Ok (h, _) => negb (Nat.eqb (scion_slack h) 0)
               | _ => false
               end
  | _ => false
  end.

(** ------------------------------------------------------------ correspondence cases *)
Inductive case :=
(* field values -> SerializeTo -> bytes [impl] (None = error); then the implementation decodes
   [impl ++ payload] again: [redec] *)
| CEnc (fx : bool) (h : hdr) (payload : bytes) (impl : option bytes) (redec : option (hdr * bytes))
(* bytes -> DecodeFromBytes -> [impl] (None = error); the decoded value serialized again
   without FixLengths: [reser] *)
| CDec (l : lay) (bs : bytes) (impl : option (hdr * bytes)) (reser : option bytes).

Definition aux_of (payload : bytes) : N := N.of_nat (length payload).

(** property oracle on the implementation's observations *)
Definition enc_oracle (fx : bool) (h : hdr) (payload : bytes) (impl : option bytes)
           (redec : option (hdr * bytes)) : bool :=
  if wfb fx (aux_of payload) h && (takes_payload h || match payload with [] => true | _ => false end) then
    match impl, redec with
    | Some _, Some (h', rest) => hdr_eqb h' (canon fx (aux_of payload) h) && bytes_eqb rest payload
    | _, _ => false
    end
  else true.

Definition dec_oracle (l : lay) (bs : bytes) (impl : option (hdr * bytes)) (reser : option bytes) : bool :=
  match impl with
  | None => true
  | Some (h, rest) =>
    negb (overlong l bs) &&
    (addr_exempt l bs h ||
     match reser with
     | Some e => bytes_eqb (e ++ rest) (mask l bs)
     | None => false
     end)
  end.

Definition check (c : case) : N :=
  match c with
  | CEnc fx h payload impl redec =>
    let m := encode fx (aux_of payload) h in
    let agree :=
      res_matches bytes_eqb m impl &&
      match m with
      | Ok e => res_matches pair_eqb (decode (lay_of h) (e ++ payload)) redec
      | _ => match redec with None => true | _ => false end
      end in
    Check.verdict agree (enc_oracle fx h payload impl redec)
  | CDec l bs impl reser =>
    let m := decode l bs in
    let agree :=
      res_matches pair_eqb m impl &&
      match m with
      | Ok (h, _) => res_matches bytes_eqb (encode false 0 h) reser
      | _ => match reser with None => true | _ => false end
      end in
    Check.verdict agree (dec_oracle l bs impl reser)
  end.

Definition diag (c : case) : list N * list N :=
  match c with
  | CEnc fx h payload _ _ =>
    match encode fx (aux_of payload) h with
    | Ok e => (e, [if is_ok (decode (lay_of h) (e ++ payload)) then 1 else 0])
    | Err => ([], [254])
    | Panic => ([], [255])
    end
  | CDec l bs _ _ =>
    match decode l bs with
    | Ok (h, rest) => (match encode false 0 h with Ok e => e | _ => [999] end, rest)
    | Err => ([], [254])
    | Panic => ([], [255])
    end
  end.

End Hdr.
