(** Byte-level router model (C07 / C08 lifted from the decoded record to raw bytes).

    Composition of two existing developments, both used read-only:
      - the header codec of C18 (Model/HdrScion.v [scion_decode], Model/HdrPath.v [raw_decode],
        [info_decode], [hop_decode], Model/HdrExt.v [ext_skip_decode], Model/HdrL4.v [fmt_decode]);
      - the router core Model/Router.v ([process_scion] on a decoded record).

    [abstract_res raw] follows [scionPacketProcessor.processPkt]: [decodeLayers] (SCION header,
    then the hop-by-hop / end-to-end SKIPPER layers), the path-type dispatch, and for a
    SCION-type path the projection of what [process()] reads from the [scion.Raw] path
    (meta header, every info / hop field with the same field decoders, reserved bits kept)
    to the record of Model/Router.v, including [dataPlane.dstScionPort] for the L4 port.
    [process_bytes] runs [Router.process_scion] on that record and writes the resulting record's
    path header back into the ORIGINAL byte string ([patch]: the router only ever writes into
    [scion.Raw.Raw], i.e. the path header region of the buffer).

    One-hop, EPIC and empty paths are handled by other models (C12, C13, BFD): the distinct
    result [NotScionPath] is returned for them, never a silent discard.

    The port of the packet quoted inside an SCMP ERROR message ([getDstPortSCMP], which runs
    gopacket over the quote) is a parameter [qport]; everything else of [dstScionPort] is
    modelled.  Definitions only. *)
From Coq Require Import List Arith NArith Bool.
From Scion Require Import Lib.Bytes Lib.BytesX Lib.Check.
From Scion Require Import Model.HdrPath Model.HdrScion Model.HdrL4 Model.HdrExt.
From Scion Require Import Model.Router Model.RouterTotal.
Import ListNotations.
Local Open Scope N_scope.
Local Open Scope res_scope.

Module RouterBytes.

(** * Reserved bits (part of the router's record, dropped by the C18 field records) *)
Definition rsv6 (b : N) : N := (b / 4) * 4.                 (* b & 0xfc for a byte *)
Definition info_rsv (c : bytes) : N := rsv6 (nth 0 c 0) * 256 + nth 1 c 0.
Definition hop_rsv (c : bytes) : N := rsv6 (nth 0 c 0).
Definition meta_rsv (c : bytes) : N := (unbe (firstn 4 c) / 2 ^ 18) mod 64.

(** [path.InfoField.DecodeFromBytes] / [path.HopField.DecodeFromBytes] into the router's records *)
Definition rinfo_dec (c : bytes) : res (Router.info * bytes) :=
  '(i, r) <- HdrPath.info_decode c ;;
  Ok (Router.mkInfo (HdrPath.i_peer i) (HdrPath.i_consdir i) (HdrPath.i_segid i) (HdrPath.i_ts i)
                    (info_rsv c), r).

Definition rhop_dec (c : bytes) : res (Router.hop * bytes) :=
  '(h, r) <- HdrPath.hop_decode c ;;
  Ok (Router.mkHop (HdrPath.h_ingress_alert h) (HdrPath.h_egress_alert h) (HdrPath.h_exp h)
                   (HdrPath.h_ci h) (HdrPath.h_ce h) (HdrPath.h_mac h) (hop_rsv c), r).

(** everything the processor may read from a [scion.Raw]: reserved bits of the meta header,
    all info fields, all hop fields ([GetInfoField(i)], [GetHopField(i)] = the field decoder on
    [Raw[MetaLen + i*InfoLen:]] resp. [Raw[MetaLen + NumINF*InfoLen + i*HopLen:]]) *)
Definition path_fields (rp : HdrPath.raw_path) : res (N * list Router.info * list Router.hop) :=
  let b := HdrPath.rp_base rp in
  '(m4, r) <- takeP HdrPath.meta_len (HdrPath.rp_raw rp) ;;
  '(infos, r) <- HdrPath.read_list HdrPath.info_len rinfo_dec (N.to_nat (HdrPath.b_numinf b)) r ;;
  '(hops, _) <- HdrPath.read_list HdrPath.hop_len rhop_dec (N.to_nat (HdrPath.b_numhops b)) r ;;
  Ok (meta_rsv m4, infos, hops).

(** * [decodeLayers(raw, &scionLayer, &hbhSkipper, &e2eSkipper)] after the SCION header *)
Definition HbhClass : N := 200.
Definition E2eClass : N := 201.
Definition L4UDP : N := 17.
Definition L4TCP : N := 6.
Definition L4SCMP : N := 202.

(** returns the protocol number and the payload of the last decoded layer *)
Definition skip_exts (nh : N) (pld : bytes) : res (N * bytes) :=
  '(nh1, p1) <- (if nh =? HbhClass
                 then '(n, _, p) <- HdrExt.ext_skip_decode HdrExt.HBH pld ;; Ok (n, p)
                 else Ok (nh, pld)) ;;
  if nh1 =? E2eClass
  then '(n, _, p) <- HdrExt.ext_skip_decode HdrExt.E2E p1 ;; Ok (n, p)
  else Ok (nh1, p1).

Section WithQuote.
(** [qport ty rest]: result of [getDstPortSCMP] for an SCMP error message of (known) type [ty]
    whose bytes after the 4-byte SCMP header are [rest]; [None] = error *)
Variable qport : N -> bytes -> option N.

(** [dataPlane.dstScionPort(lastLayer)]: [Err] = the Go code returns an error, a read past the
    data would be [Panic] (the explicit length checks keep it unreachable) *)
Definition l4_port (proto : N) (b : bytes) : res N :=
  if proto =? L4UDP then
    if Nat.ltb (length b) 8 then Err else
    '(_, r) <- takeP 2 b ;; '(p, _) <- wordP 2 r ;; Ok p
  else if proto =? L4TCP then
    if Nat.ltb (length b) 20 then Err else
    '(_, r) <- takeP 2 b ;; '(p, _) <- wordP 2 r ;; Ok p
  else if proto =? L4SCMP then
    '(hd4, r) <- HdrL4.fmt_decode HdrL4.scmp_base_fmt b ;;
    let ty := hd 0 hd4 in
    if (ty =? 128) || (ty =? 130) then Ok Router.EndhostPort
    else if ty =? 129 then '(m, _) <- HdrL4.fmt_decode HdrL4.scmp_echo_fmt r ;; Ok (hd 0 m)
    else if ty =? 131 then '(m, _) <- HdrL4.fmt_decode HdrL4.scmp_traceroute_fmt r ;; Ok (hd 0 m)
    else match HdrL4.scmp_msg_fmt ty with
         | None => Err                                   (* unsupported SCMP error message *)
         | Some _ => match qport ty r with Some p => Ok p | None => Err end
         end
  else Ok Router.EndhostPort.

(** * From bytes to the router's record *)
Inductive ares :=
| APanic                  (* a decoder would index out of range *)
| AErr                    (* a decoder returns an error: the router discards *)
| AOther (pt : N)         (* well-formed SCION packet with an empty / one-hop / EPIC path *)
| ARec (p : Router.pkt).  (* SCION-type path: the record [Router.process_scion] works on *)

Definition mk_record (h : HdrScion.scion) (pld : bytes) (port : option N)
           (rp : HdrPath.raw_path) (rsv : N) (infos : list Router.info) (hops : list Router.hop)
  : Router.pkt :=
  let m := HdrPath.b_meta (HdrPath.rp_base rp) in
  Router.mkPkt (HdrScion.s_dstia h) (HdrScion.s_srcia h) (HdrScion.s_dt h) (HdrScion.s_st h)
               (HdrScion.s_rawdst h) (HdrScion.s_rawsrc h)
               (HdrScion.s_paylen h) (N.of_nat (length pld)) port
               (HdrPath.m_currinf m) (HdrPath.m_currhf m)
               (HdrPath.m_seg0 m) (HdrPath.m_seg1 m) (HdrPath.m_seg2 m) rsv infos hops.

Definition abstract_res (raw : bytes) : ares :=
  match HdrScion.scion_decode raw with
  | Panic => APanic
  | Err => AErr
  | Ok (h, pld) =>
    match skip_exts (HdrScion.s_nexthdr h) pld with
    | Panic => APanic
    | Err => AErr
    | Ok (proto, l4) =>
      match HdrScion.s_path h with
      | HdrPath.PScion rp =>
        match path_fields rp with
        | Ok (rsv, infos, hops) =>
          match l4_port proto l4 with
          | Panic => APanic
          | r => ARec (mk_record h pld (res_opt r) rp rsv infos hops)   (* [None]: dstScionPort fails *)
          end
        | _ => APanic
        end
      | _ => AOther (HdrScion.s_pathtype h)
      end
    end
  end.

Definition abstract (raw : bytes) : option Router.pkt :=
  match abstract_res raw with ARec p => Some p | _ => None end.

End WithQuote.

(** * From the router's record back to bytes: the path header *)
Definition enc_info (i : Router.info) : bytes :=
  [Router.i_rsv i / 256 + (HdrPath.b2n (Router.i_consdir i) + 2 * HdrPath.b2n (Router.i_peer i)); Router.i_rsv i mod 256] ++
  be 2 (Router.i_segid i) ++ be 4 (Router.i_ts i).

Definition enc_hop (h : Router.hop) : bytes :=
  [Router.h_rsv h + (HdrPath.b2n (Router.h_ealert h) + 2 * HdrPath.b2n (Router.h_ialert h)); Router.h_exp h mod 256] ++
  be 2 (Router.h_in h) ++ be 2 (Router.h_eg h) ++ fit HdrPath.mac_len (Router.h_mac h).

(** the 32-bit meta line byte by byte: CurrINF(2) CurrHF(6) | RSV(6) SegLen0(6, high 2) | ... *)
Definition enc_meta_f (ci ch rsv s0 s1 s2 : N) : bytes :=
  [(ci mod 4) * 64 + ch mod 64; (rsv mod 64) * 4 + (s0 mod 64) / 16] ++
  be 2 (((s0 mod 64) mod 16) * 4096 + (s1 mod 64) * 64 + s2 mod 64).
Definition enc_meta (q : Router.pkt) : bytes :=
  enc_meta_f (Router.p_curr_inf q) (Router.p_curr_hf q) (Router.p_meta_rsv q)
             (Router.p_seg0 q) (Router.p_seg1 q) (Router.p_seg2 q).

Definition enc_path (q : Router.pkt) : bytes :=
  enc_meta q ++ concat (map enc_info (Router.p_infos q)) ++ concat (map enc_hop (Router.p_hops q)).

(** the packet buffer after the router wrote the path state of [out]: everything outside the
    path header region is the received packet *)
Definition patch (raw : bytes) (out : Router.pkt) : bytes :=
  let off := N.to_nat (Router.meta_off out) in
  let e := enc_path out in
  firstn off raw ++ e ++ skipn (off + length e) raw.

Definition concretize := patch.

(** * The router on bytes *)
Inductive bresult :=
| PanicB | DiscardB | DoneB
| NotScionPath (pt : N)
| ForwardB (egress : N) (raw' : bytes) (dst : option (list N * N))
| SlowPathB (r : Router.spreq) (egress : N) (raw' : bytes)
| MacMissB | BadInputB.

Definition lift (raw : bytes) (r : Router.result) : bresult :=
  match r with
  | Router.Panic => PanicB
  | Router.Discard => DiscardB
  | Router.Done => DoneB
  | Router.Forward e out d => ForwardB e (patch raw out) d
  | Router.SlowPath q e out => SlowPathB q e (patch raw out)
  | Router.MacMiss => MacMissB
  | Router.BadInput => BadInputB
  end.

Definition process_bytes (qport : N -> bytes -> option N)
           (macq : N -> N -> N -> N -> N -> option (list N)) (c : Router.cfg) (now : N)
           (ing : Router.ingress) (raw : bytes) : bresult :=
  match abstract_res qport raw with
  | APanic => PanicB
  | AErr => DiscardB
  | AOther pt => NotScionPath pt
  | ARec p => lift raw (Router.process_scion macq c now ing p)
  end.

(** * Byte-level observables *)
(** offsets at which two byte strings of equal length differ *)
Fixpoint diff_from (k : N) (a b : bytes) : list N :=
  match a, b with
  | x :: ta, y :: tb => (if x =? y then [] else [k]) ++ diff_from (k + 1) ta tb
  | _, _ => []
  end.
Definition diff_offsets (a b : bytes) : list N := diff_from 0 a b.

(** reserved-bit offsets that the re-serialization of the meta header / of an updated info field
    clears (known findings c07-meta-rsv-cleared, c07-info-rsv-cleared) *)
Definition rsv_offsets (p : Router.pkt) : list N :=
  [Router.meta_off p + 1; Router.inf_off p (Router.p_curr_inf p); Router.inf_off p (Router.p_curr_inf p) + 1] ++
  (if Router.eff_xover p
   then [Router.inf_off p (Router.p_curr_inf p + 1); Router.inf_off p (Router.p_curr_inf p + 1) + 1]
   else []).

(** the SCION header of an emitted packet as the C18 decoder sees it (numbers of [RouterTotal.geo]) *)
Definition geo_of_bytes (raw : bytes) : option RouterTotal.geo :=
  match HdrScion.scion_decode raw with
  | Ok (h, _) =>
    match HdrScion.s_path h with
    | HdrPath.PScion rp =>
      let m := HdrPath.b_meta (HdrPath.rp_base rp) in
      Some (RouterTotal.mkGeo (N.of_nat (length raw)) (HdrScion.s_hdrlen h) (HdrScion.s_paylen h)
              (HdrScion.s_pathtype h) (HdrScion.s_dt h) (HdrScion.s_st h)
              (HdrPath.m_currinf m) (HdrPath.m_currhf m)
              (HdrPath.m_seg0 m) (HdrPath.m_seg1 m) (HdrPath.m_seg2 m))
    | _ => None
    end
  | _ => None
  end.

(** what C07 + C08 ask of a forwarded packet, judged on the BYTES the router emitted:
    same length, every differing offset allowed, the output decodes again (C18 decoders) to a
    record that is frame-related to the input's with the prescribed pointer / SegID values,
    well-formed, with a consistent header geometry *)
Definition forward_ok (qport : N -> bytes -> option N) (raw out : bytes) : bool :=
  match abstract qport raw with
  | None => false
  | Some p =>
    (N.of_nat (length out) =? N.of_nat (length raw)) &&
    forallb (fun o => Router.memN o (Router.allowed_offsets p)) (diff_offsets raw out) &&
    match abstract qport out with
    | Some o => Router.frame_ok p o && Router.exact_ok p o && RouterTotal.fwd_wf o
    | None => false
    end &&
    match geo_of_bytes out with Some g => RouterTotal.geo_ok g | None => false end
  end.

Definition bytes_ok (qport : N -> bytes -> option N) (raw : bytes) (r : bresult) : bool :=
  match r with
  | PanicB => false
  | ForwardB _ out _ => forward_ok qport raw out
  | _ => true      (* slow-path hand-overs: their bytes are part of the agreement, the reply is C09/C10 *)
  end.

(** * Cases of the correspondence check *)
(** compact byte literals: [unhex k n] = the [k] low-order bytes of [n], most significant first *)
Fixpoint unpack (k : nat) (n : N) (acc : bytes) : bytes :=
  match k with O => acc | S k' => unpack k' (N.shiftr n 8) (N.land n 255 :: acc) end.
Definition unhex (k : nat) (n : N) : bytes := unpack k n [].
(** [unwords len ws]: a byte string of [len] bytes given as 8-byte big-endian words (the last word
    holds the remaining 1..8 bytes); number literals of at most 20 digits parse fast *)
Fixpoint unwords (len : N) (ws : list N) : bytes :=
  match ws with
  | [] => []
  | w :: t => let k := N.min len 8 in unhex (N.to_nat k) w ++ unwords (len - k) t
  end.

(** an observed output given as the list of (offset, new byte) relative to the input *)
Fixpoint set_at (l : bytes) (n : nat) (v : N) : bytes :=
  match l, n with
  | [], _ => []
  | _ :: t, O => v :: t
  | x :: t, S m => x :: set_at t m v
  end.
Definition undiff (raw : bytes) (d : list (N * N)) : bytes :=
  fold_left (fun acc ov => set_at acc (N.to_nat (fst ov)) (snd ov)) d raw.

Inductive bcase :=
| CBytes (c : Router.cfg) (now : N) (ing : Router.ingress) (macs : list Router.mac_entry)
         (qp : option N)          (* getDstPortSCMP on this packet's SCMP error message, if it has one *)
         (raw : bytes)            (* the received datagram *)
         (impl : bresult).        (* what the real router did, output as bytes *)

Definition dst_eqb := Router.dst_eqb.
Definition bresult_eqb (a b : bresult) : bool :=
  match a, b with
  | PanicB, PanicB | DiscardB, DiscardB | DoneB, DoneB => true
  | NotScionPath x, NotScionPath y => x =? y
  | ForwardB e o d, ForwardB e' o' d' => (e =? e') && bytes_eqb o o' && dst_eqb d d'
  | SlowPathB r e o, SlowPathB r' e' o' => Router.spreq_eqb r r' && (e =? e') && bytes_eqb o o'
  | _, _ => false
  end.

Definition bmodel (cs : bcase) : bresult :=
  match cs with
  | CBytes c now ing macs qp raw _ =>
    process_bytes (fun _ _ => qp) (Router.mac_lookup macs) c now ing raw
  end.

(** path types the record model does not cover are not compared (other models do that) *)
Definition bagree (cs : bcase) : bool :=
  match cs with
  | CBytes _ _ _ _ _ _ impl =>
    match bmodel cs with
    | NotScionPath _ => true
    | m => bresult_eqb m impl
    end
  end.

Definition boracle (cs : bcase) : bool :=
  match cs with
  | CBytes _ _ _ _ qp raw impl => bytes_ok (fun _ _ => qp) raw impl
  end.

Definition bcheck (cs : bcase) : N := Check.verdict (bagree cs) (boracle cs).

(** the sum of the record-level C07 cases and the byte-level cases *)
Inductive case :=
| CRec (x : Router.xcase)
| CByte (b : bcase).

Definition check (cs : case) : N :=
  match cs with
  | CRec x => Router.xcheck Router.check_c07 x
  | CByte b => bcheck b
  end.

Inductive dg := DRec (r : Router.result) | DByte (r : bresult) (rec : option Router.pkt).
Definition diag (cs : case) : dg :=
  match cs with
  | CRec x => DRec (Router.xdiag x)
  | CByte (CBytes c now ing macs qp raw impl as b) => DByte (bmodel b) (abstract (fun _ _ => qp) raw)
  end.

End RouterBytes.
