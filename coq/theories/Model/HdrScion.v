(** C18, layer 3: SCION common header + address header + path, following
    SCION.SerializeTo / SCION.DecodeFromBytes / DecodeAddrHdr / SerializeAddrHdr /
    ParseAddr / PackAddr in pkg/slayers/scion.go.  Definitions only. *)
From Coq Require Import List Arith NArith Bool.
From Scion Require Import Lib.Bytes Lib.BytesX Lib.Check Model.HdrPath.
Import ListNotations.
Local Open Scope N_scope.
Local Open Scope res_scope.

Module HdrScion.
Import HdrPath.

Definition cmn_hdr_len : nat := 12.
Definition line_len : nat := 4.
Definition max_hdr_len : nat := 1020.
Definition ia_bytes : nat := 8.

(** AddrType.Length(): LineLen * (1 + (tl & 0x3)) *)
Definition addr_len (t : N) : nat := line_len * (1 + N.to_nat (t mod 4)).

Record scion := mkScion {
  s_version : N;       (* uint8, 4 bits on the wire *)
  s_tc : N;            (* uint8 *)
  s_flowid : N;        (* uint32, 20 bits on the wire *)
  s_nexthdr : N;       (* uint8 *)
  s_hdrlen : N;        (* uint8, 4-byte units *)
  s_paylen : N;        (* uint16 *)
  s_pathtype : N;      (* uint8 *)
  s_dt : N;            (* AddrType, 4 bits on the wire *)
  s_st : N;
  s_dstia : N;         (* uint64 *)
  s_srcia : N;
  s_rawdst : bytes;
  s_rawsrc : bytes;
  s_path : path
}.

(** SCION.AddrHdrLen() *)
Definition addr_hdr_len (dt st : N) : nat := 2 * ia_bytes + addr_len dt + addr_len st.

Definition scn_len (h : scion) : nat :=
  cmn_hdr_len + addr_hdr_len (s_dt h) (s_st h) + path_len (s_path h).

(** bytes of header that HdrLen announces beyond what the decoded path occupies *)
Definition scion_slack (h : scion) : nat := N.to_nat (s_hdrlen h) * line_len - scn_len h.

Definition first_line (h : scion) : N :=
  (s_version h mod 16) * 2 ^ 28 + (s_tc h mod 256) * 2 ^ 20 + s_flowid h mod 2 ^ 20.

(** SerializeTo with opts.FixLengths: HdrLen and PayloadLen are overwritten first
    ([paylen] = number of bytes already in the serialize buffer). *)
Definition scion_fix (paylen : N) (h : scion) : scion :=
  mkScion (s_version h) (s_tc h) (s_flowid h) (s_nexthdr h)
          ((N.of_nat (scn_len h) / 4) mod 256) (paylen mod 65536)
          (s_pathtype h) (s_dt h) (s_st h) (s_dstia h) (s_srcia h) (s_rawdst h) (s_rawsrc h) (s_path h).

Definition scion_encode_nofix (h : scion) : res bytes :=
  if Nat.ltb max_hdr_len (scn_len h) then Err else
  if negb (Nat.eqb (Nat.modulo (scn_len h) line_len) 0) then Err else
  pb <- path_encode (s_path h) ;;
  Ok (be 4 (first_line h) ++ be 1 (s_nexthdr h) ++ be 1 (s_hdrlen h) ++ be 2 (s_paylen h) ++
      be 1 (s_pathtype h) ++ be 1 ((s_dt h mod 16) * 16 + s_st h mod 16) ++ be 2 0 ++
      be 8 (s_dstia h) ++ be 8 (s_srcia h) ++
      fit (addr_len (s_dt h)) (s_rawdst h) ++ fit (addr_len (s_st h)) (s_rawsrc h) ++ pb).

Definition scion_encode (fx : bool) (paylen : N) (h : scion) : res bytes :=
  scion_encode_nofix (if fx then scion_fix paylen h else h).

(** the struct after SerializeTo *)
Definition scion_canon (fx : bool) (paylen : N) (h : scion) : scion :=
  let h' := if fx then scion_fix paylen h else h in
  mkScion (s_version h') (s_tc h') (s_flowid h') (s_nexthdr h') (s_hdrlen h') (s_paylen h')
          (s_pathtype h') (s_dt h') (s_st h') (s_dstia h') (s_srcia h') (s_rawdst h') (s_rawsrc h')
          (path_canon (s_path h')).

Definition scion_decode_gen (pd : N -> bytes -> res (path * bytes)) (data : bytes) : res (scion * bytes) :=
  if Nat.ltb (length data) cmn_hdr_len then Err else
  '(line, r) <- wordP 4 data ;;
  '(nh, r) <- wordP 1 r ;;
  '(hl, r) <- wordP 1 r ;;
  '(pl, r) <- wordP 2 r ;;
  '(pt, r) <- wordP 1 r ;;
  '(tl, r) <- wordP 1 r ;;
  '(_, r) <- wordP 2 r ;;
  let dt := (tl / 16) mod 16 in
  let st := tl mod 16 in
  (* DecodeAddrHdr(data[CmnHdrLen:]) *)
  let alen := addr_hdr_len dt st in
  if Nat.ltb (length r) alen then Err else
  '(dia, r) <- wordP 8 r ;;
  '(sia, r) <- wordP 8 r ;;
  '(rd, r) <- takeP (addr_len dt) r ;;
  '(rs, r) <- takeP (addr_len st) r ;;
  (* path *)
  let hdr_bytes := (N.to_nat hl * line_len)%nat in
  if Nat.ltb hdr_bytes (cmn_hdr_len + alen) then Err else
  let plen := (hdr_bytes - cmn_hdr_len - alen)%nat in
  if Nat.ltb (length data) (cmn_hdr_len + alen + plen) then Err else
  '(pb, payload) <- takeP plen r ;;
  '(p, _) <- pd pt pb ;;
  Ok (mkScion (line / 2 ^ 28) ((line / 2 ^ 20) mod 256) (line mod 2 ^ 20) nh hl pl pt dt st
              dia sia rd rs p, payload).

(** fresh layer (strict decoding): unknown path types are rejected *)
Definition scion_decode : bytes -> res (scion * bytes) := scion_decode_gen path_decode.
(** layer on which RecyclePaths() was called (router, dispatcher) *)
Definition scion_decode_r : bytes -> res (scion * bytes) := scion_decode_gen path_decode_r.

Definition wf_scion_nolen (h : scion) : Prop :=
  s_version h < 16 /\ s_tc h < 256 /\ s_flowid h < 2 ^ 20 /\ s_nexthdr h < 256 /\
  s_pathtype h = path_type (s_path h) /\
  s_dt h < 16 /\ s_st h < 16 /\ s_dstia h < 2 ^ 64 /\ s_srcia h < 2 ^ 64 /\
  length (s_rawdst h) = addr_len (s_dt h) /\ wf_bytes (s_rawdst h) /\
  length (s_rawsrc h) = addr_len (s_st h) /\ wf_bytes (s_rawsrc h) /\
  wf_path (s_path h) /\ (forall d, s_path h <> PDecoded d).

Definition wf_scion (h : scion) : Prop :=
  wf_scion_nolen h /\ s_paylen h < 65536 /\
  (N.to_nat (s_hdrlen h) * line_len)%nat = scn_len h /\ s_hdrlen h < 256.

Definition is_decoded (p : path) : bool := match p with PDecoded _ => true | _ => false end.

Definition wf_scion_nolenb (h : scion) : bool :=
  (s_version h <? 16) && (s_tc h <? 256) && (s_flowid h <? 2 ^ 20) && (s_nexthdr h <? 256) &&
  (s_pathtype h =? path_type (s_path h)) &&
  (s_dt h <? 16) && (s_st h <? 16) && (s_dstia h <? 2 ^ 64) && (s_srcia h <? 2 ^ 64) &&
  Nat.eqb (length (s_rawdst h)) (addr_len (s_dt h)) && wf_bytesb (s_rawdst h) &&
  Nat.eqb (length (s_rawsrc h)) (addr_len (s_st h)) && wf_bytesb (s_rawsrc h) &&
  wf_pathb (s_path h) && negb (is_decoded (s_path h)).

Definition wf_scionb (h : scion) : bool :=
  wf_scion_nolenb h && (s_paylen h <? 65536) &&
  Nat.eqb (N.to_nat (s_hdrlen h) * line_len) (scn_len h) && (s_hdrlen h <? 256).

(** reserved: bytes 10 and 11 of the common header, and the reserved bits of the path *)
Definition mask_scion (bs : bytes) : bytes :=
  let hl := nth 5 bs 0 in
  let pt := nth 8 bs 0 in
  let tl := nth 9 bs 0 in
  let alen := addr_hdr_len ((tl / 16) mod 16) (tl mod 16) in
  let plen := (N.to_nat hl * line_len - cmn_hdr_len - alen)%nat in
  firstn 10 bs ++ [0; 0] ++ firstn alen (skipn cmn_hdr_len bs) ++
  mask_path pt (firstn plen (skipn (cmn_hdr_len + alen) bs)) ++
  skipn (cmn_hdr_len + alen + plen) bs.

(** HdrLen announces more header bytes than the data holds *)
Definition scion_overlong (bs : bytes) : bool :=
  Nat.leb cmn_hdr_len (length bs) && Nat.ltb (length bs) (N.to_nat (nth 5 bs 0) * line_len).

Definition scion_eqb (a b : scion) : bool :=
  (s_version a =? s_version b) && (s_tc a =? s_tc b) && (s_flowid a =? s_flowid b) &&
  (s_nexthdr a =? s_nexthdr b) && (s_hdrlen a =? s_hdrlen b) && (s_paylen a =? s_paylen b) &&
  (s_pathtype a =? s_pathtype b) && (s_dt a =? s_dt b) && (s_st a =? s_st b) &&
  (s_dstia a =? s_dstia b) && (s_srcia a =? s_srcia b) &&
  bytes_eqb (s_rawdst a) (s_rawdst b) && bytes_eqb (s_rawsrc a) (s_rawsrc b) &&
  path_eqb (s_path a) (s_path b).

(** a header carrying a fully decoded path ([scion.Decoded]) is serialized like the header carrying
    the raw form of that path (Decoded.ToRaw); decoding always yields the raw form *)
Definition to_raw (d : dec_path) : path :=
  match dec_encode d with
  | Ok e => PScion (mkRaw (dp_base d) e)
  | _ => PDecoded d
  end.

Definition scion_undecoded (h : scion) : scion :=
  match s_path h with
  | PDecoded d =>
    mkScion (s_version h) (s_tc h) (s_flowid h) (s_nexthdr h) (s_hdrlen h) (s_paylen h)
            (s_pathtype h) (s_dt h) (s_st h) (s_dstia h) (s_srcia h) (s_rawdst h) (s_rawsrc h) (to_raw d)
  | _ => h
  end.

(** ------------------------------------------------------------ ParseAddr / PackAddr *)
Inductive host :=
| HostIP4 (b : bytes)          (* 4 bytes *)
| HostIP6 (b : bytes)          (* 16 bytes, not an IPv4-mapped address *)
| HostSVC (s : N).             (* uint16 *)

Definition T4Ip : N := 0.
Definition T4Svc : N := 4.
Definition T16Ip : N := 3.

Definition is_v4mapped (b : bytes) : bool :=
  bytes_eqb (firstn 12 b) [0;0;0;0;0;0;0;0;0;0;255;255].

(** ParseAddr: [copy(raw4[:], raw)] never panics; [raw[:2]] panics when cap(raw) < 2.
    netip.AddrFrom16 of an IPv4-mapped address is a distinct 16-byte address, which
    PackAddr later unmaps; the model keeps the 16 bytes. *)
Definition parse_addr (t : N) (raw : bytes) : res host :=
  if t =? T4Ip then Ok (HostIP4 (fit 4 raw))
  else if t =? T4Svc then '(s, _) <- wordP 2 raw ;; Ok (HostSVC s)
  else if t =? T16Ip then Ok (HostIP6 (fit 16 raw))
  else Err.

Definition pack_addr (h : host) : N * bytes :=
  match h with
  | HostIP4 b => (T4Ip, b)
  | HostIP6 b => if is_v4mapped b then (T4Ip, skipn 12 b) else (T16Ip, b)
  | HostSVC s => (T4Svc, be 2 s ++ [0; 0])
  end.

Definition wf_host (h : host) : Prop :=
  match h with
  | HostIP4 b => length b = 4%nat /\ wf_bytes b
  | HostIP6 b => length b = 16%nat /\ wf_bytes b /\ is_v4mapped b = false
  | HostSVC s => s < 65536
  end.

(** reserved: the last two bytes of a service address *)
Definition mask_addr (t : N) (raw : bytes) : bytes :=
  if t =? T4Svc then firstn 2 raw ++ [0; 0] else raw.

Definition host_eqb (a b : host) : bool :=
  match a, b with
  | HostIP4 x, HostIP4 y => bytes_eqb x y
  | HostIP6 x, HostIP6 y => bytes_eqb x y
  | HostSVC x, HostSVC y => x =? y
  | _, _ => false
  end.

End HdrScion.
