(** C22 — the segment-identifier accumulator.
    Construction (control/beaconing/extender.go): hop [i] of a segment is MACed with
    beta_i, where beta_0 = Info.SegmentID and beta_{i+1} = beta_i xor sigma_i,
    sigma_i = first two bytes of hop i's MAC ([extractBeta]); the peer hop fields of
    AS entry [i] are MACed with beta_{i+1} ([peerBeta]).
    Path combination (private/path/combinator/graph.go [calculateBeta]) chooses the
    SegID written into the info field.
    Forwarding (router/dataplane.go): [updateNonConsDirIngressSegID] and
    [processEgress] update the SegID; [verifyCurrentMAC] uses the current value.
    MAC values are symbolic: the sigmas are arbitrary numbers. Definitions only. *)
From Coq Require Import List NArith Bool Arith.
From Scion Require Import Lib.Check.
Import ListNotations.
Local Open Scope N_scope.

Module SegID.

(** beta_0 .. beta_n for sigmas sigma_0 .. sigma_{n-1} *)
Fixpoint betas (b0 : N) (sg : list N) : list N :=
  match sg with
  | [] => [b0]
  | s :: t => b0 :: betas (N.lxor b0 s) t
  end.

Definition beta (b0 : N) (sg : list N) (i : nat) : N := nth i (betas b0 sg) 0.

(** extender.go [extractBeta]: fold over all entries so far *)
Definition extract_beta (b0 : N) (sg : list N) : N := fold_left N.lxor sg b0.

(** the SegID a hop field was created with: regular hop [i] -> beta_i, peer hop of entry [i] -> beta_{i+1} *)
Definition construction_segid (b0 : N) (sg : list N) (i : nat) (peer : bool) : N :=
  if peer then beta b0 sg (S i) else beta b0 sg i.

(** graph.go [calculateBeta]: [is_down] = segment used in construction direction;
    [len] = number of AS entries; [shortcut] = index of the entry where the
    segment is entered/left; [peer] = the solution edge is a peering edge. *)
Definition calc_index (is_down : bool) (len shortcut : nat) (peer : bool) : nat :=
  if is_down then (if peer then S shortcut else shortcut)
  else let index := (len - 1)%nat in
       if Nat.eqb index shortcut && peer then S index else index.

Definition calculate_beta (b0 : N) (sg : list N) (is_down : bool) (shortcut : nat) (peer : bool) : N :=
  extract_beta b0 (firstn (calc_index is_down (length sg) shortcut peer) sg).

(** One router handling the current hop field.
    [in_ext]: the packet came in over an external interface and this hop field is
    the one current on arrival (ingressFromLink <> 0 and no cross-over was done yet);
    [eg_ext]: this router sends the packet out over an external interface with
    this hop field current (processEgress).  Returns (SegID used by
    verifyCurrentMAC, SegID left in the info field). *)
Record visit := { in_ext : bool; eg_ext : bool }.

Definition rstep (consdir peer : bool) (sigma segid : N) (v : visit) : N * N :=
  let s1 := if negb consdir && in_ext v && negb peer then N.lxor segid sigma else segid in
  let s2 := if consdir && eg_ext v && negb peer then N.lxor s1 sigma else s1 in
  (s1, s2).

(** all routers of one AS handling one hop field, in order *)
Fixpoint hop_walk (consdir peer : bool) (sigma segid : N) (vs : list visit) : list N * N :=
  match vs with
  | [] => ([], segid)
  | v :: t => let '(u, s') := rstep consdir peer sigma segid v in
              let '(us, s'') := hop_walk consdir peer sigma s' t in (u :: us, s'')
  end.

(** a hop of the traversal: construction index, whether the peer hop field of
    that entry is used, the mac prefix of the hop field in the packet, the routers *)
Record hopv := { idx : nat; peer : bool; sigma : N; visits : list visit }.

(** traversal of a list of hops; result: per hop the SegIDs used for verification *)
Fixpoint walk (consdir : bool) (segid : N) (hs : list hopv) : list (nat * bool * list N) * N :=
  match hs with
  | [] => ([], segid)
  | h :: t => let '(us, s') := hop_walk consdir (peer h) (sigma h) segid (visits h) in
              let '(r, s'') := walk consdir s' t in ((idx h, peer h, us) :: r, s'')
  end.

(** Shape of the routers of one hop: at least one; only the first can have
    received the packet from outside with this hop current; only the last can
    send it out. *)
Definition vis_ok (entered exits : bool) (vs : list visit) : bool :=
  match vs with
  | [] => false
  | v :: t => Bool.eqb (in_ext v) entered && forallb (fun w => negb (in_ext w)) t &&
              Bool.eqb (eg_ext (last vs v)) exits &&
              forallb (fun w => negb (eg_ext w)) (removelast vs)
  end.

(** ------------------------------------------------------------------
    Correspondence cases (observations of the real code). *)
Inductive case :=
| CBeta (b0 : N) (sg : list N) (is_down : bool) (shortcut : nat) (peer : bool) (impl : N)
    (* calculateBeta on a real segment whose hop MAC prefixes are [sg] *)
| CExtract (b0 : N) (sg : list N) (impl : N)            (* extractBeta *)
| CWalk (consdir : bool) (b0 : N) (sg : list N) (segid0 : N) (hs : list hopv)
        (impl : list (nat * bool * list N))
    (* SegIDs the real routers verified with, hop by hop *)
| CMacIn (b0 : N) (sg : list N) (i : nat) (peer : bool) (impl : N)
    (* the SegID inside the MAC input of a hop field produced by the real extender: [sg] are the
       MAC prefixes of the finished segment, [i] the AS entry, [peer] whether the hop field is one
       of its peer entries; [impl] = the unique 16-bit value under which the hop field's MAC
       verifies with the AS key (found by trying all of them), 65536 if there is none or several *).

Definition obs_eqb (a b : nat * bool * list N) : bool :=
  Nat.eqb (fst (fst a)) (fst (fst b)) && Bool.eqb (snd (fst a)) (snd (fst b)) &&
  list_eqb N.eqb (snd a) (snd b).

(** property oracle: every verification used the construction-time value *)
Definition walk_ok (b0 : N) (sg : list N) (obs : list (nat * bool * list N)) : bool :=
  forallb (fun o => forallb (fun u => N.eqb u (construction_segid b0 sg (fst (fst o)) (snd (fst o)))) (snd o)) obs.

Definition check (c : case) : N :=
  match c with
  | CBeta b0 sg d sc p impl =>
    (* oracle: the value written into the info field is the construction-time
       value of the first hop field the packet is verified against *)
    let first_idx := if d then sc else (length sg - 1)%nat in
    let first_peer := if d then p else Nat.eqb (length sg - 1) sc && p in
    Check.verdict (N.eqb (calculate_beta b0 sg d sc p) impl)
                  (N.eqb impl (construction_segid b0 sg first_idx first_peer))
  | CExtract b0 sg impl => Check.verdict (N.eqb (extract_beta b0 sg) impl) true
  | CWalk cd b0 sg s0 hs impl =>
    Check.verdict (list_eqb obs_eqb (fst (walk cd s0 hs)) impl) (walk_ok b0 sg impl)
  | CMacIn b0 sg i p impl =>
    (* model of the extender: extractBeta over the entries present at extension time, for a peer
       entry folded with the new hop's MAC prefix; oracle: the construction-time value *)
    let at_ext := extract_beta b0 (firstn i sg) in
    let m := if p then N.lxor at_ext (nth i sg 0) else at_ext in
    Check.verdict (N.eqb m impl) (N.eqb impl (construction_segid b0 sg i p))
  end.

Definition diag (c : case) : list (nat * bool * list N) :=
  match c with
  | CBeta b0 sg d sc p _ => [(0%nat, false, [calculate_beta b0 sg d sc p])]
  | CExtract b0 sg _ => [(0%nat, false, [extract_beta b0 sg])]
  | CWalk cd _ _ s0 hs _ => fst (walk cd s0 hs)
  | CMacIn b0 sg i p _ =>
    [(i, p, [if p then N.lxor (extract_beta b0 (firstn i sg)) (nth i sg 0) else extract_beta b0 (firstn i sg)])]
  end.

End SegID.
