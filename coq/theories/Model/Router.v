(** Model of the border router's fast path for SCION-type paths
    ([scionPacketProcessor.process] in router/dataplane.go and everything it
    calls), on a DECODED packet record.  Definitions only.

    The check order is exactly the order of [process()]:
      parsePath ; determinePeer ; validateHopExpiry ; validateIngressID ;
      validatePktLen ; validateTransitUnderlaySrc ; validateSrcDstIA ;
      validateSrcHost ; updateNonConsDirIngressSegID ; verifyCurrentMAC ;
      handleIngressRouterAlert ;
      if DstIA = local then resolveInbound
      else (if IsXover && !peering then doXover ; validateHopExpiry ; verifyCurrentMAC) ;
           egress := egressInterface ; validateEgressID ; handleEgressRouterAlert ;
           validateEgressUp ; if egress is External then processEgress.

    The hop-field MAC is a parameter [macq : segid -> timestamp -> exptime ->
    cons_ingress -> cons_egress -> option (6 bytes)].  Theorems instantiate it
    with [fun .. => Some (mac ..)] for an arbitrary total [mac]; for execution
    it is a finite table computed on the Go side with the real key, and a
    lookup miss is the distinct result [MacMiss] (never a rejection).

    EPIC, one-hop and empty paths, BFD, the SCMP construction of the slow path
    and port dispatching are not modelled here; [result] has room for them. *)
From Coq Require Import List NArith Bool.
From Scion Require Import Lib.Check.
Import ListNotations.
Local Open Scope N_scope.

Module Router.

(** * Constants (compared with the Go constants by [CConst] cases every run) *)
Definition CmnHdrLen : N := 12.
Definition IABytes : N := 8.
Definition MetaLen : N := 4.
Definition InfoLen : N := 8.
Definition HopLen : N := 12.
Definition MacLen : N := 6.
Definition MaxHops : N := 64.
Definition LineLen : N := 4.
Definition EndhostPort : N := 30041.
Definition SibBase : N := 65536.            (* router.VerifSiblingBase *)
Definition ExpUnitNs : N := 337500000000.   (* path.MaxTTL / 256 in ns *)
Definition SVCMcast : N := 32768.

Definition T4Ip : N := 0.
Definition T4Svc : N := 4.
Definition T16Ip : N := 3.

Definition ScmpDestUnreachable : N := 1.
Definition ScmpParameterProblem : N := 4.
Definition ScmpExternalInterfaceDown : N := 5.
Definition ScmpInternalConnectivityDown : N := 6.
Definition CodeNoRoute : N := 0.
Definition CodeInvalidPacketSize : N := 19.
Definition CodeInvalidSourceAddress : N := 33.
Definition CodeInvalidDestinationAddress : N := 34.
Definition CodeInvalidPath : N := 48.
Definition CodeUnknownHopFieldIngress : N := 49.
Definition CodeUnknownHopFieldEgress : N := 50.
Definition CodeInvalidHopFieldMAC : N := 51.
Definition CodePathExpired : N := 52.
Definition CodeInvalidSegmentChange : N := 53.

(** constant table: index -> value, compared with what the Go side prints *)
Definition const_value (k : N) : option N :=
  match k with
  | 0 => Some CmnHdrLen | 1 => Some IABytes | 2 => Some MetaLen | 3 => Some InfoLen
  | 4 => Some HopLen | 5 => Some MacLen | 6 => Some MaxHops | 7 => Some LineLen
  | 8 => Some EndhostPort | 9 => Some SibBase | 10 => Some ExpUnitNs | 11 => Some SVCMcast
  | 12 => Some T4Ip | 13 => Some T4Svc | 14 => Some T16Ip
  | 15 => Some ScmpDestUnreachable | 16 => Some ScmpParameterProblem
  | 17 => Some ScmpExternalInterfaceDown | 18 => Some ScmpInternalConnectivityDown
  | 19 => Some CodeNoRoute | 20 => Some CodeInvalidPacketSize
  | 21 => Some CodeInvalidSourceAddress | 22 => Some CodeInvalidDestinationAddress
  | 23 => Some CodeInvalidPath | 24 => Some CodeUnknownHopFieldIngress
  | 25 => Some CodeUnknownHopFieldEgress | 26 => Some CodeInvalidHopFieldMAC
  | 27 => Some CodePathExpired | 28 => Some CodeInvalidSegmentChange
  (* topology.LinkType numbering: Unset Core Parent Child Peer *)
  | 29 => Some 0 | 30 => Some 1 | 31 => Some 2 | 32 => Some 3 | 33 => Some 4
  (* router.LinkScope numbering: Internal Sibling External *)
  | 34 => Some 0 | 35 => Some 1 | 36 => Some 2
  (* dispositions pDiscard pForward pSlowPath pDone *)
  | 37 => Some 0 | 38 => Some 1 | 39 => Some 2 | 40 => Some 3
  | _ => None
  end.

(** * Configuration *)
Inductive scope := Internal | Sibling | External.
Inductive linktype := Unset | Core | Parent | Child | Peer.

Definition scope_code (s : scope) : N := match s with Internal => 0 | Sibling => 1 | External => 2 end.
Definition lt_code (l : linktype) : N :=
  match l with Unset => 0 | Core => 1 | Parent => 2 | Child => 3 | Peer => 4 end.
Definition scope_eqb (a b : scope) : bool := N.eqb (scope_code a) (scope_code b).
Definition lt_eqb (a b : linktype) : bool := N.eqb (lt_code a) (lt_code b).

(** One interface id known to this router.  [if_link] is the id of the link
    that [dataPlane.interfaces[if_id]] points to: the interface id itself for
    an external interface owned by this router, [SibBase + k] for an interface
    owned by sibling router [k] (all interfaces of one sibling share the link). *)
Record iface := mkIf {
  if_id : N; if_scope : scope; if_lt : linktype; if_nbr : N; if_up : bool; if_link : N }.

Record cfg := mkCfg {
  c_ia : N;
  c_ifs : list iface;                       (* interface 0 (internal link) is implicit *)
  c_svcs : list (N * (list N * N));         (* svc base -> (ip bytes, port); at most one backend each *)
  c_local_host : list N;                    (* used by the slow path (other builders) *)
  c_port_lo : N; c_port_hi : N;             (* dispatched port range (other builders) *)
  c_scmp_auth : bool }.

Definition internal_if : iface := mkIf 0 Internal Unset 0 true 0.

Fixpoint find_if (l : list iface) (id : N) : option iface :=
  match l with
  | [] => None
  | f :: t => if N.eqb (if_id f) id then Some f else find_if t id
  end.

(** [dataPlane.interfaces[id]] *)
Definition get_if (c : cfg) (id : N) : option iface :=
  if N.eqb id 0 then Some internal_if else find_if (c_ifs c) id.

(** [dataPlane.linkTypes[id]] (zero value Unset where nothing was configured) *)
Definition lt_of (c : cfg) (id : N) : linktype :=
  match get_if c id with Some f => if_lt f | None => Unset end.

Fixpoint lookup_svc (l : list (N * (list N * N))) (svc : N) : option (list N * N) :=
  match l with
  | [] => None
  | (k, v) :: t => if N.eqb k svc then Some v else lookup_svc t svc
  end.

(** the link a packet arrived on *)
Inductive ingress := InExt (ifid : N) | InSib (k : N) | InInt.
Definition ing_ifid (i : ingress) : N := match i with InExt n => n | _ => 0 end.   (* Link.IfID() *)
Definition ing_link (i : ingress) : N :=
  match i with InExt n => n | InSib k => SibBase + k | InInt => 0 end.

(** * Decoded packet *)
Record info := mkInfo {
  i_peer : bool; i_consdir : bool; i_segid : N; i_ts : N;
  i_rsv : N (* reserved bits: (flags byte land 252) * 256 + second byte *) }.

Record hop := mkHop {
  h_ialert : bool; h_ealert : bool; h_exp : N; h_in : N; h_eg : N; h_mac : list N;
  h_rsv : N (* flags byte land 252 *) }.

Record pkt := mkPkt {
  p_dst_ia : N; p_src_ia : N;
  p_dst_type : N; p_src_type : N;           (* 4-bit type/length codes *)
  p_dst_raw : list N; p_src_raw : list N;
  p_pay_len : N;                            (* PayloadLen of the common header *)
  p_pay_actual : N;                         (* bytes that really follow the SCION header *)
  p_l4_port : option N;                     (* result of dataPlane.dstScionPort; None = error *)
  p_curr_inf : N; p_curr_hf : N;
  p_seg0 : N; p_seg1 : N; p_seg2 : N;
  p_meta_rsv : N;                           (* the 6 reserved bits of the path meta header *)
  p_infos : list info; p_hops : list hop }.

Definition addr_type_len (t : N) : N := LineLen * (1 + N.land t 3).
Definition addr_len (p : pkt) : N :=
  2 * IABytes + addr_type_len (p_dst_type p) + addr_type_len (p_src_type p).

(** [scion.Base.DecodeFromBytes]: NumINF / NumHops, or a decoding error *)
Definition seglen_ok (p : pkt) : bool :=
  negb ((0 <? p_seg2 p) && ((p_seg1 p =? 0) || (p_seg0 p =? 0))) &&
  negb ((p_seg2 p =? 0) && (0 <? p_seg1 p) && (p_seg0 p =? 0)).
Definition num_inf (p : pkt) : N :=
  if 0 <? p_seg2 p then 3 else if 0 <? p_seg1 p then 2 else if 0 <? p_seg0 p then 1 else 0.
Definition num_hops (p : pkt) : N := p_seg0 p + p_seg1 p + p_seg2 p.

Definition inf_index_for_hf (p : pkt) (hf : N) : N :=
  if hf <? p_seg0 p then 0 else if hf <? p_seg0 p + p_seg1 p then 1 else 2.

Definition nthN {A} (l : list A) (n : N) : option A := nth_error l (N.to_nat n).
Fixpoint set_nth {A} (l : list A) (n : nat) (x : A) : list A :=
  match l, n with
  | [], _ => []
  | _ :: t, O => x :: t
  | y :: t, S m => y :: set_nth t m x
  end.
Definition set_nthN {A} (l : list A) (n : N) (x : A) : list A := set_nth l (N.to_nat n) x.

(** header geometry: byte offsets inside the packet *)
Definition meta_off (p : pkt) : N := CmnHdrLen + addr_len p.
Definition inf_off (p : pkt) (k : N) : N := meta_off p + MetaLen + InfoLen * k.
Definition hop_off (p : pkt) (k : N) : N := meta_off p + MetaLen + InfoLen * num_inf p + HopLen * k.
(** [currentInfoPointer] / [currentHopPointer] *)
Definition inf_ptr (p : pkt) : N := inf_off p (p_curr_inf p).
Definition hop_ptr (p : pkt) : N := hop_off p (p_curr_hf p).

Definition is_first_hop (p : pkt) : bool := p_curr_hf p =? 0.
Definition is_last_hop (p : pkt) : bool := p_curr_hf p + 1 =? num_hops p.
Definition is_xover (p : pkt) : bool :=
  (p_curr_hf p + 1 <? num_hops p) && negb (p_curr_inf p =? inf_index_for_hf p (p_curr_hf p + 1)).
Definition is_first_hop_after_xover (p : pkt) : bool :=
  (0 <? p_curr_inf p) && (0 <? p_curr_hf p) &&
  (p_curr_inf p - 1 =? inf_index_for_hf p (p_curr_hf p - 1)).

(** host addresses ([slayers.ParseAddr]) *)
Inductive host := HIP (ip : list N) | HSvc (svc : N) | HBad.
Definition parse_host (t : N) (raw : list N) : host :=
  if t =? T4Ip then HIP raw
  else if t =? T16Ip then HIP raw
  else if t =? T4Svc then
    match raw with a :: b :: _ => HSvc (a * 256 + b) | _ => HBad end
  else HBad.
Definition all_zero (l : list N) : bool := forallb (fun b => b =? 0) l.
Definition is_4in6 (ip : list N) : bool :=
  (N.of_nat (length ip) =? 16) && all_zero (firstn 10 ip) &&
  list_eqb N.eqb (firstn 2 (skipn 10 ip)) [255; 255].
Definition is_unspecified (ip : list N) : bool := all_zero ip.
Definition svc_base (s : N) : N := if SVCMcast <=? s then s - SVCMcast else s.

(** * Results *)
Inductive spreq :=
| SpScmp (ty code ptr : N)       (* SCMP error to be generated by the slow path *)
| SpAlertIngress | SpAlertEgress (* router alert: traceroute handling *).

Inductive result :=
| Panic | Discard | Done
| Forward (egress : N) (out : pkt) (dst : option (list N * N))
| SlowPath (r : spreq) (egress : N) (out : pkt)
| MacMiss      (* the MAC table of the case lacks an entry the model needs: harness error *)
| BadInput.    (* record inconsistent with its own geometry: harness error *)

(** * validateEgressID as a function of what it looks at (C06) *)
Inductive egress_decision := EgOk | EgUnknown | EgInvalidPath | EgInvalidSegChange.

Definition intra_pair (i e : linktype) : bool :=
  match i, e with
  | Core, Core | Child, Parent | Parent, Child | Child, Peer | Peer, Child => true
  | _, _ => false
  end.
Definition xover_pair (i e : linktype) : bool :=
  match i, e with
  | Core, Child | Child, Core | Child, Child => true
  | _, _ => false
  end.

(** [from0]: the ingress link has interface id 0 (internal or sibling link);
    [ilt] = linkTypes[ingress id]; [eg] = interfaces[egress id]. *)
Definition validate_egress (from0 : bool) (ilt : linktype) (eg : option iface) (xover : bool)
  : egress_decision :=
  match eg with
  | None => EgUnknown
  | Some e =>
    if from0 && negb (scope_eqb (if_scope e) External) then EgUnknown
    else if negb xover then
      if from0 then EgOk
      else if intra_pair ilt (if_lt e) then EgOk else EgInvalidPath
    else if xover_pair ilt (if_lt e) then EgOk else EgInvalidSegChange
  end.

(** * The fast path *)
Record st := mkSt {
  s_p : pkt;         (* the packet buffer (path part is updated in place) *)
  s_hop : hop;       (* p.hopField *)
  s_inf : info;      (* p.infoField *)
  s_peer : bool;     (* p.peering *)
  s_xover : bool;    (* p.effectiveXover *)
  s_eg : N }.        (* p.pkt.egress *)

Inductive outcome := Ok (s : st) | Stop (r : result).
Definition bind (o : outcome) (f : st -> outcome) : outcome :=
  match o with Ok s => f s | Stop r => Stop r end.
Notation "o >>= f" := (bind o f) (at level 50, left associativity).

Definition set_p (s : st) (p : pkt) : st := mkSt p (s_hop s) (s_inf s) (s_peer s) (s_xover s) (s_eg s).
Definition with_meta (p : pkt) (ci ch rsv : N) : pkt :=
  mkPkt (p_dst_ia p) (p_src_ia p) (p_dst_type p) (p_src_type p) (p_dst_raw p) (p_src_raw p)
        (p_pay_len p) (p_pay_actual p) (p_l4_port p) ci ch (p_seg0 p) (p_seg1 p) (p_seg2 p) rsv
        (p_infos p) (p_hops p).
Definition with_infos (p : pkt) (l : list info) : pkt :=
  mkPkt (p_dst_ia p) (p_src_ia p) (p_dst_type p) (p_src_type p) (p_dst_raw p) (p_src_raw p)
        (p_pay_len p) (p_pay_actual p) (p_l4_port p) (p_curr_inf p) (p_curr_hf p)
        (p_seg0 p) (p_seg1 p) (p_seg2 p) (p_meta_rsv p) l (p_hops p).
Definition with_hops (p : pkt) (l : list hop) : pkt :=
  mkPkt (p_dst_ia p) (p_src_ia p) (p_dst_type p) (p_src_type p) (p_dst_raw p) (p_src_raw p)
        (p_pay_len p) (p_pay_actual p) (p_l4_port p) (p_curr_inf p) (p_curr_hf p)
        (p_seg0 p) (p_seg1 p) (p_seg2 p) (p_meta_rsv p) (p_infos p) l.

(** [InfoField.UpdateSegID]: xor with the first two bytes of the carried MAC *)
Definition mac_prefix (m : list N) : N :=
  match m with a :: b :: _ => a * 256 + b | _ => 0 end.
Definition upd_segid (i : info) (h : hop) : info :=
  mkInfo (i_peer i) (i_consdir i) (N.lxor (i_segid i) (mac_prefix (h_mac h))) (i_ts i) (i_rsv i).
(** [Raw.SetInfoField] re-serializes the whole info field: reserved bits become 0 *)
Definition ser_info (i : info) : info := mkInfo (i_peer i) (i_consdir i) (i_segid i) (i_ts i) 0.
(** [Raw.SetHopField] likewise *)
Definition ser_hop (h : hop) : hop :=
  mkHop (h_ialert h) (h_ealert h) (h_exp h) (h_in h) (h_eg h) (h_mac h) 0.
(** [Raw.IncPath]: pointer update, and [PathMeta.SerializeTo] clears the reserved bits.
    Caller guarantees CurrHF < NumHops - 1. *)
Definition inc_path (p : pkt) : pkt :=
  with_meta p (inf_index_for_hf p (p_curr_hf p + 1)) (p_curr_hf p + 1) 0.

Section WithMac.
Variable macq : N -> N -> N -> N -> N -> option (list N).
Variable c : cfg.
Variable now : N.          (* nanoseconds since the epoch *)
Variable ing : ingress.

Definition from0 : bool := ing_ifid ing =? 0.
Definition slow (ty code ptr : N) (s : st) : outcome :=
  Stop (SlowPath (SpScmp ty code ptr) (s_eg s) (s_p s)).

Definition well_formed (p : pkt) : bool :=
  (N.of_nat (length (p_infos p)) =? num_inf p) && (N.of_nat (length (p_hops p)) =? num_hops p).

(** decoding of the path by [scion.Raw.DecodeFromBytes], then [parsePath] *)
Definition parse_path (p : pkt) : outcome :=
  if negb (seglen_ok p) || (MaxHops <? num_hops p) then Stop Discard
  else if negb (well_formed p) then Stop BadInput
  else
    match nthN (p_hops p) (p_curr_hf p) with
    | None => Stop Discard
    | Some h =>
      match nthN (p_infos p) (p_curr_inf p) with
      | None => Stop Discard
      | Some i =>
        let singleton := (p_seg0 p =? 1) || (p_seg1 p =? 1) || (p_seg2 p =? 1) in
        if negb (i_peer i) && singleton then Stop Discard
        else if negb (p_curr_inf p =? inf_index_for_hf p (p_curr_hf p)) then Stop Discard
        else Ok (mkSt p h i false false 0)
      end
    end.

Definition determine_peer (s : st) : outcome :=
  let p := s_p s in
  if negb (i_peer (s_inf s)) then Ok s
  else if p_seg0 p =? 0 then Stop Discard
  else if p_seg1 p =? 0 then Stop Discard
  else if negb (p_seg2 p =? 0) then Stop Discard
  else
    let peering := (p_curr_hf p =? p_seg0 p - 1) || (p_curr_hf p =? p_seg0 p) in
    Ok (mkSt p (s_hop s) (s_inf s) peering (s_xover s) (s_eg s)).

Definition expired (i : info) (h : hop) : bool :=
  i_ts i * 1000000000 + (h_exp h + 1) * ExpUnitNs <? now.

Definition validate_hop_expiry (s : st) : outcome :=
  if expired (s_inf s) (s_hop s)
  then slow ScmpParameterProblem CodePathExpired (hop_ptr (s_p s)) s
  else Ok s.

Definition validate_ingress_id (s : st) : outcome :=
  let hdr := if i_consdir (s_inf s) then h_in (s_hop s) else h_eg (s_hop s) in
  let code := if i_consdir (s_inf s) then CodeUnknownHopFieldIngress else CodeUnknownHopFieldEgress in
  if negb from0 && negb (ing_ifid ing =? hdr)
  then slow ScmpParameterProblem code (hop_ptr (s_p s)) s
  else Ok s.

Definition validate_pkt_len (s : st) : outcome :=
  if p_pay_len (s_p s) =? p_pay_actual (s_p s) then Ok s
  else slow ScmpParameterProblem CodeInvalidPacketSize 0 s.

(** [ingressInterface()]: where the packet was supposed to enter the AS *)
Definition ingress_interface (s : st) : option N :=
  let p := s_p s in
  if negb (s_peer s) && is_first_hop_after_xover p then
    match nthN (p_infos p) (p_curr_inf p - 1), nthN (p_hops p) (p_curr_hf p - 1) with
    | Some i, Some h => Some (if i_consdir i then h_in h else h_eg h)
    | _, _ => None   (* Go would panic; cannot happen for a well-formed record *)
    end
  else Some (if i_consdir (s_inf s) then h_in (s_hop s) else h_eg (s_hop s)).

Definition validate_transit_underlay_src (s : st) : outcome :=
  if is_first_hop (s_p s) || negb from0 then Ok s
  else
    match ingress_interface s with
    | None => Stop Panic
    | Some id =>
      match get_if c id with
      | Some f =>
        if (if_link f =? ing_link ing) && scope_eqb (if_scope f) Sibling then Ok s
        else Stop Discard
      | None => Stop Discard
      end
    end.

Definition resp_invalid_src_ia (s : st) : outcome :=
  slow ScmpParameterProblem CodeInvalidSourceAddress (CmnHdrLen + IABytes) s.
Definition resp_invalid_dst_ia (s : st) : outcome :=
  slow ScmpParameterProblem CodeInvalidDestinationAddress CmnHdrLen s.

Definition validate_src_dst_ia (s : st) : outcome :=
  let p := s_p s in
  let src_local := p_src_ia p =? c_ia c in
  let dst_local := p_dst_ia p =? c_ia c in
  if from0 then
    if is_first_hop p && negb src_local then resp_invalid_src_ia s
    else if dst_local then resp_invalid_dst_ia s
    else Ok s
  else
    if src_local then resp_invalid_src_ia s
    else if negb (Bool.eqb (is_last_hop p) dst_local) then resp_invalid_dst_ia s
    else Ok s.

Definition validate_src_host (s : st) : outcome :=
  let p := s_p s in
  if negb (p_src_ia p =? c_ia c) then Ok s
  else
    match parse_host (p_src_type p) (p_src_raw p) with
    | HBad => slow ScmpParameterProblem CodeInvalidSourceAddress 0 s
    | HSvc _ => Ok s            (* only IP addresses are checked for being v4-mapped *)
    | HIP ip => if is_4in6 ip then slow ScmpParameterProblem CodeInvalidSourceAddress 0 s else Ok s
    end.

(** write the processor's info field into the buffer at CurrINF *)
Definition store_inf (s : st) (i : info) : st :=
  mkSt (with_infos (s_p s) (set_nthN (p_infos (s_p s)) (p_curr_inf (s_p s)) (ser_info i)))
       (s_hop s) i (s_peer s) (s_xover s) (s_eg s).
Definition store_hop (s : st) (h : hop) : st :=
  mkSt (with_hops (s_p s) (set_nthN (p_hops (s_p s)) (p_curr_hf (s_p s)) (ser_hop h)))
       h (s_inf s) (s_peer s) (s_xover s) (s_eg s).

Definition update_noncons_ingress_segid (s : st) : outcome :=
  if negb (i_consdir (s_inf s)) && negb from0 && negb (s_peer s)
  then Ok (store_inf s (upd_segid (s_inf s) (s_hop s)))
  else Ok s.

Definition mac_of (i : info) (h : hop) : option (list N) :=
  macq (i_segid i) (i_ts i) (h_exp h) (h_in h) (h_eg h).

Definition verify_current_mac (s : st) : outcome :=
  match mac_of (s_inf s) (s_hop s) with
  | None => Stop MacMiss
  | Some m =>
    if list_eqb N.eqb (h_mac (s_hop s)) m then Ok s
    else slow ScmpParameterProblem CodeInvalidHopFieldMAC (hop_ptr (s_p s)) s
  end.

Definition clear_ialert (h : hop) : hop :=
  mkHop false (h_ealert h) (h_exp h) (h_in h) (h_eg h) (h_mac h) (h_rsv h).
Definition clear_ealert (h : hop) : hop :=
  mkHop (h_ialert h) false (h_exp h) (h_in h) (h_eg h) (h_mac h) (h_rsv h).

Definition handle_ingress_router_alert (s : st) : outcome :=
  if from0 then Ok s
  else
    let consdir := i_consdir (s_inf s) in
    let alert := if consdir then h_ialert (s_hop s) else h_ealert (s_hop s) in
    if negb alert then Ok s
    else
      let h' := if consdir then clear_ialert (s_hop s) else clear_ealert (s_hop s) in
      let s' := store_hop s h' in
      Stop (SlowPath SpAlertIngress (s_eg s') (s_p s')).

Definition ingress_part (p : pkt) : outcome :=
  parse_path p >>= determine_peer >>= validate_hop_expiry >>= validate_ingress_id >>=
  validate_pkt_len >>= validate_transit_underlay_src >>= validate_src_dst_ia >>=
  validate_src_host >>= update_noncons_ingress_segid >>= verify_current_mac >>=
  handle_ingress_router_alert.

(** [resolveInbound] / [resolveLocalDst] with the (fake or udpip) internal link's Resolve *)
Definition resolve_inbound (s : st) : result :=
  let p := s_p s in
  match parse_host (p_dst_type p) (p_dst_raw p) with
  | HBad => SlowPath (SpScmp ScmpParameterProblem CodeInvalidDestinationAddress 0) (s_eg s) p
  | HSvc v =>
    match lookup_svc (c_svcs c) (svc_base v) with
    | None => SlowPath (SpScmp ScmpDestUnreachable CodeNoRoute 0) (s_eg s) p
    | Some d => Forward (s_eg s) p (Some d)
    end
  | HIP ip =>
    match p_l4_port p with
    | None => Discard
    | Some port =>
      if is_4in6 ip || is_unspecified ip
      then SlowPath (SpScmp ScmpParameterProblem CodeInvalidDestinationAddress 0) (s_eg s) p
      else Forward (s_eg s) p (Some (ip, port))
    end
  end.

(** [doXover] followed by the second expiry and MAC check *)
Definition do_xover (s : st) : outcome :=
  let p' := inc_path (s_p s) in
  match nthN (p_hops p') (p_curr_hf p'), nthN (p_infos p') (p_curr_inf p') with
  | Some h, Some i => Ok (mkSt p' h i (s_peer s) true (s_eg s))
  | _, _ => Stop Discard
  end.

Definition xover_part (s : st) : outcome :=
  if is_xover (s_p s) && negb (s_peer s)
  then do_xover s >>= validate_hop_expiry >>= verify_current_mac
  else Ok s.

(** [egressInterface()], assigned to [pkt.egress] *)
Definition egress_interface (s : st) : N :=
  if i_consdir (s_inf s) then h_eg (s_hop s) else h_in (s_hop s).
Definition set_egress (s : st) : outcome :=
  Ok (mkSt (s_p s) (s_hop s) (s_inf s) (s_peer s) (s_xover s) (egress_interface s)).

Definition validate_egress_id (s : st) : outcome :=
  match validate_egress from0 (lt_of c (ing_ifid ing)) (get_if c (s_eg s)) (s_xover s) with
  | EgOk => Ok s
  | EgUnknown =>
    slow ScmpParameterProblem
         (if i_consdir (s_inf s) then CodeUnknownHopFieldEgress else CodeUnknownHopFieldIngress)
         (hop_ptr (s_p s)) s
  | EgInvalidPath => slow ScmpParameterProblem CodeInvalidPath (hop_ptr (s_p s)) s
  | EgInvalidSegChange => slow ScmpParameterProblem CodeInvalidSegmentChange (inf_ptr (s_p s)) s
  end.

Definition egress_if (s : st) : iface :=
  match get_if c (s_eg s) with Some f => f | None => internal_if end.

Definition handle_egress_router_alert (s : st) : outcome :=
  let consdir := i_consdir (s_inf s) in
  let alert := if consdir then h_ealert (s_hop s) else h_ialert (s_hop s) in
  if negb alert then Ok s
  else if negb (scope_eqb (if_scope (egress_if s)) External) then Ok s
  else
    let h' := if consdir then clear_ealert (s_hop s) else clear_ialert (s_hop s) in
    let s' := store_hop s h' in
    Stop (SlowPath SpAlertEgress (s_eg s') (s_p s')).

Definition validate_egress_up (s : st) : outcome :=
  if if_up (egress_if s) then Ok s
  else if scope_eqb (if_scope (egress_if s)) External
  then slow ScmpExternalInterfaceDown 0 0 s
  else slow ScmpInternalConnectivityDown 0 0 s.

(** [processEgress] *)
Definition process_egress (s : st) : result :=
  let s1 := if i_consdir (s_inf s) && negb (s_peer s)
            then store_inf s (upd_segid (s_inf s) (s_hop s)) else s in
  let p := s_p s1 in
  if num_hops p <=? p_curr_hf p + 1 then Discard      (* IncPath: path already at end *)
  else Forward (s_eg s1) (inc_path p) None.

Definition finish (s : st) : result :=
  if scope_eqb (if_scope (egress_if s)) External then process_egress s
  else Forward (s_eg s) (s_p s) None.

Definition egress_part (s : st) : outcome :=
  xover_part s >>= set_egress >>= validate_egress_id >>= handle_egress_router_alert >>=
  validate_egress_up.

Definition process_scion (p : pkt) : result :=
  match ingress_part p with
  | Stop r => r
  | Ok s =>
    if p_dst_ia p =? c_ia c then resolve_inbound s
    else match egress_part s with
         | Stop r => r
         | Ok s' => finish s'
         end
  end.

End WithMac.

(** The path-type dispatch of [processPkt] (empty / one-hop / EPIC / BFD) is added by
    the builders of those properties; for packets with a SCION-type path: *)
Definition process := process_scion.

(** * Equality tests on results (for the correspondence check) *)
Definition info_eqb (a b : info) : bool :=
  Bool.eqb (i_peer a) (i_peer b) && Bool.eqb (i_consdir a) (i_consdir b) &&
  (i_segid a =? i_segid b) && (i_ts a =? i_ts b) && (i_rsv a =? i_rsv b).
Definition hop_eqb (a b : hop) : bool :=
  Bool.eqb (h_ialert a) (h_ialert b) && Bool.eqb (h_ealert a) (h_ealert b) &&
  (h_exp a =? h_exp b) && (h_in a =? h_in b) && (h_eg a =? h_eg b) &&
  list_eqb N.eqb (h_mac a) (h_mac b) && (h_rsv a =? h_rsv b).
Definition pkt_eqb (a b : pkt) : bool :=
  (p_dst_ia a =? p_dst_ia b) && (p_src_ia a =? p_src_ia b) &&
  (p_dst_type a =? p_dst_type b) && (p_src_type a =? p_src_type b) &&
  list_eqb N.eqb (p_dst_raw a) (p_dst_raw b) && list_eqb N.eqb (p_src_raw a) (p_src_raw b) &&
  (p_pay_len a =? p_pay_len b) && (p_pay_actual a =? p_pay_actual b) &&
  option_eqb N.eqb (p_l4_port a) (p_l4_port b) &&
  (p_curr_inf a =? p_curr_inf b) && (p_curr_hf a =? p_curr_hf b) &&
  (p_seg0 a =? p_seg0 b) && (p_seg1 a =? p_seg1 b) && (p_seg2 a =? p_seg2 b) &&
  (p_meta_rsv a =? p_meta_rsv b) &&
  list_eqb info_eqb (p_infos a) (p_infos b) && list_eqb hop_eqb (p_hops a) (p_hops b).
Definition spreq_eqb (a b : spreq) : bool :=
  match a, b with
  | SpScmp t c p, SpScmp t' c' p' => (t =? t') && (c =? c') && (p =? p')
  | SpAlertIngress, SpAlertIngress | SpAlertEgress, SpAlertEgress => true
  | _, _ => false
  end.
Definition dst_eqb (a b : option (list N * N)) : bool :=
  option_eqb (fun x y => list_eqb N.eqb (fst x) (fst y) && (snd x =? snd y)) a b.
Definition result_eqb (a b : result) : bool :=
  match a, b with
  | Panic, Panic | Discard, Discard | Done, Done => true
  | Forward e o d, Forward e' o' d' => (e =? e') && pkt_eqb o o' && dst_eqb d d'
  | SlowPath r e o, SlowPath r' e' o' => spreq_eqb r r' && (e =? e') && pkt_eqb o o'
  | _, _ => false
  end.

(** * MAC tables for execution *)
Definition mac_entry := (N * N * N * N * N * list N)%type.
Fixpoint mac_lookup (t : list mac_entry) (sid ts e i g : N) : option (list N) :=
  match t with
  | [] => None
  | (sid', ts', e', i', g', m) :: r =>
    if (sid =? sid') && (ts =? ts') && (e =? e') && (i =? i') && (g =? g') then Some m
    else mac_lookup r sid ts e i g
  end.

(** * Property oracles (booleans over the input and an observed result) *)

(** C06: what the property admits.  [from_inside]: the packet came from inside
    the AS (internal or sibling link). *)
Definition admissible (from_inside : bool) (ilt : linktype) (eg : option iface) (seg_change : bool)
  : bool :=
  match eg with
  | None => false
  | Some e =>
    if from_inside then scope_eqb (if_scope e) External && negb seg_change
    else if seg_change then
      match ilt, if_lt e with
      | Core, Child | Child, Core | Child, Child => true | _, _ => false end
    else
      match ilt, if_lt e with
      | Core, Core | Child, Parent | Parent, Child | Child, Peer | Peer, Child => true
      | _, _ => false end
  end.

(** the hop the packet is forwarded along: (effective segment change?, egress id), computed
    from the input alone *)
Definition peering_of (p : pkt) : bool :=
  match nthN (p_infos p) (p_curr_inf p) with
  | Some i => i_peer i && ((p_curr_hf p =? p_seg0 p - 1) || (p_curr_hf p =? p_seg0 p))
  | None => false
  end.
Definition eff_xover (p : pkt) : bool := is_xover p && negb (peering_of p).

Definition c06_ok (c : cfg) (ing : ingress) (p : pkt) (r : result) : bool :=
  match r with
  | Forward e _ _ =>
    (p_dst_ia p =? c_ia c) && (e =? 0)      (* local delivery: no egress interface involved *)
    || negb (p_dst_ia p =? c_ia c) &&
       admissible (ing_ifid ing =? 0) (lt_of c (ing_ifid ing)) (get_if c e) (eff_xover p)
  | _ => true
  end.

(** C01: MAC validity and expiry of the hop(s) the packet is forwarded along *)
Definition cur_hop (p : pkt) : option hop := nthN (p_hops p) (p_curr_hf p).
Definition cur_inf (p : pkt) : option info := nthN (p_infos p) (p_curr_inf p).

(** the SegID the current hop is verified against: against construction
    direction the ingress router first folds in the carried MAC *)
Definition verif_info (ing : ingress) (p : pkt) (i : info) (h : hop) : info :=
  if negb (i_consdir i) && negb (ing_ifid ing =? 0) && negb (peering_of p)
  then upd_segid i h else i.

Definition hop_ok (macq : N -> N -> N -> N -> N -> option (list N)) (now : N) (i : info) (h : hop)
  : bool :=
  match macq (i_segid i) (i_ts i) (h_exp h) (h_in h) (h_eg h) with
  | Some m => list_eqb N.eqb (h_mac h) m && negb (expired now i h)
  | None => false
  end.

Definition c01_ok macq (c : cfg) (now : N) (ing : ingress) (p : pkt) (r : result) : bool :=
  match r with
  | Forward _ _ _ =>
    match cur_inf p, cur_hop p with
    | Some i, Some h =>
      hop_ok macq now (verif_info ing p i h) h &&
      (if negb (p_dst_ia p =? c_ia c) && eff_xover p then
         match nthN (p_infos p) (p_curr_inf p + 1), nthN (p_hops p) (p_curr_hf p + 1) with
         | Some i', Some h' => hop_ok macq now i' h'
         | _, _ => false
         end
       else true)
    | _, _ => false
    end
  | SlowPath (SpScmp ty code ptr) _ out =>
    (* an InvalidHopFieldMAC / PathExpired answer designates a hop field of the received
       packet, and that hop field really is invalid / expired (for the SegID accumulator and
       timestamp of the info field the router was looking at) *)
    if (ty =? ScmpParameterProblem) && ((code =? CodeInvalidHopFieldMAC) || (code =? CodePathExpired))
    then
      let k := p_curr_hf out in
      (ptr =? hop_off p k) && (k <? num_hops p) &&
      match nthN (p_infos out) (p_curr_inf out), nthN (p_hops p) k with
      | Some i, Some h =>
        if code =? CodePathExpired then expired now i h
        else match macq (i_segid i) (i_ts i) (h_exp h) (h_in h) (h_eg h) with
             | Some m => negb (list_eqb N.eqb (h_mac h) m)
             | None => false end
      | _, _ => false
      end
    else true
  | _ => true
  end.

(** C05 *)
Definition owner_is_sibling_link (c : cfg) (ing : ingress) (id : N) : bool :=
  match get_if c id with
  | Some f => scope_eqb (if_scope f) Sibling && (if_link f =? ing_link ing)
  | None => false
  end.

(** the interface through which the packet claims to have entered the AS *)
Definition claimed_ingress (p : pkt) : option N :=
  match cur_inf p, cur_hop p with
  | Some i, Some h =>
    if negb (peering_of p) && is_first_hop_after_xover p then
      match nthN (p_infos p) (p_curr_inf p - 1), nthN (p_hops p) (p_curr_hf p - 1) with
      | Some i', Some h' => Some (if i_consdir i' then h_in h' else h_eg h')
      | _, _ => None
      end
    else Some (if i_consdir i then h_in h else h_eg h)
  | _, _ => None
  end.

Definition c05_ok (c : cfg) (ing : ingress) (p : pkt) (r : result) : bool :=
  let src_local := p_src_ia p =? c_ia c in
  let dst_local := p_dst_ia p =? c_ia c in
  match r with
  | Forward e _ _ =>
    if ing_ifid ing =? 0 then
      (* from inside the AS: internal network or a sibling router *)
      (if is_first_hop p then src_local
       else match claimed_ingress p with
            | Some id => owner_is_sibling_link c ing id
            | None => false
            end) &&
      negb dst_local
    else
      (* from another AS *)
      negb src_local && Bool.eqb (e =? 0) (is_last_hop p && dst_local) &&
      Bool.eqb (is_last_hop p) dst_local
  | _ => true
  end.

(** C07: the frame.  Record level: everything equal except CurrINF/CurrHF and the SegID of
    the info field that is current on arrival and, at an effective cross-over, of the next one. *)
Definition seg_changeable (p : pkt) (k : N) : bool :=
  (k =? p_curr_inf p) || (eff_xover p && (k =? p_curr_inf p + 1)).
Definition info_frame (changeable : bool) (a b : info) : bool :=
  Bool.eqb (i_peer a) (i_peer b) && Bool.eqb (i_consdir a) (i_consdir b) &&
  (i_ts a =? i_ts b) && (i_rsv a =? i_rsv b) && (changeable || (i_segid a =? i_segid b)).
Fixpoint infos_frame (ch : N -> bool) (k : N) (a b : list info) : bool :=
  match a, b with
  | [], [] => true
  | x :: ta, y :: tb => info_frame (ch k) x y && infos_frame ch (k + 1) ta tb
  | _, _ => false
  end.
Definition frame_ok (p out : pkt) : bool :=
  (p_dst_ia p =? p_dst_ia out) && (p_src_ia p =? p_src_ia out) &&
  (p_dst_type p =? p_dst_type out) && (p_src_type p =? p_src_type out) &&
  list_eqb N.eqb (p_dst_raw p) (p_dst_raw out) && list_eqb N.eqb (p_src_raw p) (p_src_raw out) &&
  (p_pay_len p =? p_pay_len out) && (p_pay_actual p =? p_pay_actual out) &&
  option_eqb N.eqb (p_l4_port p) (p_l4_port out) &&
  (p_seg0 p =? p_seg0 out) && (p_seg1 p =? p_seg1 out) && (p_seg2 p =? p_seg2 out) &&
  (p_meta_rsv p =? p_meta_rsv out) &&
  infos_frame (seg_changeable p) 0 (p_infos p) (p_infos out) &&
  list_eqb hop_eqb (p_hops p) (p_hops out).

(** byte offsets that may differ between the received and the forwarded packet: the first
    byte of the path meta header (CurrINF, CurrHF) and the two SegID bytes of the changeable
    info fields *)
Definition allowed_offsets (p : pkt) : list N :=
  [meta_off p; inf_off p (p_curr_inf p) + 2; inf_off p (p_curr_inf p) + 3] ++
  (if eff_xover p then [inf_off p (p_curr_inf p + 1) + 2; inf_off p (p_curr_inf p + 1) + 3] else []).
Definition memN (x : N) (l : list N) : bool := existsb (N.eqb x) l.

(** byte offsets (by header geometry) of the path-header fields in which two records differ *)
Fixpoint infos_diff (p : pkt) (k : N) (a b : list info) : list N :=
  match a, b with
  | x :: ta, y :: tb =>
    (if i_segid x =? i_segid y then [] else [inf_off p k + 2; inf_off p k + 3]) ++
    (if i_rsv x =? i_rsv y then [] else [inf_off p k; inf_off p k + 1]) ++
    infos_diff p (k + 1) ta tb
  | _, _ => []
  end.
Definition record_diff_offsets (p out : pkt) : list N :=
  (if (p_curr_inf p =? p_curr_inf out) && (p_curr_hf p =? p_curr_hf out) then [] else [meta_off p]) ++
  (if p_meta_rsv p =? p_meta_rsv out then [] else [meta_off p + 1]) ++
  infos_diff p 0 (p_infos p) (p_infos out).

(** the pointer moved by at most one hop (two at an effective cross-over handled by the
    egress router), CurrINF follows it, and every SegID is the old one, possibly xor-ed with
    the MAC prefix of a hop field the router traversed *)
Definition segid_step_ok (p : pkt) (a b : info) : bool :=
  (i_segid a =? i_segid b) ||
  existsb (fun h => i_segid b =? N.lxor (i_segid a) (mac_prefix (h_mac h)))
          (match nthN (p_hops p) (p_curr_hf p) with Some h => [h] | None => [] end ++
           match nthN (p_hops p) (p_curr_hf p + 1) with Some h => [h] | None => [] end).
Fixpoint segids_ok (p : pkt) (a b : list info) : bool :=
  match a, b with
  | x :: ta, y :: tb => segid_step_ok p x y && segids_ok p ta tb
  | _, _ => true
  end.
Definition exact_ok (p out : pkt) : bool :=
  ((p_curr_hf out =? p_curr_hf p) && (p_curr_inf out =? p_curr_inf p) ||
   ((p_curr_hf out =? p_curr_hf p + 1) || (p_curr_hf out =? p_curr_hf p + 2)) &&
   (p_curr_inf out =? inf_index_for_hf p (p_curr_hf out))) &&
  segids_ok p (p_infos p) (p_infos out).

(** reserved bits that the re-serialization of the path meta header / info field clears *)
Definition rsv_clear (p : pkt) : bool :=
  (p_meta_rsv p =? 0) && forallb (fun i => i_rsv i =? 0) (p_infos p).

Definition c07_ok (p : pkt) (r : result) (changed : list N) (inlen outlen : N) : bool :=
  match r with
  | Forward _ out _ =>
    frame_ok p out && exact_ok p out && (inlen =? outlen) &&
    forallb (fun o => memN o (allowed_offsets p)) changed
  | _ => true
  end.

(** compact notation for an observed output packet that differs from the input only in the
    path meta header and the info fields (used by the runner to keep the case files small) *)
Definition patch (p : pkt) (ci ch rsv : N) (infos : list info) : pkt :=
  with_meta (with_infos p infos) ci ch rsv.

(** compact constructors used by the runner (number literals are expensive to parse):
    several fields packed into one number, byte strings as (length, big-endian value) *)
Fixpoint be_bytes (k : nat) (n : N) : list N :=
  match k with
  | O => []
  | S k' => be_bytes k' (n / 256) ++ [n mod 256]
  end.
Definition bytesc (len n : N) : list N := be_bytes (N.to_nat len) n.
(** f = ExpTime * 2^40 + ConsIngress * 2^24 + ConsEgress * 2^8 + reserved ; m = the 6 MAC bytes *)
Definition hopc (ialert ealert : bool) (f m : N) : hop :=
  mkHop ialert ealert (f / 1099511627776 mod 256) (f / 16777216 mod 65536) (f / 256 mod 65536)
        (be_bytes 6 m) (f mod 256).
Definition macc (sid ts e i g m : N) : mac_entry := (sid, ts, e, i, g, be_bytes 6 m).

(** * Cases of the correspondence check *)
Inductive case :=
| CConst (k v : N)     (* Go constant number k has value v *)
| CPkt (c : cfg) (now : N) (ing : ingress) (macs : list mac_entry) (p : pkt)
       (impl : result)                  (* what the real router did *)
       (changed : list N)               (* byte offsets where output differs from input *)
       (inlen outlen : N).

Definition model (cs : case) : result :=
  match cs with
  | CConst _ _ => Done
  | CPkt c now ing macs p _ _ _ _ => process (mac_lookup macs) c now ing p
  end.

Definition agree (cs : case) : bool :=
  match cs with
  | CConst k v => option_eqb N.eqb (const_value k) (Some v)
  | CPkt c now ing macs p impl _ _ _ =>
    result_eqb (process (mac_lookup macs) c now ing p) impl
  end.

Definition check_with (oracle : case -> bool) (cs : case) : N := Check.verdict (agree cs) (oracle cs).

Definition oracle_c06 (cs : case) : bool :=
  match cs with CPkt c _ ing _ p impl _ _ _ => c06_ok c ing p impl | _ => true end.
Definition oracle_c01 (cs : case) : bool :=
  match cs with CPkt c now ing macs p impl _ _ _ => c01_ok (mac_lookup macs) c now ing p impl | _ => true end.
Definition oracle_c05 (cs : case) : bool :=
  match cs with CPkt c _ ing _ p impl _ _ _ => c05_ok c ing p impl | _ => true end.
Definition oracle_c07 (cs : case) : bool :=
  match cs with CPkt _ _ _ _ p impl ch il ol => c07_ok p impl ch il ol | _ => true end.

Definition check_c06 := check_with oracle_c06.
Definition check_c01 := check_with oracle_c01.
Definition check_c05 := check_with oracle_c05.
Definition check_c07 := check_with oracle_c07.

Definition diag (cs : case) : result := model cs.

(** * The documented hop-field MAC input (doc/protocols/scion-header.rst, "Hop Field MAC
    Computation"): 2 zero bytes, SegID (2), Timestamp (4), 1 zero byte, ExpTime (1),
    ConsIngress (2), ConsEgress (2), 2 zero bytes.  [mac-layout] cases compare, for the hop
    fields of the generated packets, (a) the block built by path.MACInput with this layout and
    (b) path.FullMAC with the runner's independent reference (RFC 4493 AES-CMAC over this
    layout) from which the MAC table of the packet cases is filled. *)
Definition mac_input (sid ts e i g : N) : list N :=
  [0; 0] ++ be_bytes 2 sid ++ be_bytes 4 ts ++ [0; e mod 256] ++ be_bytes 2 i ++ be_bytes 2 g ++ [0; 0].

(** cases of the runners that also carry mac-layout checks (a separate type so that [case],
    which other models extend, keeps its constructors) *)
Inductive xcase :=
| XCase (c : case)
| XMacLayout (sid ts e i g : N)
             (blk_hi blk_lo : N)     (* the 16 bytes written by path.MACInput, as two 8-byte words *)
             (ref_hi ref_lo : N)     (* reference full MAC *)
             (impl_hi impl_lo : N).  (* path.FullMAC *)

Definition layout_ok (sid ts e i g bh bl rh rl ih il : N) : bool :=
  list_eqb N.eqb (be_bytes 8 bh ++ be_bytes 8 bl) (mac_input sid ts e i g) &&
  (rh =? ih) && (rl =? il).

Definition xcheck (f : case -> N) (x : xcase) : N :=
  match x with
  | XCase c => f c
  | XMacLayout sid ts e i g bh bl rh rl ih il =>
    let ok := layout_ok sid ts e i g bh bl rh rl ih il in Check.verdict ok ok
  end.
Definition xdiag (x : xcase) : result :=
  match x with XCase c => diag c | XMacLayout _ _ _ _ _ _ _ _ _ _ _ => Done end.

End Router.
