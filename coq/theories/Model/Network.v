(** A network of border routers: topology, per-router configuration derived
    from it, and hop-by-hop forwarding of one packet by iterating the router
    model [Router.process_scion] (C02, C03, C04).  Definitions only.

    An AS has a forwarding key (an abstract key identifier; the hop-field MAC is
    a parameter [macq : key -> segid -> ts -> exp -> in -> eg -> option mac]), a
    number of border routers [0 .. a_nrtr-1] and interfaces; every interface is
    owned by exactly one router.  Router [r] sees an interface it owns as an
    External link with the interface id as link id, and an interface owned by
    router [r'] as Sibling link [SibBase + r' + 1] (this is how the harness
    configures the real routers: [router.VerifIface.Sibling = r' + 1]).

    [forward]: the packet is handed to a router over a link; if the router
    forwards it over an external interface it arrives at the neighbour's
    router owning the remote interface; over a sibling link it arrives at that
    sibling; a packet forwarded over the internal link with a resolved underlay
    destination is delivered and the walk ends. *)
From Coq Require Import List NArith Bool.
From Scion Require Import Lib.Check Model.Router.
Import ListNotations.
Local Open Scope N_scope.

Module Network.
Import Router.

(** * Topology *)
Record nif := mkNif {
  ni_id : N; ni_lt : linktype; ni_nbr : N (* neighbour ISD-AS *); ni_remote : N (* its interface id *);
  ni_owner : N (* router index *); ni_up : bool }.

Record nas := mkAs {
  a_ia : N; a_key : N; a_nrtr : N; a_ifs : list nif;
  a_svcs : list (N * (list N * N)); a_port_lo : N; a_port_hi : N }.

Definition topology := list nas.

Fixpoint find_as (t : topology) (ia : N) : option nas :=
  match t with
  | [] => None
  | a :: r => if a_ia a =? ia then Some a else find_as r ia
  end.

Fixpoint find_nif (l : list nif) (id : N) : option nif :=
  match l with
  | [] => None
  | f :: r => if ni_id f =? id then Some f else find_nif r id
  end.

Definition mirrored (a b : linktype) : bool :=
  match a, b with
  | Core, Core | Parent, Child | Child, Parent | Peer, Peer => true
  | _, _ => false
  end.

Fixpoint distinct (l : list N) : bool :=
  match l with
  | [] => true
  | x :: r => negb (existsb (N.eqb x) r) && distinct r
  end.

(** an interface is one end of a link whose other end exists and points back,
    with the mirrored link type *)
Definition nif_ok (t : topology) (a : nas) (f : nif) : bool :=
  negb (ni_id f =? 0) && (ni_owner f <? a_nrtr a) &&
  match find_as t (ni_nbr f) with
  | Some b =>
    negb (a_ia b =? a_ia a) &&
    match find_nif (a_ifs b) (ni_remote f) with
    | Some g => (ni_nbr g =? a_ia a) && (ni_remote g =? ni_id f) && mirrored (ni_lt f) (ni_lt g)
    | None => false
    end
  | None => false
  end.

Definition wf_topo (t : topology) : bool :=
  distinct (map a_ia t) &&
  forallb (fun a => distinct (map ni_id (a_ifs a)) && forallb (nif_ok t a) (a_ifs a)) t.

Definition all_up (t : topology) : bool := forallb (fun a => forallb ni_up (a_ifs a)) t.

(** * The configuration of router [r] of AS [a] *)
Definition if_of (r : N) (f : nif) : iface :=
  if ni_owner f =? r
  then mkIf (ni_id f) External (ni_lt f) (ni_nbr f) (ni_up f) (ni_id f)
  else mkIf (ni_id f) Sibling (ni_lt f) (ni_nbr f) true (SibBase + (ni_owner f + 1)).

Definition cfg_of (a : nas) (r : N) : cfg :=
  mkCfg (a_ia a) (map (if_of r) (a_ifs a)) (a_svcs a) [] (a_port_lo a) (a_port_hi a) false.

(** * Forwarding *)
Record loc := mkLoc { l_ia : N; l_rtr : N; l_ing : ingress }.

(** what is observed at one router: where, over which link the packet came,
    the egress interface, whether that is an external interface of this router,
    and the mutable path state of the packet it sent *)
Record tstep := mkT {
  t_ia : N; t_rtr : N; t_ing : ingress; t_eg : N; t_ext : bool;
  t_ci : N; t_ch : N; t_sids : list N }.

Inductive stopk := KDiscard | KScmp (ty code : N) | KAlert | KPanic | KDone.

Inductive final :=
| Delivered (ia rtr : N) (ip : list N) (port : N)
| Stopped (ia rtr : N) (k : stopk)
| NoRoute (ia rtr : N)    (* forwarded to an interface that leads nowhere in this topology *)
| OutOfFuel | FMacMiss | FBadInput.

Definition stop_of (r : result) : stopk :=
  match r with
  | Discard => KDiscard
  | SlowPath (SpScmp ty code _) _ _ => KScmp ty code
  | SlowPath _ _ _ => KAlert
  | Panic => KPanic
  | _ => KDone
  end.

Definition obs_step (l : loc) (e : N) (ext : bool) (out : pkt) : tstep :=
  mkT (l_ia l) (l_rtr l) (l_ing l) e ext (p_curr_inf out) (p_curr_hf out) (map i_segid (p_infos out)).

Section WithMac.
Variable macq : N -> N -> N -> N -> N -> N -> option (list N).
Variable t : topology.
Variable now : N.

(** the walk; every step is recorded together with the packet the router sent *)
Fixpoint run_fuel (fuel : nat) (l : loc) (p : pkt) : list (tstep * pkt) * final :=
  match fuel with
  | O => ([], OutOfFuel)
  | S fuel' =>
    match find_as t (l_ia l) with
    | None => ([], NoRoute (l_ia l) (l_rtr l))
    | Some a =>
      match process_scion (macq (a_key a)) (cfg_of a (l_rtr l)) now (l_ing l) p with
      | Forward e out (Some d) =>
        ([(obs_step l e false out, out)], Delivered (a_ia a) (l_rtr l) (fst d) (snd d))
      | Forward e out None =>
        match find_nif (a_ifs a) e with
        | None => ([(obs_step l e false out, out)], NoRoute (a_ia a) (l_rtr l))
        | Some f =>
          if ni_owner f =? l_rtr l then
            match find_as t (ni_nbr f) with
            | None => ([(obs_step l e true out, out)], NoRoute (a_ia a) (l_rtr l))
            | Some b =>
              match find_nif (a_ifs b) (ni_remote f) with
              | None => ([(obs_step l e true out, out)], NoRoute (a_ia a) (l_rtr l))
              | Some g =>
                let '(tr, fin) :=
                  run_fuel fuel' (mkLoc (a_ia b) (ni_owner g) (InExt (ni_remote f))) out in
                ((obs_step l e true out, out) :: tr, fin)
              end
            end
          else
            let '(tr, fin) :=
              run_fuel fuel' (mkLoc (a_ia a) (ni_owner f) (InSib (l_rtr l + 1))) out in
            ((obs_step l e false out, out) :: tr, fin)
        end
      | MacMiss => ([], FMacMiss)
      | BadInput => ([], FBadInput)
      | r => ([], Stopped (a_ia a) (l_rtr l) (stop_of r))
      end
    end
  end.

(** at most two routers per AS handle a packet, and every AS consumes a hop field *)
Definition fuel_for (p : pkt) : nat := 2 * N.to_nat (num_hops p) + 2.

Definition run (l : loc) (p : pkt) : list (tstep * pkt) * final := run_fuel (fuel_for p) l p.

Definition forward (l : loc) (p : pkt) : list tstep * final :=
  (map fst (fst (run l p)), snd (run l p)).

(** the packet handed to the destination host *)
Definition delivered_pkt (w : list (tstep * pkt) * final) : option pkt :=
  match snd w with
  | Delivered _ _ _ _ => option_map snd (nth_error (fst w) (length (fst w) - 1))
  | _ => None
  end.

End WithMac.

(** the inter-AS interfaces a walk crossed, in order: (ISD-AS, interface id) *)
Definition crossed_step (s : tstep) : list (N * N) :=
  match t_ing s with InExt i => [(t_ia s, i)] | _ => [] end ++
  (if t_ext s then [(t_ia s, t_eg s)] else []).
Definition crossed (tr : list tstep) : list (N * N) := flat_map crossed_step tr.

(** * Path reversal and the reply packet (C03)

    [scion.Decoded.Reverse]: first and last info field and segment length are
    swapped, every ConsDir flag is flipped, the hop fields are reversed, and
    CurrINF / CurrHF become NumINF - CurrINF - 1 / NumHops - CurrHF - 1 (uint8
    arithmetic; the serializer keeps 2 resp. 6 bits). *)
Definition swap_ends {A} (l : list A) : list A :=
  match l with
  | [] => []
  | [a] => [a]
  | a :: r => last r a :: removelast r ++ [a]
  end.

Definition flip_consdir (i : info) : info :=
  mkInfo (i_peer i) (negb (i_consdir i)) (i_segid i) (i_ts i) (i_rsv i).

Definition reverse_path (p : pkt) : option pkt :=
  if num_inf p =? 0 then None
  else
    let n := num_inf p in
    let '(s0, s1, s2) :=
      if n =? 3 then (p_seg2 p, p_seg1 p, p_seg0 p)
      else if n =? 2 then (p_seg1 p, p_seg0 p, p_seg2 p)
      else (p_seg0 p, p_seg1 p, p_seg2 p) in
    let ci := ((n + 256 - p_curr_inf p - 1) mod 256) mod 4 in
    let ch := ((num_hops p + 256 - p_curr_hf p - 1) mod 256) mod 64 in
    Some (mkPkt (p_dst_ia p) (p_src_ia p) (p_dst_type p) (p_src_type p) (p_dst_raw p) (p_src_raw p)
                (p_pay_len p) (p_pay_actual p) (p_l4_port p) ci ch s0 s1 s2 (p_meta_rsv p)
                (map flip_consdir (swap_ends (p_infos p))) (rev (p_hops p))).

(** the reply an end host builds from a received packet: reversed path, source
    and destination swapped (the replying host uses its own address [src_type,
    src_raw], which differs from the request's destination for an SVC address),
    its own payload and upper-layer destination port *)
Definition mk_reply (p : pkt) (src_type : N) (src_raw : list N) (pay : N) (port : option N)
  : option pkt :=
  match reverse_path p with
  | None => None
  | Some q =>
    Some (mkPkt (p_src_ia p) (p_dst_ia p) (p_src_type p) src_type (p_src_raw p) src_raw
                pay pay port (p_curr_inf q) (p_curr_hf q) (p_seg0 q) (p_seg1 q) (p_seg2 q)
                (p_meta_rsv q) (p_infos q) (p_hops q))
  end.

(** * MAC tables for execution: per key *)
Fixpoint kmac_lookup (tb : list (N * list mac_entry)) (key : N) : list mac_entry :=
  match tb with
  | [] => []
  | (k, es) :: r => if k =? key then es else kmac_lookup r key
  end.
Definition kmacq (tb : list (N * list mac_entry)) (key sid ts e i g : N) : option (list N) :=
  mac_lookup (kmac_lookup tb key) sid ts e i g.

(** * Equality tests on observations *)
Definition ingress_eqb (a b : ingress) : bool :=
  match a, b with
  | InExt x, InExt y => x =? y
  | InSib x, InSib y => x =? y
  | InInt, InInt => true
  | _, _ => false
  end.
Definition tstep_eqb (a b : tstep) : bool :=
  (t_ia a =? t_ia b) && (t_rtr a =? t_rtr b) && ingress_eqb (t_ing a) (t_ing b) &&
  (t_eg a =? t_eg b) && Bool.eqb (t_ext a) (t_ext b) && (t_ci a =? t_ci b) && (t_ch a =? t_ch b) &&
  list_eqb N.eqb (t_sids a) (t_sids b).
Definition stopk_eqb (a b : stopk) : bool :=
  match a, b with
  | KDiscard, KDiscard | KAlert, KAlert | KPanic, KPanic | KDone, KDone => true
  | KScmp t c, KScmp t' c' => (t =? t') && (c =? c')
  | _, _ => false
  end.
Definition final_eqb (a b : final) : bool :=
  match a, b with
  | Delivered i r ip pt, Delivered i' r' ip' pt' =>
    (i =? i') && (r =? r') && list_eqb N.eqb ip ip' && (pt =? pt')
  | Stopped i r k, Stopped i' r' k' => (i =? i') && (r =? r') && stopk_eqb k k'
  | NoRoute i r, NoRoute i' r' => (i =? i') && (r =? r')
  | _, _ => false
  end.
Definition walk_eqb (a b : list tstep * final) : bool :=
  list_eqb tstep_eqb (fst a) (fst b) && final_eqb (snd a) (snd b).

Definition pair_eqb (a b : N * N) : bool := (fst a =? fst b) && (snd a =? snd b).

End Network.
