(** Provenance paths (C02, C03, C04): a forwarding path described by where its
    hop fields come from — up to three segment slices, each a list of hops in
    TRAVERSAL order; a hop records the AS that created it, the hop field and the
    SegID accumulator value (beta) the AS used when it computed the MAC.
    [render] produces the decoded packet ([Router.pkt]) the path gives at a
    position of the walk; [wf_prov] says what beaconing and path combination
    guarantee (MACs are the recomputation under the AS key with the recorded
    beta, the betas are chained by the MAC prefixes, consecutive hops are joined
    by links of the topology whose type matches the segment kind, segments are
    joined at a common AS or across a peering link).  Definitions only. *)
From Coq Require Import List NArith Bool Arith.
From Scion Require Import Lib.Check Model.Router Model.Network.
Import ListNotations.
Local Open Scope N_scope.

Module Prov.
Import Router Network.

Inductive skind := KCore | KIntra.   (* core segment | up or down segment *)

Record phop := mkPh {
  ph_ia : N;                    (* the AS the hop field belongs to *)
  ph_in : N; ph_eg : N;         (* ConsIngress / ConsEgress *)
  ph_exp : N; ph_mac : list N;
  ph_beta : N }.                (* SegID the AS used as MAC input *)

(** header of one slice: ConsDir / Peer as in the info field; [sg_len] hops *)
Record pseg := mkSg { sg_kind : skind; sg_consdir : bool; sg_peer : bool; sg_ts : N; sg_len : nat }.

(** flat form: slice headers and all hops in traversal order *)
Record prov := mkProv { pv_segs : list pseg; pv_hops : list phop }.

(** the slice view *)
Record pslice := mkSl {
  sl_kind : skind; sl_consdir : bool; sl_peer : bool; sl_ts : N; sl_hops : list phop }.
Definition of_slices (l : list pslice) : prov :=
  mkProv (map (fun s => mkSg (sl_kind s) (sl_consdir s) (sl_peer s) (sl_ts s) (length (sl_hops s))) l)
         (flat_map sl_hops l).
Fixpoint slices_from (segs : list pseg) (hops : list phop) : list pslice :=
  match segs with
  | [] => []
  | s :: r => mkSl (sg_kind s) (sg_consdir s) (sg_peer s) (sg_ts s) (firstn (sg_len s) hops)
              :: slices_from r (skipn (sg_len s) hops)
  end.
Definition slices (p : prov) : list pslice := slices_from (pv_segs p) (pv_hops p).

Definition dseg : pseg := mkSg KIntra false false 0 0.
Definition dhop : phop := mkPh 0 0 0 0 [] 0.

Definition lens (p : prov) : list nat := map sg_len (pv_segs p).
Definition nhops (p : prov) : nat := length (pv_hops p).

(** index of the slice containing hop [k], and [k]'s position inside it *)
Fixpoint seg_idx (ls : list nat) (k : nat) : nat :=
  match ls with
  | [] => 0
  | l :: r => if (k <? l)%nat then 0%nat else S (seg_idx r (k - l))
  end.
Fixpoint seg_off (ls : list nat) (k : nat) : nat :=
  match ls with
  | [] => k
  | l :: r => if (k <? l)%nat then k else seg_off r (k - l)
  end.

Definition hdr (p : prov) (k : nat) : pseg := nth (seg_idx (lens p) k) (pv_segs p) dseg.
Definition hop (p : prov) (k : nat) : phop := nth k (pv_hops p) dhop.
Definition cons (p : prov) (k : nat) : bool := sg_consdir (hdr p k).
Definition is_first (p : prov) (k : nat) : bool := Nat.eqb (seg_off (lens p) k) 0.
Definition is_last (p : prov) (k : nat) : bool := Nat.eqb (S (seg_off (lens p) k)) (sg_len (hdr p k)).
(** the hop field is the peer entry's: entry point of a peering segment in
    construction direction, exit point against it *)
Definition peerhop (p : prov) (k : nat) : bool :=
  sg_peer (hdr p k) && (if cons p k then is_first p k else is_last p k).
(** interfaces in traversal direction *)
Definition tr_in (p : prov) (k : nat) : N := if cons p k then ph_in (hop p k) else ph_eg (hop p k).
Definition tr_eg (p : prov) (k : nat) : N := if cons p k then ph_eg (hop p k) else ph_in (hop p k).
Definition ia (p : prov) (k : nat) : N := ph_ia (hop p k).
Definition sigma (p : prov) (k : nat) : N := mac_prefix (ph_mac (hop p k)).
Definition beta (p : prov) (k : nat) : N := ph_beta (hop p k).

(** between hop [k] and hop [k+1] the packet crosses an inter-AS link (inside a
    slice, or over the peering link that joins two peering slices); otherwise
    the two hop fields belong to the same AS (segment change) *)
Definition crosses (p : prov) (k : nat) : bool := negb (is_last p k) || sg_peer (hdr p k).

(** link type of the egress interface of a hop that crosses a link *)
Definition eg_type (p : prov) (k : nat) : linktype :=
  if peerhop p k && negb (cons p k) then Peer
  else match sg_kind (hdr p k) with
       | KCore => Core
       | KIntra => if cons p k then Child else Parent
       end.

(** * Rendering *)
Record pparams := mkPP {
  pp_src_ia : N; pp_dst_ia : N; pp_dst_type : N; pp_src_type : N;
  pp_dst_raw : list N; pp_src_raw : list N; pp_pay : N; pp_port : option N }.

(** The SegID of a slice starting at hop [start] when hop [k] is current.
    [mid]: the packet is between the two routers of an AS (the ingress router
    has already folded in the MAC prefix of the current hop when going against
    construction direction). *)
Definition clampi (s : pseg) (start k : nat) (mid : bool) : nat :=
  (start + Nat.min ((if sg_consdir s || mid then k else pred k) - start) (sg_len s - 1))%nat.

(** index of the first hop of slice [j] *)
Definition seg_start (ls : list nat) (j : nat) : nat := fold_right Nat.add 0%nat (firstn j ls).

(** the SegID carried by info field [j] *)
Definition sid (p : prov) (j k : nat) (mid : bool) : N :=
  beta p (clampi (nth j (pv_segs p) dseg) (seg_start (lens p) j) k mid).
Definition rinfo (p : prov) (k : nat) (mid : bool) (j : nat) : info :=
  let s := nth j (pv_segs p) dseg in
  mkInfo (sg_peer s) (sg_consdir s) (sid p j k mid) (sg_ts s) 0.
Definition rinfos (p : prov) (k : nat) (mid : bool) : list info :=
  map (rinfo p k mid) (seq 0 (length (pv_segs p))).

Definition rhop (h : phop) : Router.hop := mkHop false false (ph_exp h) (ph_in h) (ph_eg h) (ph_mac h) 0.

Definition len_at (p : prov) (j : nat) : N := N.of_nat (nth j (lens p) 0%nat).

Definition render (p : prov) (pp : pparams) (k : nat) (mid : bool) : pkt :=
  mkPkt (pp_dst_ia pp) (pp_src_ia pp) (pp_dst_type pp) (pp_src_type pp) (pp_dst_raw pp) (pp_src_raw pp)
        (pp_pay pp) (pp_pay pp) (pp_port pp)
        (N.of_nat (seg_idx (lens p) k)) (N.of_nat k) (len_at p 0) (len_at p 1) (len_at p 2) 0
        (rinfos p k mid) (map rhop (pv_hops p)).

(** inter-AS interfaces of the path, as path metadata lists them *)
Definition interfaces (p : prov) : list (N * N) :=
  flat_map (fun k => if crosses p k then [(ia p k, tr_eg p k); (ia p (S k), tr_in p (S k))] else [])
           (seq 0 (nhops p - 1)).

(** * Well-formedness *)
Definition range (n : nat) : list nat := seq 0 n.

Definition shape_ok (p : prov) : bool :=
  let segs := pv_segs p in
  (1 <=? length segs)%nat && (length segs <=? 3)%nat &&
  Nat.eqb (fold_right Nat.add 0%nat (lens p)) (nhops p) && (nhops p <=? 64)%nat &&
  forallb (fun s => (1 <=? sg_len s)%nat && (sg_peer s || (2 <=? sg_len s)%nat)) segs &&
  (if existsb sg_peer segs then
     match segs with
     | [a; b] => sg_peer a && sg_peer b && negb (sg_consdir a) && sg_consdir b &&
                 match sg_kind a, sg_kind b with KIntra, KIntra => true | _, _ => false end
     | _ => false
     end
   else true).

(** the MAC is the recomputation under the AS key with the recorded beta *)
Definition hop_ok (macq : N -> N -> N -> N -> N -> N -> option (list N)) (t : topology) (p : prov)
  (k : nat) : bool :=
  match find_as t (ia p k) with
  | None => false
  | Some a =>
    match macq (a_key a) (beta p k) (sg_ts (hdr p k)) (ph_exp (hop p k)) (ph_in (hop p k)) (ph_eg (hop p k)) with
    | Some m => list_eqb N.eqb (ph_mac (hop p k)) m
    | None => false
    end
  end.

(** the beta chain inside a slice (C22): in construction direction the next
    hop's beta is this one's folded with this hop's MAC prefix, except after
    the peer entry; against construction direction the roles are exchanged *)
Definition chain_ok (p : prov) (k : nat) : bool :=
  is_last p k ||
  (if cons p k
   then beta p (S k) =? (if peerhop p k then beta p k else N.lxor (beta p k) (sigma p k))
   else beta p (S k) =? (if peerhop p (S k) then beta p k else N.lxor (beta p k) (sigma p (S k)))).

(** a crossing: the egress interface of hop [k] is an interface of its AS of the
    expected type whose far end is the traversal ingress of hop [k+1] *)
Definition link_ok (t : topology) (p : prov) (k : nat) : bool :=
  negb (crosses p k) ||
  match find_as t (ia p k) with
  | None => false
  | Some a =>
    match find_nif (a_ifs a) (tr_eg p k) with
    | None => false
    | Some f => (ni_nbr f =? ia p (S k)) && (ni_remote f =? tr_in p (S k)) &&
                lt_eqb (ni_lt f) (eg_type p k)
    end
  end.

(** a segment change: same AS, and the slices may follow each other
    (up then core/down, core then down) *)
Definition junction_ok (p : prov) (k : nat) : bool :=
  crosses p k ||
  ((ia p k =? ia p (S k)) &&
   match sg_kind (hdr p k), sg_kind (hdr p (S k)) with
   | KIntra, KCore => negb (cons p k)
   | KCore, KIntra => cons p (S k)
   | KIntra, KIntra => negb (cons p k) && cons p (S k)
   | KCore, KCore => false
   end).

Definition wf_prov_b (macq : N -> N -> N -> N -> N -> N -> option (list N)) (t : topology) (p : prov)
  : bool :=
  shape_ok p && (2 <=? nhops p)%nat &&
  forallb (hop_ok macq t p) (range (nhops p)) &&
  forallb (fun k => chain_ok p k && link_ok t p k && junction_ok p k) (range (nhops p - 1)) &&
  forallb (fun k => negb (ia p k =? ia p 0)) (seq 1 (nhops p - 1)) &&
  forallb (fun k => negb (ia p k =? ia p (nhops p - 1))) (range (nhops p - 1)).

Definition hop_unexpired (now : N) (p : prov) (k : nat) : bool :=
  negb (sg_ts (hdr p k) * 1000000000 + (ph_exp (hop p k) + 1) * ExpUnitNs <? now).
Definition all_unexpired (now : N) (p : prov) : bool := forallb (hop_unexpired now p) (range (nhops p)).

(** end hosts: the source address passes the router's source check, the
    destination resolves to an underlay address in the destination AS *)
Definition src_host_ok (pp : pparams) : bool :=
  match parse_host (pp_src_type pp) (pp_src_raw pp) with
  | HBad => false
  | HSvc _ => true
  | HIP ip => negb (is_4in6 ip)
  end.
Definition deliver_target (a : nas) (pp : pparams) : option (list N * N) :=
  match parse_host (pp_dst_type pp) (pp_dst_raw pp) with
  | HBad => None
  | HSvc v => lookup_svc (a_svcs a) (svc_base v)
  | HIP ip =>
    match pp_port pp with
    | None => None
    | Some port => if is_4in6 ip || is_unspecified ip then None else Some (ip, port)
    end
  end.
Definition endpoints_ok (t : topology) (p : prov) (pp : pparams) : bool :=
  (pp_src_ia pp =? ia p 0) && (pp_dst_ia pp =? ia p (nhops p - 1)) && src_host_ok pp &&
  match find_as t (pp_dst_ia pp) with
  | Some a => match deliver_target a pp with Some _ => true | None => false end
  | None => false
  end.

(** where the source host hands the packet to: the router of its AS that owns
    the first egress interface of the path *)
Definition first_egress (q : pkt) : option N :=
  match nthN (p_infos q) (p_curr_inf q), nthN (p_hops q) (p_curr_hf q) with
  | Some i, Some h => Some (if i_consdir i then h_eg h else h_in h)
  | _, _ => None
  end.
Definition start_loc (t : topology) (q : pkt) : option loc :=
  match find_as t (p_src_ia q), first_egress q with
  | Some a, Some e =>
    match find_nif (a_ifs a) e with
    | Some f => Some (mkLoc (a_ia a) (ni_owner f) InInt)
    | None => None
    end
  | _, _ => None
  end.

Definition loc_eqb (a b : loc) : bool :=
  (l_ia a =? l_ia b) && (l_rtr a =? l_rtr b) && ingress_eqb (l_ing a) (l_ing b).

Definition walk_from (macq : N -> N -> N -> N -> N -> N -> option (list N)) (t : topology) (now : N)
  (start q : pkt) : list tstep * final :=
  match start_loc t start with
  | Some l => forward macq t now l q
  | None => ([], NoRoute (p_src_ia start) 0)
  end.

Definition valid_b macq (t : topology) (now : N) (p : prov) (pp : pparams) : bool :=
  wf_topo t && all_up t && wf_prov_b macq t p && endpoints_ok t p pp && all_unexpired now p.

(** * C03: the reversed provenance *)
Definition flip_seg (s : pseg) : pseg :=
  mkSg (sg_kind s) (negb (sg_consdir s)) (sg_peer s) (sg_ts s) (sg_len s).
Definition rev_prov (p : prov) : prov := mkProv (rev (map flip_seg (pv_segs p))) (rev (pv_hops p)).
Definition rev_params (pp : pparams) (src_type : N) (src_raw : list N) (pay : N) (port : option N)
  : pparams :=
  mkPP (pp_dst_ia pp) (pp_src_ia pp) (pp_src_type pp) src_type (pp_src_raw pp) src_raw pay port.

(** * C04: tampering with one MAC-protected value *)
Inductive field := FHopIn | FHopEg | FHopExp | FHopMac | FInfoTs | FInfoSegID.

Definition is_hop_field (f : field) : bool :=
  match f with FHopIn | FHopEg | FHopExp | FHopMac => true | _ => false end.

(** [v]: the new value (the 6 MAC bytes as a big-endian number for [FHopMac]) *)
Definition tamper_hop (f : field) (v : N) (h : Router.hop) : Router.hop :=
  match f with
  | FHopIn => mkHop (h_ialert h) (h_ealert h) (h_exp h) v (h_eg h) (h_mac h) (h_rsv h)
  | FHopEg => mkHop (h_ialert h) (h_ealert h) (h_exp h) (h_in h) v (h_mac h) (h_rsv h)
  | FHopExp => mkHop (h_ialert h) (h_ealert h) v (h_in h) (h_eg h) (h_mac h) (h_rsv h)
  | FHopMac => mkHop (h_ialert h) (h_ealert h) (h_exp h) (h_in h) (h_eg h) (be_bytes 6 v) (h_rsv h)
  | _ => h
  end.
Definition tamper_info (f : field) (v : N) (i : info) : info :=
  match f with
  | FInfoTs => mkInfo (i_peer i) (i_consdir i) (i_segid i) v (i_rsv i)
  | FInfoSegID => mkInfo (i_peer i) (i_consdir i) v (i_ts i) (i_rsv i)
  | _ => i
  end.
Definition tamper (f : field) (idx : nat) (v : N) (q : pkt) : pkt :=
  if is_hop_field f then
    match nth_error (p_hops q) idx with
    | Some h => with_hops q (set_nth (p_hops q) idx (tamper_hop f v h))
    | None => q
    end
  else
    match nth_error (p_infos q) idx with
    | Some i => with_infos q (set_nth (p_infos q) idx (tamper_info f v i))
    | None => q
    end.

(** the value really changed *)
Definition changed (f : field) (idx : nat) (v : N) (q : pkt) : bool :=
  if is_hop_field f then
    match nth_error (p_hops q) idx with
    | Some h => negb (hop_eqb h (tamper_hop f v h))
    | None => false
    end
  else
    match nth_error (p_infos q) idx with
    | Some i => negb (info_eqb i (tamper_info f v i))
    | None => false
    end.

(** index of the first hop whose MAC input depends on the altered value: the
    hop itself; for an info field the first hop of that slice (its SegID and
    timestamp enter the MAC input of every hop of the slice, through the beta
    chain, and the first one traversed is checked first) *)
Definition depends_on (p : prov) (f : field) (idx : nat) : nat :=
  if is_hop_field f then idx else seg_start (lens p) idx.

(** ASes of the path up to and including the one that owns hop [k] *)
Definition ases_upto (p : prov) (k : nat) : list N := map (ia p) (range (S k)).

(** * Oracles on an observed walk *)
Definition memN2 (x : N) (l : list N) : bool := existsb (N.eqb x) l.

(** C02: delivered to the destination host, crossing exactly the listed interfaces *)
Definition delivered_to (w : list tstep * final) (dst_ia : N) (target : option (list N * N)) : bool :=
  match snd w, target with
  | Delivered a _ ip port, Some d => (a =? dst_ia) && list_eqb N.eqb ip (fst d) && (port =? snd d)
  | _, _ => false
  end.
Definition c02_ok (t : topology) (p : prov) (pp : pparams) (meta : list (N * N))
  (w : list tstep * final) : bool :=
  list_eqb pair_eqb (crossed (fst w)) (interfaces p) &&
  list_eqb pair_eqb (interfaces p) meta &&
  match find_as t (pp_dst_ia pp) with
  | Some a => delivered_to w (pp_dst_ia pp) (deliver_target a pp)
  | None => false
  end.

(** C03: the reply reaches the source host over the reversed interface list *)
Definition reply_target (pp : pparams) (port : option N) : option (list N * N) :=
  match parse_host (pp_src_type pp) (pp_src_raw pp), port with
  | HIP ip, Some pt => if is_4in6 ip || is_unspecified ip then None else Some (ip, pt)
  | _, _ => None
  end.
(** the replying host uses an address the routers accept as a source, and the
    original source is an IP host with a known upper-layer port *)
Definition reply_ok (pp : pparams) (src_type : N) (src_raw : list N) (port : option N) : bool :=
  match reply_target pp port with Some _ => true | None => false end &&
  match parse_host src_type src_raw with
  | HBad => false
  | HSvc _ => true
  | HIP ip => negb (is_4in6 ip)
  end.
Definition c03_ok (p : prov) (pp : pparams) (port : option N) (w : list tstep * final) : bool :=
  list_eqb pair_eqb (crossed (fst w)) (rev (interfaces p)) &&
  delivered_to w (pp_src_ia pp) (reply_target pp port).

(** C04: never delivered; stopped by a router of an AS no later than the one
    owning the first dependent hop *)
Definition c04_ok (p : prov) (f : field) (idx : nat) (w : list tstep * final) : bool :=
  let upto := ases_upto p (depends_on p f idx) in
  forallb (fun s => memN2 (t_ia s) upto) (fst w) &&
  match snd w with
  | Stopped a _ _ => memN2 a upto
  | _ => false
  end.

(** * Cases of the correspondence check *)
Definition mactab := list (N * list mac_entry).

Inductive case :=
(* a path built by the real combinator from beaconed segments, walked through the real routers *)
| CPath (t : topology) (now : N) (macs : mactab) (p : prov) (pp : pparams) (rec : pkt)
        (srt : N)   (* the router of the source AS the host handed the packet to *)
        (meta : list (N * N)) (expect_valid : bool) (impl : list tstep * final)
(* the reply: [rec] = the packet as delivered, [reply] = the packet the replying host sent
   (real Reverse), walked back *)
| CReply (t : topology) (now : N) (macs : mactab) (p : prov) (pp : pparams) (rec : pkt)
         (src_type : N) (src_raw : list N) (pay : N) (port : option N) (reply : pkt)
         (expect_valid : bool) (impl : list tstep * final)
(* one protected value altered before the walk *)
| CTamper (t : topology) (now : N) (macs : mactab) (p : prov) (pp : pparams)
          (f : field) (idx : nat) (v : N) (rec : pkt) (expect_valid : bool)
          (impl : list tstep * final).

Definition model (c : case) : list tstep * final :=
  match c with
  | CPath t now macs p pp rec srt _ _ _ =>
    forward (kmacq macs) t now (mkLoc (p_src_ia rec) srt InInt) rec
  | CReply t now macs p pp rec st sr pay port reply _ _ => walk_from (kmacq macs) t now reply reply
  | CTamper t now macs p pp f idx v rec _ _ =>
    walk_from (kmacq macs) t now (render p pp 0 false) rec
  end.

Definition check02 (c : case) : N :=
  match c with
  | CPath t now macs p pp rec srt meta ev impl =>
    let valid := valid_b (kmacq macs) t now p pp in
    Check.verdict
      (pkt_eqb (render p pp 0 false) rec && walk_eqb (model c) impl && Bool.eqb valid ev &&
       (negb valid || option_eqb loc_eqb (start_loc t rec) (Some (mkLoc (p_src_ia rec) srt InInt))))
      (negb valid || c02_ok t p pp meta impl)
  | _ => 1
  end.

Definition check03 (c : case) : N :=
  match c with
  | CReply t now macs p pp rec st sr pay port reply ev impl =>
    let valid := valid_b (kmacq macs) t now p pp in
    Check.verdict
      (pkt_eqb (render p pp (nhops p - 1) true) rec &&
       option_eqb pkt_eqb (mk_reply rec st sr pay port) (Some reply) &&
       walk_eqb (model c) impl && Bool.eqb valid ev)
      (negb (valid && reply_ok pp st sr port) || c03_ok p pp port impl)
  | _ => 1
  end.

Definition check04 (c : case) : N :=
  match c with
  | CTamper t now macs p pp f idx v rec ev impl =>
    let valid := valid_b (kmacq macs) t now p pp in
    let q := render p pp 0 false in
    Check.verdict
      (pkt_eqb (tamper f idx v q) rec && walk_eqb (model c) impl && Bool.eqb valid ev)
      (negb (valid && changed f idx v q) || c04_ok p f idx impl)
  | _ => 1
  end.

Definition diag (c : case) : (list tstep * final) * bool :=
  (model c,
   match c with
   | CPath t now macs p pp _ _ _ _ _ => valid_b (kmacq macs) t now p pp
   | CReply t now macs p pp _ _ _ _ _ _ _ _ => valid_b (kmacq macs) t now p pp
   | CTamper t now macs p pp _ _ _ _ _ _ => valid_b (kmacq macs) t now p pp
   end).

(** compact constructors for the runner *)
Definition phc (ia_ f m b : N) : phop :=
  mkPh ia_ (f / 16777216 mod 65536) (f / 256 mod 65536) (f / 1099511627776 mod 256) (be_bytes 6 m) b.
Definition ts (ia_ rtr : N) (ing : ingress) (eg : N) (ext : bool) (ci ch : N) (sids : list N) : tstep :=
  mkT ia_ rtr ing eg ext ci ch sids.

(** several fields packed into one number (parsing one long literal is much cheaper
    than parsing many): [bits x sh w] = the [w] bits of [x] from bit [sh] on *)
Definition bits (x sh w : N) : N := N.land (N.shiftr x sh) (N.ones w).
Definition bit (x sh : N) : bool := N.testbit x sh.
(** hop of a provenance path: beta | MAC | ConsEgress | ConsIngress | ExpTime *)
Definition php (ia_ x : N) : phop :=
  mkPh ia_ (bits x 80 16) (bits x 64 16) (bits x 96 8) (be_bytes 6 (bits x 16 48)) (bits x 0 16).
(** MAC table entry: MAC | eg | in | exp | ts | segid *)
Definition mce (x : N) : mac_entry :=
  (bits x 120 16, bits x 88 32, bits x 80 8, bits x 64 16, bits x 48 16, be_bytes 6 (bits x 0 48)).
(** hop field of a packet: MAC | eg | in | exp | reserved | egress alert | ingress alert *)
Definition rhp (x : N) : Router.hop :=
  mkHop (bit x 97) (bit x 96) (bits x 80 8) (bits x 64 16) (bits x 48 16) (be_bytes 6 (bits x 0 48))
        (bits x 88 8).
(** info field of a packet: ts | segid | reserved | ConsDir | Peer *)
Definition rif (x : N) : info :=
  mkInfo (bit x 65) (bit x 64) (bits x 32 16) (bits x 0 32) (bits x 48 16).

End Prov.
