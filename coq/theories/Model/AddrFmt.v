(** Model of the text formats of pkg/addr: ISD, AS, ISD-AS (isdas.go), the
    option-driven formatters/parsers (fmt.go), service addresses (svc.go), host
    addresses (host.go) and full SCION addresses (addr.go).
    Strings are [list N] (bytes).  Definitions only.

    [strconv.ParseUint(s, base, bits)] as it is used there (explicit base 10 or
    16): no sign, no empty string, no base prefix, no underscores, leading zeros
    allowed, value < 2^bits.  Go reports ErrRange as soon as the accumulator
    overflows and ErrSyntax at the first bad character; both are "error" for
    every caller in pkg/addr, so the model accumulates in unbounded [N] and
    checks the range at the end. *)
From Coq Require Import String Ascii.
From Coq Require Import List NArith Bool.
From Scion Require Import Lib.Check.
Import ListNotations.
Local Open Scope N_scope.

Module AddrFmt.

Definition str := list N.
Definition str_eqb : str -> str -> bool := list_eqb N.eqb.

Fixpoint s2l (s : string) : str :=
  match s with EmptyString => [] | String c t => N_of_ascii c :: s2l t end.

Definition is_nil {A} (l : list A) : bool := match l with [] => true | _ => false end.

(** ---------------------------------------------------------------- numbers *)
Definition is_dec (c : N) : bool := (48 <=? c) && (c <=? 57).
(** characters accepted by ParseUint in base 16 *)
Definition is_hex (c : N) : bool :=
  is_dec c || ((97 <=? c) && (c <=? 102)) || ((65 <=? c) && (c <=? 70)).

(** strconv: '0'..'9' -> 0..9, lower(c) in 'a'..'z' -> 10..35, then d < base *)
Definition digit_val (base c : N) : option N :=
  let d := if is_dec c then Some (c - 48)
           else if (97 <=? c) && (c <=? 122) then Some (c - 87)
           else if (65 <=? c) && (c <=? 90) then Some (c - 55)
           else None in
  match d with
  | Some v => if v <? base then Some v else None
  | None => None
  end.

Fixpoint digits_val (base : N) (s : str) (acc : N) : option N :=
  match s with
  | [] => Some acc
  | c :: t => match digit_val base c with
              | Some d => digits_val base t (acc * base + d)
              | None => None
              end
  end.

Definition parse_uint (base bits : N) (s : str) : option N :=
  match s with
  | [] => None
  | _ => match digits_val base s 0 with
         | Some v => if v <? 2 ^ bits then Some v else None
         | None => None
         end
  end.

(** strconv.FormatUint(v, base): lower-case digits, no leading zeros, "0" for 0 *)
Definition dchar (d : N) : N := if d <? 10 then 48 + d else 87 + d.

Fixpoint pr (f : nat) (b v : N) : str :=
  match f with
  | O => []
  | S f' => if v =? 0 then [] else pr f' b (v / b) ++ [dchar (v mod b)]
  end.

(** digits of v without the special case for zero *)
Definition pr' (b v : N) : str := pr (S (N.to_nat (N.log2 v))) b v.

Definition print_uint (b v : N) : str := if v =? 0 then [48] else pr' b v.

(** ---------------------------------------------------------------- strings.Split *)
Fixpoint is_prefix (p s : str) : bool :=
  match p, s with
  | [], _ => true
  | a :: p', b :: s' => (a =? b) && is_prefix p' s'
  | _ :: _, [] => false
  end.

(** [skip] characters of a separator occurrence are still to be consumed; [cur]
    is the current part, reversed. *)
Fixpoint split_go (sep s : str) (skip : nat) (cur : str) : list str :=
  match s with
  | [] => [rev cur]
  | c :: t =>
    match skip with
    | S k => split_go sep t k cur
    | O => if is_prefix sep s then rev cur :: split_go sep t (length sep - 1) []
           else split_go sep t 0 (c :: cur)
    end
  end.

(** strings.Split(s, sep): leftmost non-overlapping occurrences.  An empty
    separator explodes the string (per byte here, per UTF-8 sequence in Go); it
    cannot reach parseAS any more since WithSeparator("") falls back to ":". *)
Definition split (sep s : str) : list str :=
  match sep with
  | [] => map (fun c => [c]) s
  | _ => split_go sep s 0 []
  end.

Fixpoint join (sep : str) (l : list str) : str :=
  match l with
  | [] => []
  | [x] => x
  | x :: t => x ++ sep ++ join sep t
  end.

(** ---------------------------------------------------------------- ISD / AS / IA (isdas.go) *)
Definition colon : str := [58].
Definition dash : str := [45].
Definition max_isd : N := 65535.
Definition max_as : N := 281474976710655.       (* 2^48 - 1 *)
Definition max_bgp : N := 4294967295.           (* 2^32 - 1 *)

Definition parse_isd (s : str) : option N := parse_uint 10 16 s.
Definition fmt_isd (isd : N) : str := print_uint 10 isd.

Definition illegal_suffix : str :=
  Eval compute in s2l " [Illegal AS: larger than 281474976710655]".

(** fmtAS *)
Definition fmt_as (sep : str) (a : N) : str :=
  if max_as <? a then print_uint 10 a ++ illegal_suffix
  else if a <=? max_bgp then print_uint 10 a
  else print_uint 16 ((a / 2 ^ 32) mod 2 ^ 16) ++ sep ++
       print_uint 16 ((a / 2 ^ 16) mod 2 ^ 16) ++ sep ++
       print_uint 16 (a mod 2 ^ 16).

(** parseAS *)
Definition parse_as (sep s : str) : option N :=
  match split sep s with
  | [_] => parse_uint 10 32 s
  | [a; b; c] =>
    match parse_uint 16 16 a, parse_uint 16 16 b, parse_uint 16 16 c with
    | Some x, Some y, Some z =>
      let v := (x * 2 ^ 16 + y) * 2 ^ 16 + z in
      if v <=? max_as then Some v else None
    | _, _, _ => None
    end
  | _ => None
  end.

(** IA is a uint64: ISD in the upper 16 bits, AS in the lower 48 *)
Definition ia_isd (ia : N) : N := (ia / 2 ^ 48) mod 2 ^ 16.
Definition ia_as (ia : N) : N := ia mod 2 ^ 48.
Definition ia_from (isd a : N) : N := isd * 2 ^ 48 + a.

Definition fmt_ia (ia : N) : str := fmt_isd (ia_isd ia) ++ dash ++ fmt_as colon (ia_as ia).

Definition parse_ia (s : str) : option N :=
  match split dash s with
  | [a; b] =>
    match parse_isd a with
    | Some isd => match parse_as colon b with
                  | Some v => Some (ia_from isd v)
                  | None => None
                  end
    | None => None
    end
  | _ => None
  end.

(** ---------------------------------------------------------------- options (fmt.go) *)
Inductive fopt := WithDefaultPrefix | WithSeparator (sep : str).
Record fopts := { o_prefix : bool; o_sep : str }.

Definition apply_opt (o : fopts) (f : fopt) : fopts :=
  match f with
  | WithDefaultPrefix => {| o_prefix := true; o_sep := o_sep o |}
  | WithSeparator s => {| o_prefix := o_prefix o;
                          o_sep := match s with [] => colon | _ => s end |}
  end.

Definition apply_opts (l : list fopt) : fopts :=
  fold_left apply_opt l {| o_prefix := false; o_sep := colon |}.

Definition isd_prefix : str := Eval compute in s2l "ISD".
Definition as_prefix : str := Eval compute in s2l "AS".

(** strings.TrimPrefix + "trimmed == s => prefix is missing" (prefix non-empty) *)
Definition trim_prefix (p s : str) : option str :=
  if is_prefix p s then Some (skipn (length p) s) else None.

Definition format_isd (l : list fopt) (isd : N) : str :=
  let o := apply_opts l in
  (if o_prefix o then isd_prefix else []) ++ print_uint 10 isd.

Definition format_as (l : list fopt) (a : N) : str :=
  let o := apply_opts l in
  (if o_prefix o then as_prefix else []) ++ fmt_as (o_sep o) a.

Definition format_ia (l : list fopt) (ia : N) : str :=
  let o := apply_opts l in
  (if o_prefix o then isd_prefix else []) ++ print_uint 10 (ia_isd ia) ++ dash ++
  (if o_prefix o then as_prefix else []) ++ fmt_as (o_sep o) (ia_as ia).

Definition parse_formatted_isd (l : list fopt) (s : str) : option N :=
  let o := apply_opts l in
  if o_prefix o then
    match trim_prefix isd_prefix s with Some t => parse_isd t | None => None end
  else parse_isd s.

Definition parse_formatted_as (l : list fopt) (s : str) : option N :=
  let o := apply_opts l in
  if o_prefix o then
    match trim_prefix as_prefix s with Some t => parse_as (o_sep o) t | None => None end
  else parse_as (o_sep o) s.

Definition parse_formatted_ia (l : list fopt) (s : str) : option N :=
  match split dash s with
  | [a; b] =>
    match parse_formatted_isd l a with
    | Some isd => match parse_formatted_as l b with
                  | Some v => Some (ia_from isd v)
                  | None => None
                  end
    | None => None
    end
  | _ => None
  end.

(** ---------------------------------------------------------------- SVC (svc.go), uint16 *)
Definition svc_ds : N := 1.
Definition svc_cs : N := 2.
Definition svc_wildcard : N := 16.
Definition svc_mcast : N := 32768.

Definition s_DS : str := Eval compute in s2l "DS".
Definition s_CS : str := Eval compute in s2l "CS".
Definition s_Wildcard : str := Eval compute in s2l "Wildcard".
Definition s_A : str := Eval compute in s2l "_A".
Definition s_M : str := Eval compute in s2l "_M".

Definition has_suffix (suf s : str) : bool := is_prefix (rev suf) (rev s).
Definition trim_suffix (suf s : str) : str := rev (skipn (length suf) (rev s)).

Definition parse_svc (s : str) : option N :=
  let '(t, m) := if has_suffix s_A s then (trim_suffix s_A s, 0)
                 else if has_suffix s_M s then (trim_suffix s_M s, svc_mcast)
                 else (s, 0) in
  if str_eqb t s_DS then Some (svc_ds + m)
  else if str_eqb t s_CS then Some (svc_cs + m)
  else if str_eqb t s_Wildcard then Some (svc_wildcard + m)
  else None.

Definition svc_is_mcast (h : N) : bool := svc_mcast <=? h mod 65536.
Definition svc_base (h : N) : N := h mod 32768.

Definition pad_left (w : nat) (s : str) : str := repeat 48 (w - length s) ++ s.

Definition svc_base_string (h : N) : str :=
  let b := svc_base h in
  if b =? svc_ds then s_DS
  else if b =? svc_cs then s_CS
  else if b =? svc_wildcard then s_Wildcard
  else s2l "<SVC:0x" ++ pad_left 4 (print_uint 16 (h mod 65536)) ++ s2l ">".

Definition svc_string (h : N) : str :=
  svc_base_string h ++ (if svc_is_mcast h then s_M else []).

Definition svc_known (h : N) : bool :=
  (h <? 65536) &&
  ((svc_base h =? svc_ds) || (svc_base h =? svc_cs) || (svc_base h =? svc_wildcard)).

(** ---------------------------------------------------------------- host / addr (host.go, addr.go)
    The text codec of IP addresses (net/netip) is a parameter. *)
Section Host.
Variable ip : Type.
Variable ip_print : ip -> str.
Variable ip_parse : str -> option ip.

Inductive host := HNone | HIP (a : ip) | HSVC (s : N).

Definition s_None : str := Eval compute in s2l "<None>".

Definition host_string (h : host) : str :=
  match h with
  | HNone => s_None
  | HIP a => ip_print a
  | HSVC s => svc_string s
  end.

Definition parse_host (s : str) : option host :=
  match parse_svc s with
  | Some v => Some (HSVC v)
  | None => match ip_parse s with
            | Some a => Some (HIP a)
            | None => None
            end
  end.

(** strings.IndexByte(s, ',') as (before, after) *)
Fixpoint cut_comma (s : str) : option (str * str) :=
  match s with
  | [] => None
  | c :: t => if c =? 44 then Some ([], t)
              else match cut_comma t with
                   | Some (a, b) => Some (c :: a, b)
                   | None => None
                   end
  end.

Definition addr_string (ia : N) (h : host) : str := fmt_ia ia ++ [44] ++ host_string h.

Definition parse_addr (s : str) : option (N * host) :=
  match cut_comma s with
  | None => None
  | Some (a, b) =>
    match parse_ia a with
    | Some ia => match parse_host b with
                 | Some h => Some (ia, h)
                 | None => None
                 end
    | None => None
    end
  end.
End Host.

Arguments HNone {ip}.
Arguments HIP {ip} a.
Arguments HSVC {ip} s.

(** ---------------------------------------------------------------- "s is a spelling of v"
    The liberties the parsers document: leading zeros, upper-case hex letters,
    a short AS written as three hex groups, the [_A] suffix. *)
Definition lower_hex (c : N) : N := if (65 <=? c) && (c <=? 70) then c + 32 else c.

Fixpoint strip0 (s : str) : str :=
  match s with
  | c :: t => if c =? 48 then strip0 t else s
  | [] => []
  end.

Definition canon (b : N) (s : str) : str :=
  let t := strip0 (if b =? 16 then map lower_hex s else s) in
  match t with [] => [48] | _ => t end.

Definition num_ok (b maxv : N) (s : str) (v : N) : bool :=
  negb (is_nil s) && str_eqb (canon b s) (print_uint b v) && (v <=? maxv).

Definition isd_ok (s : str) (v : N) : bool := num_ok 10 max_isd s v.

Definition as_ok (sep s : str) (v : N) : bool :=
  match split sep s with
  | [_] => num_ok 10 max_bgp s v
  | [a; b; c] =>
    num_ok 16 65535 a (v / 2 ^ 32) && num_ok 16 65535 b ((v / 2 ^ 16) mod 2 ^ 16) &&
    num_ok 16 65535 c (v mod 2 ^ 16)
  | _ => false
  end.

Definition ia_ok_with (isdp asp sep s : str) (ia : N) : bool :=
  match split dash s with
  | [a; b] =>
    match trim_prefix isdp a, trim_prefix asp b with
    | Some a', Some b' => isd_ok a' (ia / 2 ^ 48) && as_ok sep b' (ia mod 2 ^ 48)
    | _, _ => false
    end
  | _ => false
  end.

Definition ia_ok (s : str) (ia : N) : bool := ia_ok_with [] [] colon s ia.

Definition svc_ok (s : str) (v : N) : bool :=
  svc_known v &&
  (str_eqb s (svc_string v) || (negb (svc_is_mcast v) && str_eqb s (svc_string v ++ s_A))).

(** the codecs: ISD.String/ParseISD, AS.String/ParseAS, IA.String/ParseIA,
    FormatISD/ParseFormattedISD, FormatAS/ParseFormattedAS, FormatIA/ParseFormattedIA,
    SVC.String/ParseSVC; numbered 0..6 in the correspondence cases *)
Inductive codec := KIsd | KAs | KIa | KFIsd | KFAs | KFIa | KSvc.

Definition codec_of (k : N) : codec :=
  match k with
  | 0 => KIsd | 1 => KAs | 2 => KIa | 3 => KFIsd | 4 => KFAs | 5 => KFIa | _ => KSvc
  end.

(** text_ok k opts s v: [s] spells value [v] for codec [k] *)
Definition text_ok (k : codec) (l : list fopt) (s : str) (v : N) : bool :=
  let o := apply_opts l in
  let ip := if o_prefix o then isd_prefix else [] in
  let ap := if o_prefix o then as_prefix else [] in
  match k with
  | KIsd => isd_ok s v
  | KAs => as_ok colon s v
  | KIa => ia_ok s v
  | KFIsd => match trim_prefix ip s with Some t => isd_ok t v | None => false end
  | KFAs => match trim_prefix ap s with Some t => as_ok (o_sep o) t v | None => false end
  | KFIa => ia_ok_with ip ap (o_sep o) s v
  | KSvc => svc_ok s v
  end.

(** separators for which formatted ISD-AS text is unambiguous *)
Definition sep_ok (sep : str) : bool :=
  negb (is_nil sep) && forallb (fun c => negb (is_hex c) && negb (c =? 45)) sep.

(** ---------------------------------------------------------------- correspondence cases *)
Definition fmt_k (k : codec) (l : list fopt) (v : N) : str :=
  match k with
  | KIsd => fmt_isd v
  | KAs => fmt_as colon v
  | KIa => fmt_ia v
  | KFIsd => format_isd l v
  | KFAs => format_as l v
  | KFIa => format_ia l v
  | KSvc => svc_string v
  end.

Definition parse_k (k : codec) (l : list fopt) (s : str) : option N :=
  match k with
  | KIsd => parse_isd s
  | KAs => parse_as colon s
  | KIa => parse_ia s
  | KFIsd => parse_formatted_isd l s
  | KFAs => parse_formatted_as l s
  | KFIa => parse_formatted_ia l s
  | KSvc => parse_svc s
  end.

(** values of codec k for which the round trip is claimed *)
Definition in_domain (k : codec) (l : list fopt) (v : N) : bool :=
  match k with
  | KIsd => v <=? max_isd
  | KAs => v <=? max_as
  | KIa => v <? 2 ^ 64
  | KFIsd => v <=? max_isd
  | KFAs => (v <=? max_as) && sep_ok (o_sep (apply_opts l))
  | KFIa => (v <? 2 ^ 64) && sep_ok (o_sep (apply_opts l))
  | KSvc => svc_known v
  end.

(** host values in a case: an IP address is identified by its netip text *)
Definition hostv := host str.

Definition hostv_eqb (a b : hostv) : bool :=
  match a, b with
  | HNone, HNone => true
  | HIP x, HIP y => str_eqb x y
  | HSVC x, HSVC y => x =? y
  | _, _ => false
  end.

(** the IP codec seen by one case: printing is the identity on the canonical
    text, parsing is the one-point table (s |-> netip's answer) supplied by the runner *)
Definition ip_table (s : str) (r : option str) : str -> option str :=
  fun x => if str_eqb x s then r else None.

Definition host_known (h : hostv) : bool :=
  match h with HNone => false | HIP _ => true | HSVC v => svc_known v end.

Definition host_ok (tbl : str -> option str) (s : str) (h : hostv) : bool :=
  match h with
  | HNone => false
  | HSVC v => svc_ok s v
  | HIP a => match parse_svc s with
             | Some _ => false
             | None => option_eqb str_eqb (tbl s) (Some a)
             end
  end.

Definition addr_eqb (a b : N * hostv) : bool := (fst a =? fst b) && hostv_eqb (snd a) (snd b).

Inductive case :=
| CFmt (k : N) (l : list fopt) (v : N) (txt : str) (back : option N)
    (* txt = format(v); back = parse(txt), both by the implementation *)
| CParse (k : N) (l : list fopt) (s : str) (impl : option N)
| CHostFmt (h : hostv) (txt : str) (back : option hostv)
| CHostParse (s : str) (ipres : option str) (impl : option hostv)
| CAddrFmt (ia : N) (h : hostv) (txt : str) (back : option (N * hostv))
| CAddrParse (s : str) (ipres : option str) (impl : option (N * hostv)).

Definition opt_N_eqb := option_eqb N.eqb.

(** decimal iff the AS fits 32 bits (checked on the implementation's text) *)
Definition dec_iff_ok (k : codec) (l : list fopt) (v : N) (txt : str) : bool :=
  match k with
  | KAs => Bool.eqb (forallb is_dec txt) (v <=? max_bgp)
  | KFAs => match trim_prefix (if o_prefix (apply_opts l) then as_prefix else []) txt with
         | Some t => Bool.eqb (forallb is_dec t) (v <=? max_bgp)
         | None => false
         end
  | _ => true
  end.

(** audit follow-up: the round trip is evaluated for EVERY separator.  [in_range]
    is the value domain alone; [sep_good] is the class of separators for which
    the round trip is proved (first byte not a hex digit; for FormatIA also no
    '-').  Outside it pkg/addr really returns other values (known finding
    separator-hex-or-dash): e.g. separator "0", AS 10203 parses back as 1:2:3. *)
Definition in_range (k : codec) (v : N) : bool :=
  match k with
  | KIsd | KFIsd => v <=? max_isd
  | KAs | KFAs => v <=? max_as
  | KIa | KFIa => v <? 2 ^ 64
  | KSvc => svc_known v
  end.

Definition sep_head_ok (sep : str) : bool :=
  match sep with h :: _ => negb (is_hex h) | [] => false end.

Definition sep_good (k : codec) (l : list fopt) : bool :=
  let sep := o_sep (apply_opts l) in
  match k with
  | KFAs => sep_head_ok sep
  | KFIa => sep_head_ok sep && negb (existsb (N.eqb 45) sep)
  | _ => true
  end.

Definition fmt_oracle (k : codec) (l : list fopt) (v : N) (txt : str) (back : option N) : bool :=
  if in_range k v
  then option_eqb N.eqb back (Some v) && (if sep_good k l then dec_iff_ok k l v txt else true)
  else true.

Definition host_part (s : str) : str :=
  match cut_comma s with Some (_, b) => b | None => [] end.

Definition check (c : case) : N :=
  match c with
  | CFmt k0 l v txt back =>
    let k := codec_of k0 in
    Check.verdict (str_eqb (fmt_k k l v) txt && opt_N_eqb (parse_k k l txt) back)
                  (fmt_oracle k l v txt back)
  | CParse k0 l s impl =>
    let k := codec_of k0 in
    Check.verdict (opt_N_eqb (parse_k k l s) impl)
                  (match impl with Some v => text_ok k l s v | None => true end)
  | CHostFmt h txt back =>
    let tbl := ip_table txt (match h with HIP a => Some a | _ => None end) in
    Check.verdict (str_eqb (host_string str (fun a => a) h) txt &&
                   option_eqb hostv_eqb (parse_host str tbl txt) back)
                  (if host_known h then option_eqb hostv_eqb back (Some h) else true)
  | CHostParse s ipres impl =>
    let tbl := ip_table s ipres in
    Check.verdict (option_eqb hostv_eqb (parse_host str tbl s) impl)
                  (match impl with Some h => host_ok tbl s h | None => true end)
  | CAddrFmt ia h txt back =>
    let tbl := ip_table (host_string str (fun a => a) h) (match h with HIP a => Some a | _ => None end) in
    Check.verdict (str_eqb (addr_string str (fun a => a) ia h) txt &&
                   option_eqb addr_eqb (parse_addr str tbl txt) back)
                  (if host_known h && (ia <? 2 ^ 64) then option_eqb addr_eqb back (Some (ia, h)) else true)
  | CAddrParse s ipres impl =>
    let tbl := ip_table (host_part s) ipres in
    Check.verdict (option_eqb addr_eqb (parse_addr str tbl s) impl)
                  (match impl with
                   | Some (ia, h) =>
                     match cut_comma s with
                     | Some (a, b) => ia_ok a ia && host_ok tbl b h
                     | None => false
                     end
                   | None => true
                   end)
  end.

Definition diag (c : case) : str * option N * option (N * hostv) :=
  match c with
  | CFmt k l v txt _ => (fmt_k (codec_of k) l v, parse_k (codec_of k) l txt, None)
  | CParse k l s _ => ([], parse_k (codec_of k) l s, None)
  | CHostFmt h txt _ =>
    let tbl := ip_table txt (match h with HIP a => Some a | _ => None end) in
    (host_string str (fun a => a) h, None,
     match parse_host str tbl txt with Some x => Some (0, x) | None => None end)
  | CHostParse s ipres _ =>
    ([], None, match parse_host str (ip_table s ipres) s with Some x => Some (0, x) | None => None end)
  | CAddrFmt ia h txt _ =>
    let tbl := ip_table (host_string str (fun a => a) h) (match h with HIP a => Some a | _ => None end) in
    (addr_string str (fun a => a) ia h, None, parse_addr str tbl txt)
  | CAddrParse s ipres _ => ([], None, parse_addr str (ip_table (host_part s) ipres) s)
  end.

End AddrFmt.
