(** Model of the SCION upper-layer checksum: pkg/slayers/scion.go
    [computeChecksum] / [pseudoHeaderChecksum] / [upperLayerChecksum] /
    [foldChecksum], and the places that write it: [UDP.SerializeTo] (udp.go) and
    [SCMP.SerializeTo] (scmp.go).  Definitions only.

    The accumulator is Go's [uint32]: every [+=] carries an explicit [mod 2^32]
    (it cannot wrap while the upper layer is shorter than 131 000 bytes, see
    Proofs/Checksum.v [wsum_lt_2_32], [covered_sum_lt]). *)
From Coq Require Import List NArith ZArith Bool Uint63.
From Scion Require Import Lib.Check Lib.Bytes.
Import ListNotations.
Local Open Scope N_scope.

Module Checksum.

Definition u32 (n : N) : N := n mod 2 ^ 32.

(** [csum += uint32(hi) << 8; csum += uint32(lo)] *)
Definition add2 (c hi lo : N) : N := u32 (u32 (c + hi * 256) + lo).

(** the SCION address header as far as the checksum looks at it *)
Record addr_hdr := { dst_ia : N; src_ia : N; raw_dst : bytes; raw_src : bytes }.

Inductive res (A : Type) := Ok (a : A) | ErrNoDst | ErrNoSrc | Panic.
Arguments Ok {A} a. Arguments ErrNoDst {A}. Arguments ErrNoSrc {A}. Arguments Panic {A}.

(** [for i := 0; i < 8; i += 2 { csum += srcIA[i]<<8; csum += srcIA[i+1]; csum += dstIA[i]<<8; csum += dstIA[i+1] }]
    on the two 8-byte strings *)
Fixpoint ia_sum (s d : bytes) (c : N) : N :=
  match s, d with
  | sh :: sl :: s', dh :: dl :: d' => ia_sum s' d' (add2 (add2 c sh sl) dh dl)
  | _, _ => c
  end.

(** [for i := 0; i < len(a); i += 2 { csum += a[i]<<8; csum += a[i+1] }]: index out of range on an odd length *)
Fixpoint addr_sum (a : bytes) (c : N) : option N :=
  match a with
  | [] => Some c
  | [_] => None
  | hi :: lo :: t => addr_sum t (add2 c hi lo)
  end.

(** [pseudoHeaderChecksum(length, protocol)] *)
Definition pseudo (h : addr_hdr) (len proto : N) : res N :=
  match raw_dst h with
  | [] => ErrNoDst
  | _ =>
    match raw_src h with
    | [] => ErrNoSrc
    | _ =>
      let c := ia_sum (be 8 (src_ia h)) (be 8 (dst_ia h)) 0 in
      match addr_sum (raw_src h) c with
      | None => Panic
      | Some c1 =>
        match addr_sum (raw_dst h) c1 with
        | None => Panic
        | Some c2 =>
          let l := u32 len in
          let c3 := u32 (c2 + u32 (l / 65536 + l mod 65536)) in
          Ok (u32 (c3 + proto))
        end
      end
    end
  end.

(** [upperLayerChecksum]: pairs up to the safe boundary, then the odd last byte as a high byte *)
Fixpoint upper_sum (l : bytes) (c : N) : N :=
  match l with
  | [] => c
  | [hi] => u32 (c + hi * 256)
  | hi :: lo :: t => upper_sum t (add2 c hi lo)
  end.

(** [for csum > 0xffff { csum = (csum >> 16) + (csum & 0xffff) }]; two rounds suffice for a uint32 *)
Fixpoint fold_loop (fuel : nat) (c : N) : N :=
  match fuel with
  | O => c
  | S k => if 65535 <? c then fold_loop k (c / 65536 + c mod 65536) else c
  end.

(** [^uint16(csum)] *)
Definition fold (c : N) : N := 65535 - fold_loop 4 c mod 65536.

(** [computeChecksum(upperLayer, protocol)] *)
Definition compute_checksum (h : addr_hdr) (upper : bytes) (proto : N) : res N :=
  match pseudo h (N.of_nat (length upper)) proto with
  | Ok c => Ok (fold (upper_sum upper c))
  | ErrNoDst => ErrNoDst | ErrNoSrc => ErrNoSrc | Panic => Panic
  end.

(** what a receiver computes: the one's complement sum over pseudo header and upper layer (with
    the checksum field in place), folded, not complemented; [len] is the upper-layer length the
    pseudo header is built with *)
Definition verify_sum (h : addr_hdr) (len : N) (upper : bytes) (proto : N) : res N :=
  match pseudo h len proto with
  | Ok c => Ok (fold_loop 4 (upper_sum upper c))
  | ErrNoDst => ErrNoDst | ErrNoSrc => ErrNoSrc | Panic => Panic
  end.

(** ------------------------------------------------------------------
    UDP.SerializeTo / SCMP.SerializeTo *)
Definition proto_udp : N := 17.
Definition proto_scmp : N := 202.

(** UDP: ports and the Length field ([None]: FixLengths sets it to the total length, 0 above 65535);
    SCMP: type and code *)
Inductive l4 := UDP (sport dport : N) (len_field : option N) | SCMP (typ code : N).

Definition proto_of (l : l4) : N := match l with UDP _ _ _ => proto_udp | SCMP _ _ => proto_scmp end.

(** the bytes in front of the checksum field *)
Definition pre (l : l4) (payload_len : N) : bytes :=
  match l with
  | UDP sp dp lf =>
    let total := 8 + payload_len in
    let len := match lf with Some x => x | None => if total <=? 65535 then total else 0 end in
    be 2 sp ++ be 2 dp ++ be 2 len
  | SCMP t c => [t; c]
  end.

Definition serialize (h : addr_hdr) (l : l4) (payload : bytes) : res bytes :=
  let p := pre l (N.of_nat (length payload)) in
  match compute_checksum h (p ++ [0; 0] ++ payload) (proto_of l) with
  | Ok ck => Ok (p ++ be 2 ck ++ payload)
  | ErrNoDst => ErrNoDst | ErrNoSrc => ErrNoSrc | Panic => Panic
  end.

(** ------------------------------------------------------------------
    Specification vocabulary: 16-bit words and one's complement *)

(** the big-endian 16-bit words of a byte string, an odd last byte padded with a zero byte *)
Fixpoint words_of (l : bytes) : list N :=
  match l with
  | [] => []
  | [hi] => [hi * 256]
  | hi :: lo :: t => (hi * 256 + lo) :: words_of t
  end.

Definition sum (ws : list N) : N := fold_right N.add 0 ws.

(** one's complement folding of an exact sum: 0 for 0, else the representative of the class
    modulo 65535 in 1..65535 *)
Definition ones (s : N) : N := if s =? 0 then 0 else (s - 1) mod 65535 + 1.

(** the pseudo header as a byte string: DstIA, SrcIA, dst host, src host, upper-layer length (32 bit),
    three zero bytes, protocol; followed by the upper layer *)
Definition covered (h : addr_hdr) (len : N) (upper : bytes) (proto : N) : bytes :=
  be 8 (dst_ia h) ++ be 8 (src_ia h) ++ raw_dst h ++ raw_src h ++ be 4 len ++ [0; 0; 0; proto] ++ upper.

(** flipping bit [j] of byte [p] / of word [i] *)
Definition flip_nth (l : list N) (p : nat) (mask : N) : list N :=
  firstn p l ++ match skipn p l with [] => [] | x :: t => N.lxor x mask :: t end.
Definition flip_bit (l : bytes) (p : nat) (j : N) : bytes := flip_nth l p (2 ^ j).

(** ------------------------------------------------------------------
    Correspondence cases *)

(** byte strings travel as primitive integers, seven bytes in each, first byte in the low bits *)
Fixpoint int_bytes (k : nat) (w : int) : bytes :=
  match k with
  | O => []
  | S k' => Z.to_N (Uint63.to_Z (Uint63.land w 255%uint63)) :: int_bytes k' (Uint63.lsr w 8%uint63)
  end.
(** long strings as lists of short lists (long flat list literals parse slowly in coqc) *)
Definition bytes_of_ints (n : N) (ws : list (list int)) : bytes :=
  firstn (N.to_nat n) (flat_map (int_bytes 7) (concat ws)).

(** a single-bit flip of the sender's input: region 0 DstIA, 1 SrcIA (bit index 0..63 in [idx], [bit] unused),
    2 raw dst address, 3 raw src address, 4 the L4 bytes in front of the checksum, 5 payload *)
Definition flip_hdr (h : addr_hdr) (region idx bit : N) : addr_hdr :=
  match region with
  | 0 => {| dst_ia := N.lxor (dst_ia h) (2 ^ idx); src_ia := src_ia h; raw_dst := raw_dst h; raw_src := raw_src h |}
  | 1 => {| dst_ia := dst_ia h; src_ia := N.lxor (src_ia h) (2 ^ idx); raw_dst := raw_dst h; raw_src := raw_src h |}
  | 2 => {| dst_ia := dst_ia h; src_ia := src_ia h; raw_dst := flip_bit (raw_dst h) (N.to_nat idx) bit; raw_src := raw_src h |}
  | 3 => {| dst_ia := dst_ia h; src_ia := src_ia h; raw_dst := raw_dst h; raw_src := flip_bit (raw_src h) (N.to_nat idx) bit |}
  | _ => h
  end.

(** position in the upper layer of a flip in region 4 / 5 (the checksum field lies between them) *)
Definition flip_upper (prelen : N) (upper : bytes) (region idx bit : N) : bytes :=
  match region with
  | 4 => flip_bit upper (N.to_nat idx) bit
  | 5 => flip_bit upper (N.to_nat (prelen + 2 + idx)) bit
  | _ => upper
  end.

(** the checksum field of serialized L4 bytes *)
Definition ck_of (prelen : N) (upper : bytes) : N :=
  match skipn (N.to_nat prelen) upper with hi :: lo :: _ => hi * 256 + lo | _ => 0 end.
Definition zero_ck (prelen : N) (upper : bytes) : bytes :=
  firstn (N.to_nat prelen) upper ++ [0; 0] ++ skipn (N.to_nat prelen + 2) upper.

(** what the runner can tell apart without reading error texts: ok, error, panic *)
Definition res_code {A} (r : res A) : N :=
  match r with Ok _ => 0 | ErrNoDst => 1 | ErrNoSrc => 1 | Panic => 3 end.

Inductive case :=
(* one serialization: address header, L4 header fields, payload; the implementation's result
   (code 0 ok + L4 bytes, 1 error, 3 panic); then single-bit flips of the input
   (region, index, bit) with the checksum the implementation writes for the flipped input *)
| CSer (h : addr_hdr) (l : l4) (plen : N) (payload : list (list int))
       (impl_code : N) (impl_len : N) (impl : list (list int))
       (flips : list (N * N * N * N)).

Definition prelen (l : l4) : N := match l with UDP _ _ _ => 6 | SCMP _ _ => 2 end.

(** model side of a flip: the checksum written for the flipped input *)
Definition model_flip (h : addr_hdr) (l : l4) (upper0 : bytes) (f : N * N * N * N) : N :=
  let '(region, idx, bit, _) := f in
  match compute_checksum (flip_hdr h region idx bit) (flip_upper (prelen l) upper0 region idx bit) (proto_of l) with
  | Ok ck => ck
  | _ => 65536
  end.

(** put a checksum into the checksum field *)
Definition set_ck (prelen : N) (upper : bytes) (ck : N) : bytes :=
  firstn (N.to_nat prelen) upper ++ be 2 ck ++ skipn (N.to_nat prelen + 2) upper.

(** oracle side of a flip, on the implementation's bytes: with the flipped bit and the unchanged
    checksum the verification sum is no longer 0xFFFF, the checksum the implementation writes for
    the flipped input is a different one, and with that one in place the sum is 0xFFFF again (the
    flipped input is just another message) *)
Definition flip_oracle (h : addr_hdr) (l : l4) (impl : bytes) (f : N * N * N * N) : bool :=
  let '(region, idx, bit, ck') := f in
  let len := N.of_nat (length impl) in
  let h' := flip_hdr h region idx bit in
  let u' := flip_upper (prelen l) impl region idx bit in
  match verify_sum h' len u' (proto_of l), verify_sum h' len (set_ck (prelen l) u' ck') (proto_of l) with
  | Ok s, Ok s' => negb (s =? 65535) && negb (ck' =? ck_of (prelen l) impl) && (s' =? 65535)
  | _, _ => false
  end.

Definition even_len (l : bytes) : bool := Nat.even (length l).

(** the property on the implementation's observation: (for SCION address headers: non-empty host
    addresses of even length) serialization succeeds, the one's complement sum over pseudo header and
    the written bytes folds to 0xFFFF, and every listed single-bit flip changes it *)
Definition oracle (h : addr_hdr) (l : l4) (code ilen : N) (impl : bytes) (flips : list (N * N * N * N)) : bool :=
  if even_len (raw_dst h) && even_len (raw_src h) && negb (N.of_nat (length (raw_dst h)) =? 0)
     && negb (N.of_nat (length (raw_src h)) =? 0) then
    (code =? 0) &&
    match verify_sum h ilen impl (proto_of l) with
    | Ok s => (s =? 65535) && (N.of_nat (length impl) =? ilen)
    | _ => false
    end &&
    forallb (flip_oracle h l impl) flips
  else true.

Definition check (c : case) : N :=
  match c with
  | CSer h l plen pints code ilen iints flips =>
    let payload := bytes_of_ints plen pints in
    let impl := bytes_of_ints ilen iints in
    let m := serialize h l payload in
    let upper0 := pre l plen ++ [0; 0] ++ payload in
    let agree :=
      (res_code m =? code) &&
      match m with
      | Ok b => bytes_eqb b impl &&
                forallb (fun f => model_flip h l upper0 f =? snd f) flips
      | _ => true
      end in
    Check.verdict agree (oracle h l code ilen impl flips)
  end.

Definition diag (c : case) : list N :=
  match c with
  | CSer h l plen pints code ilen iints flips =>
    let payload := bytes_of_ints plen pints in
    let upper0 := pre l plen ++ [0; 0] ++ payload in
    match serialize h l payload with
    | Ok b => 0 :: ck_of (prelen l) b :: map (model_flip h l upper0) flips
    | r => [res_code r]
    end
  end.

End Checksum.
