(** Model of the border router's handling of EPIC paths
    ([scionPacketProcessor.processEPIC] in router/dataplane.go,
    [VerifyTimestamp] / [VerifyHVF] / [CalcMac] / [prepareMacInput] in
    pkg/experimental/epic/epic.go, the EPIC path header of
    pkg/slayers/path/epic/epic.go).  Definitions only.

    [processEPIC]: isPenultimate / isLast are read from the embedded SCION path BEFORE it is
    processed (plus: the hop after the current one is the penultimate one and [process()] did
    cross over to it); the embedded path goes through [process()] (= [Router.process_scion]);
    unless that forwards, its outcome is the outcome.  At the penultimate and at the last hop a
    forwarded packet must in addition be fresh ([VerifyTimestamp] with the timestamp of info
    field 0 and the packet timestamp offset) and carry the right PHVF resp. LHVF
    ([VerifyHVF] keyed with the FULL 16-byte MAC of the hop field verified last); otherwise
    it is discarded.

    The hop-field MAC is [fullq : segid ts exp in eg -> option (16 bytes)] (the 6 bytes the
    SCION checks compare are its prefix), the EPIC MAC is [emacq : auth -> input -> option
    (4 bytes)]: arbitrary total functions in the theorems, finite tables computed with the
    real path.FullMAC / libepic.CalcMac in the cases. *)
From Coq Require Import List NArith Bool.
From Scion Require Import Lib.Check Model.Router.
Import ListNotations.
Local Open Scope N_scope.

Module RouterEpic.
Import Router.

(** * Constants (compared with the Go constants by [CConst] cases) *)
Definition MaxPacketLifetimeNs : N := 2000000000.
Definition MaxClockSkewNs : N := 1000000000.
Definition TimestampResolutionNs : N := 21000.
Definition EpicMetaLen : N := 16.
Definition PktIDLen : N := 8.
Definition HVFLen : N := 4.
Definition AuthLen : N := 16.
Definition EpicPathType : N := 3.
Definition EpicMacBufferSize : N := 48.
(** what currentHopPointer / currentInfoPointer add for an EPIC packet on top of the offsets
    of a SCION-type path (the EPIC header sits in front of the embedded path) *)
Definition EpicPtrShift : N := 16.

Definition const_value (k : N) : option N :=
  match k with
  | 0 => Some MaxPacketLifetimeNs | 1 => Some MaxClockSkewNs | 2 => Some TimestampResolutionNs
  | 3 => Some EpicMetaLen | 4 => Some PktIDLen | 5 => Some HVFLen | 6 => Some AuthLen
  | 7 => Some EpicPathType | 8 => Some EpicMacBufferSize
  | _ => None
  end.

(** * The EPIC path header in front of the embedded SCION path *)
Record epic := mkEpic { e_ts : N; e_ctr : N; e_phvf : list N; e_lhvf : list N }.

(** * Freshness ([VerifyTimestamp]; all times in ns) *)
Definition ts_sender (info_ts epic_ts : N) : N :=
  info_ts * 1000000000 + (epic_ts + 1) * TimestampResolutionNs.
Definition verify_timestamp (info_ts epic_ts now : N) : bool :=
  (ts_sender info_ts epic_ts <=? now + MaxClockSkewNs) &&
  (now <=? ts_sender info_ts epic_ts + MaxPacketLifetimeNs + MaxClockSkewNs).

(** * Input of the EPIC MAC ([prepareMacInput]) *)
Definition pad_len (n : N) : N := (16 - n mod 16) mod 16.
Definition mac_input (src_type info_ts pkt_ts pkt_ctr src_ia : N) (src_raw : list N) (pay_len : N)
  : list N :=
  let body := [N.land src_type 3] ++ be_bytes 4 info_ts ++ be_bytes 4 pkt_ts ++ be_bytes 4 pkt_ctr ++
              be_bytes 8 src_ia ++ src_raw ++ be_bytes 2 pay_len in
  body ++ repeat 0 (N.to_nat (pad_len (N.of_nat (length body)))).

Definition is_penultimate (p : pkt) : bool := p_curr_hf p + 2 =? num_hops p.

(** a router that crosses over into the last segment at that segment's first hop field handles
    the hop field after the current one too; if that one is the penultimate hop field of the
    path, this router has to validate the PHVF (fix in /repo: before it, isPenultimate was
    only read from the pointer of the received packet and such a packet went unchecked) *)
Definition xover_to_penultimate (c : cfg) (p : pkt) : bool :=
  (p_curr_hf p + 3 =? num_hops p) && eff_xover p && negb (p_dst_ia p =? c_ia c).
(** does processEPIC apply the EPIC checks to a packet it forwards? *)
Definition epic_checked (c : cfg) (p : pkt) : bool :=
  is_penultimate p || xover_to_penultimate c p || is_last_hop p.
(** index of the hop field [verifyCurrentMAC] looks at last *)
Definition verified_index (c : cfg) (p : pkt) : N :=
  if eff_xover p && negb (p_dst_ia p =? c_ia c) then p_curr_hf p + 1 else p_curr_hf p.

(** the SCMP pointers that [process()] takes from currentHopPointer / currentInfoPointer *)
Definition path_pointer_code (code : N) : bool := (CodeInvalidPath <=? code) && (code <=? CodeInvalidSegmentChange).
Definition epic_view (r : result) : result :=
  match r with
  | SlowPath (SpScmp ty code ptr) e o =>
    if (ty =? ScmpParameterProblem) && path_pointer_code code
    then SlowPath (SpScmp ty code (ptr + EpicPtrShift)) e o else r
  | _ => r
  end.

Section WithMac.
Variable fullq : N -> N -> N -> N -> N -> option (list N).
Variable emacq : list N -> list N -> option (list N).
Variable c : cfg.
Variable now : N.
Variable ing : ingress.

Definition macq (sid ts e i g : N) : option (list N) := option_map (firstn 6) (fullq sid ts e i g).

(** the info / hop field [verifyCurrentMAC] looked at last ([p.cachedMac] is its full MAC) *)
Definition last_verified (p : pkt) : option (info * hop) :=
  match ingress_part macq c now ing p with
  | Ok s =>
    if p_dst_ia p =? c_ia c then Some (s_inf s, s_hop s)
    else match xover_part macq now s with
         | Ok s1 => Some (s_inf s1, s_hop s1)
         | Stop _ => None
         end
  | Stop _ => None
  end.

Definition hvf_of (ep : epic) (last : bool) : list N := if last then e_lhvf ep else e_phvf ep.

(** the two EPIC checks on a packet the SCION processing forwarded: [out] its embedded path
    afterwards *)
Inductive epic_verdict := EvOk | EvDiscard | EvMiss | EvBad.
Definition epic_checks (ep : epic) (p out : pkt) : epic_verdict :=
  match nthN (p_infos out) 0 with
  | None => EvDiscard
  | Some fi =>
    if negb (verify_timestamp (i_ts fi) (e_ts ep) now) then EvDiscard
    else
      match last_verified p with
      | None => EvBad
      | Some (i, h) =>
        match fullq (i_segid i) (i_ts i) (h_exp h) (h_in h) (h_eg h) with
        | None => EvMiss
        | Some auth =>
          if negb (N.of_nat (length auth) =? AuthLen) then EvDiscard
          else
            match emacq auth (mac_input (p_src_type p) (i_ts fi) (e_ts ep) (e_ctr ep) (p_src_ia p)
                                        (p_src_raw p) (p_pay_len p)) with
            | None => EvMiss
            | Some m =>
              if list_eqb N.eqb (hvf_of ep (is_last_hop p)) m then EvOk else EvDiscard
            end
        end
      end
  end.

Definition process_epic (ep : epic) (p : pkt) : result :=
  match process_scion macq c now ing p with
  | Forward e out d =>
    if epic_checked c p then
      match epic_checks ep p out with
      | EvOk => Forward e out d
      | EvDiscard => Discard
      | EvMiss => MacMiss
      | EvBad => BadInput
      end
    else Forward e out d
  | r => epic_view r
  end.

End WithMac.

(** * Tables for execution *)
Definition full_entry := (N * N * N * N * N * list N)%type.
Definition fullc (sid ts e i g hi lo : N) : full_entry :=
  (sid, ts, e, i, g, be_bytes 8 hi ++ be_bytes 8 lo).
Definition emac_entry := (list N * list N * list N)%type.
Fixpoint emac_lookup (t : list emac_entry) (auth input : list N) : option (list N) :=
  match t with
  | [] => None
  | (a, x, m) :: r =>
    if list_eqb N.eqb a auth && list_eqb N.eqb x input then Some m else emac_lookup r auth input
  end.

(** * Oracle: C13 on one observation of the real router *)
(** [result_eqb] extended to the two harness-error results (which the real router never
    produces), so that the comparison is reflexive *)
Definition result_same (a b : result) : bool :=
  match a, b with
  | MacMiss, MacMiss | BadInput, BadInput => true
  | _, _ => result_eqb a b
  end.

Definition c13_ok (fullq : N -> N -> N -> N -> N -> option (list N))
    (emacq : list N -> list N -> option (list N)) (c : cfg) (now : N) (ing : ingress)
    (ep : epic) (p : pkt) (impl : result) : bool :=
  let scion := process_scion (macq fullq) c now ing p in
  if epic_checked c p then
    match impl with
    | Forward e out d =>
      (* accepted: the embedded path was accepted with this very outcome, the packet is
         fresh, and the hop validation field is the EPIC MAC *)
      result_eqb scion impl &&
      match epic_checks fullq emacq c now ing ep p out with EvOk => true | _ => false end
    | Discard =>
      (* either the embedded path was dropped, or it was fine and EPIC refused *)
      match scion with
      | Discard => true
      | Forward _ out _ =>
        match epic_checks fullq emacq c now ing ep p out with EvOk => false | _ => true end
      | _ => false
      end
    | r => result_same (epic_view scion) r
    end
  else
    (* every other hop: exactly like the embedded SCION path *)
    result_same (epic_view scion) impl.

(** the EPIC header itself is never modified: byte offsets [epic_off .. epic_off+16) *)
Definition epic_off (p : pkt) : N := CmnHdrLen + addr_len p.
Definition epic_hdr_untouched (p : pkt) (impl : result) (changed : list N) : bool :=
  match impl with
  | Forward _ _ _ => forallb (fun o => (o <? epic_off p) || (epic_off p + EpicMetaLen <=? o)) changed
  | _ => true
  end.

(** * Cases *)
Inductive case :=
| CConst (k v : N)
  (* one EPIC packet through the real router *)
| CEpic (c : cfg) (now : N) (ing : ingress) (fulls : list full_entry) (emacs : list emac_entry)
        (ep : epic) (p : pkt) (impl : result) (changed : list N)
  (* a packet with a SCION-type path that went through the SAME reused packet processor as the
     EPIC packets around it (sequences: the processor must not carry state from one packet to
     the next, so the stateless per-packet model has to predict every result) *)
| CScion (c : cfg) (now : N) (ing : ingress) (macs : list mac_entry) (p : pkt) (impl : result)
  (* libepic.VerifyTimestamp(time.Unix(info_ts,0), epic_ts, now) = nil ? *)
| CTs (info_ts epic_ts now : N) (accepted : bool)
  (* the input block of the EPIC MAC for these fields, as laid out by the harness's independent
     implementation whose AES-CBC-MAC equals libepic.CalcMac *)
| CMacIn (src_type info_ts pkt_ts pkt_ctr src_ia : N) (src_raw : list N) (pay_len : N) (bytes : list N).

Definition model (cs : case) : result :=
  match cs with
  | CEpic c now ing fulls emacs ep p _ _ =>
    process_epic (mac_lookup fulls) (emac_lookup emacs) c now ing ep p
  | CScion c now ing macs p _ => process_scion (mac_lookup macs) c now ing p
  | _ => Done
  end.

Definition agree (cs : case) : bool :=
  match cs with
  | CConst k v => option_eqb N.eqb (const_value k) (Some v)
  | CEpic _ _ _ _ _ _ _ impl _ => result_eqb (model cs) impl
  | CScion _ _ _ _ _ impl => result_eqb (model cs) impl
  | CTs its ets now acc => Bool.eqb (verify_timestamp its ets now) acc
  | CMacIn st its pts pctr ia raw pl bytes => list_eqb N.eqb (mac_input st its pts pctr ia raw pl) bytes
  end.

Definition oracle (cs : case) : bool :=
  match cs with
  | CEpic c now ing fulls emacs ep p impl changed =>
    c13_ok (mac_lookup fulls) (emac_lookup emacs) c now ing ep p impl && epic_hdr_untouched p impl changed
  | CScion c _ ing _ p impl => c06_ok c ing p impl   (* link-type rules of the packet itself *)
  | CTs its ets now acc =>
    (* accepted => within [now - lifetime - skew, now + skew] *)
    negb acc ||
    ((ts_sender its ets <=? now + MaxClockSkewNs) &&
     (now <=? ts_sender its ets + MaxPacketLifetimeNs + MaxClockSkewNs))
  | _ => true
  end.

Definition check (cs : case) : N := Check.verdict (agree cs) (oracle cs).
Definition diag (cs : case) : result := model cs.

End RouterEpic.
